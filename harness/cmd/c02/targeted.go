package main

import (
	"fmt"

	"verifharness/front/gen"
	"verifharness/front/proj"
)

func nat(n string) gen.TypeExpr {
	for i, x := range gen.Natives {
		if x == n {
			return gen.TypeExpr{Kind: gen.XNative, Native: i}
		}
	}
	panic(n)
}

func fld(name string, coll int, t gen.TypeExpr, opt bool) *gen.Field {
	return &gen.Field{Name: name, Coll: coll, Ty: t, Opt: opt}
}

func act(s string) gen.Stmt { return gen.Stmt{Kind: gen.KAction, Text: s} }

// targeted: the shapes DESIGN.md Appendix B lists for C02 (and the validated mutants of the property text):
// optional cross-app reference inside a sequence; enum values >= 2^16; else-branches with > 4 statements;
// every HTTP verb; deep nesting.
func targeted() []*gen.Spec {
	var out []*gen.Spec
	one := func(bs ...gen.Block) { out = append(out, &gen.Spec{Files: []gen.File{{Name: "root.sysl", Blocks: bs}}}) }

	// 1. optional sequence of a cross-app reference, next to its non-optional / set / plain variants
	xref := gen.TypeExpr{Kind: gen.XRef, RefApp: []string{"Other"}, RefPath: []string{"Thing"}}
	nsref := gen.TypeExpr{Kind: gen.XRef, RefApp: []string{"Ns", "Deep"}, RefPath: []string{"Thing"}}
	one(
		gen.Block{App: []string{"Other"}, Members: []gen.Member{{Kind: gen.MType, Name: "Thing", Items: []gen.TableItem{{Field: fld("id", gen.CNone, nat("int"), false)}}}}},
		gen.Block{App: []string{"Ns", "Deep"}, Members: []gen.Member{{Kind: gen.MType, Name: "Thing", Items: []gen.TableItem{{Field: fld("id", gen.CNone, nat("string"), true)}}}}},
		gen.Block{App: []string{"Main"}, Members: []gen.Member{{Kind: gen.MTable, Name: "Holder", Items: []gen.TableItem{
			{Field: fld("a", gen.CSeq, xref, true)}, {Field: fld("b", gen.CSeq, xref, false)}, {Field: fld("c", gen.CSet, xref, true)},
			{Field: fld("d", gen.CNone, xref, true)}, {Field: fld("e", gen.CSeq, nsref, true)}, {Field: fld("f", gen.CSeq, nat("int"), true)},
			{Field: &gen.Field{Name: "g", Coll: gen.CSeq, Ty: nat("string"), Size: gen.SizeSpec{Kind: gen.ZSize1, A: 40}, Opt: true}},
		}}}},
	)
	// 2. enum values around 2^16 and 2^31
	one(gen.Block{App: []string{"E"}, Members: []gen.Member{{Kind: gen.MEnum, Name: "Big", Enum: []gen.EnumItem{
		{Name: "a", Val: 0}, {Name: "b", Val: 65535}, {Name: "c", Val: 65536}, {Name: "d", Val: 65537}, {Name: "e", Val: 131072 + 5},
		{Name: "f", Val: 2147483647}, {Name: "g", Val: 2147483648}, {Name: "h", Val: 4294967296 + 1}}}}})
	// 3. else-branches (and every other block kind) with 5..9 statements
	many := func(n int, p string) []gen.Stmt {
		var ss []gen.Stmt
		for i := 0; i < n; i++ {
			ss = append(ss, act(fmt.Sprintf("%s step %d", p, i)))
		}
		return ss
	}
	var body []gen.Stmt
	for n := 4; n <= 9; n++ {
		body = append(body, gen.Stmt{Kind: gen.KIf, Text: fmt.Sprintf("n == %d", n), Body: many(n, "th")},
			gen.Stmt{Kind: gen.KElse, Text: "if other", Body: many(n, "ei")}, gen.Stmt{Kind: gen.KElse, Body: many(n, "other")})
	}
	for _, k := range []int{gen.KFor, gen.KLoop, gen.KAlt, gen.KWhile, gen.KUntil, gen.KForEach, gen.KGroup} {
		t := "x in y"
		if k == gen.KGroup {
			t = "a group"
		}
		body = append(body, gen.Stmt{Kind: k, Text: t, Body: many(6, "blk")})
	}
	body = append(body, gen.Stmt{Kind: gen.KOneOf, Cases: []gen.Case{{Label: "case one", Body: many(6, "c1")}, {Label: "case two", Body: many(5, "c2")}}})
	one(gen.Block{App: []string{"S"}, Members: []gen.Member{{Kind: gen.MEndpoint, Name: "Run", Body: body}}})
	// 4. every HTTP verb, with path variables and query parameters, nested paths
	var kids []gen.RestChild
	for _, v := range []string{"GET", "PUT", "POST", "DELETE", "PATCH"} {
		kids = append(kids, gen.RestChild{Method: &gen.Method{Verb: v, Query: []gen.QueryVar{{Name: "q", Ty: nat("string")}, {Name: "n", Ty: nat("int"), Opt: true}},
			Body: []gen.Stmt{{Kind: gen.KRet, Text: "ok <: T"}}}})
	}
	sub := &gen.RestNode{Segs: []gen.PathSeg{{Var: "id", VarTy: nat("int")}, {Static: "items"}}, Children: append([]gen.RestChild{}, kids...)}
	top := &gen.RestNode{Segs: []gen.PathSeg{{Static: "things"}}, Children: append(append([]gen.RestChild{}, kids...), gen.RestChild{Sub: sub})}
	one(gen.Block{App: []string{"R"}, Members: []gen.Member{
		{Kind: gen.MType, Name: "T", Items: []gen.TableItem{{Field: fld("x", gen.CNone, nat("int"), false)}}},
		{Kind: gen.MRest, Rest: top}}})
	// 5. nesting depth 8
	deep := []gen.Stmt{act("bottom one"), act("bottom two")}
	for d := 0; d < 8; d++ {
		k := []int{gen.KIf, gen.KFor, gen.KWhile, gen.KGroup, gen.KForEach, gen.KAlt, gen.KUntil, gen.KLoop}[d]
		t := fmt.Sprintf("level %d", d)
		deep = []gen.Stmt{act(fmt.Sprintf("before %d", d)), {Kind: k, Text: t, Body: deep}, act(fmt.Sprintf("after %d", d))}
	}
	one(gen.Block{App: []string{"D"}, Members: []gen.Member{{Kind: gen.MEndpoint, Name: "Deep", Body: deep}}})
	// 6. every primitive kind x every size form it accepts
	var items []gen.TableItem
	n := 0
	for i := range gen.Natives {
		for z := gen.ZNone; z <= gen.ZArr; z++ {
			if !gen.SizeAllowed(i, z) {
				continue
			}
			for _, c := range []int{gen.CNone, gen.CSet, gen.CSeq} {
				n++
				items = append(items, gen.TableItem{Field: &gen.Field{Name: fmt.Sprintf("f%d", n), Coll: c, Ty: gen.TypeExpr{Kind: gen.XNative, Native: i},
					Size: gen.SizeSpec{Kind: z, A: int64(3 + n), B: int64(2 + n%7)}, Opt: n%2 == 0}})
			}
		}
	}
	one(gen.Block{App: []string{"P"}, Members: []gen.Member{{Kind: gen.MType, Name: "AllPrims", Items: items}}})
	// 7. regression corpus: the inputs of the five listener defects this check found (fixes/C02-1..5)
	doc := "what it holds"
	owner := gen.Anno{Name: "owner", Kind: 0, S: "team a"}
	owner2 := gen.Anno{Name: "contact", Kind: 0, S: "team b"}
	one(
		gen.Block{App: []string{"Reg"}, Members: []gen.Member{
			{Kind: gen.MEndpoint, Name: "Ep", Params: []gen.Field{{Name: "x", Coll: gen.CSet, Ty: nat("int")}, {Name: "y", Coll: gen.CSet, Ty: gen.TypeExpr{Kind: gen.XLocal, Local: "P&L"}}},
				Body: []gen.Stmt{act("do it")}},
			{Kind: gen.MEnum, Name: "Colour", Attribs: []gen.Entry{{Tag: "v2"}}, Enum: []gen.EnumItem{{Name: "red", Val: 1}}},
			{Kind: gen.MAnno, Anno: &owner},
			{Kind: gen.MType, Name: "P&L", Items: []gen.TableItem{{Field: &gen.Field{Name: "lines", Coll: gen.CSeq, Ty: nat("string"), Doc: &doc}},
				{Field: &gen.Field{Name: "tags", Coll: gen.CSet, Ty: gen.TypeExpr{Kind: gen.XLocal, Local: "Colour"}, Opt: true, Doc: &doc}}}},
			{Kind: gen.MRest, Rest: &gen.RestNode{Segs: []gen.PathSeg{{Static: "pl"}, {Var: "id", VarTy: gen.TypeExpr{Kind: gen.XLocal, Local: "P&L"}}},
				Children: []gen.RestChild{{Method: &gen.Method{Verb: "GET", Body: []gen.Stmt{{Kind: gen.KRet, Text: "ok <: Colour"}}}}}}},
		}},
		gen.Block{App: []string{"Reg2"}, Members: []gen.Member{
			{Kind: gen.MAlias, Name: "Ids", Attribs: []gen.Entry{{Tag: "v2"}}, AliasColl: gen.CSeq, AliasTy: nat("int")},
			{Kind: gen.MAnno, Anno: &owner2},
		}},
	)
	// 8. a subscriber written BEFORE the publisher declares the event with attributes: the event's tags and
	//    name=value attributes must survive, the subscriber's call must be in the event, in source order
	one(
		gen.Block{App: []string{"Sub1"}, Members: []gen.Member{
			{Kind: gen.MSubscribe, App: []string{"Pub"}, Name: "Evt", Attribs: []gen.Entry{{Tag: "sub"}}, Body: []gen.Stmt{act("handle it")}}}},
		gen.Block{App: []string{"Pub"}, Attribs: []gen.Entry{{Tag: "abstract"}}, Members: []gen.Member{
			{Kind: gen.MEvent, Name: "Evt", Attribs: []gen.Entry{{Tag: "tag"}, {Name: "k", Val: strAttr("v")}},
				Params: []gen.Field{{Name: "payload", Ty: nat("string")}}, Body: []gen.Stmt{act("publish it")}},
			{Kind: gen.MEvent, Name: "Quiet", Attribs: []gen.Entry{{Name: "k2", Val: strAttr("v2")}}}}},
		gen.Block{App: []string{"Sub2"}, Members: []gen.Member{
			{Kind: gen.MSubscribe, App: []string{"Pub"}, Name: "Evt", Body: []gen.Stmt{act("second handler")}},
			{Kind: gen.MSubscribe, App: []string{"Pub"}, Name: "Quiet"}}},
	)
	// 9. a literal `+` in return payloads, call endpoints, arguments and action texts (never a blank)
	one(gen.Block{App: []string{"Plus"}, Members: []gen.Member{
		{Kind: gen.MEndpoint, Name: "Media", Body: []gen.Stmt{
			{Kind: gen.KRet, Text: "ok <: application/vnd.api+json"},
			{Kind: gen.KCall, Target: []string{"Plus"}, Ep: "GET /items?fields=a+b"},
			{Kind: gen.KCall, Self: true, Ep: "Media", HasArgs: true, Args: []string{"sum a+b", "x <: int"}},
			{Kind: gen.KIf, Text: "a+b > 1", Body: []gen.Stmt{act("sum a+b now"), {Kind: gen.KRet, Text: "200 <: text/x+y"}}},
			{Kind: gen.KWhile, Text: "i+1 < n", Body: []gen.Stmt{act("\"quoted + plus\"")}},
		}},
		{Kind: gen.MRest, Rest: &gen.RestNode{Segs: []gen.PathSeg{{Static: "items"}}, Children: []gen.RestChild{
			{Method: &gen.Method{Verb: "GET", Body: []gen.Stmt{{Kind: gen.KRet, Text: "ok <: a+b"}}}}}}},
	}})
	// 10. keyword-like names (for.. if.. else.. loop.. alt.. while.. until.. return.. set.. one..) and names that must be
	//     %-escaped, in every position whose name the compiler unescapes
	kw := func(n string) gen.TypeExpr { return gen.TypeExpr{Kind: gen.XLocal, Local: n} }
	one(
		gen.Block{App: []string{"Formats", "R&D"}, Attribs: []gen.Entry{{Tag: "abstract"}}, Members: []gen.Member{
			{Kind: gen.MType, Name: "Iffy", Items: []gen.TableItem{{Field: fld("forecast", gen.CNone, nat("int"), false)}, {Field: fld("a&b", gen.CSeq, kw("P&L"), true)},
				{Field: fld("returned", gen.CSet, kw("Looped"), false)}, {Field: fld("elsewhere", gen.CNone, kw("set of x"), true)}}},
			{Kind: gen.MTable, Name: "P&L", Items: []gen.TableItem{{Field: &gen.Field{Name: "until_when", Ty: nat("date"), Attribs: []gen.Entry{{Tag: "pk"}}}},
				{Field: fld("whiled", gen.CNone, gen.TypeExpr{Kind: gen.XRef, RefApp: []string{"Formats", "R&D"}, RefPath: []string{"Iffy", "a&b"}}, false)}}},
			{Kind: gen.MEnum, Name: "Alt%ernate", Enum: []gen.EnumItem{{Name: "forX", Val: 1}, {Name: "Ifs", Val: 2}}},
			{Kind: gen.MAlias, Name: "Looped", AliasColl: gen.CSeq, AliasTy: kw("P&L")},
			{Kind: gen.MType, Name: "set of x", Whatever: true},
			{Kind: gen.MUnion, Name: "One&Other", Union: []gen.UnionMember{{Ty: kw("Iffy")}, {Coll: gen.CSet, Ty: kw("P&L")}}},
			{Kind: gen.MEndpoint, Name: "Returns", Params: []gen.Field{{Name: "if&when", Ty: kw("P&L"), Opt: true}, {Name: "format", Ty: nat("string")}},
				Body: []gen.Stmt{{Kind: gen.KCall, Target: []string{"Formats", "R&D"}, Ep: "Returns"}, {Kind: gen.KCall, Target: []string{"Whiles 100%"}, Ep: "Loopback"}}},
			{Kind: gen.MMixin, App: []string{"Whiles 100%"}},
		}},
		gen.Block{App: []string{"Whiles 100%"}, Attribs: []gen.Entry{{Tag: "abstract"}}, Members: []gen.Member{
			{Kind: gen.MEndpoint, Name: "Loopback"},
			{Kind: gen.MType, Name: "Elsewhere", Items: []gen.TableItem{{Field: fld("x", gen.CNone, gen.TypeExpr{Kind: gen.XRef, RefApp: []string{"Formats", "R&D"}, RefPath: []string{"P&L"}}, false)}}},
			{Kind: gen.MEvent, Name: "Altered"},
		}},
		gen.Block{App: []string{"Untilled"}, Members: []gen.Member{{Kind: gen.MSubscribe, App: []string{"Whiles 100%"}, Name: "Altered", Body: []gen.Stmt{act("noted")}}}},
	)
	// 11. regression for fixes/C02-6 (attributes merged into several places were shared, not copied):
	//     (a) two collector entries with tags / an array of the same name hitting a call that is written three times;
	//     (b) an array attribute of a REST method with the name of one on its path, followed by a sibling method
	arr := func(vs ...string) proj.Attr {
		a := proj.Attr{Kind: "a"}
		for _, v := range vs {
			a.Elts = append(a.Elts, strAttr(v))
		}
		return a
	}
	do := gen.Stmt{Kind: gen.KCall, Target: []string{"Svc"}, Ep: "Do"}
	one(
		gen.Block{App: []string{"Caller"}, Members: []gen.Member{
			{Kind: gen.MCollector, Collector: []gen.CEntry{
				{Kind: gen.CCall, Target: []string{"Svc"}, Ep: "Do", Attribs: []gen.Entry{{Tag: "one"}, {Name: "arr", Val: arr("x")}, {Name: "k", Val: strAttr("v")}}},
				{Kind: gen.CCall, Target: []string{"Svc"}, Ep: "Do", Attribs: []gen.Entry{{Tag: "two"}, {Name: "arr", Val: arr("y")}}},
				{Kind: gen.CAction, Ep: "Run", Attribs: []gen.Entry{{Tag: "onRun"}}},
				{Kind: gen.CAction, Ep: "Run", Attribs: []gen.Entry{{Tag: "again"}}}}},
			{Kind: gen.MEndpoint, Name: "Run", Body: []gen.Stmt{do,
				{Kind: gen.KIf, Text: "x", Body: []gen.Stmt{{Kind: gen.KCall, Target: []string{"Svc"}, Ep: "Do", Attribs: []gen.Entry{{Tag: "own"}}},
					{Kind: gen.KForEach, Text: "y in z", Body: []gen.Stmt{do, act("log it"), do}}}},
				{Kind: gen.KOneOf, Cases: []gen.Case{{Label: "c1", Body: []gen.Stmt{do}}, {Label: "c2", Body: []gen.Stmt{{Kind: gen.KCall, Target: []string{"Svc"}, Ep: "Other"}}}}}}},
			{Kind: gen.MRest, Rest: &gen.RestNode{Segs: []gen.PathSeg{{Static: "a"}}, Attribs: []gen.Entry{{Name: "x", Val: arr("1")}, {Tag: "p"}},
				Children: []gen.RestChild{
					{Method: &gen.Method{Verb: "GET", Attribs: []gen.Entry{{Name: "x", Val: arr("2")}, {Tag: "g"}}, Body: []gen.Stmt{{Kind: gen.KRet, Text: "ok"}}}},
					{Method: &gen.Method{Verb: "POST", Body: []gen.Stmt{{Kind: gen.KRet, Text: "ok"}}}}}}},
		}},
		gen.Block{App: []string{"Svc"}, Members: []gen.Member{{Kind: gen.MEndpoint, Name: "Do"}, {Kind: gen.MEndpoint, Name: "Other"}}},
	)
	// 12. attribute precedence (addAttrWithPrecedence): the same attribute given inline in the header and again as an
	//     annotation on ONE element keeps the FIRST non-empty value - arrays like strings; empty values are overwritten
	aArr := func(n string, vs ...string) gen.Anno { return gen.Anno{Name: n, Kind: 1, Arr: arr(vs...)} }
	aStr := func(n, v string) gen.Anno { return gen.Anno{Name: n, Kind: 0, S: v} }
	nested := proj.Attr{Kind: "a", Elts: []proj.Attr{arr("a"), arr("b", "c")}}
	own := func(vs ...string) []gen.Entry { return []gen.Entry{{Name: "owners", Val: arr(vs...)}} }
	o1, o2, o3, o4, o5 := aArr("owners", "dave", "erin"), aArr("owners", "dave", "erin"), aArr("owners", "dave", "erin"), aArr("owners", "dave", "erin"), aArr("owners", "dave", "erin")
	e1, e2 := aArr("tier"), aStr("team", "")
	s1, s2, s3 := aStr("tier", "gold"), aArr("team", "x", "y"), aStr("tier", "silver")
	n1, n2 := gen.Anno{Name: "grid", Kind: 1, Arr: nested}, aArr("grid", "flat")
	t1, t2 := aStr("mix", "text"), aArr("mix", "arr")
	u1, u2 := aArr("mix2", "arr"), aStr("mix2", "text")
	one(
		gen.Block{App: []string{"Bank"}, Attribs: own("alice"), Members: []gen.Member{
			{Kind: gen.MAnno, Anno: &o1},
			{Kind: gen.MType, Name: "Account", Attribs: own("carol"), Items: []gen.TableItem{
				{Field: &gen.Field{Name: "id", Ty: nat("int"), Attribs: own("fay"), Annos: []gen.Anno{o5}}},
				{Anno: &o2}, {Anno: &e1}, {Anno: &s1}, {Anno: &s3}, {Anno: &e2}, {Anno: &s2}, {Anno: &n1}, {Anno: &n2},
				{Anno: &t1}, {Anno: &t2}, {Anno: &u1}, {Anno: &u2}}},
			{Kind: gen.MEndpoint, Name: "Open", Attribs: own("bob"), Annos: []gen.Anno{o3, aArr("tier"), aArr("tier", "first"), aArr("tier", "second")},
				Body: []gen.Stmt{{Kind: gen.KRet, Text: "ok"}}},
			{Kind: gen.MRest, Rest: &gen.RestNode{Segs: []gen.PathSeg{{Static: "accounts"}}, Children: []gen.RestChild{
				{Method: &gen.Method{Verb: "GET", Attribs: own("gus"), Annos: []gen.Anno{o4, aStr("team", ""), aStr("team", "core")}, Body: []gen.Stmt{{Kind: gen.KRet, Text: "ok"}}}}}}},
		}},
	)
	// 13. in-place tuples (regressions for fixes/C02-7..10): a !table with a field AFTER an in-place tuple, and a nested
	//     field that has the name of a later key field of the table (key order [id note code]); a field name
	//     with a literal percent sign; the array form under a name that needs escaping; nesting; a reference inside
	nf := func(name string, t gen.TypeExpr) gen.NField { return gen.NField{Field: &gen.Field{Name: name, Ty: t}} }
	one(gen.Block{App: []string{"Geo"}, Members: []gen.Member{
		{Kind: gen.MTable, Name: "Place", Items: []gen.TableItem{
			{Field: &gen.Field{Name: "id", Ty: nat("int"), Attribs: []gen.Entry{{Tag: "pk"}}}},
			{Tuple: &gen.InTuple{Name: "inner", Fields: []gen.NField{nf("a", nat("int")), nf("code", nat("int"))}}},
			{Field: fld("z", gen.CNone, nat("int"), false)},
			{Field: &gen.Field{Name: "note", Ty: nat("string"), Attribs: []gen.Entry{{Tag: "pk"}}}},
			{Field: &gen.Field{Name: "code", Ty: nat("int"), Attribs: []gen.Entry{{Tag: "pk"}}}}}},
		{Kind: gen.MType, Name: "Shape", Items: []gen.TableItem{
			{Tuple: &gen.InTuple{Name: "arr", Array: true, Fields: []gen.NField{nf("a", nat("int"))}}},
			{Tuple: &gen.InTuple{Name: "a%41b", Fields: []gen.NField{nf("q", nat("int"))}}},
			{Tuple: &gen.InTuple{Name: "m n", Array: true, Fields: []gen.NField{nf("q", nat("int"))}}},
			{Tuple: &gen.InTuple{Name: "rate 100%", Fields: []gen.NField{nf("q", nat("string"))}}},
			{Tuple: &gen.InTuple{Name: "addr", Fields: []gen.NField{nf("street", nat("string")),
				{Tuple: &gen.InTuple{Name: "geo", Fields: []gen.NField{nf("lat", nat("float")), nf("back", gen.TypeExpr{Kind: gen.XLocal, Local: "Shape"})}}},
				nf("other", gen.TypeExpr{Kind: gen.XLocal, Local: "Place"})}}},
			{Field: fld("last", gen.CNone, nat("int"), false)}}},
	}})
	return out
}

func strAttr(s string) proj.Attr { return proj.Attr{Kind: "s", S: s} }
