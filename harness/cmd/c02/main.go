// C02: the compiled model says exactly what the specification text declares.
//
// A seeded generator builds an abstract specification (harness/front/gen), a renderer writes it as Sysl text
// with random legal surface choices (harness/front/render), the REAL parser compiles the text
// (parse.Parser.ParseFromFs) and a projector reduces the *sysl.Module to the observable named by the property
// (harness/front/proj). The ORACLE is model-independent: the projection of what the generator declared
// (gen.Intent, written from the language's meaning) must equal the projection of the compiled module
// (proj.Diff: every declared element present with the declared attributes, nothing undeclared). The
// CORRESPONDENCE prints the abstract specification and the observed projection as Gallina terms; Coq checks
// `denote spec = observed` with the model of the listener (coq/theories/Front/Denote.v).
package main

import (
	"encoding/json"
	"fmt"
	"os"
	"sort"
	"strings"
	"sync"
	"time"

	"github.com/anz-bank/sysl/pkg/parse"
	"github.com/anz-bank/sysl/pkg/sysl"
	"github.com/sirupsen/logrus"
	"github.com/spf13/afero"

	"verifharness/common"
	"verifharness/front/gen"
	"verifharness/front/proj"
	"verifharness/front/render"
)

// replay input: the text as written plus the declared projection; judged without generator or model
type replayIn struct {
	Stream   string            `json:"stream"`
	CaseSeed uint64            `json:"case_seed"`
	Root     string            `json:"root"`
	Files    map[string]string `json:"files"`
	Declared *proj.Module      `json:"declared"`
	Diffs    []string          `json:"differences,omitempty"`
}

func compile(root string, files map[string]string) (m *sysl.Module, msg string) {
	defer func() {
		if x := recover(); x != nil {
			m, msg = nil, "panic: "+fmt.Sprint(x)
		}
	}()
	fs := afero.NewMemMapFs()
	for n, c := range files {
		afero.WriteFile(fs, n, []byte(c), 0o644)
	}
	mod, err := parse.NewParser().ParseFromFs(root, fs)
	if err != nil {
		return nil, "error: " + err.Error()
	}
	return mod, ""
}

// judge: the oracle. Returns the observed projection (nil if the text did not compile).
func judge(ctx *common.Ctx, in *replayIn) *proj.Module {
	m, msg := compile(in.Root, in.Files)
	return judgeCompiled(ctx, in, m, msg)
}

func judgeCompiled(ctx *common.Ctx, in *replayIn, m *sysl.Module, msg string) *proj.Module {
	if m == nil {
		first := strings.SplitN(msg, "\n", 2)[0]
		if len(first) > 160 {
			first = first[:160]
		}
		in.Diffs = []string{"does not compile: " + first}
		ctx.Fail("compile.rejected", fmt.Sprintf("[%s] a well-formed generated specification is rejected: %s", in.Stream, first), in)
		return nil
	}
	obs := proj.FromModule(m)
	ds := proj.Diff(in.Declared, obs)
	if len(ds) > 0 {
		byKey := map[string]proj.Difference{}
		var keys []string
		for _, d := range ds {
			in.Diffs = append(in.Diffs, d.Key+" "+d.Path+": "+d.What)
			if _, ok := byKey[d.Key]; !ok {
				byKey[d.Key] = d
				keys = append(keys, d.Key)
			}
		}
		sort.Strings(keys)
		for _, k := range keys {
			d := byKey[k]
			ctx.Fail(k, fmt.Sprintf("[%s] %s: %s", in.Stream, d.Path, d.What), in)
		}
	}
	return obs
}

const header = `From Coq Require Import String List ZArith NArith Bool.
Require Import Verif.Base.Harness Verif.Front.Ast Verif.Front.Denote Verif.Front.RunC02.
Import ListNotations.
Local Open Scope string_scope. Local Open Scope Z_scope.`
const footer = `Definition M := Eval vm_compute in mismatches ok cases. Print M.
Definition CF := Eval vm_compute in cover cases. Print CF.`

func hist(ctx *common.Ctx, s *gen.Spec) (nontrivial bool, key string) {
	nb, nm, ns := 0, 0, 0
	var walk func(ss []gen.Stmt, d int)
	maxd := 0
	walk = func(ss []gen.Stmt, d int) {
		if d > maxd {
			maxd = d
		}
		for _, st := range ss {
			ns++
			ctx.Hist("stmt:" + []string{"action", "call", "ret", "if", "else", "for", "loop", "alt", "while", "until", "foreach", "group", "oneof"}[st.Kind])
			if st.Kind == gen.KElse && len(st.Body) > 4 {
				ctx.Hist("shape:else>4")
			}
			walk(st.Body, d+1)
			for _, c := range st.Cases {
				walk(c.Body, d+2)
			}
		}
	}
	fld := func(f gen.Field) {
		ctx.Hist("field:" + []string{"native", "local", "ref", "none"}[f.Ty.Kind])
		if f.Ty.Kind == gen.XNative {
			ctx.Hist("prim:" + gen.Natives[f.Ty.Native])
		}
		if f.Size.Kind != gen.ZNone {
			ctx.Hist("field:sized")
		}
		if f.Coll == gen.CSeq && f.Opt && f.Ty.Kind == gen.XRef {
			ctx.Hist("shape:opt-seq-of-xref")
		}
	}
	var rest func(n *gen.RestNode)
	rest = func(n *gen.RestNode) {
		for _, c := range n.Children {
			switch {
			case c.Method != nil:
				ctx.Hist("verb:" + c.Method.Verb)
				if len(c.Method.Query) > 0 {
					ctx.Hist("rest:query")
				}
				for _, p := range c.Method.Params {
					fld(p)
				}
				walk(c.Method.Body, 1)
			case c.Sub != nil:
				ctx.Hist("rest:nested")
				rest(c.Sub)
			}
		}
	}
	for _, b := range s.Blocks() {
		nb++
		if len(b.App) > 1 {
			ctx.Hist("app:namespaced")
		}
		for _, m := range b.Members {
			nm++
			ctx.Hist("member:" + []string{"anno", "type", "table", "enum", "alias", "union", "endpoint", "rest", "mixin", "event", "subscribe", "collector"}[m.Kind])
			for _, c := range m.Collector {
				ctx.Hist("collector:" + []string{"call", "action", "http"}[c.Kind])
			}
			for _, it := range m.Items {
				if it.Field != nil {
					fld(*it.Field)
				}
				if it.Tuple != nil {
					var tup func(t *gen.InTuple, d int)
					tup = func(t *gen.InTuple, d int) {
						ctx.Hist(fmt.Sprintf("inplace:depth%d", d))
						if t.Array {
							ctx.Hist("inplace:array")
						}
						if m.Kind == gen.MTable {
							ctx.Hist("inplace:in-table")
						}
						for _, n := range t.Fields {
							if n.Field != nil {
								fld(*n.Field)
							} else {
								tup(n.Tuple, d+1)
							}
						}
					}
					tup(it.Tuple, 1)
				}
			}
			for _, e := range m.Enum {
				if e.Val >= 65536 {
					ctx.Hist("shape:enum>=2^16")
				}
			}
			for _, p := range m.Params {
				fld(p)
			}
			walk(m.Body, 1)
			if m.Rest != nil {
				rest(m.Rest)
			}
		}
	}
	// member kinds of the sub-language on which Coq proves denote = canon (Front/Canon.v sub_member)
	inSub := true
	for _, b := range s.Blocks() {
		for _, m := range b.Members {
			if m.Kind == gen.MRest || m.Kind == gen.MSubscribe || m.Kind == gen.MCollector {
				inSub = false
			}
		}
	}
	if inSub {
		ctx.Hist("canon:in-sub-language")
	}
	ctx.Hist(fmt.Sprintf("depth:%d", maxd))
	return nm >= 2 || ns >= 2, fmt.Sprintf("%d/%d/%d/%d", nb, nm, ns, maxd)
}

type job struct {
	stream string
	seed   uint64
	spec   *gen.Spec
	in     *replayIn
	mod    *sysl.Module
	msg    string
}

var jobs []*job

func addCase(stream string, caseSeed uint64, spec *gen.Spec, plain bool) {
	out := render.Render(spec, common.NewRng(caseSeed+1), render.Options{Plain: plain})
	in := &replayIn{Stream: stream, CaseSeed: caseSeed, Root: out.Root, Files: out.Files, Declared: gen.Intent(spec)}
	jobs = append(jobs, &job{stream: stream, seed: caseSeed, spec: spec, in: in})
}

// compileAll: the real parser is the expensive part (~100 ms per text); texts are compiled on several
// goroutines, each with its own Parser, results are consumed in generation order.
func compileAll() {
	var wg sync.WaitGroup
	ch := make(chan *job)
	for w := 0; w < 8; w++ {
		wg.Add(1)
		go func() {
			defer wg.Done()
			for j := range ch {
				j.mod, j.msg = compile(j.in.Root, j.in.Files)
			}
		}()
	}
	for _, j := range jobs {
		ch <- j
	}
	close(ch)
	wg.Wait()
}

func finishCase(ctx *common.Ctx, cs *common.Cases, j *job) {
	obs := judgeCompiled(ctx, j.in, j.mod, j.msg)
	nt, key := hist(ctx, j.spec)
	ctx.Count(fmt.Sprintf("%s:%x:%s", j.stream, j.seed, key), nt)
	ctx.Hist("stream:" + j.stream)
	if len(ctx.Res.Samples) < 3 && nt && j.stream != "targeted" {
		ctx.Sample(map[string]interface{}{"stream": j.stream, "text": j.in.Files[j.in.Root]})
	}
	o := "None"
	if obs != nil {
		o = "(Some " + obs.Gallina() + ")"
	}
	cs.Add("("+j.spec.Gallina()+",\n "+o+")", map[string]interface{}{"stream": j.stream, "case_seed": j.seed, "root": j.in.Root, "files": j.in.Files, "declared": j.in.Declared})
}

func main() {
	logrus.SetLevel(logrus.PanicLevel)
	logrus.SetOutput(os.Stderr)
	ctx := common.Setup("C02")
	if ctx.Replay != "" {
		var in replayIn
		if err := common.LoadReplay(ctx.Replay, &in); err != nil {
			fmt.Fprintln(os.Stderr, "cannot load replay:", err)
			os.Exit(3)
		}
		in.Diffs = nil
		judge(ctx, &in)
		ctx.Count("replay", true)
		for _, d := range in.Diffs {
			fmt.Println("difference:", d)
		}
		ctx.Finish()
		return
	}
	nFull, nStaged, nColl, nTriples, nOrderRounds, nPrec, nFiles, perFile := 150, 70, 40, 8, 1, 30, 20, 15
	if ctx.Thorough() {
		nFull, nStaged, nColl, nTriples, nOrderRounds, nPrec, nFiles, perFile = 3000, 900, 400, 200, 10, 300, 300, 100
	}
	if ctx.Search {
		nFull, nStaged, nColl, nTriples, nPrec, nFiles = nFull*3, nStaged*2, nColl*3, nTriples*3, nPrec*3, nFiles*3
	}
	cs := ctx.NewCases("c02", header, "spec * option module", footer, perFile)
	// stream 1: the shapes Appendix B requires, hand-built, canonical and randomised layout
	for i, s := range targeted() {
		addCase("targeted", uint64(1000+i), s, true)
		addCase("targeted", ctx.Rng.Uint64(), s, false)
	}
	// stream 2: staged (construct by construct), small
	for i := 0; i < nStaged; i++ {
		seed := ctx.Rng.Uint64()
		k := gen.DefaultKnobs()
		k.Level = 1 + i%9
		k.MaxApps, k.MaxFields = 3, 4
		addCase(fmt.Sprintf("staged%d", k.Level), seed, gen.Generate(common.NewRng(seed), k), i%5 == 0)
	}
	// stream 2b: collector blocks (`.. * <- *:`) over statement trees planted with repeated calls
	for i := 0; i < nColl; i++ {
		seed := ctx.Rng.Uint64()
		addCase("collector", seed, gen.GenerateCollector(common.NewRng(seed)), i%6 == 0)
	}
	// stream 2c: declaration order - every ordered pair of member kinds directly after one another inside one
	// application (specification a = a b0 a b1 ...), plus random triples
	for a := 0; a < gen.NOrderKinds*nOrderRounds; a++ {
		a := a % gen.NOrderKinds
		seed := ctx.Rng.Uint64()
		sp, kinds := gen.GenerateOrder(common.NewRng(seed), a)
		for i := 0; i+1 < len(kinds); i++ {
			ctx.Hist("order:" + gen.OrderKindNames[kinds[i]] + ">" + gen.OrderKindNames[kinds[i+1]])
		}
		addCase("order", seed, sp, a%4 == 0)
	}
	for i := 0; i < nTriples; i++ {
		seed := ctx.Rng.Uint64()
		sp, _ := gen.GenerateOrderTriples(common.NewRng(seed), 6)
		addCase("order3", seed, sp, false)
	}
	// stream 2d: attribute precedence - one attribute name given inline and again by annotations on one element
	// (application, type, table, field, enum, alias, union, simple endpoint, REST method), every value kind in every order
	for i := 0; i < nPrec; i++ {
		seed := ctx.Rng.Uint64()
		addCase("prec", seed, gen.GeneratePrec(common.NewRng(seed)), i%5 == 0)
	}
	// stream 2e: multi-file specifications - the blocks of a generated specification cut into 2-4 files reached through
	// import statements (chain / star / mixed, with redundant and cyclic imports); applications continue across files
	for i := 0; i < nFiles; i++ {
		seed := ctx.Rng.Uint64()
		r := common.NewRng(seed)
		sp := gen.SplitFiles(gen.Generate(r, gen.DefaultKnobs()), r)
		ctx.Hist(fmt.Sprintf("files:%d", len(sp.Files)))
		addCase("files", seed, sp, false)
	}
	// stream 3: everything in scope
	for i := 0; i < nFull; i++ {
		seed := ctx.Rng.Uint64()
		k := gen.DefaultKnobs()
		if i%4 == 0 {
			k.StmtDepth, k.MaxStmts = 5, 3
		}
		addCase("full", seed, gen.Generate(common.NewRng(seed), k), false)
	}
	t0 := time.Now()
	compileAll()
	for _, j := range jobs {
		finishCase(ctx, cs, j)
	}
	cs.Close()
	ctx.Res.Rule = "abstract specifications (apps incl. namespaced/escaped names, types/tables with every primitive x size/array spec x set/sequence x local/cross-app reference x optional, enums, aliases, unions, simple and REST endpoints with params/query/path variables, full statement language nested to depth 5, mixins, events, subscriptions, collector blocks (`.. * <- *:` with call / endpoint / VERB-path entries over statement trees planted with repeated calls), every ordered pair of member kinds directly after one another inside one application, one attribute name declared inline and again by annotations on one element with every value kind in every order, in-place tuples (`field <:` + indented fields, nested to depth 3, array form, in !type and !table, names that need escaping), multi-file specifications (2-4 files joined by import statements, applications continued across files), every attribute form) rendered with random legal surface choices; non-trivial = at least two members or two statements; distinct by (stream, case seed, size signature)"
	b, _ := json.Marshal(map[string]int{"full": nFull, "staged": nStaged, "collector": nColl, "order": gen.NOrderKinds * nOrderRounds, "order3": nTriples, "prec": nPrec, "files": nFiles})
	ctx.Res.Extra["streams"] = json.RawMessage(b)
	ctx.Res.Extra["compile_wall_ms"] = time.Since(t0).Milliseconds()
	ctx.Finish()
}
