// C08 renderer: writes a Spec as Sysl text with a random layout and RECORDS, for every element it writes, the
// file, zero-based line and column (in characters) of the first character of the element's own declaration.
// It also keeps the text as lines of items (width in code points, byte length) and the tree of declarations with
// the ordinals of their first / last item, which is what the Coq model is run on.
package main

import (
	"fmt"
	"regexp"
	"sort"
	"strings"
	"unicode/utf8"

	"verifharness/common"
)

// kinds of declaration nodes (must agree with Loc/Model.v)
const (
	kApp      = 1
	kType     = 2
	kField    = 3
	kEndpoint = 4
	kEvent    = 5
	kRestPath = 6
	kMethod   = 7
	kText     = 8  // text statement (end column = start + length of the text)
	kPlain    = 9  // call / return statement
	kBlock    = 10 // if / else / for.. / group statement: own context, body is a statement scope
	kOneOf    = 11
	kCase     = 12 // one-of case: no context of its own, body is a statement scope
	kAnno     = 13 // @name = value
	kNvp      = 14 // name = value inside [...]
	kMod      = 15 // ~modifier inside [...]
	kItem     = 16 // array item
	kImport   = 17 // import statement (module.imports[i].source_context)
	kEnum     = 18
	kAlias    = 19
	kUnion    = 20
	kMember   = 21 // member of a union
	kDoc      = 22 // "| text" statement: the end is the stop token's
	kParam    = 23 // parameter of an endpoint / event / REST method (a field rule)
	kHolder   = 24 // the "..." body of an application: an endpoint named "..." that records nothing
	kQuery    = 25 // query parameter of a REST method ("?q=int"): EnterQuery_var, own context only
	// round 3, second pass
	kPathVar   = 26 // typed path parameter "{id <: int}" of a REST path: one context, shared by every method below the path
	kCollector = 27 // ".. * <- *:" : own context (appended per declaration), statement scope, End not overwritten
	kCollStmt  = 28 // statement of a collector (action / call / HTTP): own context, attributes when it is left
	kSubscribe = 29 // "Pub -> Event [..]:" : own context, attributes, statement scope
	kSubCall   = 30 // the call statement a subscription appends to the publisher's event: the subscription's context again
)

var kindClass = map[int]string{kApp: "app", kType: "type", kField: "field", kEndpoint: "endpoint", kEvent: "event", kMethod: "rest-endpoint",
	kText: "statement", kPlain: "statement", kBlock: "statement", kOneOf: "statement", kAnno: "annotation", kNvp: "annotation", kMod: "annotation", kItem: "annotation",
	kImport: "import", kEnum: "type", kAlias: "type", kUnion: "type", kMember: "union-member", kDoc: "statement", kParam: "parameter", kHolder: "endpoint", kQuery: "parameter",
	kPathVar: "path-parameter", kCollector: "endpoint", kCollStmt: "statement", kSubscribe: "endpoint", kSubCall: "statement"}

type item struct {
	Syn  bool // synthetic DEDENT
	W, L int  // width in code points, byte length
}

type node struct {
	Kind        int
	Key         int // interned declaration identity
	First, Last int // ordinals of first and last item of the rule
	TLen        int // kText: byte length of the statement text
	Attrs, Kids []*node
	SameAs      *node // kSubCall: first and last token are those of this node (the subscription)
}

// Decl is one recorded declaration: where the renderer wrote the first character of an element
type Decl struct {
	Kind  int      `json:"kind"`
	Key   int      `json:"key"`
	Paths []string `json:"paths"` // where the element is found in the compiled module
	File  string   `json:"file"`
	Line  int      `json:"line"`
	Col   int      `json:"col"`            // in characters
	BCol  int      `json:"bcol"`           // in bytes (diagnostics only)
	Show  string   `json:"show"`           // first characters of the declaration (diagnostics)
	Form  string   `json:"form,omitempty"` // value form of an attribute / annotation
	// written inside an !enum / !alias / !union that a later declaration of the same name replaced: not in the module
	Replaced bool `json:"replaced,omitempty"`
	// when the declaration was written (Ord) and when it was applied to each of its paths (Stamps, parallel to Paths, for
	// attributes of a REST path: every method declared below the path inherits them again) - one counter
	Ord    int   `json:"ord,omitempty"`
	Stamps []int `json:"stamps,omitempty"`
}

type fileOut struct {
	Idx       int // index of the file in the specification
	Name      string
	Text      string
	Lines     [][]item
	Forest    []*node
	DedentLen int
}

type layoutOpts struct {
	plain bool // canonical layout: 4 spaces, no comments, no blank lines
	crlf  bool // lines end in \r\n
}

type renderer struct {
	lay  *common.Rng
	opts layoutOpts
	// current file
	fname   string
	lines   [][]item
	texts   []string
	cur     []item
	curText strings.Builder
	col     int
	ord     int
	pending []*node
	// across files
	decls    []*Decl
	keys     map[string]int
	stmtN    map[string]int  // endpoint path -> number of statements so far
	modN     map[string]int  // owner path -> number of context-bearing pattern elements so far
	annoSeen map[string]bool // owner|name -> a non-empty value has been declared (later values are dropped)
	paramN   map[string]int  // endpoint path -> number of parameters so far
	lastDoc  map[string]bool // statement scope -> its last statement so far is a doc string
	impN     int             // import statements so far (all files)
	stamp    int
	likeKids map[string][]*Decl // enum / alias / union path -> what its latest declaration holds
	arrows   map[string]string  // subscription (app|publisher|event) -> spelling of its arrow token (part of the endpoint name)
	implicit map[string]bool    // module paths of elements a subscription creates without any location (publisher app / event)
}

func newRenderer(lay *common.Rng, o layoutOpts) *renderer {
	return &renderer{lay: lay, opts: o, keys: map[string]int{}, stmtN: map[string]int{}, modN: map[string]int{}, annoSeen: map[string]bool{},
		paramN: map[string]int{}, lastDoc: map[string]bool{}, likeKids: map[string][]*Decl{},
		arrows: map[string]string{}, implicit: map[string]bool{}}
}

func (r *renderer) key(s string) int {
	if k, ok := r.keys[s]; ok {
		return k
	}
	k := len(r.keys) + 1
	r.keys[s] = k
	return k
}

// ---- low-level writing ----

func (r *renderer) startFile(name string) {
	r.fname = name
	r.lines, r.texts, r.cur = nil, nil, nil
	r.curText.Reset()
	r.col, r.ord = 0, 0
	r.pending = nil
}

func (r *renderer) raw(s string, syn bool) int {
	o := r.ord
	r.ord++
	if syn {
		r.cur = append(r.cur, item{Syn: true})
		return o
	}
	r.cur = append(r.cur, item{W: utf8.RuneCountInString(s), L: len(s)})
	r.curText.WriteString(s)
	r.col += utf8.RuneCountInString(s)
	return o
}

// tok writes a visible token and returns its ordinal
func (r *renderer) tok(s string) int { return r.raw(s, false) }

// hid writes hidden text (whitespace, comment)
func (r *renderer) hid(s string) {
	if s != "" {
		r.raw(s, false)
	}
}

func (r *renderer) nl() {
	r.lines = append(r.lines, r.cur)
	r.texts = append(r.texts, r.curText.String())
	r.cur = nil
	r.curText.Reset()
	r.col = 0
}

// flush writes the DEDENT tokens of the bodies that ended; called at the start of the next content line / at EOF
func (r *renderer) flush() {
	for _, n := range r.pending {
		n.Last = r.raw("", true)
	}
	r.pending = nil
}

func (r *renderer) closeBody(n *node) { r.pending = append(r.pending, n) }

// gap: mandatory whitespace between two tokens
func (r *renderer) gap() {
	if r.opts.plain {
		r.hid(" ")
		return
	}
	switch r.lay.Intn(10) {
	case 0:
		r.hid("  ")
	case 1:
		r.hid("\t")
	case 2:
		r.hid("   ")
	case 3:
		r.hid(" \t")
	default:
		r.hid(" ")
	}
}

// ogap: optional whitespace
func (r *renderer) ogap(def string) {
	if r.opts.plain {
		r.hid(def)
		return
	}
	switch r.lay.Intn(8) {
	case 0:
		r.hid("")
	case 1:
		r.hid("  ")
	case 2:
		r.hid("\t")
	default:
		r.hid(def)
	}
}

// indentString spells leading whitespace of the given lexer width (space 1, tab 4)
func (r *renderer) indentString(width int) string {
	if r.opts.plain || width < 4 || r.lay.Chance(3, 5) {
		return strings.Repeat(" ", width)
	}
	nt := 1 + r.lay.Intn(width/4)
	sp := width - 4*nt
	switch r.lay.Intn(3) {
	case 0:
		return strings.Repeat("\t", nt) + strings.Repeat(" ", sp)
	case 1:
		return strings.Repeat(" ", sp) + strings.Repeat("\t", nt)
	default:
		a := r.lay.Intn(sp + 1)
		return strings.Repeat(" ", a) + strings.Repeat("\t", nt) + strings.Repeat(" ", sp-a)
	}
}

func (r *renderer) childWidth(parent int) int {
	if r.opts.plain {
		return parent + 4
	}
	return parent + []int{1, 2, 3, 4, 4, 4, 5, 8}[r.lay.Intn(8)]
}

// filler: blank and comment lines before a content line of the given width
func (r *renderer) filler(width int) {
	if r.opts.plain {
		return
	}
	for r.lay.Chance(1, 5) {
		switch r.lay.Intn(5) {
		case 0:
			// empty line
		case 1:
			r.hid("# note " + nonASCII[r.lay.Intn(len(nonASCII))])
		case 2:
			r.hid(r.indentString(width))
			r.hid("# indented note")
		case 3:
			r.hid(strings.Repeat(" ", r.lay.Intn(7)))
			r.hid("#c")
		default:
			r.hid(strings.Repeat(" ", 1+r.lay.Intn(6)))
		}
		r.nl()
	}
}

// begin starts a content line at the given indentation width
func (r *renderer) begin(width int) {
	r.filler(width)
	r.flush()
	if width > 0 {
		r.hid(r.indentString(width))
	}
}

// end finishes a content line; header lines (ending in ':') may carry a trailing comment
func (r *renderer) end(header bool) {
	if !r.opts.plain {
		if header && r.lay.Chance(1, 8) {
			r.ogap(" ")
			r.hid("# trailing " + nonASCII[r.lay.Intn(len(nonASCII))])
		} else if r.lay.Chance(1, 10) {
			r.hid(strings.Repeat(" ", 1+r.lay.Intn(3)))
		}
	}
	r.nl()
}

func (r *renderer) finishFile(forest []*node) fileOut {
	final := true
	if !r.opts.plain {
		for r.lay.Chance(1, 6) {
			r.hid("# closing note")
			r.nl()
		}
		final = !r.lay.Chance(1, 5)
	}
	if final || len(r.cur) == 0 && len(r.lines) == 0 {
		// text ends with a newline: EOF sits on a further, empty line
		r.flush()
		r.nl()
	} else {
		// no final newline: put the last written line back and let EOF sit at its end
		last := len(r.lines) - 1
		r.cur = r.lines[last]
		r.curText.WriteString(r.texts[last])
		r.lines, r.texts = r.lines[:last], r.texts[:last]
		r.flush()
		r.nl()
	}
	text := strings.Join(r.texts, "\n")
	if r.opts.crlf {
		text = strings.Join(r.texts, "\r\n")
	}
	dl := 0
	if text != "" {
		_, dl = utf8.DecodeRuneInString(text)
	}
	return fileOut{Name: r.fname, Text: text, Lines: r.lines, Forest: forest, DedentLen: dl}
}

// ---- recording ----

func (r *renderer) decl(kind int, keyStr string, paths []string, show string) *Decl {
	r.stamp++
	d := &Decl{Kind: kind, Key: r.key(keyStr), Paths: paths, File: r.fname, Line: len(r.lines), Col: r.col, BCol: r.curText.Len(), Show: show, Ord: r.stamp}
	r.decls = append(r.decls, d)
	return d
}

func quote(s string) string { return `"` + s + `"` }

// ---- attributes ----

// inherited attribute declarations (REST path level) that apply to every method below
type inh struct {
	nvps []*inhNvp
	mods []*Decl
	vars []*Decl // typed path parameters
}
type inhNvp struct {
	name  string
	d     *Decl
	items []*Decl
}

// attribs writes "[...]" and returns the nodes; owners: module paths of the owning elements ("" = deferred, REST path)
func (r *renderer) attribs(as []Attr, owners []string, in *inh) []*node {
	var out []*node
	r.tok("[")
	for i, a := range as {
		if i > 0 {
			r.ogap("")
			r.tok(",")
			r.ogap(" ")
		} else {
			r.ogap("")
		}
		switch a.Kind {
		case 1:
			n := &node{Kind: kMod}
			var paths []string
			for _, o := range owners {
				paths = append(paths, fmt.Sprintf("~|%s|%d", o, r.modN[o]))
				r.modN[o]++
			}
			d := r.decl(kMod, fmt.Sprintf("mod|%s|%d|%d", r.fname, len(r.lines), r.col), paths, "~"+a.Name)
			n.Key = d.Key
			n.First = r.tok("~")
			n.Last = r.tok(a.Name)
			if in != nil {
				in.mods = append(in.mods, d)
			}
			out = append(out, n)
		default:
			n := &node{Kind: kNvp}
			var paths []string
			for _, o := range owners {
				paths = append(paths, "@|"+o+"|"+a.Name)
			}
			d := r.decl(kNvp, fmt.Sprintf("nvp|%s|%d|%d", r.fname, len(r.lines), r.col), paths, a.Name+"=")
			n.Key = d.Key
			n.First = r.tok(a.Name)
			r.ogap("")
			r.tok("=")
			r.ogap("")
			var ih *inhNvp
			if in != nil {
				ih = &inhNvp{name: a.Name, d: d}
				in.nvps = append(in.nvps, ih)
			}
			d.Form = formOf(a.Form, a.Items)
			var ids []*Decl
			n.Kids, n.Last, ids = r.value(a.Form, a.Val, a.Items, a.Nested, owners, a.Name)
			if ih != nil {
				ih.items = ids
			}
			out = append(out, n)
		}
	}
	r.ogap("")
	r.tok("]")
	return out
}

var formName = map[int]string{fDefault: "string", fNested: "nested-array", fEmptyArr: "empty-array", fEmptyStr: "empty-string", fMulti: "multiline"}

func formOf(form int, items []string) string {
	if form == fDefault && len(items) > 0 {
		return "flat-array"
	}
	return formName[form]
}

// value writes the value of an attribute / annotation (all forms but the multi-line doc string)
func (r *renderer) value(form int, val string, items []string, nested [][]string, owners []string, name string) ([]*node, int, []*Decl) {
	switch {
	case form == fNested:
		var out []*node
		r.tok("[")
		for i, sub := range nested {
			if i > 0 {
				r.ogap("")
				r.tok(",")
				r.ogap(" ")
			} else {
				r.ogap("")
			}
			var paths []string
			for _, o := range owners {
				paths = append(paths, fmt.Sprintf("#|%s|%s|%d", o, name, i))
			}
			d := r.decl(kItem, fmt.Sprintf("item|%s|%d|%d", r.fname, len(r.lines), r.col), paths, "[")
			n := &node{Kind: kItem, Key: d.Key, First: r.ord}
			n.Kids, n.Last, _ = r.array(sub, owners, name, fmt.Sprintf("%d.", i))
			out = append(out, n)
		}
		r.ogap("")
		return out, r.tok("]"), nil
	case form == fEmptyArr:
		r.tok("[")
		r.ogap("")
		return nil, r.tok("]"), nil
	case form == fEmptyStr:
		return nil, r.tok(`""`), nil
	case len(items) > 0:
		return r.array(items, owners, name, "")
	}
	return nil, r.tok(quote(val)), nil
}

// array writes ["a", "b"]; returns item nodes and the ordinal of the closing bracket
func (r *renderer) array(items []string, owners []string, name string, prefix string) ([]*node, int, []*Decl) {
	var out []*node
	var ds []*Decl
	r.tok("[")
	for i, it := range items {
		if i > 0 {
			r.ogap("")
			r.tok(",")
			r.ogap(" ")
		} else {
			r.ogap("")
		}
		var paths []string
		for _, o := range owners {
			paths = append(paths, fmt.Sprintf("#|%s|%s|%s%d", o, name, prefix, i))
		}
		d := r.decl(kItem, fmt.Sprintf("item|%s|%d|%d", r.fname, len(r.lines), r.col), paths, quote(it))
		o := r.tok(quote(it))
		out = append(out, &node{Kind: kItem, Key: d.Key, First: o, Last: o})
		ds = append(ds, d)
	}
	r.ogap("")
	last := r.tok("]")
	return out, last, ds
}

// anno writes one "@name = value" line; owners as for attribs
func (r *renderer) anno(a Anno, width int, owners []string, in *inh) *node {
	r.begin(width)
	n := &node{Kind: kAnno}
	var paths []string
	first := true // no non-empty value so far: this declaration's value (and items) is the one the module keeps
	nonEmpty := !(a.Form == fEmptyArr || a.Form == fEmptyStr)
	for _, o := range owners {
		paths = append(paths, "@|"+o+"|"+a.Name)
		if r.annoSeen[o+"|"+a.Name] {
			first = false
		}
		if nonEmpty {
			r.annoSeen[o+"|"+a.Name] = true
		}
	}
	keyStr := fmt.Sprintf("anno|%s|%d|%d", r.fname, len(r.lines), r.col)
	if len(owners) == 1 {
		keyStr = "@|" + owners[0] + "|" + a.Name // re-declarations of one annotation share the key
	}
	d := r.decl(kAnno, keyStr, paths, "@"+a.Name)
	n.Key = d.Key
	n.First = r.tok("@")
	r.tok(a.Name)
	r.ogap(" ")
	r.tok("=")
	r.ogap(" ")
	var ih *inhNvp
	if in != nil {
		ih = &inhNvp{name: a.Name, d: d}
		in.nvps = append(in.nvps, ih)
	}
	d.Form = formOf(a.Form, a.Items)
	if a.Form == fMulti {
		// "@name =:" followed by an indented block of "| text" lines; the rule ends with the block's DEDENT
		r.tok(":")
		r.end(true)
		w := r.childWidth(width)
		for _, l := range a.Lines {
			r.begin(w)
			r.tok("|")
			r.tok(" " + l)
			r.nl()
		}
		r.closeBody(n)
		return n
	}
	own := owners
	if !first {
		own = nil // the value of a re-declared annotation is dropped: its items are not in the module
	}
	var ids []*Decl
	n.Kids, n.Last, ids = r.value(a.Form, a.Val, a.Items, a.Nested, own, a.Name)
	if ih != nil {
		ih.items = ids
	}
	r.end(false)
	return n
}

// ---- statements ----

func (r *renderer) stmts(ss []Stmt, width int, scope string, counter *int) []*node {
	var out []*node
	for _, s := range ss {
		idx := *counter
		*counter++
		path := fmt.Sprintf("%s.%d", scope, idx)
		if s.Kind == sDoc && r.lastDoc[scope] {
			// doc-string lines that follow a doc-string statement of the same scope (possibly written by an earlier
			// declaration of the endpoint) are added to that statement: no statement, no location
			*counter--
			for _, l := range s.Lines {
				r.begin(width)
				r.tok("|")
				r.tok(" " + l)
				r.nl()
			}
			continue
		}
		r.lastDoc[scope] = s.Kind == sDoc
		r.begin(width)
		switch s.Kind {
		case sDoc:
			d := r.decl(kDoc, path, []string{path}, "| "+s.Lines[0])
			n := &node{Kind: kDoc, Key: d.Key}
			for i, l := range s.Lines {
				if i > 0 {
					r.begin(width)
				}
				o := r.tok("|")
				t := r.tok(" " + l)
				if i == 0 {
					n.First, n.Last = o, t
				}
				r.nl()
			}
			out = append(out, n)
		case sText, sQText:
			txt := s.Text
			if s.Kind == sQText {
				txt = quote(s.Text)
			}
			d := r.decl(kText, path, []string{path}, txt)
			o := r.tok(txt)
			n := &node{Kind: kText, Key: d.Key, First: o, Last: o, TLen: len(txt)}
			if len(s.Attrs) > 0 {
				r.gap()
				n.Attrs = r.attribs(s.Attrs, []string{path}, nil)
			}
			r.end(false)
			out = append(out, n)
		case sCall:
			show := ". <- " + s.Text
			d := r.decl(kPlain, path, []string{path}, show)
			n := &node{Kind: kPlain, Key: d.Key}
			if s.Dot {
				n.First = r.tok(". <-") // one token: a dot, at least one blank, the arrow
			} else {
				parts := strings.Split(s.Kw, " :: ")
				for i, p := range parts {
					if i > 0 {
						r.ogap(" ")
						r.tok("::")
						r.ogap(" ")
					}
					o := r.tok(p)
					if i == 0 {
						n.First = o
					}
				}
				r.ogap(" ")
				r.tok("<-")
			}
			// the callee is lexed in ARGS mode: one token from the end of the arrow up to '[' / end of line, whose
			// TEXT is trimmed; after ". <-" (which, unlike "<-", does not swallow the blanks behind it) the token
			// therefore starts at the blanks but is only as long as the name
			if s.Dot {
				lead := " "
				if !r.opts.plain {
					lead = []string{" ", " ", "  ", "\t", " \t "}[r.lay.Intn(5)]
				}
				n.Last = r.tok(lead + s.Text)
				r.cur[len(r.cur)-1].L = len(s.Text)
			} else {
				r.ogap(" ")
				n.Last = r.tok(s.Text)
			}
			if len(s.Attrs) > 0 {
				r.gap()
				n.Attrs = r.attribs(s.Attrs, []string{path}, nil)
			}
			r.end(false)
			out = append(out, n)
		case sRet:
			d := r.decl(kPlain, path, []string{path}, "return "+s.Text)
			n := &node{Kind: kPlain, Key: d.Key}
			n.First = r.tok("return")
			// the payload token (TEXT) runs from the keyword to the end of the line, trailing blanks included
			trail := ""
			if !r.opts.plain && r.lay.Chance(1, 8) {
				trail = strings.Repeat(" ", 1+r.lay.Intn(3))
			}
			n.Last = r.tok(" " + s.Text + trail)
			r.nl()
			out = append(out, n)
		case sIf, sElse, sLoop, sGroup:
			var kw string
			switch s.Kind {
			case sIf:
				kw = "if"
			case sElse:
				kw = "else"
			case sLoop:
				kw = s.Kw
			}
			d := r.decl(kBlock, path, []string{path}, kw+" "+s.Text)
			n := &node{Kind: kBlock, Key: d.Key}
			if s.Kind == sGroup {
				n.First = r.tok(s.Text)
			} else {
				n.First = r.tok(kw)
				if s.Text != "" {
					r.gap()
					r.tok(s.Text)
				}
			}
			r.ogap("")
			r.tok(":")
			r.end(true)
			c := 0
			n.Kids = r.stmts(s.Body, r.childWidth(width), path, &c)
			r.closeBody(n)
			out = append(out, n)
		case sOneOf:
			d := r.decl(kOneOf, path, []string{path}, "one of")
			n := &node{Kind: kOneOf, Key: d.Key}
			n.First = r.tok("one of")
			r.ogap("")
			r.tok(":")
			r.end(true)
			cw := r.childWidth(width)
			for ci, cs := range s.Cases {
				r.begin(cw)
				cn := &node{Kind: kCase}
				cn.First = r.tok(cs.Label)
				r.ogap("")
				cn.Last = r.tok(":")
				r.end(true)
				c := 0
				cn.Kids = r.stmts(cs.Body, r.childWidth(cw), fmt.Sprintf("%s.c%d", path, ci), &c)
				n.Kids = append(n.Kids, cn)
			}
			r.closeBody(n)
			out = append(out, n)
		}
	}
	return out
}

// ---- members ----

// param writes "name <: type [attributes]" inside the parentheses of an endpoint header
func (r *renderer) params(ep string, ps []Field) []*node {
	var out []*node
	r.ogap("")
	r.tok("(")
	for i, f := range ps {
		if i > 0 {
			r.ogap("")
			r.tok(",")
			r.ogap(" ")
		} else {
			r.ogap("")
		}
		pp := fmt.Sprintf("P|%s|%d", ep, r.paramN[ep])
		r.paramN[ep]++
		d := r.decl(kParam, pp, []string{pp}, f.Name+" <: "+f.Type)
		n := &node{Kind: kParam, Key: d.Key}
		n.First = r.tok(f.Name)
		r.ogap(" ")
		r.tok("<:")
		r.ogap(" ")
		n.Last = r.typeSpelling(f.Type)
		if len(f.Attrs) > 0 {
			r.ogap(" ")
			n.Attrs = r.attribs(f.Attrs, []string{pp}, nil)
			n.Last = r.ord - 1
		}
		out = append(out, n)
	}
	r.ogap("")
	r.tok(")")
	return out
}

// typeLike writes an enum, alias or union
func (r *renderer) typeLike(app string, t TypeD, width int) *node {
	tp := "T|" + app + "|" + t.Name
	if old, again := r.likeKids[tp]; again {
		// a second declaration REPLACES the type: attributes, annotations and members of the first are gone
		for _, d := range old {
			d.Replaced = true
		}
		for k := range r.annoSeen {
			if strings.HasPrefix(k, tp+"|") {
				delete(r.annoSeen, k)
			}
		}
		r.modN[tp] = 0
	}
	at := len(r.decls) + 1
	defer func() { r.likeKids[tp] = append([]*Decl{}, r.decls[at:]...) }()
	r.begin(width)
	kw, kind := "!enum", kEnum
	switch t.Form {
	case tAlias:
		kw, kind = "!alias", kAlias
	case tUnion:
		kw, kind = "!union", kUnion
	}
	d := r.decl(kind, tp, []string{tp}, kw+" "+t.Name)
	n := &node{Kind: kind, Key: d.Key}
	n.First = r.tok(kw)
	r.gap()
	r.tok(t.Name)
	if len(t.Attrs) > 0 {
		r.ogap(" ")
		n.Attrs = r.attribs(t.Attrs, []string{tp}, nil)
	}
	r.ogap("")
	r.tok(":")
	if t.Form == tAlias && t.Inline {
		r.gap()
		n.Last = r.typeSpelling(t.Target)
		r.end(false)
		return n
	}
	if t.Form == tUnion && len(t.Members) == 0 && len(t.Annos) == 0 {
		r.gap()
		n.Last = r.tok("...")
		r.end(false)
		return n
	}
	r.end(true)
	cw := r.childWidth(width)
	for _, a := range t.Annos {
		n.Kids = append(n.Kids, r.anno(a, cw, []string{tp}, nil))
	}
	switch t.Form {
	case tEnum:
		for i, m := range t.Members {
			r.begin(cw)
			r.tok(m)
			r.ogap("")
			r.tok(":")
			r.ogap(" ")
			r.tok(fmt.Sprint(i + 1))
			r.end(false)
		}
	case tAlias:
		r.begin(cw)
		r.typeSpelling(t.Target)
		r.end(false)
	case tUnion:
		for i, m := range t.Members {
			mp := fmt.Sprintf("U|%s|%s|%d", app, t.Name, i)
			r.begin(cw)
			md := r.decl(kMember, mp, []string{mp}, m)
			mn := &node{Kind: kMember, Key: md.Key, First: r.ord}
			mn.Last = r.typeSpelling(m)
			r.end(false)
			n.Kids = append(n.Kids, mn)
		}
		if len(t.Members) == 0 {
			r.begin(cw)
			r.tok("...")
			r.end(false)
		}
	}
	r.closeBody(n)
	return n
}

func (r *renderer) typeD(app string, t TypeD, width int) *node {
	if t.Form != tType {
		return r.typeLike(app, t, width)
	}
	tp := "T|" + app + "|" + t.Name
	r.begin(width)
	kw := "!type"
	if t.Table {
		kw = "!table"
	}
	d := r.decl(kType, tp, []string{tp}, kw+" "+t.Name)
	n := &node{Kind: kType, Key: d.Key}
	n.First = r.tok(kw)
	r.gap()
	r.tok(t.Name)
	if len(t.Attrs) > 0 {
		r.ogap(" ")
		n.Attrs = r.attribs(t.Attrs, []string{tp}, nil)
	}
	r.ogap("")
	r.tok(":")
	r.end(true)
	cw := r.childWidth(width)
	for _, a := range t.Annos {
		n.Kids = append(n.Kids, r.anno(a, cw, []string{tp}, nil))
	}
	if len(t.Fields) == 0 {
		r.begin(cw)
		r.tok("...")
		r.end(false)
	}
	for _, f := range t.Fields {
		fp := "F|" + app + "|" + t.Name + "|" + f.Name
		r.begin(cw)
		fd := r.decl(kField, fp, []string{fp}, f.Name+" <: "+f.Type)
		fn := &node{Kind: kField, Key: fd.Key}
		fn.First = r.tok(f.Name)
		r.ogap(" ")
		r.tok("<:")
		r.ogap(" ")
		fn.Last = r.typeSpelling(f.Type)
		if f.Opt {
			fn.Last = r.tok("?")
		}
		if len(f.Attrs) > 0 {
			r.ogap(" ")
			fn.Attrs = r.attribs(f.Attrs, []string{fp}, nil)
			fn.Last = r.ord - 1
		}
		if len(f.Annos) > 0 {
			r.ogap("")
			r.tok(":")
			r.end(true)
			fw := r.childWidth(cw)
			for _, a := range f.Annos {
				fn.Kids = append(fn.Kids, r.anno(a, fw, []string{fp}, nil))
			}
			r.closeBody(fn)
		} else {
			r.end(false)
		}
		n.Kids = append(n.Kids, fn)
	}
	r.closeBody(n)
	return n
}

// typeSpelling writes a type such as "sequence of int" or "decimal(8.2)"; returns the ordinal of its last token
func (r *renderer) typeSpelling(t string) int {
	last := 0
	rest := t
	for _, pre := range []string{"sequence of ", "set of "} {
		if strings.HasPrefix(rest, pre) {
			r.tok(strings.TrimSpace(pre))
			r.gap()
			rest = rest[len(pre):]
		}
	}
	if i := strings.Index(rest, "("); i >= 0 {
		r.tok(rest[:i])
		r.tok(rest[i : len(rest)-1])
		last = r.tok(")")
	} else {
		last = r.tok(rest)
	}
	return last
}

func (r *renderer) epD(app string, e EpD, width int) *node {
	ep := "E|" + app + "|" + e.Name
	r.begin(width)
	kind := kEndpoint
	show := e.Name
	if e.Event {
		kind = kEvent
		show = "<-> " + e.Name
	}
	d := r.decl(kind, ep, []string{ep}, show)
	n := &node{Kind: kind, Key: d.Key}
	if e.Event {
		n.First = r.tok("<->")
		r.gap()
		r.tok(e.Name)
	} else {
		n.First = r.tok(e.Name)
	}
	if e.Long != "" {
		r.gap()
		r.tok(quote(e.Long))
	}
	if len(e.Params) > 0 {
		n.Kids = append(n.Kids, r.params(ep, e.Params)...)
	}
	if len(e.Attrs) > 0 {
		r.ogap(" ")
		n.Attrs = r.attribs(e.Attrs, []string{ep}, nil)
	}
	r.ogap("")
	r.tok(":")
	if e.Shortcut {
		r.gap()
		n.Last = r.tok("...")
		r.end(false)
		return n
	}
	r.end(true)
	cw := r.childWidth(width)
	for _, a := range e.Annos {
		n.Kids = append(n.Kids, r.anno(a, cw, []string{ep}, nil))
	}
	c := r.stmtN[ep]
	n.Kids = append(n.Kids, r.stmts(e.Stmts, cw, "S|"+app+"|"+e.Name, &c)...)
	r.stmtN[ep] = c
	r.closeBody(n)
	return n
}

var pathVarRe = regexp.MustCompile(`^(.*/)\{(\w+) <: (\w+)\}$`)

// appName writes "Ns :: App" and returns the ordinal of its first token
func (r *renderer) appName(name string) int {
	first := 0
	for i, p := range strings.Split(name, " :: ") {
		if i > 0 {
			r.ogap(" ")
			r.tok("::")
			r.ogap(" ")
		}
		o := r.tok(p)
		if i == 0 {
			first = o
		}
	}
	return first
}

// collector writes ".. * <- *:" with its statements. Every declaration appends a location to the endpoint ".. * <- *";
// the statements of an earlier declaration are REPLACED (EnterCollector: ep.Stmt = []), so they - and their attributes -
// are no elements of the module any more.
func (r *renderer) collector(app string, x Collector, width int) *node {
	const name = ".. * <- *"
	ep := "E|" + app + "|" + name
	scope := "S|" + app + "|" + name
	if old, again := r.likeKids[ep]; again && len(x.Stmts) > 0 {
		for _, d := range old {
			d.Replaced = true
		}
		for k := range r.modN {
			if strings.HasPrefix(k, scope+".") {
				delete(r.modN, k)
			}
		}
	}
	r.begin(width)
	d := r.decl(kCollector, ep, []string{ep}, name)
	at := len(r.decls)
	if len(x.Stmts) > 0 {
		defer func() { r.likeKids[ep] = append([]*Decl{}, r.decls[at:]...) }()
	}
	n := &node{Kind: kCollector, Key: d.Key}
	n.First = r.tok(name)
	r.ogap("")
	r.tok(":")
	if len(x.Stmts) == 0 {
		r.gap()
		n.Last = r.tok("...")
		r.end(false)
		return n
	}
	r.end(true)
	cw := r.childWidth(width)
	for i, cs := range x.Stmts {
		path := fmt.Sprintf("%s.%d", scope, i)
		r.begin(cw)
		sn := &node{Kind: kCollStmt}
		switch cs.Kind {
		case cAction:
			sd := r.decl(kCollStmt, fmt.Sprintf("cstmt|%s|%d|%d", r.fname, len(r.lines), r.col), []string{path}, cs.Text)
			sn.Key = sd.Key
			sn.First = r.tok(cs.Text)
			sn.Last = sn.First
		case cCall:
			sd := r.decl(kCollStmt, fmt.Sprintf("cstmt|%s|%d|%d", r.fname, len(r.lines), r.col), []string{path}, cs.App+" <- "+cs.Text)
			sn.Key = sd.Key
			sn.First = r.appName(cs.App)
			r.ogap(" ")
			r.tok("<-")
			r.ogap(" ")
			sn.Last = r.tok(cs.Text)
		default:
			sd := r.decl(kCollStmt, fmt.Sprintf("cstmt|%s|%d|%d", r.fname, len(r.lines), r.col), []string{path}, cs.App+" "+cs.Text)
			sn.Key = sd.Key
			if r.opts.plain || r.lay.Chance(2, 3) {
				sn.First = r.tok(cs.App + " ") // the verb token takes the blanks behind it
			} else {
				sn.First = r.tok(cs.App + "  ")
			}
			// "/a/{b}/c": one token per "/", name and brace
			for _, part := range strings.Split(strings.TrimPrefix(cs.Text, "/"), "/") {
				r.tok("/")
				if strings.HasPrefix(part, "{") {
					r.tok("{")
					r.tok(strings.Trim(part, "{}"))
					sn.Last = r.tok("}")
				} else {
					sn.Last = r.tok(part)
				}
			}
		}
		r.gap()
		sn.Attrs = r.attribs(cs.Attrs, []string{path}, nil)
		r.end(false)
		n.Kids = append(n.Kids, sn)
	}
	r.closeBody(n)
	return n
}

// subscribe writes "Pub -> Event [attributes]:" with its statements. The endpoint is named publisher + arrow token +
// event (the arrow token takes the blanks around it); the rule's context is also the location of the call statement the
// subscription appends to the publisher's event.
func (r *renderer) subscribe(app string, x Subscribe, width int) *node {
	ak := app + "|" + x.Pub + "|" + x.Event
	arrow, ok := r.arrows[ak]
	if !ok {
		arrow = " -> "
		if !r.opts.plain {
			arrow = []string{" -> ", " -> ", "  ->  ", " \t-> ", " ->\t"}[r.lay.Intn(5)]
		}
		r.arrows[ak] = arrow
	}
	name := x.Pub + arrow + x.Event
	ep := "E|" + app + "|" + name
	if old, again := r.likeKids[ep]; again {
		// a second declaration REPLACES the endpoint (EnterSubscribe builds a fresh one)
		for _, d := range old {
			d.Replaced = true
		}
		r.modN[ep] = 0
		r.stmtN[ep] = 0
	}
	r.begin(width)
	at := len(r.decls) + 2 // behind the subscription and the call statement (which stays in the publisher's event)
	defer func() { r.likeKids[ep] = append([]*Decl{}, r.decls[at:]...) }()
	d := r.decl(kSubscribe, ep, []string{ep}, x.Pub+" -> "+x.Event)
	// the call statement in the publisher's event: the next statement of that endpoint
	pubEp := "E|" + x.Pub + "|" + x.Event
	pubScope := "S|" + x.Pub + "|" + x.Event
	cp := fmt.Sprintf("%s.%d", pubScope, r.stmtN[pubEp])
	r.stmtN[pubEp]++
	r.lastDoc[pubScope] = false
	cd := r.decl(kSubCall, fmt.Sprintf("subcall|%s|%d|%d", r.fname, len(r.lines), r.col), []string{cp}, "call from "+x.Pub+" -> "+x.Event)
	r.implicit["A|"+x.Pub] = true
	r.implicit[pubEp] = true
	n := &node{Kind: kSubscribe, Key: d.Key}
	n.First = r.appName(x.Pub)
	r.tok(arrow)
	r.tok(x.Event)
	if len(x.Attrs) > 0 {
		r.ogap(" ")
		n.Attrs = r.attribs(x.Attrs, []string{ep}, nil)
	}
	// the context computed once more behind the attributes: first node of the body (it stands at the rule's first token)
	n.Kids = append(n.Kids, &node{Kind: kSubCall, Key: cd.Key, SameAs: n})
	r.ogap("")
	r.tok(":")
	if len(x.Stmts) == 0 {
		r.gap()
		n.Last = r.tok("...")
		r.end(false)
		return n
	}
	r.end(true)
	c := 0
	n.Kids = append(n.Kids, r.stmts(x.Stmts, r.childWidth(width), "S|"+app+"|"+name, &c)...)
	r.closeBody(n)
	return n
}

func (r *renderer) rest(app string, x Rest, width int, prefix string, up []*inh) *node {
	r.begin(width)
	n := &node{Kind: kRestPath}
	mine := &inh{}
	if m := pathVarRe.FindStringSubmatch(x.Path); m != nil {
		// "/seg/{id <: int}": the typed parameter is a rule of its own (http_path_var_with_type, "{" .. "}") whose context
		// every method below the path shares; the listener meets it after the path's attributes
		n.First = r.tok(m[1])
		d := r.decl(kPathVar, fmt.Sprintf("pvar|%s|%d|%d", r.fname, len(r.lines), r.col), nil, "{"+m[2]+" <: "+m[3]+"}")
		vn := &node{Kind: kPathVar, Key: d.Key}
		vn.First = r.tok("{")
		r.tok(m[2])
		if r.opts.plain {
			r.tok(" <: ")
		} else {
			r.tok([]string{" <: ", "<:", "  <:", "<: \t"}[r.lay.Intn(4)]) // the token takes the blanks around it
		}
		r.tok(m[3])
		vn.Last = r.tok("}")
		mine.vars = append(mine.vars, d)
		n.Kids = append(n.Kids, vn)
	} else {
		n.First = r.tok(x.Path)
	}
	if len(x.Attrs) > 0 {
		r.ogap(" ")
		n.Attrs = r.attribs(x.Attrs, nil, mine)
	}
	r.ogap("")
	n.Last = r.tok(":")
	r.end(true)
	cw := r.childWidth(width)
	for _, a := range x.Annos {
		n.Kids = append(n.Kids, r.anno(a, cw, nil, mine))
	}
	chain := append(append([]*inh{}, up...), mine)
	full := prefix + x.Name
	for _, m := range x.Methods {
		name := m.Verb + " " + full
		ep := "E|" + app + "|" + name
		r.begin(cw)
		d := r.decl(kMethod, ep, []string{ep}, m.Verb)
		mn := &node{Kind: kMethod, Key: d.Key}
		// the typed parameters of the path chain, outer to inner, are the method's URL parameters
		vi := 0
		for _, h := range chain {
			for _, vd := range h.vars {
				vd.Paths = append(vd.Paths, fmt.Sprintf("V|%s|%d", ep, vi))
				vi++
			}
		}
		// inherited attributes become attributes of this endpoint: modifiers first outer to inner, then the method's own
		for _, h := range chain {
			for _, md := range h.mods {
				md.Paths = append(md.Paths, fmt.Sprintf("~|%s|%d", ep, r.modN[ep]))
				r.modN[ep]++
			}
			for _, nv := range h.nvps {
				r.stamp++
				for len(nv.d.Stamps) < len(nv.d.Paths) {
					nv.d.Stamps = append(nv.d.Stamps, nv.d.Ord)
				}
				nv.d.Stamps = append(nv.d.Stamps, r.stamp)
				nv.d.Paths = append(nv.d.Paths, "@|"+ep+"|"+nv.name)
				for i, it := range nv.items {
					it.Paths = append(it.Paths, fmt.Sprintf("#|%s|%s|%d", ep, nv.name, i))
				}
			}
		}
		if r.opts.plain || r.lay.Chance(2, 3) || m.Query != "" || len(m.Attrs) > 0 || len(m.Params) > 0 {
			mn.First = r.tok(m.Verb)
		} else {
			mn.First = r.tok(m.Verb + strings.Repeat(" ", 1+r.lay.Intn(2))) // the verb token takes trailing blanks
		}
		if len(m.Params) > 0 {
			mn.Kids = append(mn.Kids, r.params(ep, m.Params)...)
		}
		if m.Query != "" {
			r.gap()
			r.tok("?")
			// query parameters accumulate over the declarations of a method, like its parameters
			qp := fmt.Sprintf("Q|%s|%d", ep, r.paramN["?"+ep])
			r.paramN["?"+ep]++
			qd := r.decl(kQuery, qp, []string{qp}, m.Query)
			eq := strings.Index(m.Query, "=")
			qn := &node{Kind: kQuery, Key: qd.Key}
			qn.First = r.tok(m.Query[:eq])
			r.tok("=")
			qn.Last = r.tok(m.Query[eq+1:])
			mn.Kids = append(mn.Kids, qn)
		}
		if len(m.Attrs) > 0 {
			r.gap()
			mn.Attrs = r.attribs(m.Attrs, []string{ep}, nil)
		}
		r.ogap("")
		r.tok(":")
		r.end(true)
		mw := r.childWidth(cw)
		for _, a := range m.Annos {
			mn.Kids = append(mn.Kids, r.anno(a, mw, []string{ep}, nil))
		}
		c := r.stmtN[ep]
		mn.Kids = append(mn.Kids, r.stmts(m.Stmts, mw, "S|"+app+"|"+name, &c)...)
		r.stmtN[ep] = c
		r.closeBody(mn)
		n.Kids = append(n.Kids, mn)
	}
	for _, k := range x.Kids {
		n.Kids = append(n.Kids, r.rest(app, k, cw, full, chain))
	}
	return n
}

func (r *renderer) block(b Block) *node {
	ap := "A|" + b.App
	r.begin(0)
	d := r.decl(kApp, ap, []string{ap}, b.App)
	n := &node{Kind: kApp, Key: d.Key}
	parts := strings.Split(b.App, " :: ")
	for i, p := range parts {
		if i > 0 {
			r.ogap(" ")
			r.tok("::")
			r.ogap(" ")
		}
		o := r.tok(p)
		if i == 0 {
			n.First = o
		}
		n.Last = o
	}
	if b.Long != "" {
		r.gap()
		n.Last = r.tok(quote(b.Long))
	}
	if len(b.Attrs) > 0 {
		r.ogap(" ")
		n.Attrs = r.attribs(b.Attrs, []string{ap}, nil)
		n.Last = r.ord - 1
	}
	r.ogap("")
	r.tok(":")
	r.end(true)
	cw := r.childWidth(0)
	for _, it := range b.Items {
		switch x := it.(type) {
		case Anno:
			n.Kids = append(n.Kids, r.anno(x, cw, []string{ap}, nil))
		case TypeD:
			n.Kids = append(n.Kids, r.typeD(b.App, x, cw))
		case EpD:
			n.Kids = append(n.Kids, r.epD(b.App, x, cw))
		case Rest:
			n.Kids = append(n.Kids, r.rest(b.App, x, cw, "", nil))
		case Collector:
			n.Kids = append(n.Kids, r.collector(b.App, x, cw))
		case Subscribe:
			n.Kids = append(n.Kids, r.subscribe(b.App, x, cw))
		case Mixin:
			r.begin(cw)
			r.tok("-|>")
			r.gap()
			for i, p := range strings.Split(x.App, " :: ") {
				if i > 0 {
					r.ogap(" ")
					r.tok("::")
					r.ogap(" ")
				}
				r.tok(p)
			}
			r.end(false)
		}
	}
	if len(b.Items) == 0 {
		r.begin(cw)
		hp := "E|" + b.App + "|..."
		d := r.decl(kHolder, hp, []string{hp}, "...")
		o := r.tok("...")
		n.Kids = append(n.Kids, &node{Kind: kHolder, Key: d.Key, First: o, Last: o})
		r.end(false)
	}
	return n
}

// order in which the compiler processes the files: the root, then its imports depth first in statement order
func processingOrder(s Spec) []int {
	var out []int
	seen := map[int]bool{}
	var visit func(i int)
	visit = func(i int) {
		if seen[i] {
			return
		}
		seen[i] = true
		out = append(out, i)
		for _, j := range s.Files[i].ImpIdx {
			visit(j)
		}
	}
	visit(0)
	return out
}

type Rendered struct {
	Implicit []string  // elements a subscription creates without a location
	Graph    [][]int   // imports of every file of the specification, in textual order
	Files    []fileOut // in processing order
	Decls    []*Decl   // in declaration (processing) order
	NKeys    int
}

func render(s Spec, lay *common.Rng, o layoutOpts) Rendered {
	r := newRenderer(lay, o)
	var out Rendered
	for _, fi := range processingOrder(s) {
		f := s.Files[fi]
		r.startFile(f.Name)
		if !o.plain && lay.Chance(1, 6) {
			r.hid("# leading note")
			r.nl()
		}
		var forest []*node
		for _, im := range f.Imports {
			ip := fmt.Sprintf("I|%d", r.impN)
			r.impN++
			d := r.decl(kImport, ip, []string{ip}, "import "+im)
			n := &node{Kind: kImport, Key: d.Key}
			// the keyword token takes the white space behind it
			if o.plain {
				n.First = r.tok("import ")
			} else {
				n.First = r.tok("import" + []string{" ", " ", "  ", "\t", " \t"}[lay.Intn(5)])
			}
			n.Last = r.tok(im)
			// no blanks behind the path: they leave the lexer's blockTextLine counter raised, and a later multi-word text
			// statement is then lexed as one statement per word (a lexer matter outside this property: the locations
			// of what IS compiled are right, but the renderer's statement numbering no longer applies)
			r.nl()
			forest = append(forest, n)
		}
		for _, b := range f.Blocks {
			forest = append(forest, r.block(b))
		}
		fo := r.finishFile(forest)
		fo.Idx = fi
		out.Files = append(out.Files, fo)
	}
	for _, f := range s.Files {
		out.Graph = append(out.Graph, append([]int{}, f.ImpIdx...))
	}
	out.Decls = r.decls
	for p := range r.implicit {
		out.Implicit = append(out.Implicit, p)
	}
	sort.Strings(out.Implicit)
	out.NKeys = len(r.keys)
	return out
}
