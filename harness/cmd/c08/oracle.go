// C08 oracle (model-independent): compiles the rendered files with the real parser and demands of every element
// of the compiled module exactly what the property states, against the positions the renderer recorded.
package main

import (
	"encoding/json"
	"fmt"
	"path"
	"sort"
	"strings"
	"sync"
	"time"
	"unicode/utf8"

	"github.com/anz-bank/sysl/pkg/parse"
	"github.com/anz-bank/sysl/pkg/sysl"
	"github.com/spf13/afero"
	"google.golang.org/protobuf/proto"

	"verifharness/common"
)

type Ctx struct {
	File   string
	SL, SC int
	EL, EC int
}

func toCtx(sc *sysl.SourceContext) Ctx {
	return Ctx{path.Clean(sc.GetFile()), int(sc.GetStart().GetLine()), int(sc.GetStart().GetCol()), int(sc.GetEnd().GetLine()), int(sc.GetEnd().GetCol())}
}

func ctxs(scs []*sysl.SourceContext) []Ctx {
	out := []Ctx{}
	for _, s := range scs {
		out = append(out, toCtx(s))
	}
	return out
}

func compile(files map[string]string, root string) (m *sysl.Module, err string) {
	defer func() {
		if x := recover(); x != nil {
			m, err = nil, fmt.Sprintf("panic: %v", x)
		}
	}()
	fs := afero.NewMemMapFs()
	for n, c := range files {
		afero.WriteFile(fs, n, []byte(c), 0o644)
	}
	mod, e := parse.NewParser().ParseFromFs(root, fs)
	if e != nil {
		return nil, "error: " + e.Error()
	}
	return mod, ""
}

// ---- the real compiler on a pool of worker subprocesses (one compile at a time per process) ----

type creq struct {
	Files map[string]string `json:"files"`
	Root  string            `json:"root"`
}
type crep struct {
	Err string `json:"err,omitempty"`
	PB  []byte `json:"pb,omitempty"`
}

func compileInWorker(line []byte) interface{} {
	var r creq
	if err := json.Unmarshal(line, &r); err != nil {
		return crep{Err: "badreq"}
	}
	m, e := compile(r.Files, r.Root)
	if e != "" {
		return crep{Err: e}
	}
	b, err := proto.Marshal(m)
	if err != nil {
		return crep{Err: "marshal: " + err.Error()}
	}
	return crep{PB: b}
}

type compiled struct {
	m   *sysl.Module
	err string
}

func compileAll(ins []Input) []compiled {
	out := make([]compiled, len(ins))
	nw := 8
	if len(ins) < nw {
		nw = len(ins)
	}
	var wg sync.WaitGroup
	next := make(chan int, len(ins))
	for i := range ins {
		next <- i
	}
	close(next)
	for k := 0; k < nw; k++ {
		wg.Add(1)
		go func() {
			defer wg.Done()
			w := common.NewWorker("-worker")
			defer w.Close()
			for i := range next {
				var r crep
				var died, timedOut bool
				var stderr string
				for _, dl := range []time.Duration{60 * time.Second, 300 * time.Second} {
					r = crep{}
					died, timedOut, stderr = w.Call(creq{ins[i].Files, ins[i].Root}, &r, dl)
					if !timedOut && !died {
						break
					}
				}
				switch {
				case timedOut:
					out[i] = compiled{nil, "hang"}
				case died:
					if len(stderr) > 300 {
						stderr = stderr[:300]
					}
					out[i] = compiled{nil, "died: " + stderr}
				case r.Err != "":
					out[i] = compiled{nil, r.Err}
				default:
					m := &sysl.Module{}
					if err := proto.Unmarshal(r.PB, m); err != nil {
						out[i] = compiled{nil, "unmarshal: " + err.Error()}
					} else {
						out[i] = compiled{m, ""}
					}
				}
			}
		}()
	}
	wg.Wait()
	return out
}

// got: module path -> (kind class, contexts); single: the deprecated source_context field
type found struct {
	class  string
	cs     []Ctx
	single *Ctx
}

type walker struct {
	got map[string]*found
}

func (w *walker) put(p, class string, scs []*sysl.SourceContext, one *sysl.SourceContext) {
	f := &found{class: class, cs: ctxs(scs)}
	if one != nil {
		c := toCtx(one)
		f.single = &c
	}
	w.got[p] = f
}

func (w *walker) attrs(owner string, as map[string]*sysl.Attribute) {
	for name, a := range as {
		if name == "patterns" {
			i := 0
			for _, e := range a.GetA().GetElt() {
				if len(e.GetSourceContexts()) == 0 && e.GetSourceContext() == nil { //nolint:staticcheck
					continue // synthesised pattern ("rest"): not declared in the text
				}
				w.put(fmt.Sprintf("~|%s|%d", owner, i), "annotation", e.GetSourceContexts(), e.GetSourceContext()) //nolint:staticcheck
				i++
			}
			continue
		}
		w.put("@|"+owner+"|"+name, "annotation", a.GetSourceContexts(), a.GetSourceContext()) //nolint:staticcheck
		w.items(fmt.Sprintf("#|%s|%s|", owner, name), a)
	}
}

func (w *walker) items(prefix string, a *sysl.Attribute) {
	for i, e := range a.GetA().GetElt() {
		w.put(fmt.Sprintf("%s%d", prefix, i), "annotation", e.GetSourceContexts(), e.GetSourceContext()) //nolint:staticcheck
		w.items(fmt.Sprintf("%s%d.", prefix, i), e)
	}
}

func (w *walker) stmts(scope string, ss []*sysl.Statement) {
	for i, s := range ss {
		p := fmt.Sprintf("%s.%d", scope, i)
		w.put(p, "statement", s.GetSourceContexts(), s.GetSourceContext()) //nolint:staticcheck
		w.attrs(p, s.GetAttrs())
		switch {
		case s.GetCond() != nil:
			w.stmts(p, s.GetCond().GetStmt())
		case s.GetLoop() != nil:
			w.stmts(p, s.GetLoop().GetStmt())
		case s.GetLoopN() != nil:
			w.stmts(p, s.GetLoopN().GetStmt())
		case s.GetForeach() != nil:
			w.stmts(p, s.GetForeach().GetStmt())
		case s.GetGroup() != nil:
			w.stmts(p, s.GetGroup().GetStmt())
		case s.GetAlt() != nil:
			for ci, c := range s.GetAlt().GetChoice() {
				w.stmts(fmt.Sprintf("%s.c%d", p, ci), c.GetStmt())
			}
		}
	}
}

func walkModule(m *sysl.Module) map[string]*found {
	w := &walker{got: map[string]*found{}}
	for i, im := range m.GetImports() {
		// an import statement has the single field only
		if sc := im.GetSourceContext(); sc != nil {
			w.put(fmt.Sprintf("I|%d", i), "import", []*sysl.SourceContext{sc}, sc)
		}
	}
	for an, a := range m.GetApps() {
		ap := "A|" + an
		w.put(ap, "app", a.GetSourceContexts(), a.GetSourceContext()) //nolint:staticcheck
		w.attrs(ap, a.GetAttrs())
		for tn, t := range a.GetTypes() {
			tp := "T|" + an + "|" + tn
			w.put(tp, "type", t.GetSourceContexts(), t.GetSourceContext()) //nolint:staticcheck
			w.attrs(tp, t.GetAttrs())
			defs := t.GetTuple().GetAttrDefs()
			if t.GetRelation() != nil {
				defs = t.GetRelation().GetAttrDefs()
			}
			for fn, f := range defs {
				fp := "F|" + an + "|" + tn + "|" + fn
				w.put(fp, "field", f.GetSourceContexts(), f.GetSourceContext()) //nolint:staticcheck
				w.attrs(fp, f.GetAttrs())
			}
			for i, u := range t.GetOneOf().GetType() {
				w.put(fmt.Sprintf("U|%s|%s|%d", an, tn, i), "union-member", u.GetSourceContexts(), u.GetSourceContext()) //nolint:staticcheck
			}
		}
		for en, e := range a.GetEndpoints() {
			ep := "E|" + an + "|" + en
			w.put(ep, "endpoint", e.GetSourceContexts(), e.GetSourceContext()) //nolint:staticcheck
			w.attrs(ep, e.GetAttrs())
			for i, pa := range e.GetParam() {
				pp := fmt.Sprintf("P|%s|%d", ep, i)
				w.put(pp, "parameter", pa.GetType().GetSourceContexts(), pa.GetType().GetSourceContext()) //nolint:staticcheck
				w.attrs(pp, pa.GetType().GetAttrs())
			}
			for i, u := range e.GetRestParams().GetUrlParam() {
				w.put(fmt.Sprintf("V|%s|%d", ep, i), "path-parameter", u.GetType().GetSourceContexts(), u.GetType().GetSourceContext()) //nolint:staticcheck
			}
			for i, q := range e.GetRestParams().GetQueryParam() {
				w.put(fmt.Sprintf("Q|%s|%d", ep, i), "parameter", q.GetType().GetSourceContexts(), q.GetType().GetSourceContext()) //nolint:staticcheck
			}
			w.stmts("S|"+an+"|"+en, e.GetStmt())
		}
	}
	return w.got
}

// Input is everything needed to re-judge one input without the generator
type Input struct {
	Stream string            `json:"stream"`
	Root   string            `json:"root"`
	Files  map[string]string `json:"files"`
	Decls  []*Decl           `json:"decls"` // in declaration order
	// elements a subscription ("Pub -> Event:") creates without writing them: the publisher's application and event
	// endpoint. They may be in the module WITHOUT any location.
	Implicit []string `json:"implicit,omitempty"`
}

func lineRunes(text string) []int {
	var out []int
	for _, l := range strings.Split(text, "\n") {
		out = append(out, utf8.RuneCountInString(strings.TrimSuffix(l, "\r")))
	}
	return out
}

func fmtPos(cs []Ctx) string {
	var p []string
	for _, c := range cs {
		p = append(p, fmt.Sprintf("%s:%d:%d", c.File, c.SL, c.SC))
	}
	return "[" + strings.Join(p, " ") + "]"
}

// judge reports every way in which the compiled module breaks the property on this input
func judge(c *common.Ctx, cs Input, cm compiled) (got map[string]*found, cerr string) {
	if cm.err != "" {
		return nil, cm.err
	}
	got = walkModule(cm.m)
	widths := map[string][]int{}
	for n, t := range cs.Files {
		widths[n] = lineRunes(t)
	}
	// expected: module path -> recorded declarations in order
	exp := map[string][]*Decl{}
	// the declaration applied LAST to a path: a declaration inherited again (a method declared again below a REST path
	// with attributes) counts at the time of the later method
	lastApplied := map[string]*Decl{}
	lastStamp := map[string]int{}
	var order []string
	for _, d := range cs.Decls {
		if d.Replaced {
			continue // written inside a declaration that a later one replaced: no element of the module
		}
		for pi, p := range d.Paths {
			st := d.Ord
			if pi < len(d.Stamps) {
				st = d.Stamps[pi]
			}
			if st >= lastStamp[p] {
				lastStamp[p], lastApplied[p] = st, d
			}
			if _, ok := exp[p]; !ok {
				order = append(order, p)
			}
			dup := false
			for _, x := range exp[p] {
				if x == d {
					dup = true // one declaration inherited twice by one element (a method declared twice under one path)
				}
			}
			if !dup {
				exp[p] = append(exp[p], d)
			}

		}
	}
	fail := func(key, what string) { c.Fail(key, what, cs) }
	for _, p := range order {
		ds := exp[p]
		class := kindClass[ds[0].Kind]
		f := got[p]
		if f == nil {
			fail("missing:"+class, fmt.Sprintf("%s declared at %s:%d:%d (%q) is not in the compiled module (as %s)", class, ds[0].File, ds[0].Line, ds[0].Col, ds[0].Show, p))
			continue
		}
		// generic demands on every context
		bad := false
		for _, x := range f.cs {
			w, ok := widths[x.File]
			switch {
			case !ok:
				fail("file:"+class, fmt.Sprintf("%s %s records file %q, which is not a file of the specification", class, p, x.File))
				bad = true
			case x.SL < 0 || x.SL >= len(w) || x.SC < 0 || x.SC >= w[x.SL]:
				fail("outside-file:"+class, fmt.Sprintf("%s %s records start %s:%d:%d, outside the file", class, p, x.File, x.SL, x.SC))
				bad = true
			case x.EL < x.SL || x.EL == x.SL && x.EC < x.SC:
				fail("end-before-start:"+class, fmt.Sprintf("%s %s at %s:%d:%d ends at %d:%d, before its start", class, p, x.File, x.SL, x.SC, x.EL, x.EC))
				bad = true
			}
		}
		if bad {
			continue
		}
		if len(f.cs) != len(ds) {
			var want []string
			for _, d := range ds {
				want = append(want, fmt.Sprintf("%s:%d:%d", d.File, d.Line, d.Col))
			}
			key := "count:" + class
			at := func(d *Decl, x Ctx) bool { return d.File == x.File && d.Line == x.SL && d.Col == x.SC }
			same := func(want []*Decl) bool {
				if len(want) != len(f.cs) {
					return false
				}
				for i := range want {
					if !at(want[i], f.cs[i]) {
						return false
					}
				}
				return true
			}
			// the specific shapes of the known findings; anything else keeps the general key
			var afterEmpties, doubled []*Decl
			lead := 0
			for lead < len(ds) && (ds[lead].Form == "empty-array" || ds[lead].Form == "empty-string") {
				lead++
			}
			if lead == len(ds) {
				lead-- // only empty values: each one is replaced by the next, the last stays
			}
			afterEmpties = ds[lead:]
			allMulti := true
			for i, d := range ds {
				doubled = append(doubled, d)
				if i > 0 {
					doubled = append(doubled, d)
				}
				if d.Form != "multiline" {
					allMulti = false
				}
			}
			switch {
			case ds[0].Kind == kHolder && len(f.cs) == 0:
				key = "count:placeholder-endpoint-no-location"
			case (ds[0].Kind == kEnum || ds[0].Kind == kAlias || ds[0].Kind == kUnion) && len(ds) > 1 && len(f.cs) == 1 && at(ds[len(ds)-1], f.cs[0]):
				key = "count:type-replaced-keeps-last:" + map[int]string{kEnum: "enum", kAlias: "alias", kUnion: "union"}[ds[0].Kind]
			case ds[0].Kind == kPathVar && len(ds) > 1 && len(f.cs) == 1 && at(ds[len(ds)-1], f.cs[0]):
				key = "count:path-parameter-replaced-keeps-last"
			case ds[0].Kind == kSubscribe && len(ds) > 1 && len(f.cs) == 1 && at(ds[len(ds)-1], f.cs[0]):
				key = "count:subscription-replaced-keeps-last"
			case ds[0].Kind == kEvent && len(f.cs) == 1 && at(ds[0], f.cs[0]):
				key = "count:event-redeclared-keeps-first"
			case ds[0].Kind == kNvp && len(f.cs) == 1 && at(ds[len(ds)-1], f.cs[0]):
				key = "count:attribute-replaced-keeps-last:" + ds[len(ds)-1].Form
			case ds[0].Kind == kNvp && len(f.cs) == 1 && lastApplied[p] != nil && at(lastApplied[p], f.cs[0]):
				// the last declaration APPLIED is an inherited one applied again (a REST path attribute, the method below
				// declared again in a later block of the path)
				key = "count:attribute-replaced-keeps-last:" + lastApplied[p].Form
			case ds[0].Kind == kAnno && lead > 0 && same(afterEmpties):
				key = "count:annotation-leading-empty-dropped:" + ds[0].Form
			case ds[0].Kind == kAnno && allMulti && len(ds) > 1 && same(doubled):
				key = "count:annotation-multiline-redeclared-doubled"
			}
			fail(key, fmt.Sprintf("%s %s is declared %d time(s) at %v but carries %d location(s) %s", class, p, len(ds), want, len(f.cs), fmtPos(f.cs)))
			continue
		}
		for i, d := range ds {
			x := f.cs[i]
			if x.File != d.File {
				// the same positions in another order?
				key := "file:" + class
				if samePositions(f.cs, ds) {
					key = "order:" + class
				}
				fail(key, fmt.Sprintf("%s %s: declaration %d was written in %s:%d:%d (%q) but location %d is %s:%d:%d", class, p, i, d.File, d.Line, d.Col, d.Show, i, x.File, x.SL, x.SC))
				break
			}
			if x.SL != d.Line || x.SC != d.Col {
				key := "start:" + class
				if samePositions(f.cs, ds) {
					key = "order:" + class
				}
				fail(key, fmt.Sprintf("%s %s: declaration %d was written at %s:%d:%d (%q) but the recorded start is %d:%d", class, p, i, d.File, d.Line, d.Col, d.Show, x.SL, x.SC))
				break
			}
		}
		if f.single != nil && len(f.cs) > 0 {
			// the deprecated single field must be one of the locations
			ok := false
			for _, x := range f.cs {
				if x == *f.single {
					ok = true
				}
			}
			if !ok {
				fail("single:"+class, fmt.Sprintf("%s %s: source_context %s:%d:%d is none of its source_contexts %s", class, p, f.single.File, f.single.SL, f.single.SC, fmtPos(f.cs)))
			}
		}
	}
	// elements of the module the renderer did not write
	var extra []string
	implicit := map[string]bool{}
	for _, p := range cs.Implicit {
		implicit[p] = true
	}
	for p := range got {
		if _, ok := exp[p]; !ok {
			if implicit[p] && len(got[p].cs) == 0 && got[p].single == nil {
				continue // created by a subscription, never written: no location to be wrong
			}
			extra = append(extra, p)
		}
	}
	sort.Strings(extra)
	for _, p := range extra {
		fail("unexpected:"+got[p].class, fmt.Sprintf("the compiled module holds %s %s with locations %s, which the renderer never wrote", got[p].class, p, fmtPos(got[p].cs)))
	}
	return got, ""
}

func samePositions(cs []Ctx, ds []*Decl) bool {
	if len(cs) != len(ds) {
		return false
	}
	a, b := []string{}, []string{}
	for _, x := range cs {
		a = append(a, fmt.Sprintf("%s:%d:%d", x.File, x.SL, x.SC))
	}
	for _, d := range ds {
		b = append(b, fmt.Sprintf("%s:%d:%d", d.File, d.Line, d.Col))
	}
	sort.Strings(a)
	sort.Strings(b)
	return strings.Join(a, " ") == strings.Join(b, " ")
}
