package main

import (
	"fmt"
	"os"

	"google.golang.org/protobuf/encoding/protojson"
)

// probe: `vh_c08 probe a.sysl b.sysl ...` compiles the files (named f0.sysl, f1.sysl, ...) and prints the module
func probe(args []string) {
	files := map[string]string{}
	for i, a := range args {
		b, err := os.ReadFile(a)
		if err != nil {
			panic(err)
		}
		files[fmt.Sprintf("f%d.sysl", i)] = string(b)
	}
	m, err := compile(files, "f0.sysl")
	if err != "" {
		fmt.Println("ERR", err)
		return
	}
	fmt.Println(protojson.MarshalOptions{Multiline: true}.Format(m))
}
