package main

import (
	"fmt"
	"os"

	"github.com/antlr/antlr4/runtime/Go/antlr"
	parser "github.com/anz-bank/sysl/pkg/grammar"
	"google.golang.org/protobuf/encoding/protojson"
)

// lexDump: `vh_c08 lex a.sysl` prints the tokens of the real lexer (type, channel, line, column, text)
func lexDump(file string) {
	b, err := os.ReadFile(file)
	if err != nil {
		panic(err)
	}
	lexer := parser.NewThreadSafeSyslLexer(antlr.NewInputStream(string(b)))
	lexer.RemoveErrorListeners()
	for i := 0; i < 100000; i++ {
		t := lexer.NextToken()
		fmt.Printf("%3d ty=%-3d ch=%d %d:%d %q\n", i, t.GetTokenType(), t.GetChannel(), t.GetLine(), t.GetColumn(), t.GetText())
		if t.GetTokenType() == antlr.TokenEOF {
			break
		}
	}
}

// probe: `vh_c08 probe a.sysl b.sysl ...` compiles the files (named f0.sysl, f1.sysl, ...) and prints the module
func probe(args []string) {
	files := map[string]string{}
	for i, a := range args {
		b, err := os.ReadFile(a)
		if err != nil {
			panic(err)
		}
		files[fmt.Sprintf("f%d.sysl", i)] = string(b)
	}
	m, err := compile(files, "f0.sysl")
	if err != "" {
		fmt.Println("ERR", err)
		return
	}
	fmt.Println(protojson.MarshalOptions{Multiline: true}.Format(m))
}
