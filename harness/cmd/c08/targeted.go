package main

// targeted: the shapes DESIGN.md Appendix B names for C08 - PATCH (and every other verb) methods, re-opened apps in
// a second file, declarations with attributes in front of them on the same line.
func targeted() []Spec {
	txt := func(s string) []Stmt { return []Stmt{{Kind: sText, Text: s}} }
	var ms []Method
	for _, v := range verbs {
		ms = append(ms, Method{Verb: v, Stmts: txt("work")})
	}
	all := Rest{Path: "/all", Name: "/all", Methods: ms}
	patch2 := Rest{Path: "/all", Name: "/all", Attrs: []Attr{{Kind: 0, Name: "pa", Val: "é"}, {Kind: 1, Name: "pm"}},
		Methods: []Method{{Verb: "PATCH", Attrs: []Attr{{Kind: 1, Name: "own"}}, Stmts: txt("ping")}, {Verb: "GET", Query: "q=int", Stmts: txt("log")}},
		Kids:    []Rest{{Path: "/sub/{id <: int}", Name: "/sub/{id}", Methods: []Method{{Verb: "PATCH", Stmts: txt("log")}, {Verb: "DELETE", Stmts: txt("log")}}}}}
	t1 := TypeD{Name: "T0", Attrs: []Attr{{Kind: 0, Name: "ta", Val: "中文"}, {Kind: 1, Name: "tm"}}, Annos: []Anno{{Name: "n1", Val: "x"}},
		Fields: []Field{{Name: "f0", Type: "int", Attrs: []Attr{{Kind: 1, Name: "pk"}}}, {Name: "f1", Type: "string", Opt: true}}}
	t2 := TypeD{Name: "T0", Annos: []Anno{{Name: "n1", Val: "y"}, {Name: "n2", Items: []string{"a", "é"}}},
		Fields: []Field{{Name: "f0", Type: "int"}, {Name: "f2", Type: "sequence of int", Annos: []Anno{{Name: "fa", Val: "z"}}}}}
	e1 := EpD{Name: "E0", Long: "naïve ü", Attrs: []Attr{{Kind: 0, Name: "ea", Val: "ß"}, {Kind: 2, Name: "eb", Items: []string{"é", "b"}}},
		Annos: []Anno{{Name: "en", Val: "v"}},
		Stmts: []Stmt{{Kind: sText, Text: "do the thing", Attrs: []Attr{{Kind: 1, Name: "sm"}}},
			{Kind: sIf, Text: "c1", Body: []Stmt{{Kind: sCall, Kw: "A1", Text: "E1"}, {Kind: sRet, Text: "ok <: string"}}},
			{Kind: sElse, Body: txt("log")},
			{Kind: sOneOf, Cases: []Case{{Label: "case0", Body: txt("ping")}, {Label: "case1", Body: []Stmt{{Kind: sLoop, Kw: "for each", Text: "x1", Body: txt("work")}}}}}}}
	e2 := EpD{Name: "E0", Annos: []Anno{{Name: "en", Val: "w"}}, Stmts: []Stmt{{Kind: sQText, Text: "日本"}, {Kind: sCall, Dot: true, Text: "E1"}}}
	sc := EpD{Name: "E1", Shortcut: true}
	ev := EpD{Event: true, Name: "V0", Attrs: []Attr{{Kind: 1, Name: "evm"}}, Stmts: txt("validate")}
	one := Spec{Files: []FileD{{Name: "f0.sysl", Blocks: []Block{
		{App: "A0", Long: "é中", Attrs: []Attr{{Kind: 0, Name: "a1", Val: "→x"}, {Kind: 1, Name: "m1"}}, Items: []interface{}{Anno{Name: "an", Val: "1"}, t1, e1, all, sc, ev}},
		{App: "Ns0 :: A1", Items: []interface{}{EpD{Name: "E1", Stmts: txt("work")}}},
		{App: "A0", Attrs: []Attr{{Kind: 1, Name: "m2"}}, Items: []interface{}{Anno{Name: "an", Val: "2"}, t2, e2, patch2}},
	}}}}
	two := Spec{Files: []FileD{
		{Name: "f0.sysl", Imports: []string{"f1"}, ImpIdx: []int{1}, Blocks: []Block{
			{App: "A0", Long: "é中", Attrs: []Attr{{Kind: 0, Name: "a1", Val: "→x"}, {Kind: 1, Name: "m1"}}, Items: []interface{}{Anno{Name: "an", Val: "1"}, t1, e1, all, sc}},
		}},
		{Name: "f1.sysl", Blocks: []Block{
			{App: "Ns0 :: A1", Items: []interface{}{EpD{Name: "E1", Stmts: txt("work")}}},
			{App: "A0", Attrs: []Attr{{Kind: 1, Name: "m2"}}, Items: []interface{}{Anno{Name: "an", Val: "2"}, t2, e2, patch2, ev}},
		}},
	}}
	// the same members again under other attribute names (an attribute written as [name=value] on two declarations of
	// its owner is replaced, not merged: see the override stream)
	t1b, patch2b := t1, patch2
	// (another name for the typed path parameter: a method declared again under the SAME typed path has its URL parameters
	// replaced - known finding, replacing stream)
	patch2b.Kids = []Rest{{Path: "/sub/{key <: int}", Name: "/sub/{key}", Methods: patch2.Kids[0].Methods}}
	t1b.Attrs = []Attr{{Kind: 0, Name: "tb", Val: "中文"}, {Kind: 1, Name: "tm"}}
	patch2b.Attrs = []Attr{{Kind: 0, Name: "pb", Val: "é"}, {Kind: 1, Name: "pm"}}
	three := Spec{Files: []FileD{
		{Name: "f0.sysl", Imports: []string{"f2", "f1"}, ImpIdx: []int{2, 1}, Blocks: []Block{{App: "A0", Items: []interface{}{t1, patch2}}}},
		{Name: "f1.sysl", Imports: []string{"f2"}, ImpIdx: []int{2}, Blocks: []Block{{App: "A0", Items: []interface{}{t2, e1, all}}}},
		{Name: "f2.sysl", Blocks: []Block{{App: "A0", Items: []interface{}{e2, t1b, patch2b}}}},
	}}
	// an endpoint and a REST method re-opened (in another file, on earlier lines) with annotations only
	long := EpD{Name: "E5", Stmts: []Stmt{{Kind: sText, Text: "work"}, {Kind: sText, Text: "ping"}, {Kind: sText, Text: "log"}, {Kind: sText, Text: "validate"},
		{Kind: sIf, Text: "c1", Body: txt("do the thing")}}}
	pad := TypeD{Name: "T9", Fields: []Field{{Name: "f0", Type: "int"}, {Name: "f1", Type: "int"}, {Name: "f2", Type: "int"}}}
	four := Spec{Files: []FileD{
		{Name: "f0.sysl", Imports: []string{"f1"}, ImpIdx: []int{1}, Blocks: []Block{{App: "A0", Items: []interface{}{pad, pad, long,
			Rest{Path: "/r", Name: "/r", Methods: []Method{{Verb: "PATCH", Stmts: []Stmt{{Kind: sText, Text: "work"}, {Kind: sText, Text: "store it now"}}}}}}}}},
		{Name: "f1.sysl", Blocks: []Block{{App: "A0", Items: []interface{}{EpD{Name: "E5", Annos: []Anno{{Name: "late", Val: "x"}}},
			Rest{Path: "/r", Name: "/r", Methods: []Method{{Verb: "PATCH", Annos: []Anno{{Name: "late2", Val: "y"}}}}}}}}},
	}}
	// a cross edge to a later sibling: main imports a, b; a imports b, c; one element re-opened in every file. The files
	// are compiled main, a, b, c (depth-first preorder); an order that marks files when they are queued gives main, a, c, b
	shareT := func(f string) TypeD {
		return TypeD{Name: "T0", Fields: []Field{{Name: "f0", Type: "int"}, {Name: f, Type: "string"}}}
	}
	shareE := func(w string) EpD {
		return EpD{Name: "E0", Annos: []Anno{{Name: "n804", Form: fNested, Nested: [][]string{{"a", "b"}, {"c"}}}}, Stmts: txt(w)}
	}
	five := Spec{Files: []FileD{
		{Name: "f0.sysl", Imports: []string{"f1", "f2"}, ImpIdx: []int{1, 2}, Blocks: []Block{{App: "A0", Items: []interface{}{Anno{Name: "n804", Form: fNested, Nested: [][]string{{"x"}}}, shareT("f1"), shareE("work")}}}},
		{Name: "f1.sysl", Imports: []string{"f2", "f3"}, ImpIdx: []int{2, 3}, Blocks: []Block{{App: "A0", Items: []interface{}{Anno{Name: "n804", Form: fNested, Nested: [][]string{{"y"}, {"z"}}}, shareT("f2"), shareE("ping")}}}},
		{Name: "f2.sysl", Blocks: []Block{{App: "A0", Items: []interface{}{Anno{Name: "n804", Form: fNested, Nested: [][]string{{"é"}}}, shareT("f3"), shareE("log")}}}},
		{Name: "f3.sysl", Blocks: []Block{{App: "A0", Items: []interface{}{Anno{Name: "n806", Form: fMulti, Lines: []string{"doc é", "more"}}, Anno{Name: "n805", Form: fEmptyArr}, shareT("f4"), shareE("validate")}}}},
	}}
	// round 3: enum / alias / union with members, parameters, doc-string statements (several lines = one statement; at the
	// end of a scope; continuing the doc string an earlier declaration of the endpoint ended with), a mixin, import
	// statements, a body-less application re-opened in every file
	en := TypeD{Form: tEnum, Name: "En1", Attrs: []Attr{{Kind: 1, Name: "e"}, {Kind: 0, Name: "ea", Val: "é"}}, Annos: []Anno{{Name: "n1", Val: "v"}}, Members: []string{"A", "B"}}
	al := TypeD{Form: tAlias, Name: "Al1", Attrs: []Attr{{Kind: 1, Name: "x"}}, Annos: []Anno{{Name: "n2", Items: []string{"a", "中"}}}, Target: "sequence of int"}
	ali := TypeD{Form: tAlias, Name: "Al2", Target: "string", Inline: true}
	un := TypeD{Form: tUnion, Name: "Un1", Attrs: []Attr{{Kind: 1, Name: "u"}}, Annos: []Anno{{Name: "n3", Form: fMulti, Lines: []string{"doc é"}}}, Members: []string{"int", "sequence of string", "T0"}}
	une := TypeD{Form: tUnion, Name: "Un2"}
	doc := func(ls ...string) Stmt { return Stmt{Kind: sDoc, Lines: ls} }
	pe := EpD{Name: "E7", Params: []Field{{Name: "p", Type: "int", Attrs: []Attr{{Kind: 1, Name: "pp"}}}, {Name: "q", Type: "T0"}},
		Stmts: []Stmt{doc("first é", "second"), {Kind: sRet, Text: "ok <: string"}, {Kind: sIf, Text: "c1", Body: []Stmt{{Kind: sText, Text: "work"}, doc("inside")}}, doc("at the end")}}
	pe2 := EpD{Name: "E7", Params: []Field{{Name: "p", Type: "string"}}, Stmts: []Stmt{doc("continues the last"), {Kind: sText, Text: "log"}}}
	pev := EpD{Event: true, Name: "V7", Params: []Field{{Name: "z", Type: "int"}}, Attrs: []Attr{{Kind: 1, Name: "ev"}}, Stmts: txt("validate")}
	pr := Rest{Path: "/q", Name: "/q", Methods: []Method{{Verb: "POST", Params: []Field{{Name: "b", Type: "T0", Attrs: []Attr{{Kind: 0, Name: "ba", Val: "ß"}}}}, Query: "q=int", Stmts: txt("work")}}}
	six := Spec{Files: []FileD{
		{Name: "f0.sysl", Imports: []string{"f2", "f1"}, ImpIdx: []int{2, 1}, Blocks: []Block{
			{App: "A0", Items: []interface{}{TypeD{Name: "T0", Fields: []Field{{Name: "f0", Type: "int"}}}, en, al, Mixin{App: "Mx"}, ali, un, une, pe, pev, pr}},
			{App: "Legacy"}}},
		{Name: "f1.sysl", Imports: []string{"f2"}, ImpIdx: []int{2}, Blocks: []Block{{App: "Legacy"}, {App: "A0", Items: []interface{}{pe2}}}},
		{Name: "f2.sysl", Blocks: []Block{{App: "Legacy"}, {App: "Mx", Attrs: []Attr{{Kind: 1, Name: "abstract"}}}}},
	}}
	// round 3, second pass: typed path parameters (two on a chain of paths, shared by the methods below), a collector with
	// every statement form declared in two files (locations accumulate, the statements of the first are replaced), a
	// subscription to an event of a declared and of an undeclared application, with and without body, as the LAST element
	// of its application (the application then ends where the subscription's own context ends)
	col1 := Collector{Stmts: []CStmt{{Kind: cAction, Text: "do the thing", Attrs: []Attr{{Kind: 1, Name: "c1"}}},
		{Kind: cCall, App: "Ns0 :: A1", Text: "C1", Attrs: []Attr{{Kind: 0, Name: "ca", Val: "é"}, {Kind: 2, Name: "cb", Items: []string{"x", "中"}}}},
		{Kind: cHTTP, App: "GET", Text: "/c1/{id}/items", Attrs: []Attr{{Kind: 1, Name: "c3"}}}}}
	col2 := Collector{Stmts: []CStmt{{Kind: cHTTP, App: "PATCH", Text: "/c0", Attrs: []Attr{{Kind: 1, Name: "c4"}, {Kind: 0, Name: "cc", Val: "v"}}}}}
	vars := Rest{Path: "/v/{a <: int}", Name: "/v/{a}", Attrs: []Attr{{Kind: 1, Name: "va"}}, Annos: []Anno{{Name: "vn", Val: "x"}},
		Methods: []Method{{Verb: "GET", Stmts: txt("work")}, {Verb: "PATCH", Stmts: txt("log")}},
		Kids:    []Rest{{Path: "/w/{b <: string}", Name: "/w/{b}", Methods: []Method{{Verb: "POST", Stmts: txt("ping")}}}}}
	sub1 := Subscribe{Pub: "Ns0 :: A1", Event: "Sv0", Attrs: []Attr{{Kind: 0, Name: "sa", Val: "ß"}, {Kind: 1, Name: "sm"}},
		Stmts: []Stmt{{Kind: sText, Text: "work"}, {Kind: sIf, Text: "c1", Body: txt("log")}}}
	sub2 := Subscribe{Pub: "Ext", Event: "Sv1", Attrs: []Attr{{Kind: 2, Name: "sb", Items: []string{"é", "b"}}}}
	sub3 := Subscribe{Pub: "Ext", Event: "Sv1", Stmts: txt("validate")}
	seven := Spec{Files: []FileD{
		{Name: "f0.sysl", Imports: []string{"f1"}, ImpIdx: []int{1}, Blocks: []Block{
			{App: "A0", Items: []interface{}{vars, col1, sub1, sub2}},
			{App: "A2", Items: []interface{}{sub3}}}},
		{Name: "f1.sysl", Blocks: []Block{
			{App: "Ns0 :: A1", Items: []interface{}{EpD{Name: "E1", Stmts: txt("work")}}},
			{App: "A0", Items: []interface{}{col2, Collector{}}},
			{App: "A3", Items: []interface{}{sub3, EpD{Name: "E0", Shortcut: true}}}}},
	}}
	return []Spec{one, two, three, four, five, six, seven}
}

// replacingTargeted: the two re-declarations that REPLACE met in the second pass of round 3, for the replacing stream (Go
// oracle only): a REST method declared again under the same typed path (its URL parameter keeps the last declaration's
// location) and a subscription declared again in a second block and file
func replacingTargeted() Spec {
	txt := func(s string) []Stmt { return []Stmt{{Kind: sText, Text: s}} }
	typed := func(w string) Rest {
		return Rest{Path: "/r/{id <: int}", Name: "/r/{id}", Methods: []Method{{Verb: "GET", Stmts: txt(w)}}}
	}
	sub := func(w string) Subscribe { return Subscribe{Pub: "Ext", Event: "Sv0", Stmts: txt(w)} }
	// (and the three type-like forms of the first pass, so that every known key of this kind reproduces on every run)
	en := TypeD{Form: tEnum, Name: "En1", Members: []string{"A", "B"}}
	al := TypeD{Form: tAlias, Name: "Al1", Target: "int", Inline: true}
	un := TypeD{Form: tUnion, Name: "Un1", Members: []string{"int", "string"}}
	return Spec{Files: []FileD{
		{Name: "f0.sysl", Imports: []string{"f1"}, ImpIdx: []int{1}, Blocks: []Block{
			{App: "A0", Items: []interface{}{typed("work"), sub("log"), en, al, un}},
			{App: "A0", Items: []interface{}{typed("ping")}}}},
		{Name: "f1.sysl", Blocks: []Block{{App: "A0", Items: []interface{}{sub("validate"), typed("log"), un, al, en}}}},
	}}
}
