// C08 generator: abstract specifications (apps split into blocks over files) built for source-location checking.
// Written independently of the C02/C04 generators; syntax knowledge copied from reading SyslParser.g4.
package main

import (
	"fmt"

	"verifharness/common"
)

// ---- abstract syntax ----

// value forms of attributes and annotations
const (
	fDefault  = 0 // string (Items empty) or flat array (Items non-empty)
	fNested   = 1 // array of arrays: Nested
	fEmptyArr = 2 // []
	fEmptyStr = 3 // ""
	fMulti    = 4 // multi-line doc string (annotations only): Lines
)

type Attr struct {
	Kind   int      // 0 nvp with string value, 1 modifier (~x), 2 nvp with array value
	Name   string   // nvp name or modifier text
	Val    string   // string value (may hold non-ASCII)
	Items  []string // array items
	Form   int
	Nested [][]string
}

type Anno struct {
	Name   string
	Val    string
	Items  []string // non-empty: array value
	Form   int
	Nested [][]string
	Lines  []string
}

type Field struct {
	Name  string
	Type  string // spelled type, ASCII
	Opt   bool
	Attrs []Attr
	Annos []Anno
}

// forms of a type-like declaration
const (
	tType  = 0 // !type / !table
	tEnum  = 1 // !enum Name: items
	tAlias = 2 // !alias Name: target (indented or on the header line)
	tUnion = 3 // !union Name: members
)

type TypeD struct {
	Table  bool
	Name   string
	Attrs  []Attr
	Annos  []Anno
	Fields []Field // may be empty: body is "..."
	// round 3
	Form    int
	Members []string // tEnum: item names; tUnion: member types (empty: "...")
	Target  string   // tAlias
	Inline  bool     // tAlias: "!alias A: int" on one line
}

// Mixin is a "-|> App" line of an app body (records no location)
type Mixin struct{ App string }

// statements of a collector
const (
	cAction = iota // free text
	cCall          // App <- Endpoint
	cHTTP          // VERB /path/{x}
)

type CStmt struct {
	Kind  int
	App   string // cCall: target application; cHTTP: the verb
	Text  string // action text / endpoint / path
	Attrs []Attr // mandatory, non-empty
}

// Collector is ".. * <- *:" with its statements (none: "...")
type Collector struct{ Stmts []CStmt }

// Subscribe is "Pub -> Event [attributes]:" with its statements (none: "...")
type Subscribe struct {
	Pub, Event string
	Attrs      []Attr
	Stmts      []Stmt
}

const (
	sText  = iota // free text action
	sQText        // quoted text action
	sCall         // App <- Ep   or  . <- Ep
	sRet          // return ok <: T
	sIf           // if c:
	sElse         // else:  / else c:   (only right after sIf / sElse-with-condition)
	sLoop         // for / for each / loop / while / until / alt
	sGroup        // label:
	sOneOf        // one of: cases
	sDoc          // "| text" lines (Lines >= 1): consecutive lines are ONE statement
)

type Stmt struct {
	Kind  int
	Text  string // text / callee / payload / predicate / label
	Kw    string // loop keyword
	Dot   bool   // call to own app
	Attrs []Attr // only on text and call statements
	Body  []Stmt
	Cases []Case
	Lines []string // sDoc
}

type Case struct {
	Label string
	Body  []Stmt
}

type EpD struct {
	Event    bool
	Name     string
	Long     string
	Attrs    []Attr
	Annos    []Anno // annotations inside the body (before the statements)
	Stmts    []Stmt
	Shortcut bool    // "Name: ..."
	Params   []Field // "(p <: int, q <: T0 [~x])"
}

type Method struct {
	Verb   string
	Query  string // "" or "q=int"
	Attrs  []Attr
	Annos  []Anno
	Stmts  []Stmt
	Params []Field
}

type Rest struct {
	Path    string // "/seg" or "/seg/{id <: int}"
	Name    string // as it appears in the endpoint name ("/seg/{id}")
	Attrs   []Attr
	Annos   []Anno
	Methods []Method
	Kids    []Rest
}

// Block is one "App:" block; Items holds TypeD / EpD / Rest / Anno values in order.
type Block struct {
	App   string
	Long  string
	Attrs []Attr
	Items []interface{} // empty: the body is "..."
}

type FileD struct {
	Name    string
	Imports []string // import paths as spelled (without .sysl)
	ImpIdx  []int    // index of the imported file
	Blocks  []Block
}

type Spec struct {
	Files []FileD // Files[0] is the root
}

// ---- generator ----

type gen struct {
	r    *common.Rng
	uniq int
	// re-declaration pools
	hostile bool
	noDoc   bool // no "| text" statements (REST methods: a leading doc string becomes the endpoint's docstring)
}

func (g *gen) id(prefix string) string { g.uniq++; return fmt.Sprintf("%s%d", prefix, g.uniq) }

var nonASCII = []string{"é", "中文", "naïve ü", "→x", "日本", "ß"}
var words = []string{"work", "ping", "fetch data", "do the thing", "validate", "store it now", "log"}
var verbs = []string{"GET", "POST", "DELETE", "PUT", "PATCH", "OPTIONS", "HEAD", "TRACE"}
var loopKw = []string{"for", "for each", "loop", "while", "until", "alt"}
var prims = []string{"int", "string", "bool", "date", "string(5)", "decimal(8.2)", "sequence of int", "set of string", "int32"}

func (g *gen) str() string {
	if g.r.Chance(1, 3) {
		return nonASCII[g.r.Intn(len(nonASCII))]
	}
	return []string{"v", "some value", "x y", "a,b", "k: v"}[g.r.Intn(5)]
}

func (g *gen) attrs(max int) []Attr {
	if !g.r.Chance(2, 5) {
		return nil
	}
	n := 1 + g.r.Intn(max)
	var out []Attr
	for i := 0; i < n; i++ {
		switch g.r.Intn(5) {
		case 0, 1:
			name := g.id("a")
			if g.hostile && g.r.Chance(1, 2) {
				name = []string{"ov1", "ov2"}[g.r.Intn(2)] // the same [name=value] on several declarations of one owner
			}
			out = append(out, Attr{Kind: 0, Name: name, Val: g.str()})
		case 2, 3:
			out = append(out, Attr{Kind: 1, Name: g.id("m")})
		default:
			a := Attr{Kind: 2, Name: g.id("a")}
			switch g.r.Intn(6) {
			case 0:
				a.Form, a.Nested = fNested, g.nested()
			case 1:
				a.Form = fEmptyArr
			default:
				k := 1 + g.r.Intn(3)
				for j := 0; j < k; j++ {
					a.Items = append(a.Items, g.str())
				}
			}
			out = append(out, a)
		}
	}
	return out
}

func (g *gen) nested() [][]string {
	n := 1 + g.r.Intn(3)
	out := make([][]string, n)
	for i := range out {
		k := 1 + g.r.Intn(2)
		for j := 0; j < k; j++ {
			out[i] = append(out[i], g.str())
		}
	}
	return out
}

// annoForm gives every annotation name one value form (by its number), so that re-declarations keep the form:
// string, flat array, nested arrays, array that may be empty, multi-line doc string, string that may be empty
func (g *gen) annoValue(name string, again bool) Anno {
	var num int
	fmt.Sscanf(name, "n%d", &num)
	a := Anno{Name: name}
	switch num % 8 {
	case 0, 1, 2:
		a.Val = g.str()
	case 3:
		k := 1 + g.r.Intn(3)
		for j := 0; j < k; j++ {
			a.Items = append(a.Items, g.str())
		}
	case 4:
		a.Form, a.Nested = fNested, g.nested()
	case 5:
		// an empty value overrides nothing and is overridden by a later one
		if g.r.Bool() {
			a.Form = fEmptyArr
		} else {
			a.Items = []string{g.str()}
		}
	case 6:
		a.Form, a.Lines = fMulti, []string{"line one " + g.str(), "line two"}[:1+g.r.Intn(2)]
	default:
		if g.r.Bool() {
			a.Form = fEmptyStr
		} else {
			a.Val = g.str()
		}
	}
	return a
}

// annos draws annotation names from a small per-owner pool so that an annotation is re-declared now and then
func (g *gen) annos(pool *[]string, max int) []Anno {
	if !g.r.Chance(2, 5) {
		return nil
	}
	n := 1 + g.r.Intn(max)
	var out []Anno
	for i := 0; i < n; i++ {
		var name string
		again := false
		if len(*pool) > 0 && g.r.Chance(1, 2) {
			name = (*pool)[g.r.Intn(len(*pool))]
			again = true
			var num int
			fmt.Sscanf(name, "n%d", &num)
			if num%8 >= 5 && !g.hostile {
				// a multi-line annotation declared again records two locations, and an empty value that happens to be
				// compiled first loses its location to the next declaration (known findings): re-declared in the
				// replacing stream only
				continue
			}
		} else {
			name = g.id("n")
			*pool = append(*pool, name)
		}
		out = append(out, g.annoValue(name, again))
	}
	return out
}

func (g *gen) stmts(depth, max int, apps []string) []Stmt {
	n := 1 + g.r.Intn(max)
	var out []Stmt
	for i := 0; i < n; i++ {
		k := g.r.Intn(14)
		switch {
		case k < 4:
			s := Stmt{Kind: sText, Text: words[g.r.Intn(len(words))]}
			if g.r.Chance(1, 4) {
				s.Attrs = g.attrs(2)
			}
			out = append(out, s)
		case k < 5:
			if !g.noDoc && g.r.Chance(1, 2) {
				d := Stmt{Kind: sDoc}
				for j := 1 + g.r.Intn(3); j > 0; j-- {
					d.Lines = append(d.Lines, []string{"doc " + g.str(), "more", "see é", "x"}[g.r.Intn(4)])
				}
				out = append(out, d)
				continue
			}
			out = append(out, Stmt{Kind: sQText, Text: g.str()})
		case k < 7:
			s := Stmt{Kind: sCall, Text: fmt.Sprintf("E%d", g.r.Intn(4))}
			if g.r.Chance(1, 3) {
				s.Dot = true
			} else {
				s.Kw = apps[g.r.Intn(len(apps))]
			}
			if g.r.Chance(1, 4) {
				s.Attrs = g.attrs(2)
			}
			out = append(out, s)
		case k < 8:
			out = append(out, Stmt{Kind: sRet, Text: []string{"ok <: string", "error", "ok <: T0", "200 <: int"}[g.r.Intn(4)]})
		case depth > 0 && k < 10:
			out = append(out, Stmt{Kind: sIf, Text: "c" + fmt.Sprint(g.r.Intn(9)), Body: g.stmts(depth-1, 2, apps)})
			for g.r.Chance(1, 3) {
				e := Stmt{Kind: sElse, Body: g.stmts(depth-1, 2, apps)}
				if g.r.Bool() {
					e.Text = "d" + fmt.Sprint(g.r.Intn(9))
				}
				out = append(out, e)
			}
		case depth > 0 && k < 11:
			out = append(out, Stmt{Kind: sLoop, Kw: loopKw[g.r.Intn(len(loopKw))], Text: "x" + fmt.Sprint(g.r.Intn(9)), Body: g.stmts(depth-1, 2, apps)})
		case depth > 0 && k < 12:
			out = append(out, Stmt{Kind: sGroup, Text: "grp" + fmt.Sprint(g.r.Intn(9)), Body: g.stmts(depth-1, 2, apps)})
		case depth > 0 && k < 13:
			s := Stmt{Kind: sOneOf}
			nc := 1 + g.r.Intn(3)
			for j := 0; j < nc; j++ {
				s.Cases = append(s.Cases, Case{Label: "case" + fmt.Sprint(j), Body: g.stmts(depth-1, 2, apps)})
			}
			out = append(out, s)
		default:
			out = append(out, Stmt{Kind: sText, Text: words[g.r.Intn(len(words))]})
		}
	}
	return out
}

type appPlan struct {
	name      string
	types     []string
	tables    map[string]bool
	fields    map[string][]string
	eps       []string
	events    []string
	paths     []string
	annoPool  []string
	typeAnno  map[string]*[]string
	fieldAnno map[string]*[]string
	epAnno    map[string]*[]string
	likes     int
	subs      map[string]bool // subscriptions declared so far (publisher|event)
}

func (g *gen) typeShare(p *appPlan, redeclare bool) TypeD {
	var name string
	if len(p.types) > 0 && (redeclare || g.r.Chance(1, 3)) {
		name = p.types[g.r.Intn(len(p.types))]
	} else {
		name = fmt.Sprintf("T%d", len(p.types))
		p.types = append(p.types, name)
		p.tables[name] = g.r.Bool()
		p.typeAnno[name] = &[]string{}
	}
	t := TypeD{Table: p.tables[name], Name: name, Attrs: g.attrs(3), Annos: g.annos(p.typeAnno[name], 2)}
	nf := g.r.Intn(4)
	for i := 0; i < nf; i++ {
		var fn string
		if fs := p.fields[name]; len(fs) > 0 && g.r.Chance(1, 4) {
			fn = fs[g.r.Intn(len(fs))]
			dup := false
			for _, x := range t.Fields {
				if x.Name == fn {
					dup = true
				}
			}
			if dup {
				continue
			}
		} else {
			fn = fmt.Sprintf("f%d", len(p.fields[name]))
			p.fields[name] = append(p.fields[name], fn)
		}
		key := name + "." + fn
		if p.fieldAnno[key] == nil {
			p.fieldAnno[key] = &[]string{}
		}
		f := Field{Name: fn, Type: prims[g.r.Intn(len(prims))], Opt: g.r.Chance(1, 5), Attrs: g.attrs(3)}
		if g.r.Chance(1, 6) && len(p.types) > 0 {
			f.Type = p.types[g.r.Intn(len(p.types))]
		}
		if g.r.Chance(1, 4) {
			f.Annos = g.annos(p.fieldAnno[key], 2)
		}
		t.Fields = append(t.Fields, f)
	}
	return t
}

// params: one to three parameters "name <: type [attributes]"
func (g *gen) params(p *appPlan) []Field {
	var out []Field
	for i, n := 0, 1+g.r.Intn(3); i < n; i++ {
		f := Field{Name: fmt.Sprintf("p%d", i), Type: prims[g.r.Intn(len(prims))]}
		if g.r.Chance(1, 4) && len(p.types) > 0 {
			f.Type = p.types[g.r.Intn(len(p.types))]
		}
		if g.r.Chance(1, 3) {
			for _, a := range g.attrs(2) {
				if a.Form == fDefault {
					f.Attrs = append(f.Attrs, a)
				}
			}
		}
		out = append(out, f)
	}
	return out
}

// typeLike: an enum, alias or union under a name of its own (a second declaration of one name REPLACES the first: such
// re-declarations are generated in the replacing stream only)
func (g *gen) typeLike(p *appPlan) TypeD {
	p.likes++
	t := TypeD{Attrs: g.attrs(2)}
	var pool []string
	t.Annos = g.annos(&pool, 2)
	if g.hostile && p.likes > 1 && g.r.Chance(1, 2) {
		p.likes = 1 + g.r.Intn(p.likes-1) // declare an earlier name again
	}
	switch g.r.Intn(3) {
	case 0:
		t.Form, t.Name = tEnum, fmt.Sprintf("En%d", p.likes)
		for i, n := 0, 1+g.r.Intn(3); i < n; i++ {
			t.Members = append(t.Members, fmt.Sprintf("I%d", i))
		}
	case 1:
		t.Form, t.Name = tAlias, fmt.Sprintf("Al%d", p.likes)
		t.Target = []string{"int", "string", "sequence of int", "set of string", "date"}[g.r.Intn(5)]
		if len(p.types) > 0 && g.r.Chance(1, 3) {
			t.Target = p.types[g.r.Intn(len(p.types))]
		}
		if len(t.Annos) == 0 && g.r.Chance(1, 3) {
			t.Inline = true
		}
	default:
		t.Form, t.Name = tUnion, fmt.Sprintf("Un%d", p.likes)
		ms := []string{"int", "string", "sequence of int", "bool", "set of string"}
		if len(p.types) > 0 {
			ms = append(ms, p.types[0])
		}
		for i, n := g.r.Intn(len(ms)), g.r.Intn(4); n > 0; n, i = n-1, i+1 {
			t.Members = append(t.Members, ms[i%len(ms)])
		}
	}
	return t
}

func (g *gen) epShare(p *appPlan, apps []string, event bool) EpD {
	pool := &p.eps
	prefix := "E"
	if event {
		pool = &p.events
		prefix = "V"
	}
	var name string
	again := false
	if len(*pool) > 0 && g.r.Chance(1, 3) && (!event || g.hostile) {
		name = (*pool)[g.r.Intn(len(*pool))]
		again = true
	} else {
		name = fmt.Sprintf("%s%d", prefix, len(*pool))
		*pool = append(*pool, name)
		p.epAnno[prefix+name] = &[]string{}
	}
	e := EpD{Event: event, Name: name, Attrs: g.attrs(3)}
	if event && again {
		e.Attrs = nil // EnterEvent replaces the attribute map: a value matter outside this property
	}
	if !event && g.r.Chance(1, 4) {
		e.Long = g.str()
	}
	if !event && g.r.Chance(1, 6) {
		e.Shortcut = true
		return e
	}
	if !event {
		e.Annos = g.annos(p.epAnno[prefix+name], 2)
	}
	if (!event || !again) && g.r.Chance(1, 4) {
		e.Params = g.params(p)
	}
	e.Stmts = g.stmts(2, 3, apps)
	if again && !event && g.r.Chance(1, 3) {
		// a re-opening that adds annotations only: the statement scope is entered and left without a new statement
		e.Stmts = nil
		if len(e.Annos) == 0 {
			e.Annos = []Anno{{Name: g.id("n"), Val: g.str()}}
		}
	}
	return e
}

// someAttrs: a non-empty attribute list
func (g *gen) someAttrs(max int) []Attr {
	for i := 0; i < 4; i++ {
		if as := g.attrs(max); len(as) > 0 {
			return as
		}
	}
	return []Attr{{Kind: 1, Name: g.id("m")}}
}

// collector: ".. * <- *:" with one to three statements, now and then "..."
func (g *gen) collector(apps []string) Collector {
	var c Collector
	if g.r.Chance(1, 6) {
		return c
	}
	for i, n := 0, 1+g.r.Intn(3); i < n; i++ {
		cs := CStmt{Attrs: g.someAttrs(2)}
		switch g.r.Intn(3) {
		case 0:
			cs.Kind, cs.Text = cAction, words[g.r.Intn(len(words))]
		case 1:
			// (an endpoint no call statement names: the attributes of a collector statement that matches a call - or an
			// endpoint, for the action and HTTP forms - are COPIED onto it with their locations by the post-processing)
			cs.Kind, cs.App, cs.Text = cCall, apps[g.r.Intn(len(apps))], fmt.Sprintf("C%d", g.r.Intn(4))
		default:
			cs.Kind, cs.App = cHTTP, verbs[g.r.Intn(len(verbs))]
			cs.Text = []string{"/c0", "/c1/{id}", "/c0/{id}/items", "/c2/7"}[g.r.Intn(4)]
		}
		c.Stmts = append(c.Stmts, cs)
	}
	return c
}

// subscribe: a subscription to an event of another application or of an application that is declared nowhere. The
// events subscribed to are never declared with "<->" here (an event declared after a subscription to it records no
// location, a variant of the known event finding); a subscription is declared once per application outside the replacing stream
func (g *gen) subscribe(p *appPlan, apps []string) (Subscribe, bool) {
	pub := "Ext"
	if g.r.Chance(2, 3) {
		pub = apps[g.r.Intn(len(apps))]
	}
	if pub == p.name {
		pub = "Ext"
	}
	s := Subscribe{Pub: pub, Event: fmt.Sprintf("Sv%d", g.r.Intn(3)), Attrs: g.attrs(3)}
	k := s.Pub + "|" + s.Event
	if p.subs[k] && !g.hostile {
		return s, false
	}
	p.subs[k] = true
	if !g.r.Chance(1, 5) {
		g.noDoc = true
		s.Stmts = g.stmts(1, 3, apps)
		g.noDoc = false
	}
	return s, true
}

func (g *gen) rest(p *appPlan, apps []string, depth int, prefix string) Rest {
	seg := fmt.Sprintf("/p%d", g.r.Intn(3))
	r := Rest{Path: seg, Name: seg}
	if g.r.Chance(1, 3) || g.hostile && g.r.Chance(1, 3) {
		v := g.id("id")
		if g.hostile {
			v = "id" // a method declared again under the same typed path: its URL parameters are replaced
		}
		ty := []string{"int", "int", "string", "bool", "T0"}[g.r.Intn(5)]
		r.Path = seg + "/{" + v + " <: " + ty + "}"
		r.Name = seg + "/{" + v + "}"
	}
	// no array values on REST paths: a method declared twice under one path merges the shared attribute object
	// into itself and doubles its items (a value defect outside this property)
	for _, a := range g.attrs(2) {
		if a.Kind != 2 {
			r.Attrs = append(r.Attrs, a)
		}
	}
	var pool []string
	for _, a := range g.annos(&pool, 1) {
		if len(a.Items) == 0 && a.Form == fDefault {
			r.Annos = append(r.Annos, a)
		}
	}
	nm := g.r.Intn(3)
	if depth == 0 && nm == 0 {
		nm = 1
	}
	used := map[string]bool{}
	for i := 0; i < nm; i++ {
		v := verbs[g.r.Intn(len(verbs))]
		if used[v] {
			continue
		}
		used[v] = true
		g.noDoc = true
		m := Method{Verb: v, Attrs: g.attrs(2), Stmts: g.stmts(1, 2, apps)}
		g.noDoc = false
		if g.r.Chance(1, 5) {
			m.Params = g.params(p)
		}
		if g.r.Chance(1, 4) {
			m.Query = "q" + fmt.Sprint(g.r.Intn(3)) + "=int"
		}
		// annotations of a REST method come from a pool of its endpoint name: a method declared again (in another
		// block or file) now and then declares one of its annotations again
		mk := "M" + v + " " + prefix + r.Name
		if p.epAnno[mk] == nil {
			p.epAnno[mk] = &[]string{}
		}
		if g.r.Chance(1, 3) {
			m.Annos = g.annos(p.epAnno[mk], 2)
		}
		r.Methods = append(r.Methods, m)
	}
	if depth > 0 {
		nk := g.r.Intn(3)
		if nm == 0 && nk == 0 {
			nk = 1
		}
		for i := 0; i < nk; i++ {
			r.Kids = append(r.Kids, g.rest(p, apps, depth-1, prefix+r.Name))
		}
	}
	return r
}

// spec builds a specification of nApps apps split into blocks spread over nFiles files
func (g *gen) spec(nApps, maxBlocks, nFiles, maxItems int) Spec {
	var plans []*appPlan
	var names []string
	for i := 0; i < nApps; i++ {
		n := fmt.Sprintf("A%d", i)
		if g.r.Chance(1, 5) {
			n = fmt.Sprintf("Ns%d :: A%d", g.r.Intn(2), i)
		}
		names = append(names, n)
		plans = append(plans, &appPlan{name: n, tables: map[string]bool{}, fields: map[string][]string{},
			typeAnno: map[string]*[]string{}, fieldAnno: map[string]*[]string{}, epAnno: map[string]*[]string{}, subs: map[string]bool{}})
	}
	s := Spec{}
	for i := 0; i < nFiles; i++ {
		s.Files = append(s.Files, FileD{Name: fmt.Sprintf("f%d.sysl", i)})
	}
	// import graph: every file reachable from the root; star, chain or random tree plus extra edges
	shape := g.r.Intn(3)
	for i := 1; i < nFiles; i++ {
		parent := 0
		switch shape {
		case 1:
			parent = i - 1
		case 2:
			parent = g.r.Intn(i)
		}
		s.Files[parent].Imports = append(s.Files[parent].Imports, fmt.Sprintf("f%d", i))
		s.Files[parent].ImpIdx = append(s.Files[parent].ImpIdx, i)
	}
	// cross edges, diamonds with extra edges, back edges: the compile order is the depth-first preorder in textual
	// order, which differs from a breadth-first or "seen when pushed" order only with such edges
	for k := g.r.Intn(nFiles); nFiles > 2 && k > 0; k-- {
		a, b := g.r.Intn(nFiles), g.r.Intn(nFiles)
		if a == b {
			continue
		}
		dup := false
		for _, x := range s.Files[a].ImpIdx {
			if x == b {
				dup = true
			}
		}
		if !dup {
			s.Files[a].Imports = append(s.Files[a].Imports, fmt.Sprintf("f%d", b))
			s.Files[a].ImpIdx = append(s.Files[a].ImpIdx, b)
		}
	}
	if nFiles > 2 && g.r.Chance(1, 3) { // an extra edge (diamond / back edge)
		a, b := g.r.Intn(nFiles), g.r.Intn(nFiles)
		if a != b {
			dup := false
			for _, x := range s.Files[a].ImpIdx {
				if x == b {
					dup = true
				}
			}
			if !dup {
				s.Files[a].Imports = append(s.Files[a].Imports, fmt.Sprintf("f%d", b))
				s.Files[a].ImpIdx = append(s.Files[a].ImpIdx, b)
			}
		}
	}
	// permute import statements
	for i := range s.Files {
		f := &s.Files[i]
		for j := len(f.Imports) - 1; j > 0; j-- {
			k := g.r.Intn(j + 1)
			f.Imports[j], f.Imports[k] = f.Imports[k], f.Imports[j]
			f.ImpIdx[j], f.ImpIdx[k] = f.ImpIdx[k], f.ImpIdx[j]
		}
	}
	needMx := false
	for ai, p := range plans {
		nb := 1 + g.r.Intn(maxBlocks)
		for b := 0; b < nb; b++ {
			blk := Block{App: p.name}
			if g.r.Chance(1, 3) {
				blk.Long = g.str()
			}
			blk.Attrs = g.attrs(3)
			ni := 1 + g.r.Intn(maxItems)
			for k := 0; k < ni; k++ {
				switch x := g.r.Intn(14); {
				case x >= 13:
					blk.Items = append(blk.Items, g.collector(names))
				case x >= 12:
					if sb, ok := g.subscribe(p, names); ok {
						blk.Items = append(blk.Items, sb)
					}
				case x >= 11:
					// the mixed-in application holds no types: its types would be copied into this one
					blk.Items = append(blk.Items, Mixin{App: "Mx"})
					needMx = true
				case x >= 10:
					blk.Items = append(blk.Items, g.typeLike(p))
				case x < 3:
					blk.Items = append(blk.Items, g.typeShare(p, false))
				case x < 6:
					blk.Items = append(blk.Items, g.epShare(p, names, false))
				case x < 7:
					blk.Items = append(blk.Items, g.epShare(p, names, true))
				case x < 9:
					blk.Items = append(blk.Items, g.rest(p, names, 1+g.r.Intn(2), ""))
				default:
					for _, a := range g.annos(&p.annoPool, 2) {
						blk.Items = append(blk.Items, a)
					}
				}
			}
			if len(blk.Items) == 0 {
				blk.Items = append(blk.Items, g.epShare(p, names, false))
			}
			fi := g.r.Intn(nFiles)
			if b == 0 && ai == 0 {
				fi = 0
			}
			s.Files[fi].Blocks = append(s.Files[fi].Blocks, blk)
		}
	}
	if needMx {
		fi := g.r.Intn(nFiles)
		s.Files[fi].Blocks = append(s.Files[fi].Blocks, Block{App: "Mx", Attrs: []Attr{{Kind: 1, Name: "abstract"}}, Items: []interface{}{EpD{Name: "E0", Shortcut: true}}})
	}
	// every file needs at least one block
	for i := range s.Files {
		if len(s.Files[i].Blocks) == 0 {
			p := plans[g.r.Intn(len(plans))]
			blk := Block{App: p.name, Items: []interface{}{g.epShare(p, names, false)}}
			s.Files[i].Blocks = append(s.Files[i].Blocks, blk)
		}
	}
	return s
}

// everywhere re-opens one app in EVERY file of the specification with the same type, field, endpoint and
// annotation, so that their n locations spell out the order in which the files were compiled
func (g *gen) everywhere(s *Spec) {
	app := s.Files[0].Blocks[0].App
	for i := range s.Files {
		blk := Block{App: app, Items: []interface{}{
			Anno{Name: "n800", Val: g.str()},
			TypeD{Name: "TX", Fields: []Field{{Name: "fx", Type: "int"}}, Annos: []Anno{{Name: "n804", Form: fNested, Nested: g.nested()}}},
			EpD{Name: "EX", Stmts: []Stmt{{Kind: sText, Text: words[g.r.Intn(len(words))]}}},
		}}
		at := g.r.Intn(len(s.Files[i].Blocks) + 1)
		bs := append([]Block{}, s.Files[i].Blocks[:at]...)
		bs = append(bs, blk)
		s.Files[i].Blocks = append(bs, s.Files[i].Blocks[at:]...)
	}
}

// ---- tiny files (round 3) ----

// tinyBlock: a body-less, attribute-less application, or an application holding one shortcut endpoint
func tinyBlock(app string, shape int) Block {
	switch shape {
	case 1:
		return Block{App: app, Items: []interface{}{EpD{Name: "E0", Shortcut: true}}}
	case 2:
		return Block{App: app, Items: []interface{}{Anno{Name: "n1", Val: "v"}}}
	}
	return Block{App: app}
}

// tiny builds a specification of n very small files: the root imports (imports in the given order: a star) or the
// files form a chain; every file holds one or two tiny applications. names: 0 = the SAME application in every file
// (its n locations spell the order of the files), 1 = applications whose names have the same length (every file has the
// same token shape: the first element of a file has the token indices, line and column of the last element of the
// file parsed before it), 2 = mixed
func tinySpec(n int, perm []int, chain bool, names int, shape func(i int) int, two bool) Spec {
	s := Spec{}
	for i := 0; i < n; i++ {
		s.Files = append(s.Files, FileD{Name: fmt.Sprintf("f%d.sysl", i)})
	}
	imp := func(a, b int) {
		s.Files[a].Imports = append(s.Files[a].Imports, fmt.Sprintf("f%d", b))
		s.Files[a].ImpIdx = append(s.Files[a].ImpIdx, b)
	}
	if chain {
		at := 0
		for _, j := range perm {
			imp(at, j)
			at = j
		}
	} else {
		for _, j := range perm {
			imp(0, j)
		}
	}
	pool := []string{"Legacy", "Modern", "Backup", "Ledger", "Portal"}
	for i := range s.Files {
		var app string
		switch names {
		case 0:
			app = "Legacy"
		case 1:
			app = pool[i%len(pool)]
		default:
			app = []string{"Legacy", pool[i%len(pool)], "Ns :: Legacy"}[i%3]
		}
		s.Files[i].Blocks = append(s.Files[i].Blocks, tinyBlock(app, shape(i)))
		if two {
			s.Files[i].Blocks = append(s.Files[i].Blocks, tinyBlock(pool[(i+1)%len(pool)], 0))
		}
	}
	return s
}

func permutations(xs []int) [][]int {
	if len(xs) <= 1 {
		return [][]int{append([]int{}, xs...)}
	}
	var out [][]int
	for i := range xs {
		rest := append(append([]int{}, xs[:i]...), xs[i+1:]...)
		for _, p := range permutations(rest) {
			out = append(out, append([]int{xs[i]}, p...))
		}
	}
	return out
}

// tinySpecs: every import order of stars and chains of 2-4 files (5 in the thorough tier), with the three naming schemes
func (g *gen) tinySpecs(maxFiles int) []Spec {
	var out []Spec
	for n := 2; n <= maxFiles; n++ {
		var rest []int
		for i := 1; i < n; i++ {
			rest = append(rest, i)
		}
		for _, perm := range permutations(rest) {
			for names := 0; names < 3; names++ {
				for _, chain := range []bool{false, true} {
					if chain && n == 2 {
						continue
					}
					k := g.r.Intn(4)
					out = append(out, tinySpec(n, perm, chain, names, func(i int) int {
						if k == 0 {
							return (i + 1) % 3 % 2 // some files hold a shortcut endpoint
						}
						return 0
					}, k == 1))
				}
			}
		}
	}
	return out
}

// tinyRandom: 2-5 tiny files in a random import graph with extra (cross / back) edges
func (g *gen) tinyRandom() Spec {
	n := 2 + g.r.Intn(4)
	var perm []int
	for i := 1; i < n; i++ {
		perm = append(perm, i)
	}
	for j := len(perm) - 1; j > 0; j-- {
		k := g.r.Intn(j + 1)
		perm[j], perm[k] = perm[k], perm[j]
	}
	names := g.r.Intn(3)
	s := tinySpec(n, perm, g.r.Bool(), names, func(int) int { return []int{0, 0, 0, 1, 2}[g.r.Intn(5)] }, g.r.Chance(1, 4))
	for k := g.r.Intn(n); k > 0; k-- {
		a, b := g.r.Intn(n), g.r.Intn(n)
		dup := a == b
		for _, x := range s.Files[a].ImpIdx {
			if x == b {
				dup = true
			}
		}
		if !dup {
			s.Files[a].Imports = append(s.Files[a].Imports, fmt.Sprintf("f%d", b))
			s.Files[a].ImpIdx = append(s.Files[a].ImpIdx, b)
		}
	}
	return s
}
