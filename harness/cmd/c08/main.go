// C08 harness: recorded source locations point at the declaring text.
//
// Every case is a generated specification (1-3 apps split into blocks over 1-4 files, re-opened apps, types, fields,
// endpoints, REST methods; attributes, annotations, nested statements) written with a random layout by a renderer that
// records where it put the first character of every element. The real parser compiles the files; a Go oracle compares
// the source contexts of every element of the module with the record; the Coq model (Loc/Model.v) recomputes all
// contexts from the lines (as items with widths) and the declaration tree and is compared with the observation.
package main

import (
	"fmt"
	"os"
	"sort"
	"strings"
	"time"

	"github.com/sirupsen/logrus"

	"verifharness/common"
)

func galForest(ns []*node) string {
	it := make([]string, len(ns))
	for i, n := range ns {
		k := n.Key
		if k == 0 {
			k = 1
		}
		if n.SameAs != nil {
			n.First, n.Last = n.SameAs.First, n.SameAs.Last
		}
		it[i] = fmt.Sprintf("P %d %d %d %d %d %s %s", n.Kind, k, n.First, n.Last, n.TLen, galForest(n.Attrs), galForest(n.Kids))
	}
	return "[" + strings.Join(it, ";") + "]"
}

func galFile(f fileOut) string {
	ls := make([]string, len(f.Lines))
	for i, l := range f.Lines {
		it := make([]string, len(l))
		for j, x := range l {
			if x.Syn {
				it[j] = "S"
			} else {
				it[j] = fmt.Sprintf("R %d %d", x.W, x.L)
			}
		}
		ls[i] = "[" + strings.Join(it, ";") + "]"
	}
	return fmt.Sprintf("F %d [%s] %s", f.DedentLen, strings.Join(ls, ";"), galForest(f.Forest))
}

// galCase prints the case with the observed contexts per declaration key
func galCase(rd Rendered, got map[string]*found) string {
	fidx := map[string]int{}
	fs := make([]string, len(rd.Graph))
	for i := range fs {
		fs[i] = "F 0 [] []" // a file of the specification that is never reached
	}
	for i, f := range rd.Files {
		fidx[f.Name] = i
		fs[f.Idx] = galFile(f)
	}
	gr := make([]string, len(rd.Graph))
	for i, im := range rd.Graph {
		it := make([]string, len(im))
		for j, x := range im {
			it[j] = fmt.Sprint(x)
		}
		gr[i] = "[" + strings.Join(it, ";") + "]"
	}
	// one observation per key: the contexts found at the first module path of the first declaration with that key
	seen := map[int]bool{}
	var obs []string
	for _, d := range rd.Decls {
		if seen[d.Key] || len(d.Paths) == 0 {
			continue
		}
		if d.Replaced {
			// a statement (or its attribute) of a collector declaration that a later declaration of the collector replaced:
			// no element of the module any more (its path now names a statement of the later declaration)
			continue
		}
		seen[d.Key] = true
		var cs []string
		if f := got[d.Paths[0]]; f != nil {
			for _, x := range f.cs {
				fi, ok := fidx[x.File]
				if !ok {
					fi = 999
				}
				cs = append(cs, fmt.Sprintf("X %d %d %d %d %d", fi, x.SL, x.SC, x.EL, x.EC))
			}
		}
		obs = append(obs, fmt.Sprintf("(%d,[%s])", d.Key, strings.Join(cs, ";")))
	}
	return fmt.Sprintf("C [%s] [%s] [%s]", strings.Join(fs, ";"), strings.Join(gr, ";"), strings.Join(obs, ";"))
}

func toCase(stream string, rd Rendered) Input {
	cs := Input{Stream: stream, Root: rd.Files[0].Name, Files: map[string]string{}, Decls: rd.Decls, Implicit: rd.Implicit}
	for _, f := range rd.Files {
		cs.Files[f.Name] = f.Text
	}
	return cs
}

func showCase(cs Input) {
	var names []string
	for n := range cs.Files {
		names = append(names, n)
	}
	sort.Strings(names)
	for _, n := range names {
		fmt.Printf("---- %s\n", n)
		for i, l := range strings.Split(cs.Files[n], "\n") {
			fmt.Printf("%3d|%s\n", i, l)
		}
	}
}

func main() {
	logrus.SetLevel(logrus.PanicLevel)
	if common.IsWorker() {
		common.ServeWorker(compileInWorker)
		return
	}
	if len(os.Args) > 2 && os.Args[1] == "lex" {
		lexDump(os.Args[2])
		return
	}
	if len(os.Args) > 2 && os.Args[1] == "probe" {
		probe(os.Args[2:])
		return
	}
	c := common.Setup("C08")
	defer c.Finish()
	c.Res.Rule = "each case = one generated specification (1-3 apps in 1-4 blocks each over 1-5 files of a star / chain / tree import graph with up to n extra cross / diamond / back edges, in a third of the cases one app re-opened in every file; attribute and annotation values as string, flat array, nested arrays, empty array, empty string, multi-line doc string; types and tables with fields, simple endpoints, events, REST trees with every HTTP verb, nested statements, attributes, modifiers, array values and annotations; apps, types, fields, endpoints, REST methods and annotations re-declared; REST paths with typed parameters, collectors with action / call / HTTP statements declared in several blocks, subscriptions to declared and undeclared publishers) written with a random layout (indent widths 1-8 per body, tabs and spaces mixed per line, blank / whitespace-only / comment lines before declarations, trailing comments, extra blanks and tabs between tokens, non-ASCII text in quoted strings in front of elements on the same line, with and without a final newline); compiled by the real parser; distinct = distinct text; non-trivial = at least one element declared more than once or more than one file"
	if c.Replay != "" {
		var cs Input
		if err := common.LoadReplay(c.Replay, &cs); err != nil {
			fmt.Fprintln(os.Stderr, err)
			os.Exit(3)
		}
		showCase(cs)
		m, e := compile(cs.Files, cs.Root)
		_, cerr := judge(c, cs, compiled{m, e})
		c.Count("replay", true)
		if cerr != "" {
			fmt.Println("compile:", cerr)
		}
		fmt.Printf("replay: failures=%d\n", len(c.Res.Failures))
		for _, f := range c.Res.Failures {
			fmt.Printf("  %s: %s\n", f.Key, f.What)
		}
		return
	}
	header := `From Coq Require Import List NArith PArith Bool. Import ListNotations.
Require Import Verif.Loc.Model Verif.Loc.Run Verif.Base.Harness.
Local Open Scope N_scope.`
	footer := `Definition M := Eval vm_compute in mismatches c08_ok cases. Print M.`
	per := 40
	if c.Thorough() {
		per = 400
	}
	cases := c.NewCases("C08", header, "c08_case", footer, per)
	g := &gen{r: c.Rng.Fork()}
	lay := c.Rng.Fork()

	n := 300
	if c.Thorough() {
		n = 6000
	}
	if c.Search {
		n *= 4
	}
	rejected := 0
	type job struct {
		stream string
		rd     Rendered
		in     Input
	}
	var jobs []job
	add := func(stream string, s Spec, o layoutOpts) {
		rd := render(s, lay, o)
		jobs = append(jobs, job{stream, rd, toCase(stream, rd)})
	}
	for i, s := range targeted() {
		add("targeted", s, layoutOpts{plain: true})
		add("targeted", s, layoutOpts{})
		add("targeted", s, layoutOpts{crlf: true, plain: i%2 == 0})
	}
	// tiny files: every import order of stars and chains of 2-4 (thorough: 5) files that hold one or two body-less
	// applications (or one shortcut endpoint / annotation), the same application in every file or applications of one
	// token shape; plain layout (nothing in front of the first header), some with CRLF, a third also with random layout
	maxTiny := 4
	if c.Thorough() {
		maxTiny = 5
	}
	for i, s := range g.tinySpecs(maxTiny) {
		add("tiny", s, layoutOpts{plain: true, crlf: i%7 == 3})
		if i%3 == 0 {
			add("tiny", s, layoutOpts{crlf: i%2 == 0})
		}
	}
	for i := 0; i < n/10; i++ {
		add("tiny", g.tinyRandom(), layoutOpts{plain: i%2 == 0})
	}
	for i := 0; i < n; i++ {
		var s Spec
		switch i % 4 {
		case 0:
			s = g.spec(1, 3, 1+g.r.Intn(2), 3)
		case 1:
			s = g.spec(2, 3, 1+g.r.Intn(3), 3)
		case 2:
			s = g.spec(1+g.r.Intn(3), 3, 1+g.r.Intn(4), 2)
		default:
			s = g.spec(2, 2, 2, 4)
		}
		if i%3 == 0 {
			g.everywhere(&s)
		}
		add("random", s, layoutOpts{plain: i%10 == 9, crlf: i%7 == 3})
	}
	// import graphs of 3-5 files with cross, diamond and back edges; one app re-opened in every file
	for i := 0; i < n/5; i++ {
		s := g.spec(1+g.r.Intn(2), 2, 3+g.r.Intn(3), 2)
		g.everywhere(&s)
		add("graph", s, layoutOpts{plain: i%2 == 0})
	}
	// re-declarations that REPLACE instead of merging (Go oracle only; the model does not cover them): events declared
	// in several blocks, [name=value] attributes repeated on several declarations of their owner
	nh := n / 6
	gh := &gen{r: c.Rng.Fork(), hostile: true}
	add("replacing", replacingTargeted(), layoutOpts{plain: true})
	add("replacing", replacingTargeted(), layoutOpts{})
	for i := 0; i < nh; i++ {
		add("replacing", gh.spec(1+gh.r.Intn(2), 3, 1+gh.r.Intn(2), 3), layoutOpts{plain: i%2 == 0})
	}
	ins := make([]Input, len(jobs))
	for i, j := range jobs {
		ins[i] = j.in
	}
	t0 := time.Now()
	cms := compileAll(ins)
	c.Res.Extra["compile_seconds"] = int(time.Since(t0).Seconds())
	for ji, j := range jobs {
		stream, rd, cs := j.stream, j.rd, j.in
		got, cerr := judge(c, cs, cms[ji])
		if cerr != "" {
			rejected++
			c.Hist("rejected:" + stream)
			if rejected <= 3 {
				c.Res.Notes = append(c.Res.Notes, "rejected by the parser: "+cerr)
				c.Sample(map[string]interface{}{"rejected": cs.Files, "err": cerr})
			}
			c.Count("rejected", false)
			continue
		}
		multi := len(rd.Files) > 1
		byKey := map[int]int{}
		for _, d := range rd.Decls {
			byKey[d.Key]++
			c.Hist("decl:" + kindClass[d.Kind])
			c.Hist(fmt.Sprintf("kind:%d", d.Kind))
			if d.Kind == kMethod {
				c.Hist("verb:" + d.Show)
			}
		}
		re := false
		for _, k := range byKey {
			if k > 1 {
				re = true
			}
		}
		if re {
			c.Hist("cases-with-redeclaration")
		}
		if multi {
			c.Hist("cases-multi-file")
		}
		var all strings.Builder
		for _, f := range rd.Files {
			all.WriteString(f.Text)
			all.WriteString("\x00")
		}
		c.Count(all.String(), re || multi)
		c.Hist("stream:" + stream)
		if len(c.Res.Samples) < 2 {
			c.Sample(cs.Files)
		}
		if stream != "replacing" {
			cases.Add(galCase(rd, got), map[string]interface{}{"stream": stream, "files": cs.Files})
		}
	}
	cases.Close()
	c.Res.Extra["rejected"] = rejected
}
