// C03 - layout does not change meaning.
//
// Real side: SyslLexer.NextToken (token-level tie with the Coq indentation model) and parse.Parser
// (metamorphic oracle: original and re-laid-out text must compile to equal modules once source
// contexts are cleared, and must be accepted / rejected together).
package main

import (
	"crypto/sha1"
	"encoding/json"
	"fmt"
	"io"
	"os"
	"path/filepath"
	"runtime"
	"runtime/debug"
	"runtime/pprof"
	"sort"
	"strings"
	"sync"
	"sync/atomic"
	"time"

	"github.com/sirupsen/logrus"
	"github.com/spf13/afero"

	"verifharness/common"
)

type replay struct {
	Name  string `json:"name"`
	Text  string `json:"text"`
	Steps []Step `json:"steps"`
}

type subject struct {
	name string
	text string
	path string // corpus: path relative to the repository (compiled inside the corpus file system); "" = generated
}

// sink collects what one job wants to tell the (single-threaded) Ctx; merged in job order.
type sink struct {
	H []string         `json:"h"`
	C []countRec       `json:"c"`
	F []common.Failure `json:"f"`
	Q []coqRec         `json:"q"`
	D []docRec         `json:"d"`
	S []coqRec         `json:"s"`
}

// docRec: one case for Front/RunDoc.v (an endpoint body or an `@x =:` block as the real listener handled it)
type docRec struct {
	Term string `json:"t"`
	RP   replay `json:"r"`
}
type countRec struct {
	Key string `json:"k"`
	NT  bool   `json:"n"`
}
type coqRec struct {
	Term  string `json:"t"`
	RP    replay `json:"r"`
	NToks int    `json:"n"`
}

func (s *sink) Hist(k string) { s.H = append(s.H, k) }
func (s *sink) Count(k string, nt bool) {
	h := sha1.Sum([]byte(k))
	s.C = append(s.C, countRec{fmt.Sprintf("%x", h[:10]), nt})
}
func (s *sink) Fail(key, what string, rp interface{}) {
	s.F = append(s.F, common.Failure{Key: key, What: what, Replay: rp})
}
func (s *sink) toCoq(toks []tokInfo, rp replay) {
	if len(toks) > 4000 {
		return
	}
	s.Q = append(s.Q, coqRec{gCase(toks), rp, len(toks)})
}

// toState: the same text once more through the real lexer, this time with the lexerState after every token
func (s *sink) toState(text string, rp replay) {
	toks, states, ok := lexStates(text)
	if !ok {
		s.Hist("state-case-skipped(lexer did not finish / field out of packed range)")
		return
	}
	if len(toks) > 4000 {
		return
	}
	s.S = append(s.S, coqRec{gStateCase(toks, states), rp, len(toks)})
}

type runner struct {
	c        *common.Ctx
	cs       *common.Cases
	ds       *common.Cases // doc-string / annotation cases
	docCap   int
	ss       *common.Cases // full lexer state cases
	is       *common.Cases // import-section cases
	stToks   int
	stCap    int
	stFile   int
	corpusFs afero.Fs
	coqToks  int
	coqCap   int
	fileToks int
	planned  int
}

// planCoq decides up front (deterministically, in job order) whether a subject's token streams go to Coq
func (r *runner) planCoq(text string) bool {
	est := 2 * (len(text)/3 + 10)
	if r.planned+est > r.coqCap+r.coqCap/4 {
		return false
	}
	r.planned += est
	return true
}

func smallRef(rp replay) interface{} {
	if len(rp.Text) <= 1500 {
		return rp
	}
	var ops []string
	for _, st := range rp.Steps {
		ops = append(ops, st.String())
	}
	return map[string]interface{}{"name": rp.Name, "text_bytes": len(rp.Text), "steps": ops}
}

func (r *runner) merge(s *sink) {
	for _, h := range s.H {
		r.c.Hist(h)
	}
	for _, k := range s.C {
		r.c.Count(k.Key, k.NT)
	}
	for _, f := range s.F {
		r.c.Fail(f.Key, f.What, f.Replay)
	}
	for _, q := range s.Q {
		if r.coqToks+q.NToks > r.coqCap {
			r.c.Hist("coq-case-dropped-over-token-cap")
			continue
		}
		if r.fileToks > 0 && r.fileToks+q.NToks > 25000 {
			r.cs.Close() // one case file = at most ~25 000 tokens (a few seconds and < 1 GB for coqc)
			r.fileToks = 0
		}
		r.cs.Add(q.Term, smallRef(q.RP))
		r.coqToks += q.NToks
		r.fileToks += q.NToks
	}
	for _, q := range s.S {
		if r.ss == nil || r.stToks+q.NToks > r.stCap {
			r.c.Hist("state-case-dropped-over-token-cap")
			continue
		}
		if r.stFile > 0 && r.stFile+q.NToks > 8000 {
			r.ss.Close()
			r.stFile = 0
		}
		r.ss.Add(q.Term, smallRef(q.RP))
		r.stToks += q.NToks
		r.stFile += q.NToks
	}
	for _, d := range s.D {
		if r.ds == nil || r.ds.N() >= r.docCap {
			r.c.Hist("doc-case-dropped-over-cap")
			continue
		}
		r.ds.Add(d.Term, smallRef(d.RP))
	}
	*s = sink{}
}

// ---------- Gallina printing of one lexer run ----------

func gWS(s string) string {
	var it []string
	for i := 0; i < len(s); {
		j := i
		for j < len(s) && s[j] == s[i] {
			j++
		}
		k := "F"
		if s[i] == '\t' {
			k = "T"
		}
		it = append(it, fmt.Sprintf("(%s,%d)", k, j-i))
		i = j
	}
	return "[" + strings.Join(it, ";") + "]"
}

func gCase(toks []tokInfo) string {
	var raws, obs []string
	for _, t := range toks {
		obs = append(obs, fmt.Sprint(t.ty))
		switch {
		case t.synthetic:
		case t.eof:
			raws = append(raws, "e")
		case isWSType(t.ty):
			if t.hidden {
				raws = append(raws, fmt.Sprintf("w %d %s", t.ty, gWS(t.text)))
			} else {
				raws = append(raws, fmt.Sprintf("wv %d %s", t.ty, gWS(t.text)))
			}
		case t.hidden:
			raws = append(raws, fmt.Sprintf("h %d", t.ty))
		default:
			raws = append(raws, fmt.Sprintf("v %d", t.ty))
		}
	}
	return "([" + strings.Join(raws, ";") + "], [" + strings.Join(obs, ";") + "])"
}

// ---------- the property oracle ----------

func (r *runner) compileSubject(s subject, text string) compiled {
	if s.path == "" {
		return compileText(text)
	}
	ov := afero.NewCopyOnWriteFs(r.corpusFs, afero.NewMemMapFs())
	afero.WriteFile(ov, s.path, []byte(text), 0o644)
	return compile(ov, s.path)
}

type verdict struct {
	bad  bool
	kind string // accept | model
	what string
}

func judge(a, b compiled) verdict {
	if a.kind != b.kind {
		return verdict{true, "accept", fmt.Sprintf("original: %s, re-laid-out: %s (%s)", a.kind, b.kind, strings.TrimSpace(firstLine(a.msg+b.msg)))}
	}
	if a.kind == "ok" && !sameModule(a.mod, b.mod) {
		return verdict{true, "model", firstDiff(a.mod, b.mod)}
	}
	return verdict{}
}

func firstLine(s string) string {
	if i := strings.IndexByte(s, '\n'); i >= 0 {
		s = s[:i]
	}
	if len(s) > 120 {
		s = s[:120]
	}
	return s
}

func applyAll(d *Doc, steps []Step) (*Doc, bool) {
	cur := d
	for _, st := range steps {
		nx, ok := cur.Apply(st)
		if !ok {
			return nil, false
		}
		cur = nx
	}
	return cur, true
}

func (r *runner) check(s subject, d *Doc, orig compiled, steps []Step) (verdict, string) {
	vd, ok := applyAll(d, steps)
	if !ok {
		return verdict{}, ""
	}
	vt := vd.String()
	return judge(orig, r.compileSubject(s, vt)), vt
}

// shrink a failing script: drop steps, then thin out the positions of insert / tabify steps
func (r *runner) shrink(s subject, d *Doc, orig compiled, steps []Step, kind string) []Step {
	fails := func(st []Step) bool {
		v, _ := r.check(s, d, orig, st)
		return v.bad && v.kind == kind
	}
	budget := 60
	for changed := true; changed && budget > 0; {
		changed = false
		for i := range steps {
			cand := append(append([]Step(nil), steps[:i]...), steps[i+1:]...)
			budget--
			if len(cand) > 0 && fails(cand) {
				steps, changed = cand, true
				break
			}
		}
	}
	for i := range steps {
		st := steps[i]
		if st.Op != "insert" && st.Op != "tabify" && st.Op != "trail" && st.Op != "eolcomment" {
			continue
		}
		for n := len(st.At); n > 1 && budget > 0; {
			found := false
			for _, rg := range [][2]int{{0, n / 2}, {n / 2, n}} {
				c := st
				c.At = st.At[rg[0]:rg[1]]
				if st.Op != "tabify" {
					c.Text = st.Text[rg[0]:rg[1]]
				} else {
					c.Off = st.Off[rg[0]:rg[1]]
				}
				cand := append([]Step(nil), steps...)
				cand[i] = c
				budget--
				if fails(cand) {
					st, steps, found = c, cand, true
					break
				}
			}
			if !found {
				break
			}
			n = len(st.At)
		}
	}
	return steps
}

// abstract class of a failing script (after shrinking): which transformation, which kind of
// inserted line, where (start / end of text, inside a view body, another lexer mode)
// viewAtEOF: no final newline and the last line is lexed in the view mode
func viewAtEOF(d *Doc) bool {
	return !d.FinalNL && len(d.Lines) > 0 && d.Lines[len(d.Lines)-1].Mode == modeView
}

func failureKey(kind string, d *Doc, steps []Step) string {
	if kind == "accept" && viewAtEOF(d) && len(steps) == 1 && steps[0].Op == "insert" {
		allEnd := true
		for _, b := range steps[0].At {
			allEnd = allEnd && b == len(d.Lines)
		}
		if allEnd {
			return "view-at-eof-unterminated:layout-line-after-it"
		}
	}
	if kind == "accept" && d.FirstLineIndented() && len(steps) == 1 && steps[0].Op == "insert" {
		all0 := true
		for _, b := range steps[0].At {
			all0 = all0 && b == 0
		}
		if all0 {
			return "first-line-indented:layout-line-before-it"
		}
	}
	var parts []string
	cur := d
	for _, st := range steps {
		p := st.Op
		if (st.Op == "trail" || st.Op == "eolcomment") && len(st.At) > 0 && st.At[0] < len(cur.Lines) {
			switch lt := strings.TrimSpace(cur.Lines[st.At[0]].Text); {
			case strings.HasPrefix(lt, "import"):
				p += "@import-line"
			case strings.HasPrefix(lt, "!view"):
				p += "@view-header"
			}
		}
		if st.Op == "insert" && len(st.At) > 0 {
			t := st.Text[0]
			ws := leadOf(t)
			switch {
			case t == "":
				p += "-blank-empty"
			case ws == t:
				p += "-blank-ws"
			case ws == "" && t == "#":
				p += "-comment-col0-empty"
			case ws == "":
				p += "-comment-col0"
			default:
				p += "-comment-indented"
			}
			b := st.At[0]
			switch {
			case b >= len(cur.Lines):
				p += "@end"
				if !cur.FinalNL {
					p += "-no-final-newline"
				}
			case b == 0:
				p += "@start"
				if leadOf(cur.Lines[0].Text) != "" {
					p += "-first-line-indented"
				}
			case cur.Lines[b].Mode == modeView:
				p += "@view"
			case cur.Lines[b].Mode == modeOther:
				p += "@othermode"
			default:
				if cl := boundaryClass(cur, b); cl != "other" && cl != "at-doc-run-edge" {
					p += "@" + cl
				}
			}
		}
		parts = append(parts, p)
		if nx, ok := cur.Apply(st); ok {
			cur = nx
		}
	}
	sort.Strings(parts)
	return kind + ":" + strings.Join(parts, "+")
}

func (r *runner) report(out *sink, s subject, d *Doc, orig compiled, steps []Step, v verdict) {
	small := r.shrink(s, d, orig, steps, v.kind)
	v2, _ := r.check(s, d, orig, small)
	if !v2.bad {
		small, v2 = steps, v
	}
	key := failureKey(v2.kind, d, small)
	var names []string
	for _, st := range small {
		names = append(names, st.String())
	}
	out.Fail(key, fmt.Sprintf("%s: after %s: %s", s.name, strings.Join(names, ", "), v2.what), replay{s.name, s.text, small})
}

// ---------- one subject (runs in a worker; everything it reports goes to its sink) ----------

type job struct {
	s          subject
	seed       uint64 // the subject's own PRNG stream
	rng        *common.Rng
	nVariants  int
	coqOrig    bool
	coqVar     bool
	exhaustive bool
	multi      int // 0 = no; 1 = every boundary, two kinds of layout line each; 2 = every boundary x every kind
	doc        bool
	out        sink
}

// jobReq is a job as sent to a worker subprocess
type jobReq struct {
	Name, Text, Path string
	Seed             uint64
	NVariants        int
	CoqOrig, CoqVar  bool
	Exhaustive       bool
	Multi            int
	Doc              bool
}

func (r *runner) subject(j *job) {
	if j.rng == nil {
		j.rng = common.NewRng(j.seed)
	}
	s, c, rng := j.s, &j.out, j.rng
	noteActive(j, "original")
	defer active.Delete(j)
	toks, ok := lexAll(s.text)
	if !ok {
		c.Hist("lexer-did-not-finish")
		c.Fail("lexer-did-not-finish", s.name+": the lexer panicked or did not reach EOF", replay{s.name, s.text, nil})
		return
	}
	if j.coqOrig {
		c.toCoq(toks, replay{s.name, s.text, nil})
		c.toState(s.text, replay{s.name, s.text, nil})
	}
	d := NewDoc(s.text, toks)
	orig := r.compileSubject(s, s.text)
	c.Hist("original:" + orig.kind)
	run := func(steps []Step, coq bool) {
		vd, ok := applyAll(d, steps)
		if !ok {
			c.Hist("script-not-applicable")
			return
		}
		vt := vd.String()
		if vt == s.text {
			c.Hist("script-identity")
			return
		}
		noteActive(j, fmt.Sprintf("variant of %d bytes after %v", len(vt), steps))
		for _, st := range steps {
			c.Hist("step:" + st.Op)
		}
		if coq {
			if vtoks, ok := lexAll(vt); ok {
				c.toCoq(vtoks, replay{s.name, s.text, steps})
				c.toState(vt, replay{s.name, s.text, steps})
			} else {
				c.Fail("lexer-did-not-finish", s.name+": the lexer panicked or did not reach EOF on a re-laid-out text", replay{s.name, s.text, steps})
			}
		}
		v := judge(orig, r.compileSubject(s, vt))
		c.Count(s.name+"|"+fmt.Sprint(steps), orig.kind == "ok")
		if v.bad {
			r.report(c, s, d, orig, steps, v)
		}
	}
	if d.FirstLineIndented() {
		// a class of its own: a layout line put in front of an indented FIRST line (random scripts never do that)
		c.Hist("start-probe")
		for _, k := range []string{"", "  ", "# c", "    # c", "#"} {
			steps := []Step{{Op: "insert", At: []int{0}, Text: []string{k}}}
			v, _ := r.check(s, d, orig, steps)
			c.Count(s.name+"|"+fmt.Sprint(steps), orig.kind == "ok")
			if v.bad {
				c.Fail(failureKey(v.kind, d, steps), fmt.Sprintf("%s: the first line is indented; after putting the line %q in front of it: %s", s.name, k, v.what), replay{s.name, s.text, steps})
			}
		}
	}
	if !d.FinalNL && len(d.Lines) > 0 && d.Lines[len(d.Lines)-1].Mode == modeDefault {
		// a class of its own: a bare `#` appended as the last line of a text that has no final newline
		c.Hist("end-probe")
		steps := []Step{{Op: "insert", At: []int{len(d.Lines)}, Text: []string{"#"}}}
		v, _ := r.check(s, d, orig, steps)
		c.Count(s.name+"|"+fmt.Sprint(steps), orig.kind == "ok")
		if v.bad {
			c.Fail(failureKey(v.kind, d, steps), fmt.Sprintf("%s: no final newline; after appending the line \"#\": %s", s.name, v.what), replay{s.name, s.text, steps})
		}
	}
	if viewAtEOF(d) {
		// a class of its own: the text ends, without a final newline, inside a view body
		c.Hist("view-end-probe")
		for _, k := range []string{"", "  ", "    # c"} {
			steps := []Step{{Op: "insert", At: []int{len(d.Lines)}, Text: []string{k}}}
			v, _ := r.check(s, d, orig, steps)
			c.Count(s.name+"|"+fmt.Sprint(steps), true)
			if v.bad {
				c.Fail(failureKey(v.kind, d, steps), fmt.Sprintf("%s: the text ends in a view body without a final newline; after appending the line %q: %s", s.name, k, v.what), replay{s.name, s.text, steps})
			}
		}
	}
	for i := 0; i < j.nVariants; i++ {
		var steps []Step
		for k, n := 0, 1+rng.Intn(3); k < n; k++ {
			cur, ok := applyAll(d, steps)
			if !ok {
				break
			}
			if st, ok := randStep(rng, cur, c.Hist); ok {
				if _, ok := cur.Apply(st); ok {
					steps = append(steps, st)
				}
			}
		}
		if len(steps) == 0 {
			continue
		}
		run(steps, j.coqVar && i == 0)
	}
	if j.doc && orig.kind == "ok" {
		// what the real listener made of the multi-line constructs of this text (Front/RunDoc.v)
		emit := func(text string, steps []Step) {
			var fs afero.Fs
			if s.path != "" {
				ov := afero.NewCopyOnWriteFs(r.corpusFs, afero.NewMemMapFs())
				afero.WriteFile(ov, s.path, []byte(text), 0o644)
				fs = ov
			}
			terms, _ := docCases(text, fs, s.path, c.Hist)
			for _, t := range terms {
				c.D = append(c.D, docRec{t, replay{s.name, s.text, steps}})
			}
		}
		emit(s.text, nil)
		if j.multi > 0 {
			for _, k := range []string{"", "      # c"} {
				st := r.allBoundaries(d, k)
				if vd, ok := applyAll(d, st); ok && len(st) > 0 {
					emit(vd.String(), st)
				}
			}
		}
	}
	if j.multi > 0 {
		// LAYOUT INSIDE MULTI-LINE CONSTRUCTS: a layout line at EVERY line boundary of the text - between two `| text`
		// lines, inside `@x =:` blocks, between the lines of a list continued over lines, between annotations, before
		// `else`, between the choices of a one-of - singly, and at all boundaries at once
		kinds := []string{"", "   ", "\t", "#", "# c", "  # c", "\t#", "        # deep"}
		nb := 0
		for b := 0; b <= len(d.Lines); b++ {
			ok := r.boundaryKinds(d, b, kinds)
			if ok == nil {
				continue
			}
			nb++
			for ki, k := range kinds {
				if !ok[ki] {
					continue
				}
				if j.multi < 2 && ki != (b+int(j.seed%8))%len(kinds) && ki != (b+3+int(j.seed%8))%len(kinds) {
					continue
				}
				c.Hist("every-boundary-insert:" + boundaryClass(d, b))
				run([]Step{{Op: "insert", At: []int{b}, Text: []string{k}}}, false)
			}
		}
		for _, k := range kinds {
			if st := r.allBoundaries(d, k); len(st) > 0 {
				c.Hist("all-boundaries-insert")
				run(st, false)
			}
		}
		c.Hist(fmt.Sprintf("multi-spec-boundaries=%d0s", nb/10))
	}
	if j.multi > 0 || j.exhaustive {
		// blanks / a comment after the last token of EVERY line where that is layout: all at once, and each line singly
		var at []int
		for i, l := range d.Lines {
			if l.TrailOK {
				at = append(at, i)
			}
		}
		rep := func(t string) []string {
			out := make([]string, len(at))
			for i := range out {
				out[i] = t
			}
			return out
		}
		if len(at) > 0 {
			for _, t := range []string{"  ", "\t"} {
				c.Hist("every-line-trail")
				run([]Step{{Op: "trail", At: at, Text: rep(t)}}, false)
			}
			for _, t := range []string{" # c", "  #", " #"} {
				c.Hist("every-line-eolcomment")
				run([]Step{{Op: "eolcomment", At: at, Text: rep(t)}}, false)
			}
			for n, i := range at {
				if j.multi < 2 && !j.exhaustive && n%3 != int(j.seed%3) {
					continue
				}
				run([]Step{{Op: "trail", At: []int{i}, Text: []string{"   "}}}, false)
				run([]Step{{Op: "eolcomment", At: []int{i}, Text: []string{"  # c"}}}, false)
			}
		}
		run([]Step{{Op: "crlf"}}, false)
		run([]Step{{Op: "eofws", Text: []string{"   "}}}, false)
		run([]Step{{Op: "eofws", Text: []string{"\t"}}}, false)
	}
	if j.exhaustive {
		// every kind of layout line at every boundary, singly; every scale
		kinds := []string{"", "   ", "\t", "#", "# c", "  # c", "\t#", "        # deep"}
		for b := 0; b <= len(d.Lines); b++ {
			if b < len(d.Lines) && !d.Lines[b].Real {
				continue
			}
			if b == 0 && d.FirstLineIndented() {
				continue
			}
			if b == len(d.Lines) && viewAtEOF(d) {
				continue
			}
			col0 := true
			if b < len(d.Lines) {
				col0 = d.Lines[b].Decl
			} else if len(d.Lines) > 0 {
				col0 = d.Lines[len(d.Lines)-1].Mode == modeDefault
			}
			for ki, k := range kinds {
				if strings.HasPrefix(k, "#") && !col0 {
					continue
				}
				if k == "#" && b == len(d.Lines) && !d.FinalNL {
					continue // end probe
				}
				if s.path != "" && (b+ki)%3 != 0 {
					continue // corpus files: a third of the (boundary, kind) pairs, every kind at every third boundary
				}
				c.Hist("exhaustive-boundary-insert")
				run([]Step{{Op: "insert", At: []int{b}, Text: []string{k}}}, false)
			}
		}
		for k := 2; k <= 4; k++ {
			run([]Step{{Op: "scale", K: k}}, false)
		}
	}
}

// boundaryKinds: which of the layout lines `kinds` may be put at boundary b (nil: none - the boundary lies inside a
// multi-line token, or in front of an indented first line, which the start probe judges)
func (r *runner) boundaryKinds(d *Doc, b int, kinds []string) []bool {
	if b < len(d.Lines) && !d.Lines[b].Real {
		return nil
	}
	if b == 0 && d.FirstLineIndented() {
		return nil
	}
	if b == len(d.Lines) && viewAtEOF(d) {
		return nil // view-end probe
	}
	col0 := true
	if b < len(d.Lines) {
		col0 = d.Lines[b].Decl
	} else if len(d.Lines) > 0 {
		col0 = d.Lines[len(d.Lines)-1].Mode == modeDefault
	}
	ok := make([]bool, len(kinds))
	for ki, k := range kinds {
		ok[ki] = true
		if strings.HasPrefix(k, "#") && !col0 {
			ok[ki] = false
		}
		if k == "#" && b == len(d.Lines) && !d.FinalNL {
			ok[ki] = false // end probe
		}
	}
	return ok
}

// allBoundaries: the layout line k at every boundary where it is allowed, in one step
func (r *runner) allBoundaries(d *Doc, k string) []Step {
	var at []int
	var txt []string
	for b := 0; b <= len(d.Lines); b++ {
		if ok := r.boundaryKinds(d, b, []string{k}); ok != nil && ok[0] {
			at, txt = append(at, b), append(txt, k)
		}
	}
	if len(at) == 0 {
		return nil
	}
	return []Step{{Op: "insert", At: at, Text: txt}}
}

// boundaryClass: the multi-line construct a boundary lies in, read off the neighbouring original lines
func boundaryClass(d *Doc, b int) string {
	prev, next := "", ""
	for i := b - 1; i >= 0; i-- {
		if !d.Lines[i].Ins {
			prev = strings.TrimSpace(d.Lines[i].Text)
			break
		}
	}
	for i := b; i < len(d.Lines); i++ {
		if !d.Lines[i].Ins {
			next = strings.TrimSpace(d.Lines[i].Text)
			break
		}
	}
	switch {
	case strings.HasPrefix(prev, "|") && strings.HasPrefix(next, "|"):
		return "in-doc-run"
	case strings.HasSuffix(prev, ",") || strings.HasSuffix(prev, "[") || strings.HasSuffix(prev, "("):
		return "in-list"
	case strings.HasSuffix(prev, "=:"):
		return "after-anno-head"
	case strings.HasPrefix(next, "else"):
		return "before-else"
	case strings.HasPrefix(prev, "@") && strings.HasPrefix(next, "@"):
		return "in-anno-run"
	case strings.HasPrefix(prev, "|") || strings.HasPrefix(next, "|"):
		return "at-doc-run-edge"
	case strings.HasPrefix(prev, "one of") || strings.HasPrefix(prev, "One of"):
		return "after-one-of"
	}
	return "other"
}

// Subjects are handled by worker subprocesses (this binary with VERIF_WORKER=1), one subject at a time per
// worker, each worker replaced after a number of subjects.  Reason (measured): pkg/grammar keeps per-lexer state
// in a package-level lock-free map (cornelk/hashmap v1.0.1) whose element count goes wrong under concurrent
// Set/Del from many parses in one long-lived process; its index then doubles until the process dies
// (a 64 GB makeslice was observed).  Short-lived single-subject workers keep that out of the check.
func (r *runner) runJobs(jobs []*job) {
	workers := 8
	ch := make(chan int)
	done := make(chan int, len(jobs))
	var lost int64
	for w := 0; w < workers; w++ {
		go func() {
			wk := common.NewWorker()
			n := 0
			for i := range ch {
				j := jobs[i]
				req := jobReq{j.s.name, j.s.text, j.s.path, j.seed, j.nVariants, j.coqOrig, j.coqVar, j.exhaustive, j.multi, j.doc}
				ok := false
				for try := 0; try < 2 && !ok; try++ {
					var out sink
					died, timedOut, _ := wk.Call(req, &out, 15*time.Minute)
					if !died && !timedOut {
						j.out, ok = out, true
					} else {
						wk.Close()
					}
				}
				if !ok {
					atomic.AddInt64(&lost, 1)
					j.out = sink{H: []string{"worker-lost-subject"}}
				}
				if n++; n%30 == 0 {
					wk.Close() // next Call starts a fresh process
				}
				done <- i
			}
			wk.Close()
		}()
	}
	go func() {
		for i := range jobs {
			ch <- i
		}
		close(ch)
	}()
	finished := make([]bool, len(jobs))
	next := 0
	for n := 0; n < len(jobs); n++ {
		finished[<-done] = true
		for next < len(jobs) && finished[next] {
			r.merge(&jobs[next].out)
			jobs[next] = nil
			next++
		}
	}
	if lost > 0 {
		r.c.Res.Notes = append(r.c.Res.Notes, fmt.Sprintf("%d subject(s) were dropped because the worker process handling them died or hung twice", lost))
	}
}

// workerMain: serve subjects until stdin closes
func workerMain() {
	debug.SetGCPercent(50)
	debug.SetMemoryLimit(600 << 20)
	watchdog(1500)
	repo := os.Getenv("VERIF_REPO")
	if repo == "" {
		repo = "/repo"
	}
	r := &runner{}
	first := true
	common.ServeWorker(func(line []byte) interface{} {
		if first {
			// ServeWorker holds the real stdout by now; what the code under test prints goes nowhere
			devnull, _ := os.OpenFile(os.DevNull, os.O_WRONLY, 0)
			os.Stdout, os.Stderr = devnull, devnull
			logrus.SetOutput(io.Discard)
			first = false
		}
		var q jobReq
		if err := json.Unmarshal(line, &q); err != nil {
			return sink{H: []string{"worker-bad-request"}}
		}
		if q.Path != "" && r.corpusFs == nil {
			_, r.corpusFs = loadCorpus(repo)
		}
		j := &job{s: subject{q.Name, q.Text, q.Path}, seed: q.Seed, nVariants: q.NVariants, coqOrig: q.CoqOrig, coqVar: q.CoqVar, exhaustive: q.Exhaustive, multi: q.Multi, doc: q.Doc}
		r.subject(j)
		return j.out
	})
}

// ---------- calcSpaces through the lexer: every whitespace string up to length L ----------

func calcProbe(c *sink, ws string) {
	// line 2 is indented by ws, line 3 by the same width spelled with spaces only, line 4 by one more
	w := widthOf(ws)
	text := "A:\n" + ws + "b:\n" + strings.Repeat(" ", w) + "c:\n" + strings.Repeat(" ", w+1) + "d:\n"
	toks, ok := lexAll(text)
	rp := replay{"calc-probe", text, nil}
	if !ok {
		c.Fail("lexer-did-not-finish", "calc probe", rp)
		return
	}
	c.toCoq(toks, rp)
	// oracle: exactly one INDENT before b, nothing before c, one INDENT before d
	want := "1 . 0 . 1 ."
	got := ""
	n := 0
	for _, t := range toks {
		if t.synthetic && t.ty == 1 {
			n++
		}
		if t.synthetic && t.ty == 2 {
			n += 100
		}
		if !t.hidden && !t.synthetic && !t.eof && t.col > 0 && t.line >= 2 && t.line <= 4 && t.ty != 43 {
			got += fmt.Sprintf("%d . ", n)
			n = 0
		}
	}
	got = strings.TrimSpace(got)
	c.Count("calc|"+ws, strings.Contains(ws, "\t") && strings.Contains(ws, " "))
	c.Hist("calc-probe")
	if got != want {
		c.Fail("width:tab-is-not-four-spaces", fmt.Sprintf("leading whitespace %q is not treated as %d columns (INDENT/DEDENT pattern before b, c, d: %s, expected %s)", ws, w, got, want), rp)
	}
}

func (r *runner) calcProbes(L int) {
	var out sink
	var rec func(ws string)
	rec = func(ws string) {
		if len(ws) > 0 {
			calcProbe(&out, ws)
		}
		if len(ws) == L {
			return
		}
		rec(ws + " ")
		rec(ws + "\t")
	}
	rec("")
	r.merge(&out)
}

// ---------- corpus ----------

func loadCorpus(repo string) ([]subject, afero.Fs) {
	fs := afero.NewMemMapFs()
	var subs []subject
	filepath.Walk(repo, func(p string, info os.FileInfo, err error) error {
		if err != nil {
			return nil
		}
		if info.IsDir() {
			if n := info.Name(); n == ".git" || n == "node_modules" {
				return filepath.SkipDir
			}
			return nil
		}
		ext := filepath.Ext(p)
		switch ext {
		case ".sysl", ".yaml", ".yml", ".json", ".pb", ".textpb", ".proto", ".xsd":
		default:
			return nil
		}
		if info.Size() > 300000 {
			return nil
		}
		b, err := os.ReadFile(p)
		if err != nil {
			return nil
		}
		rel, _ := filepath.Rel(repo, p)
		afero.WriteFile(fs, rel, b, 0o644)
		if ext == ".sysl" && info.Size() <= 60000 {
			subs = append(subs, subject{name: rel, text: string(b), path: rel})
		}
		return nil
	})
	sort.Slice(subs, func(i, j int) bool { return subs[i].name < subs[j].name })
	return subs, afero.NewReadOnlyFs(fs)
}

func memNote(c *common.Ctx, phase string) {
	var m runtime.MemStats
	runtime.ReadMemStats(&m)
	c.Res.Extra["heap_mb_after_"+phase] = int(m.HeapAlloc >> 20)
	c.Res.Extra["sys_mb_after_"+phase] = int(m.Sys >> 20)
	if p := os.Getenv("C03_HEAPPROF"); p != "" {
		if f, err := os.Create(p + "." + phase); err == nil {
			pprof.WriteHeapProfile(f)
			f.Close()
		}
	}
}

// watchdog: this process must never endanger the (shared) machine - stop hard when memory runs away
var watchdogOut = os.Stdout
var watchdogDir = "."

// what every worker is doing right now (for the watchdog's report)
var active sync.Map // *job -> activity

type activity struct {
	name  string
	since time.Time
	what  string
}

func noteActive(j *job, what string) { active.Store(j, activity{j.s.name, time.Now(), what}) }

func activeReport() string {
	var sb strings.Builder
	active.Range(func(_, v interface{}) bool {
		a := v.(activity)
		fmt.Fprintf(&sb, "  %s: %s for %.0fs\n", a.name, a.what, time.Since(a.since).Seconds())
		return true
	})
	return sb.String()
}

func watchdog(limitMB uint64) {
	go func() {
		for {
			time.Sleep(5 * time.Second)
			var m runtime.MemStats
			runtime.ReadMemStats(&m)
			if m.Sys>>20 > limitMB {
				if p := os.Getenv("C03_HEAPPROF"); p != "" {
					if f, err := os.Create(p + ".watchdog"); err == nil {
						pprof.WriteHeapProfile(f)
						f.Close()
					}
				}
				os.WriteFile(filepath.Join(watchdogDir, "watchdog.txt"), []byte(activeReport()), 0o644)
				fmt.Fprintf(watchdogOut, "c03: memory watchdog: %d MB obtained from the system (limit %d MB), giving up\n", m.Sys>>20, limitMB)
				os.Exit(4)
			}
		}
	}()
}

func main() {
	if common.IsWorker() {
		workerMain()
		return
	}
	c := common.Setup("C03")
	debug.SetGCPercent(50)
	debug.SetMemoryLimit(2500 << 20)
	watchdog(4000)
	defer c.Finish()
	// the parser's diagnostic listeners print to stdout/stderr
	devnull, _ := os.OpenFile(os.DevNull, os.O_WRONLY, 0)
	realOut := os.Stdout
	watchdogOut = realOut
	watchdogDir = c.Out
	os.Stdout, os.Stderr = devnull, devnull
	logrus.SetOutput(io.Discard)

	c.Res.Rule = "each case = (text, layout script): the text is a corpus .sysl file or a generated specification; the script composes trail / eolcomment (blanks or a `#` comment after the last token of lines that end in a structural default-mode token), crlf / lf (all line ends), eofws (an unterminated last line of blanks), scale k / shrink k (leading whitespace of every line), tabify (a 4-space unit of the leading spaces replaced by a tab, at the front, at the end = spaces-then-tab, or in the middle), insertion of blank lines (empty or whitespace of any width) and whole-line comments (column 0 `#`, `# text`, or indented) at line boundaries; the Go oracle compiles both texts with the real parser and compares acceptance and the modules after clearing source contexts; lexed texts also go to Coq as token-level cases, and the endpoint bodies / `@x =:` blocks of generated texts as listener-level cases (parse events + what the real listener stored); the multi-line-construct stream puts a layout line at EVERY line boundary of the text (singly and at all boundaries at once); distinct = distinct (text, script); non-trivial = the original compiles"
	repo := os.Getenv("VERIF_REPO")
	if repo == "" {
		repo = "/repo"
	}
	header := `From Coq Require Import List NArith Bool. Import ListNotations.
Require Import Verif.Front.Indent Verif.Front.Lines Verif.Front.Run Verif.Base.Harness.
Local Open Scope N_scope.
Notation T := true. Notation F := false.`
	footer := `Definition M := Eval vm_compute in mismatches c03_ok cases. Print M.`
	r := &runner{c: c, coqCap: 160000}
	if c.Thorough() {
		r.coqCap = 1200000
	}
	r.cs = c.NewCases("C03", header, "c03_case", footer, 1500)
	r.ds = c.NewCases("C03doc", `From Coq Require Import Ascii String List NArith Bool. Import ListNotations.
Require Import Verif.Front.DocStr Verif.Front.RunDoc Verif.Base.Harness.
Local Open Scope string_scope. Local Open Scope N_scope.`, "doc_case", `Definition M := Eval vm_compute in mismatches doc_ok cases. Print M.`, 400)
	r.docCap = 1600
	r.ss = c.NewCases("C03st", `From Coq Require Import List NArith Bool. Import ListNotations.
Require Import Verif.Front.Indent Verif.Front.Lines Verif.Front.Run Verif.Front.RunState Verif.Base.Harness.
Local Open Scope N_scope.
Notation T := true. Notation F := false.`, "st_case", `Definition M := Eval vm_compute in mismatches st_ok cases. Print M.`, 1500)
	r.is = c.NewCases("C03imp", `From Coq Require Import List NArith Bool. Import ListNotations.
Require Import Verif.Front.ImportScan Verif.Front.RunImp Verif.Base.Harness.
Local Open Scope N_scope.
Notation T := true. Notation F := false.`, "imp_case", `Definition M := Eval vm_compute in mismatches imp_ok cases. Print M.`, 600)
	r.stCap = 40000
	if c.Thorough() {
		r.docCap = 12000
		r.stCap = 600000
	}
	defer func() {
		r.cs.Close()
		r.ds.Close()
		r.ss.Close()
		r.is.Close()
		c.Res.Extra["tokens_with_full_state_compared_in_coq"] = r.stToks
		c.Res.Extra["tokens_compared_in_coq"] = r.coqToks
		c.Res.Extra["doc_cases_compared_in_coq"] = r.ds.N()
	}()

	if c.Replay != "" {
		var rp replay
		if err := common.LoadReplay(c.Replay, &rp); err != nil {
			fmt.Fprintln(realOut, err)
			os.Exit(3)
		}
		var out sink
		defer r.merge(&out)
		if rp.Name == "calc-probe" {
			lines := strings.Split(rp.Text, "\n")
			if len(lines) > 1 {
				calcProbe(&out, leadOf(lines[1]))
			}
			fmt.Fprintf(realOut, "replay calc-probe %q: failures=%d\n", rp.Text, len(out.F))
			return
		}
		if strings.HasPrefix(rp.Name, "import-section") {
			r.impReplay(rp.Name, rp.Text, func(m string) { fmt.Fprint(realOut, m) })
			return
		}
		toks, ok := lexAll(rp.Text)
		if !ok {
			out.Fail("lexer-did-not-finish", rp.Name, rp)
			return
		}
		out.toCoq(toks, rp)
		out.toState(rp.Text, rp)
		d := NewDoc(rp.Text, toks)
		orig := compileText(rp.Text)
		if orig.kind == "ok" {
			terms, _ := docCases(rp.Text, nil, "", out.Hist)
			for _, t := range terms {
				out.D = append(out.D, docRec{t, rp})
			}
		}
		s := subject{name: rp.Name, text: rp.Text}
		v, vt := r.check(s, d, orig, rp.Steps)
		out.Count(rp.Name, true)
		fmt.Fprintf(realOut, "replay %s: original compiles: %s; re-laid-out compiles: %s\n", rp.Name, orig.kind, r.compileSubject(s, vt).kind)
		if v.bad {
			out.Fail(failureKey(v.kind, d, rp.Steps), fmt.Sprintf("%s: %s", rp.Name, v.what), rp)
			fmt.Fprintf(realOut, "--- original ---\n%s\n--- re-laid-out ---\n%s\n---\n%s\n", rp.Text, vt, v.what)
		}
		return
	}

	if os.Getenv("C03_BENCH") != "" {
		t0 := time.Now()
		b, _ := os.ReadFile(filepath.Join(repo, os.Getenv("C03_BENCH")))
		text := "App:\n    Ep:\n        do it\n"
		if len(b) > 0 {
			text = string(b)
		}
		if os.Getenv("C03_BENCH") == "corpus" {
			subs, cfs := loadCorpus(repo)
			r.corpusFs = cfs
			for round := 0; round < 2; round++ {
				for i, s := range subs {
					r.compileSubject(s, s.text+"\n# x\n")
					if (i+1)%106 == 0 {
						runtime.GC()
						var m runtime.MemStats
						runtime.ReadMemStats(&m)
						fmt.Fprintf(realOut, "round %d, %d corpus compiles: %v, live heap %d MB, sys %d MB, goroutines %d\n", round, i+1, time.Since(t0), m.HeapAlloc>>20, m.Sys>>20, runtime.NumGoroutine())
					}
				}
			}
			memNote(c, "benchcorpus")
			return
		}
		if os.Getenv("C03_BENCH") == "multigen" {
			g := &gen{r: c.Rng}
			for i := 0; i < 20; i++ {
				text := render(c.Rng, g.multiSpec(), renderOpts{trailNL: true})
				fmt.Fprintf(realOut, "multi spec %d: %d lines, %d bytes, compiles: %s\n", i, strings.Count(text, "\n"), len(text), compileText(text).kind)
				if i < 2 {
					fmt.Fprintln(realOut, text)
				}
			}
			return
		}
		if os.Getenv("C03_BENCH") == "gen" {
			g := &gen{r: c.Rng}
			for i := 1; i <= 1500; i++ {
				o := renderOpts{hostile: c.Rng.Chance(1, 4), sameWidth: c.Rng.Chance(1, 3), blanks: c.Rng.Chance(1, 3), trailNL: !c.Rng.Chance(1, 5)}
				text := render(c.Rng, g.spec(), o)
				compileText(text)
				lexAll(text)
				if i%250 == 0 {
					runtime.GC()
					var m runtime.MemStats
					runtime.ReadMemStats(&m)
					fmt.Fprintf(realOut, "%d generated compiles: %v, live heap %d MB, sys %d MB\n", i, time.Since(t0), m.HeapAlloc>>20, m.Sys>>20)
					memNote(c, fmt.Sprint("bench", i))
				}
			}
			return
		}
		for round := 0; round < 5; round++ {
			for i := 0; i < 40; i++ {
				compileText(text)
				lexAll(text)
			}
			runtime.GC()
			var m runtime.MemStats
			runtime.ReadMemStats(&m)
			fmt.Fprintf(realOut, "%d compiles of %d bytes: %v, live heap %d MB, sys %d MB\n", 40*(round+1), len(text), time.Since(t0), m.HeapAlloc>>20, m.Sys>>20)
		}
		return
	}
	subs, cfs := loadCorpus(repo)
	r.corpusFs = cfs
	c.Res.Extra["corpus_files"] = len(subs)

	// 1. calcSpaces through the real lexer, exhaustively
	L := 6
	if c.Thorough() {
		L = 9
	}
	if c.Search {
		L++
	}
	t0 := time.Now()
	only := os.Getenv("C03_ONLY") // development aid: run one stream only
	if only == "" {
		r.calcProbes(L)
	}
	// 1b. import sections: the textual pre-scan against the import statements of the full parse
	if only == "" || only == "imports" {
		r.importSections()
		c.Res.Extra["t_imports_s"] = time.Since(t0).Seconds()
	}
	c.Res.Extra["calc_probe_max_len"] = L

	// 2. generated specifications (first: they are small, so their token-level cases fit under the cap)
	ng := 160
	if c.Thorough() {
		ng = 1200
	}
	if c.Search {
		ng *= 3
	}
	if only != "" {
		ng = 0
	}
	g := &gen{r: c.Rng}
	var jobs []*job
	for i := 0; i < ng; i++ {
		o := renderOpts{hostile: c.Rng.Chance(1, 4), sameWidth: c.Rng.Chance(1, 3), blanks: c.Rng.Chance(1, 3), trailNL: !c.Rng.Chance(1, 5), crlf: c.Rng.Chance(1, 25)}
		text := render(c.Rng, g.spec(), o)
		if o.hostile {
			c.Hist("generated:hostile")
		} else {
			c.Hist("generated:legal")
		}
		nvg := 2
		if c.Thorough() {
			nvg = 3
		}
		jobs = append(jobs, &job{s: subject{name: fmt.Sprintf("generated-%d", i), text: text}, seed: c.Rng.Uint64(), nVariants: nvg,
			coqOrig: true, coqVar: true, exhaustive: i%40 == 0 && len(text) < 1000, doc: true})
		if i < 3 {
			c.Sample(map[string]interface{}{"generated_text": text})
		}
	}
	// 2b. specifications rich in multi-line constructs: a layout line at every line boundary
	nm, full := 14, 0
	if c.Thorough() {
		nm, full = 60, 16
	}
	if c.Search {
		nm *= 3
	}
	if only != "" {
		nm = 0
	}
	for i := 0; i < nm; i++ {
		o := renderOpts{sameWidth: c.Rng.Chance(1, 4), blanks: c.Rng.Chance(1, 5), trailNL: !c.Rng.Chance(1, 6), crlf: c.Rng.Chance(1, 25)}
		text := render(c.Rng, g.multiSpec(), o)
		c.Hist("generated:multi-line-constructs")
		m := 1
		if i < full || (c.Search && i%4 == 0) {
			m = 2
		}
		jobs = append(jobs, &job{s: subject{name: fmt.Sprintf("multi-%d", i), text: text}, seed: c.Rng.Uint64(), nVariants: 2,
			coqOrig: true, coqVar: true, multi: m, doc: true})
		if i == 0 {
			c.Sample(map[string]interface{}{"multi_line_text": text})
		}
	}
	r.runJobs(jobs)
	c.Res.Extra["t_generated_s"] = time.Since(t0).Seconds()
	memNote(c, "generated")
	t0 = time.Now()

	// 3. corpus
	nv, coqEvery := 1, 5
	if c.Thorough() {
		nv, coqEvery = 4, 1
	}
	if c.Search {
		nv *= 3
	}
	jobs = nil
	if only != "" {
		subs = nil
	}
	for i, s := range subs {
		if !c.Thorough() && !c.Search && (i+int(c.Seed))%2 != 0 {
			continue // quick: every other corpus file, alternating with the seed
		}
		coq := (i+int(c.Seed))%coqEvery == 0 && r.planCoq(s.text)
		jobs = append(jobs, &job{s: s, seed: c.Rng.Uint64(), nVariants: nv, coqOrig: coq, coqVar: coq, exhaustive: c.Thorough() && len(s.text) < 700, doc: len(s.text) < 40000})
	}
	r.runJobs(jobs)
	c.Res.Extra["t_corpus_s"] = time.Since(t0).Seconds()
	memNote(c, "corpus")
}
