// The real implementation: SyslLexer.NextToken to EOF (hidden tokens included) and parse.Parser.
package main

import (
	"fmt"
	"strings"

	"github.com/antlr/antlr4/runtime/Go/antlr"
	parser "github.com/anz-bank/sysl/pkg/grammar"
	"github.com/anz-bank/sysl/pkg/parse"
	"github.com/anz-bank/sysl/pkg/sysl"
	"github.com/spf13/afero"
	"google.golang.org/protobuf/proto"
	"google.golang.org/protobuf/reflect/protoreflect"
)

type tokInfo struct {
	ty        int
	hidden    bool
	text      string // only kept for whitespace tokens
	line, col int
	synthetic bool // INDENT / DEDENT
	eof       bool
}

func modeOfType(ty int) int {
	switch {
	case ty >= parser.SyslLexerE_NativeDataTypes && ty <= parser.SyslLexerE_NL:
		return modeView
	case ty >= parser.SyslLexerTMPL_TEXT && ty <= parser.SyslLexerTMPL_NL:
		return modeOther
	case ty >= parser.SyslLexerPREDICATE_VALUE && ty <= parser.SyslLexerVAR_NAME, ty == parser.SyslLexerIMPORT_PATH:
		return modeOther
	}
	return modeDefault
}

func isWSType(ty int) bool { return ty == parser.SyslLexerWS || ty == parser.SyslLexerE_WS }

// lexAll runs the real lexer; ok=false if it panicked or did not reach EOF within the cap.
func lexAll(text string) (toks []tokInfo, ok bool) {
	defer func() {
		if r := recover(); r != nil {
			ok = false
		}
	}()
	lexer := parser.NewThreadSafeSyslLexer(antlr.NewInputStream(text))
	defer parser.DeleteLexerState(lexer)
	lexer.RemoveErrorListeners()
	limit := 20*len(text) + 1000
	for i := 0; i < limit; i++ {
		t := lexer.NextToken()
		ty := t.GetTokenType()
		ti := tokInfo{ty: ty, hidden: t.GetChannel() == antlr.TokenHiddenChannel, line: t.GetLine(), col: t.GetColumn()}
		if ty == antlr.TokenEOF {
			ti.eof, ti.ty = true, 0
		}
		if ty == parser.SyslLexerINDENT || ty == parser.SyslLexerDEDENT {
			ti.synthetic = true
		}
		if isWSType(ty) {
			ti.text = t.GetText()
		}
		toks = append(toks, ti)
		if ti.eof {
			return toks, true
		}
	}
	return toks, false
}

// visible default-channel type sequence (what the parser sees)
func visibleTypes(toks []tokInfo) []int {
	var v []int
	for _, t := range toks {
		if !t.hidden {
			v = append(v, t.ty)
		}
	}
	return v
}

type compiled struct {
	kind string // ok | error | panic
	mod  *sysl.Module
	msg  string
}

// compile parses `name` from fs with the real parser; panics are an outcome (they are C01's business,
// here only "same outcome for both layouts" is judged).
func compile(fs afero.Fs, name string) (c compiled) {
	defer func() {
		if r := recover(); r != nil {
			c = compiled{kind: "panic", msg: fmt.Sprint(r)}
		}
	}()
	m, err := parse.NewParser().ParseFromFs(name, fs)
	if err != nil {
		return compiled{kind: "error", msg: err.Error()}
	}
	clearSourceContexts(m.ProtoReflect())
	return compiled{kind: "ok", mod: m}
}

// generated texts may import these
var depFiles = map[string]string{
	"dep.sysl":      "Dep:\n    Ep:\n        ...\n",
	"sub/dep2.sysl": "Dep Two:\n    !type Foo:\n        x <: int\n",
}

func textFs(text string) afero.Fs {
	fs := afero.NewMemMapFs()
	afero.WriteFile(fs, "temp.sysl", []byte(text), 0o644)
	for n, c := range depFiles {
		afero.WriteFile(fs, n, []byte(c), 0o644)
	}
	return fs
}

func compileText(text string) compiled { return compile(textFs(text), "temp.sysl") }

const sourceContextName = "sysl.SourceContext"

func clearSourceContexts(m protoreflect.Message) {
	m.Range(func(fd protoreflect.FieldDescriptor, v protoreflect.Value) bool {
		if fd.Message() != nil && string(fd.Message().FullName()) == sourceContextName {
			m.Clear(fd)
			return true
		}
		switch {
		case fd.IsMap():
			if fd.MapValue().Message() != nil {
				v.Map().Range(func(_ protoreflect.MapKey, mv protoreflect.Value) bool {
					clearSourceContexts(mv.Message())
					return true
				})
			}
		case fd.IsList():
			if fd.Message() != nil {
				l := v.List()
				for i := 0; i < l.Len(); i++ {
					clearSourceContexts(l.Get(i).Message())
				}
			}
		case fd.Message() != nil:
			clearSourceContexts(v.Message())
		}
		return true
	})
}

func sameModule(a, b *sysl.Module) bool { return proto.Equal(a, b) }

// firstDiff: a short description of where two modules differ (for the failure line)
func firstDiff(a, b *sysl.Module) string {
	for name, app := range a.GetApps() {
		o, ok := b.GetApps()[name]
		if !ok {
			return "application " + name + " missing"
		}
		if !proto.Equal(app, o) {
			for en, ep := range app.GetEndpoints() {
				if !proto.Equal(ep, o.GetEndpoints()[en]) {
					return "application " + name + ", endpoint " + strings.TrimSpace(en) + " differs"
				}
			}
			for tn, ty := range app.GetTypes() {
				if !proto.Equal(ty, o.GetTypes()[tn]) {
					return "application " + name + ", type " + tn + " differs"
				}
			}
			return "application " + name + " differs"
		}
	}
	for name := range b.GetApps() {
		if _, ok := a.GetApps()[name]; !ok {
			return "application " + name + " only in the variant"
		}
	}
	return "modules differ"
}
