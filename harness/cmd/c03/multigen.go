// Generator of specifications rich in MULTI-LINE constructs: runs of `| text` lines (in simple endpoints, nested
// blocks, REST methods = endpoint docstring), `@x =:` blocks, array / attribute / parameter lists continued on
// the next line, runs of `@` annotations, one-of with several choices, if / else if / else chains.
package main

import "fmt"

var docTexts = []string{" plain text", " with # hash", " a : colon", "  two leading spaces", "no leading space",
	" \"quoted\" word", " [~looks like attrs]", " ends in comma,", " x", " if then else", " @not an annotation", " trailing blank "}

func (g *gen) docRun(lo, hi int) []*Node {
	var out []*Node
	for i, n := 0, lo+g.r.Intn(hi-lo+1); i < n; i++ {
		out = append(out, nd("|"+g.pick(docTexts...)))
	}
	return out
}

// `[a, b, c]` written over several lines: items split after commas
func (g *gen) splitList(open string, items []string, close string) (string, []string) {
	if len(items) < 2 || g.r.Chance(1, 4) {
		s := open
		for i, it := range items {
			if i > 0 {
				s += ", "
			}
			s += it
		}
		return s + close, nil
	}
	first := open + items[0] + ","
	var cont []string
	cur := ""
	for i := 1; i < len(items); i++ {
		cur += items[i]
		if i < len(items)-1 {
			cur += ","
			if g.r.Chance(2, 3) {
				cont = append(cont, cur)
				cur = ""
			} else {
				cur += " "
			}
		}
	}
	cont = append(cont, cur+close)
	return first, cont
}

func (g *gen) attrItems() []string {
	var it []string
	for i, n := 0, 2+g.r.Intn(3); i < n; i++ {
		switch g.r.Intn(4) {
		case 0:
			it = append(it, fmt.Sprintf("%s=\"%s\"", g.name("a"), g.pick("v", "x y", "p#q")))
		case 1:
			it = append(it, fmt.Sprintf("%s=[\"e\", \"f\"]", g.name("a")))
		default:
			it = append(it, "~"+g.name("m"))
		}
	}
	return it
}

// " [~a,\n~b]" as (suffix of the first line, continuation lines ending in `tail`)
func (g *gen) multiAttrs(n *Node, tail string) {
	if g.r.Chance(1, 3) {
		n.Text += tail
		return
	}
	first, cont := g.splitList(" [", g.attrItems(), "]"+tail)
	n.Text += first
	n.Cont = append(n.Cont, cont...)
}

func (g *gen) multiAnnotation() *Node {
	switch g.r.Intn(5) {
	case 0, 1:
		n := nd("@" + g.name("d") + " =:")
		n.Kids = g.docRun(2, 4)
		return n
	case 2:
		items := []string{"\"a\"", "\"b c\"", "\"d#e\""}
		if g.r.Bool() {
			items = []string{"[\"a\", \"b\"]", "[\"c\"]", "[\"d\", \"e\"]"}
		}
		first, cont := g.splitList("@"+g.name("k")+" = [", items[:2+g.r.Intn(2)], "]")
		return &Node{Text: first, Cont: cont}
	}
	return nd(fmt.Sprintf("@%s = \"%s\"", g.name("k"), g.pick("v", "a b", "#nocomment", "x:y")))
}

func (g *gen) annotationRun() []*Node {
	var out []*Node
	for i, n := 0, 2+g.r.Intn(2); i < n; i++ {
		g.budget--
		out = append(out, g.multiAnnotation())
	}
	return out
}

func (g *gen) multiStmts(depth int, rest bool) []*Node {
	var out []*Node
	docOK := !rest || depth == 0 || g.r.Chance(1, 12) // a doc line in a block of a REST method makes the listener panic
	k := 1 + g.r.Intn(2)
	if depth == 0 {
		k = 2 + g.r.Intn(2)
	}
	for i := 0; i < k; i++ {
		c := g.r.Intn(14)
		if depth > 2 || g.budget <= 0 {
			c = g.r.Intn(6)
		}
		g.budget -= 2
		switch c {
		case 0, 1, 2:
			if docOK {
				out = append(out, g.docRun(2, 4)...)
			} else {
				out = append(out, nd("quiet step"))
			}
		case 3:
			out = append(out, nd(g.pick("do something", "validate input", "x", "\"quoted statement\"", "...")))
		case 4:
			out = append(out, nd(". <- "+g.pick("Helper", "Other Ep")))
		case 5:
			out = append(out, nd("return "+g.pick("ok <: Foo", "error <: string", "ok")))
		case 6, 7:
			n := nd("if " + g.pick("cond", "x == 1") + ":")
			n.Kids = g.multiStmts(depth+1, rest)
			out = append(out, n)
			for j, m := 0, g.r.Intn(2); j < m; j++ {
				e := nd(g.pick("else if other", "else if x == 2") + ":")
				e.Kids = g.multiStmts(depth+1, rest)
				out = append(out, e)
			}
			if g.r.Chance(2, 3) {
				e := nd("else:")
				e.Kids = g.multiStmts(depth+1, rest)
				out = append(out, e)
			}
		case 8:
			n := nd(g.pick("for each x in xs", "loop 3 times", "while busy", "until done", "alt happy path") + ":")
			n.Kids = g.multiStmts(depth+1, rest)
			out = append(out, n)
		case 9, 10:
			n := nd("one of:")
			for j, m := 0, 2+g.r.Intn(2); j < m; j++ {
				ch := nd(g.pick("case ", "option ", "") + g.name("c") + ":")
				ch.Kids = g.multiStmts(depth+2, rest)
				n.Kids = append(n.Kids, ch)
			}
			out = append(out, n)
		case 11:
			n := nd(g.pick("group", "Retry block") + ":")
			n.Kids = g.multiStmts(depth+1, rest)
			out = append(out, n)
		case 12:
			if depth == 0 {
				out = append(out, g.annotationRun()...)
			} else {
				out = append(out, nd("step"))
			}
		default:
			if docOK {
				out = append(out, g.docRun(1, 2)...)
				out = append(out, nd("between docs"))
				out = append(out, g.docRun(2, 3)...)
			} else {
				out = append(out, nd("other step"))
			}
		}
	}
	return out
}

func (g *gen) multiEndpoint() *Node {
	switch g.r.Intn(5) {
	case 0, 1:
		p := nd("/" + g.name("p"))
		g.multiAttrs(p, ":")
		for i, k := 0, 1+g.r.Intn(2); i < k; i++ {
			m := nd(g.pick("GET", "POST", "PUT", "DELETE", "PATCH") + g.pick("", " ?q=string"))
			g.multiAttrs(m, ":")
			if g.r.Chance(3, 4) {
				m.Kids = append(m.Kids, g.docRun(2, 4)...) // the endpoint's Docstring
			}
			m.Kids = append(m.Kids, g.multiStmts(0, true)...)
			p.Kids = append(p.Kids, m)
			if i == 0 && g.r.Chance(1, 3) {
				break // one method per path, most of the time: names stay unique
			}
		}
		return p
	}
	e := &Node{Text: g.name("Ep")}
	if g.r.Chance(1, 2) {
		first, cont := g.splitList(" (", []string{"x <: int", "y <: string", "z <: Foo"}[:2+g.r.Intn(2)], ")")
		e.Text += first
		e.Cont = cont
	}
	if len(e.Cont) == 0 {
		g.multiAttrs(e, ":")
	} else {
		e.Cont[len(e.Cont)-1] += ":"
	}
	e.Kids = g.multiStmts(0, false)
	return e
}

func (g *gen) multiType() *Node {
	t := nd(g.pick("!type ", "!table ") + g.name("T"))
	g.multiAttrs(t, ":")
	if g.r.Chance(1, 2) {
		t.Kids = append(t.Kids, g.annotationRun()...)
	}
	for i, k := 0, 1+g.r.Intn(3); i < k; i++ {
		f := nd(g.name("f") + " <: " + g.pick(prims...))
		if g.r.Chance(1, 2) {
			g.multiAttrs(f, ":")
			f.Kids = g.annotationRun()
		} else {
			g.multiAttrs(f, "")
		}
		t.Kids = append(t.Kids, f)
	}
	return t
}

func (g *gen) multiSpec() []*Node {
	out := g.imports()
	g.budget = 10 + g.r.Intn(14)
	for i, k := 0, 1+g.r.Intn(5)/4; i < k; i++ {
		a := nd(g.pick(g.name("App"), "My "+g.name("App")))
		g.multiAttrs(a, ":")
		if g.r.Chance(1, 2) {
			a.Kids = append(a.Kids, g.annotationRun()...)
		}
		for j, m := 0, 1+g.r.Intn(2); j < m; j++ {
			switch g.r.Intn(8) {
			case 0:
				a.Kids = append(a.Kids, g.multiType())
			case 1:
				if g.r.Chance(1, 2) {
					a.Kids = append(a.Kids, g.view())
				} else {
					a.Kids = append(a.Kids, g.multiType())
				}
			default:
				a.Kids = append(a.Kids, g.multiEndpoint())
			}
		}
		out = append(out, a)
	}
	return out
}
