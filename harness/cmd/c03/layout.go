// Layout transformations of C03 on texts, written independently of the Coq model: they work on the
// lines of the ORIGINAL text as the real lexer sees them (a line takes part only when a token starts
// in its first column, so continuation lines of multi-line strings are never touched).
package main

import (
	"fmt"
	"strings"

	parser "github.com/anz-bank/sysl/pkg/grammar"

	"verifharness/common"
)

// lexer modes, inferred from the type of the first token of a line
const (
	modeDefault = 0
	modeView    = 1 // VIEW_TRANSFORM (E_* tokens)
	modeOther   = 2 // TEMPLATE and the one-line modes
)

type Line struct {
	Text string // without the terminating "\n"
	Real bool   // a token of the original text starts in column 0 of this line
	Mode int    // lexer mode at the start of the line
	Decl bool   // a column-0 comment may be put before this line (default mode, line start is real)
	Ins  bool   // inserted by a transformation
	// TrailOK: blanks or a `#` comment may follow the last token of this line: the line starts and ends in the default
	// mode (its line end is a NEWLINE token) and its last visible token is a structural default-mode token - not free
	// text (TEXT after `|`, `return`, `#`; arguments after `<-`), where blanks and `#` are content
	TrailOK bool
}

type Doc struct {
	Lines   []Line
	FinalNL bool
	FirstWS bool
}

func (d *Doc) String() string {
	var sb strings.Builder
	for i, l := range d.Lines {
		sb.WriteString(l.Text)
		if i < len(d.Lines)-1 || d.FinalNL {
			sb.WriteByte('\n')
		}
	}
	return sb.String()
}

// FirstLineIndented: the first token of the text is a whitespace token (WS / E_WS), i.e. the first line is
// indented content - not a blank line, not an indented comment
func (d *Doc) FirstLineIndented() bool { return d.FirstWS }

func leadOf(s string) string {
	i := 0
	for i < len(s) && (s[i] == ' ' || s[i] == '\t') {
		i++
	}
	return s[:i]
}

func widthOf(ws string) int { // the property's own reading: tab counts as four spaces
	n := 0
	for i := 0; i < len(ws); i++ {
		if ws[i] == ' ' {
			n++
		} else if ws[i] == '\t' {
			n += 4
		}
	}
	return n
}

// NewDoc splits text into lines and classifies them using the real lexer's token positions.
func NewDoc(text string, toks []tokInfo) *Doc {
	d := &Doc{}
	parts := strings.Split(text, "\n")
	if len(parts) > 0 && parts[len(parts)-1] == "" {
		d.FinalNL = true
		parts = parts[:len(parts)-1]
	}
	first := map[int]int{} // line (0-based) -> type of the token starting in column 0
	for _, t := range toks {
		if t.synthetic || t.eof {
			continue
		}
		if t.col == 0 {
			if _, ok := first[t.line-1]; !ok {
				first[t.line-1] = t.ty
			}
		}
	}
	for _, t := range toks {
		if !t.synthetic {
			d.FirstWS = isWSType(t.ty) && !t.eof
			break
		}
	}
	for i, p := range parts {
		l := Line{Text: p}
		if ty, ok := first[i]; ok {
			l.Real = true
			l.Mode = modeOfType(ty)
		}
		d.Lines = append(d.Lines, l)
	}
	// a line inside a multi-line token inherits "not real"; an empty line with no token at all
	// (cannot happen: a newline is always a token or inside one) stays not real.
	for i := range d.Lines {
		d.Lines[i].Decl = d.Lines[i].Real && d.Lines[i].Mode == modeDefault
	}
	lastVis := map[int]int{}
	endsNL := map[int]bool{}
	args := map[int]bool{} // the line switches to the ARGS mode (`<-`): what follows is free text up to the line end
	for _, t := range toks {
		if t.synthetic || t.eof {
			continue
		}
		if !t.hidden {
			lastVis[t.line-1] = t.ty
		}
		if t.ty == parser.SyslLexerDOT_ARROW || t.ty == parser.SyslLexerARROW_LEFT {
			args[t.line-1] = true
		}
		if t.ty == parser.SyslLexerNEWLINE {
			endsNL[t.line-1] = true
		}
	}
	for i := range d.Lines {
		ty, ok := lastVis[i]
		d.Lines[i].TrailOK = ok && d.Lines[i].Decl && endsNL[i] && !args[i] && trailEnd[ty] && !strings.ContainsAny(d.Lines[i].Text, "\r\f")
	}
	return d
}

// token types after which blanks / a comment are layout
var trailEnd = map[int]bool{
	parser.SyslLexerCOLON: true, parser.SyslLexerSQ_CLOSE: true, parser.SyslLexerCLOSE_PAREN: true, parser.SyslLexerQSTRING: true,
	parser.SyslLexerWHATEVER: true, parser.SyslLexerNativeDataTypes: true, parser.SyslLexerQN: true, parser.SyslLexerName: true,
	parser.SyslLexerTEXT_LINE: true, parser.SyslLexerIMPORT_PATH: true, parser.SyslLexerDIGITS: true, parser.SyslLexerCURLY_CLOSE: true,
}

// Step is one layout transformation, fully explicit so that a replay re-applies it literally.
type Step struct {
	Op   string   `json:"op"`             // scale | shrink | tabify | insert
	K    int      `json:"k,omitempty"`    // scale factor / shrink divisor
	At   []int    `json:"at,omitempty"`   // tabify: line numbers; insert: boundary numbers (insert before line At[i]; len(lines) = at the end)
	Off  []int    `json:"off,omitempty"`  // tabify: the 4-space unit replaced is the Off[i]-th (in spaces) of the leading run of spaces
	Text []string `json:"text,omitempty"` // insert: the inserted line
}

func (s Step) String() string {
	switch s.Op {
	case "scale", "shrink":
		return fmt.Sprintf("%s(%d)", s.Op, s.K)
	case "tabify":
		return fmt.Sprintf("tabify(%d lines)", len(s.At))
	case "trail":
		return fmt.Sprintf("trail(%d lines)", len(s.At))
	case "eolcomment":
		return fmt.Sprintf("eolcomment(%d lines)", len(s.At))
	case "crlf", "lf":
		return s.Op
	case "eofws":
		return fmt.Sprintf("eofws(%q)", strings.Join(s.Text, ""))
	}
	return fmt.Sprintf("insert(%d lines)", len(s.At))
}

func scaleWS(ws string, k int) string {
	var sb strings.Builder
	for i := 0; i < len(ws); i++ {
		for j := 0; j < k; j++ {
			sb.WriteByte(ws[i])
		}
	}
	return sb.String()
}

// Apply returns the transformed document; ok=false when the step does not apply to this document.
func (d *Doc) Apply(s Step) (*Doc, bool) {
	nd := &Doc{FinalNL: d.FinalNL, FirstWS: d.FirstWS, Lines: append([]Line(nil), d.Lines...)}
	switch s.Op {
	case "scale":
		if s.K < 1 {
			return nil, false
		}
		for i := range nd.Lines {
			l := &nd.Lines[i]
			if !l.Real {
				continue
			}
			ws := leadOf(l.Text)
			l.Text = scaleWS(ws, s.K) + l.Text[len(ws):]
		}
	case "shrink":
		// inverse of scale: every real line's leading whitespace is made of runs whose lengths divide by K
		if s.K < 2 {
			return nil, false
		}
		for i := range nd.Lines {
			l := &nd.Lines[i]
			if !l.Real {
				continue
			}
			ws := leadOf(l.Text)
			var sb strings.Builder
			for j := 0; j < len(ws); {
				e := j
				for e < len(ws) && ws[e] == ws[j] {
					e++
				}
				if (e-j)%s.K != 0 {
					return nil, false
				}
				sb.WriteString(ws[j : j+(e-j)/s.K])
				j = e
			}
			l.Text = sb.String() + l.Text[len(ws):]
		}
	case "tabify":
		if len(s.At) != len(s.Off) {
			return nil, false
		}
		for n, i := range s.At {
			if i < 0 || i >= len(nd.Lines) || !nd.Lines[i].Real {
				return nil, false
			}
			l := &nd.Lines[i]
			ws := leadOf(l.Text)
			off := s.Off[n]
			if off < 0 || off+4 > len(ws) || ws[off:off+4] != "    " {
				return nil, false
			}
			l.Text = ws[:off] + "\t" + ws[off+4:] + l.Text[len(ws):]
		}
	case "untabify":
		for _, i := range s.At {
			if i < 0 || i >= len(nd.Lines) || !nd.Lines[i].Real {
				return nil, false
			}
			l := &nd.Lines[i]
			ws := leadOf(l.Text)
			l.Text = strings.ReplaceAll(ws, "\t", "    ") + l.Text[len(ws):]
		}
	case "trail", "eolcomment":
		// blanks (trail) or blanks + `#...` (eolcomment) after the last token of a line
		if len(s.At) != len(s.Text) {
			return nil, false
		}
		for n, i := range s.At {
			if i < 0 || i >= len(nd.Lines) || !nd.Lines[i].TrailOK {
				return nil, false
			}
			t := s.Text[n]
			ws := leadOf(t)
			if ws == "" || strings.ContainsAny(t, "\n\r") || (s.Op == "trail" && ws != t) || (s.Op == "eolcomment" && !strings.HasPrefix(t[len(ws):], "#")) {
				return nil, false
			}
			nd.Lines[i].Text += t
			nd.Lines[i].TrailOK = false
		}
	case "crlf":
		// every line end \n -> \r\n (texts without multi-line tokens and without \r)
		for i := range nd.Lines {
			if !nd.Lines[i].Real || strings.Contains(nd.Lines[i].Text, "\r") {
				return nil, false
			}
		}
		for i := range nd.Lines {
			if i < len(nd.Lines)-1 || nd.FinalNL {
				nd.Lines[i].Text += "\r"
			}
			nd.Lines[i].TrailOK = false
		}
	case "lf":
		any := false
		for i := range nd.Lines {
			if !nd.Lines[i].Real {
				return nil, false
			}
			if strings.HasSuffix(nd.Lines[i].Text, "\r") {
				nd.Lines[i].Text = strings.TrimSuffix(nd.Lines[i].Text, "\r")
				any = true
			}
		}
		if !any {
			return nil, false
		}
	case "eofws":
		// an unterminated last line of blanks
		if len(s.Text) != 1 || s.Text[0] == "" || leadOf(s.Text[0]) != s.Text[0] || !nd.FinalNL || len(nd.Lines) == 0 {
			return nil, false
		}
		nd.Lines = append(nd.Lines, Line{Text: s.Text[0], Real: true, Ins: true, Mode: nd.Lines[len(nd.Lines)-1].Mode})
		nd.FinalNL = false
	case "insert":
		if len(s.At) != len(s.Text) {
			return nil, false
		}
		// boundaries must be ascending; insert from the back so that numbering stays valid
		for n := len(s.At) - 1; n >= 0; n-- {
			b := s.At[n]
			if b < 0 || b > len(nd.Lines) || (n > 0 && s.At[n-1] > b) {
				return nil, false
			}
			if strings.ContainsAny(s.Text[n], "\n\r") {
				return nil, false
			}
			ins := Line{Text: s.Text[n], Real: true, Ins: true}
			if b < len(nd.Lines) {
				if !nd.Lines[b].Real {
					return nil, false
				}
				ins.Mode, ins.Decl = nd.Lines[b].Mode, nd.Lines[b].Decl
			} else {
				ins.Mode, ins.Decl = modeDefault, true
				if len(nd.Lines) > 0 {
					// the mode after the last line is not known from token types; inherit the last line's
					ins.Mode = nd.Lines[len(nd.Lines)-1].Mode
					ins.Decl = ins.Mode == modeDefault
				}
			}
			nd.Lines = append(nd.Lines[:b], append([]Line{ins}, nd.Lines[b:]...)...)
		}
	default:
		return nil, false
	}
	return nd, true
}

// ---- random scripts ----

var commentTexts = []string{"", " note", " TODO: x <- y", "# double", " App:", " !type Foo:", " | text", " \"quote", " [~tag]", " return ok <: int", "\t tab after hash"}

// layoutLine: a blank or whole-line comment line; col0 tells whether a comment starting in the first column is allowed here
func layoutLine(r *common.Rng, col0 bool, maxw int) (string, string) {
	ws := ""
	switch r.Intn(5) {
	case 0:
	case 1:
		ws = strings.Repeat(" ", 1+r.Intn(maxw))
	case 2:
		ws = strings.Repeat("\t", 1+r.Intn(3))
	case 3:
		ws = strings.Repeat(" ", r.Intn(4)) + "\t" + strings.Repeat(" ", r.Intn(4))
	default:
		ws = strings.Repeat(" ", 4*(1+r.Intn(4)))
	}
	switch r.Intn(4) {
	case 0:
		if ws == "" {
			return "", "blank:empty"
		}
		return ws, "blank:ws"
	case 1:
		if ws == "" {
			return "", "blank:empty"
		}
		return ws, "blank:ws"
	}
	c := commentTexts[r.Intn(len(commentTexts))]
	if ws == "" {
		if !col0 {
			return "", "blank:empty"
		}
		if c == "" {
			return "#", "comment:col0-empty"
		}
		return "#" + c, "comment:col0"
	}
	return ws + "#" + c, "comment:indented"
}

var trailTexts = []string{" ", "  ", "\t", " \t ", "      "}
var eolComments = []string{" # note", "  #", "\t# x <- y", " #", " # App:", "    # | text", " ## double"}

func randStep(r *common.Rng, d *Doc, hist func(string)) (Step, bool) {
	n := len(d.Lines)
	switch r.Intn(12) {
	case 8, 9:
		// blanks / a comment after the last token of some of the lines where that is layout
		op, texts := "trail", trailTexts
		if r.Bool() {
			op, texts = "eolcomment", eolComments
		}
		var at []int
		var txt []string
		all := r.Chance(1, 3)
		for i, l := range d.Lines {
			if l.TrailOK && (all || r.Chance(1, 3)) {
				at, txt = append(at, i), append(txt, texts[r.Intn(len(texts))])
			}
		}
		if len(at) == 0 {
			return Step{}, false
		}
		return Step{Op: op, At: at, Text: txt}, true
	case 10:
		for _, l := range d.Lines {
			if strings.HasSuffix(l.Text, "\r") {
				return Step{Op: "lf"}, true
			}
		}
		return Step{Op: "crlf"}, true
	case 11:
		return Step{Op: "eofws", Text: []string{trailTexts[r.Intn(len(trailTexts))]}}, true
	case 0, 1:
		return Step{Op: "scale", K: 2 + r.Intn(3)}, true
	case 2:
		return Step{Op: "shrink", K: 2 + r.Intn(3)}, true
	case 3, 4:
		// tabify: on some of the lines having a 4-space unit, at a random offset inside the leading spaces
		var at, off []int
		all := r.Chance(1, 3)
		for i, l := range d.Lines {
			if !l.Real {
				continue
			}
			ws := leadOf(l.Text)
			sp := 0
			for sp < len(ws) && ws[sp] == ' ' {
				sp++
			}
			if sp < 4 || !(all || r.Chance(1, 2)) {
				continue
			}
			o := 0
			switch r.Intn(3) {
			case 0: // leading unit
			case 1: // last unit: spaces THEN tab
				o = sp - 4
			default:
				o = r.Intn(sp - 3)
			}
			at, off = append(at, i), append(off, o)
		}
		if len(at) == 0 {
			return Step{}, false
		}
		return Step{Op: "tabify", At: at, Off: off}, true
	default:
		var at []int
		var txt []string
		dens := 1 + r.Intn(6)
		for b := 0; b <= n; b++ {
			if b < n && !d.Lines[b].Real {
				continue
			}
			if b == 0 && d.FirstLineIndented() {
				continue // judged on its own by startProbe (a class of its own, see main.go)
			}
			if b == n && viewAtEOF(d) {
				continue // judged on its own by the view-end probe
			}
			if !r.Chance(1, dens) && !(n < 12 && r.Chance(1, 2)) {
				continue
			}
			col0 := true
			mode := modeDefault
			if b < n {
				col0, mode = d.Lines[b].Decl, d.Lines[b].Mode
			} else if n > 0 {
				mode = d.Lines[n-1].Mode
				col0 = mode == modeDefault
			}
			reps := 1
			if r.Chance(1, 8) {
				reps = 2 + r.Intn(3)
			}
			for j := 0; j < reps; j++ {
				t, kind := layoutLine(r, col0, 12)
				if b == n && !d.FinalNL && t == "#" {
					continue // a bare `#` as the unterminated last line: judged on its own by the end probe (main.go)
				}
				hist("insert:" + kind + fmt.Sprintf(":mode%d", mode))
				at, txt = append(at, b), append(txt, t)
			}
		}
		if len(at) == 0 {
			return Step{}, false
		}
		return Step{Op: "insert", At: at, Text: txt}, true
	}
}
