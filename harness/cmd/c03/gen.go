// Generator of specifications as block trees, rendered with random (legal or hostile) indentation.
package main

import (
	"fmt"
	"strings"

	"verifharness/common"
)

type Node struct {
	Text string
	Kids []*Node
	Cont []string // continuation lines of the same construct (inside [...] / (...)): rendered with the SAME leading whitespace
}

func nd(t string, kids ...*Node) *Node { return &Node{Text: t, Kids: kids} }

type gen struct {
	r      *common.Rng
	n      int
	depth  int
	budget int // multi-line-construct specs: rough number of statements left
}

func (g *gen) name(p string) string     { g.n++; return fmt.Sprintf("%s%d", p, g.n) }
func (g *gen) pick(xs ...string) string { return xs[g.r.Intn(len(xs))] }

var prims = []string{"int", "string", "bool", "date", "datetime", "decimal(12.2)", "string(20)", "float", "int64", "bytes", "any"}

func (g *gen) typeRef() string {
	switch g.r.Intn(6) {
	case 0:
		return "set of " + g.pick("Foo", "Bar", "string")
	case 1:
		return "sequence of " + g.pick("Foo", "int")
	case 2:
		return g.pick("Foo", "Bar", "Other.Thing", "Model.Item")
	}
	return g.pick(prims...)
}

func (g *gen) attrs() string {
	switch g.r.Intn(6) {
	case 0:
		return " [~" + g.pick("pk", "rest", "tag", "autoinc") + "]"
	case 1:
		return fmt.Sprintf(" [%s=\"%s\"]", g.pick("package", "owner", "json_tag"), g.pick("a.b", "x y", "v#1"))
	case 2:
		return " [~a, b=\"c\", d=[\"e\", \"f\"]]"
	}
	return ""
}

func (g *gen) annotation() *Node {
	switch g.r.Intn(4) {
	case 0:
		n := nd("@" + g.pick("description", "doc") + " =:")
		for i, k := 0, 1+g.r.Intn(3); i < k; i++ {
			n.Kids = append(n.Kids, nd("| "+g.pick("multi-line text", "with # hash", "and : colon", "  leading spaces kept?", "x")))
		}
		return n
	case 1:
		return nd("@" + g.name("k") + " = [\"a\", \"b\"]")
	}
	return nd(fmt.Sprintf("@%s = \"%s\"", g.name("k"), g.pick("v", "a b", "#nocomment", "x:y")))
}

func (g *gen) field() *Node {
	f := nd(g.name("f") + " <: " + g.typeRef())
	if g.r.Chance(1, 4) {
		f.Text += "?"
	}
	f.Text += g.attrs()
	if g.r.Chance(1, 8) {
		f.Text += ":"
		f.Kids = append(f.Kids, g.annotation())
	}
	return f
}

func (g *gen) typeDecl() *Node {
	switch g.r.Intn(7) {
	case 0:
		e := nd("!enum " + g.name("E") + ":")
		for i, k := 0, 1+g.r.Intn(4); i < k; i++ {
			e.Kids = append(e.Kids, nd(fmt.Sprintf("%s: %d", g.name("V"), i+1)))
		}
		return e
	case 1:
		a := nd("!alias " + g.name("A") + ":")
		a.Kids = append(a.Kids, nd(g.typeRef()))
		return a
	case 2:
		u := nd("!union " + g.name("U") + ":")
		for i, k := 0, 1+g.r.Intn(3); i < k; i++ {
			u.Kids = append(u.Kids, nd(g.pick("Foo", "Bar", "int", "string")))
		}
		return u
	}
	t := nd(g.pick("!type ", "!table ") + g.pick("Foo", "Bar", g.name("T")) + g.attrs() + ":")
	if g.r.Chance(1, 5) {
		t.Kids = append(t.Kids, g.annotation())
	}
	for i, k := 0, 1+g.r.Intn(5); i < k; i++ {
		t.Kids = append(t.Kids, g.field())
	}
	if g.r.Chance(1, 10) {
		t.Kids = []*Node{nd("...")}
	}
	return t
}

func (g *gen) stmts(depth int) []*Node {
	var out []*Node
	for i, k := 0, 1+g.r.Intn(4); i < k; i++ {
		out = append(out, g.stmt(depth))
	}
	return out
}

func (g *gen) stmt(depth int) *Node {
	c := g.r.Intn(16)
	if depth > 5 {
		c = g.r.Intn(7)
	}
	switch c {
	case 0:
		return nd(g.pick("do something", "validate input", "log it", "a - b", "x"))
	case 1:
		return nd(g.pick("Other", "Svc", "Model") + " <- " + g.pick("Ep", "GET /x", "Do It"))
	case 2:
		return nd(". <- " + g.pick("Helper", "Ep"))
	case 3:
		return nd("return " + g.pick("ok <: Foo", "error <: string", "ok", "200 <: Bar", "sequence of Foo"))
	case 4:
		return nd("| " + g.pick("a text statement", "with # hash", "x"))
	case 5:
		return nd("...")
	case 6:
		return nd("\"" + g.pick("quoted statement", "a: b") + "\"")
	case 7, 8:
		n := nd("if " + g.pick("cond", "x == 1", "a and b") + ":")
		n.Kids = g.stmts(depth + 1)
		return n
	case 9:
		n := nd(g.pick("else", "else if other") + ":")
		n.Kids = g.stmts(depth + 1)
		return n
	case 10:
		n := nd(g.pick("for each x in xs", "for x in y", "loop 3 times", "while busy", "until done", "alt happy path") + ":")
		n.Kids = g.stmts(depth + 1)
		return n
	case 11:
		n := nd("one of:")
		for i, k := 0, 1+g.r.Intn(3); i < k; i++ {
			c := nd(g.pick("case", "option", "") + g.name("c") + ":")
			c.Kids = g.stmts(depth + 2)
			n.Kids = append(n.Kids, c)
		}
		return n
	case 12:
		n := nd(g.pick("group", "Retry block", "tx") + ":")
		n.Kids = g.stmts(depth + 1)
		return n
	case 13:
		return g.annotation()
	}
	return nd(g.pick("do something", "Other <- Ep"))
}

func (g *gen) endpoint() *Node {
	switch g.r.Intn(8) {
	case 0, 1:
		p := nd("/" + g.pick("items", "pets", "v1") + g.pick("", "/{id <: int}", "/sub") + g.attrs() + ":")
		for i, k := 0, 1+g.r.Intn(3); i < k; i++ {
			m := nd(g.pick("GET", "POST", "PUT", "DELETE", "PATCH") + g.pick("", " ?q=string", " (b <: Foo [~body])", " ?a=int&b=string?") + ":")
			m.Kids = g.stmts(2)
			p.Kids = append(p.Kids, m)
		}
		if g.r.Chance(1, 3) {
			s := nd("/" + g.name("sub") + ":")
			m := nd("GET:")
			m.Kids = g.stmts(3)
			s.Kids = append(s.Kids, m)
			p.Kids = append(p.Kids, s)
		}
		return p
	case 2:
		e := nd("<-> " + g.name("Event") + g.attrs() + ":")
		e.Kids = g.stmts(1)
		return e
	case 3:
		e := nd(g.pick("Other", "Bus") + " -> " + g.name("Topic") + ":")
		e.Kids = g.stmts(1)
		return e
	}
	e := nd(g.pick(g.name("Ep"), "Do It "+fmt.Sprint(g.r.Intn(9)), g.name("Ep")+" (x <: int, y <: Foo)", g.name("Ep")+"(a <: string)") + g.attrs() + ":")
	e.Kids = g.stmts(1)
	return e
}

func (g *gen) view() *Node {
	v := nd("!view " + g.name("v") + "(a <: " + g.pick("Foo", "int") + ") -> " + g.pick("Bar", "int", "set of Foo") + ":")
	b := nd("a -> (" + g.pick("", "s") + ":")
	for i, k := 0, 1+g.r.Intn(4); i < k; i++ {
		switch g.r.Intn(5) {
		case 0:
			b.Kids = append(b.Kids, nd("let "+g.name("t")+" = a.x + 1"))
		case 1:
			in := nd(g.name("o") + " = a.items -> <set of Bar> (i:")
			in.Kids = append(in.Kids, nd("y = i.y"), nd("z = .z"))
			b.Kids = append(b.Kids, in, nd(")"))
		case 2:
			b.Kids = append(b.Kids, nd(g.name("o")+" = if a.x == 1 then \"one\" else \"other\""))
		default:
			b.Kids = append(b.Kids, nd(g.name("o")+" = "+g.pick("a.x", ".name", "a.b * 2", "\"lit\"", "a.x ?? 0")))
		}
	}
	v.Kids = append(v.Kids, b, nd(")"))
	return v
}

func (g *gen) app() *Node {
	a := nd(g.pick(g.name("App"), "My "+g.name("App"), "Ns :: "+g.name("App")) + g.attrs() + ":")
	k := 1 + g.r.Intn(5)
	for i := 0; i < k; i++ {
		switch g.r.Intn(10) {
		case 0:
			a.Kids = append(a.Kids, g.annotation())
		case 1, 2, 3:
			a.Kids = append(a.Kids, g.typeDecl())
		case 4:
			a.Kids = append(a.Kids, g.view())
		case 5:
			a.Kids = append(a.Kids, nd("..."))
		default:
			a.Kids = append(a.Kids, g.endpoint())
		}
	}
	return a
}

// imports of the files every generated text is compiled with (real.go depFiles)
func (g *gen) imports() []*Node {
	var out []*Node
	if g.r.Chance(1, 3) {
		out = append(out, nd("import "+g.pick("dep", "dep.sysl", "/dep")))
		if g.r.Chance(1, 2) {
			out = append(out, nd("import "+g.pick("sub/dep2", "/sub/dep2.sysl")))
		}
	}
	return out
}

func (g *gen) spec() []*Node {
	out := g.imports()
	for i, k := 0, 1+g.r.Intn(3); i < k; i++ {
		out = append(out, g.app())
	}
	return out
}

// ---- rendering ----

var units = []string{" ", "  ", "   ", "    ", "    ", "    ", "        ", "\t", "\t", "  \t", "\t  ", " \t ", "     "}

type renderOpts struct {
	hostile   bool // unequal sibling widths, dedents to unknown widths, indented first line
	sameWidth bool // siblings may spell the same width differently (4 spaces / tab)
	blanks    bool
	trailNL   bool
	crlf      bool
}

func altSpelling(r *common.Rng, ws string) string {
	// another spelling of the same width: some 4-space runs as tabs or tabs as spaces
	var sb strings.Builder
	for i := 0; i < len(ws); {
		if ws[i] == '\t' && r.Bool() {
			sb.WriteString("    ")
			i++
		} else if strings.HasPrefix(ws[i:], "    ") && r.Bool() {
			sb.WriteByte('\t')
			i += 4
		} else {
			sb.WriteByte(ws[i])
			i++
		}
	}
	return sb.String()
}

func render(r *common.Rng, roots []*Node, o renderOpts) string {
	var sb strings.Builder
	first := true
	var rec func(n *Node, lead string)
	rec = func(n *Node, lead string) {
		l := lead
		if o.sameWidth && r.Chance(1, 3) {
			l = altSpelling(r, lead)
		}
		if o.hostile && r.Chance(1, 12) {
			switch r.Intn(3) {
			case 0:
				l += " "
			case 1:
				if len(l) > 0 {
					l = l[:len(l)-1]
				}
			default:
				l = strings.Repeat(" ", r.Intn(10))
			}
		}
		if first && o.hostile && r.Chance(1, 3) {
			l = units[r.Intn(len(units))] + l
		}
		first = false
		sb.WriteString(l + n.Text + "\n")
		for _, c := range n.Cont {
			if o.blanks && r.Chance(1, 8) {
				sb.WriteString(strings.Repeat(" ", r.Intn(6)) + "\n")
			}
			sb.WriteString(l + c + "\n")
		}
		if o.blanks && r.Chance(1, 10) {
			sb.WriteString(strings.Repeat(" ", r.Intn(6)) + "\n")
		}
		if o.blanks && r.Chance(1, 14) {
			sb.WriteString(strings.Repeat(" ", r.Intn(9)) + "# generated comment\n")
		}
		if len(n.Kids) == 0 {
			return
		}
		unit := units[r.Intn(len(units))]
		for _, k := range n.Kids {
			rec(k, lead+unit)
		}
	}
	for _, n := range roots {
		rec(n, "")
	}
	s := sb.String()
	if !o.trailNL {
		s = strings.TrimSuffix(s, "\n")
	}
	if o.crlf {
		s = strings.ReplaceAll(s, "\n", "\r\n")
	}
	return s
}
