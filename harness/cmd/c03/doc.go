// Multi-line constructs as the listener sees them (tie for Front/DocStr.v): the parse tree of a text is built
// exactly as parse.parseString builds it and walked with a recording listener; every endpoint body
// (simple_endpoint with statements, method_def) becomes an event sequence, every `@x =:` block a list of TEXT
// tokens.  What the REAL listener made of them is read from the compiled module (source contexts kept):
// Docstring, statement tree with Action texts and start lines, attribute strings.
package main

import (
	"fmt"
	"strings"

	"github.com/antlr/antlr4/runtime/Go/antlr"
	parser "github.com/anz-bank/sysl/pkg/grammar"
	"github.com/anz-bank/sysl/pkg/parse"
	"github.com/anz-bank/sysl/pkg/sysl"
	"github.com/spf13/afero"
	"google.golang.org/protobuf/reflect/protoreflect"

	"verifharness/common"
)

type docEvent struct {
	kind string // text | docstmt | doc | add | open | openalt | choice | close | annoexit
	str  string
	k    int
	line int
}

type docBody struct {
	rest      bool
	line, col int // start of the simple_endpoint / method_def (1-based line)
	endLine   int // line of its last token
	evs       []docEvent
	annoNames []string // names of the multi-line annotations closed inside the body, in order
}

type annoBlock struct {
	name  string
	texts []string
}

type docRecorder struct {
	*antlr.BaseParseTreeListener
	bodies []*docBody
	cur    *docBody
	annos  []annoBlock
	curAnn []string // VAR_NAME of the enclosing annotation rules
}

func (r *docRecorder) VisitTerminal(antlr.TerminalNode) {}
func (r *docRecorder) VisitErrorNode(antlr.ErrorNode)   {}

func (r *docRecorder) ev(e docEvent) {
	if r.cur != nil {
		r.cur.evs = append(r.cur.evs, e)
	}
}

func (r *docRecorder) EnterEveryRule(c antlr.ParserRuleContext) {
	line := 0
	if c.GetStart() != nil {
		line = c.GetStart().GetLine()
	}
	switch ctx := c.(type) {
	case *parser.Simple_endpointContext:
		if ctx.WHATEVER() == nil && ctx.Statements(0) != nil {
			r.cur = &docBody{rest: false, line: line, col: ctx.GetStart().GetColumn()}
		}
	case *parser.Method_defContext:
		r.cur = &docBody{rest: true, line: line, col: ctx.GetStart().GetColumn()}
	case *parser.Text_stmtContext:
		if ctx.Doc_string() == nil {
			r.ev(docEvent{kind: "text", str: ctx.GetText(), line: line})
		} else {
			r.ev(docEvent{kind: "docstmt", line: line})
		}
	case *parser.Doc_stringContext:
		r.ev(docEvent{kind: "doc", str: ctx.TEXT().GetText()})
		if _, ok := ctx.GetParent().(*parser.Multi_line_docstringContext); ok && len(r.annos) > 0 {
			a := &r.annos[len(r.annos)-1]
			a.texts = append(a.texts, ctx.TEXT().GetText())
		}
	case *parser.AnnotationContext:
		name := ""
		if ctx.VAR_NAME() != nil {
			name = ctx.VAR_NAME().GetText()
		}
		r.curAnn = append(r.curAnn, name)
	case *parser.Multi_line_docstringContext:
		name := ""
		if len(r.curAnn) > 0 {
			name = r.curAnn[len(r.curAnn)-1]
		}
		r.annos = append(r.annos, annoBlock{name: name})
	case *parser.Ret_stmtContext:
		r.ev(docEvent{kind: "add", k: 1, line: line})
	case *parser.Call_stmtContext:
		r.ev(docEvent{kind: "add", k: 2, line: line})
	case *parser.If_stmtContext, *parser.Else_stmtContext:
		r.ev(docEvent{kind: "open", k: 3, line: line})
	case *parser.Group_stmtContext:
		r.ev(docEvent{kind: "open", k: 4, line: line})
	case *parser.For_stmtContext:
		k := 4
		switch {
		case ctx.UNTIL() != nil || ctx.WHILE() != nil:
			k = 5
		case ctx.FOR_EACH() != nil:
			k = 6
		}
		r.ev(docEvent{kind: "open", k: k, line: line})
	case *parser.One_of_stmtContext:
		r.ev(docEvent{kind: "openalt", line: line})
	case *parser.One_of_casesContext:
		r.ev(docEvent{kind: "choice"})
	}
}

func (r *docRecorder) ExitEveryRule(c antlr.ParserRuleContext) {
	switch ctx := c.(type) {
	case *parser.Simple_endpointContext, *parser.Method_defContext:
		if r.cur != nil {
			if c.GetStop() != nil {
				r.cur.endLine = c.GetStop().GetLine()
			}
			r.bodies = append(r.bodies, r.cur)
			r.cur = nil
		}
	case *parser.If_stmtContext, *parser.Else_stmtContext, *parser.Group_stmtContext, *parser.For_stmtContext,
		*parser.One_of_stmtContext, *parser.One_of_casesContext:
		r.ev(docEvent{kind: "close"})
	case *parser.Annotation_valueContext:
		if ctx.Multi_line_docstring() != nil {
			r.ev(docEvent{kind: "annoexit"})
			if r.cur != nil && len(r.curAnn) > 0 {
				r.cur.annoNames = append(r.cur.annoNames, r.curAnn[len(r.curAnn)-1])
			}
		}
	case *parser.AnnotationContext:
		if len(r.curAnn) > 0 {
			r.curAnn = r.curAnn[:len(r.curAnn)-1]
		}
	}
}

type syntaxFlag struct {
	*antlr.DefaultErrorListener
	bad bool
}

func (s *syntaxFlag) SyntaxError(antlr.Recognizer, interface{}, int, int, string, antlr.RecognitionException) {
	s.bad = true
}

// docWalk builds the parse tree the way pkg/parse does (thread-safe lexer and parser, default channel, SLL)
func docWalk(text string) (rec *docRecorder, ok bool) {
	defer func() {
		if recover() != nil {
			rec, ok = nil, false
		}
	}()
	lexer := parser.NewThreadSafeSyslLexer(antlr.NewInputStream(text))
	defer parser.DeleteLexerState(lexer)
	lexer.RemoveErrorListeners()
	stream := antlr.NewCommonTokenStream(lexer, antlr.TokenDefaultChannel)
	p := parser.NewThreadSafeSyslParser(stream)
	p.GetInterpreter().SetPredictionMode(antlr.PredictionModeSLL)
	p.RemoveErrorListeners()
	sf := &syntaxFlag{DefaultErrorListener: antlr.NewDefaultErrorListener()}
	p.AddErrorListener(sf)
	p.BuildParseTrees = true
	tree := p.Sysl_file()
	if sf.bad {
		return nil, false
	}
	rec = &docRecorder{BaseParseTreeListener: &antlr.BaseParseTreeListener{}}
	antlr.NewParseTreeWalker().Walk(rec, tree)
	return rec, true
}

// compileKeepContexts: the real parser, source contexts kept (the start line of a statement is an observation here)
func compileKeepContexts(fs afero.Fs, name string) (m *sysl.Module, ok bool) {
	defer func() {
		if recover() != nil {
			m, ok = nil, false
		}
	}()
	mod, err := parse.NewParser().ParseFromFs(name, fs)
	if err != nil {
		return nil, false
	}
	return mod, true
}

func simpleText(s string) bool {
	for i := 0; i < len(s); i++ {
		if s[i] < 0x20 || s[i] > 0x7e || s[i] == '\\' {
			return false
		}
	}
	return true
}

func gStmt(st *sysl.Statement) (string, bool) {
	line := 0
	if sc := st.GetSourceContext(); sc != nil && sc.GetStart() != nil { //nolint:staticcheck
		line = int(sc.GetStart().GetLine()) + 1
	}
	list := func(ss []*sysl.Statement) (string, bool) {
		var it []string
		for _, x := range ss {
			g, ok := gStmt(x)
			if !ok {
				return "", false
			}
			it = append(it, g)
		}
		return "[" + strings.Join(it, ";") + "]", true
	}
	switch x := st.GetStmt().(type) {
	case *sysl.Statement_Action:
		if !simpleText(x.Action.GetAction()) {
			return "", false
		}
		return fmt.Sprintf("SAct %s %d", common.GString(x.Action.GetAction()), line), true
	case *sysl.Statement_Ret:
		return fmt.Sprintf("SOther 1 %d", line), true
	case *sysl.Statement_Call:
		return fmt.Sprintf("SOther 2 %d", line), true
	case *sysl.Statement_Cond:
		b, ok := list(x.Cond.GetStmt())
		return fmt.Sprintf("SBlock 3 %d %s", line, b), ok
	case *sysl.Statement_Group:
		b, ok := list(x.Group.GetStmt())
		return fmt.Sprintf("SBlock 4 %d %s", line, b), ok
	case *sysl.Statement_Loop:
		b, ok := list(x.Loop.GetStmt())
		return fmt.Sprintf("SBlock 5 %d %s", line, b), ok
	case *sysl.Statement_Foreach:
		b, ok := list(x.Foreach.GetStmt())
		return fmt.Sprintf("SBlock 6 %d %s", line, b), ok
	case *sysl.Statement_Alt:
		var cs []string
		for _, c := range x.Alt.GetChoice() {
			b, ok := list(c.GetStmt())
			if !ok {
				return "", false
			}
			cs = append(cs, b)
		}
		return fmt.Sprintf("SAlt %d [%s]", line, strings.Join(cs, ";")), true
	}
	return "", false
}

func gEvents(evs []docEvent) (string, bool) {
	var it []string
	for _, e := range evs {
		switch e.kind {
		case "text":
			if !simpleText(e.str) {
				return "", false
			}
			it = append(it, fmt.Sprintf("EText %s %d", common.GString(e.str), e.line))
		case "docstmt":
			it = append(it, fmt.Sprintf("EDocStmt %d", e.line))
		case "doc":
			if !simpleText(e.str) {
				return "", false
			}
			it = append(it, "EDoc "+common.GString(e.str))
		case "add":
			it = append(it, fmt.Sprintf("EAdd %d %d", e.k, e.line))
		case "open":
			it = append(it, fmt.Sprintf("EOpen %d %d", e.k, e.line))
		case "openalt":
			it = append(it, fmt.Sprintf("EOpenAlt %d", e.line))
		case "choice":
			it = append(it, "EChoice")
		case "close":
			it = append(it, "EClose")
		case "annoexit":
			it = append(it, "EAnnoExit")
		}
	}
	return "[" + strings.Join(it, ";") + "]", true
}

// every string attribute stored under `name` in any attrs map of the module
func attrStrings(m protoreflect.Message, name string, out *[]string) {
	m.Range(func(fd protoreflect.FieldDescriptor, v protoreflect.Value) bool {
		switch {
		case fd.IsMap():
			if fd.MapValue().Message() == nil {
				return true
			}
			isAttrs := string(fd.Name()) == "attrs" && string(fd.MapValue().Message().FullName()) == "sysl.Attribute"
			v.Map().Range(func(k protoreflect.MapKey, mv protoreflect.Value) bool {
				if isAttrs && k.String() == name {
					if a, ok := mv.Message().Interface().(*sysl.Attribute); ok {
						if s, ok := a.GetAttribute().(*sysl.Attribute_S); ok {
							*out = append(*out, s.S)
						} else {
							*out = append(*out, "\x00not-a-string")
						}
					}
				}
				attrStrings(mv.Message(), name, out)
				return true
			})
		case fd.IsList():
			if fd.Message() != nil {
				l := v.List()
				for i := 0; i < l.Len(); i++ {
					attrStrings(l.Get(i).Message(), name, out)
				}
			}
		case fd.Message() != nil:
			attrStrings(v.Message(), name, out)
		}
		return true
	})
}

type docStats struct{ bodies, annos, skipped int }

// docCases: the doc-string / annotation cases of one text (which must compile); terms for Front/RunDoc.v
func docCases(text string, fs afero.Fs, name string, hist func(string)) (terms []string, st docStats) {
	rec, ok := docWalk(text)
	if !ok {
		hist("doc:syntax-error")
		return nil, st
	}
	if fs == nil {
		fs, name = textFs(text), "temp.sysl"
	}
	mod, ok := compileKeepContexts(fs, name)
	if !ok {
		hist("doc:does-not-compile")
		return nil, st
	}
	// names of multi-line annotations that occur once in the text and once in the module
	count := map[string]int{}
	for _, a := range rec.annos {
		count[a.name]++
	}
	value := func(name string) (string, bool) {
		if count[name] != 1 {
			return "", false
		}
		var vs []string
		attrStrings(mod.ProtoReflect(), name, &vs)
		if len(vs) != 1 || !simpleTextNL(vs[0]) {
			return "", false
		}
		return vs[0], true
	}
	for _, a := range rec.annos {
		v, ok := value(a.name)
		simple := true
		var ts []string
		for _, t := range a.texts {
			simple = simple && simpleText(t)
			ts = append(ts, common.GString(t))
		}
		if !ok || !simple {
			hist("doc:annotation-skipped(name not unique / text not plain)")
			st.skipped++
			continue
		}
		terms = append(terms, fmt.Sprintf("DAnno [%s] %s", strings.Join(ts, ";"), gStringNL(v)))
		hist(fmt.Sprintf("doc:annotation-lines=%d", min(len(a.texts), 4)))
		st.annos++
	}
	// endpoints by the position of their (only) declaration
	type pos struct{ line, col int }
	eps := map[pos]*sysl.Endpoint{}
	for _, app := range mod.GetApps() {
		for _, ep := range app.GetEndpoints() {
			if len(ep.GetSourceContexts()) != 1 || ep.GetSourceContexts()[0].GetStart() == nil ||
				strings.TrimPrefix(ep.GetSourceContexts()[0].GetFile(), "/") != strings.TrimPrefix(name, "/") {
				continue // declared more than once, or in an imported file
			}
			s := ep.GetSourceContexts()[0].GetStart()
			p := pos{int(s.GetLine()) + 1, int(s.GetCol())}
			if _, dup := eps[p]; dup {
				eps[p] = nil
			} else {
				eps[p] = ep
			}
		}
	}
	for _, b := range rec.bodies {
		ep := eps[pos{b.line, b.col}]
		if ep == nil {
			hist("doc:body-skipped(endpoint declared more than once / not found by position)")
			st.skipped++
			continue
		}
		foreign := false
		for _, s := range ep.GetStmt() {
			if sc := s.GetSourceContext(); sc == nil || sc.GetStart() == nil || int(sc.GetStart().GetLine())+1 < b.line || int(sc.GetStart().GetLine())+1 > b.endLine { //nolint:staticcheck
				foreign = true
			}
		}
		if foreign {
			// e.g. the call a subscription (`A -> B:`) adds to the publishing endpoint after the listener is done
			hist("doc:body-skipped(holds a statement from outside its declaration: post-processing)")
			st.skipped++
			continue
		}
		evs, ok := gEvents(b.evs)
		var ss []string
		for _, s := range ep.GetStmt() {
			g, ok2 := gStmt(s)
			ok = ok && ok2
			ss = append(ss, g)
		}
		if !ok || !simpleText(ep.GetDocstring()) {
			hist("doc:body-skipped(text not plain)")
			st.skipped++
			continue
		}
		an := "None"
		var vals []string
		all := true
		for _, n := range b.annoNames {
			v, ok := value(n)
			all = all && ok
			vals = append(vals, gStringNL(v))
		}
		if all {
			an = "(Some [" + strings.Join(vals, ";") + "])"
		}
		rest := "false"
		if b.rest {
			rest = "true"
		}
		terms = append(terms, fmt.Sprintf("DBody %s %s %s [%s] %s", rest, evs, common.GString(ep.GetDocstring()), strings.Join(ss, ";"), an))
		ndoc, run, maxrun := 0, 0, 0
		for _, e := range b.evs {
			switch e.kind {
			case "docstmt":
				ndoc++
				run++
				if run > maxrun {
					maxrun = run
				}
			case "doc":
			default:
				run = 0
			}
		}
		hist(fmt.Sprintf("doc:body rest=%v longest-run=%d", b.rest, min(maxrun, 4)))
		st.bodies++
	}
	return terms, st
}

func min(a, b int) int {
	if a < b {
		return a
	}
	return b
}

// attribute values end in "\n" and hold "\n" between the lines: printed as a concatenation with `nl`
func simpleTextNL(s string) bool { return simpleText(strings.ReplaceAll(s, "\n", "")) }

func gStringNL(s string) string {
	parts := strings.Split(s, "\n")
	var it []string
	for i, p := range parts {
		if p != "" {
			it = append(it, common.GString(p))
		}
		if i < len(parts)-1 {
			it = append(it, "nl")
		}
	}
	if len(it) == 0 {
		return "\"\""
	}
	return "(" + strings.Join(it, " ++ ") + ")"
}
