// The REAL lexerState after every token (tie for Front/LexState.v).  pkg/grammar exports the address of a lexer's
// state under build tag verif (VerifLexerStateID); the fields are read through a mirror of the struct, whose layout
// (names, order, types) is a Gen fact re-proved on every run (Front/StateTables.state_fields_are).
package main

import (
	"fmt"
	"strings"
	"unsafe"

	"github.com/antlr/antlr4/runtime/Go/antlr"
	parser "github.com/anz-bank/sysl/pkg/grammar"
)

type lexerStateMirror struct {
	prevToken []antlr.Token
	level     []int

	spaces        int
	linenum       int
	inSqBrackets  int
	parens        int
	blockTextLine int
	gotNewLine    bool
	gotHTTPVerb   bool
	gotView       bool
	noMoreImports bool
}

func b2i(b bool) int {
	if b {
		return 1
	}
	return 0
}

// packState mirrors Front/RunState.pack; ok=false when a field is outside the packed range
func packState(m *lexerStateMirror) (uint64, bool) {
	if m.blockTextLine < 0 || m.blockTextLine >= 16 || m.inSqBrackets < -32 || m.inSqBrackets >= 32 || m.parens < -32 || m.parens >= 32 ||
		len(m.level) >= 64 || m.spaces < 0 || m.spaces >= 1024 || m.linenum < 0 || m.linenum > 1<<30 {
		return 0, false
	}
	flags := b2i(m.gotNewLine) + 2*b2i(m.gotHTTPVerb) + 4*b2i(m.gotView) + 8*b2i(m.noMoreImports)
	v := uint64(m.spaces) + 1024*uint64(m.linenum)
	v = uint64(len(m.level)) + 64*v
	v = uint64(m.parens+32) + 64*v
	v = uint64(m.inSqBrackets+32) + 64*v
	v = uint64(m.blockTextLine) + 16*v
	return uint64(flags) + 16*v, true
}

// lexStates runs the real lexer to EOF and returns the tokens with the packed state after each raw token
func lexStates(text string) (toks []tokInfo, states []uint64, ok bool) {
	defer func() {
		if r := recover(); r != nil {
			ok = false
		}
	}()
	lexer := parser.NewThreadSafeSyslLexer(antlr.NewInputStream(text))
	defer parser.DeleteLexerState(lexer)
	lexer.RemoveErrorListeners()
	limit := 20*len(text) + 1000
	for i := 0; i < limit; i++ {
		t := lexer.NextToken()
		ty := t.GetTokenType()
		ti := tokInfo{ty: ty, hidden: t.GetChannel() == antlr.TokenHiddenChannel, line: t.GetLine(), col: t.GetColumn()}
		if ty == antlr.TokenEOF {
			ti.eof, ti.ty = true, 0
		}
		if ty == parser.SyslLexerINDENT || ty == parser.SyslLexerDEDENT {
			ti.synthetic = true
		}
		if isWSType(ty) {
			ti.text = t.GetText()
		}
		toks = append(toks, ti)
		if !ti.synthetic {
			m := (*lexerStateMirror)(unsafe.Pointer(parser.VerifLexerStateID(lexer))) //nolint:govet
			p, inRange := packState(m)
			if !inRange {
				return nil, nil, false
			}
			states = append(states, p)
		}
		if ti.eof {
			return toks, states, true
		}
	}
	return nil, nil, false
}

func gStateCase(toks []tokInfo, states []uint64) string {
	c := gCase(toks) // "([raws], [types])"
	var st []string
	for _, s := range states {
		st = append(st, fmt.Sprint(s))
	}
	return "(" + strings.TrimSuffix(strings.TrimPrefix(c, "("), ")") + ", [" + strings.Join(st, ";") + "])"
}
