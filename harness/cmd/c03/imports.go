// The import section: the textual pre-scan (extractImports, through the verif hook) against the import statements of
// the full parse, on bounded-exhaustively generated import sections.
package main

import (
	"fmt"
	"os"
	"sort"
	"strings"
	"sync"
	"time"

	"github.com/anz-bank/sysl/pkg/parse"
	"github.com/spf13/afero"

	"verifharness/common"
)

// one generator item: one or more lines (without line ends) of a named shape
type impItem struct {
	shape string
	lines []string
}

// the alphabet of line shapes of the import section ...
var impHead = []impItem{
	{"import", []string{"import a"}},
	{"import-tab", []string{"import\tb"}},
	{"import-trail", []string{"import  c  "}},
	{"import-comment", []string{"import a # c: x"}},
	{"import-as", []string{"import e as M :: N ~sysl"}},
	{"import-path", []string{"import sub/d.sysl"}},
	{"lead-import", []string{"  import a"}},
	{"lead-import", []string{"\timport c"}},
	{"blank", []string{""}},
	{"blanks", []string{" \t "}},
	{"comment", []string{"# import a"}},
	{"comment-empty", []string{"#"}},
	{"comment-indented", []string{"   # c"}},
	{"keyword-alone", []string{"import"}},
	{"keyword-blank", []string{"import "}},
	{"importx", []string{"importx"}},
	{"blanks-cr-import", []string{"  \rimport b"}},
	{"import-cr-import", []string{"import a \rimport c"}},
	{"cr-import", []string{"\rimport a"}},
	{"comment-cr", []string{"#x\rimport a"}},
	{"comment-indented-cr", []string{" #x\rimport a"}},
}

// ... and of what can follow it
var impBody = []impItem{
	{"app", []string{"App:", "    Ep: ..."}},
	{"app-named-import", []string{"import b:", "    Ep: ..."}},
	{"app-named-importx", []string{"importx:", "    Ep: ..."}},
	{"app-qstring", []string{"Q:", "    @x = \"q", "import b", "\"", "    Ep: ..."}},
	{"attr-line-import", []string{"R [x=\"1\",", "import =\"2\"]:", "    Ep: ..."}},
	{"stmt-import", []string{"S:", "    Ep:", "        import c"}},
	{"import-after-app", []string{"import c"}},
}

var impDeps = map[string]string{
	"a.sysl":     "DepA:\n    Ep: ...\n",
	"b.sysl":     "DepB:\n    Ep: ...\n",
	"c.sysl":     "DepC:\n    Ep: ...\n",
	"sub/d.sysl": "DepD:\n    Ep: ...\n",
	"e.sysl":     "DepE:\n    Ep: ...\n",
}

const impRoot = "root.sysl"

func impText(items []impItem, eol string, finalNL bool) string {
	var ls []string
	for _, it := range items {
		ls = append(ls, it.lines...)
	}
	t := strings.Join(ls, eol)
	if finalNL && len(ls) > 0 {
		t += eol
	}
	return t
}

func impShapes(items []impItem) string {
	var s []string
	for _, it := range items {
		s = append(s, it.shape)
	}
	return strings.Join(s, "+")
}

// what the real code says about one text
type impObs struct {
	pre        string
	a, b       []parse.VerifImport
	errA, errB bool
}

func impKey(d parse.VerifImport) string {
	return d.Filename + "|" + d.Appname + "|" + d.Pkg + "|" + d.Mode
}

var impObsCache sync.Map // name + NUL + text -> impObs

func impObserve(name, text string) impObs {
	k := name + "\x00" + text
	if v, ok := impObsCache.Load(k); ok {
		return v.(impObs)
	}
	o := impObserve1(name, text)
	if len(text) < 4000 {
		impObsCache.Store(k, o)
	}
	return o
}

func impObserve1(name, text string) (o impObs) {
	o.pre = parse.VerifExtractImports(name, []byte(text))
	if o.pre != "" { // collectSpecs: an empty pre-scan result means no parse and no children
		a, err := parse.VerifParseImports(name, o.pre)
		o.a, o.errA = a, err != nil
	}
	b, err := parse.VerifParseImports(name, text)
	o.b, o.errB = b, err != nil
	return
}

var impUnitCache sync.Map // unit text -> *impUnit

type impUnit struct {
	defs []parse.VerifImport
	err  bool
}

func impStmt(unit string) *impUnit {
	if v, ok := impUnitCache.Load(unit); ok {
		return v.(*impUnit)
	}
	d, err := parse.VerifParseImports(impRoot, unit)
	u := &impUnit{d, err != nil}
	impUnitCache.Store(unit, u)
	return u
}

// the property, judged on the observations alone: whenever the full parse accepts the file, the pre-scan must lead
// to exactly its import statements, in order. Returns the kinds of disagreement.
func impJudge(o impObs) []string {
	if o.errB {
		return nil
	}
	if o.errA {
		return []string{"rejected"}
	}
	na, nb := map[string]int{}, map[string]int{}
	for _, x := range o.a {
		na[impKey(x)]++
	}
	for _, x := range o.b {
		nb[impKey(x)]++
	}
	var kinds []string
	for k, n := range nb {
		if na[k] < n {
			kinds = append(kinds, "missed")
			break
		}
	}
	for k, n := range na {
		if nb[k] < n {
			kinds = append(kinds, "extra")
			break
		}
	}
	if len(kinds) == 0 {
		for i := range o.a {
			if impKey(o.a[i]) != impKey(o.b[i]) {
				kinds = append(kinds, "order")
				break
			}
		}
	}
	return kinds
}

func kindsMinus(a, b []string) (out []string) {
	for _, k := range a {
		if !hasKind(b, k) && !hasKind(out, k) {
			out = append(out, k)
		}
	}
	return
}

func hasKind(ks []string, k string) bool {
	for _, x := range ks {
		if x == k {
			return true
		}
	}
	return false
}

// recording file system: which files were opened
type recFs struct {
	afero.Fs
	mu     sync.Mutex
	opened map[string]bool
}

func (r *recFs) note(n string) {
	r.mu.Lock()
	r.opened[strings.TrimPrefix(strings.ReplaceAll(n, "\\", "/"), "./")] = true
	r.mu.Unlock()
}
func (r *recFs) Open(n string) (afero.File, error) { r.note(n); return r.Fs.Open(n) }
func (r *recFs) OpenFile(n string, f int, p os.FileMode) (afero.File, error) {
	r.note(n)
	return r.Fs.OpenFile(n, f, p)
}

// the whole pipeline: parse.Parser on a file system that holds the text and every importable file. Returns whether it
// compiled, the dependency files it opened and the Dep* applications of the module.
func impCompile(text string) (ok bool, fetched, apps []string, msg string) {
	mem := afero.NewMemMapFs()
	afero.WriteFile(mem, impRoot, []byte(text), 0o644)
	for n, c := range impDeps {
		afero.WriteFile(mem, n, []byte(c), 0o644)
	}
	fs := &recFs{Fs: mem, opened: map[string]bool{}}
	c := compile(fs, impRoot)
	for n := range fs.opened {
		if _, dep := impDeps[n]; dep {
			fetched = append(fetched, n)
		}
	}
	sort.Strings(fetched)
	if c.kind == "ok" {
		for n := range c.mod.GetApps() {
			if strings.HasPrefix(n, "Dep") {
				apps = append(apps, n)
			}
		}
		sort.Strings(apps)
	}
	return c.kind == "ok", fetched, apps, c.msg
}

func impDepApp(file string) string {
	c := impDeps[file]
	return c[:strings.Index(c, ":")]
}

// judged on the pipeline: the full parse's import statements (b, from the hook) against what was fetched and compiled
func impJudgeFetch(o impObs, text string) (kinds []string, what string) {
	for _, d := range o.b {
		if _, dep := impDeps[strings.TrimPrefix(d.Filename, "./")]; !dep {
			return nil, "" // the text imports a file the test file system does not hold
		}
	}
	if !o.errB && !o.errA {
		seen := map[string]string{}
		for _, d := range o.a { // one file under two application names is an error by design
			if p, dup := seen[d.Filename]; dup && p != d.Appname {
				return nil, ""
			}
			seen[d.Filename] = d.Appname
		}
	}
	ok, fetched, apps, msg := impCompile(text)
	if o.errB {
		if ok {
			return []string{"compiled-though-rejected"}, "the full parse (hook) rejects the text, parse.Parser compiles it"
		}
		return nil, ""
	}
	if !ok {
		return []string{"rejected"}, "the full parse accepts the text, parse.Parser fails: " + firstLine(msg)
	}
	want := map[string]bool{}
	for _, d := range o.b {
		want[strings.TrimPrefix(d.Filename, "./")] = true
	}
	got := map[string]bool{}
	for _, f := range fetched {
		got[f] = true
		if !want[f] {
			kinds = append(kinds, "extra")
			what += fmt.Sprintf("%s is fetched but not imported; ", f)
		}
	}
	for f := range want {
		if _, dep := impDeps[f]; dep && !got[f] {
			kinds = append(kinds, "missed")
			what += fmt.Sprintf("%s is imported but not fetched; ", f)
		}
	}
	have := map[string]bool{}
	for _, a := range apps {
		have[a] = true
	}
	for f := range want {
		if _, dep := impDeps[f]; dep && !have[impDepApp(f)] {
			if !hasKind(kinds, "missed") {
				kinds = append(kinds, "missed")
			}
			what += fmt.Sprintf("application %s of the imported %s is not in the module; ", impDepApp(f), f)
		}
	}
	return kinds, what
}

// ---------- cases for Coq ----------

type impIntern struct {
	ids map[string]int
}

func (in *impIntern) id(d parse.VerifImport) int {
	k := impKey(d)
	if v, ok := in.ids[k]; ok {
		return v
	}
	v := len(in.ids) + 1
	in.ids[k] = v
	return v
}

func (in *impIntern) olist(defs []parse.VerifImport, err bool) string {
	if err {
		return "None"
	}
	it := make([]string, len(defs))
	for i, d := range defs {
		it[i] = fmt.Sprint(in.id(d))
	}
	return "(Some [" + strings.Join(it, ";") + "])"
}

// bytes as a Gallina expression; long runs of one byte are printed as `rep c n`
func gBytesRLE(s string) string {
	var parts []string
	var cur []string
	flush := func() {
		if len(cur) > 0 {
			parts = append(parts, "["+strings.Join(cur, ";")+"]")
			cur = nil
		}
	}
	for i := 0; i < len(s); {
		j := i
		for j < len(s) && s[j] == s[i] {
			j++
		}
		if j-i >= 64 {
			flush()
			parts = append(parts, fmt.Sprintf("rep %d %d", s[i], j-i))
		} else {
			for k := i; k < j; k++ {
				cur = append(cur, fmt.Sprint(s[k]))
			}
		}
		i = j
	}
	flush()
	if len(parts) == 0 {
		return "[]"
	}
	return "(" + strings.Join(parts, " ++ ") + ")"
}

func dropCR(l string) string {
	if strings.HasSuffix(l, "\r") {
		return l[:len(l)-1]
	}
	return l
}

// the units of a text the model may ask the statement parser about: every LF-line that holds the keyword, as it
// stands (with its LF if it has one) and as the pre-scan spells it (CR dropped, LF appended)
func impUnits(text string) []string {
	seen := map[string]bool{}
	var out []string
	add := func(u string) {
		if !seen[u] {
			seen[u] = true
			out = append(out, u)
		}
	}
	rest := text
	for len(rest) > 0 {
		var l string
		term := false
		if k := strings.IndexByte(rest, '\n'); k >= 0 {
			l, rest, term = rest[:k], rest[k+1:], true
		} else {
			l, rest = rest, ""
		}
		if !strings.Contains(l, "import") || len(l) > 2000 {
			continue
		}
		if term {
			add(l + "\n")
		} else {
			add(l)
		}
		add(dropCR(l) + "\n")
	}
	return out
}

func (in *impIntern) gCase(name, text string, o impObs) string {
	var tbl []string
	for _, u := range impUnits(text) {
		r := impStmt(u)
		tbl = append(tbl, fmt.Sprintf("(%s, %s)", gBytesRLE(u), in.olist(r.defs, r.err)))
	}
	return fmt.Sprintf("IC %s %s [%s] %s %s %s", common.GBool(strings.Contains(name, ".sysl")), gBytesRLE(text),
		strings.Join(tbl, ";"), gBytesRLE(o.pre), in.olist(o.a, o.errA), in.olist(o.b, o.errB))
}

// ---------- the stream ----------

type impSubject struct {
	items   []impItem // nil for probes given as text
	eol     string
	finalNL bool
	text    string
	name    string // file name handed to the pre-scan
	probe   string // key of a probe given as text
	fetch   bool   // also run the whole pipeline
	// results
	obs    impObs
	kinds  []string
	fkinds []string
	fwhat  string
}

func (s *impSubject) run() {
	s.obs = impObserve(s.name, s.text)
	for _, u := range impUnits(s.text) {
		impStmt(u)
	}
	if s.name != impRoot {
		return
	}
	s.kinds = impJudge(s.obs)
	if s.fetch {
		s.fkinds, s.fwhat = impJudgeFetch(s.obs, s.text)
	}
}

// shrink a failing item list: drop items while a disagreement (of any kind) persists; the kinds are those of the
// shrunk text
func impShrink(items []impItem, eol string, finalNL bool, fetch bool) ([]impItem, string, bool, []string) {
	kindsOf := func(it []impItem, e string, nl bool) []string {
		t := impText(it, e, nl)
		o := impObserve(impRoot, t)
		if fetch { // what the pipeline does beyond what the hook-level observations already say
			k, _ := impJudgeFetch(o, t)
			return kindsMinus(k, impJudge(o))
		}
		return impJudge(o)
	}
	cur := append([]impItem(nil), items...)
	// the smallest failing selection first: one item, then two (a greedy removal can get stuck where two items only
	// fail to fail together)
	small := func() []impItem {
		for i := range items {
			if c := []impItem{items[i]}; len(kindsOf(c, eol, finalNL)) > 0 {
				return c
			}
		}
		for i := range items {
			for j := i + 1; j < len(items); j++ {
				if c := []impItem{items[i], items[j]}; len(kindsOf(c, eol, finalNL)) > 0 {
					return c
				}
			}
		}
		return nil
	}
	if c := small(); c != nil {
		cur = c
	}
	for changed := true; changed; {
		changed = false
		for i := range cur {
			cand := append(append([]impItem(nil), cur[:i]...), cur[i+1:]...)
			if len(kindsOf(cand, eol, finalNL)) > 0 {
				cur, changed = cand, true
				break
			}
		}
	}
	// canonical context: an item that only has to be SOME application in front of the culprit becomes the plain one
	for i := 0; i+1 < len(cur); i++ {
		if cur[i].shape != impBody[0].shape {
			cand := append([]impItem(nil), cur...)
			cand[i] = impBody[0]
			if len(kindsOf(cand, eol, finalNL)) > 0 {
				cur = cand
			}
		}
	}
	if eol != "\n" && len(kindsOf(cur, "\n", finalNL)) > 0 {
		eol = "\n"
	}
	if !finalNL && len(kindsOf(cur, eol, true)) > 0 {
		finalNL = true
	}
	return cur, eol, finalNL, kindsOf(cur, eol, finalNL)
}

func (r *runner) impReport(s *impSubject, kinds []string, fetch bool) {
	key, text := s.probe, s.text
	if s.items != nil {
		it, eol, nl, ks := impShrink(s.items, s.eol, s.finalNL, fetch)
		key, kinds = impShapes(it), ks
		if eol != "\n" {
			key += "/crlf"
		}
		if !nl {
			key += "/no-final-newline"
		}
		text = impText(it, eol, nl)
	}
	o := impObserve(impRoot, text)
	pre := "import-prescan:"
	what := fmt.Sprintf("the full parse sees %v, the pre-scan hands %q to parseImports, which gives %v (error: %v)", o.b, o.pre, o.a, o.errA)
	if fetch {
		pre = "import-fetch:"
		_, what = impJudgeFetch(o, text)
	}
	show := text
	if len(show) > 300 {
		show = show[:100] + "..." + show[len(show)-100:]
	}
	name := "import-section"
	if s.items == nil {
		name += ":" + s.probe
	}
	r.c.Fail(pre+strings.Join(kinds, "+")+"@"+key, fmt.Sprintf("%q: %s", show, what), replay{Name: name, Text: text})
}

func (r *runner) impFinish(in *impIntern, subs []*impSubject) {
	for _, s := range subs {
		r.c.Count("import-section:"+s.name+":"+s.text, !s.obs.errB)
		if len(s.kinds) > 0 {
			r.impReport(s, s.kinds, false)
		}
		if extra := kindsMinus(s.fkinds, s.kinds); len(extra) > 0 {
			// the pipeline (collectSpecs) does something else than the hook-level observations say
			r.impReport(s, extra, true)
		}
		switch {
		case s.obs.errB:
			r.c.Hist("import-section:full-parse-rejects")
		case len(s.obs.b) == 0:
			r.c.Hist("import-section:accepted-no-import")
		default:
			r.c.Hist(fmt.Sprintf("import-section:accepted-%d-imports", len(s.obs.b)))
		}
		if s.fetch {
			r.c.Hist("import-section:pipeline-run")
		}
		r.is.Add(in.gCase(s.name, s.text, s.obs), replay{Name: "import-section", Text: s.text})
	}
}

func impRunAll(subs []*impSubject) {
	var wg sync.WaitGroup
	ch := make(chan *impSubject)
	for w := 0; w < 8; w++ {
		wg.Add(1)
		go func() {
			defer wg.Done()
			for s := range ch {
				s.run()
			}
		}()
	}
	for _, s := range subs {
		ch <- s
	}
	close(ch)
	wg.Wait()
}

// all sequences over the head alphabet up to length n
func impSeqs(alpha []impItem, n int) [][]impItem {
	out := [][]impItem{nil}
	last := out
	for k := 0; k < n; k++ {
		var next [][]impItem
		for _, p := range last {
			for _, it := range alpha {
				next = append(next, append(append([]impItem(nil), p...), it))
			}
		}
		out = append(out, next...)
		last = next
	}
	return out
}

func (r *runner) importSections() {
	c := r.c
	in := &impIntern{ids: map[string]int{}}
	var subs []*impSubject
	add := func(items []impItem, eol string, nl bool, fetch bool) {
		subs = append(subs, &impSubject{items: items, eol: eol, finalNL: nl, text: impText(items, eol, nl), name: impRoot, fetch: fetch})
	}
	// quick: every sequence of up to 2 lines over the whole alphabet; thorough: also every sequence of 3 lines over
	// the core alphabet
	core := []int{0, 1, 2, 3, 6, 8, 9, 10, 12, 13, 15, 16}
	seqs := impSeqs(impHead, 2)
	depth := 2
	if c.Thorough() || c.Search {
		depth = 3
		var ch []impItem
		for _, k := range core {
			ch = append(ch, impHead[k])
		}
		for _, q := range impSeqs(ch, 3) {
			if len(q) == 3 {
				seqs = append(seqs, q)
			}
		}
	}
	for i, hs := range seqs {
		// bodies: none, the plain application, and the special ones in rotation (thorough: more of them)
		var bodies [][]impItem
		if (c.Thorough() || c.Search) && len(hs) <= 2 || len(hs) <= 1 {
			bodies = append(bodies, nil, []impItem{impBody[0]})
		} else if (i+int(c.Seed))%2 == 0 {
			bodies = append(bodies, nil)
		} else {
			bodies = append(bodies, []impItem{impBody[0]})
		}
		nsp := 1
		if c.Thorough() || c.Search {
			nsp = 3
			if len(hs) <= 1 {
				nsp = len(impBody) - 1
			} else if len(hs) == 3 {
				nsp = 1
			}
		}
		for k := 0; k < nsp; k++ {
			b := impBody[1+(i+k+int(c.Seed))%(len(impBody)-1)]
			if (i/len(impBody)+k)%2 == 0 {
				bodies = append(bodies, []impItem{impBody[0], b})
			} else {
				bodies = append(bodies, []impItem{b})
			}
		}
		for j, b := range bodies {
			items := append(append([]impItem(nil), hs...), b...)
			if len(items) == 0 {
				continue
			}
			eol, nl := "\n", true
			switch c.Rng.Intn(8) {
			case 0:
				eol = "\r\n"
			case 1:
				nl = false
			case 2:
				eol, nl = "\r\n", false
			}
			add(items, eol, nl, len(hs) <= 1 || (i+j+int(c.Seed))%8 == 0)
		}
	}
	// longer random sections
	nr := 150
	if c.Thorough() {
		nr = 1200
	}
	if c.Search {
		nr *= 3
	}
	for i := 0; i < nr; i++ {
		var items []impItem
		for k, n := 0, 3+c.Rng.Intn(5); k < n; k++ {
			items = append(items, impHead[c.Rng.Intn(len(impHead))])
		}
		for k, n := 0, c.Rng.Intn(3); k < n; k++ {
			if k == 0 && c.Rng.Chance(2, 3) {
				items = append(items, impBody[0])
			} else {
				items = append(items, impBody[c.Rng.Intn(len(impBody))])
			}
		}
		eol := "\n"
		if c.Rng.Chance(1, 4) {
			eol = "\r\n"
		}
		add(items, eol, !c.Rng.Chance(1, 5), i%5 == 0)
	}
	// probes given as text: lines at the limit of the default scanner buffer (bufio.MaxScanTokenSize = 65536) in front
	// of, between and behind import lines; a file name without ".sysl"
	lens := []int{4096, 65535, 65536, 65537}
	if c.Thorough() || c.Search {
		lens = []int{4095, 4096, 65534, 65535, 65536, 65537, 70000, 140000}
	}
	for _, n := range lens {
		long := "#" + strings.Repeat("x", n-1)
		for k, t := range [][2]string{
			{"long-comment+import+app", long + "\nimport a\nApp:\n    Ep: ...\n"},
			{"import+long-comment+import", "import a\n" + long + "\nimport b\n"},
			{"import+import+app+long-comment", "import a\nimport b\nApp:\n    Ep: ...\n" + long},
			{"import+long-blanks+import", "import a\n" + strings.Repeat(" ", n) + "\nimport c\n"},
			{"import+long-blanks+import/crlf", "import a\n" + strings.Repeat(" ", n-1) + "\r\nimport c\r\n"}} {
			subs = append(subs, &impSubject{text: t[1], name: impRoot, probe: t[0], fetch: k < 2})
		}
	}
	for _, t := range []string{"import a\nApp:\n    Ep: ...\n", "  import a\n", ""} {
		subs = append(subs, &impSubject{text: t, name: "root.yaml"}, &impSubject{text: t, name: "root.sysl.bak"})
	}
	t0 := time.Now()
	impRunAll(subs)
	c.Res.Extra["t_imports_run_s"] = time.Since(t0).Seconds()
	r.impFinish(in, subs)
	c.Res.Extra["t_imports_all_s"] = time.Since(t0).Seconds()
	c.Res.Extra["import_section_cases"] = len(subs)
	c.Res.Extra["import_section_head_alphabet"] = len(impHead)
	c.Res.Extra["import_section_exhaustive_depth"] = depth
}

// impParseItems reads a text back into generator items (so that a replay gets the key of the original run)
func impParseItems(text string) (items []impItem, eol string, nl bool, ok bool) {
	eol = "\n"
	if strings.Contains(text, "\r\n") {
		eol = "\r\n"
	}
	nl = strings.HasSuffix(text, eol)
	ls := strings.Split(strings.TrimSuffix(text, eol), eol)
	all := append(append([]impItem(nil), impBody...), impHead...)
	for i := 0; i < len(ls); {
		found := false
		for _, it := range all {
			if i+len(it.lines) <= len(ls) && strings.Join(ls[i:i+len(it.lines)], "\x00") == strings.Join(it.lines, "\x00") {
				items, i, found = append(items, it), i+len(it.lines), true
				break
			}
		}
		if !found {
			return nil, eol, nl, false
		}
	}
	return items, eol, nl, impText(items, eol, nl) == text
}

// replay of one import-section text
func (r *runner) impReplay(name, text string, out func(string)) {
	in := &impIntern{ids: map[string]int{}}
	s := &impSubject{text: text, name: impRoot, fetch: true, probe: "replayed-text"}
	if k := strings.Index(name, ":"); k >= 0 {
		s.probe = name[k+1:]
	}
	if it, eol, nl, ok := impParseItems(text); ok {
		s.items, s.eol, s.finalNL = it, eol, nl
	}
	s.run()
	out(fmt.Sprintf("replay import-section %q:\n  pre-scan hands %q to parseImports -> %v (error %v)\n  full parse -> %v (rejected %v)\n  disagreement: %v; pipeline: %v %s\n",
		text, s.obs.pre, s.obs.a, s.obs.errA, s.obs.b, s.obs.errB, s.kinds, s.fkinds, s.fwhat))
	r.impFinish(in, []*impSubject{s})
}
