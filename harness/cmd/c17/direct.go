package main

import (
	"fmt"

	"github.com/anz-bank/sysl/pkg/sysl"

	"verifharness/common"
)

// ---- second route: modules built directly as protobuf values, for well-formed shapes the parser never or rarely
// produces (numbered loops, alt without choices, empty action / payload, parameters without a type, fields with
// several constraints, list / map / one-of types, statement attributes on every kind, deep forests with many
// siblings). Attribute shapes stay within what attrToValue / tags accept. Replayed from the seed.

type dgen struct {
	r        *common.Rng
	uid      int
	allowBad bool // one module in six may hold a return payload the payload grammar refuses
}

func (g *dgen) fresh(p string) string { g.uid++; return fmt.Sprintf("%s%d", p, g.uid) }

// source contexts as a loaded model carries them: file, start and end position
func (g *dgen) srcs() []*sysl.SourceContext {
	var out []*sysl.SourceContext
	for i := g.r.Intn(4) - 1; i > 0; i-- {
		l := int32(1 + g.r.Intn(200))
		out = append(out, &sysl.SourceContext{File: []string{"a.sysl", "dir/b.sysl"}[g.r.Intn(2)],
			Start: &sysl.SourceContext_Location{Line: l, Col: int32(g.r.Intn(40))},
			End:   &sysl.SourceContext_Location{Line: l + int32(g.r.Intn(3)), Col: int32(g.r.Intn(80))}})
	}
	return out
}

func (g *dgen) attrVal(depth int) *sysl.Attribute {
	switch g.r.Intn(8) {
	case 0:
		return &sysl.Attribute{Attribute: &sysl.Attribute_I{I: int64(g.r.Intn(50)) - 10}}
	case 1:
		return &sysl.Attribute{Attribute: &sysl.Attribute_N{N: []float64{0.25, -2.5, 1e-3, 3, 1e21, 0}[g.r.Intn(6)] * float64(1+g.r.Intn(7))}}
	case 2, 3:
		if depth < 2 {
			a := &sysl.Attribute_Array{}
			for i := g.r.Intn(4); i > 0; i-- {
				a.Elt = append(a.Elt, g.attrVal(depth+1))
			}
			return &sysl.Attribute{Attribute: &sysl.Attribute_A{A: a}}
		}
	case 4:
		// float64(int64) rounds beyond 2^53
		v := int64(1)<<53 + int64(g.r.Intn(9)) - 4
		if g.r.Bool() {
			v = -v * int64(1+g.r.Intn(500))
		}
		return &sysl.Attribute{Attribute: &sysl.Attribute_I{I: v}}
	case 5:
		return &sysl.Attribute{Attribute: &sysl.Attribute_S{S: ""}}
	}
	return &sysl.Attribute{Attribute: &sysl.Attribute_S{S: g.fresh("v")}}
}

func (g *dgen) attrs() map[string]*sysl.Attribute {
	if g.r.Chance(1, 2) {
		return nil
	}
	m := map[string]*sysl.Attribute{}
	if g.r.Chance(2, 3) {
		a := &sysl.Attribute_Array{}
		for i := g.r.Intn(4); i > 0; i-- {
			a.Elt = append(a.Elt, &sysl.Attribute{Attribute: &sysl.Attribute_S{S: g.fresh("tag")}})
		}
		m["patterns"] = &sysl.Attribute{Attribute: &sysl.Attribute_A{A: a}}
	}
	for i := g.r.Intn(3); i > 0; i-- {
		v := g.attrVal(0)
		v.SourceContexts = g.srcs()
		m[g.fresh("anno")] = v
	}
	return m
}

var dprims = []sysl.Type_Primitive{sysl.Type_INT, sysl.Type_STRING, sysl.Type_BOOL, sysl.Type_DECIMAL, sysl.Type_ANY, sysl.Type_DATE, sysl.Type_EMPTY}

// a range bound as the compiler writes it (an integer) or any other sysl.Value kind
func (g *dgen) bound() *sysl.Value {
	switch g.r.Intn(5) {
	case 0:
		return nil
	case 1:
		return &sysl.Value{Value: &sysl.Value_S{S: g.fresh("b")}}
	case 2:
		return &sysl.Value{Value: &sysl.Value_D{D: 2.5}}
	}
	return &sysl.Value{Value: &sysl.Value_I{I: int64(g.r.Intn(4001)) - 2000}}
}

// constraint lists: what the compiler writes (one constraint: length / precision+scale / bit width with or without
// range) and what only a loaded model can hold (several constraints, any mix of members, a resolution)
func (g *dgen) constraints() []*sysl.Type_Constraint {
	one := func() *sysl.Type_Constraint {
		c := &sysl.Type_Constraint{}
		if g.r.Chance(2, 3) {
			c.Precision, c.Scale = int32(g.r.Intn(20)), int32(g.r.Intn(5))
		}
		if g.r.Bool() {
			c.Length = &sysl.Type_Constraint_Length{Min: int64(g.r.Intn(5)), Max: int64(g.r.Intn(100))}
		}
		if g.r.Chance(1, 3) {
			c.BitWidth = []int32{8, 16, 32, 64}[g.r.Intn(4)]
		}
		if g.r.Chance(1, 3) {
			c.Range = &sysl.Type_Constraint_Range{Min: g.bound(), Max: g.bound()}
		}
		if g.r.Chance(1, 5) {
			c.Resolution = &sysl.Type_Constraint_Resolution{Base: 10, Index: -int32(g.r.Intn(4))}
		}
		return c
	}
	switch g.r.Intn(8) {
	case 0, 1, 2:
		return nil
	case 3:
		return []*sysl.Type_Constraint{} // present and empty
	case 4: // int32 / int64 as compiled
		if g.r.Bool() {
			return []*sysl.Type_Constraint{{BitWidth: 32, Range: &sysl.Type_Constraint_Range{
				Min: &sysl.Value{Value: &sysl.Value_I{I: -2147483648}}, Max: &sysl.Value{Value: &sysl.Value_I{I: 2147483647}}}}}
		}
		return []*sysl.Type_Constraint{{BitWidth: 64, Range: &sysl.Type_Constraint_Range{
			Min: &sysl.Value{Value: &sysl.Value_I{I: -9223372036854775808}}, Max: &sysl.Value{Value: &sysl.Value_I{I: 9223372036854775807}}}}}
	case 5:
		return []*sysl.Type_Constraint{one()}
	}
	var cs []*sysl.Type_Constraint
	for i := 2 + g.r.Intn(2); i > 0; i-- {
		cs = append(cs, one())
	}
	return cs
}

func (g *dgen) typ(depth int) *sysl.Type {
	t := &sysl.Type{Opt: g.r.Chance(1, 4), Attrs: g.attrs(), SourceContexts: g.srcs()}
	k := g.r.Intn(16)
	if depth > 2 && (k >= 5 && k <= 7 || k >= 12) {
		k = 0
	}
	switch k {
	case 0, 1, 2:
		t.Type = &sysl.Type_Primitive_{Primitive: dprims[g.r.Intn(len(dprims))]}
	case 3:
		t.Type = &sysl.Type_TypeRef{TypeRef: &sysl.ScopedRef{Ref: &sysl.Scope{Path: []string{g.fresh("T")}}}}
	case 4:
		ref := &sysl.ScopedRef{Ref: &sysl.Scope{Path: []string{"T", g.fresh("f")}}}
		switch g.r.Intn(3) {
		case 0:
			ref.Ref.Appname = &sysl.AppName{Part: []string{"Ns", g.fresh("X")}}
		case 1:
			ref.Context = &sysl.Scope{Appname: &sysl.AppName{Part: []string{g.fresh("Ctx")}}, Path: []string{"Q"}}
		}
		t.Type = &sysl.Type_TypeRef{TypeRef: ref}
	case 5:
		t.Type = &sysl.Type_Set{Set: g.typ(depth + 1)}
	case 6:
		t.Type = &sysl.Type_Sequence{Sequence: g.typ(depth + 1)}
	case 7:
		t.Type = &sysl.Type_List_{List: &sysl.Type_List{Type: g.typ(depth + 1)}}
	case 8:
		t.Type = &sysl.Type_NoType_{NoType: &sysl.Type_NoType{}}
	case 9:
		t.Type = &sysl.Type_Tuple_{Tuple: &sysl.Type_Tuple{}}
	case 10:
		t.Type = &sysl.Type_OneOf_{OneOf: &sysl.Type_OneOf{}}
	case 11:
		t.Type = nil
	case 12: // every other kind of type in a field / parameter / element position
		one := &sysl.Type_OneOf{}
		for i := 1 + g.r.Intn(3); i > 0; i-- {
			one.Type = append(one.Type, g.typ(depth+1))
		}
		t.Type = &sysl.Type_OneOf_{OneOf: one}
	case 13:
		t.Type = &sysl.Type_Map_{Map: &sysl.Type_Map{Key: g.typ(depth + 1), Value: g.typ(depth + 1)}}
	case 14:
		t.Type = &sysl.Type_Enum_{Enum: &sysl.Type_Enum{Items: map[string]int64{g.fresh("V"): 1}}}
	case 15:
		t.Type = &sysl.Type_Relation_{Relation: &sysl.Type_Relation{AttrDefs: map[string]*sysl.Type{g.fresh("c"): {Type: &sysl.Type_Primitive_{Primitive: sysl.Type_INT}}}}}
	}
	t.Constraint = g.constraints()
	return t
}

func (g *dgen) stmts(depth, maxDepth, minSib int) []*sysl.Statement {
	n := minSib + g.r.Intn(3)
	var out []*sysl.Statement
	for i := 0; i < n; i++ {
		out = append(out, g.stmt(depth, maxDepth, minSib))
	}
	return out
}

var dpayloads = []string{"", "ok", "error", "500", "ok <: string", "ok <: T0", "200 <: sequence of Ns::A1.T0", "ok <: T0 [~m, k=\"v\"]", "200 ok", "500 < Err"}

func (g *dgen) stmt(depth, maxDepth, minSib int) *sysl.Statement {
	s := &sysl.Statement{Attrs: g.attrs(), SourceContexts: g.srcs()}
	k := g.r.Intn(16)
	if depth >= maxDepth && k >= 6 {
		k = g.r.Intn(6)
	}
	body := func() []*sysl.Statement { return g.stmts(depth+1, maxDepth, minSib) }
	switch k {
	case 0, 1:
		s.Stmt = &sysl.Statement_Action{Action: &sysl.Action{Action: g.fresh("act")}}
	case 2:
		s.Stmt = &sysl.Statement_Action{Action: &sysl.Action{Action: []string{"", "...", "act"}[g.r.Intn(3)]}}
	case 3:
		s.Stmt = &sysl.Statement_Call{Call: &sysl.Call{Target: &sysl.AppName{Part: []string{"Ns", g.fresh("B")}}, Endpoint: g.fresh("E")}}
	case 4:
		p := dpayloads[g.r.Intn(len(dpayloads))]
		if (!g.allowBad || g.r.Chance(3, 4)) && (p == "200 ok" || p == "500 < Err") {
			p = "ok"
		}
		if g.r.Bool() {
			p, _ = genPayloadText(g.r)
		}
		s.Stmt = &sysl.Statement_Ret{Ret: &sysl.Return{Payload: p}}
	case 5:
		if g.r.Bool() {
			s.Stmt = nil
		} else {
			s.Stmt = &sysl.Statement_Alt{Alt: &sysl.Alt{}}
		}
	case 6, 7:
		s.Stmt = &sysl.Statement_Cond{Cond: &sysl.Cond{Test: g.fresh("c"), Stmt: body()}}
	case 8:
		s.Stmt = &sysl.Statement_Loop{Loop: &sysl.Loop{Mode: sysl.Loop_Mode(g.r.Intn(3)), Criterion: g.fresh("w"), Stmt: body()}}
	case 9:
		s.Stmt = &sysl.Statement_LoopN{LoopN: &sysl.LoopN{Count: int32(g.r.Intn(9)), Stmt: body()}}
	case 10, 11:
		s.Stmt = &sysl.Statement_Foreach{Foreach: &sysl.Foreach{Collection: g.fresh("xs"), Stmt: body()}}
	case 12:
		s.Stmt = &sysl.Statement_Group{Group: &sysl.Group{Title: g.fresh("g"), Stmt: body()}}
	default:
		alt := &sysl.Alt{}
		for i := 1 + g.r.Intn(3); i > 0; i-- {
			alt.Choice = append(alt.Choice, &sysl.Alt_Choice{Cond: g.fresh("ch"), Stmt: g.stmts(depth+2, maxDepth, minSib)})
		}
		s.Stmt = &sysl.Statement_Alt{Alt: alt}
	}
	return s
}

func (g *dgen) params() []*sysl.Param {
	var ps []*sysl.Param
	for i := g.r.Intn(3); i > 0; i-- {
		p := &sysl.Param{Name: g.fresh("p")}
		if g.r.Chance(3, 4) {
			p.Type = g.typ(1)
		}
		ps = append(ps, p)
	}
	return ps
}

func (g *dgen) fields() map[string]*sysl.Type {
	m := map[string]*sysl.Type{}
	for i := g.r.Intn(4); i > 0; i-- {
		m[g.fresh("f")] = g.typ(0)
	}
	return m
}

func genDirect(seed uint64) *sysl.Module {
	g := &dgen{r: common.NewRng(seed)}
	g.allowBad = g.r.Chance(1, 6)
	m := &sysl.Module{Apps: map[string]*sysl.Application{}}
	napps := 1 + g.r.Intn(3)
	for ai := 0; ai < napps; ai++ {
		parts := [][]string{{"A0"}, {"Ns", "A1"}, {"Ns", "Sub", "A2"}}[ai]
		app := &sysl.Application{Name: &sysl.AppName{Part: parts}, Attrs: g.attrs(), SourceContexts: g.srcs(), Endpoints: map[string]*sysl.Endpoint{},
			Types: map[string]*sysl.Type{}, Views: map[string]*sysl.View{}}
		if g.r.Bool() {
			app.LongName = g.fresh("long")
		}
		for i := g.r.Intn(3); i > 0; i-- {
			app.Mixin2 = append(app.Mixin2, &sysl.Application{Name: &sysl.AppName{Part: []string{g.fresh("Mx")}}, Attrs: g.attrs(), SourceContexts: g.srcs()})
		}
		neps := 1 + g.r.Intn(3)
		for ei := 0; ei < neps; ei++ {
			ep := &sysl.Endpoint{Name: g.fresh("E"), Attrs: g.attrs(), Param: g.params(), SourceContexts: g.srcs()}
			maxDepth, minSib := 1+g.r.Intn(4), 0
			if ai == 0 && ei == 0 {
				maxDepth, minSib = 5+g.r.Intn(4), 2 // Appendix B: depth >= 5 with >= 2 siblings on every level
			}
			switch g.r.Intn(8) {
			case 0:
				ep.IsPubsub = true
			case 1:
				ep.Source = &sysl.AppName{Part: []string{"Pub", g.fresh("S")}}
				ep.Name = "Pub :: S -> " + g.fresh("Ev")
			case 2:
				ep.Name = "..."
			case 3:
				ep.RestParams = &sysl.Endpoint_RestParams{Method: sysl.Endpoint_RestParams_Method(g.r.Intn(5)), Path: "/" + g.fresh("r")}
				for _, p := range g.params() {
					ep.RestParams.UrlParam = append(ep.RestParams.UrlParam, &sysl.Endpoint_RestParams_QueryParam{Name: p.Name, Type: p.Type})
				}
				for _, p := range g.params() {
					ep.RestParams.QueryParam = append(ep.RestParams.QueryParam, &sysl.Endpoint_RestParams_QueryParam{Name: p.Name, Type: p.Type})
				}
			}
			ep.Stmt = g.stmts(1, maxDepth, minSib)
			if minSib == 2 && len(ep.Stmt) > 0 {
				// guarantee one spine of full depth
				cur := ep.Stmt[0]
				for d := 1; d < maxDepth; d++ {
					b := g.stmts(d+1, d+1, 2)
					if d%2 == 0 {
						cur.Stmt = &sysl.Statement_Foreach{Foreach: &sysl.Foreach{Collection: g.fresh("xs"), Stmt: b}}
					} else {
						cur.Stmt = &sysl.Statement_Cond{Cond: &sysl.Cond{Test: g.fresh("c"), Stmt: b}}
					}
					cur = b[0]
				}
			}
			app.Endpoints[ep.Name] = ep
		}
		for i := g.r.Intn(4); i > 0; i-- {
			t := &sysl.Type{Opt: g.r.Chance(1, 5), Attrs: g.attrs(), SourceContexts: g.srcs()}
			switch g.r.Intn(7) {
			case 0, 1:
				t.Type = &sysl.Type_Tuple_{Tuple: &sysl.Type_Tuple{AttrDefs: g.fields()}}
			case 2:
				rel := &sysl.Type_Relation{AttrDefs: g.fields()}
				if g.r.Bool() {
					rel.PrimaryKey = &sysl.Type_Relation_Key{}
					for f := range rel.AttrDefs {
						if len(rel.PrimaryKey.AttrName) < 1 || f < rel.PrimaryKey.AttrName[0] {
							rel.PrimaryKey.AttrName = []string{f}
						}
					}
				}
				t.Type = &sysl.Type_Relation_{Relation: rel}
			case 3:
				e := &sysl.Type_Enum{Items: map[string]int64{}}
				for j := g.r.Intn(4); j > 0; j-- {
					e.Items[g.fresh("V")] = int64(g.r.Intn(1000)) - 3
				}
				t.Type = &sysl.Type_Enum_{Enum: e}
			case 4:
				a := g.typ(1)
				t.Type, t.Constraint = a.Type, nil
			case 5:
				one := &sysl.Type_OneOf{}
				for j := g.r.Intn(4); j > 0; j-- {
					one.Type = append(one.Type, g.typ(2))
				}
				t.Type = &sysl.Type_OneOf_{OneOf: one}
			case 6:
				t.Type = &sysl.Type_Map_{Map: &sysl.Type_Map{Key: g.typ(2), Value: g.typ(2)}}
			}
			app.Types[g.fresh("T")] = t
		}
		for i := g.r.Intn(3); i > 0; i-- {
			v := &sysl.View{RetType: g.typ(1), Attrs: g.attrs(), SourceContexts: g.srcs(), Param: g.params()}
			if g.r.Chance(1, 5) {
				v.RetType = nil // as compiled from a view that declares no return type
			}
			switch g.r.Intn(3) {
			case 0:
				v.Expr = &sysl.Expr{Expr: &sysl.Expr_Name{Name: g.fresh("x")}}
			case 1:
				v.Expr = &sysl.Expr{Expr: &sysl.Expr_Literal{Literal: &sysl.Value{Value: &sysl.Value_I{I: int64(g.r.Intn(9))}}}}
			}
			app.Views[g.fresh("View")] = v
		}
		key := parts[0]
		for _, p := range parts[1:] {
			key += " :: " + p
		}
		m.Apps[key] = app
	}
	return m
}
