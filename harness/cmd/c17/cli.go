package main

import (
	"bytes"
	"context"
	"fmt"
	"os"
	"os/exec"
	"path/filepath"
	"reflect"
	"regexp"
	"sort"
	"strings"
	"time"

	"github.com/anz-bank/sysl/pkg/arrai/relmod"
	"github.com/arr-ai/arrai/pkg/arraictx"
	"github.com/arr-ai/arrai/syntax"

	"verifharness/common"
)

// ---- the command itself: `sysl transform --script '\input (output: input.models(0).rel)' m.sysl` through the REAL BINARY
// ($VERIF_SYSL_BIN), in a temporary directory outside any git repository. cmd_transform.go loads the modules, calls
// transform.BuildTransformInput, evaluates the script and pretty-prints the `output` member; the harness parses that
// text with arr.ai's own reader and reads the value back into a relmod.Schema as for the in-process route. Source
// contexts name the file as the command was given it, so the Src relations are compared by size only.

const cliScript = `\input (output: input.models(0).rel)`

type cliOutcome struct {
	kind   string // ok | exit (non-zero status, no panic) | panic | timeout | decode
	status int
	msg    string
	s      *relmod.Schema
}

func runCli(bin, text string) (o cliOutcome) {
	dir, err := os.MkdirTemp("", "c17cli")
	if err != nil {
		return cliOutcome{kind: "decode", msg: err.Error()}
	}
	defer os.RemoveAll(dir)
	if err := os.WriteFile(filepath.Join(dir, "m.sysl"), []byte(text), 0o644); err != nil {
		return cliOutcome{kind: "decode", msg: err.Error()}
	}
	ctx, cancel := context.WithTimeout(context.Background(), 120*time.Second)
	defer cancel()
	cmd := exec.CommandContext(ctx, bin, "transform", "--script", cliScript, "m.sysl")
	cmd.Dir = dir
	var stdout, stderr bytes.Buffer
	cmd.Stdout, cmd.Stderr = &stdout, &stderr
	rerr := cmd.Run()
	if ctx.Err() != nil {
		return cliOutcome{kind: "timeout"}
	}
	all := stdout.String() + stderr.String()
	if strings.Contains(all, "panic: ") || strings.Contains(all, "goroutine ") {
		return cliOutcome{kind: "panic", msg: firstLine(all[strings.Index(all, "panic"):])}
	}
	if rerr != nil {
		st := -1
		if ee, ok := rerr.(*exec.ExitError); ok {
			st = ee.ExitCode()
		}
		return cliOutcome{kind: "exit", status: st, msg: firstLine(stderr.String())}
	}
	defer func() {
		if r := recover(); r != nil {
			o = cliOutcome{kind: "decode", msg: fmt.Sprint("reading the printed value: ", r)}
		}
	}()
	v, err := syntax.EvaluateExpr(arraictx.InitRunCtx(context.Background()), ".", stdout.String())
	if err != nil {
		return cliOutcome{kind: "decode", msg: "the printed output is not an arr.ai value: " + firstLine(err.Error())}
	}
	s := &relmod.Schema{}
	if err := decodeInto(v, reflect.ValueOf(s).Elem(), "rel", ""); err != nil {
		return cliOutcome{kind: "decode", msg: err.Error()}
	}
	return cliOutcome{kind: "ok", s: s}
}

// arr.ai prints a tuple member whose name is not an identifier (a payload attribute named `9`) without quotes and cannot
// read that back: such a specification cannot take the print-and-read route (the in-process route covers it)
func printReadable(s *relmod.Schema) bool {
	if s == nil {
		return true
	}
	for _, r := range s.Stmt {
		for k := range r.StmtRet.Attr.Nvp {
			if !identRE.MatchString(k) {
				return false
			}
		}
	}
	return true
}

var identRE = regexp.MustCompile(`^[A-Za-z_][A-Za-z0-9_]*$`)

func judgeCli(c *common.Ctx, cr *caseResult, o cliOutcome) {
	if o.kind == "decode" && !printReadable(cr.o1.s) {
		c.Hist("cli:print-not-rereadable")
		return
	}
	c.Hist("cli:" + o.kind)
	switch o.kind {
	case "panic":
		c.Fail("transform:cli:crash", "`sysl transform` panics on a generated specification: "+o.msg, cr.rp)
		return
	case "timeout":
		c.Fail("transform:cli:timeout", "`sysl transform` with the identity script did not finish in 120 s on a generated specification", cr.rp)
		return
	case "decode":
		c.Fail("transform:cli:shape", "`sysl transform`: what the command prints for `input.models(0).rel` is not the relational schema: "+o.msg, cr.rp)
		return
	case "exit":
		if cr.o1.kind == "ok" {
			c.Fail("transform:cli:refused", fmt.Sprintf("relmod.Normalize accepts the module, `sysl transform` ends with status %d: %s", o.status, o.msg), cr.rp)
		}
		return
	}
	if cr.o1.kind != "ok" {
		c.Fail("transform:cli:accepted", fmt.Sprintf("relmod.Normalize answers %s (%s), `sysl transform` printed a model", cr.o1.kind, cr.o1.msg), cr.rp)
		return
	}
	a, b := obsStrings(cr.o1.s), obsStrings(o.s)
	rels := map[string]bool{}
	for k := range a {
		rels[k] = true
	}
	for k := range b {
		rels[k] = true
	}
	var names []string
	for k := range rels {
		names = append(names, k)
	}
	sort.Strings(names)
	for _, k := range names {
		sa, sb := asSet(a[k]), asSet(b[k])
		if strings.HasPrefix(k, "Src.") || k == "Import" {
			if len(sa) != len(sb) {
				c.Fail("transform:cli:rows:"+k, fmt.Sprintf("`sysl transform`: relation %s has %d rows, relmod.Normalize on the same text %d", k, len(sb), len(sa)), cr.rp)
				return
			}
			continue
		}
		missing, extra := diffRows(sa, sb)
		if len(missing) > 0 || len(extra) > 0 {
			c.Fail("transform:cli:rows:"+k, fmt.Sprintf("`sysl transform`: relation %s as printed differs from relmod.Normalize on the same text: not printed %s; only printed %s", k, short(missing), short(extra)), cr.rp)
			return
		}
	}
}
