package main

import (
	"fmt"
	"sort"
	"strings"
	"sync"
	"time"

	"github.com/anz-bank/sysl/pkg/arrai/relmod"
	"github.com/anz-bank/sysl/pkg/sysl"

	"verifharness/common"
)

// ---- return payloads: built from their meaning, so that what relmod must extract is known by construction ----
// (independent of the grammar in relmod.go and of the Coq transliteration of it)

type nv struct {
	key string
	val interface{} // string | []interface{} (nested)
}

type payMeaning struct {
	status string   // "" = none written (the row must say "ok")
	typ    *rty     // nil = none
	mods   []string // as written
	nvps   []nv     // distinct keys
}

type rty struct {
	kind string // prim | ref | set | seq
	name string
	app  []string
	elem *rty
}

// the primitives of the payload grammar; the second group is shadowed when PRIMITIVE is an ordered choice in
// declaration order ("int" is tried before "int64")
var plainPrims = []string{"int", "float", "decimal", "bool", "bytes", "string", "date", "any"}
var shadowedPrims = []string{"int32", "int64", "float32", "float64", "datetime"}

// type names that begin with the name of a primitive
var primPrefixedNames = []string{"integer", "stringList", "anyOf", "dateRange", "booleans", "int6", "datetimes"}

func (t *rty) text() string {
	switch t.kind {
	case "prim":
		return t.name
	case "ref":
		if len(t.app) > 0 {
			return strings.Join(t.app, " :: ") + "." + t.name
		}
		return t.name
	case "set":
		return "set of " + t.elem.text()
	}
	return "sequence of " + t.elem.text()
}

// render with "@" for the statement's own application
func (t *rty) render() string {
	switch t.kind {
	case "prim":
		return "prim(" + t.name + ")"
	case "ref":
		if len(t.app) > 0 {
			return "ref(" + jn(t.app) + ";" + t.name + ")"
		}
		return "ref(@;" + t.name + ")"
	case "set":
		return "set(" + t.elem.render() + ")"
	}
	return "seq(" + t.elem.render() + ")"
}

func (t *rty) uses(names []string) bool {
	for t != nil {
		for _, n := range names {
			if (t.kind == "prim" || t.kind == "ref") && t.name == n {
				return true
			}
		}
		t = t.elem
	}
	return false
}

func renderNv(v interface{}) string {
	switch x := v.(type) {
	case nil:
		return ""
	case string:
		return x
	case []interface{}:
		it := make([]string, len(x))
		for i, e := range x {
			it[i] = renderNv(e)
		}
		return "[" + strings.Join(it, ";") + "]"
	case map[string]interface{}: // what arr.ai's export makes of an array
		if a, ok := x["a"]; ok && len(x) == 1 {
			return renderNv(a)
		}
	}
	return fmt.Sprintf("?%T", v)
}

func nvText(v interface{}, r *common.Rng) string {
	switch x := v.(type) {
	case string:
		if strings.Contains(x, "\"") || (!strings.Contains(x, "'") && r.Chance(1, 4)) {
			return "'" + x + "'"
		}
		return "\"" + x + "\""
	case []interface{}:
		it := make([]string, len(x))
		for i, e := range x {
			it[i] = nvText(e, r)
		}
		return "[" + strings.Join(it, ", ") + "]"
	}
	return "\"\""
}

func (m payMeaning) text(r *common.Rng) string {
	var b strings.Builder
	sub := " <: "
	switch r.Intn(8) {
	case 0:
		sub = "<:"
	case 1:
		sub = "  <:\t"
	}
	switch {
	case m.status != "" && m.typ != nil:
		b.WriteString(m.status + sub + m.typ.text())
	case m.status != "":
		b.WriteString(m.status)
	default:
		b.WriteString(m.typ.text())
	}
	if len(m.mods)+len(m.nvps) > 0 {
		var items []string
		for _, x := range m.mods {
			items = append(items, "~"+x)
		}
		for _, x := range m.nvps {
			eq := "="
			if r.Chance(1, 6) {
				eq = " = "
			}
			items = append(items, x.key+eq+nvText(x.val, r))
		}
		for i := len(items) - 1; i > 0; i-- {
			j := r.Intn(i + 1)
			items[i], items[j] = items[j], items[i]
		}
		sep := ", "
		if r.Chance(1, 6) {
			sep = ","
		}
		b.WriteString(" [" + strings.Join(items, sep) + "]")
	}
	return b.String()
}

// what the row must carry: status / type / modifiers as a set / name-value pairs
func (m payMeaning) detail(app []string) string {
	st := m.status
	if st == "" {
		st = "ok"
	}
	ty := ""
	if m.typ != nil {
		ty = strings.ReplaceAll(m.typ.render(), "@", jn(app))
	}
	set := map[string]bool{}
	for _, x := range m.mods {
		set[x] = true
	}
	var mods []string
	for x := range set {
		mods = append(mods, x)
	}
	sort.Strings(mods)
	var nvs []string
	for _, x := range m.nvps {
		nvs = append(nvs, x.key+"="+renderNv(x.val))
	}
	sort.Strings(nvs)
	return "ret:" + st + "/" + ty + "/" + jn(mods) + "/" + jn(nvs)
}

var valueChars = []string{"v", "a b", "x$y", "p[q]", "a,b", "=", "~t", "ü", "1", "ok <: T", "#c", "a:b", "it's", "say \"hi\""}

func genNvVal(r *common.Rng, depth int) interface{} {
	if depth < 2 && r.Chance(1, 3) {
		n := 1 + r.Intn(3)
		l := make([]interface{}, n)
		for i := range l {
			l[i] = genNvVal(r, depth+1)
		}
		return l
	}
	v := valueChars[r.Intn(len(valueChars))]
	if strings.Contains(v, "\"") && strings.Contains(v, "'") {
		v = "v"
	}
	return v + fmt.Sprint(r.Intn(9))
}

func genType(r *common.Rng, depth int) *rty {
	if depth < 3 && r.Chance(1, 4) {
		k := "seq"
		if r.Bool() {
			k = "set"
		}
		return &rty{kind: k, elem: genType(r, depth+1)}
	}
	switch r.Intn(10) {
	case 0, 1:
		return &rty{kind: "prim", name: plainPrims[r.Intn(len(plainPrims))]}
	case 2, 3:
		return &rty{kind: "prim", name: shadowedPrims[r.Intn(len(shadowedPrims))]}
	case 4:
		return &rty{kind: "ref", name: primPrefixedNames[r.Intn(len(primPrefixedNames))]}
	case 5, 6:
		return &rty{kind: "ref", name: []string{"T0", "Resp", "Order_v2", "T-x", "Ünï"}[r.Intn(5)]}
	case 7:
		return &rty{kind: "ref", app: []string{"A0"}, name: "T0"}
	case 8:
		return &rty{kind: "ref", app: []string{"Ns", "A1"}, name: "T0"}
	}
	return &rty{kind: "ref", app: []string{"Ns", "Sub", "A2"}, name: "Resp"}
}

func genMeaning(r *common.Rng) payMeaning {
	var m payMeaning
	switch r.Intn(6) {
	case 0:
	case 1:
		m.status = "error"
	case 2:
		m.status = fmt.Sprint(100 + r.Intn(500))
	default:
		m.status = "ok"
	}
	if m.status == "" || r.Chance(3, 4) {
		m.typ = genType(r, 0)
	}
	if r.Chance(1, 2) {
		for i := r.Intn(4); i > 0; i-- {
			m.mods = append(m.mods, []string{"hdr", "body", "m1", "a+b", "x_9", "Z"}[r.Intn(6)])
		}
		seen := map[string]bool{}
		for i := r.Intn(3); i > 0; i-- {
			k := []string{"k", "name", "arr", "nest", "k2", "9"}[r.Intn(6)]
			if !seen[k] {
				seen[k] = true
				m.nvps = append(m.nvps, nv{k, genNvVal(r, 0)})
			}
		}
	}
	return m
}

// expectations registered for the oracle (payload text -> meaning)
var (
	expectedPayload = map[string]payMeaning{}
	expectedMu      sync.Mutex
)

func expectationOf(text string) (payMeaning, bool) {
	expectedMu.Lock()
	defer expectedMu.Unlock()
	m, ok := expectedPayload[text]
	return m, ok
}

func genPayloadText(r *common.Rng) (string, payMeaning) {
	for {
		m := genMeaning(r)
		t := m.text(r)
		if !inFragment(t) {
			continue
		}
		expectedMu.Lock()
		expectedPayload[t] = m
		expectedMu.Unlock()
		return t, m
	}
}

// texts nobody promises a meaning for: the reader must answer (rows or an error), never crash; the Coq model must
// predict which
var soupWords = []string{"ok", "error", "200", "599", "<:", " ", " ", "  ", "\t", "\n", "sequence of ", "set of ", "sequence of", "int", "int64",
	"string", "any", "datetime", "T0", "A", "B", "::", ".", "[", "]", "~", "=", ",", "\"v\"", "'w'", "\"\"", "-", "x y", "#", "foo", "k", "~m", "k=\"1\"",
	"k=\"2\"", "[~a, ~b]", "$", "(", ")", "<", ":", "?", "é", "0", "_"}

func genSoup(r *common.Rng) string {
	var b strings.Builder
	for i := 1 + r.Intn(7); i > 0; i-- {
		b.WriteString(soupWords[r.Intn(len(soupWords))])
	}
	return b.String()
}

func mutate(r *common.Rng, t string) string {
	bs := []byte(t)
	for n := 1 + r.Intn(2); n > 0 && len(bs) > 0; n-- {
		i := r.Intn(len(bs))
		switch r.Intn(3) {
		case 0:
			bs = append(bs[:i], bs[i+1:]...)
		case 1:
			w := soupWords[r.Intn(len(soupWords))]
			bs = append(bs[:i], append([]byte(w), bs[i:]...)...)
		case 2:
			w := soupWords[r.Intn(len(soupWords))]
			bs = append(bs[:i], append([]byte(w), bs[i+1:]...)...)
		}
	}
	return string(bs)
}

// fixed inputs of the payload stream: every listed primitive, the shapes behind the cut points, duplicates
var fixedPayloads = []string{
	"ok <: int64", "ok <: int32", "ok <: float32", "ok <: float64", "ok <: datetime", "ok <: integer", "ok <: anyOf", "ok <: int6", "int64",
	"ok <: sequence of ", "ok <: set of  ", "ok <: a::", "ok <: a:: .T", "ok <: A::B", "ok <: A.B.C", "ok <: A.", "<: T0", "ok <: T0[~x]", "ok <: T0 []",
	"ok <: sequence of foo bar [~x]", "foo bar [~x]", "ok <: - a", "ok <: a -", "ok <: T0 [k=\"1\", k=\"2\"]", "ok <: T0 [k=\"1\", k=\"1\"]",
	"ok <: T0 [k=[\"a\"], k=\"a\"]", "ok <: T0 [~b, ~a, ~b]", "ok <: T0 [k=[\"\", \"a\"]]", "ok <: T0 [k=\"\"]", "ok <: foo \n [~x]", "ok <: foo bar\nbaz",
	"ok <: T0 [k=v]", "ok <: T0 [~]", "2000", "okay", "600", "ok ok", "ok <: T0 [~x] [~y]", "ok<:", " ok ", " ", "ok <: T0 [h=\"a\", g=[[\"x\"], \"y\"], ~m, ~l]",
}

// ---- one payload through the real code: Normalize on a module holding exactly this return statement ----
var payApp = []string{"Ns", "P"}

func payModule(p string) *sysl.Module {
	return &sysl.Module{Apps: map[string]*sysl.Application{"Ns :: P": {Name: &sysl.AppName{Part: payApp},
		Endpoints: map[string]*sysl.Endpoint{"E": {Name: "E", Stmt: []*sysl.Statement{{Stmt: &sysl.Statement_Ret{Ret: &sysl.Return{Payload: p}}}}}}}}}
}

type payObs struct {
	kind string // ok | err | panic
	site string
	msg  string
	ret  relmod.StatementReturn
}

func observePayload(p string) payObs {
	o := normalize(payModule(p))
	po := payObs{kind: o.kind, site: o.site, msg: o.msg}
	if o.kind == "ok" && len(o.s.Stmt) == 1 {
		po.ret = o.s.Stmt[0].StmtRet
	}
	return po
}

func payCaseTerm(p string, o payObs) (term string, ok bool) {
	defer func() {
		if r := recover(); r != nil {
			if _, is := r.(unprojectable); is {
				term, ok = "", false
				return
			}
			panic(r)
		}
	}()
	obs := "PObsErr"
	switch o.kind {
	case "panic":
		obs = "PObsCrash"
	case "ok":
		obs = "(PObsOk " + retTerm(o.ret) + ")"
	}
	return fmt.Sprintf("(%s, %s, %s)", gstrs(payApp), common.GBytes(p), obs), true
}

// ---- the same payloads in other processes: the order of the modifiers must not depend on the process ----
type modsReq struct {
	Payloads []string `json:"payloads"`
}
type modsReply struct {
	Mods [][]string `json:"mods"`
}

func modsOf(payloads []string) [][]string {
	out := make([][]string, len(payloads))
	for i, p := range payloads {
		o := observePayload(p)
		if o.kind == "ok" {
			out[i] = o.ret.Attr.Modifier
		}
	}
	return out
}

var orderProbes = []string{
	"ok <: T0 [~h, ~g, ~f, ~e, ~d, ~c, ~b, ~a]",
	"ok [~zeta, ~alpha, ~mid, ~beta, ~omega, ~pi]",
	"200 <: sequence of A.T [~m1, ~m2, ~m3, ~m4, ~m5, k=\"v\"]",
}

func crossProcessModifiers(c *common.Ctx) {
	here := modsOf(orderProbes)
	for w := 0; w < 2; w++ {
		wk := common.NewWorker()
		var rep modsReply
		died, timedOut, se := wk.Call(modsReq{Payloads: orderProbes}, &rep, 120*time.Second)
		wk.Close()
		if died || timedOut || len(rep.Mods) != len(orderProbes) {
			c.Res.Notes = append(c.Res.Notes, "cross-process modifier probe: worker did not answer: "+se)
			continue
		}
		c.Count(fmt.Sprint("order-probe-process-", w), true)
		for i, p := range orderProbes {
			c.Hist("payload:cross-process-order-probe")
			if strings.Join(here[i], ",") != strings.Join(rep.Mods[i], ",") {
				c.Fail("nondeterministic:modifier-order", fmt.Sprintf("the modifiers of `return %s` come out as %q in one process and as %q in another: "+
					"StmtRet.Attr.Modifier is a slice (an arr.ai array for the scripts), so the relational model differs from run to run", p, here[i], rep.Mods[i]),
					replay{Kind: "payload", Text: p})
				return
			}
		}
	}
}
