package main

import (
	"fmt"
	"strings"

	"verifharness/common"
)

// ---- generator of Sysl specifications (text, compiled by the real parser) ----

// forms the grammar refuses today (Normalize returns an error: allowed by the property)
var badPayloads = []string{"200 ok", "200, 500", "500 < Err", "ok <: sequence of ", "ok <: a::"}

type genOpts struct {
	maxDepth   int
	deepChain  bool // one endpoint with nesting depth >= 5 and >= 2 siblings on every level
	badPayload bool
}

type gen struct {
	r    *common.Rng
	b    strings.Builder
	opts genOpts
	uid  int
	// statistics
	depthMax int
	nForeach int
	nStmts   int
	nAlt     int
	bad      bool
	shadowed bool // a payload names a primitive that an ordered choice in declaration order never reaches
	prefixed bool // a payload names a type that begins with the name of a primitive
}

func (g *gen) line(ind int, s string) { g.b.WriteString(strings.Repeat("    ", ind) + s + "\n") }
func (g *gen) fresh(p string) string  { g.uid++; return fmt.Sprintf("%s%d", p, g.uid) }

var appNames = []string{"A0", "Ns :: A1", "Ns :: Sub :: A2", "A3", "B :: A4"}

func (g *gen) attrList(allowNested bool) string {
	var items []string
	n := g.r.Intn(4)
	for i := 0; i < n; i++ {
		switch g.r.Intn(5) {
		case 0, 1:
			items = append(items, "~"+g.fresh("tg"))
		case 2:
			items = append(items, fmt.Sprintf("%s=\"v%d\"", g.fresh("k"), g.r.Intn(9)))
		case 3:
			items = append(items, fmt.Sprintf("%s=[\"x\", \"y%d\"]", g.fresh("arr"), g.r.Intn(9)))
		case 4:
			if allowNested {
				items = append(items, fmt.Sprintf("%s=[[\"p\", \"q\"], [\"r%d\"]]", g.fresh("nest"), g.r.Intn(9)))
			} else {
				items = append(items, "~"+g.fresh("tg"))
			}
		}
	}
	if len(items) == 0 {
		return ""
	}
	return " [" + strings.Join(items, ", ") + "]"
}

var fieldTypes = []string{"int", "string", "string(5)", "string(2..10)", "decimal(10.2)", "bool", "date", "int?", "string(3..)?",
	"T0", "A0.T0", "sequence of string", "set of T0", "sequence of A0.T0", "set of int?", "datetime", "float", "uuid", "bytes",
	// machine types (a bit-width constraint, for the integers with a range) and the remaining size forms
	"int32", "int64", "float32", "float64", "int32?", "sequence of int64", "int(5)", "bytes(16)", "string(8..)", "decimal(5)", "date?", "any"}

func (g *gen) types(ai int) {
	// every app has T0 so that references resolve
	g.line(1, "!type T0"+g.attrList(true)+":")
	g.line(2, "id <: int"+g.attrList(true))
	nf := g.r.Intn(4)
	for i := 0; i < nf; i++ {
		g.line(2, fmt.Sprintf("f%d <: %s%s", i, fieldTypes[g.r.Intn(len(fieldTypes))], g.attrList(false)))
	}
	if g.r.Chance(2, 3) {
		g.line(1, "!table Tb"+g.attrList(false)+":")
		g.line(2, "pk1 <: int [~pk]")
		if g.r.Bool() {
			g.line(2, "pk2 <: string(8) [~pk, ~idx]")
		}
		g.line(2, "ref <: T0")
		if g.r.Bool() {
			g.line(2, "amt <: decimal(12.3)?")
		}
	}
	if g.r.Chance(1, 2) {
		g.line(1, "!enum En"+g.attrList(false)+":")
		for i := 0; i < 1+g.r.Intn(4); i++ {
			g.line(2, fmt.Sprintf("V%d: %d", i, i*7+g.r.Intn(5)*100000))
		}
	}
	if g.r.Chance(1, 2) {
		g.line(1, "!alias Al"+g.attrList(false)+":")
		g.line(2, []string{"int", "sequence of T0", "set of A0.T0", "T0", "A0.T0", "string"}[g.r.Intn(6)])
	}
	if g.r.Chance(1, 3) {
		g.line(1, "!union Un"+g.attrList(false)+":")
		g.line(2, "T0")
		g.line(2, "string")
		if g.r.Bool() {
			g.line(2, "int64")
		}
	}
	// views: parameters, a declared or an inferred return type, an expression
	if g.r.Chance(1, 2) {
		ret := []string{" -> T0", " -> sequence of T0", " -> A0.T0", "", ""}[g.r.Intn(5)]
		g.line(1, fmt.Sprintf("!view vw%d(p <: T0, n <: %s)%s%s:", ai, []string{"int", "string?", "int64"}[g.r.Intn(3)], ret, g.attrList(false)))
		if ret == "" && g.r.Bool() {
			g.line(2, "p -> (:") // no declared and no inferred return type: the compiled view has none
		} else {
			g.line(2, "p -> <T0>(:")
		}
		g.line(3, fmt.Sprintf("id = p.id + %d", g.r.Intn(9)))
		g.line(2, ")")
		if g.r.Bool() {
			g.line(1, fmt.Sprintf("!view abs%d(a <: int) -> %s [~abstract]", ai, []string{"int", "string", "set of T0"}[g.r.Intn(3)]))
		}
	}
}

func (g *gen) payload() string {
	if g.opts.badPayload && g.r.Chance(1, 6) {
		g.bad = true
		return badPayloads[g.r.Intn(len(badPayloads))]
	}
	t, m := genPayloadText(g.r)
	if m.typ.uses(shadowedPrims) {
		g.shadowed = true
	}
	if m.typ.uses(primPrefixedNames) {
		g.prefixed = true
	}
	return t
}

var blockHeads = []string{"if c%d:", "for each x%d in xs:", "loop l%d:", "while w%d:", "until u%d:", "for f%d:", "alt a%d:", "grp%d:"}

func (g *gen) leaf(ind int, eps []string) {
	g.nStmts++
	switch g.r.Intn(10) {
	case 0, 1, 2:
		g.line(ind, g.fresh("act")+g.attrList(true))
	case 3, 4:
		g.line(ind, ". <- "+eps[g.r.Intn(len(eps))]+g.attrList(false))
	case 5:
		g.line(ind, "A0 <- E0"+g.attrList(false))
	case 6, 7:
		g.line(ind, "return "+g.payload())
	case 8:
		g.line(ind, "...")
	case 9:
		g.line(ind, "\"quoted "+g.fresh("s")+"\"")
	}
}

func (g *gen) stmts(ind, depth int, eps []string, minSib int) {
	if depth > g.depthMax {
		g.depthMax = depth
	}
	n := minSib + g.r.Intn(3)
	if n == 0 {
		n = 1
	}
	for i := 0; i < n; i++ {
		if depth < g.opts.maxDepth && g.r.Chance(2, 5) {
			g.block(ind, depth, eps, 0)
		} else {
			g.leaf(ind, eps)
		}
	}
}

func (g *gen) block(ind, depth int, eps []string, minSib int) {
	g.nStmts++
	k := g.r.Intn(len(blockHeads) + 2)
	switch {
	case k < len(blockHeads):
		if k == 1 {
			g.nForeach++
		}
		g.line(ind, fmt.Sprintf(blockHeads[k], g.uid))
		g.uid++
		g.stmts(ind+1, depth+1, eps, minSib)
		if k == 0 && g.r.Bool() {
			if g.r.Bool() {
				g.line(ind, fmt.Sprintf("else if d%d:", g.uid))
				g.uid++
				g.stmts(ind+1, depth+1, eps, minSib)
			}
			g.line(ind, "else:")
			g.stmts(ind+1, depth+1, eps, minSib)
		}
	default:
		g.nAlt++
		g.line(ind, "one of:")
		nc := 1 + g.r.Intn(3)
		for c := 0; c < nc; c++ {
			g.line(ind+1, fmt.Sprintf("case%d:", g.uid))
			g.uid++
			g.stmts(ind+2, depth+2, eps, minSib)
		}
	}
}

// deep chain: depth levels, on every level a leaf before and after the nested block (>= 2 siblings per level)
func (g *gen) chain(ind, depth, levels int, eps []string) {
	if depth > g.depthMax {
		g.depthMax = depth
	}
	if levels == 0 {
		g.leaf(ind, eps)
		g.leaf(ind, eps)
		return
	}
	if g.r.Bool() {
		g.leaf(ind, eps)
	}
	k := g.r.Intn(len(blockHeads) + 1)
	g.nStmts++
	if k < len(blockHeads) {
		if k == 1 {
			g.nForeach++
		}
		g.line(ind, fmt.Sprintf(blockHeads[k], g.uid))
		g.uid++
		g.chain(ind+1, depth+1, levels-1, eps)
	} else {
		g.nAlt++
		g.line(ind, "one of:")
		g.line(ind+1, fmt.Sprintf("case%d:", g.uid))
		g.uid++
		g.chain(ind+2, depth+2, levels-1, eps)
		g.line(ind+1, fmt.Sprintf("case%d:", g.uid))
		g.uid++
		g.leaf(ind+2, eps)
		g.leaf(ind+2, eps)
	}
	g.leaf(ind, eps)
	if g.r.Bool() {
		g.leaf(ind, eps)
	}
}

var paramTypes = []string{"int", "string", "T0", "A0.T0", "sequence of string", "string?", "set of T0"}

func (g *gen) params() string {
	n := g.r.Intn(4)
	if n == 0 {
		return ""
	}
	var ps []string
	for i := 0; i < n; i++ {
		p := fmt.Sprintf("p%d <: %s", i, paramTypes[g.r.Intn(len(paramTypes))])
		switch g.r.Intn(5) {
		case 0:
			p += " [~body]"
		case 1:
			p += " [~header, name=\"X-H\"]"
		}
		ps = append(ps, p)
	}
	return " (" + strings.Join(ps, ", ") + ")"
}

func (g *gen) app(ai int, napps int) {
	hdr := appNames[ai]
	if g.r.Chance(1, 3) {
		hdr += fmt.Sprintf(" \"Long %d\"", ai)
	}
	g.line(0, hdr+g.attrList(true)+":")
	if g.r.Chance(1, 2) {
		g.line(1, fmt.Sprintf("@doc%d = \"some text\"", ai))
	}
	if g.r.Chance(1, 3) {
		g.line(1, fmt.Sprintf("@list%d = [\"a\", \"b\", \"c\"]", ai))
	}
	g.types(ai)
	neps := 1 + g.r.Intn(3)
	eps := []string{}
	for i := 0; i < neps; i++ {
		eps = append(eps, fmt.Sprintf("E%d", i))
	}
	for i := 0; i < neps; i++ {
		g.line(1, eps[i]+g.params()+g.attrList(false)+":")
		if g.r.Chance(1, 3) {
			g.line(2, fmt.Sprintf("@epdoc = \"d%d\"", i))
		}
		if g.opts.deepChain && ai == 0 && i == 0 {
			g.chain(2, 1, 5+g.r.Intn(5), eps)
		} else {
			g.stmts(2, 1, eps, 1)
		}
	}
	if g.r.Chance(1, 2) {
		g.line(1, fmt.Sprintf("/res%d/{id <: int}%s:", ai, g.attrList(false)))
		g.line(2, "GET ?q=string&lim=int?:")
		g.stmts(3, 1, eps, 1)
		if g.r.Bool() {
			g.line(2, "POST (body <: T0 [~body]):")
			g.stmts(3, 1, eps, 1)
		}
		if g.r.Bool() {
			g.line(2, "/sub:")
			g.line(3, "PATCH:")
			g.stmts(4, 1, eps, 1)
		}
	}
	if g.r.Chance(1, 2) {
		g.line(1, fmt.Sprintf("<-> Ev%d%s%s:", ai, g.params(), g.attrList(false)))
		g.line(2, "...")
	}
	if ai > 0 && g.r.Chance(1, 3) {
		g.line(1, "Pub -> Ev0"+g.attrList(false)+":")
		g.stmts(2, 1, eps, 1)
	}
	if ai > 0 && g.r.Chance(1, 3) {
		g.line(1, "-|> Mx")
	}
	g.line(0, "")
}

func genSpec(r *common.Rng, opts genOpts) (*gen, string) {
	g := &gen{r: r, opts: opts}
	napps := 2 + r.Intn(3)
	g.line(0, "Mx [~abstract, mk=\"mv\"]:")
	g.line(1, "!type MT:")
	g.line(2, "x <: int")
	g.line(0, "")
	// A0 always has Ev0 so that subscriptions resolve
	for ai := 0; ai < napps; ai++ {
		g.app(ai, napps)
		if ai == 0 {
			// make sure the event exists
		}
	}
	g.line(0, "Pub:")
	g.line(1, "<-> Ev0: ...")
	return g, g.b.String()
}
