// C17 correspondence + oracle: relmod.Normalize on modules compiled by the real parser (corpus files and
// generated specifications), judged by an independent census of the *sysl.Module, and printed as Gallina
// cases for the Coq model (Verif.Relmod).
package main

import (
	"context"
	"encoding/json"
	"fmt"
	"os"
	"path/filepath"
	"regexp"
	"runtime/debug"
	"sort"
	"strings"
	"sync"
	"time"
	"unicode/utf8"

	"github.com/anz-bank/sysl/pkg/arrai/relmod"
	"github.com/anz-bank/sysl/pkg/parse"
	"github.com/anz-bank/sysl/pkg/sysl"
	"github.com/sirupsen/logrus"
	"github.com/spf13/afero"

	"verifharness/common"
)

type replay struct {
	Kind  string `json:"kind"` // corpus | gen | direct | payload (Text = one return payload, normalized alone)
	Seed  uint64 `json:"seed,omitempty"` // direct: the module is genDirect(seed)
	File  string `json:"file,omitempty"`
	Text  string `json:"text,omitempty"`
	Strip string `json:"strip,omitempty"` // "", "all", "ep": source contexts removed after compiling (as in a model loaded from .pb/.json)
}

type outcome struct {
	kind string // ok | err | panic
	s    *relmod.Schema
	msg  string
	site string
}

var ansiRE = regexp.MustCompile("\x1b\\[[0-9;]*m")
var digitNameRE = regexp.MustCompile(`[\[,]\s*[0-9]\w*\s*=`)

func normalize(m *sysl.Module) (o outcome) {
	defer func() {
		if r := recover(); r != nil {
			site := "unknown"
			for _, l := range strings.Split(string(debug.Stack()), "\n") {
				if i := strings.Index(l, "pkg/arrai/relmod."); i >= 0 && !strings.Contains(l, "Normalize(") {
					site = strings.SplitN(l[i+len("pkg/arrai/relmod."):], "(", 2)[0]
					break
				}
			}
			o = outcome{kind: "panic", msg: fmt.Sprint(r), site: site}
		}
	}()
	s, err := relmod.Normalize(context.Background(), m)
	if err != nil {
		msg := ansiRE.ReplaceAllString(err.Error(), "")
		if len(msg) > 160 {
			msg = msg[:160]
		}
		return outcome{kind: "err", msg: strings.ReplaceAll(msg, "\n", " ")}
	}
	return outcome{kind: "ok", s: s}
}

func compile(rp replay, repo string) (*sysl.Module, error) {
	var m *sysl.Module
	var err error
	func() {
		defer func() {
			if r := recover(); r != nil {
				err = fmt.Errorf("parser panic: %v", r)
			}
		}()
		if rp.Kind == "corpus" {
			m, err = parse.NewParser().ParseFromFs(filepath.Join(repo, rp.File), afero.NewOsFs())
		} else if rp.Kind == "direct" {
			m = genDirect(rp.Seed)
		} else {
			m, err = parse.NewParser().ParseString(rp.Text)
		}
	}()
	if err != nil {
		return nil, err
	}
	if rp.Strip != "" {
		stripSrc(m, rp.Strip == "all")
	}
	return m, nil
}

// stripSrc removes source contexts the way a model re-loaded from a compiled file lacks them
func stripSrc(m *sysl.Module, all bool) {
	var st func(ss []*sysl.Statement)
	st = func(ss []*sysl.Statement) {
		for _, s := range ss {
			s.SourceContexts, s.SourceContext = nil, nil
			for _, a := range s.Attrs {
				a.SourceContexts, a.SourceContext = nil, nil
			}
			st(stmtChildren(s))
			if alt := s.GetAlt(); alt != nil {
				for _, c := range alt.Choice {
					st(c.Stmt)
				}
			}
		}
	}
	for _, app := range m.Apps {
		for _, ep := range app.Endpoints {
			ep.SourceContexts, ep.SourceContext = nil, nil
			if all {
				st(ep.Stmt)
			}
		}
		if all {
			app.SourceContexts, app.SourceContext = nil, nil
			for _, a := range app.Attrs {
				a.SourceContexts, a.SourceContext = nil, nil
			}
			for _, t := range app.Types {
				t.SourceContexts, t.SourceContext = nil, nil
			}
		}
	}
}

func stmtChildren(s *sysl.Statement) []*sysl.Statement {
	switch {
	case s.GetCond() != nil:
		return s.GetCond().Stmt
	case s.GetLoop() != nil:
		return s.GetLoop().Stmt
	case s.GetLoopN() != nil:
		return s.GetLoopN().Stmt
	case s.GetForeach() != nil:
		return s.GetForeach().Stmt
	case s.GetGroup() != nil:
		return s.GetGroup().Stmt
	}
	return nil
}

type caseResult struct {
	rp      replay
	m       *sysl.Module
	perr    error
	o1, o2  outcome
	genInfo *gen
	wantTr  bool
	wantCli bool
	cli     *cliOutcome // the same specification through the real `sysl transform` binary (a few of the generated ones)
	tr      *trOutcome // the relational model as the identity transform script sees it (a subset of the cases)
}

func main() {
	logrus.SetLevel(logrus.PanicLevel)
	if common.IsWorker() { // another process: the modifiers of a few payloads, in the order this process hands them over
		common.ServeWorker(func(line []byte) interface{} {
			var rq modsReq
			json.Unmarshal(line, &rq)
			return modsReply{Mods: modsOf(rq.Payloads)}
		})
		return
	}
	c := common.Setup("C17")
	defer c.Finish()
	repo := os.Getenv("VERIF_REPO")
	if repo == "" {
		repo = "/repo"
	}
	c.Res.Rule = "each case = one module compiled by the real parser (a corpus .sysl file, or a generated specification with namespaced apps, " +
		"attributes incl. nested arrays, types/tables/enums/aliases/unions, simple/REST/event/subscriber endpoints and statement forests; " +
		"every third generated case has a chain of depth 5-9 with >= 2 siblings per level; some have their source contexts stripped as in a " +
		"re-loaded compiled model; or a module built directly as protobuf from a seed, with the well-formed shapes the parser does not " +
		"produce: numbered loops, empty alt / action / payload, untyped parameters, several constraints, list / map / one-of types, " +
		"attributes on every statement kind, one spine of depth 5-8 with >= 2 siblings per level, numeric / nested / empty annotation values, " +
		"source contexts on elements and annotations); relmod.Normalize runs twice on it; distinct = distinct source text; non-trivial = the module has at least " +
		"one statement nested under a block statement. Payload stream: one return payload normalized alone - fixed shapes (every listed primitive, cut points, " +
		"duplicate names), payloads written from a meaning (status, type, modifiers, name-value pairs: what the row must carry is known by construction), " +
		"mutations of those and word soup; non-trivial = the payload has a type or attributes"

	if c.Replay != "" {
		var rp replay
		if err := common.LoadReplay(c.Replay, &rp); err != nil {
			fmt.Fprintln(os.Stderr, err)
			os.Exit(3)
		}
		if rp.Kind == "payload" {
			o := observePayload(rp.Text)
			judgePayload(c, rp.Text, nil, o)
			crossProcessModifiers(c)
			c.Count(rp.Text, true)
			fmt.Printf("replay kind=payload text=%q outcome=%s %s failures=%d\n", rp.Text, o.kind, o.msg, len(c.Res.Failures))
			for _, f := range c.Res.Failures {
				fmt.Println("  ", f.Key, f.What)
			}
			return
		}
		m, err := compile(rp, repo)
		if err != nil {
			fmt.Println("replay input does not compile:", err)
			return
		}
		cr := &caseResult{rp: rp, m: m, o1: normalize(m), o2: normalize(m)}
		if cr.o1.kind != "panic" {
			tr := runTransform(m)
			cr.tr = &tr
		}
		judge(c, cr)
		if cr.tr != nil {
			judgeTransform(c, cr)
		}
		if bin := os.Getenv("VERIF_SYSL_BIN"); bin != "" && rp.Kind == "gen" && rp.Strip == "" {
			judgeCli(c, cr, runCli(bin, rp.Text))
		}
		c.Count(rp.File+rp.Text, true)
		fmt.Printf("replay kind=%s file=%s outcome=%s %s failures=%d\n", rp.Kind, rp.File, cr.o1.kind, cr.o1.msg, len(c.Res.Failures))
		for _, f := range c.Res.Failures {
			fmt.Println("  ", f.Key, f.What)
		}
		return
	}

	// ---- inputs
	var inputs []*caseResult
	var files []string
	filepath.Walk(repo, func(p string, info os.FileInfo, err error) error {
		if err == nil && strings.HasSuffix(p, ".sysl") && info.Size() < 40000 && !strings.Contains(p, "/node_modules/") {
			rel, _ := filepath.Rel(repo, p)
			files = append(files, rel)
		}
		return nil
	})
	sort.Strings(files)
	for i := len(files) - 1; i > 0; i-- { // seeded shuffle
		j := c.Rng.Intn(i + 1)
		files[i], files[j] = files[j], files[i]
	}
	nCorpus, nGen, nDirect := 50, 70, 100
	if c.Thorough() {
		nCorpus, nGen, nDirect = len(files), 800, 1500
	}
	if c.Search {
		nGen, nDirect = nGen*3, nDirect*3
	}
	if nCorpus > len(files) {
		nCorpus = len(files)
	}
	// always-first regression inputs: the probed defects
	inputs = append(inputs, &caseResult{rp: replay{Kind: "gen", Text: "A:\n    E:\n        if a:\n            if b:\n                if c:\n                    if d:\n                        x\n                    y1\n                    y2\n"}})
	inputs = append(inputs, &caseResult{rp: replay{Kind: "gen", Text: "A:\n    E:\n        if a:\n            if b:\n                one of:\n                    c1:\n                        x\n                    c2:\n                        y\n                    c3:\n                        z\n"}})
	inputs = append(inputs, &caseResult{rp: replay{Kind: "corpus", File: "pkg/parse/tests/import_proto_JSON.sysl"}})
	// two fixed specifications for the payload reader: listed primitives / names that begin with one; a name given twice
	inputs = append(inputs, &caseResult{rp: replay{Kind: "gen", Text: "A:\n    !type T0:\n        x <: int\n    E:\n        return ok <: int64\n        return 200 <: sequence of datetime [~hdr]\n        return ok <: integer\n"}})
	inputs = append(inputs, &caseResult{rp: replay{Kind: "gen", Text: "A:\n    !type T0:\n        x <: int\n    E:\n        return ok <: T0 [k=\"1\", k=\"2\"]\n"}})
	// a view without a return type (parseFieldType must not dereference the nil type); every machine type and size form, a
	// union, a view with parameters
	inputs = append(inputs, &caseResult{rp: replay{Kind: "gen", Text: "A:\n    !type T0:\n        id <: int\n    !view v1(p <: T0):\n        p -> (:\n            id = p.id\n        )\n"}})
	inputs = append(inputs, &caseResult{rp: replay{Kind: "gen", Text: "A:\n    !type T0:\n        id <: int\n        a <: int32\n        b <: int64?\n        c <: float32\n        d <: float64\n        e <: sequence of int64\n        f <: int(5)\n        g <: bytes(16)\n        h <: string(8..)\n        i <: decimal(5)\n        j <: decimal(10.2)\n        k <: string(2..10)\n    !union Un [~u]:\n        T0\n        string\n    !view vw(p <: T0, n <: int64) -> sequence of T0 [~t1]:\n        p -> <T0>(:\n            id = p.id + 3\n        )\n"}})
	for _, f := range files[:nCorpus] {
		inputs = append(inputs, &caseResult{rp: replay{Kind: "corpus", File: f}})
	}
	for i := 0; i < nGen; i++ {
		opts := genOpts{maxDepth: 2 + c.Rng.Intn(5), deepChain: i%3 == 0, badPayload: i%11 == 5}
		g, text := genSpec(c.Rng.Fork(), opts)
		rp := replay{Kind: "gen", Text: text}
		switch i % 9 {
		case 4:
			rp.Strip = "all"
		case 7:
			rp.Strip = "ep"
		}
		inputs = append(inputs, &caseResult{rp: rp, genInfo: g})
	}

	for i := 0; i < nDirect; i++ {
		inputs = append(inputs, &caseResult{rp: replay{Kind: "direct", Seed: c.Rng.Uint64() >> 1}})
	}

	// `sysl transform` (BuildTransformInput + the identity script) on every third input, on two of three in the thorough tier
	for i, cr := range inputs {
		cr.wantTr = (c.Thorough() && i%2 == 0) || i%3 == 0 || i < 7
	}
	syslBin := os.Getenv("VERIF_SYSL_BIN")
	nCli := 8
	if c.Thorough() {
		nCli = 40
	}
	if syslBin == "" {
		c.Res.Notes = append(c.Res.Notes, "VERIF_SYSL_BIN not set: the `sysl transform` command-line stream was skipped")
		nCli = 0
	}
	for _, cr := range inputs {
		// (a payload attribute whose name begins with a digit is printed by arr.ai in a form it cannot read back)
		if nCli > 0 && cr.rp.Kind == "gen" && cr.rp.Strip == "" && !digitNameRE.MatchString(cr.rp.Text) {
			cr.wantCli = true
			nCli--
		}
	}

	// ---- compile and normalize, a few inputs at a time (each parse.Parser is independent; the parser itself reads
	// imports concurrently)
	t0 := time.Now()
	var wg sync.WaitGroup
	sem := make(chan struct{}, 8)
	for _, cr := range inputs {
		wg.Add(1)
		go func(cr *caseResult) {
			defer wg.Done()
			sem <- struct{}{}
			defer func() { <-sem }()
			cr.m, cr.perr = compile(cr.rp, repo)
			if cr.m == nil {
				return
			}
			cr.o1 = normalize(cr.m)
			cr.o2 = normalize(cr.m)
			if cr.wantTr && cr.o1.kind != "panic" {
				tr := runTransform(cr.m)
				cr.tr = &tr
			}
			if cr.wantCli {
				o := runCli(syslBin, cr.rp.Text)
				cr.cli = &o
			}
		}(cr)
	}
	wg.Wait()
	fmt.Fprintf(os.Stderr, "c17: compile + normalize (x2) %.1fs\n", time.Since(t0).Seconds())
	t0 = time.Now()
	defer func() { fmt.Fprintf(os.Stderr, "c17: judge+project %.1fs\n", time.Since(t0).Seconds()) }()

	header := `From Coq Require Import List NArith ZArith PArith Bool. Import ListNotations.
Require Import Verif.Relmod.Model Verif.Relmod.Run Verif.Gen.RelmodShape Verif.Base.Harness.
Definition At := Build_attrs. Definition PT := Build_ptype. Definition Pa := Build_param. Definition Ep := Build_endpoint.
Definition Co := Build_constr. Definition Fi := Build_field. Definition Td := Build_typedecl. Definition Vi := Build_view.
Definition Ap := Build_app. Definition R := mk. Definition R2 := mk2. Definition RX := mkx. Definition T := true. Definition F := false.
Definition SL := SLeaf. Definition SB := SBlock. Definition SA := SAlt. Definition An := Build_anno. Definition Sc := Build_srcctx.`
	footer := `Definition M := Eval vm_compute in mismatches (c17_ok child_index_mode alt_index_mode payload_grammar) cases. Print M.`
	cs := c.NewCases("C17", header, "c17_case", footer, 12)
	trFooter := `Definition M := Eval vm_compute in mismatches (c17_tr_ok child_index_mode alt_index_mode payload_grammar) cases. Print M.`
	var trCases []*caseResult

	for _, cr := range inputs {
		src := cr.rp.Kind
		if cr.m == nil {
			c.Hist(src + ":does-not-compile")
			continue
		}
		st := moduleStats(cr.m)
		c.Count(cr.rp.File+cr.rp.Text+cr.rp.Strip+fmt.Sprint(cr.rp.Seed), st.nested > 0)
		if cr.rp.Kind == "corpus" && cr.o1.kind == "err" {
			c.Res.Notes = append(c.Res.Notes, "refused with an error (allowed by the property): "+cr.rp.File+": "+cr.o1.msg)
		}
		c.Hist(src + ":" + cr.o1.kind)
		if cr.rp.Strip != "" {
			c.Hist("stripped-source-contexts:" + cr.rp.Strip)
		}
		c.HistN("statements", st.stmts)
		c.HistN("statements-under-foreach", st.underForeach)
		c.HistN("alt-choices", st.choices)
		c.Hist(fmt.Sprintf("max-depth:%02d", st.depth))
		if cr.genInfo != nil && cr.genInfo.opts.deepChain {
			c.Hist("gen:deep-chain")
		}
		judge(c, cr)
		term, ok := project(cr)
		if !ok {
			c.Hist("not-projectable")
			continue
		}
		cs.Add(term, cr.rp)
		if cr.cli != nil {
			judgeCli(c, cr, *cr.cli)
		}
		if cr.tr != nil {
			judgeTransform(c, cr)
			c.Hist("transform:" + cr.tr.kind)
			if cr.tr.kind == "ok" || cr.tr.kind == "err" {
				trCases = append(trCases, cr)
			}
		}
		if cr.rp.Kind == "direct" && st.depth >= 5 && len(c.Res.Samples) < 2 {
			c.Sample(map[string]interface{}{"kind": "direct", "seed": cr.rp.Seed, "outcome": cr.o1.kind, "max_depth": st.depth, "statements": st.stmts})
		}
		if cr.rp.Kind == "gen" && st.depth >= 5 {
			t := cr.rp.Text
			if len(t) > 600 {
				t = t[:600] + "..."
			}
			c.Sample(map[string]interface{}{"kind": "gen", "outcome": cr.o1.kind, "max_depth": st.depth, "statements": st.stmts, "text": t})
		}
	}
	cs.Close()
	// the same modules against what the script saw: relation by relation as SETS of rows
	tcs := c.NewCases("C17tr", header, "c17_case", trFooter, 12)
	for _, cr := range trCases {
		if cr.tr.kind == "ok" && schemaSize(cr.tr.s) > 1500 {
			c.Hist("transform:too-large-for-coq")
			continue
		}
		o := outcome{kind: "err"}
		if cr.tr.kind == "ok" {
			o = outcome{kind: "ok", s: cr.tr.s}
		}
		if term, ok := project(&caseResult{rp: cr.rp, m: cr.m, o1: o}); ok {
			tcs.Add(term, cr.rp)
		}
	}
	tcs.Close()

	// ---- payload stream: one return payload, normalized alone
	nValid, nMut, nSoup := 170, 150, 150
	if c.Thorough() {
		nValid, nMut, nSoup = 2500, 2500, 2500
	}
	if c.Search {
		nValid, nMut, nSoup = nValid*3, nMut*3, nSoup*3
	}
	type payIn struct {
		text    string
		meaning *payMeaning
		kind    string
		obs     payObs
	}
	var pays []*payIn
	for _, p := range fixedPayloads {
		pays = append(pays, &payIn{text: p, kind: "fixed"})
	}
	var valid []string
	for i := 0; i < nValid; i++ {
		t, m := genPayloadText(c.Rng)
		mm := m
		pays = append(pays, &payIn{text: t, meaning: &mm, kind: "from-meaning"})
		valid = append(valid, t)
	}
	for i := 0; i < nMut; i++ {
		if t := mutate(c.Rng, valid[c.Rng.Intn(len(valid))]); payloadInScope(t) {
			pays = append(pays, &payIn{text: t, kind: "mutated"})
		}
	}
	for i := 0; i < nSoup; i++ {
		if t := genSoup(c.Rng); payloadInScope(t) {
			pays = append(pays, &payIn{text: t, kind: "soup"})
		}
	}
	t1 := time.Now()
	var wg2 sync.WaitGroup
	for _, pi := range pays {
		wg2.Add(1)
		go func(pi *payIn) {
			defer wg2.Done()
			sem <- struct{}{}
			defer func() { <-sem }()
			pi.obs = observePayload(pi.text)
		}(pi)
	}
	wg2.Wait()
	fmt.Fprintf(os.Stderr, "c17: %d payloads normalized alone %.1fs\n", len(pays), time.Since(t1).Seconds())
	pfooter := `Definition M := Eval vm_compute in mismatches (c17_pay_ok payload_grammar) cases. Print M.`
	pcs := c.NewCases("C17pay", header, "c17_pay_case", pfooter, 250)
	seenPay := map[string]bool{}
	for _, pi := range pays {
		if seenPay[pi.text] {
			continue
		}
		seenPay[pi.text] = true
		c.Count("payload:"+pi.text, strings.ContainsAny(pi.text, "<[") || pi.obs.ret.Type != nil)
		c.Hist("payload:" + pi.kind + ":" + pi.obs.kind)
		judgePayload(c, pi.text, pi.meaning, pi.obs)
		if term, ok := payCaseTerm(pi.text, pi.obs); ok {
			pcs.Add(term, replay{Kind: "payload", Text: pi.text})
		} else {
			c.Hist("payload:not-projectable")
		}
	}
	pcs.Close()
	crossProcessModifiers(c)
}

// the payload stream keeps to non-empty (an empty payload is not parsed at all), valid UTF-8 (a protobuf string is)
// texts of the modelled fragment
func payloadInScope(t string) bool { return t != "" && utf8.ValidString(t) && inFragment(t) }

// judgePayload: the property for one return payload - never a crash; a payload written from a meaning must be
// accepted and its row must carry exactly that meaning
func judgePayload(c *common.Ctx, text string, m *payMeaning, o payObs) {
	rp := replay{Kind: "payload", Text: text}
	if o.kind == "panic" {
		c.Fail("crash:"+o.site, fmt.Sprintf("relmod.Normalize panics in %s on `return %s`: %s", o.site, text, o.msg), rp)
		return
	}
	if m == nil {
		if mm, ok := expectationOf(text); ok {
			m = &mm
		} else {
			return
		}
	}
	if o.kind == "err" {
		key, why := "refused:valid-payload", "a payload of the documented form status <: type [attributes]"
		if m.typ.uses(shadowedPrims) {
			key, why = "refused:listed-primitive", "a primitive the payload grammar itself lists"
		} else if m.typ.uses(primPrefixedNames) {
			key, why = "refused:primitive-prefixed-name", "a type whose name begins with the name of a primitive"
		}
		c.Fail(key, fmt.Sprintf("relmod.Normalize refuses `return %s` (%s): %s", text, why, o.msg), rp)
		return
	}
	got := obsStmtDetail(relmod.Statement{StmtRet: o.ret})
	if want := m.detail(payApp); got != want {
		c.Fail("ret:contents", fmt.Sprintf("`return %s`: the statement row carries %s, the payload says %s", text, got, want), rp)
	}
}

// payBad: is this return payload one the embedded payload grammar refuses? The grammar is outside the Coq model
// (payload class PayGood / PayBad is an input of the model), so the class is observed: relmod.Normalize on a
// module holding just this one return statement. What the model then decides - and is compared on - is how a
// refusal propagates: which payloads are reached at all, and that one refusal refuses the whole module.
var payCache = map[string]bool{}

func (cr *caseResult) payBad(p string) bool {
	if v, ok := payCache[p]; ok {
		return v
	}
	m := &sysl.Module{Apps: map[string]*sysl.Application{"P": {Name: &sysl.AppName{Part: []string{"P"}},
		Endpoints: map[string]*sysl.Endpoint{"E": {Name: "E", Stmt: []*sysl.Statement{{Stmt: &sysl.Statement_Ret{Ret: &sysl.Return{Payload: p}}}}}}}}}
	o := normalize(m)
	payCache[p] = o.kind == "err"
	return payCache[p]
}

type mstats struct{ stmts, nested, depth, underForeach, choices int }

func moduleStats(m *sysl.Module) mstats {
	var st mstats
	var walk func(ss []*sysl.Statement, d int, fe bool)
	walk = func(ss []*sysl.Statement, d int, fe bool) {
		for _, s := range ss {
			st.stmts++
			if d > 1 {
				st.nested++
			}
			if d > st.depth {
				st.depth = d
			}
			if fe {
				st.underForeach++
			}
			walk(stmtChildren(s), d+1, fe || s.GetForeach() != nil)
			if alt := s.GetAlt(); alt != nil {
				for _, ch := range alt.Choice {
					st.choices++
					walk(ch.Stmt, d+2, fe)
				}
			}
		}
	}
	for _, app := range m.Apps {
		for _, ep := range app.Endpoints {
			walk(ep.Stmt, 1, false)
		}
	}
	return st
}
