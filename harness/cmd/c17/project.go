package main

import (
	"crypto/sha1"
	"fmt"
	"math"
	"sort"
	"strings"
	"unicode/utf8"

	"github.com/anz-bank/sysl/pkg/arrai/relmod"
	"github.com/anz-bank/sysl/pkg/sysl"
	"github.com/arr-ai/arrai/rel"
	"google.golang.org/protobuf/proto"

	"verifharness/common"
)

// ---- projection of a *sysl.Module and of the observed *relmod.Schema to the terms of Verif.Relmod.Model ----
// Every string of one case is interned to a positive; ids 1-6 are the constants the Go code compares against.

// Interning is ORDER-PRESERVING (ids compare as the strings do under sort.Strings), because the code walks its maps in
// sorted key order and the model sorts by id. The six constants have fixed ids k<<20; a string with j constants below
// it gets j<<20 + its rank among those. Two passes: collect the strings of the case, freeze, print.
type interner struct {
	seen   map[string]bool
	ids    map[string]int
	frozen bool
	retOK  bool // every return payload of the module lies in the modelled fragment (no backslash, no "{")
}

var constNames = []string{"", "...", "any", "method", "path", "query"}

func newInterner() *interner {
	return &interner{seen: map[string]bool{}, retOK: true}
}
func (in *interner) freeze() {
	in.ids = map[string]int{}
	for i, c := range constNames {
		in.ids[c] = (i + 1) << 20
		delete(in.seen, c)
	}
	var all []string
	for s := range in.seen {
		all = append(all, s)
	}
	sort.Strings(all)
	rank := map[int]int{}
	for _, s := range all {
		j := 0
		for _, c := range constNames {
			if c < s {
				j++
			}
		}
		rank[j]++
		in.ids[s] = j<<20 + rank[j]
	}
	in.frozen = true
}
func (in *interner) id(s string) int {
	if !in.frozen {
		in.seen[s] = true
		return 1
	}
	v, ok := in.ids[s]
	if !ok {
		panic("string not collected in the first pass: " + s)
	}
	return v
}
func (in *interner) name(s string) string { return fmt.Sprintf("%d%%positive", in.id(s)) }
func (in *interner) names(ss []string) string {
	if len(ss) == 0 {
		return "[]"
	}
	it := make([]string, len(ss))
	for i, s := range ss {
		it[i] = fmt.Sprint(in.id(s))
	}
	return "[" + strings.Join(it, ";") + "]%positive"
}

func gb(b bool) string {
	if b {
		return "T"
	}
	return "F"
}
func glist(it []string) string { return "[" + strings.Join(it, ";") + "]" }
func gz(v int64) string {
	if v < 0 {
		return fmt.Sprintf("(%d)%%Z", v)
	}
	return fmt.Sprintf("%d%%Z", v)
}
func gzs(vs []int64) string {
	if len(vs) == 0 {
		return "[]"
	}
	it := make([]string, len(vs))
	for i, v := range vs {
		if v < 0 {
			it[i] = fmt.Sprintf("(%d)", v)
		} else {
			it[i] = fmt.Sprint(v)
		}
	}
	return "[" + strings.Join(it, ";") + "]%Z"
}
func gpath(p []int) string {
	if len(p) == 0 {
		return "[]"
	}
	it := make([]string, len(p))
	for i, v := range p {
		it[i] = fmt.Sprint(v)
	}
	return "[" + strings.Join(it, ";") + "]%N"
}

type unprojectable struct{ why string }

func bail(why string) { panic(unprojectable{why}) }

// a float64 as m * 2^e with m odd (0 0 for zero): the form Payload.f64_of_Z / AVNum / RVNum use
func f64Term(f float64) (string, string) {
	if math.IsNaN(f) || math.IsInf(f, 0) {
		bail("annotation value NaN / Inf")
	}
	if f == 0 {
		return "0%Z", "0%Z"
	}
	fr, ex := math.Frexp(f) // f = fr * 2^ex, 0.5 <= |fr| < 1
	m := int64(fr * (1 << 53))
	e := int64(ex - 53)
	for m%2 == 0 {
		m /= 2
		e++
	}
	return gz(m), gz(e)
}

func (in *interner) aval(a *sysl.Attribute) string {
	switch v := a.GetAttribute().(type) {
	case *sysl.Attribute_S:
		return "(AVStr " + in.name(v.S) + ")"
	case *sysl.Attribute_I:
		return "(AVInt " + gz(v.I) + ")"
	case *sysl.Attribute_N:
		m, e := f64Term(v.N)
		return fmt.Sprintf("(AVNum %s %s)", m, e)
	case *sysl.Attribute_A:
		var it []string
		for _, el := range v.A.GetElt() {
			if el == nil {
				bail("nil array element")
			}
			it = append(it, in.aval(el))
		}
		return "(AVArr " + glist(it) + ")"
	}
	bail("attribute without a value")
	return ""
}

func (in *interner) src(sc *sysl.SourceContext) string {
	if sc == nil || sc.Start == nil || sc.End == nil {
		bail("source context without positions") // relmodSourceContext dereferences them
	}
	return fmt.Sprintf("(Sc %s [%d;%d;%d;%d]%%N)", in.name(sc.File), int(sc.Start.Line), int(sc.Start.Col), int(sc.End.Line), int(sc.End.Col))
}
func (in *interner) srcs(l []*sysl.SourceContext) string {
	it := make([]string, len(l))
	for i, sc := range l {
		it[i] = in.src(sc)
	}
	return glist(it)
}

// attrs: what a normalize*Meta function reads of an element - Attrs and SourceContexts
func (in *interner) attrs(a map[string]*sysl.Attribute, scs []*sysl.SourceContext) string {
	var tags, annos []string
	if p, ok := a["patterns"]; ok {
		arr, isA := p.GetAttribute().(*sysl.Attribute_A)
		if !isA {
			bail("patterns attribute that is not an array")
		}
		for _, e := range arr.A.Elt {
			if _, isS := e.GetAttribute().(*sysl.Attribute_S); !isS {
				bail("pattern that is not a string")
			}
			tags = append(tags, e.GetS())
		}
	}
	for n, v := range a {
		if n != "patterns" {
			if v.GetAttribute() == nil {
				bail("attribute without a value")
			}
			annos = append(annos, n)
		}
	}
	sort.Sort(sort.Reverse(sort.StringSlice(annos)))
	it := make([]string, len(annos))
	for i, n := range annos {
		it[i] = fmt.Sprintf("(An %s %s %s)", in.name(n), in.aval(a[n]), in.srcs(a[n].SourceContexts))
	}
	return fmt.Sprintf("(At %s %s %s)", in.names(tags), glist(it), in.srcs(scs))
}

func (in *interner) optApp(a *sysl.AppName) string {
	if a == nil {
		return "None"
	}
	return "(Some " + in.names(a.Part) + ")"
}

func (in *interner) mtype(t *sysl.Type) string {
	if t == nil {
		bail("nil type")
	}
	switch x := t.Type.(type) {
	case *sysl.Type_Primitive_:
		return "(MPrim " + in.name(x.Primitive.String()) + ")"
	case *sysl.Type_Tuple_:
		return "MTuple"
	case *sysl.Type_TypeRef:
		if x.TypeRef == nil || x.TypeRef.Ref == nil {
			bail("type reference without a target scope")
		}
		ctx := "None"
		if x.TypeRef.Context != nil {
			if x.TypeRef.Context.Appname == nil && x.TypeRef.Ref.Appname == nil {
				bail("reference context without an application name")
			}
			ctx = in.optApp(x.TypeRef.Context.Appname)
		}
		return fmt.Sprintf("(MRef %s %s %s)", in.optApp(x.TypeRef.Ref.Appname), ctx, in.names(x.TypeRef.Ref.Path))
	case *sysl.Type_Set:
		return "(MSet " + in.mtype(x.Set) + ")"
	case *sysl.Type_Sequence:
		return "(MSeq " + in.mtype(x.Sequence) + ")"
	case *sysl.Type_List_:
		if x.List == nil {
			bail("list type without element type")
		}
		return "(MList " + in.mtype(x.List.Type) + ")"
	case *sysl.Type_NoType_:
		return "MNoType"
	case *sysl.Type_Enum_:
		return "MEnumT"
	case *sysl.Type_Relation_:
		return "MRelationT"
	case *sysl.Type_Map_:
		return fmt.Sprintf("(MMap %s %s)", in.mtypeOpt(x.Map.GetKey()), in.mtypeOpt(x.Map.GetValue()))
	case *sysl.Type_OneOf_:
		var ts []string
		for _, m := range x.OneOf.GetType() {
			ts = append(ts, in.mtypeOpt(m))
		}
		return "(MOneOf " + glist(ts) + ")"
	case nil:
		return "MUnset"
	}
	bail(fmt.Sprintf("type of unknown kind %T", t.Type))
	return ""
}

// a member / key / value type the code never dereferences may be absent
func (in *interner) mtypeOpt(t *sysl.Type) string {
	if t == nil {
		return "MUnset"
	}
	return in.mtype(t)
}

// sysl.Value of a range bound: the model keeps integers, any other kind is CVOther
func cval(v *sysl.Value) string {
	if v == nil {
		return "None"
	}
	if i, ok := v.Value.(*sysl.Value_I); ok {
		return "(Some (CVInt " + gz(i.I) + "))"
	}
	return "(Some CVOther)"
}

func constraint(c *sysl.Type_Constraint) string {
	if c == nil {
		bail("nil constraint")
	}
	ln, rg, rs := "None", "None", "None"
	if c.Length != nil {
		ln = fmt.Sprintf("(Some (%s, %s))", gz(c.Length.Min), gz(c.Length.Max))
	}
	if c.Range != nil {
		rg = fmt.Sprintf("(Some (%s, %s))", cval(c.Range.Min), cval(c.Range.Max))
	}
	if c.Resolution != nil {
		rs = fmt.Sprintf("(Some (%s, %s))", gz(int64(c.Resolution.Base)), gz(int64(c.Resolution.Index)))
	}
	return fmt.Sprintf("(Co %s %s %s %s %s %s)", ln, gz(int64(c.Precision)), gz(int64(c.Scale)), rg, gz(int64(c.BitWidth)), rs)
}

func (in *interner) param(name string, t *sysl.Type) string {
	if t == nil {
		return fmt.Sprintf("(Pa %s None)", in.name(name))
	}
	return fmt.Sprintf("(Pa %s (Some (PT %s %s %s)))", in.name(name), in.mtype(t), gb(t.Opt), in.attrs(t.Attrs, t.SourceContexts))
}

// payload classes of the model: the harness knows which forms the embedded grammar refuses only by observation,
// so PayBad is decided from the outcome of the real run on this very payload (parsed alone); see payloadClass.
func (in *interner) stmt(s *sysl.Statement, payBad func(string) bool) string {
	if s == nil {
		bail("nil statement")
	}
	at := in.attrs(s.Attrs, s.SourceContexts)
	blk := func(k, t string, body []*sysl.Statement) string {
		return fmt.Sprintf("(SB %s %s %s %s)", k, in.name(t), at, in.stmts(body, payBad))
	}
	switch x := s.Stmt.(type) {
	case *sysl.Statement_Action:
		return fmt.Sprintf("(SL LAction %s %s)", in.name(x.Action.GetAction()), at)
	case *sysl.Statement_Call:
		if x.Call.GetTarget() == nil {
			bail("call without a target")
		}
		return fmt.Sprintf("(SL LCall %s %s)", in.name(strings.Join(x.Call.Target.Part, " :: ")+" <- "+x.Call.Endpoint), at)
	case *sysl.Statement_Cond:
		return blk("BCond", x.Cond.GetTest(), x.Cond.GetStmt())
	case *sysl.Statement_Loop:
		return blk("BLoop", x.Loop.GetMode().String()+" "+x.Loop.GetCriterion(), x.Loop.GetStmt())
	case *sysl.Statement_LoopN:
		return blk("BLoopN", fmt.Sprint(x.LoopN.GetCount()), x.LoopN.GetStmt())
	case *sysl.Statement_Foreach:
		return blk("BForeach", x.Foreach.GetCollection(), x.Foreach.GetStmt())
	case *sysl.Statement_Group:
		return blk("BGroup", x.Group.GetTitle(), x.Group.GetStmt())
	case *sysl.Statement_Ret:
		// the payload text goes to the model's own reader (Payload.parse_payload); a module holding a payload outside
		// the modelled fragment hands all of them over as observed classes
		if !inFragment(x.Ret.GetPayload()) {
			in.retOK = false
		}
		if in.retOK {
			return fmt.Sprintf("(SL (LRet %s) %s %s)", common.GBytes(x.Ret.GetPayload()), in.name(""), at)
		}
		if x.Ret.GetPayload() == "" {
			return fmt.Sprintf("(SL (LRet []) %s %s)", in.name(""), at)
		}
		return fmt.Sprintf("(SL (LRetOpaque %s) %s %s)", gb(payBad(x.Ret.Payload)), in.name(""), at)
	case *sysl.Statement_Alt:
		var chs []string
		for _, ch := range x.Alt.GetChoice() {
			chs = append(chs, fmt.Sprintf("(%s, %s)", in.name(ch.GetCond()), in.stmts(ch.GetStmt(), payBad)))
		}
		return fmt.Sprintf("(SA %s %s)", at, glist(chs))
	}
	return fmt.Sprintf("(SL LNone %s %s)", in.name(""), at)
}

func (in *interner) stmts(ss []*sysl.Statement, payBad func(string) bool) string {
	it := make([]string, len(ss))
	for i, s := range ss {
		it[i] = in.stmt(s, payBad)
	}
	return glist(it)
}

func sortedKeys[V any](m map[string]V) []string {
	var ks []string
	for k := range m {
		ks = append(ks, k)
	}
	sort.Strings(ks)
	return ks
}

// revKeys: descending order - the model has to do the sorting the code does
func revKeys[V any](m map[string]V) []string {
	ks := sortedKeys(m)
	for i, j := 0, len(ks)-1; i < j; i, j = i+1, j-1 {
		ks[i], ks[j] = ks[j], ks[i]
	}
	return ks
}

func (in *interner) fields(defs map[string]*sysl.Type) string {
	var it []string
	for _, fn := range revKeys(defs) {
		f := defs[fn]
		if f == nil {
			bail("nil field")
		}
		var cs []string
		for _, c := range f.Constraint {
			cs = append(cs, constraint(c))
		}
		it = append(it, fmt.Sprintf("(Fi %s %s %s %s %s)", in.name(fn), in.mtype(f), gb(f.Opt), glist(cs), in.attrs(f.Attrs, f.SourceContexts)))
	}
	return glist(it)
}

// the expression of a view as opaque text: a digest of its deterministic wire form
func exprDigest(e *sysl.Expr) string {
	if e == nil {
		return ""
	}
	b, err := proto.MarshalOptions{Deterministic: true}.Marshal(e)
	if err != nil {
		return "expr:?"
	}
	return fmt.Sprintf("expr:%x", sha1.Sum(b))
}

func enumItems(in *interner, items map[string]int64) (string, string) {
	ks := sortedKeys(items)
	vs := make([]int64, len(ks))
	for i, k := range ks {
		vs[i] = items[k]
	}
	return in.names(ks), gzs(vs)
}

func (in *interner) module(m *sysl.Module, payBad func(string) bool) string {
	var apps []string
	for _, an := range sortedKeys(m.Apps) {
		app := m.Apps[an]
		if app == nil || app.Name == nil {
			bail("application without a name")
		}
		var mix, eps, tys, vws []string
		for _, mx := range app.Mixin2 {
			if mx == nil || mx.Name == nil {
				bail("mixin without a name")
			}
			mix = append(mix, fmt.Sprintf("(%s, %s)", in.names(mx.Name.Part), in.attrs(mx.Attrs, mx.SourceContexts)))
		}
		for _, en := range revKeys(app.Endpoints) {
			ep := app.Endpoints[en]
			if ep == nil {
				bail("nil endpoint")
			}
			if ep.Source != nil && !ep.IsPubsub && ep.Name != "..." && !strings.Contains(ep.Name, " -> ") {
				bail("subscriber endpoint whose name has no ' -> '") // strings.SplitAfter(...)[1] panics: judged by the oracle
			}
			var ps []string
			for _, p := range ep.Param {
				ps = append(ps, in.param(p.GetName(), p.GetType()))
			}
			src := "None"
			if ep.Source != nil {
				ev := ""
				if i := strings.Index(ep.Name, " -> "); i >= 0 {
					ev = ep.Name[i+4:]
				}
				src = fmt.Sprintf("(Some (%s, %s))", in.names(ep.Source.Part), in.name(ev))
			}
			rest := "None"
			if ep.RestParams != nil {
				var up, qp []string
				for _, p := range ep.RestParams.UrlParam {
					up = append(up, in.param(p.GetName(), p.GetType()))
				}
				for _, p := range ep.RestParams.QueryParam {
					qp = append(qp, in.param(p.GetName(), p.GetType()))
				}
				rest = fmt.Sprintf("(Some (%s, %s, %s, %s))", in.name(ep.RestParams.Method.String()), in.name(ep.RestParams.Path), glist(up), glist(qp))
			}
			eps = append(eps, fmt.Sprintf("(Ep %s %s %s %s %s %s %s %s %s)", in.name(ep.Name), in.name(ep.LongName), in.name(ep.Docstring), gb(ep.IsPubsub), src, rest,
				glist(ps), in.attrs(ep.Attrs, ep.SourceContexts), in.stmts(ep.Stmt, payBad)))
		}
		for _, tn := range revKeys(app.Types) {
			t := app.Types[tn]
			if t == nil {
				bail("nil type")
			}
			def := ""
			switch x := t.Type.(type) {
			case nil:
				def = "DUnset"
			case *sysl.Type_Map_:
				def = fmt.Sprintf("(DMap %s %s)", in.mtypeOpt(x.Map.GetKey()), in.mtypeOpt(x.Map.GetValue()))
			case *sysl.Type_OneOf_:
				var ts []string
				for _, m := range x.OneOf.GetType() {
					ts = append(ts, in.mtypeOpt(m))
				}
				def = "(DOneOf " + glist(ts) + ")"
			case *sysl.Type_NoType_:
				def = "DNoType"
			case *sysl.Type_List_:
				def = "(DList " + in.mtypeOpt(x.List.GetType()) + ")"
			case *sysl.Type_Tuple_:
				def = "(DTuple " + in.fields(x.Tuple.GetAttrDefs()) + ")"
			case *sysl.Type_Relation_:
				def = fmt.Sprintf("(DRelation %s %s)", in.names(x.Relation.GetPrimaryKey().GetAttrName()), in.fields(x.Relation.GetAttrDefs()))
			case *sysl.Type_Primitive_, *sysl.Type_Sequence, *sysl.Type_Set, *sysl.Type_TypeRef:
				def = "(DAlias " + in.mtype(t) + ")"
			case *sysl.Type_Enum_:
				ks := sortedKeys(x.Enum.GetItems())
				var it []string
				for _, k := range ks {
					it = append(it, fmt.Sprintf("(%s, %s)", in.name(k), gz(x.Enum.Items[k])))
				}
				def = "(DEnum " + glist(it) + ")"
			}
			if def == "" {
				bail(fmt.Sprintf("type declaration of unknown kind %T", t.Type))
			}
			tys = append(tys, fmt.Sprintf("(Td %s %s %s %s %s)", in.name(tn), in.name(t.Docstring), gb(t.Opt), def, in.attrs(t.Attrs, t.SourceContexts)))
		}
		for _, vn := range revKeys(app.Views) {
			v := app.Views[vn]
			if v == nil {
				bail("nil view")
			}
			ret := "None" // a view that declares no return type and for which none is inferred
			if v.RetType != nil {
				ret = "(Some " + in.mtype(v.RetType) + ")"
			}
			var vps []string
			for _, p := range v.Param {
				if p == nil {
					bail("nil view parameter")
				}
				vps = append(vps, in.param(p.GetName(), p.GetType()))
			}
			vws = append(vws, fmt.Sprintf("(Vi %s %s %s %s %s)", in.name(vn), ret, in.attrs(v.Attrs, v.SourceContexts), glist(vps), in.name(exprDigest(v.Expr))))
		}
		apps = append(apps, fmt.Sprintf("(Ap %s %s %s %s %s %s\n  %s\n  %s\n  %s)", in.names(app.Name.Part), gstrs(app.Name.Part), in.name(app.LongName), in.name(app.Docstring), in.attrs(app.Attrs, app.SourceContexts), glist(mix), glist(eps), glist(tys), glist(vws)))
	}
	return glist(apps)
}

// ---- observed rows ----
func (in *interner) oty(x interface{}) string {
	switch t := x.(type) {
	case nil:
		return "TyNil"
	case relmod.TypePrimitive:
		return "(TyPrim " + in.name(t.Primitive) + ")"
	case relmod.TypeTuple:
		return "TyTuple"
	case relmod.TypeRef:
		return fmt.Sprintf("(TyRef %s %s)", in.names(t.AppName), in.names(t.TypePath))
	case relmod.TypeSet:
		return "(TySet " + in.oty(t.Set) + ")"
	case relmod.TypeSequence:
		return "(TySeq " + in.oty(t.Sequence) + ")"
	}
	bail(fmt.Sprintf("row type of unknown shape %T", x))
	return ""
}

func b2z(b bool) int64 {
	if b {
		return 1
	}
	return 0
}

// which Stmt* column is set, and the text the model keeps for it
func (in *interner) stmtCodeText(r relmod.Statement) (int64, string) {
	code, text, n := int64(0), "", 0
	set := func(c int64, t string) { code, text = c, t; n++ }
	if r.StmtAction != "" {
		set(1, r.StmtAction)
	}
	if r.StmtCall != nil {
		an, _ := r.StmtCall["appName"].([]string)
		set(2, strings.Join(an, " :: ")+" <- "+fmt.Sprint(r.StmtCall["epName"]))
	}
	if r.StmtCond != nil {
		set(3, fmt.Sprint(r.StmtCond["test"]))
	}
	if r.StmtLoop != nil {
		set(4, fmt.Sprint(r.StmtLoop["mode"])+" "+fmt.Sprint(r.StmtLoop["criterion"]))
	}
	if r.StmtLoopN != nil {
		set(5, fmt.Sprint(r.StmtLoopN["count"]))
	}
	if r.StmtForeach != nil {
		set(6, fmt.Sprint(r.StmtForeach["coll"]))
	}
	if r.StmtGroup != nil {
		set(7, fmt.Sprint(r.StmtGroup["title"]))
	}
	if r.StmtRet.Status != "" || r.StmtRet.Type != nil {
		set(8, "")
	}
	if r.StmtAlt != nil {
		set(9, fmt.Sprint(r.StmtAlt["choice"]))
	}
	if n > 1 {
		return 99, ""
	}
	return code, text
}

func (in *interner) rows(s *relmod.Schema) string {
	var out []string
	add := func(rel string, app []string, names string, path []int, nums []int64, ty string) {
		out = append(out, fmt.Sprintf("R %s %s %s %s %s %s", rel, in.names(app), names, gpath(path), gzs(nums), ty))
	}
	cat := func(a []string, b ...string) []string { return append(append([]string{}, a...), b...) }
	addx := func(rel string, app []string, names string, path []int, nums []int64, x string) {
		out = append(out, fmt.Sprintf("RX %s %s %s %s %s %s", rel, in.names(app), names, gpath(path), gzs(nums), x))
	}
	val := func(v interface{}) string { return "(XVal " + in.rval(v) + ")" }
	src := func(first relmod.SourceContext, all []relmod.SourceContext) string {
		return fmt.Sprintf("(XSrc %s %s)", in.osrc(first), in.osrcs(all))
	}
	srcs := func(all []relmod.SourceContext) string { return "(XSrcs " + in.osrcs(all) + ")" }
	for _, r := range s.App {
		add("RApp", r.AppName, in.names([]string{r.AppLongName, r.AppDocstring}), nil, nil, "TyNil")
	}
	for _, r := range s.Mixin {
		add("RMixin", r.AppName, in.names(r.MixinName), nil, nil, "TyNil")
	}
	for _, r := range s.Ep {
		hasRest := r.Rest.Method != "" || r.Rest.Path != ""
		hasSrc := r.EpEvent.AppName.Part != nil || r.EpEvent.EventName != ""
		out = append(out, fmt.Sprintf("R2 REp %s %s %s %s", in.names(r.AppName),
			in.names([]string{r.EpName, r.EpLongName, r.EpDocstring, r.Rest.Method, r.Rest.Path, r.EpEvent.EventName}),
			gzs([]int64{b2z(hasRest), b2z(hasSrc)}), in.names(r.EpEvent.AppName.Part)))
	}
	for _, r := range s.Event {
		add("REvent", r.AppName, in.names([]string{r.EventName}), nil, nil, "TyNil")
	}
	for _, r := range s.Param {
		add("RParam", r.AppName, in.names([]string{r.EpName, r.ParamName, r.ParamLoc}), nil, []int64{int64(r.ParamIndex), b2z(r.ParamOpt)}, in.oty(r.ParamType))
	}
	for _, r := range s.Stmt {
		code, text := in.stmtCodeText(r)
		if code == 8 {
			addx("RStmt", r.AppName, in.names([]string{r.EpName, ""}), r.StmtIndex, []int64{code}, retTerm(r.StmtRet))
			continue
		}
		add("RStmt", r.AppName, in.names([]string{r.EpName, text}), r.StmtIndex, []int64{code}, "TyNil")
	}
	for _, r := range s.Type {
		add("RType", r.AppName, in.names([]string{r.TypeName, r.TypeDocstring}), nil, []int64{b2z(r.TypeOpt)}, "TyNil")
	}
	for _, r := range s.Table {
		add("RTable", r.AppName, in.names(cat([]string{r.TypeName}, r.Pk...)), nil, nil, "TyNil")
	}
	for _, r := range s.Field {
		c := r.FieldConstraint
		add("RField", r.AppName, in.names([]string{r.TypeName, r.FieldName}), nil,
			[]int64{b2z(r.FieldOpt), c.Length.Min, c.Length.Max, int64(c.Precision), int64(c.Scale)}, in.oty(r.FieldType))
	}
	for _, r := range s.Enum {
		ks := sortedKeys(r.EnumItems)
		vs := make([]int64, len(ks))
		for i, k := range ks {
			vs[i] = r.EnumItems[k]
		}
		add("REnum", r.AppName, in.names(cat([]string{r.TypeName}, ks...)), nil, vs, "TyNil")
	}
	for _, r := range s.Alias {
		add("RAlias", r.AppName, in.names([]string{r.TypeName}), nil, nil, in.oty(r.AliasType))
	}
	for _, r := range s.View {
		add("RView", r.AppName, in.names([]string{r.ViewName}), nil, nil, in.oty(r.ViewType))
	}
	// tags
	for _, r := range s.Tag.App {
		add("(RTag OApp)", r.AppName, in.names([]string{r.AppTag}), nil, nil, "TyNil")
	}
	for _, r := range s.Tag.Mixin {
		add("(RTag OMixin)", r.AppName, in.names(cat(r.MixinName, r.MixinTag)), nil, nil, "TyNil")
	}
	for _, r := range s.Tag.Ep {
		add("(RTag OEp)", r.AppName, in.names([]string{r.EpName, r.EpTag}), nil, nil, "TyNil")
	}
	for _, r := range s.Tag.Param {
		add("(RTag OParam)", r.AppName, in.names([]string{r.EpName, r.ParamName, r.ParamLoc, r.ParamTag}), nil, []int64{int64(r.ParamIndex)}, "TyNil")
	}
	for _, r := range s.Tag.Stmt {
		add("(RTag OStmt)", r.AppName, in.names([]string{r.EpName, r.StmtTag}), r.StmtIndex, nil, "TyNil")
	}
	for _, r := range s.Tag.Event {
		add("(RTag OEvent)", r.AppName, in.names([]string{r.EventName, r.EventTag}), nil, nil, "TyNil")
	}
	for _, r := range s.Tag.Type {
		add("(RTag OType)", r.AppName, in.names([]string{r.TypeName, r.TypeTag}), nil, nil, "TyNil")
	}
	for _, r := range s.Tag.Field {
		add("(RTag OField)", r.AppName, in.names([]string{r.TypeName, r.FieldName, r.FieldTag}), nil, nil, "TyNil")
	}
	for _, r := range s.Tag.View {
		add("(RTag OView)", r.AppName, in.names([]string{r.ViewName, r.ViewTag}), nil, nil, "TyNil")
	}
	// annotations with their values
	for _, r := range s.Anno.App {
		addx("(RAnno OApp)", r.AppName, in.names([]string{r.AppAnnoName}), nil, nil, val(r.AppAnnoValue))
	}
	for _, r := range s.Anno.Mixin {
		addx("(RAnno OMixin)", r.AppName, in.names(cat(r.MixinName, r.MixinAnnoName)), nil, nil, val(r.MixinAnnoValue))
	}
	for _, r := range s.Anno.Ep {
		addx("(RAnno OEp)", r.AppName, in.names([]string{r.EpName, r.EpAnnoName}), nil, nil, val(r.EpAnnoValue))
	}
	for _, r := range s.Anno.Param {
		addx("(RAnno OParam)", r.AppName, in.names([]string{r.EpName, r.ParamName, r.ParamLoc, r.ParamAnnoName}), nil, []int64{int64(r.ParamIndex)}, val(r.ParamAnnoValue))
	}
	for _, r := range s.Anno.Stmt {
		addx("(RAnno OStmt)", r.AppName, in.names([]string{r.EpName, r.StmtAnnoName}), r.StmtIndex, nil, val(r.StmtAnnoValue))
	}
	for _, r := range s.Anno.Event {
		addx("(RAnno OEvent)", r.AppName, in.names([]string{r.EventName, r.EventAnnoName}), nil, nil, val(r.EventAnnoValue))
	}
	for _, r := range s.Anno.Type {
		addx("(RAnno OType)", r.AppName, in.names([]string{r.TypeName, r.TypeAnnoName}), nil, nil, val(r.TypeAnnoValue))
	}
	for _, r := range s.Anno.Field {
		addx("(RAnno OField)", r.AppName, in.names([]string{r.TypeName, r.FieldName, r.FieldAnnoName}), nil, nil, val(r.FieldAnnoValue))
	}
	for _, r := range s.Anno.View {
		addx("(RAnno OView)", r.AppName, in.names([]string{r.ViewName, r.ViewAnnoName}), nil, nil, val(r.ViewAnnoValue))
	}
	// source contexts of the elements
	for _, r := range s.Src.App {
		addx("(RSrc OApp)", r.AppName, "[]", nil, nil, src(r.AppSrc, r.AppSrcs))
	}
	for _, r := range s.Src.Mixin {
		addx("(RSrc OMixin)", r.AppName, in.names(r.MixinName), nil, nil, src(r.MixinSrc, r.MixinSrcs))
	}
	for _, r := range s.Src.Ep {
		addx("(RSrc OEp)", r.AppName, in.names([]string{r.EpName}), nil, nil, src(r.EpSrc, r.EpSrcs))
	}
	for _, r := range s.Src.Param {
		addx("(RSrc OParam)", r.AppName, in.names([]string{r.EpName, r.ParamName, r.ParamLoc}), nil, []int64{int64(r.ParamIndex)}, src(r.ParamSrc, r.ParamSrcs))
	}
	for _, r := range s.Src.Stmt {
		addx("(RSrc OStmt)", r.AppName, in.names([]string{r.EpName}), r.StmtIndex, nil, src(r.StmtSrc, r.StmtSrcs))
	}
	for _, r := range s.Src.Event {
		addx("(RSrc OEvent)", r.AppName, in.names([]string{r.EventName}), nil, nil, src(r.EventSrc, r.EventSrcs))
	}
	for _, r := range s.Src.Type {
		addx("(RSrc OType)", r.AppName, in.names([]string{r.TypeName}), nil, nil, src(r.TypeSrc, r.TypeSrcs))
	}
	for _, r := range s.Src.Field {
		addx("(RSrc OField)", r.AppName, in.names([]string{r.TypeName, r.FieldName}), nil, nil, src(r.FieldSrc, r.FieldSrcs))
	}
	for _, r := range s.Src.View {
		addx("(RSrc OView)", r.AppName, in.names([]string{r.ViewName}), nil, nil, src(r.ViewSrc, r.ViewSrcs))
	}
	// source contexts of the annotations
	for _, r := range s.Src.Anno.App {
		addx("(RSrcAnno OApp)", r.AppName, in.names([]string{r.AnnoName}), nil, nil, srcs(r.AnnoSrcs))
	}
	for _, r := range s.Src.Anno.Mixin {
		addx("(RSrcAnno OMixin)", r.AppName, in.names(cat(r.MixinName, r.AnnoName)), nil, nil, srcs(r.AnnoSrcs))
	}
	for _, r := range s.Src.Anno.Ep {
		addx("(RSrcAnno OEp)", r.AppName, in.names([]string{r.EpName, r.AnnoName}), nil, nil, srcs(r.AnnoSrcs))
	}
	for _, r := range s.Src.Anno.Param {
		addx("(RSrcAnno OParam)", r.AppName, in.names([]string{r.EpName, r.ParamName, r.ParamLoc, r.AnnoName}), nil, []int64{int64(r.ParamIndex)}, srcs(r.AnnoSrcs))
	}
	for _, r := range s.Src.Anno.Stmt {
		addx("(RSrcAnno OStmt)", r.AppName, in.names([]string{r.EpName, r.AnnoName}), r.StmtIndex, nil, srcs(r.AnnoSrcs))
	}
	for _, r := range s.Src.Anno.Event {
		addx("(RSrcAnno OEvent)", r.AppName, in.names([]string{r.EventName, r.AnnoName}), nil, nil, srcs(r.AnnoSrcs))
	}
	for _, r := range s.Src.Anno.Type {
		addx("(RSrcAnno OType)", r.AppName, in.names([]string{r.TypeName, r.AnnoName}), nil, nil, srcs(r.AnnoSrcs))
	}
	for _, r := range s.Src.Anno.Field {
		addx("(RSrcAnno OField)", r.AppName, in.names([]string{r.TypeName, r.FieldName, r.AnnoName}), nil, nil, srcs(r.AnnoSrcs))
	}
	for _, r := range s.Src.Anno.View {
		addx("(RSrcAnno OView)", r.AppName, in.names([]string{r.ViewName, r.AnnoName}), nil, nil, srcs(r.AnnoSrcs))
	}
	return "[" + strings.Join(out, ";\n ") + "]"
}

// project renders one case as a Gallina term of type c17_case; ok=false when the module has a shape outside the
// model (those are judged by the Go oracle only) or the real code panicked.
func project(cr *caseResult) (term string, ok bool) {
	defer func() {
		if r := recover(); r != nil {
			if _, is := r.(unprojectable); is {
				term, ok = "", false
				return
			}
			panic(r)
		}
	}()
	if cr.o1.kind == "panic" && cr.o1.site != "parseReturnPayload" && cr.o1.site != "parseFieldType" {
		return "", false
	}
	in := newInterner()
	var mod, obs string
	for pass := 0; pass < 2; pass++ {
		mod = in.module(cr.m, cr.payBad)
		obs = "ORefused"
		if cr.o1.kind == "ok" {
			obs = "(ORows " + in.rows(cr.o1.s) + ")"
		}
		if cr.o1.kind == "panic" {
			obs = "OCrashed"
		}
		if pass == 0 {
			in.freeze()
		}
	}
	return fmt.Sprintf("(%s,\n %s, %s)", mod, obs, gb(in.retOK)), true
}

// ---- observed values ----
func inFragment(p string) bool { return utf8.ValidString(p) && !strings.ContainsAny(p, "\\{") }

func gstrs(ss []string) string {
	it := make([]string, len(ss))
	for i, s := range ss {
		it[i] = common.GBytes(s)
	}
	return glist(it)
}

func (in *interner) osrc(sc relmod.SourceContext) string {
	return fmt.Sprintf("(Sc %s [%d;%d;%d;%d]%%N)", in.name(sc.File), sc.Start.Line, sc.Start.Col, sc.End.Line, sc.End.Col)
}
func (in *interner) osrcs(l []relmod.SourceContext) string {
	it := make([]string, len(l))
	for i, sc := range l {
		it[i] = in.osrc(sc)
	}
	return glist(it)
}

// an annotation value as the schema holds it (a rel.Value): arr.ai has one empty value
func (in *interner) rval(x interface{}) string {
	if x == nil {
		return "RVEmpty"
	}
	v, ok := x.(rel.Value)
	if !ok {
		bail(fmt.Sprintf("annotation value of type %T", x))
	}
	if n, ok := v.(rel.Number); ok {
		m, e := f64Term(float64(n))
		return fmt.Sprintf("(RVNum %s %s)", m, e)
	}
	if !v.IsTrue() {
		return "RVEmpty"
	}
	if s, ok := rel.AsString(v); ok {
		return "(RVStr " + in.name(s.String()) + ")"
	}
	if a, ok := rel.AsArray(v); ok {
		var it []string
		for _, e := range a.Values() {
			it = append(it, in.rval(e))
		}
		return "(RVArr " + glist(it) + ")"
	}
	bail("annotation value that is neither string, number nor array: " + v.String())
	return ""
}

// StmtRet as the schema holds it
func styTerm(x interface{}) string {
	switch t := x.(type) {
	case relmod.TypePrimitive:
		return "(SPrim " + common.GBytes(t.Primitive) + ")"
	case relmod.TypeRef:
		return fmt.Sprintf("(SRef %s %s)", gstrs(t.AppName), gstrs(t.TypePath))
	case relmod.TypeSet:
		return "(SSet " + styTerm(t.Set) + ")"
	case relmod.TypeSequence:
		return "(SSeq " + styTerm(t.Sequence) + ")"
	}
	bail(fmt.Sprintf("return type of unknown shape %T", x))
	return ""
}

func nvalTerm(x interface{}) string {
	switch v := x.(type) {
	case nil:
		return "(NStr [])"
	case string:
		return "(NStr " + common.GBytes(v) + ")"
	case map[string]interface{}:
		if a, ok := v["a"]; ok && len(v) == 1 {
			if l, ok := a.([]interface{}); ok {
				it := make([]string, len(l))
				for i, e := range l {
					it[i] = nvalTerm(e)
				}
				return "(NArr " + glist(it) + ")"
			}
		}
	}
	bail(fmt.Sprintf("name-value pair of unknown shape %T", x))
	return ""
}

func retTerm(r relmod.StatementReturn) string {
	ty := "None"
	if r.Type != nil {
		ty = "(Some " + styTerm(r.Type) + ")"
	}
	var nv []string
	for _, k := range sortedKeys(r.Attr.Nvp) {
		nv = append(nv, fmt.Sprintf("(%s, %s)", common.GBytes(k), nvalTerm(r.Attr.Nvp[k])))
	}
	return fmt.Sprintf("(XRet %s %s %s %s)", common.GBytes(r.Status), ty, gstrs(r.Attr.Modifier), glist(nv))
}
