package main

import (
	"context"
	"fmt"
	"reflect"
	"sort"
	"strings"
	"unicode"

	"github.com/anz-bank/sysl/pkg/arrai/relmod"
	"github.com/anz-bank/sysl/pkg/arrai/transform"
	"github.com/anz-bank/sysl/pkg/sysl"
	"github.com/arr-ai/arrai/rel"
)

// ---- `sysl transform`: the relational model a script SEES ----
// transform.BuildTransformInput packages relmod.Normalize(module) with the document model and the path; the script gets
// it as an arr.ai value. The harness runs the real assembly and the real evaluation with the identity script
// `\input input.models(0)` and reads the `rel` member of the answer back into a relmod.Schema by walking the VALUE along
// the Go type of the schema (own reader: names, kinds and emptiness are checked, an attribute the schema has no field
// for is an error). The relations of a script are SETS (`arrai:",unordered"`): the comparison with the rows of
// relmod.Normalize is one of sets of rows, relation by relation.

const identityScript = `\input input.models(0)`
const transformPath = "dir/m.sysl"

type trOutcome struct {
	kind string // ok | err | panic | decode (the value is not a relational model: msg says where)
	msg  string
	s    *relmod.Schema
	path string
}

func runTransform(m *sysl.Module) (o trOutcome) {
	defer func() {
		if r := recover(); r != nil {
			o = trOutcome{kind: "panic", msg: fmt.Sprint(r)}
		}
	}()
	in, err := transform.BuildTransformInput([]*sysl.Module{m}, []string{transformPath})
	if err != nil {
		return trOutcome{kind: "err", msg: "BuildTransformInput: " + firstLine(err.Error())}
	}
	v, err := transform.EvalWithParam([]byte(identityScript), "temp.arrai", in)
	if err != nil {
		return trOutcome{kind: "err", msg: "EvalWithParam: " + firstLine(err.Error())}
	}
	return decodeModel(v)
}

func firstLine(s string) string {
	s = ansiRE.ReplaceAllString(s, "")
	if i := strings.IndexByte(s, '\n'); i >= 0 {
		s = s[:i]
	}
	if len(s) > 200 {
		s = s[:200]
	}
	return s
}

// decodeModel: (path: ..., doc: ..., rel: ...) -> path + schema
func decodeModel(v rel.Value) trOutcome {
	t, ok := v.(rel.Tuple)
	if !ok {
		return trOutcome{kind: "decode", msg: fmt.Sprintf("the model is a %T, not a tuple", v)}
	}
	names := t.Names().OrderedNames()
	if strings.Join(names, ",") != "doc,path,rel" {
		return trOutcome{kind: "decode", msg: "members of a model: " + strings.Join(names, ",")}
	}
	p, _ := t.Get("path")
	ps, isStr := rel.AsString(p)
	if !isStr {
		return trOutcome{kind: "decode", msg: fmt.Sprintf("path is %v", p)}
	}
	rv, _ := t.Get("rel")
	s := &relmod.Schema{}
	if err := decodeInto(rv, reflect.ValueOf(s).Elem(), "rel", ""); err != nil {
		return trOutcome{kind: "decode", msg: err.Error()}
	}
	return trOutcome{kind: "ok", s: s, path: ps.String()}
}

func lowerCamel(s string) string {
	// strcase.ToLowerCamel on the identifiers of types.go: the leading run of capitals is lowered except its last letter
	// when a lower-case letter follows (URLParam has an explicit name); all schema fields start with ONE capital
	r := []rune(s)
	r[0] = unicode.ToLower(r[0])
	return string(r)
}

func arraiName(sf reflect.StructField) string {
	if tag, ok := sf.Tag.Lookup("arrai"); ok {
		if n := strings.Split(tag, ",")[0]; n != "" {
			return n
		}
	}
	return lowerCamel(sf.Name)
}

func isEmptySet(v rel.Value) bool {
	s, ok := v.(rel.Set)
	return ok && !s.IsTrue()
}

func elements(v rel.Value, at string) ([]rel.Value, error) {
	if isEmptySet(v) {
		return nil, nil
	}
	if a, ok := rel.AsArray(v); ok {
		for _, e := range a.Values() {
			if e == nil {
				return nil, fmt.Errorf("%s: array with a hole", at)
			}
		}
		return a.Values(), nil
	}
	if _, ok := v.(rel.Tuple); ok {
		return nil, fmt.Errorf("%s: a tuple where a collection is expected", at)
	}
	if s, ok := v.(rel.Set); ok {
		var out []rel.Value
		for e := s.Enumerator(); e.MoveNext(); {
			out = append(out, e.Current())
		}
		return out, nil
	}
	return nil, fmt.Errorf("%s: %T where a collection is expected", at, v)
}

func asInt(v rel.Value, at string) (int64, error) {
	n, ok := v.(rel.Number)
	if !ok {
		return 0, fmt.Errorf("%s: %v where a number is expected", at, v)
	}
	f := n.Float64()
	if f != float64(int64(f)) {
		return 0, fmt.Errorf("%s: %v is not an integer", at, f)
	}
	return int64(f), nil
}

func asStr(v rel.Value, at string) (string, error) {
	if isEmptySet(v) {
		return "", nil
	}
	if s, ok := rel.AsString(v); ok {
		return s.String(), nil
	}
	return "", fmt.Errorf("%s: %v where a string is expected", at, v)
}

// generic Go value of a member of StmtCall / StmtCond / ...: what normalizeStatement put there (strings, a list of
// strings, a count)
func plain(v rel.Value, name, at string) (interface{}, error) {
	if name == "appName" {
		es, err := elements(v, at)
		if err != nil {
			return nil, err
		}
		out := []string{}
		for _, e := range es {
			s, err := asStr(e, at)
			if err != nil {
				return nil, err
			}
			out = append(out, s)
		}
		return out, nil
	}
	if n, ok := v.(rel.Number); ok {
		return int64(n.Float64()), nil
	}
	return asStr(v, at)
}

// a Type* member: primitive / tuple / reference / set / sequence, or nothing
func decodeType(v rel.Value, at string) (interface{}, error) {
	if isEmptySet(v) {
		return nil, nil
	}
	t, ok := v.(rel.Tuple)
	if !ok {
		return nil, fmt.Errorf("%s: %v where a type is expected", at, v)
	}
	names := t.Names().OrderedNames()
	switch strings.Join(names, ",") {
	case "":
		return nil, fmt.Errorf("%s: an empty tuple where a type is expected", at)
	case "primitive":
		s, err := asStr(t.MustGet("primitive"), at)
		return relmod.TypePrimitive{Primitive: s}, err
	case "tuple":
		return relmod.TypeTuple{Tuple: t.MustGet("tuple")}, nil
	case "set":
		x, err := decodeType(t.MustGet("set"), at+".set")
		return relmod.TypeSet{Set: x}, err
	case "sequence":
		x, err := decodeType(t.MustGet("sequence"), at+".sequence")
		return relmod.TypeSequence{Sequence: x}, err
	case "appName,typePath":
		var r relmod.TypeRef
		if err := decodeInto(t.MustGet("appName"), reflect.ValueOf(&r.AppName).Elem(), at+".appName", "AppName"); err != nil {
			return nil, err
		}
		if err := decodeInto(t.MustGet("typePath"), reflect.ValueOf(&r.TypePath).Elem(), at+".typePath", "TypePath"); err != nil {
			return nil, err
		}
		return r, nil
	}
	return nil, fmt.Errorf("%s: a type with members %s", at, strings.Join(names, ","))
}

// decodeInto: `field` is the name of the schema field the value sits in, `zeroempty` whether the field is tagged so (a
// struct or map whose Go value is empty is then written as the empty tuple)
func decodeInto(v rel.Value, dst reflect.Value, at, field string) error {
	return decodeField(v, dst, at, field, false)
}

func decodeField(v rel.Value, dst reflect.Value, at, field string, zeroempty bool) error {
	if v == nil {
		return fmt.Errorf("%s: no value", at)
	}
	switch dst.Kind() {
	case reflect.String:
		s, err := asStr(v, at)
		dst.SetString(s)
		return err
	case reflect.Bool:
		s, ok := v.(rel.Set)
		if !ok || (s.IsTrue() && !v.Equal(rel.True)) {
			return fmt.Errorf("%s: %v where a boolean is expected", at, v)
		}
		dst.SetBool(s.IsTrue())
		return nil
	case reflect.Int, reflect.Int32, reflect.Int64:
		n, err := asInt(v, at)
		dst.SetInt(n)
		return err
	case reflect.Slice:
		es, err := elements(v, at)
		if err != nil {
			return err
		}
		if len(es) == 0 {
			return nil
		}
		out := reflect.MakeSlice(dst.Type(), len(es), len(es))
		for i, e := range es {
			if err := decodeInto(e, out.Index(i), fmt.Sprintf("%s[%d]", at, i), field); err != nil {
				return err
			}
		}
		dst.Set(out)
		return nil
	case reflect.Struct:
		t, ok := v.(rel.Tuple)
		if !ok {
			return fmt.Errorf("%s: %v where a tuple is expected", at, v)
		}
		if zeroempty && t.Count() == 0 {
			return nil
		}
		used := 0
		for i := 0; i < dst.NumField(); i++ {
			sf := dst.Type().Field(i)
			name := arraiName(sf)
			mv, has := t.Get(name)
			if !has {
				if strings.Contains(sf.Tag.Get("arrai"), "omitempty") {
					continue
				}
				return fmt.Errorf("%s: member %s is missing", at, name)
			}
			used++
			if err := decodeField(mv, dst.Field(i), at+"."+name, sf.Name, strings.Contains(sf.Tag.Get("arrai"), "zeroempty")); err != nil {
				return err
			}
		}
		if used != t.Count() {
			return fmt.Errorf("%s: %d members, the schema has %d: %v", at, t.Count(), used, t.Names().OrderedNames())
		}
		return nil
	case reflect.Map:
		if dst.Type().Elem().Kind() == reflect.Int64 { // EnumItems: a dictionary name -> number
			if isEmptySet(v) {
				return nil
			}
			d, ok := v.(rel.Dict)
			if !ok {
				return fmt.Errorf("%s: %v where a dictionary is expected", at, v)
			}
			out := reflect.MakeMap(dst.Type())
			for _, e := range d.OrderedEntries() {
				k, err := asStr(e.MustGet("@"), at)
				if err != nil {
					return err
				}
				n, err := asInt(e.MustGet(rel.DictValueAttr), at+"("+k+")")
				if err != nil {
					return err
				}
				out.SetMapIndex(reflect.ValueOf(k), reflect.ValueOf(n))
			}
			dst.Set(out)
			return nil
		}
		// map[string]interface{}: a tuple; no members = the unset map
		t, ok := v.(rel.Tuple)
		if !ok {
			return fmt.Errorf("%s: %v where a tuple is expected", at, v)
		}
		if t.Count() == 0 {
			return nil
		}
		out := reflect.MakeMap(dst.Type())
		for e := t.Enumerator(); e.MoveNext(); {
			name, mv := e.Current()
			var x interface{}
			var err error
			if field == "Nvp" {
				x = mv.Export(context.Background()) // as parseReturnPayload exported it
			} else {
				x, err = plain(mv, name, at+"."+name)
			}
			if err != nil {
				return err
			}
			out.SetMapIndex(reflect.ValueOf(name), reflect.ValueOf(&x).Elem())
		}
		dst.Set(out)
		return nil
	case reflect.Interface:
		if strings.HasSuffix(field, "AnnoValue") {
			dst.Set(reflect.ValueOf(&v).Elem().Convert(dst.Type()))
			return nil
		}
		x, err := decodeType(v, at)
		if err != nil {
			return err
		}
		if x != nil {
			dst.Set(reflect.ValueOf(x))
		}
		return nil
	}
	return fmt.Errorf("%s: the schema has a %s here", at, dst.Kind())
}

// rows of one relation as a set
func asSet(rows []string) []string {
	seen := map[string]bool{}
	var out []string
	for _, r := range rows {
		if !seen[r] {
			seen[r] = true
			out = append(out, r)
		}
	}
	sort.Strings(out)
	return out
}
