package main

import (
	"fmt"
	"sort"
	"strings"

	"github.com/anz-bank/sysl/pkg/arrai/relmod"
	"github.com/anz-bank/sysl/pkg/sysl"
	"github.com/arr-ai/arrai/rel"

	"verifharness/common"
)

// ---- the oracle: an independent census of the *sysl.Module, compared row for row with the schema ----
// A row is rendered as "col|col|..."; an expected row ending in "*" matches any observed row with that prefix
// (used where the property does not fix the content: payloads of corpus files, multi-constraint fields).

type census map[string][]string

func (cs census) add(rel string, parts ...string) { cs[rel] = append(cs[rel], strings.Join(parts, "|")) }

func jn(parts []string) string { return strings.Join(parts, ",") }
func pathStr(p []int) string {
	s := make([]string, len(p))
	for i, x := range p {
		s[i] = fmt.Sprint(x)
	}
	return strings.Join(s, ".")
}
func b2s(b bool) string {
	if b {
		return "1"
	}
	return "0"
}

func renderAttr(a *sysl.Attribute) string {
	switch v := a.GetAttribute().(type) {
	case *sysl.Attribute_S:
		if v.S == "" {
			return "0"
		}
		return "s:" + v.S
	case *sysl.Attribute_I:
		if v.I == 0 {
			return "0"
		}
		return fmt.Sprintf("n:%v", float64(v.I))
	case *sysl.Attribute_N:
		if v.N == 0 {
			return "0"
		}
		return fmt.Sprintf("n:%v", v.N)
	case *sysl.Attribute_A:
		if len(v.A.Elt) == 0 {
			return "0"
		}
		var p []string
		for _, e := range v.A.Elt {
			p = append(p, renderAttr(e))
		}
		return "[" + strings.Join(p, ";") + "]"
	}
	return "unset"
}

func renderVal(x interface{}) string {
	v, ok := x.(rel.Value)
	if !ok {
		return fmt.Sprintf("?%T", x)
	}
	if !v.IsTrue() {
		return "0"
	}
	if n, ok := v.(rel.Number); ok {
		return fmt.Sprintf("n:%v", float64(n))
	}
	if s, ok := rel.AsString(v); ok {
		return "s:" + s.String()
	}
	if a, ok := rel.AsArray(v); ok {
		var p []string
		for _, e := range a.Values() {
			if e == nil {
				p = append(p, "0")
			} else {
				p = append(p, renderVal(e))
			}
		}
		return "[" + strings.Join(p, ";") + "]"
	}
	return "?" + v.String()
}

func expType(app []string, t *sysl.Type) string {
	if t == nil {
		return "nil"
	}
	switch x := t.Type.(type) {
	case *sysl.Type_Primitive_:
		return "prim(" + x.Primitive.String() + ")"
	case *sysl.Type_Tuple_:
		return "tuple"
	case *sysl.Type_TypeRef:
		a := app
		if x.TypeRef.GetRef().GetAppname() != nil {
			a = x.TypeRef.Ref.Appname.Part
		} else if x.TypeRef.GetContext() != nil {
			a = x.TypeRef.Context.GetAppname().GetPart()
		}
		return "ref(" + jn(a) + ";" + strings.Join(x.TypeRef.GetRef().GetPath(), ".") + ")"
	case *sysl.Type_Set:
		return "set(" + expType(app, x.Set) + ")"
	case *sysl.Type_Sequence:
		return "seq(" + expType(app, x.Sequence) + ")"
	case *sysl.Type_List_:
		return expType(app, x.List.Type)
	}
	return "nil"
}

func obsType(x interface{}) string {
	switch t := x.(type) {
	case nil:
		return "nil"
	case relmod.TypePrimitive:
		return "prim(" + t.Primitive + ")"
	case relmod.TypeTuple:
		return "tuple"
	case relmod.TypeRef:
		return "ref(" + jn(t.AppName) + ";" + strings.Join(t.TypePath, ".") + ")"
	case relmod.TypeSet:
		return "set(" + obsType(t.Set) + ")"
	case relmod.TypeSequence:
		return "seq(" + obsType(t.Sequence) + ")"
	}
	return fmt.Sprintf("?%T", x)
}

// return-payload types are written in the payload's own vocabulary (lower-case primitive names)
func obsRetType(x interface{}) string {
	switch t := x.(type) {
	case nil:
		return ""
	case relmod.TypePrimitive:
		return "prim(" + t.Primitive + ")"
	case relmod.TypeRef:
		return "ref(" + jn(t.AppName) + ";" + strings.Join(t.TypePath, ".") + ")"
	case relmod.TypeSet:
		return "set(" + obsRetType(t.Set) + ")"
	case relmod.TypeSequence:
		return "seq(" + obsRetType(t.Sequence) + ")"
	}
	return fmt.Sprintf("?%T", x)
}

func srcStr(sc *sysl.SourceContext) string {
	if sc == nil {
		return "nil"
	}
	return fmt.Sprintf("%s:%d:%d", sc.File, sc.GetStart().GetLine(), sc.GetStart().GetCol())
}
func obsSrc(sc relmod.SourceContext) string {
	return fmt.Sprintf("%s:%d:%d", sc.File, sc.Start.Line, sc.Start.Col)
}


func tagsOf(attrs map[string]*sysl.Attribute) []string {
	var out []string
	if a, ok := attrs["patterns"]; ok {
		for _, e := range a.GetA().GetElt() {
			out = append(out, e.GetS())
		}
	}
	return out
}

func expMeta(cs census, kind string, attrs map[string]*sysl.Attribute, keys ...string) {
	k := strings.Join(keys, "|")
	for _, t := range tagsOf(attrs) {
		cs.add("Tag."+kind, k, t)
	}
	for n, a := range attrs {
		if n == "patterns" {
			continue
		}
		cs.add("Anno."+kind, k, n, renderAttr(a))
		if len(a.SourceContexts) > 0 {
			cs.add("Src.Anno."+kind, k, n, fmt.Sprint(len(a.SourceContexts)))
		}
	}
}

func expParam(cs census, an string, app []string, ep *sysl.Endpoint, name string, t *sysl.Type, i int, loc string) {
	if loc == "" {
		loc = "method"
		if t != nil {
			if tg := tagsOf(t.Attrs); len(tg) > 0 {
				loc = tg[0]
			}
		}
	}
	if t == nil {
		cs.add("Param", an, ep.Name, name, loc, fmt.Sprint(i), "0", "prim(any)")
		return
	}
	cs.add("Param", an, ep.Name, name, loc, fmt.Sprint(i), b2s(t.Opt), expType(app, t))
	expMeta(cs, "Param", t.Attrs, an, ep.Name, name, loc, fmt.Sprint(i))
	if len(t.SourceContexts) > 0 {
		cs.add("Src.Param", an, ep.Name, name, loc, fmt.Sprint(i), srcStr(t.SourceContexts[0]), fmt.Sprint(len(t.SourceContexts)))
	}
}

func expStmts(cs census, an string, app []string, ep *sysl.Endpoint, ss []*sysl.Statement, prefix []int) {
	for i, s := range ss {
		p := append(append([]int{}, prefix...), i)
		ps := pathStr(p)
		metaPath := ps
		detail := "none"
		switch x := s.Stmt.(type) {
		case *sysl.Statement_Action:
			if x.Action.Action == "..." {
				continue
			}
			if x.Action.Action != "" {
				detail = "action:" + x.Action.Action
			}
		case *sysl.Statement_Call:
			detail = "call:" + jn(x.Call.GetTarget().GetPart()) + "<-" + x.Call.Endpoint
		case *sysl.Statement_Cond:
			detail = "cond:" + x.Cond.Test
			expStmts(cs, an, app, ep, x.Cond.Stmt, p)
		case *sysl.Statement_Loop:
			detail = "loop:" + x.Loop.Mode.String() + ":" + x.Loop.Criterion
			expStmts(cs, an, app, ep, x.Loop.Stmt, p)
		case *sysl.Statement_LoopN:
			detail = fmt.Sprintf("loopn:%d", x.LoopN.Count)
			expStmts(cs, an, app, ep, x.LoopN.Stmt, p)
		case *sysl.Statement_Foreach:
			detail = "foreach:" + x.Foreach.Collection
			expStmts(cs, an, app, ep, x.Foreach.Stmt, p)
		case *sysl.Statement_Group:
			detail = "group:" + x.Group.Title
			expStmts(cs, an, app, ep, x.Group.Stmt, p)
		case *sysl.Statement_Ret:
			if x.Ret.Payload != "" {
				if m, ok := expectationOf(x.Ret.Payload); ok {
					detail = m.detail(app)
				} else {
					detail = "ret:*"
				}
			}
		case *sysl.Statement_Alt:
			// no row for the alt itself: one row per choice, the choice's statements below it
			for ci, ch := range x.Alt.Choice {
				cp := append(append([]int{}, p...), ci)
				cs.add("Stmt", an, ep.Name, pathStr(cp), "choice:"+ch.Cond)
				expStmts(cs, an, app, ep, ch.Stmt, cp)
				metaPath = pathStr(cp)
			}
			detail = ""
		}
		if detail != "" {
			cs.add("Stmt", an, ep.Name, ps, detail)
		}
		// the property wants one row per tag / annotation of the statement; which row of an alt they hang on is not fixed by it
		if s.GetAlt() != nil {
			metaPath = "*"
		}
		for _, t := range tagsOf(s.Attrs) {
			if metaPath == "*" {
				cs.add("Tag.Stmt", an, ep.Name, "*")
				_ = t
			} else {
				cs.add("Tag.Stmt", an, ep.Name, metaPath, t)
			}
		}
		for n, a := range s.Attrs {
			if n == "patterns" {
				continue
			}
			if metaPath == "*" {
				cs.add("Anno.Stmt", an, ep.Name, "*")
				if len(a.SourceContexts) > 0 {
					cs.add("Src.Anno.Stmt", an, ep.Name, "*")
				}
			} else {
				cs.add("Anno.Stmt", an, ep.Name, metaPath, n, renderAttr(a))
				if len(a.SourceContexts) > 0 {
					cs.add("Src.Anno.Stmt", an, ep.Name, metaPath, n, fmt.Sprint(len(a.SourceContexts)))
				}
			}
		}
		if len(s.SourceContexts) > 0 {
			if metaPath == "*" {
				cs.add("Src.Stmt", an, ep.Name, "*")
			} else {
				cs.add("Src.Stmt", an, ep.Name, metaPath, srcStr(s.SourceContexts[0]), fmt.Sprint(len(s.SourceContexts)))
			}
		}
	}
}

func expStrings(m *sysl.Module) census {
	cs := census{}
	for _, imp := range m.Imports {
		name := "nil"
		if imp.Name != nil {
			name = jn(imp.Name.Part)
		}
		cs.add("Import", imp.Target, name)
		cs.add("Src.Import", imp.Target, srcStr(imp.SourceContext))
	}
	for _, app := range m.Apps {
		ap := app.GetName().GetPart()
		an := jn(ap)
		cs.add("App", an, app.LongName, app.Docstring)
		expMeta(cs, "App", app.Attrs, an)
		if len(app.SourceContexts) > 0 {
			cs.add("Src.App", an, srcStr(app.SourceContexts[0]), fmt.Sprint(len(app.SourceContexts)))
		}
		for _, mx := range app.Mixin2 {
			mn := jn(mx.GetName().GetPart())
			cs.add("Mixin", an, mn)
			expMeta(cs, "Mixin", mx.Attrs, an, mn)
			if len(mx.SourceContexts) > 0 {
				cs.add("Src.Mixin", an, mn, srcStr(mx.SourceContexts[0]), fmt.Sprint(len(mx.SourceContexts)))
			}
		}
		for _, ep := range app.Endpoints {
			if ep.Name == "..." {
				continue
			}
			if ep.IsPubsub {
				cs.add("Event", an, ep.Name)
				for i, p := range ep.Param {
					expParam(cs, an, ap, ep, p.Name, p.Type, i, "")
				}
				expMeta(cs, "Event", ep.Attrs, an, ep.Name)
				if len(ep.SourceContexts) > 0 {
					cs.add("Src.Event", an, ep.Name, srcStr(ep.SourceContexts[0]), fmt.Sprint(len(ep.SourceContexts)))
				}
				continue
			}
			ev, rest := "", ""
			if ep.Source != nil {
				evn := ep.Name
				if i := strings.Index(evn, " -> "); i >= 0 {
					evn = evn[i+4:]
				}
				ev = jn(ep.Source.Part) + "/" + evn
			}
			if ep.RestParams != nil {
				rest = ep.RestParams.Method.String() + " " + ep.RestParams.Path
			}
			cs.add("Ep", an, ep.Name, ep.LongName, ep.Docstring, ev, rest)
			expMeta(cs, "Ep", ep.Attrs, an, ep.Name)
			if len(ep.SourceContexts) > 0 {
				cs.add("Src.Ep", an, ep.Name, srcStr(ep.SourceContexts[0]), fmt.Sprint(len(ep.SourceContexts)))
			}
			for i, p := range ep.Param {
				expParam(cs, an, ap, ep, p.Name, p.Type, i, "")
			}
			if ep.RestParams != nil {
				for i, p := range ep.RestParams.UrlParam {
					expParam(cs, an, ap, ep, p.Name, p.Type, i, "path")
				}
				for i, p := range ep.RestParams.QueryParam {
					expParam(cs, an, ap, ep, p.Name, p.Type, i, "query")
				}
			}
			expStmts(cs, an, ap, ep, ep.Stmt, nil)
		}
		for tn, t := range app.Types {
			cs.add("Type", an, tn, t.Docstring, b2s(t.Opt))
			var fields map[string]*sysl.Type
			switch x := t.Type.(type) {
			case *sysl.Type_Tuple_:
				fields = x.Tuple.AttrDefs
			case *sysl.Type_Relation_:
				cs.add("Table", an, tn, jn(x.Relation.GetPrimaryKey().GetAttrName()))
				fields = x.Relation.AttrDefs
			case *sysl.Type_Primitive_, *sysl.Type_Sequence, *sysl.Type_Set, *sysl.Type_TypeRef:
				cs.add("Alias", an, tn, expType(ap, t))
			case *sysl.Type_Enum_:
				var it []string
				for k, v := range x.Enum.Items {
					it = append(it, fmt.Sprintf("%s=%d", k, v))
				}
				sort.Strings(it)
				cs.add("Enum", an, tn, strings.Join(it, ","))
			}
			for fn, f := range fields {
				con := "0,0,0,0"
				switch len(f.Constraint) {
				case 0:
				case 1:
					c := f.Constraint[0]
					con = fmt.Sprintf("%d,%d,%d,%d", c.GetLength().GetMin(), c.GetLength().GetMax(), c.Precision, c.Scale)
				default:
					con = "*"
				}
				if con == "*" {
					cs.add("Field", an, tn, fn, b2s(f.Opt), expType(ap, f), "*")
				} else {
					cs.add("Field", an, tn, fn, b2s(f.Opt), expType(ap, f), con)
				}
				expMeta(cs, "Field", f.Attrs, an, tn, fn)
				if len(f.SourceContexts) > 0 {
					cs.add("Src.Field", an, tn, fn, srcStr(f.SourceContexts[0]), fmt.Sprint(len(f.SourceContexts)))
				}
			}
			expMeta(cs, "Type", t.Attrs, an, tn)
			if len(t.SourceContexts) > 0 {
				cs.add("Src.Type", an, tn, srcStr(t.SourceContexts[0]), fmt.Sprint(len(t.SourceContexts)))
			}
		}
		for vn, v := range app.Views {
			cs.add("View", an, vn, expType(ap, v.RetType))
			expMeta(cs, "View", v.Attrs, an, vn)
			if len(v.SourceContexts) > 0 {
				cs.add("Src.View", an, vn, srcStr(v.SourceContexts[0]), fmt.Sprint(len(v.SourceContexts)))
			}
		}
	}
	return cs
}

func obsStmtDetail(r relmod.Statement) string {
	var d []string
	if r.StmtAction != "" {
		d = append(d, "action:"+r.StmtAction)
	}
	if r.StmtCall != nil {
		an, _ := r.StmtCall["appName"].([]string)
		d = append(d, fmt.Sprintf("call:%s<-%v", jn(an), r.StmtCall["epName"]))
	}
	if r.StmtCond != nil {
		d = append(d, fmt.Sprintf("cond:%v", r.StmtCond["test"]))
	}
	if r.StmtLoop != nil {
		d = append(d, fmt.Sprintf("loop:%v:%v", r.StmtLoop["mode"], r.StmtLoop["criterion"]))
	}
	if r.StmtLoopN != nil {
		d = append(d, fmt.Sprintf("loopn:%v", r.StmtLoopN["count"]))
	}
	if r.StmtForeach != nil {
		d = append(d, fmt.Sprintf("foreach:%v", r.StmtForeach["coll"]))
	}
	if r.StmtGroup != nil {
		d = append(d, fmt.Sprintf("group:%v", r.StmtGroup["title"]))
	}
	if r.StmtAlt != nil {
		d = append(d, fmt.Sprintf("choice:%v", r.StmtAlt["choice"]))
	}
	if r.StmtRet.Status != "" || r.StmtRet.Type != nil {
		mods := append([]string{}, r.StmtRet.Attr.Modifier...)
		sort.Strings(mods)
		var nv []string
		for k, v := range r.StmtRet.Attr.Nvp {
			nv = append(nv, k+"="+renderNv(v))
		}
		sort.Strings(nv)
		d = append(d, "ret:"+r.StmtRet.Status+"/"+obsRetType(r.StmtRet.Type)+"/"+jn(mods)+"/"+jn(nv))
	}
	if len(d) == 0 {
		return "none"
	}
	return strings.Join(d, "+")
}

func obsStrings(s *relmod.Schema) census {
	cs := census{}
	for _, r := range s.Import {
		name := "nil"
		if r.Name != nil {
			name = jn(r.Name)
		}
		cs.add("Import", r.Target, name)
	}
	for _, r := range s.Src.Import {
		cs.add("Src.Import", r.Target, obsSrc(r.ImportSrc))
	}
	for _, r := range s.App {
		cs.add("App", jn(r.AppName), r.AppLongName, r.AppDocstring)
	}
	for _, r := range s.Mixin {
		cs.add("Mixin", jn(r.AppName), jn(r.MixinName))
	}
	for _, r := range s.Ep {
		ev, rest := "", ""
		if r.EpEvent.EventName != "" || r.EpEvent.AppName.Part != nil {
			ev = jn(r.EpEvent.AppName.Part) + "/" + r.EpEvent.EventName
		}
		if r.Rest.Method != "" || r.Rest.Path != "" {
			rest = r.Rest.Method + " " + r.Rest.Path
		}
		cs.add("Ep", jn(r.AppName), r.EpName, r.EpLongName, r.EpDocstring, ev, rest)
	}
	for _, r := range s.Event {
		cs.add("Event", jn(r.AppName), r.EventName)
	}
	for _, r := range s.Param {
		cs.add("Param", jn(r.AppName), r.EpName, r.ParamName, r.ParamLoc, fmt.Sprint(r.ParamIndex), b2s(r.ParamOpt), obsType(r.ParamType))
	}
	for _, r := range s.Stmt {
		cs.add("Stmt", jn(r.AppName), r.EpName, pathStr(r.StmtIndex), obsStmtDetail(r))
	}
	for _, r := range s.Type {
		cs.add("Type", jn(r.AppName), r.TypeName, r.TypeDocstring, b2s(r.TypeOpt))
	}
	for _, r := range s.Table {
		cs.add("Table", jn(r.AppName), r.TypeName, jn(r.Pk))
	}
	for _, r := range s.Alias {
		cs.add("Alias", jn(r.AppName), r.TypeName, obsType(r.AliasType))
	}
	for _, r := range s.Enum {
		var it []string
		for k, v := range r.EnumItems {
			it = append(it, fmt.Sprintf("%s=%d", k, v))
		}
		sort.Strings(it)
		cs.add("Enum", jn(r.AppName), r.TypeName, strings.Join(it, ","))
	}
	for _, r := range s.Field {
		c := r.FieldConstraint
		cs.add("Field", jn(r.AppName), r.TypeName, r.FieldName, b2s(r.FieldOpt), obsType(r.FieldType),
			fmt.Sprintf("%d,%d,%d,%d", c.Length.Min, c.Length.Max, c.Precision, c.Scale))
	}
	for _, r := range s.View {
		cs.add("View", jn(r.AppName), r.ViewName, obsType(r.ViewType))
	}
	// tags
	for _, r := range s.Tag.App {
		cs.add("Tag.App", jn(r.AppName), r.AppTag)
	}
	for _, r := range s.Tag.Mixin {
		cs.add("Tag.Mixin", jn(r.AppName), jn(r.MixinName), r.MixinTag)
	}
	for _, r := range s.Tag.Ep {
		cs.add("Tag.Ep", jn(r.AppName), r.EpName, r.EpTag)
	}
	for _, r := range s.Tag.Param {
		cs.add("Tag.Param", jn(r.AppName), r.EpName, r.ParamName, r.ParamLoc, fmt.Sprint(r.ParamIndex), r.ParamTag)
	}
	for _, r := range s.Tag.Stmt {
		cs.add("Tag.Stmt", jn(r.AppName), r.EpName, pathStr(r.StmtIndex), r.StmtTag)
	}
	for _, r := range s.Tag.Event {
		cs.add("Tag.Event", jn(r.AppName), r.EventName, r.EventTag)
	}
	for _, r := range s.Tag.Type {
		cs.add("Tag.Type", jn(r.AppName), r.TypeName, r.TypeTag)
	}
	for _, r := range s.Tag.Field {
		cs.add("Tag.Field", jn(r.AppName), r.TypeName, r.FieldName, r.FieldTag)
	}
	for _, r := range s.Tag.View {
		cs.add("Tag.View", jn(r.AppName), r.ViewName, r.ViewTag)
	}
	// annotations
	for _, r := range s.Anno.App {
		cs.add("Anno.App", jn(r.AppName), r.AppAnnoName, renderVal(r.AppAnnoValue))
	}
	for _, r := range s.Anno.Mixin {
		cs.add("Anno.Mixin", jn(r.AppName), jn(r.MixinName), r.MixinAnnoName, renderVal(r.MixinAnnoValue))
	}
	for _, r := range s.Anno.Ep {
		cs.add("Anno.Ep", jn(r.AppName), r.EpName, r.EpAnnoName, renderVal(r.EpAnnoValue))
	}
	for _, r := range s.Anno.Param {
		cs.add("Anno.Param", jn(r.AppName), r.EpName, r.ParamName, r.ParamLoc, fmt.Sprint(r.ParamIndex), r.ParamAnnoName, renderVal(r.ParamAnnoValue))
	}
	for _, r := range s.Anno.Stmt {
		cs.add("Anno.Stmt", jn(r.AppName), r.EpName, pathStr(r.StmtIndex), r.StmtAnnoName, renderVal(r.StmtAnnoValue))
	}
	for _, r := range s.Anno.Event {
		cs.add("Anno.Event", jn(r.AppName), r.EventName, r.EventAnnoName, renderVal(r.EventAnnoValue))
	}
	for _, r := range s.Anno.Type {
		cs.add("Anno.Type", jn(r.AppName), r.TypeName, r.TypeAnnoName, renderVal(r.TypeAnnoValue))
	}
	for _, r := range s.Anno.Field {
		cs.add("Anno.Field", jn(r.AppName), r.TypeName, r.FieldName, r.FieldAnnoName, renderVal(r.FieldAnnoValue))
	}
	for _, r := range s.Anno.View {
		cs.add("Anno.View", jn(r.AppName), r.ViewName, r.ViewAnnoName, renderVal(r.ViewAnnoValue))
	}
	// source contexts
	n := func(x []relmod.SourceContext) string { return fmt.Sprint(len(x)) }
	for _, r := range s.Src.App {
		cs.add("Src.App", jn(r.AppName), obsSrc(r.AppSrc), n(r.AppSrcs))
	}
	for _, r := range s.Src.Mixin {
		cs.add("Src.Mixin", jn(r.AppName), jn(r.MixinName), obsSrc(r.MixinSrc), n(r.MixinSrcs))
	}
	for _, r := range s.Src.Ep {
		cs.add("Src.Ep", jn(r.AppName), r.EpName, obsSrc(r.EpSrc), n(r.EpSrcs))
	}
	for _, r := range s.Src.Param {
		cs.add("Src.Param", jn(r.AppName), r.EpName, r.ParamName, r.ParamLoc, fmt.Sprint(r.ParamIndex), obsSrc(r.ParamSrc), n(r.ParamSrcs))
	}
	for _, r := range s.Src.Stmt {
		cs.add("Src.Stmt", jn(r.AppName), r.EpName, pathStr(r.StmtIndex), obsSrc(r.StmtSrc), n(r.StmtSrcs))
	}
	for _, r := range s.Src.Event {
		cs.add("Src.Event", jn(r.AppName), r.EventName, obsSrc(r.EventSrc), n(r.EventSrcs))
	}
	for _, r := range s.Src.Type {
		cs.add("Src.Type", jn(r.AppName), r.TypeName, obsSrc(r.TypeSrc), n(r.TypeSrcs))
	}
	for _, r := range s.Src.Field {
		cs.add("Src.Field", jn(r.AppName), r.TypeName, r.FieldName, obsSrc(r.FieldSrc), n(r.FieldSrcs))
	}
	for _, r := range s.Src.View {
		cs.add("Src.View", jn(r.AppName), r.ViewName, obsSrc(r.ViewSrc), n(r.ViewSrcs))
	}
	for _, r := range s.Src.Anno.App {
		cs.add("Src.Anno.App", jn(r.AppName), r.AnnoName, n(r.AnnoSrcs))
	}
	for _, r := range s.Src.Anno.Mixin {
		cs.add("Src.Anno.Mixin", jn(r.AppName), jn(r.MixinName), r.AnnoName, n(r.AnnoSrcs))
	}
	for _, r := range s.Src.Anno.Ep {
		cs.add("Src.Anno.Ep", jn(r.AppName), r.EpName, r.AnnoName, n(r.AnnoSrcs))
	}
	for _, r := range s.Src.Anno.Param {
		cs.add("Src.Anno.Param", jn(r.AppName), r.EpName, r.ParamName, r.ParamLoc, fmt.Sprint(r.ParamIndex), r.AnnoName, n(r.AnnoSrcs))
	}
	for _, r := range s.Src.Anno.Stmt {
		cs.add("Src.Anno.Stmt", jn(r.AppName), r.EpName, pathStr(r.StmtIndex), r.AnnoName, n(r.AnnoSrcs))
	}
	for _, r := range s.Src.Anno.Event {
		cs.add("Src.Anno.Event", jn(r.AppName), r.EventName, r.AnnoName, n(r.AnnoSrcs))
	}
	for _, r := range s.Src.Anno.Type {
		cs.add("Src.Anno.Type", jn(r.AppName), r.TypeName, r.AnnoName, n(r.AnnoSrcs))
	}
	for _, r := range s.Src.Anno.Field {
		cs.add("Src.Anno.Field", jn(r.AppName), r.TypeName, r.FieldName, r.AnnoName, n(r.AnnoSrcs))
	}
	for _, r := range s.Src.Anno.View {
		cs.add("Src.Anno.View", jn(r.AppName), r.ViewName, r.AnnoName, n(r.AnnoSrcs))
	}
	return cs
}

// diffRows compares expected and observed rows of one relation as multisets (with "*" prefixes on the expected side)
func diffRows(exp, obs []string) (missing, extra []string) {
	cnt := map[string]int{}
	for _, o := range obs {
		cnt[o]++
	}
	var wild []string
	for _, e := range exp {
		if strings.HasSuffix(e, "*") {
			wild = append(wild, e)
			continue
		}
		if cnt[e] > 0 {
			cnt[e]--
		} else {
			missing = append(missing, e)
		}
	}
	var rest []string
	for o, n := range cnt {
		for i := 0; i < n; i++ {
			rest = append(rest, o)
		}
	}
	sort.Strings(rest)
	for _, w := range wild {
		pre := strings.TrimSuffix(w, "*")
		found := -1
		for i, o := range rest {
			if strings.HasPrefix(o, pre) {
				found = i
				break
			}
		}
		if found >= 0 {
			rest = append(rest[:found], rest[found+1:]...)
		} else {
			missing = append(missing, w)
		}
	}
	sort.Strings(missing)
	return missing, rest
}

func short(l []string) string {
	if len(l) > 3 {
		return fmt.Sprintf("%q ... (%d)", l[:3], len(l))
	}
	return fmt.Sprintf("%q", l)
}

// judged: the relations the property names - one row per application, mixin, endpoint, parameter, statement, type,
// table key, field, enum, alias, event, annotation and tag. The remaining relations of the schema (Import, View,
// Src.*: source locations) are only required to be the same on every run.
func judged(rel string) bool {
	switch rel {
	case "App", "Mixin", "Ep", "Event", "Param", "Stmt", "Type", "Table", "Field", "Enum", "Alias":
		return true
	}
	return strings.HasPrefix(rel, "Tag.") || strings.HasPrefix(rel, "Anno.")
}

func judge(c *common.Ctx, cr *caseResult) {
	name := cr.rp.File
	if cr.rp.Kind == "direct" {
		name = fmt.Sprintf("seed-built protobuf module (seed %d)", cr.rp.Seed)
	} else if name == "" {
		name = "generated specification"
		if cr.rp.Strip != "" {
			name += " (source contexts stripped: " + cr.rp.Strip + ")"
		}
	}
	o := cr.o1
	switch o.kind {
	case "panic":
		c.Fail("crash:"+o.site, fmt.Sprintf("relmod.Normalize panics in %s on %s: %s", o.site, name, o.msg), cr.rp)
		return
	case "err":
		if cr.o2.kind != "err" {
			c.Fail("nondeterministic", fmt.Sprintf("relmod.Normalize refused %s once and answered %s the second time", name, cr.o2.kind), cr.rp)
		}
		if cr.genInfo != nil && !cr.genInfo.bad {
			key := "refused:valid-payload"
			if cr.genInfo.shadowed {
				key = "refused:listed-primitive"
			} else if cr.genInfo.prefixed {
				key = "refused:primitive-prefixed-name"
			}
			c.Fail(key, fmt.Sprintf("relmod.Normalize refuses a %s whose return payloads all have the documented form status <: type [attributes]: %s", name, o.msg), cr.rp)
		}
		return
	}
	if cr.o2.kind != "ok" {
		c.Fail("nondeterministic", fmt.Sprintf("relmod.Normalize answered %s once and %s the second time", name, cr.o2.kind), cr.rp)
		return
	}
	obs, obs2 := obsStrings(o.s), obsStrings(cr.o2.s)
	exp := expStrings(cr.m)
	rels := map[string]bool{}
	for k := range obs {
		rels[k] = true
	}
	for k := range obs2 {
		rels[k] = true
	}
	for k := range exp {
		rels[k] = true
	}
	var names []string
	for k := range rels {
		names = append(names, k)
	}
	sort.Strings(names)
	// position paths pairwise distinct within an endpoint
	seen := map[string]int{}
	for _, r := range obs["Stmt"] {
		p := strings.SplitN(r, "|", 4)
		seen[strings.Join(p[:3], "|")]++
	}
	var dups []string
	for k, n := range seen {
		if n > 1 {
			dups = append(dups, fmt.Sprintf("%s x%d", k, n))
		}
	}
	if len(dups) > 0 {
		sort.Strings(dups)
		c.Fail("stmt:duplicate-path", fmt.Sprintf("%s: statement rows share a position path (app|endpoint|path): %s", name, short(dups)), cr.rp)
		return
	}
	for _, k := range names {
		a, b := append([]string{}, obs[k]...), append([]string{}, obs2[k]...)
		sort.Strings(a)
		sort.Strings(b)
		if strings.Join(a, "\n") != strings.Join(b, "\n") {
			c.Fail("nondeterministic", fmt.Sprintf("%s: two runs of relmod.Normalize give different %s rows", name, k), cr.rp)
			return
		}
		if !judged(k) {
			continue
		}
		missing, extra := diffRows(exp[k], obs[k])
		if len(missing) > 0 || len(extra) > 0 {
			c.Fail("rows:"+k, fmt.Sprintf("%s: relation %s is not the image of the module: %d expected, %d rows; missing %s; unexpected %s",
				name, k, len(exp[k]), len(obs[k]), short(missing), short(extra)), cr.rp)
			return
		}
	}
	// "carrying the same ... constraints": a Field row has columns for length, precision and scale only. The bit width
	// (and, for the integers, the range) by which the compiler tells int32 / int64 / float32 / float64 from int / float
	// has no column: the rows of `x <: int32`, `x <: int64` and `x <: int` are the same. One report per module.
	if w := droppedConstraint(cr.m, func(c *sysl.Type_Constraint) bool { return c.GetBitWidth() != 0 }); w != "" {
		c.Fail("field:bit-width-not-in-row", fmt.Sprintf("%s: field %s has a bit-width constraint; relmod.Field has no column for it (FieldConstraint = length, precision, scale): int32 / int64 / float32 / float64 cannot be told from int / float in the relational model", name, w), cr.rp)
	}
	if w := droppedConstraint(cr.m, func(c *sysl.Type_Constraint) bool { return c.GetRange() != nil }); w != "" {
		c.Fail("field:range-not-in-row", fmt.Sprintf("%s: field %s has a range constraint; relmod.Field has no column for it (FieldConstraint = length, precision, scale)", name, w), cr.rp)
	}
}

// the first field (applications, types, fields in name order) one of whose constraints satisfies p
func droppedConstraint(m *sysl.Module, p func(*sysl.Type_Constraint) bool) string {
	for _, an := range sortedKeys(m.Apps) {
		app := m.Apps[an]
		for _, tn := range sortedKeys(app.GetTypes()) {
			var fields map[string]*sysl.Type
			switch x := app.Types[tn].GetType().(type) {
			case *sysl.Type_Tuple_:
				fields = x.Tuple.GetAttrDefs()
			case *sysl.Type_Relation_:
				fields = x.Relation.GetAttrDefs()
			}
			for _, fn := range sortedKeys(fields) {
				for _, c := range fields[fn].GetConstraint() {
					if p(c) {
						return an + "." + tn + "." + fn
					}
				}
			}
		}
	}
	return ""
}

func schemaSize(s *relmod.Schema) int {
	n := 0
	for _, rows := range obsStrings(s) {
		n += len(rows)
	}
	return n
}

// `sysl transform`: what the identity script saw against what relmod.Normalize returned for the same module
func judgeTransform(c *common.Ctx, cr *caseResult) {
	name := cr.rp.File
	if cr.rp.Kind == "direct" {
		name = fmt.Sprintf("seed-built protobuf module (seed %d)", cr.rp.Seed)
	} else if name == "" {
		name = "generated specification"
	}
	tr := cr.tr
	switch tr.kind {
	case "panic":
		c.Fail("transform:crash", fmt.Sprintf("%s: building the transform input / running the identity script panics: %s", name, tr.msg), cr.rp)
		return
	case "decode":
		c.Fail("transform:shape", fmt.Sprintf("%s: the model handed to a transform script is not (path, doc, rel: the relational schema): %s", name, tr.msg), cr.rp)
		return
	case "err":
		if cr.o1.kind == "ok" {
			c.Fail("transform:refused", fmt.Sprintf("%s: relmod.Normalize accepts the module, the transform refuses it: %s", name, tr.msg), cr.rp)
		}
		return
	}
	if cr.o1.kind != "ok" {
		c.Fail("transform:accepted", fmt.Sprintf("%s: relmod.Normalize answers %s (%s), the transform ran", name, cr.o1.kind, cr.o1.msg), cr.rp)
		return
	}
	if tr.path != transformPath {
		c.Fail("transform:path", fmt.Sprintf("%s: the model's path is %q, the command was given %q", name, tr.path, transformPath), cr.rp)
	}
	a, b := obsStrings(cr.o1.s), obsStrings(tr.s)
	rels := map[string]bool{}
	for k := range a {
		rels[k] = true
	}
	for k := range b {
		rels[k] = true
	}
	var names []string
	for k := range rels {
		names = append(names, k)
	}
	sort.Strings(names)
	for _, k := range names {
		sa, sb := asSet(a[k]), asSet(b[k])
		if len(sa) < len(a[k]) {
			c.Hist("transform:equal-rows-merged-in-the-set:" + k)
		}
		missing, extra := diffRows(sa, sb)
		if len(missing) > 0 || len(extra) > 0 {
			c.Fail("transform:rows:"+k, fmt.Sprintf("%s: relation %s as the script sees it differs from relmod.Normalize: not seen %s; only seen %s", name, k, short(missing), short(extra)), cr.rp)
			return
		}
	}
}
