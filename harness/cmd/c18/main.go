// C18 correspondence + oracle: every afero.Fs method of syslutil.ChrootFs over a recording inner
// filesystem, on path spellings built from a small segment alphabet.
package main

import (
	"fmt"
	"os"
	"strings"
	"time"

	"github.com/anz-bank/sysl/pkg/syslutil"
	"github.com/spf13/afero"

	"verifharness/common"
)

// ---- recording inner filesystem ----
type rec struct {
	afero.Fs
	calls []call
}
type call struct {
	op    string
	paths []string
}

func (r *rec) note(op string, p ...string)         { r.calls = append(r.calls, call{op, p}) }
func (r *rec) Create(n string) (afero.File, error) { r.note("Create", n); return r.Fs.Create(n) }
func (r *rec) Mkdir(n string, p os.FileMode) error { r.note("Mkdir", n); return r.Fs.Mkdir(n, p) }
func (r *rec) MkdirAll(n string, p os.FileMode) error {
	r.note("MkdirAll", n)
	return r.Fs.MkdirAll(n, p)
}
func (r *rec) Open(n string) (afero.File, error) { r.note("Open", n); return r.Fs.Open(n) }
func (r *rec) OpenFile(n string, f int, p os.FileMode) (afero.File, error) {
	r.note("OpenFile", n)
	return r.Fs.OpenFile(n, f, p)
}
func (r *rec) Remove(n string) error               { r.note("Remove", n); return r.Fs.Remove(n) }
func (r *rec) RemoveAll(n string) error            { r.note("RemoveAll", n); return r.Fs.RemoveAll(n) }
func (r *rec) Rename(a, b string) error            { r.note("Rename", a, b); return r.Fs.Rename(a, b) }
func (r *rec) Stat(n string) (os.FileInfo, error)  { r.note("Stat", n); return r.Fs.Stat(n) }
func (r *rec) Chmod(n string, m os.FileMode) error { r.note("Chmod", n); return r.Fs.Chmod(n, m) }
func (r *rec) Chown(n string, u, g int) error      { r.note("Chown", n); return r.Fs.Chown(n, u, g) }
func (r *rec) Chtimes(n string, a, m time.Time) error {
	r.note("Chtimes", n)
	return r.Fs.Chtimes(n, a, m)
}

// ---- alphabet ----
var alphabet = []string{"", ".", "..", "a", "b.c", "d e", "..x"}
var gseg = []string{"E", "D", "U", "n 1", "n 2", "n 3", "n 4"}
var nameID = map[string]int{"a": 1, "b.c": 2, "d e": 3, "..x": 4, "r": 5, "s": 6}

// ops in the order of Gen.ChrootOps.ops (sorted by name)
var ops = []string{"Chmod", "Chown", "Chtimes", "Create", "Mkdir", "MkdirAll", "Open", "OpenFile", "Remove", "RemoveAll", "Rename", "Stat"}

func invoke(fs afero.Fs, op string, a, b string) {
	defer func() { recover() }()
	switch op {
	case "Chmod":
		fs.Chmod(a, 0o644)
	case "Chown":
		fs.Chown(a, 1, 1)
	case "Chtimes":
		fs.Chtimes(a, time.Time{}, time.Time{})
	case "Create":
		if f, err := fs.Create(a); err == nil && f != nil {
			f.Close()
		}
	case "Mkdir":
		fs.Mkdir(a, 0o755)
	case "MkdirAll":
		fs.MkdirAll(a, 0o755)
	case "Open":
		if f, err := fs.Open(a); err == nil && f != nil {
			f.Close()
		}
	case "OpenFile":
		if f, err := fs.OpenFile(a, os.O_RDONLY, 0); err == nil && f != nil {
			f.Close()
		}
	case "Remove":
		fs.Remove(a)
	case "RemoveAll":
		fs.RemoveAll(a)
	case "Rename":
		fs.Rename(a, b)
	case "Stat":
		fs.Stat(a)
	}
}

// independent oracle: stack cleaning over string segments
func cleanStack(segs []string) []string {
	var st []string
	for _, s := range segs {
		switch s {
		case "", ".":
		case "..":
			if len(st) > 0 {
				st = st[:len(st)-1]
			}
		default:
			st = append(st, s)
		}
	}
	return st
}
func hasPrefix(p, r []string) bool {
	if len(p) < len(r) {
		return false
	}
	for i := range r {
		if p[i] != r[i] {
			return false
		}
	}
	return true
}
func splitAbs(p string) []string { return strings.Split(strings.TrimPrefix(p, "/"), "/") }

type pathSpec struct {
	abs  bool
	segs []int // indices into alphabet
}

func (p pathSpec) str() string {
	parts := make([]string, len(p.segs))
	for i, s := range p.segs {
		parts[i] = alphabet[s]
	}
	s := strings.Join(parts, "/")
	if p.abs {
		s = "/" + s
	}
	return s
}
func (p pathSpec) strSegs() []string {
	// what strings.Split(path, "/") would give: the model's segment list
	return strings.Split(p.str(), "/")
}
func gsegs(ss []string) string {
	it := make([]string, len(ss))
	for i, s := range ss {
		switch s {
		case "":
			it[i] = "E"
		case ".":
			it[i] = "D"
		case "..":
			it[i] = "U"
		default:
			id, ok := nameID[s]
			if !ok {
				panic("unknown name " + s)
			}
			it[i] = fmt.Sprintf("n %d", id)
		}
	}
	return "[" + strings.Join(it, ";") + "]"
}
func gnames(ss []string) string {
	it := make([]string, len(ss))
	for i, s := range ss {
		it[i] = fmt.Sprintf("%d", nameID[s])
	}
	return "[" + strings.Join(it, ";") + "]%positive"
}

type replay struct {
	Op     string   `json:"op"`
	Root   string   `json:"root"`
	Args   []string `json:"args"`
	Cwd    string   `json:"cwd,omitempty"`    // working directory in force when NewChrootFs is called (relative roots)
	Quoted bool     `json:"quoted,omitempty"` // Root/Args/Cwd are strconv.Quote'd (they hold bytes that are not valid UTF-8)
}

var roots = []string{"/", "/r", "/r/s", "/r/s/a", "/r/./s", "/r//s/", "/r/../s", "/a"}

type obs struct {
	reached bool
	paths   []string
}

// effRoot: the root in force as one absolute spelling (a relative root is resolved against cwd, as filepath.Abs does)
func effRoot(cwd, root string) string {
	if strings.HasPrefix(root, "/") {
		return root
	}
	return cwd + "/" + root
}

var origWd, _ = os.Getwd()

func observe(cwd, root, op string, args []string) obs {
	r := &rec{Fs: afero.NewMemMapFs()}
	if cwd != "" {
		if err := os.Chdir(cwd); err != nil {
			panic(err)
		}
	}
	fs := syslutil.NewChrootFs(r, root)
	if cwd != "" {
		os.Chdir(origWd)
	}
	b := ""
	if len(args) > 1 {
		b = args[1]
	}
	invoke(fs, op, args[0], b)
	if len(r.calls) == 0 {
		return obs{}
	}
	// the wrapper makes exactly one inner call per operation
	var ps []string
	for _, c := range r.calls {
		ps = append(ps, c.paths...)
	}
	return obs{true, ps}
}

// judge the PROPERTY on one observation, model-independently
func judge(c *common.Ctx, cwd, root0, op string, args []string, o obs) {
	judgeWith(c, "", "", mkReplay(op, root0, args, cwd), cwd, root0, op, args, o)
}

// judgeWith: the same verdict with a message prefix, a key prefix and the replay to attach (histories)
func judgeWith(c *common.Ctx, msg, keyPrefix string, rp interface{}, cwd, root0, op string, args []string, o obs) {
	root := effRoot(cwd, root0)
	cr := cleanStack(splitAbs(root))
	want := make([][]string, len(args))
	allInside := true
	for i, a := range args {
		want[i] = cleanStack(append(splitAbs(root), strings.Split(a, "/")...))
		if !hasPrefix(want[i], cr) {
			allInside = false
		}
	}
	if o.reached {
		for _, p := range o.paths {
			if !hasPrefix(cleanStack(splitAbs(p)), cr) {
				c.Fail(keyPrefix+"escape:"+op, msg+fmt.Sprintf("%s(%q) under root %q reached the inner filesystem with %q", op, args, root, p), rp)
				return
			}
		}
	}
	if allInside {
		if !o.reached {
			c.Fail(keyPrefix+"inside-refused:"+op, msg+fmt.Sprintf("%s(%q) under root %q stays inside the root but was refused", op, args, root), rp)
			return
		}
		if len(o.paths) != len(args) {
			c.Fail(keyPrefix+"inside-wrong-file:"+op, msg+fmt.Sprintf("%s(%q) under root %q: inner call got %q", op, args, root, o.paths), rp)
			return
		}
		for i := range args {
			if "/"+strings.Join(want[i], "/") != o.paths[i] {
				c.Fail(keyPrefix+"inside-wrong-file:"+op, msg+fmt.Sprintf("%s(%q) under root %q resolved to %q, canonical spelling is %q", op, args, root, o.paths[i], "/"+strings.Join(want[i], "/")), rp)
				return
			}
		}
	}
}

func enumerate(maxSegs int, f func(p pathSpec)) {
	var rec func(cur []int)
	rec = func(cur []int) {
		for _, abs := range []bool{false, true} {
			f(pathSpec{abs, append([]int(nil), cur...)})
		}
		if len(cur) == maxSegs {
			return
		}
		for i := range alphabet {
			rec(append(cur, i))
		}
	}
	rec(nil)
}

func randPath(r *common.Rng, maxSegs int) pathSpec {
	n := r.Intn(maxSegs + 1)
	p := pathSpec{abs: r.Bool()}
	for i := 0; i < n; i++ {
		p.segs = append(p.segs, r.Intn(len(alphabet)))
	}
	return p
}

func main() {
	c := common.Setup("C18")
	defer c.Finish()
	c.Res.Rule = "each case = (operation, root, path arguments spelled over the segment alphabet {\"\", \".\", \"..\", a, b.c, \"d e\", ..x}); exhaustive up to the stated length for the Go oracle, sampled for the in-Coq comparison; distinct = distinct (op, root, args); non-trivial = the spelling contains at least one of \"\", \".\", \"..\" or is absolute; further streams: raw byte strings, histories, end-to-end imports (see the stream-specific counters), letter-case families (roots and targets that differ only in case; non-trivial = an argument holds a case variant of a root component), nested wrappers NewChrootFs(NewChrootFs(fs, lower), upper) (non-trivial = the upper root climbs above \"/\" or the spelling is non-trivial), the loader without a root argument over marker sets"
	if c.Replay != "" {
		var irp impReplay
		var brp ibReplay
		var nrp nestReplay
		if err := common.LoadReplay(c.Replay, &nrp); err == nil && nrp.Kind == "nested" {
			nrp = nrp.unquote()
			o := observeNested(nrp.Cwd, nrp.Lower, nrp.Upper, nrp.Op, nrp.Args)
			judgeNested(c, nrp.Cwd, nrp.Lower, nrp.Upper, nrp.Op, nrp.Args, o)
			c.Count(fmt.Sprint(nrp), true)
			fmt.Printf("replay nested %s%q: lower root %q, upper root %q (cwd %q): reached=%v innermost=%q failures=%d\n", nrp.Op, nrp.Args, nrp.Lower, nrp.Upper, nrp.Cwd, o.reached, o.paths, len(c.Res.Failures))
			return
		}
		if err := common.LoadReplay(c.Replay, &brp); err == nil && brp.Raw {
			o := ibObserveFamily(c, brp)
			ibJudgeFamily(c, brp, o)
			c.Count(fmt.Sprint(brp), true)
			fmt.Printf("replay %+v: model=%v apps=%v inner-opens=%q cache=%q failures=%d\n", brp, o.ok, o.apps, o.opens, o.cached, len(c.Res.Failures))
			return
		}
		var hrp histReplay
		if err := common.LoadReplay(c.Replay, &hrp); err == nil && hrp.Kind == "history" {
			hrp = hrp.unquote()
			o := observeHistory(hrp.Cwd, hrp.Root, hrp.Steps, hrp.Fails)
			judgeHistory(c, hrp.Cwd, hrp.Root, hrp.Steps, o, hrp.Fails)
			c.Count(fmt.Sprint(hrp), true)
			for i, st := range hrp.Steps {
				fmt.Printf("replay history step %d: %s%q under root %q: reached=%v inner=%q\n", i+1, st.Op, st.Args, hrp.Root, o[i].reached, o[i].paths)
			}
			fmt.Printf("failures=%d\n", len(c.Res.Failures))
			return
		}
		if err := common.LoadReplay(c.Replay, &irp); err == nil && (irp.Kind == "import" || irp.Kind == "module") {
			o := observeImport(irp)
			judgeImport(c, irp, o)
			c.Count(fmt.Sprint(irp), true)
			fmt.Printf("replay %v: model=%v apps=%v inner=%v failures=%d\n", irp, o.ok, o.apps, o.inner, len(c.Res.Failures))
			return
		}
		var rp replay
		if err := common.LoadReplay(c.Replay, &rp); err != nil {
			fmt.Fprintln(os.Stderr, err)
			os.Exit(3)
		}
		rp = rp.unquote()
		o := observe(rp.Cwd, rp.Root, rp.Op, rp.Args)
		judge(c, rp.Cwd, rp.Root, rp.Op, rp.Args, o)
		c.Count(fmt.Sprint(rp), true)
		fmt.Printf("replay %v: reached=%v paths=%q failures=%d\n", rp, o.reached, o.paths, len(c.Res.Failures))
		return
	}
	header := `From Coq Require Import List NArith PArith Bool. Import ListNotations.
Require Import Verif.Chroot.Path Verif.Chroot.Run Verif.Gen.ChrootOps Verif.Base.Harness.
Notation E := Empty. Notation D := Dot. Notation U := DotDot. Definition n (p:positive) := Name p.`
	footer := `Definition M := Eval vm_compute in mismatches (c18_ok ops) cases. Print M.`
	cs := c.NewCases("C18", header, "c18_case", footer, 1500)

	nontrivial := func(args []string) bool {
		for _, a := range args {
			if strings.HasPrefix(a, "/") {
				return true
			}
			for _, s := range strings.Split(a, "/") {
				if s == "" || s == "." || s == ".." {
					return true
				}
			}
		}
		return false
	}
	emit := func(opi int, root string, args []string, o obs) {
		ga := make([]string, len(args))
		for i, a := range args {
			ga[i] = gsegs(strings.Split(a, "/"))
		}
		var gp []string
		for _, p := range o.paths {
			gp = append(gp, gnames(cleanStack(splitAbs(p))))
			if "/"+strings.Join(cleanStack(splitAbs(p)), "/") != p {
				// the inner fs must be given cleaned absolute paths; an uncleaned one cannot be represented: force mismatch
				gp[len(gp)-1] = "[99]%positive"
			}
		}
		term := fmt.Sprintf("(%d%%nat, %s, %s, %s)", opi, gsegs(splitAbs(root)), common.GList(ga), common.GOptList(o.reached, gp))
		cs.Add(term, mkReplay(ops[opi], root, args, ""))
	}
	one := func(opi int, root string, args []string, toCoq bool) {
		o := observe("", root, ops[opi], args)
		judge(c, "", root, ops[opi], args, o)
		c.Count(ops[opi]+"|"+root+"|"+strings.Join(args, "|"), nontrivial(args))
		if o.reached {
			c.Hist("reached")
		} else {
			c.Hist("refused")
		}
		if toCoq {
			emit(opi, root, args, o)
			c.Sample(map[string]interface{}{"op": ops[opi], "root": root, "args": args, "reached": o.reached, "inner_paths": o.paths})
		}
	}

	// 1. exhaustive for the Go oracle: all spellings up to L segments, every op's first argument
	L := 4
	if c.Thorough() {
		L = 6
	}
	if c.Search {
		L++
	}
	k := 0
	stride := 97 // every stride-th exhaustive case also goes to Coq
	if c.Thorough() {
		stride = 211
	}
	enumerate(L, func(p pathSpec) {
		s := p.str()
		for ri, root := range roots {
			if len(p.segs) > 4 && ri >= 4 {
				continue // long spellings only on the clean roots
			}
			for opi, op := range ops {
				if len(p.segs) > 3 && opi != (k+len(p.segs))%len(ops) {
					continue // longer spellings: rotate through the operations
				}
				k++
				if op == "Rename" {
					one(opi, root, []string{"a", s}, k%stride == 0) // the SECOND argument carries the spelling
					one(opi, root, []string{s, "a"}, k%(stride*3) == 0)
				} else {
					one(opi, root, []string{s}, k%stride == 0)
				}
			}
		}
	})
	c.Res.Extra["exhaustive_max_segments"] = L
	// 2. random longer paths, all to Coq
	nr := 1500
	if c.Thorough() {
		nr = 20000
	}
	for i := 0; i < nr; i++ {
		root := roots[c.Rng.Intn(len(roots))]
		opi := c.Rng.Intn(len(ops))
		if c.Rng.Chance(1, 3) {
			opi = 10 // Rename, weighted up
		}
		args := []string{randPath(c.Rng, 9).str()}
		if ops[opi] == "Rename" {
			args = append(args, randPath(c.Rng, 9).str())
		}
		one(opi, root, args, true)
	}
	cs.Close()
	// 2b. raw byte strings against the byte-level model (Chroot/Bytes.v), absolute and relative roots
	runBytes(c)
	// 2c. histories of operations on one instance
	runHistories(c)
	// 3. end to end: import statements and the module argument through loader.LoadSyslModule
	runImports(c)
	// 4. the same on raw strings: "@version" suffixes, dotted directory names, module arguments as spelled
	runImportBytes(c)
	// 5. letter case: roots and targets that differ only in case, single calls and imports
	runCase(c)
	// 6. nested wrappers: NewChrootFs(NewChrootFs(fs, lower), upper), single calls and imports through the loader
	runNested(c)
	// 7. no root argument: ConfigureProject looks for a .sysl / .git marker above the module, else takes the module's directory
	runNoRoot(c)
}
