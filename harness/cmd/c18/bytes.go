// C18, byte-level stream: RAW path strings (nothing pre-split) through the real ChrootFs over the recording inner
// filesystem; the exact strings the inner filesystem receives are compared in Coq with the byte-level model
// (Chroot/Bytes.v: filepath.Clean / Join / Abs / Rel and ChrootFs.join / openAllowed / wrapCall / Rename on bytes).
// Roots: absolute (clean and unclean spellings, "/" itself) and relative (resolved by NewChrootFs against the
// process working directory, which is changed for the call).
package main

import (
	"fmt"
	"os"
	"strconv"
	"strings"
	"unicode/utf8"

	"verifharness/common"
)

// segment alphabet of the raw spellings
var balpha = []string{"", ".", "..", "...", "..x", "x..", "a", "b.c", "d e", `a\b`, "\xc3\xa9", " ", ".a", "\xff"}

// extra segments for the random stream only
var bextra = []string{"....", ". .", `\`, `..\..`, "\x80\x81", "a b c", "~", "-", "*", "\"", "..\xc3\xa9", "x/"[:1] + "..", "sx", "rx", "s", "r"}

// very long segments (longer than NAME_MAX, longer than PATH_MAX in total); printed as `rp n unit`
var blong = []string{strings.Repeat("L", 260), strings.Repeat("\xe6\x97\xa5", 90), strings.Repeat("m.", 300), strings.Repeat(".", 300)}

var brootsAbs = []string{"/", "/r", "/r/s", "/r/./s", "/r//s/", "/r/s/..", "/r/../s", "//", "/..", "/r/s/a",
	"/d e/..x", "/r/s/../../..", "/\xc3\xa9/x..", "/...", "/./", `/a\b/` + "\xff"}
var brootsRel = []string{"r", "./r/s", "../r", "", ".", "..", "r/../s//", "..x/ y", "../../../..", "a/./b/", `a\b`, "\xc3\xa9"}

// working directories for the relative roots: real directories of this machine (NewChrootFs asks the OS)
var bcwdCandidates = []string{"/", "/tmp", "/usr/lib", "/usr/share", "/var/lib"}

func mkReplay(op, root string, args []string, cwd string) replay {
	rp := replay{Op: op, Root: root, Args: append([]string(nil), args...), Cwd: cwd}
	ok := utf8.ValidString(root) && utf8.ValidString(cwd)
	for _, a := range args {
		ok = ok && utf8.ValidString(a)
	}
	if !ok {
		rp.Quoted = true
		rp.Root = strconv.Quote(root)
		rp.Cwd = strconv.Quote(cwd)
		for i, a := range args {
			rp.Args[i] = strconv.Quote(a)
		}
	}
	return rp
}

func (rp replay) unquote() replay {
	if !rp.Quoted {
		return rp
	}
	uq := func(s string) string {
		u, err := strconv.Unquote(s)
		if err != nil {
			panic(err)
		}
		return u
	}
	out := replay{Op: rp.Op, Root: uq(rp.Root), Cwd: uq(rp.Cwd)}
	for _, a := range rp.Args {
		out.Args = append(out.Args, uq(a))
	}
	return out
}

// gbytes: a Go string as a term of type Bytes.bytes. Printable ASCII as a string literal, anything else as numbers;
// long runs stay literals (the Coq lexer takes them).
func gbytes(s string) string {
	if len(s) > 200 {
		// segment-wise, long repetitions as `rp n unit`
		var parts []string
		for i, seg := range strings.Split(s, "/") {
			if i > 0 {
				parts = append(parts, `(s "/")`)
			}
			done := false
			for u := 1; u <= 3 && !done && len(seg) > 60; u++ {
				if len(seg)%u == 0 && strings.Repeat(seg[:u], len(seg)/u) == seg {
					parts = append(parts, fmt.Sprintf("(rp %d%%N %s)", len(seg)/u, gbytes(seg[:u])))
					done = true
				}
			}
			if !done && seg != "" {
				parts = append(parts, gbytes(seg))
			}
		}
		return "(cat " + common.GList(parts) + ")"
	}
	plain := true
	for i := 0; i < len(s); i++ {
		if s[i] < 0x20 || s[i] > 0x7e {
			plain = false
			break
		}
	}
	if plain {
		return "(s " + common.GString(s) + ")"
	}
	return "(b " + common.GBytes(s) + ")"
}

type bspec struct {
	abs  bool
	segs []string
}

func (p bspec) str() string {
	s := strings.Join(p.segs, "/")
	if p.abs {
		s = "/" + s
	}
	return s
}

func benumerate(maxSegs int, f func(p bspec)) {
	var rec func(cur []string)
	rec = func(cur []string) {
		for _, abs := range []bool{false, true} {
			f(bspec{abs, append([]string(nil), cur...)})
		}
		if len(cur) == maxSegs {
			return
		}
		for _, a := range balpha {
			rec(append(cur, a))
		}
	}
	rec(nil)
}

func brandPath(r *common.Rng, maxSegs int, extra bool) string {
	n := r.Intn(maxSegs + 1)
	p := bspec{abs: r.Bool()}
	for i := 0; i < n; i++ {
		if extra && r.Chance(1, 60) {
			p.segs = append(p.segs, blong[r.Intn(len(blong))])
		} else if extra && r.Chance(1, 6) {
			p.segs = append(p.segs, bextra[r.Intn(len(bextra))])
		} else {
			p.segs = append(p.segs, balpha[r.Intn(len(balpha))])
		}
	}
	return p.str()
}

func bnontrivial(root string, args []string) bool {
	for _, a := range append([]string{root}, args...) {
		if strings.HasPrefix(a, "/") && a != root {
			return true
		}
		for i, s := range strings.Split(a, "/") {
			if (s == "" && i > 0) || s == "." || s == ".." {
				return true
			}
		}
	}
	return !strings.HasPrefix(root, "/")
}

func runBytes(c *common.Ctx) {
	header := `From Coq Require Import String Ascii List NArith Bool. Import ListNotations.
Require Import Verif.Chroot.Path Verif.Chroot.Bytes Verif.Gen.ChrootOps Verif.Base.Harness.
Definition s (x:string) : bytes := list_ascii_of_string x.
Definition b (l:list N) : bytes := map ascii_of_N l.
Definition cat (l:list bytes) : bytes := concat l.
Fixpoint rpn (n:nat) (u:bytes) : bytes := match n with O => [] | S k => u ++ rpn k u end.
Definition rp (n:N) (u:bytes) : bytes := rpn (N.to_nat n) u.`
	footer := `Definition M := Eval vm_compute in mismatches (c18b_ok ops) cases. Print M.`
	cs := c.NewCases("C18b", header, "c18b_case", footer, 400)

	var cwds []string
	for _, d := range bcwdCandidates {
		if err := os.Chdir(d); err == nil {
			if wd, err := os.Getwd(); err == nil && strings.HasPrefix(wd, "/") {
				cwds = append(cwds, wd)
			}
		}
	}
	os.Chdir(origWd)
	c.Res.Extra["bytes_cwds"] = cwds

	emit := func(opi int, cwd, root string, args []string, o obs) {
		ga := make([]string, len(args))
		for i, a := range args {
			ga[i] = gbytes(a)
		}
		var gp []string
		for _, p := range o.paths {
			gp = append(gp, gbytes(p))
		}
		mcwd := cwd
		if mcwd == "" {
			mcwd = "/nowhere" // absolute root: NewChrootFs and join never consult the working directory
		}
		term := fmt.Sprintf("(%d%%nat, %s, %s, %s, %s)", opi, gbytes(mcwd), gbytes(root), common.GList(ga), common.GOptList(o.reached, gp))
		cs.Add(term, mkReplay(ops[opi], root, args, cwd))
	}
	nSample := 0
	one := func(opi int, cwd, root string, args []string, toCoq bool) {
		o := observe(cwd, root, ops[opi], args)
		judge(c, cwd, root, ops[opi], args, o)
		c.Count("b|"+ops[opi]+"|"+cwd+"|"+root+"|"+strings.Join(args, "|"), bnontrivial(root, args))
		kind := "bytes:abs-root"
		if cwd != "" {
			kind = "bytes:rel-root"
		}
		c.Hist(kind)
		if o.reached {
			c.Hist("bytes:reached")
		} else {
			c.Hist("bytes:refused")
		}
		if toCoq {
			emit(opi, cwd, root, args, o)
			if nSample < 1 && cwd != "" && len(c.Res.Samples) >= 3 {
				nSample++
				c.Res.Samples = append(c.Res.Samples[:len(c.Res.Samples)-1], map[string]interface{}{"stream": "bytes", "op": ops[opi], "cwd": cwd, "root": root, "args": args, "reached": o.reached, "inner_paths": o.paths})
			}
		}
	}
	call := func(opi int, cwd, root, sp string, toCoq bool, k int) {
		if ops[opi] == "Rename" {
			if k%2 == 0 {
				one(opi, cwd, root, []string{"a", sp}, toCoq)
			} else {
				one(opi, cwd, root, []string{sp, "../" + strings.TrimPrefix(sp, "/")}, toCoq)
			}
		} else {
			one(opi, cwd, root, []string{sp}, toCoq)
		}
	}

	// 1. exhaustive for the Go oracle over the raw alphabet; a strided sample goes to Coq
	L := 2
	stride := 43
	if c.Thorough() {
		L = 3
		stride = 131
	}
	if c.Search {
		L++
	}
	k := 0
	benumerate(L+1, func(p bspec) {
		sp := p.str()
		rotate := len(p.segs) > L // the longest spellings: one operation and two roots each, rotating
		for ri, root := range brootsAbs {
			if rotate && ri != k%len(brootsAbs) && ri != (k+5)%len(brootsAbs) {
				continue
			}
			for opi := range ops {
				if (rotate || len(p.segs) == L) && opi != (k+ri)%len(ops) {
					continue
				}
				k++
				call(opi, "", root, sp, k%stride == 0, k)
			}
		}
		if len(p.segs) <= L {
			for ri, root := range brootsRel {
				cwd := cwds[(k+ri)%len(cwds)]
				opi := (k + 3*ri) % len(ops)
				k++
				call(opi, cwd, root, sp, k%stride == 0, k)
			}
		}
	})
	c.Res.Extra["bytes_exhaustive_max_segments"] = L + 1
	// 2. random longer raw strings (long segments, bytes >= 0x80, backslashes, quotes), all to Coq
	nr := 1200
	if c.Thorough() {
		nr = 15000
	}
	if c.Search {
		nr *= 2
	}
	// a few paths longer than PATH_MAX (4096)
	huge := strings.Repeat("m.", 1100)
	for i, root := range []string{"/r", "/", "/r/" + huge + "/..", "r"} {
		cwd := ""
		if !strings.HasPrefix(root, "/") {
			cwd = cwds[len(cwds)-1]
		}
		one(6, cwd, root, []string{"a/" + huge + "/../" + huge + "//b"}, true)
		one(10, cwd, root, []string{huge + "/../../x", huge}, i%2 == 0)
	}
	for i := 0; i < nr; i++ {
		opi := c.Rng.Intn(len(ops))
		if c.Rng.Chance(1, 4) {
			opi = 10 // Rename
		}
		cwd, root := "", ""
		switch {
		case c.Rng.Chance(1, 3):
			cwd = cwds[c.Rng.Intn(len(cwds))]
			root = brootsRel[c.Rng.Intn(len(brootsRel))]
			if c.Rng.Chance(1, 3) {
				root = strings.TrimPrefix(brandPath(c.Rng, 4, false), "/")
			}
		case c.Rng.Chance(1, 3):
			root = "/" + strings.TrimPrefix(brandPath(c.Rng, 4, true), "/")
		default:
			root = brootsAbs[c.Rng.Intn(len(brootsAbs))]
		}
		args := []string{brandPath(c.Rng, 8, true)}
		if ops[opi] == "Rename" {
			args = append(args, brandPath(c.Rng, 8, true))
		}
		one(opi, cwd, root, args, true)
	}
	cs.Close()
}
