// C18, end-to-end stream on RAW strings: loader.LoadSyslModule(root, module, recordingFs) with module arguments and
// import statements spelled with "..", "//", "@version" suffixes, dotted directory names that look like
// host/owner/repo paths, names with an extension, backslashes. Oracle (model-independent): no inner call outside the
// cleaned root, and nothing is created in the golden-retriever cache directory (the reader must not take a local
// name for a remote one: that dials the network and creates directories outside the root); a spelling that names an
// existing file inside the root compiles and contributes its app. Coq: the exact string the inner filesystem is
// asked to open against Chroot/ImportBytes.v.
package main

import (
	"fmt"
	"io"
	"os"
	"path/filepath"
	"sort"
	"strings"

	"github.com/anz-bank/golden-retriever/reader/remotefs"
	"github.com/anz-bank/sysl/pkg/loader"
	"github.com/anz-bank/sysl/pkg/syslutil"
	"github.com/sirupsen/logrus"
	"github.com/spf13/afero"

	"verifharness/common"
)

// directories (relative to the root /r/s) that hold x.sysl and main.sysl
var ibDirs = []string{"", "a", "a/b", "b", "127.0.0.1/a/b", "127.0.0.1/a/b/c", "v1.2", "v1.2/a", "d e"}
var ibRoots = []string{"/r/s", "/r/./s", "/r/s/", "/r//s/a/.."}
var ibAlpha = []string{".", "..", "a", "b", "c", "127.0.0.1", "v1.2", "s", "r"}

type ibReplay struct {
	Kind    string   `json:"kind"` // "import" | "module" (stream: raw)
	Raw     bool     `json:"raw"`
	Root    string   `json:"root"`
	Module  string   `json:"module"`
	Text    string   `json:"text,omitempty"`
	Family  string   `json:"family,omitempty"`  // "" = the /r/s universe; "case" = letter-case universe; "nested" = the loader is handed a ChrootFs (extra.go)
	Lower   string   `json:"lower,omitempty"`   // family "nested": root of the ChrootFs handed to the loader
	Markers []string `json:"markers,omitempty"` // family "noroot": the root-marker directories (.sysl / .git) that exist
}

type ibObs struct {
	ok     bool
	apps   []string
	inner  []call
	opens  []string // inner Open/OpenFile paths, modules.yaml probes left out
	cached []string // what appeared in the golden-retriever cache directory
}

func ibAppOf(dir string) string {
	return "App_" + strings.NewReplacer("/", "_", ".", "_", " ", "_").Replace(dir)
}

func ibObserve(c *common.Ctx, rp ibReplay) ibObs {
	files := map[string]string{}
	for _, d := range ibDirs {
		files[filepath.Join("/r/s", d, "x.sysl")] = ibAppOf(d)
	}
	for _, t := range ibTargets {
		files[filepath.Join("/r/s", t+".sysl")] = ibAppOf(t)
	}
	return ibObserveFiles(c, rp, files)
}

// ibObserveFiles: the universe is `files` (inner path -> name of the one app the file declares); with rp.Lower set the
// loader is handed NewChrootFs(recording fs, rp.Lower) and wraps it again at rp.Root (nested wrappers)
func ibObserveFiles(c *common.Ctx, rp ibReplay, files map[string]string) ibObs {
	mem := afero.NewMemMapFs()
	for p, app := range files {
		afero.WriteFile(mem, p, []byte(app+":\n    ...\n"), 0o644)
	}
	for _, d := range rp.Markers {
		mem.MkdirAll(d, 0o755)
	}
	if rp.Kind == "import" {
		// the importing file, at the place the module argument names (independent stack cleaning)
		m := rp.Module
		if filepath.Ext(m) == "" {
			m += ".sysl"
		}
		var low []string
		if rp.Lower != "" {
			low = cleanStack(splitAbs(rp.Lower))
		}
		mp := "/" + strings.Join(append(low, cleanStack(append(splitAbs(rp.Root), strings.Split(m, "/")...))...), "/")
		afero.WriteFile(mem, mp, []byte("import "+rp.Text+"\nMain:\n    ...\n"), 0o644)
	}
	r := &rec{Fs: mem}
	cache := filepath.Join(c.Out, "gr-cache")
	os.RemoveAll(cache)
	old := remotefs.CacheDir
	remotefs.CacheDir = cache
	defer func() { remotefs.CacheDir = old; os.RemoveAll(cache) }()
	logger := logrus.New()
	logger.SetOutput(io.Discard)
	var o ibObs
	func() {
		defer func() { recover() }()
		var fs afero.Fs = r
		if rp.Lower != "" {
			fs = syslutil.NewChrootFs(r, rp.Lower)
		}
		m, _, err := loader.LoadSyslModule(rp.Root, rp.Module, fs, logger)
		if err == nil && m != nil {
			o.ok = true
			for a := range m.Apps {
				o.apps = append(o.apps, a)
			}
			sort.Strings(o.apps)
		}
	}()
	o.inner = r.calls
	for _, cl := range r.calls {
		if cl.op != "Open" && cl.op != "OpenFile" {
			continue
		}
		for _, p := range cl.paths {
			if !strings.HasSuffix(p, "/modules.yaml") {
				o.opens = append(o.opens, p)
			}
		}
	}
	filepath.Walk(cache, func(p string, info os.FileInfo, err error) error {
		if err == nil && p != cache {
			o.cached = append(o.cached, strings.TrimPrefix(p, cache))
		}
		return nil
	})
	return o
}

func ibJudge(c *common.Ctx, rp ibReplay, o ibObs) {
	cr := cleanStack(splitAbs(rp.Root))
	for _, cl := range o.inner {
		for _, p := range cl.paths {
			if !hasPrefix(cleanStack(splitAbs(p)), cr) {
				c.Fail("escape:"+rp.Kind+":"+cl.op, fmt.Sprintf("%s: module %q text %q (root %q) made the inner filesystem %s %q, outside the root", rp.Kind, rp.Module, rp.Text, rp.Root, cl.op, p), rp)
				return
			}
		}
	}
	if len(o.cached) > 0 {
		c.Fail("escape:"+rp.Kind+":local-name-fetched-as-remote", fmt.Sprintf("%s: module %q text %q (root %q): a name without the remote prefix \"//\" was handed to the git retriever; created outside the root: cache%s", rp.Kind, rp.Module, rp.Text, rp.Root, strings.Join(o.cached, ", cache")), rp)
		return
	}
	// what the spelling names: module's directory (or the root for a rooted text) + text (+ ".sysl")
	name := rp.Module
	if rp.Kind == "import" {
		if strings.Contains(rp.Text, "@") || strings.Contains(rp.Text, `\`) {
			return // versioned / backslashed spellings: only confinement is demanded
		}
		t := rp.Text
		if filepath.Ext(t[strings.LastIndex(t, "/")+1:]) == "" {
			t += ".sysl"
		}
		if strings.HasPrefix(t, "/") {
			name = t
		} else {
			m := rp.Module
			i := strings.LastIndex(m, "/")
			name = m[:i+1] + t
		}
	} else if filepath.Ext(name[strings.LastIndex(name, "/")+1:]) == "" {
		name += ".sysl"
	}
	want := cleanStack(append(splitAbs(rp.Root), strings.Split(name, "/")...))
	if !hasPrefix(want, cr) || len(want) == 0 || want[len(want)-1] != "x.sysl" {
		return
	}
	dir := strings.Join(want[len(cleanStack(splitAbs("/r/s"))):len(want)-1], "/")
	known := false
	for _, d := range ibDirs {
		if d == dir && hasPrefix(want, []string{"r", "s"}) {
			known = true
		}
	}
	if !known {
		return
	}
	wantPath := "/" + strings.Join(want, "/")
	if !o.ok {
		c.Fail("inside-refused:"+rp.Kind, fmt.Sprintf("%s: module %q text %q (root %q) names %s inside the root but compilation failed", rp.Kind, rp.Module, rp.Text, rp.Root, wantPath), rp)
		return
	}
	found := false
	for _, a := range o.apps {
		if a == ibAppOf(dir) {
			found = true
		}
	}
	if !found {
		c.Fail("inside-wrong-file:"+rp.Kind, fmt.Sprintf("%s: module %q text %q (root %q) should load %s (app %s) but the model has %v", rp.Kind, rp.Module, rp.Text, rp.Root, wantPath, ibAppOf(dir), o.apps), rp)
	}
}

// local files below a directory whose name contains a dot: the reader's resource pattern takes
// "host.tld/owner/repo/path" for a remote file (3 to 6 segments; only >= 4 match the pattern)
var ibTargets = []string{"sub.folder/one/dep", "sub.folder/one/two/dep", "127.0.0.1/a/b/c/dep", "v1.2/api/defs/deep/er/dep"}
var ibLocations = []string{"", "a", "a/b", "sub.folder/one", "127.0.0.1/a/b/c", "v1.2/api"}

// every spelling of target t (root-relative, without extension) from a file in directory loc
func ibSpellingsOf(t, loc string) []string {
	rel := t
	if loc != "" {
		if strings.HasPrefix(t, loc+"/") {
			rel = t[len(loc)+1:]
		} else {
			rel = strings.Repeat("../", strings.Count(loc, "/")+1) + t
		}
	}
	inside := func(p string) string { // a "." segment after the first separator
		i := strings.Index(p, "/")
		if i < 0 {
			return "./" + p
		}
		return p[:i] + "/." + p[i:]
	}
	doubled := func(p string) string { // "//" at the last separator (never leading: that is a remote import)
		i := strings.LastIndex(p, "/")
		if i <= 0 {
			return p
		}
		return p[:i] + "/" + p[i:]
	}
	out := []string{rel, "./" + rel, "/" + t, inside(rel), "x/../" + rel, doubled(rel), "/x/../" + t, "/./" + t, "/" + doubled(t),
		rel + ".sysl", "/" + inside(t), "./x/.././" + rel}
	return out
}

// the family: every target x every location x every spelling; all must compile, load the target's app, make the
// inner filesystem open the same path, and hand nothing to the git retriever
func runLooksRemote(c *common.Ctx, cs *common.Cases, emit func(rp ibReplay, o ibObs)) {
	for _, t := range ibTargets {
		for _, loc := range ibLocations {
			first := ""
			for si, sp := range ibSpellingsOf(t, loc) {
				rp := ibReplay{Kind: "import", Raw: true, Root: ibRoots[(si+len(loc))%len(ibRoots)], Module: strings.TrimPrefix(loc+"/main.sysl", "/"), Text: sp}
				o := ibObserve(c, rp)
				ibJudge(c, rp, o)
				what := fmt.Sprintf("import %q in %q (root %q), one spelling of %s.sysl", sp, rp.Module, rp.Root, t)
				got := ""
				if len(o.opens) >= 2 {
					got = o.opens[1]
				}
				found := false
				for _, a := range o.apps {
					found = found || a == ibAppOf(t)
				}
				switch {
				case len(o.cached) > 0: // reported by ibJudge
				case !o.ok || !found:
					c.Fail("inside-refused:import:looks-remote", what+": compilation failed or the target's app is missing (apps "+fmt.Sprint(o.apps)+")", rp)
				case got != "/r/s/"+t+".sysl":
					c.Fail("same-file:import:looks-remote", what+fmt.Sprintf(": the inner filesystem was asked for %q", got), rp)
				case first != "" && got != first:
					c.Fail("same-file:import:looks-remote", what+fmt.Sprintf(": opened %q, another spelling opened %q", got, first), rp)
				}
				if first == "" {
					first = got
				}
				c.Count("ib|fam|"+rp.Root+"|"+rp.Module+"|"+sp, true)
				c.Hist("e2e-raw:looks-remote-family")
				emit(rp, o)
			}
		}
	}
}

func ibSpelling(r *common.Rng, maxSegs int, last string) string {
	n := r.Intn(maxSegs + 1)
	var sb strings.Builder
	if r.Chance(1, 3) {
		sb.WriteString("/")
	}
	for i := 0; i < n; i++ {
		sb.WriteString(ibAlpha[r.Intn(len(ibAlpha))])
		if r.Chance(1, 8) && i > 0 {
			sb.WriteString("//") // lexes as EXTERNAL_IMPORT SUB_PATH_NAME in the middle of a path
		} else {
			sb.WriteString("/")
		}
	}
	sb.WriteString(last)
	return sb.String()
}

func runImportBytes(c *common.Ctx) {
	header := `From Coq Require Import String Ascii List NArith Bool. Import ListNotations.
Require Import Verif.Chroot.Path Verif.Chroot.Bytes Verif.Chroot.ImportBytes Verif.Gen.ChrootOps Verif.Gen.ImportOrder Verif.Base.Harness.
Definition s (x:string) : bytes := list_ascii_of_string x.
Definition b (l:list N) : bytes := map ascii_of_N l.`
	footer := `Definition M := Eval vm_compute in mismatches (c18ib_ok listener_remote_test listener_test_only_base_dot reader_name_guard ops) cases. Print M.`
	cs := c.NewCases("C18ib", header, "c18ib_case", footer, 300)
	emit := ibEmitter(cs)
	runLooksRemote(c, cs, emit)
	n := 500
	if c.Thorough() {
		n = 6000
	}
	if c.Search {
		n *= 3
	}
	lasts := []string{"x", "x", "x", "x.sysl", "x@v1", "x.sysl@v1.2", "x@", "x@v1@w", "y", "x.txt"}
	for i := 0; i < n; i++ {
		rp := ibReplay{Kind: "import", Raw: true, Root: ibRoots[c.Rng.Intn(len(ibRoots))]}
		if c.Rng.Chance(1, 3) {
			rp.Kind = "module"
		}
		if rp.Kind == "module" {
			rp.Module = strings.TrimPrefix(ibSpelling(c.Rng, 5, lasts[c.Rng.Intn(4)]), "/")
			if strings.HasPrefix(rp.Module, "/") { // "//..." would be a remote module
				rp.Module = "." + rp.Module
			}
		} else {
			d := ibDirs[c.Rng.Intn(len(ibDirs))]
			m := "main.sysl"
			if c.Rng.Bool() {
				m = "main"
			}
			rp.Module = strings.TrimPrefix(d+"/"+m, "/")
			switch c.Rng.Intn(6) {
			case 0:
				rp.Module = "./" + rp.Module
			case 1:
				rp.Module = "a/../" + rp.Module
			}
			rp.Text = ibSpelling(c.Rng, 5, lasts[c.Rng.Intn(len(lasts))])
			if c.Rng.Chance(2, 5) {
				// aim at an existing file, rooted or by climbing out of the module's directory, with some noise
				d2 := ibDirs[c.Rng.Intn(len(ibDirs)-1)] // ("d e" cannot be spelled in an import path)
				noise := []string{"", "./", "a/../", ".//"}[c.Rng.Intn(4)]
				t := strings.TrimPrefix(d2+"/"+lasts[c.Rng.Intn(4)], "/")
				if c.Rng.Bool() || d == "" {
					rp.Text = "/" + noise + t
				} else {
					rp.Text = strings.Repeat("../", strings.Count(d, "/")+1) + noise + t
				}
			}
			if strings.HasPrefix(rp.Text, "//") {
				rp.Text = rp.Text[1:]
			}
			if c.Rng.Chance(1, 25) {
				rp.Text = strings.ReplaceAll(strings.TrimPrefix(rp.Text, "/"), "/", `\`)
			}
		}
		o := ibObserve(c, rp)
		ibJudge(c, rp, o)
		c.Count("ib|"+rp.Kind+"|"+rp.Root+"|"+rp.Module+"|"+rp.Text, strings.Contains(rp.Module+rp.Text, "..") || strings.Contains(rp.Text, "@") || strings.Contains(rp.Module+rp.Text, "127.0.0.1"))
		c.Hist("e2e-raw:" + rp.Kind)
		if o.ok {
			c.Hist("e2e-raw:model")
		} else {
			c.Hist("e2e-raw:error")
		}
		emit(rp, o)
	}
	cs.Close()
}

func ibEmitter(cs *common.Cases) func(rp ibReplay, o ibObs) {
	return func(rp ibReplay, o ibObs) {
		// observation for Coq
		obsTerm := "None"
		switch {
		case rp.Kind == "module" && len(o.opens) >= 1:
			obsTerm = "(Some " + gbytes(o.opens[0]) + ")"
		case rp.Kind == "import" && len(o.opens) == 2:
			obsTerm = "(Some " + gbytes(o.opens[1]) + ")"
		case rp.Kind == "import" && len(o.opens) > 2:
			obsTerm = `(Some (s "<more than one file opened for one import statement>"))`
		}
		if rp.Kind == "import" && strings.Contains(rp.Text, `\`) {
			return // a backslash does not lex as an import path: the statement is never resolved (oracle only)
		}
		text := "None"
		if rp.Kind == "import" {
			text = "(Some " + gbytes(rp.Text) + ")"
		}
		cs.Add(fmt.Sprintf("(%s, %s, %s, %s, %s, %s)", gbytes("/nowhere"), gbytes(rp.Root), gbytes(rp.Module), text, common.GBool(len(o.cached) > 0), obsTerm), rp)
	}
}
