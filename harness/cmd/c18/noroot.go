// C18, the loader WITHOUT a root argument: loader.LoadSyslModule("", module, recordingFs). ConfigureProject searches the
// directories above the module for a ".sysl" marker, then for a ".git" marker (these probes use the filesystem it was
// given, by design: no root is in force yet), else takes the module's own directory; then it wraps the filesystem at
// the chosen root. Oracle (model-independent): the root the documentation promises is computed here by an own upward
// search; apart from the marker probes no inner call may lie outside it, and a spelling that names an existing file
// inside it compiles and contributes that file's app. Coq: Chroot/Configure.v (find_root, configure) followed by the
// import model, compared on the exact path the inner filesystem is asked to open.
package main

import (
	"fmt"
	"path/filepath"
	"strings"

	"verifharness/common"
)

func norootUniverse() map[string]string {
	files := map[string]string{}
	// (ab, bx, sx, mainx: siblings whose names merely EXTEND the name of a directory that can become the root)
	for _, d := range []string{"", "/r", "/r/s", "/r/s/a", "/r/s/a/b", "/r/s/b", "/r/q", "/r/s/a/s", "/r/s/ab", "/r/s/a/bx", "/r/sx", "/rx"} {
		p := d + "/x.sysl"
		files[p] = caseAppOf(p)
	}
	return files
}

var nrMarkerSets = [][]string{
	{},
	{"/r/s/.sysl"},
	{"/r/.git"},
	{"/r/s/a/.git", "/r/.sysl"},
	{"/.sysl"},
	{"/r/s/a/b/.sysl"},
	{"/r/s/.git", "/r/s/a/.git"},
	{"/.git", "/r/s/a/.sysl"},
}
var nrModules = []string{"/r/s/a/b/main.sysl", "/r/s/a/main", "/r/s/a/./b/../main.sysl", "/r/s//a/b/main.sysl", "/r/s/main.sysl", "/main.sysl", "/r/s/a/b/../../a/b/main"}
var nrTexts = []string{"x", "../x", "../../x", "../../../x", "/x", "/a/x", "b/x", "../b/x", "/../x", "../../q/x", "./x", "/s/x", "../../../../x", "/r/s/x",
	"../bx/x", "../ab/x", "../../ab/x", "../../sx/x", "../../../sx/x", "/../ab/x", "/../sx/x", "../../../../rx/x", "/../bx/x", "../../a/../ab/x"}

// the root ConfigureProject is documented to choose, by an own search over cleaned segments
func nrExpectedRoot(module string, markers []string) (root, dir []string, probes map[string]bool) {
	cm := cleanStack(splitAbs(module))
	if len(cm) > 0 {
		dir = cm[:len(cm)-1]
	}
	has := map[string]bool{}
	for _, m := range markers {
		has[m] = true
	}
	probes = map[string]bool{}
	at := func(k int, marker string) string {
		if k == 0 {
			return "/" + marker
		}
		return "/" + strings.Join(dir[:k], "/") + "/" + marker
	}
	for k := len(dir); k >= 0; k-- {
		probes[at(k, ".sysl")] = true
		probes[at(k, ".git")] = true
	}
	for _, marker := range []string{".sysl", ".git"} {
		for k := len(dir); k >= 0; k-- {
			if has[at(k, marker)] {
				return dir[:k], dir, probes
			}
		}
	}
	return dir, dir, probes
}

func nrJudge(c *common.Ctx, rp ibReplay, o ibObs, files map[string]string) {
	root, dir, probes := nrExpectedRoot(rp.Module, rp.Markers)
	rootStr := "/" + strings.Join(root, "/")
	for _, cl := range o.inner {
		for _, p := range cl.paths {
			if cl.op == "Stat" && probes[p] {
				continue // the upward search for a root marker
			}
			if !hasPrefix(cleanStack(splitAbs(p)), root) {
				c.Fail("noroot-escape:"+rp.Kind+":"+cl.op, fmt.Sprintf("%s: module %q text %q, no root argument, markers %q: the project root is %s but the inner filesystem got %s %q", rp.Kind, rp.Module, rp.Text, rp.Markers, rootStr, cl.op, p), rp)
				return
			}
		}
	}
	if len(o.cached) > 0 {
		c.Fail("noroot-escape:"+rp.Kind+":local-name-fetched-as-remote", fmt.Sprintf("%s: module %q text %q: handed to the git retriever: cache%s", rp.Kind, rp.Module, rp.Text, strings.Join(o.cached, ", cache")), rp)
		return
	}
	var want []string
	if rp.Kind == "import" {
		t := rp.Text
		if filepath.Ext(t[strings.LastIndex(t, "/")+1:]) == "" {
			t += ".sysl"
		}
		if strings.HasPrefix(t, "/") {
			want = cleanStack(append(append([]string{}, root...), strings.Split(t, "/")...))
		} else {
			want = cleanStack(append(append([]string{}, dir...), strings.Split(t, "/")...))
		}
	} else {
		return // the module itself is written by the harness where the argument says; nothing else to demand
	}
	if !hasPrefix(want, root) {
		return
	}
	wantPath := "/" + strings.Join(want, "/")
	app, exists := files[wantPath]
	if !exists {
		return
	}
	if !o.ok {
		c.Fail("noroot-inside-refused:"+rp.Kind, fmt.Sprintf("%s: module %q text %q (no root argument, markers %q, project root %s) names %s inside the root but compilation failed", rp.Kind, rp.Module, rp.Text, rp.Markers, rootStr, wantPath), rp)
		return
	}
	for _, a := range o.apps {
		if a == app {
			return
		}
	}
	c.Fail("noroot-inside-wrong-file:"+rp.Kind, fmt.Sprintf("%s: module %q text %q (no root argument, markers %q, project root %s) should load %s (app %s) but the model has %v", rp.Kind, rp.Module, rp.Text, rp.Markers, rootStr, wantPath, app, o.apps), rp)
}

func runNoRoot(c *common.Ctx) {
	header := strings.Replace(importHeader, "Verif.Chroot.ImportBytes", "Verif.Chroot.ImportBytes Verif.Chroot.Configure", 1)
	footer := `Definition M := Eval vm_compute in mismatches (c18nr_ok listener_remote_test listener_test_only_base_dot reader_name_guard ops) cases. Print M.`
	cs := c.NewCases("C18nr", header, "c18nr_case", footer, 300)
	files := norootUniverse()
	run := func(rp ibReplay) {
		o := ibObserveFiles(c, rp, files)
		nrJudge(c, rp, o, files)
		root, dir, _ := nrExpectedRoot(rp.Module, rp.Markers)
		c.Count("nr|"+rp.Kind+"|"+strings.Join(rp.Markers, ",")+"|"+rp.Module+"|"+rp.Text, true)
		switch {
		case len(rp.Markers) == 0 || len(root) == len(dir) && !containsMarkerAt(rp.Markers, dir):
			c.Hist("e2e-noroot:root=module-directory")
		default:
			c.Hist("e2e-noroot:root=marker-directory")
		}
		if o.ok {
			c.Hist("e2e-noroot:model")
		} else {
			c.Hist("e2e-noroot:error")
		}
		obsTerm := "None"
		switch {
		case rp.Kind == "module" && len(o.opens) >= 1:
			obsTerm = "(Some " + gbytes(o.opens[0]) + ")"
		case rp.Kind == "import" && len(o.opens) == 2:
			obsTerm = "(Some " + gbytes(o.opens[1]) + ")"
		case rp.Kind == "import" && len(o.opens) > 2:
			obsTerm = `(Some (s "<more than one file opened for one import statement>"))`
		}
		text := "None"
		if rp.Kind == "import" {
			text = "(Some " + gbytes(rp.Text) + ")"
		}
		var ex []string
		for _, m := range rp.Markers {
			ex = append(ex, gbytes(m))
		}
		cs.Add(fmt.Sprintf("(%s, %s, %s, %s, %s, %s, %s)", common.GList(ex), gbytes("/nowhere"), gbytes(""), gbytes(rp.Module), text, common.GBool(len(o.cached) > 0), obsTerm), rp)
	}
	for si, ms := range nrMarkerSets {
		for mi, m := range nrModules {
			for ti, t := range nrTexts {
				if !c.Thorough() && (si+mi+ti)%3 != 0 {
					continue
				}
				run(ibReplay{Kind: "import", Raw: true, Family: "noroot", Module: m, Text: t, Markers: ms})
			}
			run(ibReplay{Kind: "module", Raw: true, Family: "noroot", Module: m, Markers: ms})
		}
	}
	cs.Close()
}

func containsMarkerAt(markers []string, dir []string) bool {
	d := "/" + strings.Join(dir, "/")
	if len(dir) == 0 {
		d = ""
	}
	for _, m := range markers {
		if m == d+"/.sysl" || m == d+"/.git" {
			return true
		}
	}
	return false
}
