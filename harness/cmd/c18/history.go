// C18, histories: sequences of operations on ONE ChrootFs instance over ONE recording inner filesystem. Whatever the
// wrapper might keep between calls (a memo of the last resolved path, a last error, a lazily computed root) is
// exercised here: refused path then the very same string again, inside path then an escaping path with the same
// cleaned suffix, Rename with an escaping argument then single-path operations on that argument, random mixes.
// Oracle (model-independent): after EVERY step, no call recorded by the inner filesystem so far has a path outside
// the cleaned root; a step whose arguments stay inside reaches the canonical file. Coq: per-step inner calls against
// Bytes.b_run_history (= one fresh-instance evaluation per step; Gen fact chroot_state = [] says the wrapper is stateless).
package main

import (
	"fmt"
	"os"
	"strconv"
	"strings"
	"unicode/utf8"

	"time"

	"github.com/anz-bank/sysl/pkg/syslutil"
	"github.com/spf13/afero"
	"github.com/spf13/afero/mem"

	"verifharness/common"
)

type hstep struct {
	Op   string   `json:"op"`
	Args []string `json:"args"`
}

type histReplay struct {
	Kind   string  `json:"kind"` // "history"
	Root   string  `json:"root"`
	Cwd    string  `json:"cwd,omitempty"`
	Steps  []hstep `json:"steps"`
	Quoted bool    `json:"quoted,omitempty"`
	Fails  bool    `json:"inner_fails,omitempty"` // the innermost filesystem fails every call (else every call succeeds)
}

func mkHistReplay(cwd, root string, steps []hstep, fails bool) histReplay {
	rp := histReplay{Kind: "history", Root: root, Cwd: cwd, Fails: fails}
	ok := utf8.ValidString(root) && utf8.ValidString(cwd)
	for _, s := range steps {
		for _, a := range s.Args {
			ok = ok && utf8.ValidString(a)
		}
	}
	q := func(s string) string {
		if ok {
			return s
		}
		return strconv.Quote(s)
	}
	rp.Quoted = !ok
	rp.Root, rp.Cwd = q(root), q(cwd)
	for _, s := range steps {
		t := hstep{Op: s.Op}
		for _, a := range s.Args {
			t.Args = append(t.Args, q(a))
		}
		rp.Steps = append(rp.Steps, t)
	}
	return rp
}

func (rp histReplay) unquote() histReplay {
	if !rp.Quoted {
		return rp
	}
	uq := func(s string) string {
		u, err := strconv.Unquote(s)
		if err != nil {
			panic(err)
		}
		return u
	}
	out := histReplay{Kind: rp.Kind, Root: uq(rp.Root), Cwd: uq(rp.Cwd), Fails: rp.Fails}
	for _, s := range rp.Steps {
		t := hstep{Op: s.Op}
		for _, a := range s.Args {
			t.Args = append(t.Args, uq(a))
		}
		out.Steps = append(out.Steps, t)
	}
	return out
}

// stubFs: the innermost filesystem of a history. Stateless (afero.MemMapFs dies with a fatal lock error on some
// Rename sequences, and its contents are irrelevant here): every call succeeds, or every call fails.
type stubFs struct{ fail bool }

func (f stubFs) err() error {
	if f.fail {
		return os.ErrNotExist
	}
	return nil
}
func (f stubFs) file(n string) (afero.File, error) {
	if f.fail {
		return nil, os.ErrNotExist
	}
	return mem.NewFileHandle(mem.CreateFile(n)), nil
}
func (f stubFs) Create(n string) (afero.File, error)                         { return f.file(n) }
func (f stubFs) Mkdir(string, os.FileMode) error                             { return f.err() }
func (f stubFs) MkdirAll(string, os.FileMode) error                          { return f.err() }
func (f stubFs) Open(n string) (afero.File, error)                           { return f.file(n) }
func (f stubFs) OpenFile(n string, _ int, _ os.FileMode) (afero.File, error) { return f.file(n) }
func (f stubFs) Remove(string) error                                         { return f.err() }
func (f stubFs) RemoveAll(string) error                                      { return f.err() }
func (f stubFs) Rename(string, string) error                                 { return f.err() }
func (f stubFs) Stat(n string) (os.FileInfo, error) {
	if f.fail {
		return nil, os.ErrNotExist
	}
	return mem.GetFileInfo(mem.CreateFile(n)), nil
}
func (f stubFs) Name() string                               { return "stub" }
func (f stubFs) Chmod(string, os.FileMode) error            { return f.err() }
func (f stubFs) Chown(string, int, int) error               { return f.err() }
func (f stubFs) Chtimes(string, time.Time, time.Time) error { return f.err() }

// observeHistory: one instance, one inner filesystem; what the inner filesystem saw during each step
func observeHistory(cwd, root string, steps []hstep, innerFails bool) []obs {
	r := &rec{Fs: stubFs{innerFails}}
	if cwd != "" {
		if err := os.Chdir(cwd); err != nil {
			panic(err)
		}
	}
	fs := syslutil.NewChrootFs(r, root)
	if cwd != "" {
		os.Chdir(origWd)
	}
	out := make([]obs, len(steps))
	for i, st := range steps {
		before := len(r.calls)
		b := ""
		if len(st.Args) > 1 {
			b = st.Args[1]
		}
		invoke(fs, st.Op, st.Args[0], b)
		var ps []string
		for _, cl := range r.calls[before:] {
			ps = append(ps, cl.paths...)
		}
		out[i] = obs{len(r.calls) > before, ps}
	}
	return out
}

func judgeHistory(c *common.Ctx, cwd, root string, steps []hstep, os_ []obs, fails bool) {
	rp := mkHistReplay(cwd, root, steps, fails)
	for i, st := range steps {
		// the per-step verdict is the single-call verdict (escape / inside-refused / inside-wrong-file), under history keys
		n := len(c.Res.Failures)
		judgeWith(c, fmt.Sprintf("history(step %d of %d):", i+1, len(steps)), "history-", rp, cwd, root, st.Op, st.Args, os_[i])
		if len(c.Res.Failures) > n {
			return
		}
	}
}

var histInside = []string{"a", "a/b", "./a//b/", "/a/b", "a/../b", "..x", "a/b/../b", "/", "", ".", "d e/b.c"}

func histEscaping(r *common.Rng, depth int) string {
	k := 1 + r.Intn(depth+2)
	tail := []string{"q", "q/a/b", "etc/passwd", "", "q/../q2", "a/b", "sx", "rx/a"}[r.Intn(8)]
	s := strings.Repeat("../", k) + tail
	switch r.Intn(5) {
	case 0:
		s = "/" + s
	case 1:
		s = "a/../" + s
	case 2:
		s = "./" + strings.Repeat("..//", k) + tail
	}
	return s
}

var singleOps = []string{"Chmod", "Chown", "Chtimes", "Create", "Mkdir", "MkdirAll", "Open", "OpenFile", "Remove", "RemoveAll", "Stat"}

func opIndex(name string) int {
	for i, o := range ops {
		if o == name {
			return i
		}
	}
	panic("unknown op " + name)
}

func genHistory(r *common.Rng, depth, maxLen int) (steps []hstep, pattern string) {
	sop := func() string { return singleOps[r.Intn(len(singleOps))] }
	E := func() string { return histEscaping(r, depth) }
	I := func() string { return histInside[r.Intn(len(histInside))] }
	switch r.Intn(4) {
	case 0: // refused, then exactly the same string again (same or different method)
		e := E()
		o1 := sop()
		o2 := o1
		if r.Bool() {
			o2 = sop()
		}
		steps = []hstep{{o1, []string{e}}, {o2, []string{e}}}
		if r.Bool() {
			steps = append([]hstep{{sop(), []string{I()}}}, steps...)
		}
		if r.Bool() {
			steps = append(steps, hstep{"Rename", []string{I(), e}})
		}
		pattern = "refused-then-same-string"
	case 1: // inside path, then an escaping path with the same cleaned suffix (and back)
		suffix := []string{"a/b", "a", "d e/b.c", "x/y/z"}[r.Intn(4)]
		e := strings.Repeat("../", 1+r.Intn(depth+2)) + "q/" + suffix
		steps = []hstep{{sop(), []string{suffix}}, {sop(), []string{e}}}
		if r.Bool() {
			steps = append(steps, hstep{sop(), []string{"./" + suffix + "/"}})
		}
		if r.Bool() {
			steps[0], steps[1] = steps[1], steps[0]
		}
		pattern = "inside-then-escaping-same-suffix"
	case 2: // Rename with either argument escaping, then single-path operations on that argument
		e, in := E(), I()
		args := []string{in, e}
		if r.Bool() {
			args = []string{e, in}
		}
		steps = []hstep{{"Rename", args}}
		n := 1 + r.Intn(3)
		for i := 0; i < n; i++ {
			steps = append(steps, hstep{sop(), []string{e}})
		}
		if r.Bool() {
			steps = append(steps, hstep{sop(), []string{in}})
		}
		if r.Bool() {
			steps = append(steps, hstep{"Rename", []string{args[1], args[0]}})
		}
		pattern = "rename-escaping-then-single"
	default: // random mix, strings re-used
		n := 2 + r.Intn(maxLen-1)
		var used []string
		pick := func() string {
			if len(used) > 0 && r.Bool() {
				return used[r.Intn(len(used))]
			}
			s := I()
			switch r.Intn(5) {
			case 0, 1:
				s = E()
			case 2:
				s = brandPath(r, 5, false)
			}
			used = append(used, s)
			return s
		}
		for i := 0; i < n; i++ {
			if r.Chance(1, 4) {
				steps = append(steps, hstep{"Rename", []string{pick(), pick()}})
			} else {
				steps = append(steps, hstep{sop(), []string{pick()}})
			}
		}
		pattern = "random-mix"
	}
	if len(steps) > maxLen {
		steps = steps[:maxLen]
	}
	return steps, pattern
}

func runHistories(c *common.Ctx) {
	header := `From Coq Require Import String Ascii List NArith Bool. Import ListNotations.
Require Import Verif.Chroot.Path Verif.Chroot.Bytes Verif.Gen.ChrootOps Verif.Base.Harness.
Definition s (x:string) : bytes := list_ascii_of_string x.
Definition b (l:list N) : bytes := map ascii_of_N l.
Definition cat (l:list bytes) : bytes := concat l.
Fixpoint rpn (n:nat) (u:bytes) : bytes := match n with O => [] | S k => u ++ rpn k u end.
Definition rp (n:N) (u:bytes) : bytes := rpn (N.to_nat n) u.`
	footer := `Definition M := Eval vm_compute in mismatches (c18h_ok chroot_state ops) cases. Print M.`
	cs := c.NewCases("C18h", header, "c18h_case", footer, 300)
	var cwds []string
	if v, ok := c.Res.Extra["bytes_cwds"].([]string); ok {
		cwds = v
	}
	n, maxLen := 1500, 6
	if c.Thorough() {
		n = 15000
	}
	if c.Search {
		n, maxLen = n*3, 8
	}
	histRoots := []string{"/r/s", "/r", "/r/s/a", "/", "/r/./s", "/r//s/", "/r/s/..", "/d e/..x"}
	for i := 0; i < n; i++ {
		cwd, root := "", histRoots[c.Rng.Intn(len(histRoots))]
		if len(cwds) > 0 && c.Rng.Chance(1, 6) {
			cwd = cwds[c.Rng.Intn(len(cwds))]
			root = brootsRel[c.Rng.Intn(len(brootsRel))]
		}
		depth := len(cleanStack(splitAbs(effRoot(cwd, root))))
		steps, pattern := genHistory(c.Rng, depth, maxLen)
		fails := c.Rng.Chance(1, 3)
		o := observeHistory(cwd, root, steps, fails)
		judgeHistory(c, cwd, root, steps, o, fails)
		refused := 0
		var key strings.Builder
		fmt.Fprintf(&key, "h|%s|%s", cwd, root)
		var gsteps, gobs []string
		for j, st := range steps {
			if !o[j].reached {
				refused++
			}
			fmt.Fprintf(&key, "|%s(%s)", st.Op, strings.Join(st.Args, ","))
			ga := make([]string, len(st.Args))
			for k, a := range st.Args {
				ga[k] = gbytes(a)
			}
			gsteps = append(gsteps, fmt.Sprintf("(%d%%nat, %s)", opIndex(st.Op), common.GList(ga)))
			var gp []string
			for _, p := range o[j].paths {
				gp = append(gp, gbytes(p))
			}
			gobs = append(gobs, common.GOptList(o[j].reached, gp))
		}
		c.Count(key.String(), len(steps) >= 2 && refused > 0 && refused < len(steps))
		c.Hist("history:" + pattern)
		c.HistN("history:steps", len(steps))
		c.HistN("history:steps-refused", refused)
		mcwd := cwd
		if mcwd == "" {
			mcwd = "/nowhere"
		}
		cs.Add(fmt.Sprintf("(%s, %s, %s, %s)", gbytes(mcwd), gbytes(root), common.GList(gsteps), common.GList(gobs)), mkHistReplay(cwd, root, steps, fails))
		if i == 0 {
			c.Res.Extra["history_sample"] = map[string]interface{}{"cwd": cwd, "root": root, "steps": steps, "pattern": pattern}
		}
	}
	cs.Close()
}
