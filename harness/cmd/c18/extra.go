// C18, two further input families (deepen round 3, second pass).
//
// (a) LETTER CASE. Roots and targets that differ ONLY in letter case: root /work/Billing with ../billing/secret.sysl,
// ../BILLING/x, a root component against the same component upper-cased, names inside the root that differ in case.
// Single calls on every operation (stream C18c, compared in Coq with the byte-level model) and import statements /
// module arguments through loader.LoadSyslModule (stream C18ic). Oracle as everywhere: no inner call outside the
// cleaned root, compared BYTE-WISE; an inside spelling reaches exactly the file it spells.
//
// (b) NESTED WRAPPERS. syslutil.NewChrootFs(syslutil.NewChrootFs(recording fs, lower), upper) with upper roots that are
// absolute with surplus ".." ("/../shared", "/a/../../x"), relative, unclean or "/": every operation on the upper
// wrapper must stay under the LOWER root (and under lower/Clean(upper)); inside spellings keep working. Single calls
// (stream C18n, compared in Coq with Bytes.b_nested_op = lower after upper) and the loader handed a ChrootFs (the real
// ConfigureProject wraps it again; stream C18in against ImportBytes.b_nested_read).
package main

import (
	"fmt"
	"os"
	"path/filepath"
	"strconv"
	"strings"
	"unicode/utf8"

	"github.com/anz-bank/sysl/pkg/syslutil"
	"github.com/spf13/afero"

	"verifharness/common"
)

const bytesHeader = `From Coq Require Import String Ascii List NArith Bool. Import ListNotations.
Require Import Verif.Chroot.Path Verif.Chroot.Bytes Verif.Gen.ChrootOps Verif.Base.Harness.
Definition s (x:string) : bytes := list_ascii_of_string x.
Definition b (l:list N) : bytes := map ascii_of_N l.
Definition cat (l:list bytes) : bytes := concat l.
Fixpoint rpn (n:nat) (u:bytes) : bytes := match n with O => [] | S k => u ++ rpn k u end.
Definition rp (n:N) (u:bytes) : bytes := rpn (N.to_nat n) u.`

const importHeader = `From Coq Require Import String Ascii List NArith Bool. Import ListNotations.
Require Import Verif.Chroot.Path Verif.Chroot.Bytes Verif.Chroot.ImportBytes Verif.Gen.ChrootOps Verif.Gen.ImportOrder Verif.Base.Harness.
Definition s (x:string) : bytes := list_ascii_of_string x.
Definition b (l:list N) : bytes := map ascii_of_N l.`

// ---------------------------------------------------------------- (a) letter case

// the three spellings of a name that differ only in case (plus the name itself)
func caseVariants(n string) []string {
	out := []string{n}
	add := func(v string) {
		for _, o := range out {
			if o == v {
				return
			}
		}
		out = append(out, v)
	}
	add(strings.ToLower(n))
	add(strings.ToUpper(n))
	if n != "" { // first letter flipped
		f := n[:1]
		if f == strings.ToUpper(f) {
			f = strings.ToLower(f)
		} else {
			f = strings.ToUpper(f)
		}
		add(f + n[1:])
	}
	return out
}

var caseRoots = []string{"/work/Billing", "/work/billing", "/Work/BILLING/Sub", "/work/./Billing/", "/work//Billing/x/..", "/a/B/c", "/Billing", "/sysl/\xc3\x89t\xc3\xa9"}
var caseRelRoots = []string{"Billing", "billing/Sub", "./BILLING", "../Tmp/Billing"}

// case-only relatives of the root: every spelling climbs out of the root and comes back down through names that
// are the root's own components in another case (or in the same case: those stay inside)
func caseTargets(rootSegs []string) []string {
	var out []string
	d := len(rootSegs)
	tails := []string{"secret.sysl", "x", "Sub/x", ""}
	for k := 0; k < d; k++ { // re-spell components k..d-1
		for vi, v := range caseVariants(rootSegs[k]) {
			rest := append([]string{v}, rootSegs[k+1:]...)
			if vi%2 == 1 && k+1 < d { // also vary the next component
				rest[1] = strings.ToUpper(rest[1])
			}
			up := strings.Repeat("../", d-k)
			p := up + strings.Join(rest, "/")
			tail := tails[(k+vi)%len(tails)]
			if tail != "" {
				p += "/" + tail
			}
			out = append(out, p)
			switch (k + vi) % 4 {
			case 0:
				out = append(out, "/"+p) // an absolute argument is re-rooted: the same climb
			case 1:
				out = append(out, "./"+strings.ReplaceAll(p, "../", "..//")+"/.")
			case 2:
				out = append(out, "Sub/../"+p)
			}
		}
	}
	// names inside the root that differ in case
	out = append(out, "Sub/x", "sub/x", "SUB/x", "Sub/../sub/x", "sub/../Sub/./x", "X", "x", "/Sub/X")
	return out
}

func caseNontrivial(root string, args []string) bool {
	rs := cleanStack(splitAbs(root))
	for _, a := range args {
		for _, s := range strings.Split(a, "/") {
			for _, r := range rs {
				if s != r && strings.EqualFold(s, r) {
					return true
				}
			}
		}
	}
	return false
}

func runCase(c *common.Ctx) {
	footer := `Definition M := Eval vm_compute in mismatches (c18b_ok ops) cases. Print M.`
	cs := c.NewCases("C18c", bytesHeader, "c18b_case", footer, 400)
	var cwds []string
	if v, ok := c.Res.Extra["bytes_cwds"].([]string); ok {
		cwds = v
	}
	one := func(opi int, cwd, root string, args []string, toCoq bool) {
		o := observe(cwd, root, ops[opi], args)
		judge(c, cwd, root, ops[opi], args, o)
		c.Count("c|"+ops[opi]+"|"+cwd+"|"+root+"|"+strings.Join(args, "|"), caseNontrivial(effRoot(cwd, root), args))
		if o.reached {
			c.Hist("case:reached")
		} else {
			c.Hist("case:refused")
		}
		if toCoq {
			ga := make([]string, len(args))
			for i, a := range args {
				ga[i] = gbytes(a)
			}
			var gp []string
			for _, p := range o.paths {
				gp = append(gp, gbytes(p))
			}
			mcwd := cwd
			if mcwd == "" {
				mcwd = "/nowhere"
			}
			cs.Add(fmt.Sprintf("(%d%%nat, %s, %s, %s, %s)", opi, gbytes(mcwd), gbytes(root), common.GList(ga), common.GOptList(o.reached, gp)), mkReplay(ops[opi], root, args, cwd))
		}
	}
	stride := 3
	if c.Thorough() {
		stride = 1
	}
	k := 0
	family := func(cwd, root string) {
		for _, t := range caseTargets(cleanStack(splitAbs(effRoot(cwd, root)))) {
			for opi, op := range ops {
				k++
				toCoq := k%stride == 0
				if op == "Rename" {
					one(opi, cwd, root, []string{"x", t}, toCoq) // the second argument carries the spelling
					one(opi, cwd, root, []string{t, "Sub/x"}, k%(2*stride) == 0)
				} else {
					one(opi, cwd, root, []string{t}, toCoq)
				}
			}
		}
	}
	for _, root := range caseRoots {
		family("", root)
	}
	for i, root := range caseRelRoots {
		if len(cwds) > 0 {
			family(cwds[(i+1)%len(cwds)], root)
		}
	}
	// random: roots and arguments over an alphabet whose names differ only in case
	alpha := []string{"Billing", "billing", "BILLING", "bILLING", "work", "Work", "WORK", "Sub", "sub", "..", "..", ".", "", "x", "X"}
	n := 800
	if c.Thorough() {
		n = 10000
	}
	if c.Search {
		n *= 3
	}
	spell := func(max int, abs bool) string {
		m := c.Rng.Intn(max + 1)
		var segs []string
		for i := 0; i < m; i++ {
			segs = append(segs, alpha[c.Rng.Intn(len(alpha))])
		}
		s := strings.Join(segs, "/")
		if abs {
			s = "/" + s
		}
		return s
	}
	for i := 0; i < n; i++ {
		root := spell(4, true)
		cwd := ""
		if len(cwds) > 0 && c.Rng.Chance(1, 6) {
			root, cwd = strings.TrimPrefix(root, "/"), cwds[c.Rng.Intn(len(cwds))]
		}
		opi := c.Rng.Intn(len(ops))
		if c.Rng.Chance(1, 4) {
			opi = 10
		}
		// aim: climb out of the root and come back through a case variant of its own components
		rs := cleanStack(splitAbs(effRoot(cwd, root)))
		mk := func() string {
			if len(rs) > 0 && c.Rng.Chance(2, 3) {
				j := c.Rng.Intn(len(rs))
				var segs []string
				for _, r := range rs[j:] {
					vs := caseVariants(r)
					segs = append(segs, vs[c.Rng.Intn(len(vs))])
				}
				return strings.Repeat("../", len(rs)-j) + strings.Join(segs, "/") + "/" + spell(2, false)
			}
			return spell(6, c.Rng.Bool())
		}
		args := []string{mk()}
		if ops[opi] == "Rename" {
			args = append(args, mk())
		}
		one(opi, cwd, root, args, true)
	}
	cs.Close()
	runCaseImports(c)
}

// ---- letter case through import statements and the module argument

func caseAppOf(p string) string {
	return "App" + strings.NewReplacer("/", "_", ".", "_").Replace(strings.TrimSuffix(p, ".sysl"))
}

// three sibling directories that differ only in case, each with the same little tree; one of them is the root
func caseUniverse() map[string]string {
	files := map[string]string{}
	for _, top := range []string{"/work", "/WORK", "/Work"} {
		for _, d := range []string{"Billing", "billing", "BILLING"} {
			for _, f := range []string{"x.sysl", "secret.sysl", "Sub/x.sysl", "sub/x.sysl", "Sub/dep.sysl"} {
				p := top + "/" + d + "/" + f
				files[p] = caseAppOf(p)
			}
		}
	}
	return files
}

var nestedLower = "/work/proj"

func nestedUniverse() map[string]string {
	files := map[string]string{}
	for _, base := range []string{"/work/proj", "/work/proj/shared", "/work/proj/work/proj", "/work/proj/work/shared", "/work", "/work/shared", "/shared", ""} {
		for _, f := range []string{"x.sysl", "lib/defs.sysl", "lib/x.sysl", "shared/x.sysl"} {
			p := base + "/" + f
			files[p] = caseAppOf(p)
		}
	}
	return files
}

func ibObserveFamily(c *common.Ctx, rp ibReplay) ibObs {
	switch rp.Family {
	case "case":
		return ibObserveFiles(c, rp, caseUniverse())
	case "nested":
		return ibObserveFiles(c, rp, nestedUniverse())
	case "noroot":
		return ibObserveFiles(c, rp, norootUniverse())
	}
	return ibObserve(c, rp)
}

func ibJudgeFamily(c *common.Ctx, rp ibReplay, o ibObs) {
	switch rp.Family {
	case "case":
		ibJudgeIn(c, rp, o, caseUniverse())
	case "nested":
		ibJudgeIn(c, rp, o, nestedUniverse())
	case "noroot":
		nrJudge(c, rp, o, norootUniverse())
	default:
		ibJudge(c, rp, o)
	}
}

// ibJudgeIn: the end-to-end verdict over an arbitrary universe. No inner call outside the root in force (for nested
// wrappers: outside the lower root, and outside lower/Clean(project root)), nothing handed to the git retriever;
// a spelling that names an existing file inside the root compiles and contributes exactly that file's app.
func ibJudgeIn(c *common.Ctx, rp ibReplay, o ibObs, files map[string]string) {
	pfx := ""
	var crL []string
	if rp.Lower != "" {
		pfx = "nested-"
		crL = cleanStack(splitAbs(rp.Lower))
	}
	crU := cleanStack(splitAbs(rp.Root))
	full := append(append([]string(nil), crL...), crU...)
	for _, cl := range o.inner {
		for _, p := range cl.paths {
			ps := cleanStack(splitAbs(p))
			if !hasPrefix(ps, crL) {
				c.Fail(pfx+"escape:"+rp.Kind+":"+cl.op, fmt.Sprintf("%s: module %q text %q, project root %q on a filesystem rooted at %q: the innermost filesystem got %s %q, outside %q", rp.Kind, rp.Module, rp.Text, rp.Root, rp.Lower, cl.op, p, rp.Lower), rp)
				return
			}
			if !hasPrefix(ps, full) {
				key := pfx + "escape:" + rp.Kind + ":" + cl.op
				if rp.Lower != "" {
					key = "nested-escape-upper:" + rp.Kind + ":" + cl.op
				}
				c.Fail(key, fmt.Sprintf("%s: module %q text %q (project root %q, filesystem root %q) made the inner filesystem %s %q, outside the project root /%s", rp.Kind, rp.Module, rp.Text, rp.Root, rp.Lower, cl.op, p, strings.Join(full, "/")), rp)
				return
			}
		}
	}
	if len(o.cached) > 0 {
		c.Fail(pfx+"escape:"+rp.Kind+":local-name-fetched-as-remote", fmt.Sprintf("%s: module %q text %q (root %q): handed to the git retriever; created outside the root: cache%s", rp.Kind, rp.Module, rp.Text, rp.Root, strings.Join(o.cached, ", cache")), rp)
		return
	}
	name := rp.Module
	ext := func(s string) bool { return filepath.Ext(s[strings.LastIndex(s, "/")+1:]) != "" }
	if rp.Kind == "import" {
		if strings.Contains(rp.Text, "@") || strings.Contains(rp.Text, `\`) {
			return
		}
		t := rp.Text
		if !ext(t) {
			t += ".sysl"
		}
		if strings.HasPrefix(t, "/") {
			name = t
		} else {
			m := rp.Module
			name = m[:strings.LastIndex(m, "/")+1] + t
		}
	} else if !ext(name) {
		name += ".sysl"
	}
	want := cleanStack(append(splitAbs(rp.Root), strings.Split(name, "/")...))
	if !hasPrefix(want, crU) {
		return
	}
	wantPath := "/" + strings.Join(append(append([]string(nil), crL...), want...), "/")
	app, exists := files[wantPath]
	if !exists {
		return
	}
	if !o.ok {
		c.Fail(pfx+"inside-refused:"+rp.Kind, fmt.Sprintf("%s: module %q text %q (project root %q, filesystem root %q) names %s inside the root but compilation failed", rp.Kind, rp.Module, rp.Text, rp.Root, rp.Lower, wantPath), rp)
		return
	}
	for _, a := range o.apps {
		if a == app {
			return
		}
	}
	c.Fail(pfx+"inside-wrong-file:"+rp.Kind, fmt.Sprintf("%s: module %q text %q (project root %q, filesystem root %q) should load %s (app %s) but the model has %v", rp.Kind, rp.Module, rp.Text, rp.Root, rp.Lower, wantPath, app, o.apps), rp)
}

func runCaseImports(c *common.Ctx) {
	footer := `Definition M := Eval vm_compute in mismatches (c18ib_ok listener_remote_test listener_test_only_base_dot reader_name_guard ops) cases. Print M.`
	cs := c.NewCases("C18ic", importHeader, "c18ib_case", footer, 300)
	emit := ibEmitter(cs)
	files := caseUniverse()
	roots := []string{"/work/Billing", "/work/billing", "/WORK/./BILLING/", "/work/Billing/Sub", "/Work//billing/sub/.."}
	modules := []string{"main.sysl", "Sub/main", "sub/main.sysl"}
	texts := []string{"../billing/secret", "../BILLING/x", "../Billing/x", "/../billing/secret", "../../WORK/Billing/x", "../../work/billing/Sub/x",
		"Sub/x", "sub/x", "SUB/x", "Sub/../sub/x", "../Billing/Sub/x", "../billing/sub/x", "x", "X", "/Sub/x", "/sub/x", "/SUB/../sub/x",
		"../sub/x", "../Sub/x", "../SUB/x", "dep", "../Sub/dep", "../sub/dep"}
	run := func(rp ibReplay) {
		o := ibObserveFiles(c, rp, files)
		ibJudgeIn(c, rp, o, files)
		c.Count("ic|"+rp.Kind+"|"+rp.Root+"|"+rp.Module+"|"+rp.Text, caseNontrivial(rp.Root, []string{rp.Module, rp.Text}))
		c.Hist("e2e-case:" + rp.Kind)
		if o.ok {
			c.Hist("e2e-case:model")
		} else {
			c.Hist("e2e-case:error")
		}
		emit(rp, o)
	}
	for ri, root := range roots {
		for mi, m := range modules {
			for ti, t := range texts {
				if !c.Thorough() && (ri+mi+ti)%2 == 1 {
					continue
				}
				run(ibReplay{Kind: "import", Raw: true, Family: "case", Root: root, Module: m, Text: t})
			}
		}
		for _, m := range []string{"../billing/secret.sysl", "../BILLING/x", "x", "X.sysl", "Sub/x.sysl", "sub/x", "../Billing/x.sysl", "Sub/../../billing/x", "SUB/../sub/x.sysl"} {
			run(ibReplay{Kind: "module", Raw: true, Family: "case", Root: root, Module: m})
		}
	}
	cs.Close()
}

// ---------------------------------------------------------------- (b) nested wrappers

type nestReplay struct {
	Kind   string   `json:"kind"` // "nested"
	Op     string   `json:"op"`
	Lower  string   `json:"lower"` // root of the wrapper built first, directly on the recording filesystem
	Upper  string   `json:"upper"` // root of the wrapper built on top of it
	Args   []string `json:"args"`
	Cwd    string   `json:"cwd,omitempty"`
	Quoted bool     `json:"quoted,omitempty"`
}

func mkNestReplay(op, lower, upper string, args []string, cwd string) nestReplay {
	rp := nestReplay{Kind: "nested", Op: op, Lower: lower, Upper: upper, Args: append([]string(nil), args...), Cwd: cwd}
	ok := utf8.ValidString(lower) && utf8.ValidString(upper) && utf8.ValidString(cwd)
	for _, a := range args {
		ok = ok && utf8.ValidString(a)
	}
	if !ok {
		rp.Quoted = true
		rp.Lower, rp.Upper, rp.Cwd = strconv.Quote(lower), strconv.Quote(upper), strconv.Quote(cwd)
		for i, a := range args {
			rp.Args[i] = strconv.Quote(a)
		}
	}
	return rp
}

func (rp nestReplay) unquote() nestReplay {
	if !rp.Quoted {
		return rp
	}
	uq := func(s string) string {
		u, err := strconv.Unquote(s)
		if err != nil {
			panic(err)
		}
		return u
	}
	out := nestReplay{Kind: rp.Kind, Op: rp.Op, Lower: uq(rp.Lower), Upper: uq(rp.Upper), Cwd: uq(rp.Cwd)}
	for _, a := range rp.Args {
		out.Args = append(out.Args, uq(a))
	}
	return out
}

// observeNested: the REAL constructors, one on the other, over the recording filesystem
func observeNested(cwd, lower0, upper0, op string, args []string) obs {
	r := &rec{Fs: afero.NewMemMapFs()}
	if cwd != "" {
		if err := os.Chdir(cwd); err != nil {
			panic(err)
		}
	}
	lower := syslutil.NewChrootFs(r, lower0)
	upper := syslutil.NewChrootFs(lower, upper0)
	if cwd != "" {
		os.Chdir(origWd)
	}
	b := ""
	if len(args) > 1 {
		b = args[1]
	}
	invoke(upper, op, args[0], b)
	if len(r.calls) == 0 {
		return obs{}
	}
	var ps []string
	for _, cl := range r.calls {
		ps = append(ps, cl.paths...)
	}
	return obs{true, ps}
}

// judgeNested: the property for two roots in force, model-independently (stack cleaning as in judgeWith)
func judgeNested(c *common.Ctx, cwd, lower0, upper0, op string, args []string, o obs) {
	rp := mkNestReplay(op, lower0, upper0, args, cwd)
	lowerEff, upperEff := effRoot(cwd, lower0), effRoot(cwd, upper0)
	crL := cleanStack(splitAbs(lowerEff))
	crU := cleanStack(splitAbs(upperEff))
	full := append(append([]string(nil), crL...), crU...)
	where := fmt.Sprintf("%s(%q) on NewChrootFs(NewChrootFs(fs, %q), %q)", op, args, lowerEff, upperEff)
	if o.reached {
		for _, p := range o.paths {
			ps := cleanStack(splitAbs(p))
			if !hasPrefix(ps, crL) {
				c.Fail("nested-escape:"+op, where+fmt.Sprintf(" reached the innermost filesystem with %q, outside the lower root", p), rp)
				return
			}
			if !hasPrefix(ps, full) {
				c.Fail("nested-escape-upper:"+op, where+fmt.Sprintf(" reached the innermost filesystem with %q, outside the upper root (/%s)", p, strings.Join(full, "/")), rp)
				return
			}
		}
	}
	allInside := true
	want := make([]string, len(args))
	for i, a := range args {
		w := cleanStack(append(splitAbs(upperEff), strings.Split(a, "/")...))
		if !hasPrefix(w, crU) {
			allInside = false
		}
		want[i] = "/" + strings.Join(append(append([]string(nil), crL...), w...), "/")
	}
	if !allInside {
		return
	}
	if !o.reached {
		c.Fail("nested-inside-refused:"+op, where+" stays inside the upper root but was refused", rp)
		return
	}
	if len(o.paths) != len(args) {
		c.Fail("nested-inside-wrong-file:"+op, where+fmt.Sprintf(": innermost call got %q", o.paths), rp)
		return
	}
	for i := range args {
		if want[i] != o.paths[i] {
			c.Fail("nested-inside-wrong-file:"+op, where+fmt.Sprintf(" resolved to %q, canonical spelling is %q", o.paths[i], want[i]), rp)
			return
		}
	}
}

var nestLowerAbs = []string{"/work/proj", "/", "/r/./s//", "/r/s/..", "/work/proj/../Proj"}
var nestLowerRel = []string{"proj", "../w"}
var nestUpper = []string{"/../shared", "/a/../../x", "/shared/../../shared", "/../../shared/.", "/", "//", "/..", "/u", "/u//v/./", "/work/proj",
	"/..x/d e", "shared", "../up", ".", "", "a/../../..", "/./../.."}

func runNested(c *common.Ctx) {
	footer := `Definition M := Eval vm_compute in mismatches (c18n_ok ops) cases. Print M.`
	cs := c.NewCases("C18n", bytesHeader, "c18n_case", footer, 400)
	var cwds []string
	if v, ok := c.Res.Extra["bytes_cwds"].([]string); ok {
		cwds = v
	}
	one := func(opi int, cwd, lower, upper string, args []string, toCoq bool) {
		needCwd := !strings.HasPrefix(lower, "/") || !strings.HasPrefix(upper, "/")
		if needCwd && cwd == "" {
			return
		}
		if !needCwd {
			cwd = ""
		}
		o := observeNested(cwd, lower, upper, ops[opi], args)
		judgeNested(c, cwd, lower, upper, ops[opi], args, o)
		surplus := hasSurplusDotDot(effRoot(cwd, upper))
		c.Count("n|"+ops[opi]+"|"+cwd+"|"+lower+"|"+upper+"|"+strings.Join(args, "|"), surplus || bnontrivial(upper, args))
		if surplus {
			c.Hist("nested:upper-root-with-dotdot")
		}
		if o.reached {
			c.Hist("nested:reached")
		} else {
			c.Hist("nested:refused")
		}
		if toCoq {
			ga := make([]string, len(args))
			for i, a := range args {
				ga[i] = gbytes(a)
			}
			var gp []string
			for _, p := range o.paths {
				gp = append(gp, gbytes(p))
			}
			mcwd := cwd
			if mcwd == "" {
				mcwd = "/nowhere"
			}
			cs.Add(fmt.Sprintf("(%d%%nat, %s, %s, %s, %s, %s)", opi, gbytes(mcwd), gbytes(lower), gbytes(upper), common.GList(ga), common.GOptList(o.reached, gp)), mkNestReplay(ops[opi], lower, upper, args, cwd))
		}
	}
	call := func(opi int, cwd, lower, upper, sp string, toCoq bool, k int) {
		if ops[opi] == "Rename" {
			if k%2 == 0 {
				one(opi, cwd, lower, upper, []string{"a", sp}, toCoq)
			} else {
				one(opi, cwd, lower, upper, []string{sp, "../" + strings.TrimPrefix(sp, "/")}, toCoq)
			}
		} else {
			one(opi, cwd, lower, upper, []string{sp}, toCoq)
		}
	}
	// 1. every spelling of <= L segments x every (lower, upper) pair, the operations rotating; plus every operation
	// on a fixed set of spellings for every pair
	L, stride := 2, 29
	if c.Thorough() {
		L, stride = 3, 173
	}
	if c.Search {
		L++
	}
	lowers := append(append([]string(nil), nestLowerAbs...), nestLowerRel...)
	k := 0
	fixed := []string{"new.sysl", "../x", "a/../../x", "/../../etc/passwd", "", "/", "lib/./defs.sysl//"}
	for li, lower := range lowers {
		for ui, upper := range nestUpper {
			cwd := ""
			if len(cwds) > 0 {
				cwd = cwds[(li+ui)%len(cwds)]
			}
			for _, sp := range fixed {
				for opi := range ops {
					k++
					call(opi, cwd, lower, upper, sp, k%7 == 0, k)
				}
			}
		}
	}
	benumerate(L, func(p bspec) {
		sp := p.str()
		for li, lower := range lowers {
			for ui, upper := range nestUpper {
				if len(p.segs) == L && (k+li+ui)%3 != 0 {
					continue
				}
				k++
				cwd := ""
				if len(cwds) > 0 {
					cwd = cwds[k%len(cwds)]
				}
				call(k%len(ops), cwd, lower, upper, sp, k%stride == 0, k)
			}
		}
	})
	// 2. random: random upper roots with surplus "..", random arguments
	n := 600
	if c.Thorough() {
		n = 8000
	}
	if c.Search {
		n *= 3
	}
	for i := 0; i < n; i++ {
		lower := lowers[c.Rng.Intn(len(lowers))]
		upper := nestUpper[c.Rng.Intn(len(nestUpper))]
		if c.Rng.Chance(1, 2) {
			upper = brandPath(c.Rng, 5, false)
			if c.Rng.Chance(2, 3) {
				upper = "/" + strings.Repeat("../", c.Rng.Intn(3)) + strings.TrimPrefix(upper, "/")
			}
		}
		if c.Rng.Chance(1, 5) {
			lower = "/" + strings.TrimPrefix(brandPath(c.Rng, 4, false), "/")
		}
		cwd := ""
		if len(cwds) > 0 {
			cwd = cwds[c.Rng.Intn(len(cwds))]
		}
		opi := c.Rng.Intn(len(ops))
		if c.Rng.Chance(1, 4) {
			opi = 10
		}
		args := []string{brandPath(c.Rng, 6, true)}
		if ops[opi] == "Rename" {
			args = append(args, brandPath(c.Rng, 6, true))
		}
		one(opi, cwd, lower, upper, args, true)
	}
	cs.Close()
	runNestedImports(c)
}

// the loader is handed a ChrootFs; ConfigureProject wraps it again at the project root
func runNestedImports(c *common.Ctx) {
	footer := `Definition M := Eval vm_compute in mismatches (c18in_ok listener_remote_test listener_test_only_base_dot reader_name_guard ops) cases. Print M.`
	cs := c.NewCases("C18in", importHeader, "c18in_case", footer, 300)
	files := nestedUniverse()
	uppers := []string{"/../shared", "/shared/../../shared", "/../../shared/.", "/shared", "/", "/..", "/work/proj", "/a/../../work/../shared/"}
	modules := []string{"main.sysl", "lib/main", "shared/main.sysl"}
	texts := []string{"x", "lib/defs", "/lib/defs", "../x", "../shared/x", "/../x", "lib/../x", "../../x", "/../../work/shared/x", "defs", "../lib/defs", "shared/x", "../../shared/x"}
	run := func(rp ibReplay) {
		o := ibObserveFiles(c, rp, files)
		ibJudgeIn(c, rp, o, files)
		c.Count("in|"+rp.Kind+"|"+rp.Root+"|"+rp.Module+"|"+rp.Text, true)
		c.Hist("e2e-nested:" + rp.Kind)
		if o.ok {
			c.Hist("e2e-nested:model")
		} else {
			c.Hist("e2e-nested:error")
		}
		obsTerm := "None"
		switch {
		case rp.Kind == "module" && len(o.opens) >= 1:
			obsTerm = "(Some " + gbytes(o.opens[0]) + ")"
		case rp.Kind == "import" && len(o.opens) == 2:
			obsTerm = "(Some " + gbytes(o.opens[1]) + ")"
		case rp.Kind == "import" && len(o.opens) > 2:
			obsTerm = `(Some (s "<more than one file opened for one import statement>"))`
		}
		text := "None"
		if rp.Kind == "import" {
			text = "(Some " + gbytes(rp.Text) + ")"
		}
		cs.Add(fmt.Sprintf("(%s, %s, %s, %s, %s, %s, %s)", gbytes("/nowhere"), gbytes(rp.Lower), gbytes(rp.Root), gbytes(rp.Module), text, common.GBool(len(o.cached) > 0), obsTerm), rp)
	}
	for ui, upper := range uppers {
		for mi, m := range modules {
			for ti, t := range texts {
				if !c.Thorough() && (ui+mi+ti)%2 == 1 {
					continue
				}
				run(ibReplay{Kind: "import", Raw: true, Family: "nested", Lower: nestedLower, Root: upper, Module: m, Text: t})
			}
		}
		for _, m := range []string{"x.sysl", "lib/defs", "../x.sysl", "../shared/x", "lib/../../x.sysl", "shared/x"} {
			run(ibReplay{Kind: "module", Raw: true, Family: "nested", Lower: nestedLower, Root: upper, Module: m})
		}
	}
	cs.Close()
}

// hasSurplusDotDot: cleaning the absolute path p meets a ".." at the filesystem root
func hasSurplusDotDot(p string) bool {
	depth := 0
	for _, s := range splitAbs(p) {
		switch s {
		case "", ".":
		case "..":
			if depth == 0 {
				return true
			}
			depth--
		default:
			depth++
		}
	}
	return false
}
