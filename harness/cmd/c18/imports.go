// C18, end-to-end stream: the paths that import statements and the module argument spell reach the inner
// filesystem only through ChrootFs. Drives loader.LoadSyslModule (root given, so a project root is in force)
// over a recording MemMapFs and judges every recorded inner call.
package main

import (
	"fmt"
	"io"
	"sort"
	"strings"

	"github.com/anz-bank/sysl/pkg/loader"
	"github.com/sirupsen/logrus"
	"github.com/spf13/afero"

	"verifharness/common"
)

// directories of the little universe; every one holds x.sysl declaring an app named after the directory
var impDirs = []string{"/", "/r", "/r/s", "/r/s/a", "/r/s/a/b", "/r/s/b", "/r/a", "/a", "/r/b", "/b"}

// segment alphabet of import spellings (the lexer's SUB_PATH_NAME excludes space, '/', ':' and '\\'; an empty
// segment can only be spelled in the middle, as "//")
var impAlphabet = []string{"", ".", "..", "a", "b", "s", "r"}

func init() {
	nameID["x.sysl"] = 7
	nameID["main.sysl"] = 8
	nameID["modules.yaml"] = 9
	nameID["b"] = 10
}

func appOf(dir string) string {
	if dir == "/" {
		return "AppRoot"
	}
	return "App" + strings.ReplaceAll(dir, "/", "_")
}

type impReplay struct {
	Kind     string `json:"kind"` // "import" | "module"
	Root     string `json:"root"`
	Base     string `json:"base"`     // directory of the importing file, relative to the root ("" = the root itself)
	Spelling string `json:"spelling"` // what the import statement / the module argument spells (without .sysl)
}

type impObs struct {
	ok     bool     // a model came back
	apps   []string // sorted app names of the model
	inner  []call   // every call the inner filesystem saw
	target []string // inner Open paths other than the main module and modules.yaml
}

func newUniverse() *rec {
	mem := afero.NewMemMapFs()
	for _, d := range impDirs {
		p := strings.TrimSuffix(d, "/") + "/x.sysl"
		afero.WriteFile(mem, p, []byte(appOf(d)+":\n    ...\n"), 0o644)
	}
	return &rec{Fs: mem}
}

func observeImport(rp impReplay) impObs {
	r := newUniverse()
	logger := logrus.New()
	logger.SetOutput(io.Discard)
	var module string
	mainPath := ""
	if rp.Kind == "import" {
		dir := strings.TrimSuffix(rp.Root, "/")
		if rp.Base != "" {
			dir += "/" + rp.Base
		}
		mainPath = "/" + strings.Join(cleanStack(splitAbs(dir+"/main.sysl")), "/")
		afero.WriteFile(r.Fs, mainPath, []byte("import "+rp.Spelling+"\nMain:\n    ...\n"), 0o644)
		module = "main.sysl"
		if rp.Base != "" {
			module = rp.Base + "/main.sysl"
		}
	} else {
		module = rp.Spelling
	}
	var o impObs
	func() {
		defer func() { recover() }()
		m, _, err := loader.LoadSyslModule(rp.Root, module, r, logger)
		if err == nil && m != nil {
			o.ok = true
			for a := range m.Apps {
				o.apps = append(o.apps, a)
			}
			sort.Strings(o.apps)
		}
	}()
	o.inner = r.calls
	for _, c := range r.calls {
		for _, p := range c.paths {
			if p == mainPath || strings.HasSuffix(p, "/modules.yaml") {
				continue
			}
			if c.op == "Open" || c.op == "OpenFile" {
				o.target = append(o.target, p)
			}
		}
	}
	return o
}

// where the property says the spelling points: the importing file's directory (or the root for a rooted
// spelling), then the spelling, then ".sysl"
func impWant(rp impReplay) (segs []string) {
	segs = splitAbs(rp.Root)
	if rp.Kind == "import" && !strings.HasPrefix(rp.Spelling, "/") && rp.Base != "" {
		segs = append(segs, strings.Split(rp.Base, "/")...)
	}
	segs = append(segs, strings.Split(rp.Spelling+".sysl", "/")...)
	return segs
}

func judgeImport(c *common.Ctx, rp impReplay, o impObs) {
	cr := cleanStack(splitAbs(rp.Root))
	for _, cl := range o.inner {
		for _, p := range cl.paths {
			if !hasPrefix(cleanStack(splitAbs(p)), cr) {
				c.Fail("escape:"+rp.Kind+":"+cl.op, fmt.Sprintf("%s %q (root %q, importing file in %q) made the inner filesystem %s %q, outside the root",
					rp.Kind, rp.Spelling, rp.Root, rp.Base, cl.op, p), rp)
				return
			}
		}
	}
	want := cleanStack(impWant(rp))
	if !hasPrefix(want, cr) {
		return
	}
	// inside the root: must resolve to that one file whatever the spelling
	wantPath := "/" + strings.Join(want, "/")
	dir := strings.TrimSuffix(wantPath, "/x.sysl")
	if dir == "" {
		dir = "/"
	}
	exists := false
	for _, d := range impDirs {
		if d == dir && strings.HasSuffix(wantPath, "/x.sysl") {
			exists = true
		}
	}
	if !exists {
		return
	}
	if !o.ok {
		c.Fail("inside-refused:"+rp.Kind, fmt.Sprintf("%s %q (root %q, importing file in %q) names %s inside the root but compilation failed", rp.Kind, rp.Spelling, rp.Root, rp.Base, wantPath), rp)
		return
	}
	found := false
	for _, a := range o.apps {
		if a == appOf(dir) {
			found = true
		}
	}
	if !found {
		c.Fail("inside-wrong-file:"+rp.Kind, fmt.Sprintf("%s %q (root %q, importing file in %q) should load %s (app %s) but the model has %v", rp.Kind, rp.Spelling, rp.Root, rp.Base, wantPath, appOf(dir), o.apps), rp)
	}
}

func randImportSpelling(r *common.Rng, maxSegs int) string {
	n := r.Intn(maxSegs + 1)
	var segs []string
	for i := 0; i < n; i++ {
		s := impAlphabet[r.Intn(len(impAlphabet))]
		if s == "" && (i == 0 || segs[len(segs)-1] == "") {
			s = "." // "//" only in the middle, never doubled: "///" does not lex as one path
		}
		segs = append(segs, s)
	}
	segs = append(segs, "x")
	sp := strings.Join(segs, "/")
	if r.Chance(1, 3) {
		sp = "/" + sp
	}
	if strings.HasPrefix(sp, "//") {
		sp = sp[1:] // a leading "//" is a remote import (not modelled: needs the network)
	}
	return sp
}

func runImports(c *common.Ctx) {
	header := `From Coq Require Import List NArith PArith Bool. Import ListNotations.
Require Import Verif.Chroot.Path Verif.Chroot.Import Verif.Gen.ChrootOps Verif.Base.Harness.
Notation E := Empty. Notation D := Dot. Notation U := DotDot. Definition n (p:positive) := Name p.
Definition T := true. Definition F := false.`
	footer := `Definition M := Eval vm_compute in mismatches (c18_import_ok ops) cases. Print M.`
	cs := c.NewCases("C18imp", header, "c18_import_case", footer, 1500)
	rootsI := []string{"/r/s", "/r", "/r/s/", "/r/./s", "/"}
	bases := []string{"", "a", "a/b", "b"}
	n := 700
	if c.Thorough() {
		n = 8000
	}
	if c.Search {
		n *= 3
	}
	for i := 0; i < n; i++ {
		rp := impReplay{Kind: "import", Root: rootsI[c.Rng.Intn(len(rootsI))]}
		if c.Rng.Chance(1, 4) {
			rp.Kind = "module"
		}
		if rp.Kind == "import" {
			rp.Base = bases[c.Rng.Intn(len(bases))]
			// the importing file must itself live inside the universe
			dir := "/" + strings.Join(cleanStack(append(splitAbs(rp.Root), strings.Split(rp.Base, "/")...)), "/")
			ok := false
			for _, d := range impDirs {
				if d == dir {
					ok = true
				}
			}
			if !ok {
				rp.Base = ""
			}
		}
		rp.Spelling = randImportSpelling(c.Rng, 6)
		if rp.Kind == "module" {
			rp.Spelling = strings.TrimPrefix(rp.Spelling, "/") // filepath.Join(root, module) makes no difference for a leading slash; keep it relative
		}
		o := observeImport(rp)
		judgeImport(c, rp, o)
		nontriv := strings.Contains(rp.Spelling, "..") || strings.Contains(rp.Spelling, "//") || strings.HasPrefix(rp.Spelling, "/") || strings.Contains(rp.Spelling, "./")
		c.Count(fmt.Sprintf("%s|%s|%s|%s", rp.Kind, rp.Root, rp.Base, rp.Spelling), nontriv)
		c.Hist("e2e:" + rp.Kind)
		if o.ok {
			c.Hist("e2e:model")
		} else {
			c.Hist("e2e:error")
		}
		// Gallina: (root, base, rooted?, spelling segments incl. the file name, what the inner fs was asked to open)
		sp := rp.Spelling + ".sysl"
		abs := strings.HasPrefix(sp, "/")
		sp = strings.TrimPrefix(sp, "/")
		var base []string
		if rp.Base != "" {
			base = strings.Split(rp.Base, "/")
		}
		obsTerm := "None"
		if len(o.target) == 1 {
			p := o.target[0]
			cl := cleanStack(splitAbs(p))
			if "/"+strings.Join(cl, "/") == p || (p == "/" && len(cl) == 0) {
				obsTerm = "(Some " + gnames(cl) + ")"
			} else {
				obsTerm = "(Some [99]%positive)"
			}
		} else if len(o.target) > 1 {
			obsTerm = "(Some [98]%positive)"
		}
		term := fmt.Sprintf("(%s, %s, %s, %s, %s)", gsegs(splitAbs(rp.Root)), gsegsOrNil(base), common.GBool(abs && rp.Kind == "import"), gsegs(strings.Split(sp, "/")), obsTerm)
		cs.Add(term, rp)
		if i < 6 {
			c.Sample(map[string]interface{}{"kind": rp.Kind, "root": rp.Root, "base": rp.Base, "spelling": rp.Spelling, "model": o.ok, "apps": o.apps, "inner_opens": o.target})
		}
	}
	cs.Close()
}

func gsegsOrNil(ss []string) string {
	if len(ss) == 0 {
		return "[]"
	}
	return gsegs(ss)
}
