package common

import (
	"bufio"
	"bytes"
	"encoding/json"
	"io"
	"os"
	"os/exec"
	"strings"
	"sync"
	"time"
)

// Worker runs the harness binary itself in "-worker" mode as a subprocess, so that code which can kill
// the process (a panic in a goroutine it spawned, os.Exit, stack overflow) or hang is observed from outside.
// Protocol: one JSON request per line on stdin, one JSON reply per line on stdout.
type Worker struct {
	args     []string
	cmd      *exec.Cmd
	in       io.WriteCloser
	out      *bufio.Reader
	stderr   *bytes.Buffer
	mu       sync.Mutex
	Restarts int
}

func NewWorker(args ...string) *Worker { return &Worker{args: args} }

func (w *Worker) start() error {
	exe, err := os.Executable()
	if err != nil {
		return err
	}
	w.cmd = exec.Command(exe, w.args...)
	w.cmd.Env = append(os.Environ(), "VERIF_WORKER=1")
	w.in, _ = w.cmd.StdinPipe()
	so, _ := w.cmd.StdoutPipe()
	w.out = bufio.NewReaderSize(so, 1<<20)
	w.stderr = &bytes.Buffer{}
	w.cmd.Stderr = w.stderr
	return w.cmd.Start()
}

func (w *Worker) kill() {
	if w.cmd != nil {
		w.in.Close()
		w.cmd.Process.Kill()
		w.cmd.Wait()
		w.cmd = nil
	}
}

// Call sends req and waits for the reply. died=true: the worker process ended (stderr holds the trace);
// timedOut=true: no reply within the deadline (the worker is killed).
func (w *Worker) Call(req interface{}, reply interface{}, deadline time.Duration) (died, timedOut bool, stderr string) {
	w.mu.Lock()
	defer w.mu.Unlock()
	if w.cmd == nil {
		if err := w.start(); err != nil {
			return true, false, "cannot start worker: " + err.Error()
		}
	}
	b, _ := json.Marshal(req)
	b = append(b, '\n')
	if _, err := w.in.Write(b); err != nil {
		w.kill()
		w.Restarts++
		return true, false, "write to worker failed: " + err.Error()
	}
	type res struct {
		line []byte
		err  error
	}
	ch := make(chan res, 1)
	out := w.out
	go func() {
		for {
			line, err := out.ReadBytes('\n')
			if err != nil {
				ch <- res{nil, err}
				return
			}
			if bytes.HasPrefix(line, []byte("@@")) { // replies are prefixed so stray prints of the code under test are skipped
				ch <- res{line[2:], nil}
				return
			}
		}
	}()
	select {
	case r := <-ch:
		if r.err != nil {
			w.cmd.Wait()
			se := w.stderr.String()
			w.cmd = nil
			w.Restarts++
			return true, false, se
		}
		if err := json.Unmarshal(r.line, reply); err != nil {
			return true, false, "bad reply: " + string(r.line)
		}
		return false, false, ""
	case <-time.After(deadline):
		se := w.stderr.String()
		w.kill()
		w.Restarts++
		return false, true, se
	}
}

func (w *Worker) Close() { w.mu.Lock(); w.kill(); w.mu.Unlock() }

// ServeWorker is the worker side: handle is called per request line; its result is written as one reply line.
func ServeWorker(handle func(line []byte) interface{}) {
	in := bufio.NewReaderSize(os.Stdin, 1<<20)
	out := bufio.NewWriter(os.Stdout)
	for {
		line, err := in.ReadBytes('\n')
		if len(line) > 0 {
			r := handle(line)
			b, _ := json.Marshal(r)
			out.WriteString("@@")
			out.Write(b)
			out.WriteByte('\n')
			out.Flush()
		}
		if err != nil {
			return
		}
	}
}

func IsWorker() bool { return os.Getenv("VERIF_WORKER") == "1" }

// PanicSite extracts "file.go:func" of the first frame inside the sysl module from a Go panic / fatal trace.
func PanicSite(trace string) string {
	lines := strings.Split(trace, "\n")
	for i, l := range lines {
		if strings.Contains(l, "github.com/anz-bank/sysl/") && !strings.HasPrefix(strings.TrimSpace(l), "/") {
			fn := strings.TrimSpace(l)
			if j := strings.LastIndex(fn, "("); j > 0 {
				fn = fn[:j]
			}
			fn = fn[strings.LastIndex(fn, "/")+1:]
			file := ""
			if i+1 < len(lines) {
				f := strings.TrimSpace(lines[i+1])
				if k := strings.LastIndex(f, "/"); k >= 0 {
					f = f[k+1:]
				}
				if k := strings.Index(f, ":"); k >= 0 {
					f = f[:k]
				}
				file = f
			}
			return file + ":" + fn
		}
	}
	if strings.Contains(trace, "stack overflow") {
		return "stack-overflow"
	}
	return "unknown"
}
