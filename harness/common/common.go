// Package common: shared plumbing of the correspondence harness - one PRNG state per run,
// result / replay JSON, sharded Gallina case files.
package common

import (
	"bufio"
	"encoding/json"
	"flag"
	"fmt"
	"os"
	"path/filepath"
	"sort"
	"strings"
)

// Rng is splitmix64; every random choice of a run derives from the one seed.
type Rng struct{ s uint64 }

func NewRng(seed uint64) *Rng { return &Rng{s: seed*0x9E3779B97F4A7C15 + 0x1234567} }
func (r *Rng) Uint64() uint64 {
	r.s += 0x9E3779B97F4A7C15
	z := r.s
	z = (z ^ (z >> 30)) * 0xBF58476D1CE4E5B9
	z = (z ^ (z >> 27)) * 0x94D049BB133111EB
	return z ^ (z >> 31)
}
func (r *Rng) Intn(n int) int {
	if n <= 0 {
		return 0
	}
	return int(r.Uint64() % uint64(n))
}
func (r *Rng) Bool() bool           { return r.Uint64()&1 == 1 }
func (r *Rng) Chance(p, q int) bool { return r.Intn(q) < p }
func (r *Rng) Fork() *Rng           { return NewRng(r.Uint64()) }

// Failure is a concrete input on which the PROPERTY (not the model) fails on the implementation,
// judged by a model-independent oracle in Go.
type Failure struct {
	Key    string      `json:"key"`  // abstract class, matched against known-findings.json
	What   string      `json:"what"` // one line
	Replay interface{} `json:"replay"`
}

// CaseRef lets the driver turn a mismatch index reported by Coq back into a replayable input.
type CaseRef struct {
	Index int         `json:"index"`
	Input interface{} `json:"input"`
}

type Result struct {
	Property           string                 `json:"property"`
	Tier               string                 `json:"tier"`
	Seed               uint64                 `json:"seed"`
	Evaluations        int                    `json:"evaluations"`
	DistinctNontrivial int                    `json:"distinct_nontrivial"`
	Rule               string                 `json:"rule"`
	Samples            []interface{}          `json:"samples"`
	Histogram          map[string]int         `json:"histogram"`
	Failures           []Failure              `json:"failures"`
	CaseFiles          []string               `json:"case_files"`
	CaseRefs           map[string][]CaseRef   `json:"case_refs"` // per case file (kept small: only a digest per case)
	Extra              map[string]interface{} `json:"extra,omitempty"`
	Notes              []string               `json:"notes,omitempty"`
}

type Ctx struct {
	Tier     string
	Seed     uint64
	Out      string
	Search   bool   // a proof obligation or correspondence broke: widen the failing-input search
	Replay   string // replay file to re-run instead of generating
	Rng      *Rng
	Res      *Result
	distinct map[string]bool
}

func Setup(property string) *Ctx {
	tier := flag.String("tier", "quick", "quick|thorough")
	seed := flag.Uint64("seed", 1, "seed")
	out := flag.String("out", ".", "output dir")
	search := flag.Bool("search", false, "widen failing-input search")
	replay := flag.String("replay", "", "replay file")
	flag.Parse()
	os.MkdirAll(*out, 0o755)
	c := &Ctx{Tier: *tier, Seed: *seed, Out: *out, Search: *search, Replay: *replay, Rng: NewRng(*seed),
		Res:      &Result{Property: property, Tier: *tier, Seed: *seed, Failures: []Failure{}, Samples: []interface{}{}, CaseFiles: []string{}, Histogram: map[string]int{}, CaseRefs: map[string][]CaseRef{}, Extra: map[string]interface{}{}},
		distinct: map[string]bool{}}
	return c
}

func (c *Ctx) Thorough() bool { return c.Tier == "thorough" }

// Count records one evaluated case; key identifies it for distinctness; nontrivial by the property's rule.
func (c *Ctx) Count(key string, nontrivial bool) {
	c.Res.Evaluations++
	if nontrivial && !c.distinct[key] {
		c.distinct[key] = true
		c.Res.DistinctNontrivial++
	}
}
func (c *Ctx) Hist(k string)         { c.Res.Histogram[k]++ }
func (c *Ctx) HistN(k string, n int) { c.Res.Histogram[k] += n }
func (c *Ctx) Sample(s interface{}) {
	if len(c.Res.Samples) < 6 {
		c.Res.Samples = append(c.Res.Samples, s)
	}
}
func (c *Ctx) Fail(key, what string, replay interface{}) {
	// keep at most 20 per key
	n := 0
	for _, f := range c.Res.Failures {
		if f.Key == key {
			n++
		}
	}
	c.Hist("failure:" + key)
	if n < 20 {
		c.Res.Failures = append(c.Res.Failures, Failure{key, what, replay})
	}
}

func (c *Ctx) Finish() {
	b, _ := json.MarshalIndent(c.Res, "", " ")
	if err := os.WriteFile(filepath.Join(c.Out, "result.json"), b, 0o644); err != nil {
		fmt.Fprintln(os.Stderr, err)
		os.Exit(3)
	}
}

// Cases writes sharded Gallina case files. Each file is
//
//	<header> Definition cases : list (N * T) := [ (i, case) ; ... ]. <footer>
//
// where footer must define and Print M (list of mismatching indices).
type Cases struct {
	ctx       *Ctx
	name      string
	header    string
	ty        string
	footer    string
	perFile   int
	cur       *bufio.Writer
	curF      *os.File
	curName   string
	n, inFile int
}

func (c *Ctx) NewCases(name, header, ty, footer string, perFile int) *Cases {
	return &Cases{ctx: c, name: name, header: header, ty: ty, footer: footer, perFile: perFile}
}

func (cs *Cases) open() {
	cs.curName = fmt.Sprintf("cases_%s_%d.v", cs.name, len(cs.ctx.Res.CaseFiles))
	f, err := os.Create(filepath.Join(cs.ctx.Out, cs.curName))
	if err != nil {
		panic(err)
	}
	cs.curF = f
	cs.cur = bufio.NewWriterSize(f, 1<<20)
	cs.ctx.Res.CaseFiles = append(cs.ctx.Res.CaseFiles, cs.curName)
	fmt.Fprintln(cs.cur, cs.header)
	fmt.Fprintf(cs.cur, "Definition cases : list (N * (%s)) := [\n", cs.ty)
	cs.inFile = 0
}

func (cs *Cases) close() {
	if cs.cur == nil {
		return
	}
	fmt.Fprintln(cs.cur, "].")
	fmt.Fprintln(cs.cur, cs.footer)
	cs.cur.Flush()
	cs.curF.Close()
	cs.cur = nil
}

// Add one case (Gallina term of type ty) with a small replay descriptor.
func (cs *Cases) Add(term string, input interface{}) int {
	if cs.cur == nil {
		cs.open()
	}
	if cs.inFile > 0 {
		fmt.Fprintln(cs.cur, ";")
	}
	fmt.Fprintf(cs.cur, "(%d%%N, %s)", cs.n, term)
	cs.ctx.Res.CaseRefs[cs.curName] = append(cs.ctx.Res.CaseRefs[cs.curName], CaseRef{cs.n, input})
	cs.n++
	cs.inFile++
	if cs.inFile >= cs.perFile {
		cs.close()
	}
	return cs.n - 1
}
func (cs *Cases) Close() { cs.close() }
func (cs *Cases) N() int { return cs.n }

// helpers for printing Gallina terms
func GList(items []string) string { return "[" + strings.Join(items, ";") + "]" }
func GBool(b bool) string {
	if b {
		return "true"
	}
	return "false"
}
func GOptList(ok bool, items []string) string {
	if !ok {
		return "None"
	}
	return "(Some " + GList(items) + ")"
}
func GZ(i int64) string {
	if i < 0 {
		return fmt.Sprintf("(%d)%%Z", i)
	}
	return fmt.Sprintf("%d%%Z", i)
}
func GN(i int) string { return fmt.Sprintf("%d%%N", i) }

// GString renders a Go string as a Coq string literal (only " needs doubling); non-printable bytes
// are not supported by Coq string notation in 8.16 below 0x80, so callers keep to printable ASCII
// or use GBytes.
func GString(s string) string { return "\"" + strings.ReplaceAll(s, "\"", "\"\"") + "\"" }

// GBytes renders arbitrary bytes as list of N
func GBytes(s string) string {
	it := make([]string, len(s))
	for i := 0; i < len(s); i++ {
		it[i] = fmt.Sprint(s[i])
	}
	return "[" + strings.Join(it, ";") + "]%N"
}

func SortedKeys(m map[string]int) []string {
	var k []string
	for x := range m {
		k = append(k, x)
	}
	sort.Strings(k)
	return k
}

// LoadReplay reads a replay JSON written by the driver ({"property":..,"replay":...}).
func LoadReplay(path string, into interface{}) error {
	b, err := os.ReadFile(path)
	if err != nil {
		return err
	}
	var w struct {
		Replay json.RawMessage `json:"replay"`
	}
	if err := json.Unmarshal(b, &w); err != nil {
		return err
	}
	return json.Unmarshal(w.Replay, into)
}
