(* C20: command outcome model. For each modelled CLI command, the sequence of lookups its generator performs
   on the compiled module (application lookup, endpoint lookup, type-reference path indexing, table
   ordering) as a transliteration of the Go control flow, returning Ok / Err / Panic site / OutOfFuel.
   Which lookups are guarded comes from a `guards` record; Gen/CmdGuards.v says what the CURRENT source does.

   Abstraction (done by the harness projector from `sysl pb --mode json`):
   * names are N identifiers; Go maps are lists (sorted by name); map iteration = list order
   * an endpoint's statement tree is flattened to its call statements in pre-order, each flagged with
     whether it sits under a `one of` (alt) block: integrationdiagram.ProcessCalls descends into alt
     choices, the two mermaid printers do not (their `default:` arm)
   * a field keeps only whether its type is a TypeRef and the ref's path (f_ref); a type only whether it is
     a relation (table)
   Modelled functions: mermaid/sequencediagram.generateSequenceDiagramHelper/printSequenceDiagramStatements,
   mermaid/integrationdiagram.generate(Full)IntegrationDiagramHelper/printIntegrationDiagramStatements,
   integrationdiagram.GenerateIntegrations/MakeBuilderfromStmt (seed selection, ProcessExcludeAndPassthrough,
   WalkPassthrough; MyCallers and IndirectCalls only look up applications already resolved and are left
   out), datamodeldiagram.GenerateDataModels*/GenerateDataView/DrawRelation (reference indexing only),
   exporter.GenerateSwagger/populateEndpoint (endpoint-name split only), database.CreateTableDepthMap/
   processTableDepth/findTableDepth and the column writer's reference indexing, diagramCmd.Execute's
   renderer step; round 3: cmdutils.SequenceDiagramVisitor.visitEndpointCollection/visitEndpoint (sd: lookups + visited
   counter), database.ProcessModSysls/generateDatabaseScriptModify/writeModifySQLForATable (delta scripts),
   templateCmd.Execute + transforms.Apply and testrig.GenerateRig/appNeedsDB (application-name lookups).
   Definitions only. *)
From Coq Require Import List Bool NArith Arith.
Import ListNotations.
Require Import Verif.Cmds.Walk.
Local Open Scope N_scope.

Record guards := {
  g_ints_target : bool;     (* IntsBuilder handlers and ints_view.go read application / endpoint attributes through nil-safe getters *)
  g_ints_disc : discipline; (* WalkPassthrough: how b.walking is tested / marked / un-marked (an endpoint that is being
                               expanded further up the chain is not re-entered) *)
  g_dm_path : bool;         (* DrawRelation tests the path length before Path[1] *)
  g_swagger_rest : bool;    (* populateEndpoint tests the number of words before [1] *)
  g_sw_param_schema : bool; (* setCommonAttributes creates the parameter's Schema when it is nil *)
  g_oa3_ret_split : bool;   (* mapResponse splits the return payload on the same text it tested for ("<:") *)
  g_db_path : bool;         (* findTableDepth does not index Path directly *)
  g_db_writer_path : bool;  (* writeCreateSQLForAColumn / writeModifySQLForAColumn do not index Path directly *)
  g_db_progress : bool;     (* processTableDepth stops when a pass completes no table *)
  g_mseq_err : bool;        (* printSequenceDiagramStatements returns a callee's error (no panic call) *)
  g_mseq_disc : discipline; (* printSequenceDiagramStatements: how *sequencePairs is tested / appended to *)
  g_mint_app : bool;        (* generateIntegrationDiagramHelper reads the endpoints through nil-safe getters *)
  g_mint_disc : discipline; (* printIntegrationDiagramStatements: how *integrationPairs is tested / appended to *)
  g_render_recover : bool;  (* diagramCmd.Execute runs the renderer under a recover *)
  g_sd_target : bool;       (* SequenceDiagramVisitor.visitEndpoint resolves the call target with the error-returning lookup *)
  g_sd_disc : discipline;   (* visitEndpoint: how v.visited is tested / incremented / decremented *)
  g_delta_relation : bool;  (* generateDatabaseScriptModify hands only non-nil relations to the table writers *)
  g_coldef_ref : bool;      (* writeCreateSQLForAColumn returns a non-empty definition for a column of reference type, *)
  g_coldef_auto : bool;     (*   for an auto-increment column, *)
  g_coldef_plain : bool;    (*   for every other column (primitive, set, sequence, ...) *)
  g_delta_trim : bool;      (* writeModifySQLForATable tests the definition's length before cutting its last character *)
  (* three facts about the CURRENT shape of pkg/database / syslwrapper that are not guards (not part of all_guarded; cmd_total holds for both values) *)
  g_db_short_done : bool;   (* findTableDepth counts a reference that is not <table>.<column> as a plain, processed column *)
  g_coldef_fk_only : bool;  (* writeCreateSQLForAColumn takes the reference arm only for <table>.<column> references *)
  g_oa3_nested_rets : bool; (* mapResponse also maps the return statements nested in if / else, loops and one-of blocks *)
  g_tmpl_app : bool;        (* template: --app-name values are looked up before the views are applied to them *)
  g_rig_nilapp : bool       (* test-rig: appNeedsDB tests the application for nil *)
}.

Definition all_guarded (g:guards) : bool :=
  g_ints_target g && terminating (g_ints_disc g) && g_dm_path g && g_swagger_rest g && g_sw_param_schema g &&
  g_oa3_ret_split g && g_db_path g &&
  g_db_writer_path g && g_db_progress g && g_mseq_err g && g_mint_app g && g_render_recover g &&
  terminating (g_mseq_disc g) && terminating (g_mint_disc g) && g_sd_target g && terminating (g_sd_disc g) &&
  g_delta_relation g && (g_delta_trim g || (g_coldef_ref g && g_coldef_auto g && g_coldef_plain g)) &&
  g_tmpl_app g && g_rig_nilapp g.

Record call := { c_app : N; c_ep : N; c_alt : bool }.
(* a URL or query parameter as exporter.findSwaggerType sees its type *)
Inductive pclass := PPrim       (* primitive, enum or no type: a plain swagger type *)
                  | PObj        (* tuple, relation or type reference: swagger type "object" *)
                  | PErr.       (* anything else (sequence, set, list, map, one-of): "none of the Swagger Types match" *)
Record endpoint := {
  e_name : N;
  e_words : N;            (* number of " "-separated words of the endpoint name: 1 for RPC, 2 for "GET /path" *)
  e_calls : list call;
  e_acts : list N;        (* action statements (the app names a project view lists), interned *)
  e_pass : list N;        (* passthrough=[...] attribute *)
  e_excl : list N;        (* exclude=[...] attribute *)
  e_params : list pclass; (* RestParams: URL parameters, then query parameters, in order *)
  e_rets : list (bool * bool) (* return statements in source order: (nested in a block?, does the payload contain "<:" but not " <: ") *)
}.
Record field := { f_name : N; f_ref : option (list N);     (* Some path iff GetTypeRef() != nil *)
                  f_auto : bool }.                          (* carries the pattern ~autoinc *)
Record typ := { t_name : N; t_table : bool; t_fields : list field }.
Record app := { a_name : N; a_human : bool; a_eps : list endpoint; a_types : list typ }.
Definition module := list app.

Definition find_app (m:module) (n:N) : option app := find (fun a => a_name a =? n) m.
Definition find_ep (a:app) (n:N) : option endpoint := find (fun e => e_name e =? n) (a_eps a).
Definition memN (x:N) (l:list N) : bool := existsb (N.eqb x) l.
Definition pair_eqb (a b:N*N) : bool := (fst a =? fst b) && (snd a =? snd b).

Definition seen_calls (e:endpoint) : list call := filter (fun c => negb (c_alt c)) (e_calls e).

(* ---------------- mermaid sequence diagram: diagram -s -a app -e ep ---------------- *)
(* node = (app, endpoint) to expand; key = sequencePair{current app, callee endpoint} *)
Definition mseq_expand (m:module) (n:N*N) : outcome * list (@edge (N*N) (N*N)) :=
  match find_app m (fst n) with
  | None => (Err, [])                                   (* isValidAppNameAndEndpoint *)
  | Some a =>
    match find_ep a (snd n) with
    | None => (Err, [])
    | Some e => (Ok, map (fun c => (Ok, Some ((fst n, c_ep c), (c_app c, c_ep c)))) (seen_calls e))
    end
  end.
Definition mseq_onerr (g:guards) : outcome := if g_mseq_err g then Err else Panic SMSeqErr.
Definition mseq (g:guards) (m:module) (fuel:nat) (a e:N) : outcome :=
  fst (walk pair_eqb (mseq_expand m) (mseq_onerr g) (g_mseq_disc g) fuel (a, e) []).

(* ---------------- mermaid integration diagram: diagram -i [-a app] ---------------- *)
(* node = None (the loop over all applications of GenerateFullIntegrationDiagram) or Some app;
   key = integrationPair{current app, callee app} *)
Definition mint_edges (a:app) : list (@edge (option N) (N*N)) :=
  flat_map (fun e => map (fun c => (Ok, Some ((a_name a, c_app c), Some (c_app c)))) (seen_calls e)) (a_eps a).
Definition mint_expand (g:guards) (m:module) (n:option N) : outcome * list (@edge (option N) (N*N)) :=
  match n with
  | None => (Ok, flat_map mint_edges m)
  | Some x => match find_app m x with
              | Some a => (Ok, mint_edges a)
              | None => if g_mint_app g then (Ok, []) else (Panic SMIntApp, [])
              end
  end.
(* the helper returns an error only at the start (IsValidAppName), never to a recursive caller *)
Definition mint (g:guards) (m:module) (fuel:nat) (start:option N) : outcome :=
  match start with
  | Some x => match find_app m x with
              | None => Err
              | Some _ => fst (walk pair_eqb (mint_expand g m) Err (g_mint_disc g) fuel (Some x) [])
              end
  | None => fst (walk pair_eqb (mint_expand g m) Err (g_mint_disc g) fuel None [])
  end.

(* ---------------- integrations: ints -j project [-e excl] ---------------- *)
(* one builder per project endpoint (view). node = None (the loop over the seed applications' endpoints)
   or Some (app, endpoint) = WalkPassthrough(app, endpoint); key = the pass-through endpoint being expanded
   (b.walking; when it is recorded and deleted is g_ints_disc, read from the source: on HEAD recorded behind the
   re-entry test and deleted by a defer behind it = d_in_progress) *)
Definition ints_edge (g:guards) (m:module) (excl pass:list N) (c:call) : @edge (option (N*N)) (N*N) :=
  (* AddCall; FinalApps += target; WalkPassthrough(target, endpoint) *)
  let next := if memN (c_app c) pass then Some ((c_app c, c_ep c), Some (c_app c, c_ep c)) else None in
  if memN (c_app c) excl then (Ok, None)
  else match find_app m (c_app c) with
       | None =>
           (* guarded: GetApps()[t].GetAttrs() / .GetEndpoints()[e].GetAttrs() on nil are empty: not human, not
              hidden, the call to the undefined application is drawn. unguarded: `.Endpoints` on the nil app *)
           if g_ints_target g then (Ok, next) else (Panic SIntsTarget, None)
       | Some ta =>
           (* an undefined endpoint of a defined application is a nil map entry in both shapes: drawn *)
           if a_human ta then (Ok, None) else (Ok, next)
       end.
Definition ints_ep_edges g m excl pass (a:app) : list (@edge (option (N*N)) (N*N)) :=
  flat_map (fun e => map (ints_edge g m excl pass) (e_calls e)) (a_eps a).
Definition ints_seeds (m:module) (view:endpoint) : list app :=
  flat_map (fun n => match find_app m n with
                     | Some a => if a_human a then [] else [a]
                     | None => [] end) (e_acts view).
Definition ints_expand g m excl pass (view:endpoint) (n:option (N*N)) : outcome * list (@edge (option (N*N)) (N*N)) :=
  match n with
  | None => (Ok, flat_map (ints_ep_edges g m excl pass) (ints_seeds m view))
  | Some (a, e) =>
      match find_app m a with
      | None => (Ok, [])                                 (* GetEndpoints() on nil *)
      | Some ta => match find_ep ta e with
                   | None => (Ok, [])
                   | Some ep => (Ok, map (ints_edge g m excl pass) (e_calls ep))
                   end
      end
  end.
Definition ints_view (g:guards) (m:module) (fuel:nat) (cmd_excl:list N) (view:endpoint) : outcome :=
  let excl := cmd_excl ++ e_excl view in
  fst (walk pair_eqb (ints_expand g m excl (e_pass view) view) Err (g_ints_disc g) fuel None []).
Fixpoint first_bad (os:list outcome) : outcome :=
  match os with [] => Ok | Ok :: r => first_bad r | o :: _ => o end.
Definition ints (g:guards) (m:module) (fuel:nat) (project:N) (cmd_excl:list N) : outcome :=
  match find_app m project with
  | None => Ok                                            (* GetEndpoints() on nil: no views *)
  | Some p => first_bad (map (ints_view g m fuel (match cmd_excl with [] => [project] | _ => cmd_excl end)) (a_eps p))
  end.

(* ---------------- datamodel ---------------- *)
Definition short_path (p:list N) : bool := match p with _ :: _ :: _ => false | _ => true end.
Definition dm_field (g:guards) (f:field) : outcome :=
  match f_ref f with
  | Some p => if short_path p then (if g_dm_path g then Ok else Panic SDmPath) else Ok
  | None => Ok
  end.
Definition dm_type (g:guards) (t:typ) : outcome :=
  if t_table t then first_bad (map (dm_field g) (t_fields t)) else Ok.
(* GenerateDataView: all types of all applications, or (epname mode) only those of `only` *)
Definition dm_view (g:guards) (m:module) (only:option N) : outcome :=
  first_bad (map (fun a => match only with
                           | Some n => if a_name a =? n then first_bad (map (dm_type g) (a_types a)) else Ok
                           | None => first_bad (map (dm_type g) (a_types a))
                           end) m).
Definition dm_direct (g:guards) (m:module) (epname:bool) : outcome :=
  first_bad (map (fun a => dm_view g m (if epname then Some (a_name a) else None)) m).
Definition dm_project (g:guards) (m:module) (project:N) (epname:bool) : outcome :=
  match find_app m project with
  | None => Err                                           (* "project not found in sysl" *)
  | Some p =>
      first_bad (map (fun view =>
        first_bad (map (fun n => match find_app m n with
                                 | Some a => dm_view g m (if epname then Some (a_name a) else None)
                                 | None => Ok end) (e_acts view))) (a_eps p))
  end.

(* ---------------- export -f swagger|openapi2 ---------------- *)
(* setEndpointParams + setCommonAttributes over URL then query parameters *)
Fixpoint sw_params (g:guards) (ps:list pclass) : outcome :=
  match ps with
  | [] => Ok
  | PPrim :: r => sw_params g r
  | PObj :: r => if g_sw_param_schema g then sw_params g r else Panic SSwaggerParam
  | PErr :: _ => Err
  end.
Definition sw_ep (g:guards) (e:endpoint) : outcome :=
  if e_words e <? 2 then (if g_swagger_rest g then Ok else Panic SSwaggerSplit) else sw_params g (e_params e).
Definition sw_app (g:guards) (a:app) : outcome := first_bad (map (sw_ep g) (a_eps a)).
Definition swagger (g:guards) (m:module) (sel:option N) : outcome :=
  match sel with
  | None => match m with [] => Err | _ => first_bad (map (sw_app g) m) end
  | Some n => match find_app m n with None => Err | Some a => sw_app g a end      (* "app not found in the Sysl file" *)
  end.

(* ---------------- export -f openapi3: syslwrapper.AppMapper.mapEndpoints / mapResponse ---------------- *)
Definition oa3_ep (g:guards) (e:endpoint) : outcome :=
  first_bad (map (fun r:bool*bool => if snd r then (if g_oa3_ret_split g then Ok else Panic SOa3RetSplit) else Ok)
                 (filter (fun r => g_oa3_nested_rets g || negb (fst r)) (e_rets e))).
Definition oa3_app (g:guards) (a:app) : outcome := first_bad (map (oa3_ep g) (a_eps a)).
Definition openapi3 (g:guards) (m:module) (sel:option N) : outcome :=
  match sel with
  | None => match m with [] => Err | _ => first_bad (map (oa3_app g) m) end
  | Some n => match find_app m n with None => Err | Some a => oa3_app g a end
  end.

(* ---------------- generate-db-scripts ---------------- *)
(* findTableDepth: (outcome, all attributes processed) ; vis = visitedTableAttrs keys (table, column) *)
Fixpoint ftd (g:guards) (vis:list (N*N)) (fs:list field) : outcome * bool :=
  match fs with
  | [] => (Ok, true)
  | f :: r =>
    match f_ref f with
    | None => ftd g vis r
    | Some (t :: c :: _) => let '(o, all) := ftd g vis r in (o, memk pair_eqb (t, c) vis && all)
    | Some _ => if g_db_path g then let '(o, all) := ftd g vis r in (o, g_db_short_done g && all) else (Panic SDbPath, false)
    end
  end.
Definition find_table_depth (g:guards) (vis:list (N*N)) (t:typ) : outcome * bool :=
  if t_table t then ftd g vis (t_fields t) else (Ok, true).
(* one pass of processTableDepth over the incomplete tables: (outcome, visited, still incomplete, progressed) *)
Fixpoint db_pass (g:guards) (inc:list typ) (vis:list (N*N)) : outcome * list (N*N) * list typ * bool :=
  match inc with
  | [] => (Ok, vis, [], false)
  | t :: r =>
    match find_table_depth g vis t with
    | (Ok, true) =>
        let vis1 := (if t_table t then map (fun f => (t_name t, f_name f)) (t_fields t) else []) ++ vis in
        let '(o, v2, rem, _) := db_pass g r vis1 in (o, v2, rem, true)
    | (Ok, false) => let '(o, v2, rem, p) := db_pass g r vis in (o, v2, t :: rem, p)
    | (o, _) => (o, vis, inc, false)
    end
  end.
Fixpoint db_order (g:guards) (fuel:nat) (inc:list typ) (vis:list (N*N)) : outcome :=
  match fuel with
  | O => OutOfFuel
  | S f =>
    match db_pass g inc vis with
    | (Ok, v2, [], _) => Ok
    | (Ok, v2, rem, prog) => if g_db_progress g && negb prog then Ok       (* placeUnorderedTables *)
                             else db_order g f rem v2
    | (o, _, _, _) => o
    end
  end.
Definition db_writer_field (g:guards) (f:field) : outcome :=
  match f_ref f with
  | Some p => if short_path p then (if g_db_writer_path g then Ok else Panic SDbWriterPath) else Ok
  | None => Ok
  end.
Definition db_writer (g:guards) (ts:list typ) : outcome :=
  first_bad (map (fun t => if t_table t then first_bad (map (db_writer_field g) (t_fields t)) else Ok) ts).
Definition db_app (g:guards) (fuel:nat) (a:app) : outcome :=
  match db_order g fuel (a_types a) [] with
  | Ok => db_writer g (a_types a)
  | o => o
  end.
Definition db_create (g:guards) (m:module) (fuel:nat) (apps:list N) : outcome :=
  first_bad (map (fun n => match find_app m n with Some a => db_app g fuel a | None => Ok end) apps).

(* ---------------- sd -s "app <- ep" (PlantUML sequence diagram, cmdutils.SequenceDiagramVisitor) ---------------- *)
(* node = None (visitEndpointCollection: the start endpoint was looked up, its element is accepted) or
   Some (app, endpoint) = visitEndpoint; key = the "app <- endpoint" being expanded (v.visited; discipline g_sd_disc:
   on HEAD tested on entry, incremented behind the test, decremented behind the statements = d_in_progress).
   visitStatment descends into every block including `one of`: all calls of the endpoint in pre-order. *)
Definition sd_expand (g:guards) (m:module) (start:N*N) (n:option (N*N)) : outcome * list (@edge (option (N*N)) (N*N)) :=
  match n with
  | None => (Ok, [(Ok, Some (start, Some start))])
  | Some (a, e) =>
      let missing := if g_sd_target g then (Err, []) else (Panic SSdTarget, []) in
      match find_app m a with
      | None => missing
      | Some ta => match find_ep ta e with
                   | None => missing
                   | Some ep => (Ok, map (fun c => (Ok, Some ((c_app c, c_ep c), Some (c_app c, c_ep c)))) (e_calls ep))
                   end
      end
  end.
Definition sd (g:guards) (m:module) (fuel:nat) (a e:N) : outcome :=
  match find_app m a with
  | None => Err                                           (* no app named ... *)
  | Some ta => match find_ep ta e with
               | None => Err                              (* no endpoint named ... *)
               | Some _ => fst (walk pair_eqb (sd_expand g m (a, e)) Err (g_sd_disc g) (S fuel) None [])
               end
  end.

(* ---------------- generate-db-scripts-delta old new ---------------- *)
Inductive colkind := CkRef | CkAutoinc | CkPlain.     (* the three arms of writeCreateSQLForAColumn *)
Definition kind_of (g:guards) (f:field) : colkind :=
  let other := if f_auto f then CkAutoinc else CkPlain in
  match f_ref f with
  | Some p => if g_coldef_fk_only g && short_path p then other else CkRef
  | None => other
  end.
Definition coldef_nonempty (g:guards) (k:colkind) : bool :=
  match k with CkRef => g_coldef_ref g | CkAutoinc => g_coldef_auto g | CkPlain => g_coldef_plain g end.
Definition find_typ (ts:list typ) (n:N) : option typ := find (fun t => t_name t =? n) ts.
Definition find_field (fs:list field) (n:N) : option field := find (fun f => f_name f =? n) fs.
(* a column that is new in a retained table: writeCreateSQLForAColumn, then TrimSpace and str[:len(str)-1] *)
Definition delta_added (g:guards) (f:field) : outcome :=
  match db_writer_field g f with
  | Ok => if coldef_nonempty g (kind_of g f) || g_delta_trim g then Ok else Panic SDeltaTrim
  | o => o
  end.
(* a column present in both versions: writeModifySQLForAColumn reads foreignKeyTarget of the new and of the old type *)
Definition delta_retained (g:guards) (fnew fold:field) : outcome :=
  first_bad [db_writer_field g fnew; db_writer_field g fold].
Definition delta_modify (g:guards) (tnew told:typ) : outcome :=
  first_bad (map (fun f => match find_field (t_fields told) (f_name f) with
                           | None => delta_added g f
                           | Some fo => delta_retained g f fo
                           end) (t_fields tnew)).
Definition create_table (g:guards) (t:typ) : outcome := first_bad (map (db_writer_field g) (t_fields t)).
(* generateDatabaseScriptModify over the types of the new version (ADD / RETAIN) *)
Definition delta_type (g:guards) (olds:list typ) (t:typ) : outcome :=
  let nonrel := if g_delta_relation g then Ok else Panic SDeltaRelation in
  match find_typ olds (t_name t) with
  | None => if t_table t then create_table g t else nonrel
  | Some told => if t_table t && t_table told then delta_modify g t told
                 else if g_delta_relation g then (if t_table t then create_table g t else Ok)
                 else Panic SDeltaRelation
  end.
Definition delta_app (g:guards) (fuel:nat) (aold anew:option app) : outcome :=
  match aold, anew with
  | Some o, Some n =>
      match db_order g fuel (a_types o) [] with
      | Ok => match db_order g fuel (a_types n) [] with
              | Ok => first_bad (map (delta_type g (a_types o)) (a_types n))
              | x => x
              end
      | x => x
      end
  | None, Some n => db_app g fuel n
  | _, None => Ok
  end.
Definition db_delta (g:guards) (mold mnew:module) (fuel:nat) (apps:list N) : outcome :=
  first_bad (map (fun n => delta_app g fuel (find_app mold n) (find_app mnew n)) apps).

(* ---------------- template --app-name a [--app-name b] ; test-rig --template services.json ---------------- *)
Definition undefined_app (m:module) (n:N) : bool := match find_app m n with None => true | Some _ => false end.
(* noname: no --app-name at all (kingpin then hands over one empty name). Only the lookups of the application names are
   modelled; what the views evaluate to (Ok or an evaluation error) is not. *)
Definition template (g:guards) (m:module) (names:list N) (noname:bool) : outcome :=
  let missing := existsb (undefined_app m) names in
  if g_tmpl_app g then (if missing then Err else Ok)
  else if missing || noname then Panic STemplateApp else Ok.
(* GenerateRig: appNeedsDB(applications[service]) for every service of the variables file *)
Definition testrig (g:guards) (m:module) (services:list N) : outcome :=
  if g_rig_nilapp g then Ok else if existsb (undefined_app m) services then Panic SRigApp else Ok.

(* ---------------- commands ---------------- *)
Inductive cmd :=
| CMSeq (a e:N)                       (* diagram -s -a a -e e *)
| CMInt (a:option N)                  (* diagram -i [-a a] *)
| CInts (project:N) (excl:list N)     (* ints -j project [-e x] (plain, --epa, -c share the builder) *)
| CDmDirect (epname:bool)             (* datamodel -d ; epname = the output name contains %(epname) *)
| CDmProject (project:N) (epname:bool)
| CSwagger (a:option N)               (* export -f swagger|openapi2 [-a a] *)
| COpenapi3 (a:option N)              (* export -f openapi3 [-a a] *)
| CDbCreate (apps:list N)             (* generate-db-scripts -a a,b *)
| CSd (a e:N)                         (* sd -s "a <- e" (no blackboxes) *)
| CDbDelta (old:module) (apps:list N)  (* generate-db-scripts-delta -a a,b old.sysl m.sysl : m is the NEW version *)
| CTemplate (apps:list N) (noname:bool) (* template --template t --start v [--app-name a]... *)
| CTestRig (services:list N).          (* test-rig --template services.json *)

(* diagramCmd.Execute: generator, then the external renderer (rend = a browser is installed) *)
Definition render (g:guards) (rend:bool) (o:outcome) : outcome :=
  match o with
  | Ok => if rend then Ok else if g_render_recover g then Err else Panic SRender
  | x => x
  end.

Definition run (g:guards) (m:module) (rend:bool) (fuel:nat) (c:cmd) : outcome :=
  match c with
  | CMSeq a e => render g rend (mseq g m fuel a e)
  | CMInt a => render g rend (mint g m fuel a)
  | CInts p x => ints g m fuel p x
  | CDmDirect ep => dm_direct g m ep
  | CDmProject p ep => dm_project g m p ep
  | CSwagger a => swagger g m a
  | COpenapi3 a => openapi3 g m a
  | CDbCreate apps => db_create g m fuel apps
  | CSd a e => sd g m fuel a e
  | CDbDelta old apps => db_delta g old m fuel apps
  | CTemplate apps noname => template g m apps noname
  | CTestRig svcs => testrig g m svcs
  end.

(* enough fuel for every command: one more than the number of call statements plus the number of types *)
Definition all_calls (m:module) : list call := flat_map (fun a => flat_map e_calls (a_eps a)) m.
Definition all_types (m:module) : list typ := flat_map a_types m.
Definition fuel_bound (m:module) : nat := S (length (all_calls m) + length (all_types m)).
(* a command that reads a second module (the old version of a delta) needs its types ordered too *)
Definition cmd_extra (c:cmd) : nat := match c with CDbDelta old _ => length (all_types old) | _ => 0 end.
