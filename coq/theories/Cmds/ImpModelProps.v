(* C20: theorems about the importer's name stack (Cmds/ImpModel.v).
   load_balanced        : a restore that runs on every return (deferred, or assigned before the error test) leaves the stack
                          exactly as deep as it was, for EVERY schema tree and every placement of every failure, and
                          loadTypeSchema ends in Ok or Err - never in popName on an empty stack   (full)
   import_total         : ... so the whole conversion (definitions, parameters, request bodies, responses) ends in Ok or Err (full)
   after_check_refuted  : the restore placed behind the error test panics on an error inside an inline object, at depth 1, 2
                          and inside array items; never_refuted: no restore panics on every inline object
   after_check_partial  : ... and is indistinguishable on every document whose conversion succeeds (why no test saw it)
   resp_err_refuted     : buildResponses reading the field before the error test panics on an error inside a response *)
From Coq Require Import List Bool Arith Lia.
Import ListNotations.
Require Import Verif.Cmds.Walk Verif.Cmds.ImpModel.

(* induction over the schema tree *)
Fixpoint sch_rect' (P:sch -> Prop) (H:forall k kids, Forall (fun vk => P (snd vk)) kids -> P (Sch k kids)) (s:sch) : P s :=
  match s with
  | Sch k kids => H k kids ((fix go (l:list (via * sch)) : Forall (fun vk => P (snd vk)) l :=
                              match l with
                              | [] => Forall_nil _
                              | vk :: t => Forall_cons vk (sch_rect' P H (snd vk)) (go t)
                              end) kids)
  end.

Lemma pops_add n o d : pops n o (n + d) = (o, d).
Proof. induction n as [|n IH]; [reflexivity|]. cbn [pops plus]. exact IH. Qed.
Lemma fine_not_panic o : fine o = true -> is_panic o = false.
Proof. destruct o; intros H; try discriminate H; reflexivity. Qed.

Section Balanced.
  Variable r : restore.
  Hypothesis Hr : restores_always r = true.

  Lemma restored_saved saved o dk : restored r saved o dk = saved.
  Proof. unfold restored. destruct r; try discriminate Hr; reflexivity. Qed.

  (* the loop, given that loadTypeSchema is balanced and fine on everything below *)
  Lemma loop_balanced ld ks :
    Forall (fun vk => forall d, exists o, ld (snd vk) d = (o, d) /\ fine o = true) ks ->
    forall d pend, exists o j, loop r ld ks d pend = (o, j + d, j + pend) /\ fine o = true.
  Proof.
    induction 1 as [|[v kid] rest Hk _ IH]; intros d pend.
    - exists Ok, 0. split; reflexivity.
    - cbn [snd] in Hk. cbn [loop]. destruct v as [|circ|circ].
      + destruct (Hk 0) as (o & -> & Ho). rewrite (fine_not_panic o Ho). rewrite restored_saved. cbn [pops].
        destruct o; try discriminate Ho.
        * apply IH.
        * exists Err, 0. split; reflexivity.
      + destruct circ.
        * exists Err, 1. split; reflexivity.
        * destruct (Hk (S d)) as (o & -> & Ho). destruct o; try discriminate Ho.
          -- destruct (IH (S d) (S pend)) as (o2 & j & -> & Ho2). exists o2, (S j). split; [|exact Ho2].
             f_equal; [f_equal|]; lia.
          -- exists Err, 1. split; reflexivity.
      + destruct circ.
        * exists Err, 0. split; reflexivity.
        * destruct (Hk d) as (o & -> & Ho). destruct o; try discriminate Ho.
          -- apply IH.
          -- exists Err, 0. split; reflexivity.
  Qed.

  Theorem load_balanced : forall s d, exists o, load r s d = (o, d) /\ fine o = true.
  Proof.
    induction s as [k kids IH] using sch_rect'. intros d.
    assert (Hgen : exists o, (let '(o, d2, pend) := loop r (fun kid dk => load r kid dk) kids (S d) 0 in
                              if is_panic o then (o, d2) else
                              pops (S pend) (match o, k with Ok, KObj true => Err | _, _ => o end) d2) = (o, d) /\ fine o = true).
    { destruct (loop_balanced (fun kid dk => load r kid dk) kids IH (S d) 0) as (o & j & -> & Ho).
      rewrite (fine_not_panic o Ho).
      exists (match o, k with Ok, KObj true => Err | _, _ => o end). split.
      - replace (j + S d) with (S (j + 0) + d) by lia. apply pops_add.
      - destruct o; try discriminate Ho; destruct k as [[|]|[|]|]; reflexivity. }
    cbn [load]. destruct k as [[|]|dup|]; try exact Hgen.
    exists Err. split; reflexivity.
  Qed.

  Lemma field_balanced s d : exists o, field r s d = (o, d) /\ fine o = true.
  Proof.
    unfold field. destruct (load_balanced s 0) as (o & -> & Ho). rewrite (fine_not_panic o Ho), restored_saved.
    cbn [pops]. exists o. split; [reflexivity|exact Ho].
  Qed.
  Lemma media_balanced s d : exists o, media r s d = (o, d) /\ fine o = true.
  Proof.
    unfold media. destruct (field_balanced s d) as (o & -> & Ho). destruct o; try discriminate Ho.
    - apply load_balanced.
    - exists Err. split; reflexivity.
  Qed.
End Balanced.

(* FULL: with the restore on every return and the error tested first, every document - whatever fails wherever - is
   converted or refused; the name stack is never popped empty *)
Theorem import_total g : imp_guarded g = true -> forall es d, fine (import_doc g es d) = true.
Proof.
  unfold imp_guarded. intros G. apply andb_true_iff in G. destruct G as [Gr Ge].
  induction es as [|e rest IH]; intros d; [reflexivity|].
  cbn [import_doc].
  assert (H : exists o, entry_out g e d = (o, d) /\ fine o = true).
  { destruct e as [s|s|s|s]; cbn [entry_out].
    - apply load_balanced, Gr.
    - apply field_balanced, Gr.
    - apply media_balanced, Gr.
    - destruct (media_balanced _ Gr s d) as (o & -> & Ho). rewrite Ge. exists o. split; [|exact Ho].
      destruct o; try discriminate Ho; reflexivity. }
  destruct H as (o & -> & Ho). destruct o; try discriminate Ho; [apply IH|reflexivity].
Qed.

(* a non-trivial input: an object four inline levels deep, through a property, array items and an allOf member, whose
   innermost object has a duplicate field; a response composed circularly *)
Definition deep_dup : sch :=
  Sch (KObj false) [(VField, Sch (KArr false) [(VItems false, Sch (KObj false) [(VAllOf false, Sch (KObj false) [(VField, Sch (KObj true) [])])])])].
Definition g_deferred : iguards := {| g_imp_restore := RDeferred; g_imp_resp_err := true |}.
Example import_total_example :
  import_doc g_deferred [EDef (Sch KLeaf []); EDef deep_dup] 0 = Err
  /\ import_doc g_deferred [EResp (Sch (KObj false) [(VField, Sch (KObj false) [(VAllOf true, Sch KLeaf [])])])] 0 = Err
  /\ import_doc g_deferred [EDef (Sch (KObj false) [(VField, Sch (KObj false) [])]); EParam (Sch (KObj false) []); EBody deep_dup] 0 = Err
  /\ import_doc g_deferred [EDef (Sch (KObj false) [(VField, Sch (KArr false) [(VItems false, Sch (KObj false) [])])])] 0 = Ok.
Proof. repeat split; vm_compute; reflexivity. Qed.

(* REFUTED: `o.nameStack = ns` behind `if err != nil { return }` *)
Definition g_after_check : iguards := {| g_imp_restore := RAfterCheck; g_imp_resp_err := true |}.
Definition g_never : iguards := {| g_imp_restore := RNever; g_imp_resp_err := true |}.
Theorem after_check_refuted :
  (* a duplicate field in an inline object property *)
  import_doc g_after_check [EDef (Sch (KObj false) [(VField, Sch (KObj true) [])])] 0 = Panic SNameStack
  (* two levels down *)
  /\ import_doc g_after_check [EDef (Sch (KObj false) [(VField, Sch (KObj false) [(VField, Sch (KObj true) [])])])] 0 = Panic SNameStack
  (* an inline object composed of its container *)
  /\ import_doc g_after_check [EDef (Sch (KObj false) [(VField, Sch (KObj false) [(VAllOf true, Sch KLeaf [])])])] 0 = Panic SNameStack
  (* inside array items, in a parameter, in a request body *)
  /\ import_doc g_after_check [EDef (Sch (KObj false) [(VField, Sch (KArr false) [(VItems false, Sch (KArr true) [])])])] 0 = Panic SNameStack
  /\ import_doc g_after_check [EParam (Sch (KObj true) [])] 0 = Panic SNameStack
  /\ import_doc g_after_check [EBody deep_dup] 0 = Panic SNameStack
  (* the same failures at the top level of a definition are reported *)
  /\ import_doc g_after_check [EDef (Sch (KObj true) [])] 0 = Err.
Proof. repeat split; vm_compute; reflexivity. Qed.
Theorem never_refuted : import_doc g_never [EDef (Sch (KObj false) [(VField, Sch (KObj false) [])])] 0 = Panic SNameStack.
Proof. vm_compute; reflexivity. Qed.

(* PARTIAL: what stays true of the restore behind the error test - a conversion that succeeds is not affected: whenever
   the correct discipline yields Ok, so does this one, with the same stack. (This is why the importer's tests, which
   feed documents that convert, cannot see the slip.) *)
Section AfterCheckPartial.
  Lemma loop_after_ok ld ld' ks :
    Forall (fun vk => forall d, ld (snd vk) d = (Ok, d) -> ld' (snd vk) d = (Ok, d)) ks ->
    Forall (fun vk => forall d, exists o, ld (snd vk) d = (o, d) /\ fine o = true) ks ->
    forall d pend d2 p2, loop RDeferred ld ks d pend = (Ok, d2, p2) -> loop RAfterCheck ld' ks d pend = (Ok, d2, p2).
  Proof.
    induction 1 as [|[v kid] rest Hk _ IH]; intros Hb d pend d2 p2 H; [exact H|].
    inversion Hb as [|x l Hb1 Hb2]; subst. cbn [snd] in Hk, Hb1. cbn [loop] in *. destruct v as [|circ|circ].
    - destruct (Hb1 0) as (o & E & Ho). rewrite E in H. destruct o; try discriminate Ho.
      + rewrite (Hk 0 E). cbn [is_panic restored is_ok pops] in *. apply IH; assumption.
      + cbn [is_panic restored pops] in H. discriminate H.
    - destruct circ; [discriminate H|]. destruct (Hb1 (S d)) as (o & E & Ho). rewrite E in H.
      destruct o; try discriminate Ho; [|discriminate H]. rewrite (Hk _ E). apply IH; assumption.
    - destruct circ; [discriminate H|]. destruct (Hb1 d) as (o & E & Ho). rewrite E in H.
      destruct o; try discriminate Ho; [|discriminate H]. rewrite (Hk _ E). apply IH; assumption.
  Qed.

  Theorem after_check_partial : forall s d, load RDeferred s d = (Ok, d) -> load RAfterCheck s d = (Ok, d).
  Proof.
    induction s as [k kids IH] using sch_rect'. intros d H.
    assert (Hb : Forall (fun vk => forall d, exists o, load RDeferred (snd vk) d = (o, d) /\ fine o = true) kids).
    { apply Forall_forall. intros vk _ d0. apply load_balanced. reflexivity. }
    cbn [load] in *.
    assert (Hgen : (let '(o, d2, pend) := loop RDeferred (fun kid dk => load RDeferred kid dk) kids (S d) 0 in
                    if is_panic o then (o, d2) else pops (S pend) (match o, k with Ok, KObj true => Err | _, _ => o end) d2) = (Ok, d) ->
                   (let '(o, d2, pend) := loop RAfterCheck (fun kid dk => load RAfterCheck kid dk) kids (S d) 0 in
                    if is_panic o then (o, d2) else pops (S pend) (match o, k with Ok, KObj true => Err | _, _ => o end) d2) = (Ok, d)).
    { intros H0. destruct (loop_balanced RDeferred eq_refl (fun kid dk => load RDeferred kid dk) kids Hb (S d) 0) as (o & j & E & Ho).
      rewrite E in H0. destruct o; try discriminate Ho.
      - rewrite (loop_after_ok _ (fun kid dk => load RAfterCheck kid dk) kids IH Hb _ _ _ _ E). exact H0.
      - cbn [is_panic] in H0. replace (j + S d) with (S (j + 0) + d) in H0 by lia. rewrite pops_add in H0. discriminate H0. }
    destruct k as [[|]|dup|]; try (apply Hgen; exact H). cbn [pops] in H. discriminate H.
  Qed.
End AfterCheckPartial.

(* REFUTED: buildResponses reads f.Type.Name() before it tests the error *)
Definition g_resp_late : iguards := {| g_imp_restore := RDeferred; g_imp_resp_err := false |}.
Theorem resp_err_refuted :
  import_doc g_resp_late [EResp (Sch (KObj true) [])] 0 = Panic SImpRespField
  /\ import_doc g_resp_late [EResp deep_dup] 0 = Panic SImpRespField
  /\ import_doc g_resp_late [EBody deep_dup] 0 = Err.
Proof. repeat split; vm_compute; reflexivity. Qed.
