(* C20 correspondence glue, second case type (round 3, second pass): the error paths.
   XFmt: a command that reads its format strings from the project application (sd -a Project / ints -j Project): the
         strings, which of their search patterns Go's regexp compiles (asked of regexp.Compile by the harness), the value
         maps of the labels (from the compiled module) and the observed outcome class.
   XImp: a generated Swagger 2 document as the tree of the places its schemas sit in, with what fails where, and the
         observed outcome class of `sysl import -f swagger`. *)
From Coq Require Import String Ascii List NArith Bool.
Import ListNotations.
Require Import Verif.Seq.Fmt Verif.Cmds.Walk Verif.Cmds.FmtModel Verif.Cmds.ImpModel Verif.Cmds.Run Verif.Base.Harness.
Local Open Scope string_scope.
Local Open Scope list_scope.

Definition bs (l:list N) : string := fold_right (fun n s => String (ascii_of_N n) s) EmptyString l.
Definition rxtab := list (string * bool).
(* what the matcher answers changes the label, never whether the parser panics: the model compares outcomes only *)
Definition rx_tab (t:rxtab) (p:string) : option (string -> bool) :=
  match find (fun kv => String.eqb p (fst kv)) t with
  | Some (_, true) => Some (fun _ => false)
  | _ => None
  end.
Definition KV (k v:list N) : string * string := (bs k, bs v).

Inductive x_case :=
| XFmt (u:fmt_user) (fmts:list (list N)) (t:list (list N * bool)) (uses:list attrs) (o:obs)
| XImp (strict:bool) (es:list entry) (o:obs).     (* strict: the tree describes the document exactly, Ok / Err are compared *)

(* a refused format string / document must be an error exit; an accepted one may still fail for another reason
   (no call statement to draw, an unwritable file); a predicted panic must be a crash and nothing else may be one *)
Definition agree_x (strict:bool) (o:outcome) (b:obs) : bool :=
  match o, b with
  | Ok, OOk | Err, OErr => true
  | Ok, OErr | Err, OOk => negb strict
  | Panic _, OCrash | OutOfFuel, OCrash => true
  | _, _ => false
  end.

Definition x_out (fg:fguards) (ig:iguards) (c:x_case) : outcome :=
  match c with
  | XFmt u fmts t uses _ => fmt_cmd fg u (rx_tab (map (fun kv => (bs (fst kv), snd kv)) t)) (map bs fmts) uses
  | XImp _ es _ => import_doc ig es 0
  end.
Definition x_ok (fg:fguards) (ig:iguards) (c:x_case) : bool :=
  match c with
  | XFmt _ _ _ _ o => match x_out fg ig c, o with Err, OOk => false | out, _ => agree_x false out o end
  | XImp strict _ o => agree_x strict (x_out fg ig c) o
  end.
