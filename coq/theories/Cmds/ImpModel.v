(* C20, round 3 second pass: the ERROR PATHS of `sysl import -f swagger` (pkg/importer/openapi3_legacy.go, the importer of
   Swagger 2 / OpenAPI 2 documents): the importer's name stack.
     pushName / popName        o.nameStack = append(..) / o.nameStack[:len-1]   (popName on an empty stack: slice bounds out of range [:-1])
     loadTypeSchema(name, s)   defer pushName(name)(); array arm: "has no items", defer pushName("obj")(), isCircular, loadTypeSchema(items);
                               object arm: allOf members (isCircular, loadTypeSchema("")), properties through buildField,
                               SortProperties ("duplicate fields exist")
     buildField(name, prop)    defer pushName(name)(); for an inline object: ns := o.nameStack; o.nameStack = nil; <RESTORE>;
                               loadTypeSchema(join(ns), ..); if err != nil { return }
     convertSpec               the definitions in name order, then the paths: buildParams -> buildField, buildRequests /
                               buildResponses -> fieldForMediaType -> buildField, then loadTypeSchema of the same schema
   Only the DEPTH of the stack matters for the panic, so the stack is a nat. What fails where (a duplicate field, a circular
   composition, an array without items) is data of the document tree (the flags), so the theorems hold for every placement
   of every failure. WHERE the saved stack is put back (`restore`) and whether buildResponses tests the error before it
   uses the field are Gen facts (Gen/CmdGuards.v imp_current). Definitions only. *)
From Coq Require Import List Bool Arith.
Import ListNotations.
Require Import Verif.Cmds.Walk.

(* how buildField puts the saved stack back after the nested loadTypeSchema *)
Inductive restore :=
| RDeferred        (* defer func() { o.nameStack = ns }()  registered before the call: runs on every return *)
| RBeforeCheck     (* o.nameStack = ns  between the call and `if err != nil` *)
| RAfterCheck      (* o.nameStack = ns  behind `if err != nil { return }`: not on the error path *)
| RNever.
Definition restores_always (r:restore) : bool := match r with RDeferred | RBeforeCheck => true | _ => false end.

Record iguards := {
  g_imp_restore : restore;
  g_imp_resp_err : bool      (* buildResponses tests fieldForMediaType's error before it touches the returned field *)
}.
Definition imp_guarded (g:iguards) : bool := restores_always (g_imp_restore g) && g_imp_resp_err g.

(* how a schema is reached from the schema above it *)
Inductive via :=
| VField                (* an inline object (or array of inline objects) property / oneOf option: buildField's object arm *)
| VItems (circ:bool)    (* the items of an array, of object type: pushName("obj"); circ = isCircular(items) *)
| VAllOf (circ:bool).   (* an allOf member; circ = isCircular(member) *)
Inductive kind :=
| KArr (noitems:bool)   (* type: array; noitems: no `items` ("array type .. has no items") *)
| KObj (dup:bool)       (* object; dup: SortProperties finds two different fields of one name ("duplicate fields exist") *)
| KLeaf.                (* everything else: an alias *)
Inductive sch := Sch (k:kind) (kids:list (via * sch)).

(* n deferred popName calls at a function's exit; a pop of the empty stack is the panic *)
Fixpoint pops (n:nat) (o:outcome) (d:nat) : outcome * nat :=
  match n with
  | O => (o, d)
  | S n' => match d with
            | O => (Panic SNameStack, O)
            | S d' => pops n' o d'
            end
  end.
Definition is_ok (o:outcome) : bool := match o with Ok => true | _ => false end.
Definition is_panic (o:outcome) : bool := match o with Panic _ | OutOfFuel => true | _ => false end.

Section Load.
  Variable r : restore.

  (* where the stack stands after buildField's nested loadTypeSchema returned o with depth dk (saved = the depth at `ns := ..`) *)
  Definition restored (saved:nat) (o:outcome) (dk:nat) : nat :=
    match r with
    | RDeferred | RBeforeCheck => saved
    | RAfterCheck => if is_ok o then saved else dk
    | RNever => dk
    end.

  (* the loops of loadTypeSchema over what hangs below a schema, in order; ld = loadTypeSchema itself.
     d = depth of the stack, pend = deferred pops registered so far by `defer pushName("obj")()` *)
  Section Loop.
  Variable ld : sch -> nat -> outcome * nat.
  Fixpoint loop (ks:list (via * sch)) (d:nat) (pend:nat) {struct ks} : outcome * nat * nat :=
    match ks with
    | [] => (Ok, d, pend)
    | (VField, kid) :: rest =>
        (* buildField: pushName(name); ns := stack; stack = nil; loadTypeSchema; the restore; deferred popName *)
        let '(o, dk) := ld kid O in
        if is_panic o then (o, dk, pend) else
        match pops 1 o (restored (S d) o dk) with
        | (Ok, d') => loop rest d' pend
        | (o', d') => (o', d', pend)
        end
    | (VItems circ, kid) :: rest =>
        let d1 := S d in                                   (* defer pushName("obj")() *)
        if circ then (Err, d1, S pend) else
        match ld kid d1 with
        | (Ok, d') => loop rest d' (S pend)
        | (o', d') => (o', d', S pend)
        end
    | (VAllOf circ, kid) :: rest =>
        if circ then (Err, d, pend) else
        match ld kid d with
        | (Ok, d') => loop rest d' pend
        | (o', d') => (o', d', pend)
        end
    end.
  End Loop.

  (* loadTypeSchema: d = depth of o.nameStack at entry; the result carries the depth at exit *)
  Fixpoint load (s:sch) (d:nat) {struct s} : outcome * nat :=
    match s with
    | Sch k kids =>
      let d1 := S d in                                         (* defer pushName(name)() *)
      match k with
      | KArr true => pops 1 Err d1
      | _ =>
        let '(o, d2, pend) := loop (fun kid dk => load kid dk) kids d1 O in
        if is_panic o then (o, d2) else
        let o' := match o, k with Ok, KObj true => Err | _, _ => o end in
        pops (S pend) o' d2
      end
    end.

  (* buildField called on an empty stack (a parameter, a media type): the VField step alone *)
  Definition field (s:sch) (d:nat) : outcome * nat :=
    let '(o, dk) := load s O in
    if is_panic o then (o, dk) else pops 1 o (restored (S d) o dk).
End Load.

(* the places of a document a schema can sit in *)
Inductive entry :=
| EDef (s:sch)        (* definitions: loadTypeSchema(name, schema) *)
| EParam (s:sch)      (* a parameter: buildParams -> buildField *)
| EBody (s:sch)       (* a request body: fieldForMediaType = buildField, then loadTypeSchema of the same schema *)
| EResp (s:sch).      (* a response: the same through buildResponses *)

Definition media (r:restore) (s:sch) (d:nat) : outcome * nat :=
  match field r s d with
  | (Ok, d') => load r s d'
  | x => x
  end.
Definition entry_out (g:iguards) (e:entry) (d:nat) : outcome * nat :=
  let r := g_imp_restore g in
  match e with
  | EDef s => load r s d
  | EParam s => field r s d
  | EBody s => media r s d
  | EResp s => match media r s d with
               | (Err, d') => if g_imp_resp_err g then (Err, d') else (Panic SImpRespField, d')
               | x => x
               end
  end.
(* convertSpec: the first error ends the import *)
Fixpoint import_doc (g:iguards) (es:list entry) (d:nat) : outcome :=
  match es with
  | [] => Ok
  | e :: rest => match entry_out g e d with
                 | (Ok, d') => import_doc g rest d'
                 | (o, _) => o
                 end
  end.
