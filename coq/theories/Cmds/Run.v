(* C20 correspondence glue: one case = a compiled module, whether a mermaid renderer (browser) is installed,
   and the observed outcome class of each modelled command line on it. *)
From Coq Require Import List Bool NArith Arith.
Import ListNotations.
Require Import Verif.Cmds.Walk Verif.Cmds.Model Verif.Base.Harness.

Inductive obs := OOk | OErr | OCrash.      (* exit 0 | non-zero exit with a message | Go runtime trace / hang *)

(* commands whose Ok/Err split the model determines exactly; for the others only crash / no crash is compared *)
Definition precise (c:cmd) : bool :=
  match c with CMSeq _ _ | CMInt _ | CDmDirect _ | CDmProject _ _ | CSd _ _ => true | _ => false end.

Definition agree (p:bool) (o:outcome) (b:obs) : bool :=
  match o, b with
  | Ok, OOk | Err, OErr => true
  | Ok, OErr | Err, OOk => negb p
  | Panic _, OCrash | OutOfFuel, OCrash => true
  | _, _ => false
  end.

Definition c20_case := (module * bool * list (cmd * obs))%type.
Definition c20_ok (g:guards) (c:c20_case) : bool :=
  let '(m, rend, rs) := c in
  forallb (fun r => agree (precise (fst r)) (run g m rend (fuel_bound m + cmd_extra (fst r)) (fst r)) (snd r)) rs.
(* which command lines of a case disagree (for diagnosis) *)
Definition c20_bad (g:guards) (c:c20_case) : list (cmd * obs * outcome) :=
  let '(m, rend, rs) := c in
  flat_map (fun r => let o := run g m rend (fuel_bound m + cmd_extra (fst r)) (fst r) in
                     if agree (precise (fst r)) o (snd r) then [] else [(fst r, snd r, o)]) rs.
