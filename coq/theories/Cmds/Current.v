(* C20 obligations against the CURRENT source: Gen/CmdGuards.v is regenerated from the generators' Go source
   on every run. `guards_ok` stops checking the moment one of the modelled lookups loses its guard (a nil test,
   a length test, the progress test, the visited set, the renderer's recover) or a panic( call appears in
   printSequenceDiagramStatements. *)
From Coq Require Import List Bool NArith Arith String.
Import ListNotations.
Require Import Verif.Cmds.Walk Verif.Cmds.Model Verif.Cmds.ModelProps Verif.Gen.CmdGuards.

Lemma guards_ok : all_guarded current = true.
Proof. reflexivity. Qed.

(* no command of cmd/sysl runs under a recover: a panic in a generator is a crash of the process (this is why
   the per-lookup guards carry the property); if one is ever added this lemma, not the property, stops checking *)
Lemma no_top_recover : top_recover = false.
Proof. reflexivity. Qed.

(* library code on the command paths never terminates the process itself: the only os.Exit / *.Fatal* call is main's *)
Definition exit_sites := filter (fun s => String.eqb (snd (fst s)) "exit") abort_sites.
Lemma only_main_exits : map (fun s => fst (fst s)) exit_sites = ["sysl.main"%string].
Proof. reflexivity. Qed.

(* none of the functions transliterated in Model.v calls panic( *)
Definition modelled_functions : list string :=
  ["sequencediagram.printSequenceDiagramStatements"; "sequencediagram.generateSequenceDiagramHelper";
   "integrationdiagram.generateIntegrationDiagramHelper"; "integrationdiagram.generateFullIntegrationDiagramHelper";
   "integrationdiagram.IntsBuilder.ProcessExcludeAndPassthrough"; "integrationdiagram.IntsBuilder.WalkPassthrough";
   "integrationdiagram.IntsBuilder.MyCallers"; "integrationdiagram.IntsBuilder.IndirectCalls";
   "integrationdiagram.MakeBuilderfromStmt"; "integrationdiagram.GenerateIntegrations";
   "datamodeldiagram.DataModelView.DrawRelation"; "datamodeldiagram.DataModelView.GenerateDataView";
   "exporter.EndpointExporter.populateEndpoint"; "exporter.SwaggerExporter.GenerateSwagger";
   "exporter.EndpointExporter.setEndpointParams"; "exporter.EndpointExporter.setCommonAttributes"; "syslwrapper.AppMapper.mapResponse";
   "database.findTableDepth"; "database.processTableDepth"; "database.CreateTableDepthMap"; "database.foreignKeyTarget";
   "database.ScriptView.writeCreateSQLForAColumn"; "database.ScriptView.writeModifySQLForAColumn";
   "sysl.diagramCmd.Execute"; "sysl.renderMermaid"]%string.
Lemma modelled_functions_do_not_panic :
  filter (fun s => existsb (String.eqb (fst (fst s))) modelled_functions) abort_sites = [].
Proof. reflexivity. Qed.

Theorem current_cmd_total m rend fuel c : (fuel_bound m <= fuel)%nat -> fine (run current m rend fuel c) = true.
Proof. apply cmd_total, guards_ok. Qed.
