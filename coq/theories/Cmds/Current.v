(* C20 obligations against the CURRENT source: Gen/CmdGuards.v is regenerated from the generators' Go source
   on every run. `guards_ok` stops checking the moment one of the modelled lookups loses its guard (a nil test,
   a length test, the progress test, the renderer's recover), one of the four visited-set walks (WalkPassthrough,
   visitEndpoint, the two mermaid printers) changes WHEN it tests / marks / un-marks its set to a discipline that
   does not terminate on every graph, or a panic( call appears in printSequenceDiagramStatements. *)
From Coq Require Import List Bool NArith Arith String.
Import ListNotations.
Require Import Verif.Cmds.Walk Verif.Cmds.Model Verif.Cmds.ModelProps Verif.Gen.CmdGuards.

Lemma guards_ok : all_guarded current = true.
Proof. reflexivity. Qed.

(* no command of cmd/sysl runs under a recover: a panic in a generator is a crash of the process (this is why
   the per-lookup guards carry the property); if one is ever added this lemma, not the property, stops checking *)
Lemma no_top_recover : top_recover = false.
Proof. reflexivity. Qed.

(* which code terminates the process itself (os.Exit, a Fatal log call): in the packages of the diagram / export / database
   commands only main; the expression evaluator (template, codegen, repl) exits from its panic handler - after it
   has logged the evaluation stack, with status 1 - and from the debugger's quit command *)
Definition exit_sites := filter (fun s => String.eqb (snd (fst s)) "exit") abort_sites.
Definition in_eval (fn:string) : bool := String.prefix "eval." fn.
Lemma only_main_exits : map (fun s => fst (fst s)) (filter (fun s => negb (in_eval (fst (fst s)))) exit_sites) = ["sysl.main"%string].
Proof. reflexivity. Qed.
Lemma eval_exit_sites : map (fun s => fst (fst s)) (filter (fun s => in_eval (fst (fst s))) exit_sites)
                        = ["eval.repl.handleInput"; "eval.exprEval.handlePanic"]%string.
Proof. reflexivity. Qed.

(* none of the functions transliterated in Model.v calls panic( *)
Definition modelled_functions : list string :=
  ["sequencediagram.printSequenceDiagramStatements"; "sequencediagram.generateSequenceDiagramHelper";
   "integrationdiagram.generateIntegrationDiagramHelper"; "integrationdiagram.generateFullIntegrationDiagramHelper";
   "integrationdiagram.IntsBuilder.ProcessExcludeAndPassthrough"; "integrationdiagram.IntsBuilder.WalkPassthrough";
   "integrationdiagram.IntsBuilder.MyCallers"; "integrationdiagram.IntsBuilder.IndirectCalls";
   "integrationdiagram.MakeBuilderfromStmt"; "integrationdiagram.GenerateIntegrations";
   "datamodeldiagram.DataModelView.DrawRelation"; "datamodeldiagram.DataModelView.GenerateDataView";
   "exporter.EndpointExporter.populateEndpoint"; "exporter.SwaggerExporter.GenerateSwagger";
   "exporter.EndpointExporter.setEndpointParams"; "exporter.EndpointExporter.setCommonAttributes"; "syslwrapper.AppMapper.mapResponse";
   "database.findTableDepth"; "database.processTableDepth"; "database.CreateTableDepthMap"; "database.foreignKeyTarget";
   "database.ScriptView.writeCreateSQLForAColumn"; "database.ScriptView.writeModifySQLForAColumn";
   "sysl.diagramCmd.Execute"; "sysl.renderMermaid";
   "cmdutils.SequenceDiagramVisitor.visitEndpoint"; "cmdutils.SequenceDiagramVisitor.visitEndpointCollection"; "cmdutils.EndpointElement.target";
   "database.ScriptView.ProcessModSysls"; "database.findAddedDeletedRetainedTables"; "database.ScriptView.generateDatabaseScriptModify";
   "database.ScriptView.writeCreateSQLForATable"; "database.ScriptView.writeModifySQLForATable";
   "sysl.templateCmd.Execute"; "transforms.NewWorker"; "transforms.templated.Apply"; "transforms.semantic.Apply";
   "sysl.testRigCmd.Execute"; "testrig.GenerateRig"; "testrig.appNeedsDB"; "testrig.readUserData"]%string.
Lemma modelled_functions_do_not_panic :
  filter (fun s => existsb (String.eqb (fst (fst s))) modelled_functions) abort_sites = [].
Proof. reflexivity. Qed.

(* Hang side. Every function of the packages the commands reach that calls itself directly (Gen table
   recursive_functions, regenerated each run) is either covered by a termination theorem of this development or named
   here as NOT proved; a new direct recursion in those packages makes this lemma fail.
   proved:   ProcessCalls (structural over the statement tree; the re-entry through its handler is the pass-through walk:
             ints_fine), processTableDepth (db_order_fine), the two mermaid printers (mseq_fine, mint_fine). The mutual
             recursions visitEndpoint -> visitStatment -> visitCall -> visitEndpoint (sd_fine), generate*DiagramHelper <->
             print*Statements and WalkPassthrough <-> ProcessExcludeAndPassthrough are the same walks.
   unproved: structural recursions over a finite protobuf / expression / grammar tree or a string that is consumed
             (not modelled), and type-reference resolution in the exporters (observed by the CPU-limit oracle only). *)
Definition proved_recursions : list string :=
  ["integrationdiagram.ProcessCalls"; "database.processTableDepth"; "sequencediagram.printSequenceDiagramStatements";
   "integrationdiagram.printIntegrationDiagramStatements"]%string.
Definition unproved_recursions : list string :=
  ["sysl.removeSourceContextImpl"; "sysl.Serialize"; "cmdutils.FormatParser.Expansions"; "cmdutils.GetReturnPayload";
   "exporter.OpenAPI3Exporter.exportType"; "integrationdiagram.printIntegrationDiagramStatementsTargetedApp";
   "datamodeldiagram.getRelatedTypes"; "endpointanalysisdiagram.printEndpointAnalysisStatements";
   "syslwrapper.ReturnStatements"; "syslwrapper.AppMapper.resolveType"; "syslwrapper.AppMapper.MapType"; "syslwrapper.MakeType"; "syslutil.GetTypeDetail";
   "eval.attributeToValue"; "eval.exprEval.eval"; "eval.isValueExpectedType"; "eval.reflectToValue"; "eval.UnaryString";
   "validate.Validator.compareTuple"; "validate.Validator.validateTfmReturn"; "ebnfparser.WalkerOps.WalkTermNode"]%string.
Lemma recursions_accounted :
  forallb (fun f => existsb (String.eqb f) (proved_recursions ++ unproved_recursions)) recursive_functions = true.
Proof. reflexivity. Qed.
Lemma proved_recursions_present : forallb (fun f => existsb (String.eqb f) recursive_functions) proved_recursions = true.
Proof. reflexivity. Qed.

(* the marker disciplines read from the current source terminate on every graph (instances of WalkProps.walk_total) *)
Lemma current_disciplines_terminate :
  terminating (g_ints_disc current) && terminating (g_sd_disc current) && terminating (g_mseq_disc current) && terminating (g_mint_disc current) = true.
Proof. reflexivity. Qed.

Theorem current_cmd_total m rend fuel c : (fuel_bound m + cmd_extra c <= fuel)%nat -> fine (run current m rend fuel c) = true.
Proof. apply cmd_total, guards_ok. Qed.
