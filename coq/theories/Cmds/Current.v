(* C20 obligations against the CURRENT source: Gen/CmdGuards.v is regenerated from the generators' Go source
   on every run. `guards_ok` stops checking the moment one of the modelled lookups loses its guard (a nil test,
   a length test, the progress test, the renderer's recover), one of the four visited-set walks (WalkPassthrough,
   visitEndpoint, the two mermaid printers) changes WHEN it tests / marks / un-marks its set to a discipline that
   does not terminate on every graph, or a panic( call appears in printSequenceDiagramStatements. *)
From Coq Require Import List Bool NArith Arith String.
Import ListNotations.
Require Import Verif.Seq.Fmt Verif.Seq.FmtProps.
Require Import Verif.Cmds.Walk Verif.Cmds.Model Verif.Cmds.ModelProps Verif.Cmds.FmtModel Verif.Cmds.FmtModelProps
               Verif.Cmds.ImpModel Verif.Cmds.ImpModelProps Verif.Gen.CmdGuards.

Lemma guards_ok : all_guarded current = true.
Proof. reflexivity. Qed.

(* no command of cmd/sysl runs under a recover: a panic in a generator is a crash of the process (this is why
   the per-lookup guards carry the property); if one is ever added this lemma, not the property, stops checking *)
Lemma no_top_recover : top_recover = false.
Proof. reflexivity. Qed.

(* which code terminates the process itself (os.Exit, a Fatal log call): in the packages of the diagram / export / database
   commands only main; the expression evaluator (template, codegen, repl) exits from its panic handler - after it
   has logged the evaluation stack, with status 1 - and from the debugger's quit command *)
Definition exit_sites := filter (fun s => String.eqb (snd (fst s)) "exit") abort_sites.
Definition in_eval (fn:string) : bool := String.prefix "eval." fn.
Definition in_importer (fn:string) : bool := String.prefix "importer." fn.
Lemma only_main_exits : map (fun s => fst (fst s)) (filter (fun s => negb (in_eval (fst (fst s))) && negb (in_importer (fst (fst s)))) exit_sites) = ["sysl.main"%string].
Proof. reflexivity. Qed.
(* pkg/importer (round 3, second pass): the text writer gives up with a Fatal log call when the output cannot be written *)
Lemma importer_exit_sites : map (fun s => fst (fst s)) (filter (fun s => in_importer (fst (fst s))) exit_sites) = ["importer.writer.mustWrite"%string].
Proof. reflexivity. Qed.
Lemma eval_exit_sites : map (fun s => fst (fst s)) (filter (fun s => in_eval (fst (fst s))) exit_sites)
                        = ["eval.repl.handleInput"; "eval.exprEval.handlePanic"]%string.
Proof. reflexivity. Qed.

(* none of the functions transliterated in Model.v calls panic( *)
Definition modelled_functions : list string :=
  ["sequencediagram.printSequenceDiagramStatements"; "sequencediagram.generateSequenceDiagramHelper";
   "integrationdiagram.generateIntegrationDiagramHelper"; "integrationdiagram.generateFullIntegrationDiagramHelper";
   "integrationdiagram.IntsBuilder.ProcessExcludeAndPassthrough"; "integrationdiagram.IntsBuilder.WalkPassthrough";
   "integrationdiagram.IntsBuilder.MyCallers"; "integrationdiagram.IntsBuilder.IndirectCalls";
   "integrationdiagram.MakeBuilderfromStmt"; "integrationdiagram.GenerateIntegrations";
   "datamodeldiagram.DataModelView.DrawRelation"; "datamodeldiagram.DataModelView.GenerateDataView";
   "exporter.EndpointExporter.populateEndpoint"; "exporter.SwaggerExporter.GenerateSwagger";
   "exporter.EndpointExporter.setEndpointParams"; "exporter.EndpointExporter.setCommonAttributes"; "syslwrapper.AppMapper.mapResponse";
   "database.findTableDepth"; "database.processTableDepth"; "database.CreateTableDepthMap"; "database.foreignKeyTarget";
   "database.ScriptView.writeCreateSQLForAColumn"; "database.ScriptView.writeModifySQLForAColumn";
   "sysl.diagramCmd.Execute"; "sysl.renderMermaid";
   "cmdutils.SequenceDiagramVisitor.visitEndpoint"; "cmdutils.SequenceDiagramVisitor.visitEndpointCollection"; "cmdutils.EndpointElement.target";
   "database.ScriptView.ProcessModSysls"; "database.findAddedDeletedRetainedTables"; "database.ScriptView.generateDatabaseScriptModify";
   "database.ScriptView.writeCreateSQLForATable"; "database.ScriptView.writeModifySQLForATable";
   "sysl.templateCmd.Execute"; "transforms.NewWorker"; "transforms.templated.Apply"; "transforms.semantic.Apply";
   "sysl.testRigCmd.Execute"; "testrig.GenerateRig"; "testrig.appNeedsDB"; "testrig.readUserData";
   (* round 3, second pass. FormatParser.Expansions is modelled too but DOES call panic( - three sites, each an explicit
      outcome of Seq/Fmt.v - so it cannot be listed here *)
   "cmdutils.FormatParser.Check"; "cmdutils.FormatParser.Parse"; "cmdutils.FormatParser.Eat"; "cmdutils.FormatParser.Pop";
   "sequencediagram.checkFormats"; "sequencediagram.ConstructFormatParser"; "sequencediagram.DoConstructSequenceDiagrams";
   "integrationdiagram.getAppfmtAttrOrDefault"; "integrationdiagram.getEpfmtAttr"; "integrationdiagram.getTitleFormat";
   "importer.OpenAPI3Importer.pushName"; "importer.OpenAPI3Importer.popName"; "importer.OpenAPI3Importer.loadTypeSchema";
   "importer.OpenAPI3Importer.buildField"; "importer.OpenAPI3Importer.buildParams"; "importer.OpenAPI3Importer.buildRequests";
   "importer.OpenAPI3Importer.buildResponses"; "importer.OpenAPI3Importer.fieldForMediaType"; "importer.OpenAPI3Importer.convertSpec";
   "importer.OpenAPI3Importer.isCircular"]%string.
Lemma modelled_functions_do_not_panic :
  filter (fun s => existsb (String.eqb (fst (fst s))) modelled_functions) abort_sites = [].
Proof. reflexivity. Qed.

(* Hang side. Every function of the packages the commands reach that calls itself directly (Gen table
   recursive_functions, regenerated each run) is either covered by a termination theorem of this development or named
   here as NOT proved; a new direct recursion in those packages makes this lemma fail.
   proved:   FormatParser.Expansions (fmt_expansions_terminate below: fuel 1 + the length of the format string, for the
             byte-level parser of Seq/Fmt.v, of which the eager discipline read from the source is an instance),
             ProcessCalls (structural over the statement tree; the re-entry through its handler is the pass-through walk:
             ints_fine), processTableDepth (db_order_fine), the two mermaid printers (mseq_fine, mint_fine). The mutual
             recursions visitEndpoint -> visitStatment -> visitCall -> visitEndpoint (sd_fine), generate*DiagramHelper <->
             print*Statements and WalkPassthrough <-> ProcessExcludeAndPassthrough are the same walks.
   unproved: structural recursions over a finite protobuf / expression / grammar tree or a string that is consumed
             (not modelled), and type-reference resolution in the exporters (observed by the CPU-limit oracle only). *)
Definition proved_recursions : list string :=
  ["integrationdiagram.ProcessCalls"; "database.processTableDepth"; "sequencediagram.printSequenceDiagramStatements";
   "integrationdiagram.printIntegrationDiagramStatements"; "cmdutils.FormatParser.Expansions"]%string.
Definition unproved_recursions : list string :=
  ["sysl.removeSourceContextImpl"; "sysl.Serialize"; "cmdutils.GetReturnPayload";
   "exporter.OpenAPI3Exporter.exportType"; "integrationdiagram.printIntegrationDiagramStatementsTargetedApp";
   "datamodeldiagram.getRelatedTypes"; "endpointanalysisdiagram.printEndpointAnalysisStatements";
   "syslwrapper.ReturnStatements"; "syslwrapper.AppMapper.resolveType"; "syslwrapper.AppMapper.MapType"; "syslwrapper.MakeType"; "syslutil.GetTypeDetail";
   "eval.attributeToValue"; "eval.exprEval.eval"; "eval.isValueExpectedType"; "eval.reflectToValue"; "eval.UnaryString";
   "validate.Validator.compareTuple"; "validate.Validator.validateTfmReturn"; "ebnfparser.WalkerOps.WalkTermNode";
   (* pkg/importer: loadTypeSchema is modelled (ImpModel.load) as a structural recursion over the document tree; that it
      also ends on documents whose $refs form a cycle rests on the refMap test and is NOT proved *)
   "importer.mapOpenAPITypeAndFormatToType"; "importer.OpenAPI3Importer.typeNameFromSchemaRef"; "importer.OpenAPI3Importer.loadTypeSchema";
   "importer.exampleAttrStr"; "importer.getSyslTypeName"; "importer.getAllElementsBelow"]%string.
Lemma recursions_accounted :
  forallb (fun f => existsb (String.eqb f) (proved_recursions ++ unproved_recursions)) recursive_functions = true.
Proof. reflexivity. Qed.
Lemma proved_recursions_present : forallb (fun f => existsb (String.eqb f) recursive_functions) proved_recursions = true.
Proof. reflexivity. Qed.

(* the marker disciplines read from the current source terminate on every graph (instances of WalkProps.walk_total) *)
Lemma current_disciplines_terminate :
  terminating (g_ints_disc current) && terminating (g_sd_disc current) && terminating (g_mseq_disc current) && terminating (g_mint_disc current) = true.
Proof. reflexivity. Qed.

Theorem current_cmd_total m rend fuel c : (fuel_bound m + cmd_extra c <= fuel)%nat -> fine (run current m rend fuel c) = true.
Proof. apply cmd_total, guards_ok. Qed.

(* ---- round 3, second pass: the error paths ---- *)
(* the format strings a project application supplies (epfmt / appfmt / seqtitle / title): the parser compiles every search
   pattern whatever the values are, Check exists, and both commands that read such strings try them first *)
Lemma fmt_guards_ok : fmt_guarded fmt_current = true.
Proof. reflexivity. Qed.
Theorem current_fmt_total u rx fmts uses : fine (fmt_cmd fmt_current u rx fmts uses) = true.
Proof. apply fmt_cmd_total, fmt_guards_ok. Qed.
(* Expansions terminates: the eager parser is Seq.Fmt.parse, which never runs out of fuel 1 + |format| *)
Theorem fmt_expansions_terminate rx self A : parse_d (negb (g_fmt_eager fmt_current)) rx self A <> PFuel.
Proof. change (negb (g_fmt_eager fmt_current)) with false. rewrite parse_d_eager. apply fmt_total. Qed.

(* the Swagger / OpenAPI 2 importer puts its name stack back on every return of buildField and buildResponses tests the
   error before it reads the field *)
Lemma imp_guards_ok : imp_guarded imp_current = true.
Proof. reflexivity. Qed.
Theorem current_import_total es d : fine (import_doc imp_current es d) = true.
Proof. apply import_total, imp_guards_ok. Qed.

(* ---- indexes into a call's result with an integer literal, `f(..)[k]` (Gen table literal_index_sites, regenerated each run).
   strings.Split*(..)[0] never fails and needs no review. Every other site of the reached packages is listed here with the
   reason it is in range - or named as NOT guarded; a new one (or one more in a listed function) makes the lemma fail.
     VarManagerForEPA            strings.Split(name, " : ")[1]: every caller builds name as app + " : " + endpoint          (by construction)
     DrawSystemView              SplitAppNameParts(app)[0]: strings.Split never returns an empty slice                       (in range)
     populateEndpoint            strings.Split(path, " ")[1], twice: behind the word-count test (g_swagger_rest)               (guarded, modelled)
     GenerateOpenAPI3            strings.Split(v.Path, " ")[1]: inside `if len(epPath) > 1`                                   (guarded)
     AppMapper.MapType           pk.GetAttrName()[0]: inside `len(pk.GetAttrName()) > 0`                                      (guarded)
     convertTableRef             GetContext().GetAppname().GetPart()[0], GetRef().GetPath()[0]: NOT guarded; in range for a
                                 module compiled from source (the parser gives every reference a context and a path);
                                 exercised by the table shapes x export -f openapi3 / diagram -d                              (observed only)
     HasSameType                 GetPart()[0] / GetPath()[0] behind `!= nil` tests only: NOT guarded against an empty list;
                                 called by the parser's view type inference only                                              (observed only)
     typeNameFromSchemaRef       Type.Slice()[0]: once inside `Type.Is(..)` (non-empty), once behind a len test               (guarded)
     loadTypeSchema              Type.Slice()[0] behind a len test                                                            (guarded)
     endpointToValue             Cond.GetStmt()[0] / Group.GetStmt()[0]: NOT guarded; the grammar gives every block at least
                                 one statement                                                                                (observed only)
     compareOneOf, getTypeName   GetRef().GetPath()[0] of a reference in a codegen grammar / transform: NOT guarded            (observed only) *)
Definition reviewed_index_sites : list (string * N) :=
  [("integrationdiagram.IntsDiagramVisitor.VarManagerForEPA", 1%N); ("integrationdiagram.IntsDiagramVisitor.DrawSystemView", 2%N);
   ("exporter.EndpointExporter.populateEndpoint", 2%N); ("exporter.OpenAPI3Exporter.GenerateOpenAPI3", 1%N);
   ("syslwrapper.AppMapper.MapType", 1%N); ("syslwrapper.convertTableRef", 2%N); ("syslutil.HasSameType", 4%N);
   ("importer.OpenAPI3Importer.typeNameFromSchemaRef", 2%N); ("importer.OpenAPI3Importer.loadTypeSchema", 1%N);
   ("eval.endpointToValue", 2%N); ("validate.Validator.compareOneOf", 1%N); ("validate.getTypeName", 3%N)]%string.
Lemma index_sites_reviewed :
  map (fun s => (fst (fst s), snd s)) (filter (fun s => negb (N.eqb (snd s) 0)) literal_index_sites) = reviewed_index_sites.
Proof. reflexivity. Qed.
