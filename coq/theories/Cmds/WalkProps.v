(* Termination and totality of the visited-list walk: with the visited list consulted, fuel above the number
   of keys (of a universe U that contains every key an edge can carry) not yet visited is never exhausted,
   and if no lookup panics the walk ends in Ok or Err. *)
From Coq Require Import List Bool Arith Lia.
Import ListNotations.
Require Import Verif.Cmds.Walk.

Section WalkProps.
  Context {node key : Type}.
  Variable keqb : key -> key -> bool.
  Hypothesis keqb_spec : forall a b, keqb a b = true <-> a = b.
  Variable expand : node -> outcome * list (@edge node key).
  Variable onerr : outcome.
  Variable persist : bool.
  Notation memk := (memk keqb).
  Notation go := (go keqb onerr true persist).
  Notation walk := (walk keqb expand onerr true persist).

  Definition unseenL (L:list key) (vis:list key) : nat := length (filter (fun k => negb (memk k vis)) L).

  Lemma memk_In k l : memk k l = true <-> In k l.
  Proof.
    unfold Walk.memk. rewrite existsb_exists. split.
    - intros (x & Hx & E). apply keqb_spec in E. subst. exact Hx.
    - intros H. exists k. split; [exact H|]. apply keqb_spec. reflexivity.
  Qed.

  Lemma unseenL_mono L v1 v2 : incl v1 v2 -> unseenL L v2 <= unseenL L v1.
  Proof.
    intros Hi. unfold unseenL. induction L as [|u r IH]; cbn [filter length]; [lia|].
    destruct (memk u v1) eqn:E1; cbn [negb].
    - assert (memk u v2 = true) as ->. { apply memk_In. apply Hi. apply memk_In. exact E1. }
      cbn [negb]. exact IH.
    - destruct (memk u v2); cbn [negb length]; lia.
  Qed.

  Lemma unseenL_add L k vis : In k L -> memk k vis = false -> unseenL L (k :: vis) < unseenL L vis.
  Proof.
    intros Hin Hm. unfold unseenL. induction L as [|u r IH]; [destruct Hin|].
    cbn [filter]. destruct Hin as [->|Hin].
    - rewrite Hm. cbn [negb length].
      assert (memk k (k :: vis) = true) as ->. { apply memk_In. left. reflexivity. }
      cbn [negb].
      pose proof (unseenL_mono r vis (k :: vis)) as Hmono. unfold unseenL in Hmono.
      assert (incl vis (k :: vis)) as Hi by (intros x Hx; right; exact Hx).
      specialize (Hmono Hi). lia.
    - specialize (IH Hin).
      destruct (memk u vis) eqn:Eu; cbn [negb].
      + assert (memk u (k :: vis) = true) as ->. { apply memk_In. right. apply memk_In. exact Eu. } cbn [negb]. exact IH.
      + destruct (memk u (k :: vis)); cbn [negb length]; lia.
  Qed.

  Variable U : list key.
  Hypothesis HU : forall n o es pre k n', expand n = (o, es) -> In (pre, Some (k, n')) es -> In k U.
  Definition unseen := unseenL U.
  Lemma unseen_mono v1 v2 : incl v1 v2 -> unseen v2 <= unseen v1.
  Proof. apply unseenL_mono. Qed.
  Lemma unseen_add k vis : In k U -> memk k vis = false -> unseen (k :: vis) < unseen vis.
  Proof. apply unseenL_add. Qed.

  (* the visited list only grows *)
  Lemma go_incl (rec : node -> list key -> outcome * list key) (Hrec : forall n v, incl v (snd (rec n v))) : forall es vis, incl vis (snd (go rec es vis)).
  Proof.
    induction es as [|[pre tgt] r IH]; intros vis; cbn [Walk.go snd]; [apply incl_refl|].
    destruct pre; try apply incl_refl.
    destruct tgt as [[k n']|]; [|apply IH].
    cbn [andb]. destruct (memk k vis); [apply IH|].
    pose proof (Hrec n' (k :: vis)) as Hi. destruct (rec n' (k :: vis)) as [o v2]. cbn [snd] in Hi.
    assert (incl vis v2) by (intros x Hx; apply Hi; right; exact Hx).
    destruct o; cbn [snd]; try assumption.
    destruct persist; [eapply incl_tran; [eassumption|apply IH]|apply IH].
  Qed.

  Lemma walk_incl : forall fuel n vis, incl vis (snd (walk fuel n vis)).
  Proof.
    induction fuel as [|f IH]; intros n vis; cbn [Walk.walk]; [apply incl_refl|].
    destruct (expand n) as [o es]. destruct o; try apply incl_refl.
    apply go_incl. exact (IH).
  Qed.

  (* no node lookup and no per-call work panics *)
  Hypothesis Hnode : forall n, fine (fst (expand n)) = true.
  Hypothesis Hedge : forall n pre tgt, In (pre, tgt) (snd (expand n)) -> fine pre = true.
  Hypothesis Honerr : fine onerr = true.

  Lemma go_fine (rec : node -> list key -> outcome * list key) f
    (Hrec : forall n v, unseen v < f -> fine (fst (rec n v)) = true)
    (Hinc : forall n v, incl v (snd (rec n v))) :
    forall es vis, (forall pre tgt, In (pre, tgt) es -> fine pre = true) ->
                   (forall pre k n', In (pre, Some (k, n')) es -> In k U) ->
                   unseen vis < S f -> fine (fst (go rec es vis)) = true.
  Proof.
    induction es as [|[pre tgt] r IH]; intros vis Hp Hk Hm; cbn [Walk.go fst]; [reflexivity|].
    assert (Hpre : fine pre = true) by (apply (Hp pre tgt); left; reflexivity).
    assert (Hp' : forall pre0 tgt0, In (pre0, tgt0) r -> fine pre0 = true) by (intros; eapply Hp; right; eassumption).
    assert (Hk' : forall pre0 k n', In (pre0, Some (k, n')) r -> In k U) by (intros; eapply Hk; right; eassumption).
    destruct pre; try discriminate Hpre; [|reflexivity].
    destruct tgt as [[k n']|]; [|apply IH; assumption].
    cbn [andb]. destruct (memk k vis) eqn:Ek; [apply IH; assumption|].
    assert (Hlt : unseen (k :: vis) < f).
    { assert (In k U) by (eapply Hk; left; reflexivity). pose proof (unseen_add k vis H Ek). lia. }
    pose proof (Hrec n' (k :: vis) Hlt) as Hf. pose proof (Hinc n' (k :: vis)) as Hi.
    destruct (rec n' (k :: vis)) as [o v2]. cbn [fst snd] in Hf, Hi.
    destruct o; try discriminate Hf.
    - apply IH; try assumption. destruct persist; [|exact Hm].
      assert (incl vis v2) by (intros x Hx; apply Hi; right; exact Hx).
      pose proof (unseen_mono vis v2 H). lia.
    - cbn [fst]. exact Honerr.
  Qed.

  Theorem walk_fine : forall fuel n vis, unseen vis < fuel -> fine (fst (walk fuel n vis)) = true.
  Proof.
    induction fuel as [|f IH]; intros n vis Hm; [lia|].
    cbn [Walk.walk]. pose proof (Hnode n) as Hn. pose proof (Hedge n) as He. pose proof (HU n) as Hu.
    destruct (expand n) as [o es]. cbn [fst snd] in Hn, He.
    destruct o; try discriminate Hn; [|reflexivity].
    apply (go_fine (walk f) f).
    - intros n0 v Hv. apply IH. exact Hv.
    - intros n0 v. apply walk_incl.
    - exact He.
    - intros pre k n' Hin. eapply Hu; [reflexivity|exact Hin].
    - exact Hm.
  Qed.

  Lemma unseen_le vis : unseen vis <= length U.
  Proof.
    unfold unseen, unseenL.
    assert (forall (f:key -> bool) L, length (filter f L) <= length L) as Hle.
    { intros f L. induction L as [|x r IH]; cbn [filter length]; [lia|]. destruct (f x); cbn [length]; lia. }
    apply Hle.
  Qed.

  Corollary walk_total n : fine (fst (walk (S (length U)) n [])) = true.
  Proof.
    apply walk_fine. unfold unseen, unseenL.
    assert (forall (f:key -> bool) L, length (filter f L) <= length L) as Hle.
    { intros f L. induction L as [|x r IH]; cbn [filter length]; [lia|]. destruct (f x); cbn [length]; lia. }
    pose proof (Hle (fun k => negb (memk k [])) U). lia.
  Qed.
End WalkProps.
