(* Termination and totality of the visited-set walk, for every marker discipline with `terminating d = true`:
   the set is consulted, and a key is recorded either before the test (then no edge is ever followed) or after
   the test and removed never / only behind the callee's expansion. With fuel above the number of keys (of a
   universe U that contains every key an edge can carry) not yet recorded the fuel is never exhausted, and if no
   lookup panics the walk ends in Ok or Err - on every graph.
   `cut_unmark_refuted`: a discipline that also un-marks when the re-entry test cut the edge does NOT terminate:
   a node with two edges to itself exhausts every amount of fuel. `untested_refuted`: nor does one without test. *)
From Coq Require Import List Bool Arith Lia.
Import ListNotations.
Require Import Verif.Cmds.Walk.

Section WalkProps.
  Context {node key : Type}.
  Variable keqb : key -> key -> bool.
  Hypothesis keqb_spec : forall a b, keqb a b = true <-> a = b.
  Variable expand : node -> outcome * list (@edge node key).
  Variable onerr : outcome.
  Notation memk := (memk keqb).
  Notation removek := (removek keqb).

  Definition unseenL (L:list key) (vis:list key) : nat := length (filter (fun k => negb (memk k vis)) L).

  Lemma memk_In k l : memk k l = true <-> In k l.
  Proof.
    unfold Walk.memk. rewrite existsb_exists. split.
    - intros (x & Hx & E). apply keqb_spec in E. subst. exact Hx.
    - intros H. exists k. split; [exact H|]. apply keqb_spec. reflexivity.
  Qed.

  Lemma removek_In k x l : In x (removek k l) <-> In x l /\ x <> k.
  Proof.
    unfold Walk.removek. rewrite filter_In. split.
    - intros [Hi Hn]. split; [exact Hi|]. intros ->. assert (keqb k k = true) as E by (apply keqb_spec; reflexivity).
      rewrite E in Hn. discriminate Hn.
    - intros [Hi Hn]. split; [exact Hi|]. destruct (keqb k x) eqn:E; [|reflexivity].
      apply keqb_spec in E. subst. contradiction.
  Qed.

  Lemma unseenL_mono L v1 v2 : incl v1 v2 -> unseenL L v2 <= unseenL L v1.
  Proof.
    intros Hi. unfold unseenL. induction L as [|u r IH]; cbn [filter length]; [lia|].
    destruct (memk u v1) eqn:E1; cbn [negb].
    - assert (memk u v2 = true) as ->. { apply memk_In. apply Hi. apply memk_In. exact E1. }
      cbn [negb]. exact IH.
    - destruct (memk u v2); cbn [negb length]; lia.
  Qed.

  Lemma unseenL_add L k vis : In k L -> memk k vis = false -> unseenL L (k :: vis) < unseenL L vis.
  Proof.
    intros Hin Hm. unfold unseenL. induction L as [|u r IH]; [destruct Hin|].
    cbn [filter]. destruct Hin as [->|Hin].
    - rewrite Hm. cbn [negb length].
      assert (memk k (k :: vis) = true) as ->. { apply memk_In. left. reflexivity. }
      cbn [negb].
      pose proof (unseenL_mono r vis (k :: vis)) as Hmono. unfold unseenL in Hmono.
      assert (incl vis (k :: vis)) as Hi by (intros x Hx; right; exact Hx).
      specialize (Hmono Hi). lia.
    - specialize (IH Hin).
      destruct (memk u vis) eqn:Eu; cbn [negb].
      + assert (memk u (k :: vis) = true) as ->. { apply memk_In. right. apply memk_In. exact Eu. } cbn [negb]. exact IH.
      + destruct (memk u (k :: vis)); cbn [negb length]; lia.
  Qed.

  Variable U : list key.
  Hypothesis HU : forall n o es pre k n', expand n = (o, es) -> In (pre, Some (k, n')) es -> In k U.
  Definition unseen := unseenL U.
  Lemma unseen_mono v1 v2 : incl v1 v2 -> unseen v2 <= unseen v1.
  Proof. apply unseenL_mono. Qed.
  Lemma unseen_add k vis : In k U -> memk k vis = false -> unseen (k :: vis) < unseen vis.
  Proof. apply unseenL_add. Qed.
  Lemma unseen_le vis : unseen vis <= length U.
  Proof.
    unfold unseen, unseenL.
    assert (forall (f:key -> bool) L, length (filter f L) <= length L) as Hle.
    { intros f L. induction L as [|x r IH]; cbn [filter length]; [lia|]. destruct (f x); cbn [length]; lia. }
    apply Hle.
  Qed.

  (* no node lookup and no per-call work panics *)
  Hypothesis Hnode : forall n, fine (fst (expand n)) = true.
  Hypothesis Hedge : forall n pre tgt, In (pre, tgt) (snd (expand n)) -> fine pre = true.
  Hypothesis Honerr : fine onerr = true.

  (* ---- a key recorded after the test, removed never or behind the callee's expansion ---- *)
  Section AfterTest.
    Variable um : unmarking.
    Hypothesis Hum : um <> UEveryExit.
    Let d := {| d_test := true; d_mark := MAfterTest; d_unmark := um |}.
    Notation go := (go keqb onerr d).
    Notation walk := (walk keqb expand onerr d).

    (* what is recorded when an edge is taken up is still recorded when the edge list is done *)
    Lemma go_incl (rec : node -> list key -> outcome * list key) (Hrec : forall n v, incl v (snd (rec n v))) :
      forall es vis, incl vis (snd (go rec es vis)).
    Proof.
      induction es as [|[pre tgt] r IH]; intros vis; cbn [Walk.go snd]; [apply incl_refl|].
      destruct pre; try apply incl_refl.
      destruct tgt as [[k n']|]; [|apply IH].
      cbn [d d_test d_mark d_unmark andb]. destruct (memk k vis) eqn:Ek.
      - destruct um; try apply IH. contradiction Hum; reflexivity.
      - pose proof (Hrec n' (k :: vis)) as Hi. destruct (rec n' (k :: vis)) as [o v2]. cbn [snd] in Hi.
        assert (Hv : incl vis v2) by (intros x Hx; apply Hi; right; exact Hx).
        destruct o; cbn [snd]; try assumption.
        assert (Hr : incl vis (removek k v2)).
        { intros x Hx. apply removek_In. split; [apply Hv, Hx|]. intros ->.
          apply memk_In in Hx. rewrite Hx in Ek. discriminate Ek. }
        destruct um; (eapply incl_tran; [|apply IH]); assumption.
    Qed.

    Lemma walk_incl : forall fuel n vis, incl vis (snd (walk fuel n vis)).
    Proof.
      induction fuel as [|f IH]; intros n vis; cbn [Walk.walk]; [apply incl_refl|].
      destruct (expand n) as [o es]. destruct o; try apply incl_refl.
      apply go_incl. exact (IH).
    Qed.

    Lemma go_fine (rec : node -> list key -> outcome * list key) f
      (Hrec : forall n v, unseen v < f -> fine (fst (rec n v)) = true)
      (Hinc : forall n v, incl v (snd (rec n v))) :
      forall es vis, (forall pre tgt, In (pre, tgt) es -> fine pre = true) ->
                     (forall pre k n', In (pre, Some (k, n')) es -> In k U) ->
                     unseen vis < S f -> fine (fst (go rec es vis)) = true.
    Proof.
      induction es as [|[pre tgt] r IH]; intros vis Hp Hk Hm; cbn [Walk.go fst]; [reflexivity|].
      assert (Hpre : fine pre = true) by (apply (Hp pre tgt); left; reflexivity).
      assert (Hp' : forall pre0 tgt0, In (pre0, tgt0) r -> fine pre0 = true) by (intros; eapply Hp; right; eassumption).
      assert (Hk' : forall pre0 k n', In (pre0, Some (k, n')) r -> In k U) by (intros; eapply Hk; right; eassumption).
      destruct pre; try discriminate Hpre; [|reflexivity].
      destruct tgt as [[k n']|]; [|apply IH; assumption].
      cbn [d d_test d_mark d_unmark andb]. destruct (memk k vis) eqn:Ek.
      - destruct um; try (apply IH; assumption). contradiction Hum; reflexivity.
      - assert (Hlt : unseen (k :: vis) < f).
        { assert (In k U) by (eapply Hk; left; reflexivity). pose proof (unseen_add k vis H Ek). lia. }
        pose proof (Hrec n' (k :: vis) Hlt) as Hf. pose proof (Hinc n' (k :: vis)) as Hi.
        destruct (rec n' (k :: vis)) as [o v2]. cbn [fst snd] in Hf, Hi.
        destruct o; try discriminate Hf; [|cbn [fst]; exact Honerr].
        assert (Hv : incl vis v2) by (intros x Hx; apply Hi; right; exact Hx).
        assert (Hr : incl vis (removek k v2)).
        { intros x Hx. apply removek_In. split; [apply Hv, Hx|]. intros ->.
          apply memk_In in Hx. rewrite Hx in Ek. discriminate Ek. }
        destruct um; apply IH; try assumption.
        + pose proof (unseen_mono vis v2 Hv). lia.
        + pose proof (unseen_mono vis (removek k v2) Hr). lia.
        + pose proof (unseen_mono vis (removek k v2) Hr). lia.
    Qed.

    Lemma walk_fine_after : forall fuel n vis, unseen vis < fuel -> fine (fst (walk fuel n vis)) = true.
    Proof.
      induction fuel as [|f IH]; intros n vis Hm; [lia|].
      cbn [Walk.walk]. pose proof (Hnode n) as Hn. pose proof (Hedge n) as He. pose proof (HU n) as Hu.
      destruct (expand n) as [o es]. cbn [fst snd] in Hn, He.
      destruct o; try discriminate Hn; [|reflexivity].
      apply (go_fine (walk f) f).
      - intros n0 v Hv. apply IH. exact Hv.
      - intros n0 v. apply walk_incl.
      - exact He.
      - intros pre k n' Hin. eapply Hu; [reflexivity|exact Hin].
      - exact Hm.
    Qed.
  End AfterTest.

  (* ---- a key recorded before the test: every edge looks like a re-entry, none is followed ---- *)
  Section BeforeTest.
    Variable um : unmarking.
    Let d := {| d_test := true; d_mark := MBeforeTest; d_unmark := um |}.

    Lemma go_fine_before (rec : node -> list key -> outcome * list key) :
      forall es vis, (forall pre tgt, In (pre, tgt) es -> fine pre = true) -> fine (fst (go keqb onerr d rec es vis)) = true.
    Proof.
      induction es as [|[pre tgt] r IH]; intros vis Hp; cbn [Walk.go fst]; [reflexivity|].
      assert (Hpre : fine pre = true) by (apply (Hp pre tgt); left; reflexivity).
      assert (Hp' : forall pre0 tgt0, In (pre0, tgt0) r -> fine pre0 = true) by (intros; eapply Hp; right; eassumption).
      destruct pre; try discriminate Hpre; [|reflexivity].
      destruct tgt as [[k n']|]; [|apply IH; assumption].
      cbn [d d_test d_mark d_unmark andb].
      assert (memk k (k :: vis) = true) as -> by (apply memk_In; left; reflexivity).
      apply IH. assumption.
    Qed.

    Lemma walk_fine_before : forall fuel n vis, 0 < fuel -> fine (fst (walk keqb expand onerr d fuel n vis)) = true.
    Proof.
      intros [|f] n vis Hf; [lia|]. cbn [Walk.walk]. pose proof (Hnode n) as Hn. pose proof (Hedge n) as He.
      destruct (expand n) as [o es]. cbn [fst snd] in Hn, He.
      destruct o; try discriminate Hn; [|reflexivity]. apply go_fine_before. exact He.
    Qed.
  End BeforeTest.

  Theorem walk_fine (d:discipline) : terminating d = true ->
    forall fuel n vis, unseen vis < fuel -> fine (fst (walk keqb expand onerr d fuel n vis)) = true.
  Proof.
    intros Hd fuel n vis Hm. destruct d as [t mk um]. unfold terminating in Hd. cbn [d_test d_mark d_unmark] in Hd.
    destruct t; [|discriminate Hd]. destruct mk; [discriminate Hd| |].
    - apply walk_fine_before. lia.
    - apply walk_fine_after; [|exact Hm]. intros ->. discriminate Hd.
  Qed.

  Corollary walk_total (d:discipline) : terminating d = true ->
    forall n, fine (fst (walk keqb expand onerr d (S (length U)) n [])) = true.
  Proof. intros Hd n. apply walk_fine; [exact Hd|]. pose proof (unseen_le []). lia. Qed.
End WalkProps.

(* ---- the disciplines that do not terminate: one graph each, every amount of fuel ---- *)
(* one node with TWO edges to itself (a self call written twice: `if`/`else`, a retry) *)
Definition loop2_expand (_:unit) : outcome * list (@edge unit unit) := (Ok, [(Ok, Some (tt, tt)); (Ok, Some (tt, tt))]).
Definition unit_eqb (_ _:unit) : bool := true.

Lemma removek_unit l : removek unit_eqb tt l = [].
Proof. unfold removek. induction l as [|x r IH]; [reflexivity|]. cbn [filter unit_eqb negb]. exact IH. Qed.

(* un-marking on a cut re-entry: the first edge finds the key (recorded by the caller), is cut and removes it;
   the second edge then finds nothing and re-enters - for ever. The same graph is fine under every terminating
   discipline (walk_total). *)
Theorem cut_unmark_refuted : forall fuel vis, fst (walk unit_eqb loop2_expand Err d_cut_unmarks fuel tt (tt :: vis)) = OutOfFuel.
Proof.
  induction fuel as [|f IH]; intros vis; [reflexivity|].
  cbn [walk loop2_expand go d_cut_unmarks d_test d_mark d_unmark].
  change (memk unit_eqb tt (tt :: vis)) with true. cbn [andb]. rewrite removek_unit.
  change (memk unit_eqb tt []) with false. cbn [andb].
  specialize (IH []). destruct (walk unit_eqb loop2_expand Err d_cut_unmarks f tt [tt]) as [o v2].
  cbn [fst] in IH. subst o. reflexivity.
Qed.
(* entered from outside (nothing recorded yet) the walk records the key and falls into the case above *)
Definition loop2_from_root (b:bool) : outcome * list (@edge bool unit) :=
  if b then (Ok, [(Ok, Some (tt, false))]) else (Ok, [(Ok, Some (tt, false)); (Ok, Some (tt, false))]).
Corollary cut_unmark_refuted_start : forall fuel, fst (walk unit_eqb loop2_from_root Err d_cut_unmarks fuel true []) = OutOfFuel.
Proof.
  assert (L : forall f vis, fst (walk unit_eqb loop2_from_root Err d_cut_unmarks f false (tt :: vis)) = OutOfFuel).
  { induction f as [|f IH]; intros vis; [reflexivity|].
    cbn [walk loop2_from_root go d_cut_unmarks d_test d_mark d_unmark].
    change (memk unit_eqb tt (tt :: vis)) with true. cbn [andb]. rewrite removek_unit.
    change (memk unit_eqb tt []) with false. cbn [andb].
    specialize (IH []). destruct (walk unit_eqb loop2_from_root Err d_cut_unmarks f false [tt]) as [o v2].
    cbn [fst] in IH. subst o. reflexivity. }
  intros [|f]; [reflexivity|]. cbn [walk loop2_from_root go d_cut_unmarks d_test d_mark d_unmark].
  change (memk unit_eqb tt []) with false. cbn [andb].
  specialize (L f []). destruct (walk unit_eqb loop2_from_root Err d_cut_unmarks f false [tt]) as [o v2]. cbn [fst] in L. subst o. reflexivity.
Qed.

(* no test at all: a single self edge is enough *)
Theorem untested_refuted : forall fuel vis, fst (walk unit_eqb (fun _:unit => (Ok, [(Ok, Some (tt, tt))])) Err d_untested fuel tt vis) = OutOfFuel.
Proof.
  induction fuel as [|f IH]; intros vis; [reflexivity|].
  cbn [walk go d_untested d_test d_mark d_unmark andb].
  specialize (IH (tt :: vis)).
  destruct (walk unit_eqb (fun _:unit => (Ok, [(Ok, Some (tt, tt))])) Err d_untested f tt (tt :: vis)) as [o v2].
  cbn [fst] in IH. subst o. reflexivity.
Qed.

(* the same two-self-edges graph under the two disciplines of the repository (a test, by computation) *)
Example loop2_terminates :
  (fst (walk unit_eqb loop2_expand Err d_persistent 2 tt []), fst (walk unit_eqb loop2_expand Err d_in_progress 2 tt [])) = (Ok, Ok).
Proof. vm_compute. reflexivity. Qed.
