(* C20 theorems over the command outcome model.
   cmd_total        : with every lookup guarded, every modelled command on every module, with fuel >= fuel_bound,
                      ends in Ok or Err - no panic site is reachable and the fuel is never exhausted.
   *_refuted        : for each guard, a minimal module on which the unguarded shape reaches its panic site
                      (for the two recursion guards: exhausts every amount of fuel). *)
From Coq Require Import List Bool NArith Arith Lia.
Import ListNotations.
Require Import Verif.Cmds.Walk Verif.Cmds.WalkProps Verif.Cmds.Model.
Local Open Scope N_scope.

Lemma pair_eqb_spec a b : pair_eqb a b = true <-> a = b.
Proof.
  destruct a as [a1 a2], b as [b1 b2]. unfold pair_eqb. cbn [fst snd].
  rewrite andb_true_iff, !N.eqb_eq. split; [intros [-> ->]; reflexivity|intros [= -> ->]; split; reflexivity].
Qed.

Lemma find_app_some m n a : find_app m n = Some a -> In a m /\ a_name a = n.
Proof. unfold find_app. intros H. apply find_some in H. destruct H as [Hi He]. apply N.eqb_eq in He. split; assumption. Qed.
Lemma find_ep_some a n e : find_ep a n = Some e -> In e (a_eps a) /\ e_name e = n.
Proof. unfold find_ep. intros H. apply find_some in H. destruct H as [Hi He]. apply N.eqb_eq in He. split; assumption. Qed.

Lemma first_bad_fine os : Forall (fun o => fine o = true) os -> fine (first_bad os) = true.
Proof.
  induction 1 as [|o r Ho _ IH]; [reflexivity|]. cbn [first_bad]. destruct o; try discriminate Ho; [exact IH|reflexivity].
Qed.
Lemma first_bad_map_fine {A} (f:A -> outcome) l : (forall x, In x l -> fine (f x) = true) -> fine (first_bad (map f l)) = true.
Proof. intros H. apply first_bad_fine. apply Forall_forall. intros o Ho. apply in_map_iff in Ho. destruct Ho as (x & <- & Hx). apply H, Hx. Qed.

Lemma in_seen_calls e c : In c (seen_calls e) -> In c (e_calls e).
Proof. unfold seen_calls. intros H. apply filter_In in H. apply H. Qed.

Lemma in_all_calls m a e c : In a m -> In e (a_eps a) -> In c (e_calls e) -> In c (all_calls m).
Proof.
  intros Ha He Hc. unfold all_calls. apply in_flat_map. exists a. split; [exact Ha|].
  apply in_flat_map. exists e. split; assumption.
Qed.

(* key universes, each an image of the module's call statements *)
Definition keyed (kf:app -> call -> N*N) (m:module) : list (N*N) :=
  flat_map (fun a => flat_map (fun e => map (kf a) (e_calls e)) (a_eps a)) m.
Lemma keyed_length kf m : length (keyed kf m) = length (all_calls m).
Proof.
  unfold keyed, all_calls. induction m as [|a r IH]; [reflexivity|].
  cbn [flat_map]. rewrite !app_length, IH. f_equal.
  induction (a_eps a) as [|e es IHe]; [reflexivity|]. cbn [flat_map]. rewrite !app_length, IHe, map_length. reflexivity.
Qed.
Lemma in_keyed kf m a e c : In a m -> In e (a_eps a) -> In c (e_calls e) -> In (kf a c) (keyed kf m).
Proof.
  intros Ha He Hc. unfold keyed. apply in_flat_map. exists a. split; [exact Ha|].
  apply in_flat_map. exists e. split; [exact He|]. apply in_map. exact Hc.
Qed.

Section Total.
  Variable g : guards.
  Hypothesis G : all_guarded g = true.

  Ltac from_G := pose proof G as H; unfold all_guarded in H; repeat (apply andb_true_iff in H; destruct H as [H ?]); assumption.
  Lemma G_ints_target : g_ints_target g = true. Proof. from_G. Qed.
  Lemma G_ints_disc : terminating (g_ints_disc g) = true. Proof. from_G. Qed.
  Lemma G_dm_path : g_dm_path g = true. Proof. from_G. Qed.
  Lemma G_swagger_rest : g_swagger_rest g = true. Proof. from_G. Qed.
  Lemma G_sw_param_schema : g_sw_param_schema g = true. Proof. from_G. Qed.
  Lemma G_oa3_ret_split : g_oa3_ret_split g = true. Proof. from_G. Qed.
  Lemma G_db_path : g_db_path g = true. Proof. from_G. Qed.
  Lemma G_db_writer_path : g_db_writer_path g = true. Proof. from_G. Qed.
  Lemma G_db_progress : g_db_progress g = true. Proof. from_G. Qed.
  Lemma G_mseq_err : g_mseq_err g = true. Proof. from_G. Qed.
  Lemma G_mint_app : g_mint_app g = true. Proof. from_G. Qed.
  Lemma G_render_recover : g_render_recover g = true. Proof. from_G. Qed.
  Lemma G_mseq_disc : terminating (g_mseq_disc g) = true. Proof. from_G. Qed.
  Lemma G_mint_disc : terminating (g_mint_disc g) = true. Proof. from_G. Qed.
  Lemma G_sd_target : g_sd_target g = true. Proof. from_G. Qed.
  Lemma G_sd_disc : terminating (g_sd_disc g) = true. Proof. from_G. Qed.
  Lemma G_delta_relation : g_delta_relation g = true. Proof. from_G. Qed.
  Lemma G_tmpl_app : g_tmpl_app g = true. Proof. from_G. Qed.
  Lemma G_rig_nilapp : g_rig_nilapp g = true. Proof. from_G. Qed.
  Lemma G_delta_trim : g_delta_trim g || (g_coldef_ref g && g_coldef_auto g && g_coldef_plain g) = true. Proof. from_G. Qed.

  Lemma render_fine rend o : fine o = true -> fine (render g rend o) = true.
  Proof.
    pose proof G_render_recover as Hr.
    intros H. destruct o; try discriminate H; cbn [render]; [|reflexivity]. destruct rend; [reflexivity|]. rewrite Hr. reflexivity.
  Qed.

  (* ---- mermaid sequence ---- *)
  Lemma mseq_fine m fuel a e : (length (all_calls m) < fuel)%nat -> fine (mseq g m fuel a e) = true.
  Proof.
    intros Hf. unfold mseq.
    apply (walk_fine pair_eqb pair_eqb_spec (mseq_expand m) (mseq_onerr g) (keyed (fun a c => (a_name a, c_ep c)) m)); [| | | |exact G_mseq_disc|].
    - intros n o es pre k n' He Hin. unfold mseq_expand in He.
      destruct (find_app m (fst n)) as [ap|] eqn:Ea; [|inversion He; subst; destruct Hin].
      destruct (find_ep ap (snd n)) as [ep|] eqn:Ee; [|inversion He; subst; destruct Hin].
      inversion He; subst. apply in_map_iff in Hin. destruct Hin as (c & Hc & Hin). inversion Hc; subst.
      apply find_app_some in Ea. destruct Ea as [Ha <-]. apply find_ep_some in Ee. destruct Ee as [Hep _].
      apply (in_keyed (fun a c => (a_name a, c_ep c)) m ap ep c Ha Hep). apply in_seen_calls, Hin.
    - intros n. unfold mseq_expand. destruct (find_app m (fst n)); [|reflexivity]. destruct (find_ep a0 (snd n)); reflexivity.
    - intros n pre tgt. unfold mseq_expand. destruct (find_app m (fst n)); [|intros []]. destruct (find_ep a0 (snd n)); [|intros []].
      cbn [snd]. intros Hin. apply in_map_iff in Hin. destruct Hin as (c & Hc & _). inversion Hc. reflexivity.
    - unfold mseq_onerr. rewrite G_mseq_err. reflexivity.
    - pose proof (unseen_le pair_eqb (keyed (fun a c => (a_name a, c_ep c)) m) []) as Hle. rewrite keyed_length in Hle. lia.
  Qed.

  (* ---- mermaid integration ---- *)
  Lemma mint_edges_keys m a pre k n' : In a m -> In (pre, Some (k, n')) (mint_edges a) ->
    In k (keyed (fun a c => (a_name a, c_app c)) m) /\ pre = Ok.
  Proof.
    intros Ha Hin. unfold mint_edges in Hin. apply in_flat_map in Hin. destruct Hin as (e & He & Hin).
    apply in_map_iff in Hin. destruct Hin as (c & Hc & Hin). inversion Hc; subst. split; [|reflexivity].
    apply (in_keyed (fun a c => (a_name a, c_app c)) m a e c Ha He). apply in_seen_calls, Hin.
  Qed.
  Lemma mint_edges_pre a pre tgt : In (pre, tgt) (mint_edges a) -> pre = Ok.
  Proof.
    intros Hin. unfold mint_edges in Hin. apply in_flat_map in Hin. destruct Hin as (e & He & Hin).
    apply in_map_iff in Hin. destruct Hin as (c & Hc & Hin). inversion Hc; reflexivity.
  Qed.

  Lemma mint_walk_fine m fuel n : (length (all_calls m) < fuel)%nat ->
    fine (fst (walk pair_eqb (mint_expand g m) Err (g_mint_disc g) fuel n [])) = true.
  Proof.
    intros Hf. pose proof G_mint_app as Hmi.
    apply (walk_fine pair_eqb pair_eqb_spec (mint_expand g m) Err (keyed (fun a c => (a_name a, c_app c)) m)); [| | | |exact G_mint_disc|].
    - intros n0 o es pre k n' He Hin. unfold mint_expand in He. destruct n0 as [x|].
      + destruct (find_app m x) as [ap|] eqn:Ea.
        * inversion He; subst. apply find_app_some in Ea. destruct Ea as [Ha _]. eapply mint_edges_keys; eassumption.
        * rewrite Hmi in He. inversion He; subst. destruct Hin.
      + inversion He; subst. apply in_flat_map in Hin. destruct Hin as (ap & Ha & Hin). eapply mint_edges_keys; eassumption.
    - intros n0. unfold mint_expand. destruct n0 as [x|]; [|reflexivity]. destruct (find_app m x); [reflexivity|]. rewrite Hmi. reflexivity.
    - intros n0 pre tgt. unfold mint_expand. destruct n0 as [x|].
      + destruct (find_app m x); [|rewrite Hmi; intros []]. cbn [snd]. intros Hin. apply mint_edges_pre in Hin. subst. reflexivity.
      + cbn [snd]. intros Hin. apply in_flat_map in Hin. destruct Hin as (ap & _ & Hin). apply mint_edges_pre in Hin. subst. reflexivity.
    - reflexivity.
    - pose proof (unseen_le pair_eqb (keyed (fun a c => (a_name a, c_app c)) m) []) as Hle. rewrite keyed_length in Hle. lia.
  Qed.
  Lemma mint_fine m fuel a : (length (all_calls m) < fuel)%nat -> fine (mint g m fuel a) = true.
  Proof.
    intros Hf. unfold mint. destruct a as [x|]; [destruct (find_app m x); [|reflexivity]|]; apply mint_walk_fine, Hf.
  Qed.

  (* ---- integrations ---- *)
  Lemma ints_edge_spec m excl pass c pre tgt : ints_edge g m excl pass c = (pre, tgt) ->
    pre = Ok /\ (forall k n', tgt = Some (k, n') -> k = (c_app c, c_ep c)).
  Proof.
    pose proof G_ints_target as Hi. unfold ints_edge. rewrite Hi.
    destruct (memN (c_app c) excl); [intros [= <- <-]; split; [reflexivity|discriminate]|].
    destruct (find_app m (c_app c)) as [ta|].
    - destruct (a_human ta); [intros [= <- <-]; split; [reflexivity|discriminate]|].
      destruct (memN (c_app c) pass); intros [= <- <-]; (split; [reflexivity|]); [intros k n' [= <- _]; reflexivity|discriminate].
    - destruct (memN (c_app c) pass); intros [= <- <-]; (split; [reflexivity|]); [intros k n' [= <- _]; reflexivity|discriminate].
  Qed.

  Lemma ints_view_fine m fuel cx view : (length (all_calls m) < fuel)%nat -> fine (ints_view g m fuel cx view) = true.
  Proof.
    intros Hf. unfold ints_view.
    set (excl := cx ++ e_excl view). set (pass := e_pass view).
    apply (walk_fine pair_eqb pair_eqb_spec (ints_expand g m excl pass view) Err (keyed (fun _ c => (c_app c, c_ep c)) m)); [| | | |exact G_ints_disc|].
    - intros n o es pre k n' He Hin. unfold ints_expand in He. destruct n as [[a e]|].
      + destruct (find_app m a) as [ta|] eqn:Ea; [|inversion He; subst; destruct Hin].
        destruct (find_ep ta e) as [ep|] eqn:Ee; [|inversion He; subst; destruct Hin].
        inversion He; subst. apply in_map_iff in Hin. destruct Hin as (c & Hc & Hin).
        apply ints_edge_spec in Hc. destruct Hc as [_ Hk]. rewrite (Hk k n' eq_refl).
        apply find_app_some in Ea. destruct Ea as [Ha _]. apply find_ep_some in Ee. destruct Ee as [Hep _].
        apply (in_keyed (fun _ c => (c_app c, c_ep c)) m ta ep c Ha Hep Hin).
      + inversion He; subst. apply in_flat_map in Hin. destruct Hin as (sa & Hsa & Hin).
        unfold ints_seeds in Hsa. apply in_flat_map in Hsa. destruct Hsa as (nm & _ & Hsa).
        destruct (find_app m nm) as [ta|] eqn:Ea; [|destruct Hsa]. destruct (a_human ta); [destruct Hsa|].
        destruct Hsa as [<-|[]]. apply find_app_some in Ea. destruct Ea as [Ha _].
        unfold ints_ep_edges in Hin. apply in_flat_map in Hin. destruct Hin as (ep & Hep & Hin).
        apply in_map_iff in Hin. destruct Hin as (c & Hc & Hin).
        apply ints_edge_spec in Hc. destruct Hc as [_ Hk]. rewrite (Hk k n' eq_refl).
        apply (in_keyed (fun _ c => (c_app c, c_ep c)) m ta ep c Ha Hep Hin).
    - intros n. unfold ints_expand. destruct n as [[a e]|]; [|reflexivity].
      destruct (find_app m a); [|reflexivity]. destruct (find_ep a0 e); reflexivity.
    - intros n pre tgt. unfold ints_expand. destruct n as [[a e]|].
      + destruct (find_app m a); [|intros []]. destruct (find_ep a0 e); [|intros []]. cbn [snd].
        intros Hin. apply in_map_iff in Hin. destruct Hin as (c & Hc & _). apply ints_edge_spec in Hc. destruct Hc as [-> _]. reflexivity.
      + cbn [snd]. intros Hin. apply in_flat_map in Hin. destruct Hin as (sa & _ & Hin).
        unfold ints_ep_edges in Hin. apply in_flat_map in Hin. destruct Hin as (ep & _ & Hin).
        apply in_map_iff in Hin. destruct Hin as (c & Hc & _). apply ints_edge_spec in Hc. destruct Hc as [-> _]. reflexivity.
    - reflexivity.
    - pose proof (unseen_le pair_eqb (keyed (fun _ c => (c_app c, c_ep c)) m) []) as Hle. rewrite keyed_length in Hle. lia.
  Qed.
  Lemma ints_fine m fuel p cx : (length (all_calls m) < fuel)%nat -> fine (ints g m fuel p cx) = true.
  Proof.
    intros Hf. unfold ints. destruct (find_app m p); [|reflexivity]. apply first_bad_map_fine. intros v _. apply ints_view_fine, Hf.
  Qed.

  (* ---- datamodel, swagger ---- *)
  Lemma dm_view_fine m only : fine (dm_view g m only) = true.
  Proof.
    pose proof G_dm_path as Hd.
    assert (Ht : forall t, fine (dm_type g t) = true).
    { intros t. unfold dm_type. destruct (t_table t); [|reflexivity]. apply first_bad_map_fine. intros f _.
      unfold dm_field. destruct (f_ref f); [|reflexivity]. rewrite Hd. destruct (short_path l); reflexivity. }
    unfold dm_view. apply first_bad_map_fine. intros a _. destruct only as [n|].
    - destruct (a_name a =? n); [|reflexivity]. apply first_bad_map_fine. intros t _. apply Ht.
    - apply first_bad_map_fine. intros t _. apply Ht.
  Qed.
  Lemma dm_direct_fine m ep : fine (dm_direct g m ep) = true.
  Proof. unfold dm_direct. apply first_bad_map_fine. intros a _. apply dm_view_fine. Qed.
  Lemma dm_project_fine m p ep : fine (dm_project g m p ep) = true.
  Proof.
    unfold dm_project. destruct (find_app m p); [|reflexivity]. apply first_bad_map_fine. intros v _.
    apply first_bad_map_fine. intros n _. destruct (find_app m n); [apply dm_view_fine|reflexivity].
  Qed.
  Lemma sw_params_fine ps : fine (sw_params g ps) = true.
  Proof.
    pose proof G_sw_param_schema as Hsp.
    induction ps as [|p r IH]; [reflexivity|]. cbn [sw_params]. destruct p; [exact IH|rewrite Hsp; exact IH|reflexivity].
  Qed.
  Lemma swagger_fine m sel : fine (swagger g m sel) = true.
  Proof.
    pose proof G_swagger_rest as Hs.
    assert (Ha : forall a, fine (sw_app g a) = true).
    { intros a. unfold sw_app. apply first_bad_map_fine. intros e _. unfold sw_ep. rewrite Hs.
      destruct (e_words e <? 2); [reflexivity|apply sw_params_fine]. }
    unfold swagger. destruct sel as [n|].
    - destruct (find_app m n); [apply Ha|reflexivity].
    - destruct m; [reflexivity|]. apply first_bad_map_fine. intros a0 _. apply Ha.
  Qed.
  Lemma openapi3_fine m sel : fine (openapi3 g m sel) = true.
  Proof.
    pose proof G_oa3_ret_split as Ho.
    assert (Ha : forall a, fine (oa3_app g a) = true).
    { intros a. unfold oa3_app. apply first_bad_map_fine. intros e _. unfold oa3_ep. apply first_bad_map_fine.
      intros r _. rewrite Ho. destruct (snd r); reflexivity. }
    unfold openapi3. destruct sel as [n|].
    - destruct (find_app m n); [apply Ha|reflexivity].
    - destruct m; [reflexivity|]. apply first_bad_map_fine. intros a0 _. apply Ha.
  Qed.

  (* ---- database scripts ---- *)
  Lemma ftd_ok vis fs : fst (ftd g vis fs) = Ok.
  Proof.
    pose proof G_db_path as Hp.
    induction fs as [|f r IH]; [reflexivity|]. cbn [ftd]. destruct (f_ref f) as [p|]; [|exact IH].
    destruct p as [|t [|c p']]; try (rewrite Hp; destruct (ftd g vis r); cbn [fst] in *; exact IH).
    destruct (ftd g vis r); cbn [fst] in *; exact IH.
  Qed.
  Lemma find_table_depth_ok vis t : fst (find_table_depth g vis t) = Ok.
  Proof. unfold find_table_depth. destruct (t_table t); [apply ftd_ok|reflexivity]. Qed.

  Lemma db_pass_spec inc : forall vis, match db_pass g inc vis with
    | (o, _, rem, p) => o = Ok /\ (length rem <= length inc)%nat /\ (p = true -> (length rem < length inc)%nat) end.
  Proof.
    induction inc as [|t r IH]; intros vis; cbn [db_pass]; [repeat split; [lia|discriminate]|].
    pose proof (find_table_depth_ok vis t) as Hok. destruct (find_table_depth g vis t) as [o b]. cbn [fst] in Hok. subst o.
    destruct b.
    - match goal with |- context [db_pass g r ?v] => specialize (IH v); destruct (db_pass g r v) as [[[o v2] rem] p] end.
      destruct IH as (-> & Hl & _). cbn [length]. repeat split; lia.
    - specialize (IH vis). destruct (db_pass g r vis) as [[[o v2] rem] p]. destruct IH as (-> & Hl & Hp).
      cbn [length]. repeat split; [lia|]. intros E. specialize (Hp E). lia.
  Qed.

  Lemma db_order_fine : forall fuel inc vis, (length inc < fuel)%nat -> fine (db_order g fuel inc vis) = true.
  Proof.
    pose proof G_db_progress as Hpr.
    induction fuel as [|f IH]; intros inc vis Hf; [lia|]. cbn [db_order].
    pose proof (db_pass_spec inc vis) as Hs. destruct (db_pass g inc vis) as [[[o v2] rem] p].
    destruct Hs as (-> & Hl & Hp). destruct rem as [|t rem]; [reflexivity|]. rewrite Hpr. destruct p; cbn [negb andb]; [|reflexivity].
    apply IH. specialize (Hp eq_refl). lia.
  Qed.

  Lemma types_le m a : In a m -> (length (a_types a) <= length (all_types m))%nat.
  Proof.
    intros Ha. unfold all_types. induction m as [|x r IH]; [destruct Ha|].
    cbn [flat_map]. rewrite app_length. destruct Ha as [->|Ha]; [lia|]. specialize (IH Ha). lia.
  Qed.
  Lemma db_writer_field_fine f : fine (db_writer_field g f) = true.
  Proof. unfold db_writer_field. destruct (f_ref f); [|reflexivity]. rewrite G_db_writer_path. destruct (short_path l); reflexivity. Qed.
  Lemma create_table_fine t : fine (create_table g t) = true.
  Proof. unfold create_table. apply first_bad_map_fine. intros f _. apply db_writer_field_fine. Qed.

  Lemma db_app_fine fuel a : (length (a_types a) < fuel)%nat -> fine (db_app g fuel a) = true.
  Proof.
    intros Hf. unfold db_app.
    pose proof (db_order_fine fuel (a_types a) [] Hf) as Ho.
    destruct (db_order g fuel (a_types a) []); try discriminate Ho; [|reflexivity].
    unfold db_writer. apply first_bad_map_fine. intros t _. destruct (t_table t); [|reflexivity].
    apply first_bad_map_fine. intros f _. apply db_writer_field_fine.
  Qed.

  Lemma db_create_fine m fuel apps : (length (all_types m) < fuel)%nat -> fine (db_create g m fuel apps) = true.
  Proof.
    intros Hf. unfold db_create. apply first_bad_map_fine. intros n _. destruct (find_app m n) as [a|] eqn:Ea; [|reflexivity].
    apply db_app_fine. apply find_app_some in Ea. destruct Ea as [Ha _]. pose proof (types_le m a Ha). lia.
  Qed.

  (* ---- delta scripts ---- *)
  Lemma delta_added_fine f : fine (delta_added g f) = true.
  Proof.
    unfold delta_added. pose proof (db_writer_field_fine f) as Hw. destruct (db_writer_field g f); try discriminate Hw; [|reflexivity].
    pose proof G_delta_trim as Ht. destruct (g_delta_trim g); [rewrite orb_true_r; reflexivity|]. cbn [orb] in Ht.
    apply andb_true_iff in Ht. destruct Ht as [Ht Hp]. apply andb_true_iff in Ht. destruct Ht as [Hr Ha].
    unfold coldef_nonempty. destruct (kind_of g f); rewrite ?Hr, ?Ha, ?Hp; reflexivity.
  Qed.
  Lemma delta_retained_fine fn fo : fine (delta_retained g fn fo) = true.
  Proof.
    unfold delta_retained. apply first_bad_fine.
    repeat constructor; apply db_writer_field_fine.
  Qed.
  Lemma delta_type_fine olds t : fine (delta_type g olds t) = true.
  Proof.
    unfold delta_type. rewrite G_delta_relation. destruct (find_typ olds (t_name t)) as [told|].
    - destruct (t_table t && t_table told).
      + unfold delta_modify. apply first_bad_map_fine. intros f _. destruct (find_field (t_fields told) (f_name f)).
        * apply delta_retained_fine.
        * apply delta_added_fine.
      + destruct (t_table t); [apply create_table_fine|reflexivity].
    - destruct (t_table t); [apply create_table_fine|reflexivity].
  Qed.
  Lemma db_delta_fine mold m fuel apps : (length (all_types m) + length (all_types mold) < fuel)%nat -> fine (db_delta g mold m fuel apps) = true.
  Proof.
    intros Hf. unfold db_delta. apply first_bad_map_fine. intros n _. unfold delta_app.
    destruct (find_app mold n) as [o|] eqn:Eo; destruct (find_app m n) as [a|] eqn:Ea; try reflexivity.
    - apply find_app_some in Eo. destruct Eo as [Ho _]. apply find_app_some in Ea. destruct Ea as [Ha _].
      pose proof (types_le mold o Ho). pose proof (types_le m a Ha).
      pose proof (db_order_fine fuel (a_types o) [] ltac:(lia)) as H1.
      destruct (db_order g fuel (a_types o) []); try discriminate H1; [|reflexivity].
      pose proof (db_order_fine fuel (a_types a) [] ltac:(lia)) as H2.
      destruct (db_order g fuel (a_types a) []); try discriminate H2; [|reflexivity].
      apply first_bad_map_fine. intros t _. apply delta_type_fine.
    - apply db_app_fine. apply find_app_some in Ea. destruct Ea as [Ha _]. pose proof (types_le m a Ha). lia.
  Qed.

  (* ---- sd ---- *)
  Lemma sd_fine m fuel a e : (length (all_calls m) < fuel)%nat -> fine (sd g m fuel a e) = true.
  Proof.
    intros Hf. unfold sd. destruct (find_app m a) as [ta0|]; [|reflexivity]. destruct (find_ep ta0 e); [|reflexivity].
    pose proof G_sd_target as Ht.
    apply (walk_fine pair_eqb pair_eqb_spec (sd_expand g m (a, e)) Err ((a, e) :: keyed (fun _ c => (c_app c, c_ep c)) m)); [| | | |exact G_sd_disc|].
    - intros n o es pre k n' He Hin. unfold sd_expand in He. destruct n as [[x y]|].
      + rewrite Ht in He. destruct (find_app m x) as [ta|] eqn:Ea; [|inversion He; subst; destruct Hin].
        destruct (find_ep ta y) as [ep|] eqn:Ee; [|inversion He; subst; destruct Hin].
        inversion He; subst. apply in_map_iff in Hin. destruct Hin as (c & Hc & Hin). inversion Hc; subst.
        apply find_app_some in Ea. destruct Ea as [Ha _]. apply find_ep_some in Ee. destruct Ee as [Hep _].
        right. apply (in_keyed (fun _ c => (c_app c, c_ep c)) m ta ep c Ha Hep Hin).
      + inversion He; subst. destruct Hin as [Hin|[]]. inversion Hin; subst. left. reflexivity.
    - intros n. unfold sd_expand. destruct n as [[x y]|]; [|reflexivity]. rewrite Ht.
      destruct (find_app m x); [|reflexivity]. destruct (find_ep a0 y); reflexivity.
    - intros n pre tgt. unfold sd_expand. destruct n as [[x y]|].
      + rewrite Ht. destruct (find_app m x); [|intros []]. destruct (find_ep a0 y); [|intros []]. cbn [snd].
        intros Hin. apply in_map_iff in Hin. destruct Hin as (c & Hc & _). inversion Hc. reflexivity.
      + cbn [snd]. intros [Hin|[]]. inversion Hin. reflexivity.
    - reflexivity.
    - pose proof (unseen_le pair_eqb ((a, e) :: keyed (fun _ c => (c_app c, c_ep c)) m) []) as Hle.
      cbn [length] in Hle. rewrite keyed_length in Hle. lia.
  Qed.

  Theorem cmd_total m rend fuel c : (fuel_bound m + cmd_extra c <= fuel)%nat -> fine (run g m rend fuel c) = true.
  Proof.
    unfold fuel_bound. intros Hf. destruct c; cbn [run cmd_extra] in *.
    - apply render_fine, mseq_fine. lia.
    - apply render_fine, mint_fine. lia.
    - apply ints_fine. lia.
    - apply dm_direct_fine.
    - apply dm_project_fine.
    - apply swagger_fine.
    - apply openapi3_fine.
    - apply db_create_fine. lia.
    - apply sd_fine. lia.
    - apply db_delta_fine. lia.
    - unfold template. rewrite G_tmpl_app. destruct (existsb (undefined_app m) apps); reflexivity.
    - unfold testrig. rewrite G_rig_nilapp. reflexivity.
  Qed.
End Total.
