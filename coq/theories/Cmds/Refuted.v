(* C20: each guard is necessary. For every guard of Model.guards, a minimal compiled module on which the
   shape WITHOUT that guard (all others in place) reaches its panic site - these are the crash sites that were
   reachable in the repository before the C20/C14 repairs - and, for the two recursion guards, exhausts
   every amount of fuel (Go: stack exhaustion). *)
From Coq Require Import List Bool NArith Arith Lia.
Import ListNotations.
Require Import Verif.Cmds.Walk Verif.Cmds.Model.
Local Open Scope N_scope.

Definition guarded : guards :=
  {| g_ints_target := true; g_ints_disc := d_in_progress; g_dm_path := true; g_swagger_rest := true; g_sw_param_schema := true; g_oa3_ret_split := true; g_db_path := true; g_db_writer_path := true; g_db_progress := true; g_mseq_err := true; g_mseq_disc := d_persistent; g_mint_app := true; g_mint_disc := d_persistent; g_render_recover := true; g_sd_target := true; g_sd_disc := d_in_progress; g_delta_relation := true; g_coldef_ref := true; g_coldef_auto := true; g_coldef_plain := true; g_delta_trim := false; g_db_short_done := true; g_coldef_fk_only := true; g_oa3_nested_rets := true; g_tmpl_app := true; g_rig_nilapp := true |}.
Lemma guarded_all : all_guarded guarded = true. Proof. reflexivity. Qed.

Definition ep (n w:N) (cs:list call) : endpoint := {| e_name := n; e_words := w; e_calls := cs; e_acts := []; e_pass := []; e_excl := []; e_params := []; e_rets := [] |}.
Definition view (n:N) (acts pass:list N) : endpoint := {| e_name := n; e_words := 1; e_calls := []; e_acts := acts; e_pass := pass; e_excl := []; e_params := []; e_rets := [] |}.
Definition cl (a e:N) : call := {| c_app := a; c_ep := e; c_alt := false |}.
Definition ap (n:N) (es:list endpoint) (ts:list typ) : app := {| a_name := n; a_human := false; a_eps := es; a_types := ts |}.
Definition fk (n:N) (p:list N) : field := {| f_name := n; f_ref := Some p; f_auto := false |}.
Definition col (n:N) : field := {| f_name := n; f_ref := None; f_auto := false |}.
Definition tb (n:N) (fs:list field) : typ := {| t_name := n; t_table := true; t_fields := fs |}.

(* names: apps A=1 B=2 P=9 Ghost=7 ; endpoints E=1 F=2 G=3 V=5 ; tables T=1 ; columns id=1 x=2 *)
(* A: E: Ghost <- G      P[~project]: V: A *)
Definition m_dangling_app : module := [ap 1 [ep 1 1 [cl 7 3]] []; ap 9 [view 5 [1] []] []].
(* A: E: B <- Nope   B: F: ... *)
Definition m_dangling_ep : module := [ap 1 [ep 1 1 [cl 2 4]] []; ap 2 [ep 2 1 []] []].
(* A: E: B <- F   B: F: B <- F   P: V [passthrough=[B]]: A *)
Definition m_pass_cycle : module := [ap 1 [ep 1 1 [cl 2 2]] []; ap 2 [ep 2 1 [cl 2 2]] []; ap 9 [view 5 [1] [2]] []].
(* A: !table T: id <: int ; x <: Gone   (compiled: appname Gone? no - a one-element path) *)
Definition m_short_ref : module := [ap 1 [] [tb 1 [col 1; fk 2 [8]]]].
(* A: !table T: id <: int ; parent <: T.id *)
Definition m_self_fk : module := [ap 1 [] [tb 1 [col 1; fk 2 [1; 1]]]].
(* A: E: B <- F   B: F: (if c: B <- F) (else: B <- F)   P: V [passthrough=[B]]: A      - the self call written twice *)
Definition m_pass_loop2 : module := [ap 1 [ep 1 1 [cl 2 2]] []; ap 2 [ep 2 1 [cl 2 2; cl 2 2]] []; ap 9 [view 5 [1] [2]] []].
(* A: E: A <- E ; A <- E *)
Definition m_self_loop2 : module := [ap 1 [ep 1 1 [cl 1 1; cl 1 1]] []].
(* old  A: !table T: id <: int            new  A: !table T: id <: int ; tags <: set of string     !type R: x <: int *)
Definition tyR : typ := {| t_name := 5; t_table := false; t_fields := [] |}.
Definition m_delta_old : module := [ap 1 [] [tb 1 [col 1]]].
Definition m_delta_new : module := [ap 1 [] [tb 1 [col 1; col 2]]].
Definition m_delta_new_type : module := [ap 1 [] [tyR; tb 1 [col 1]]].
(* A: E (an RPC endpoint: one word) *)
Definition m_rpc : module := [ap 1 [ep 1 1 []] []].

(* A: /b/{ref <: Foo}: GET ?q=string   (a reference-typed URL parameter) *)
Definition m_ref_param : module :=
  [ap 1 [{| e_name := 1; e_words := 2; e_calls := []; e_acts := []; e_pass := []; e_excl := []; e_params := [PObj; PPrim]; e_rets := [] |}] []].
(* A: E: return ok<:Foo *)
Definition m_ret_nospace : module :=
  [ap 1 [{| e_name := 1; e_words := 1; e_calls := []; e_acts := []; e_pass := []; e_excl := []; e_params := []; e_rets := [(false, false); (true, true)] |}] []].

Definition no_ints_target : guards :=
  {| g_ints_target := false; g_ints_disc := d_in_progress; g_dm_path := true; g_swagger_rest := true; g_sw_param_schema := true; g_oa3_ret_split := true; g_db_path := true; g_db_writer_path := true; g_db_progress := true; g_mseq_err := true; g_mseq_disc := d_persistent; g_mint_app := true; g_mint_disc := d_persistent; g_render_recover := true; g_sd_target := true; g_sd_disc := d_in_progress; g_delta_relation := true; g_coldef_ref := true; g_coldef_auto := true; g_coldef_plain := true; g_delta_trim := false; g_db_short_done := true; g_coldef_fk_only := true; g_oa3_nested_rets := true; g_tmpl_app := true; g_rig_nilapp := true |}.
Definition no_ints_walk : guards :=
  {| g_ints_target := true; g_ints_disc := d_untested; g_dm_path := true; g_swagger_rest := true; g_sw_param_schema := true; g_oa3_ret_split := true; g_db_path := true; g_db_writer_path := true; g_db_progress := true; g_mseq_err := true; g_mseq_disc := d_persistent; g_mint_app := true; g_mint_disc := d_persistent; g_render_recover := true; g_sd_target := true; g_sd_disc := d_in_progress; g_delta_relation := true; g_coldef_ref := true; g_coldef_auto := true; g_coldef_plain := true; g_delta_trim := false; g_db_short_done := true; g_coldef_fk_only := true; g_oa3_nested_rets := true; g_tmpl_app := true; g_rig_nilapp := true |}.
Definition ints_cut_unmarks : guards :=
  {| g_ints_target := true; g_ints_disc := d_cut_unmarks; g_dm_path := true; g_swagger_rest := true; g_sw_param_schema := true; g_oa3_ret_split := true; g_db_path := true; g_db_writer_path := true; g_db_progress := true; g_mseq_err := true; g_mseq_disc := d_persistent; g_mint_app := true; g_mint_disc := d_persistent; g_render_recover := true; g_sd_target := true; g_sd_disc := d_in_progress; g_delta_relation := true; g_coldef_ref := true; g_coldef_auto := true; g_coldef_plain := true; g_delta_trim := false; g_db_short_done := true; g_coldef_fk_only := true; g_oa3_nested_rets := true; g_tmpl_app := true; g_rig_nilapp := true |}.
Definition sd_cut_unmarks : guards :=
  {| g_ints_target := true; g_ints_disc := d_in_progress; g_dm_path := true; g_swagger_rest := true; g_sw_param_schema := true; g_oa3_ret_split := true; g_db_path := true; g_db_writer_path := true; g_db_progress := true; g_mseq_err := true; g_mseq_disc := d_persistent; g_mint_app := true; g_mint_disc := d_persistent; g_render_recover := true; g_sd_target := true; g_sd_disc := d_cut_unmarks; g_delta_relation := true; g_coldef_ref := true; g_coldef_auto := true; g_coldef_plain := true; g_delta_trim := false; g_db_short_done := true; g_coldef_fk_only := true; g_oa3_nested_rets := true; g_tmpl_app := true; g_rig_nilapp := true |}.
Definition mseq_cut_unmarks : guards :=
  {| g_ints_target := true; g_ints_disc := d_in_progress; g_dm_path := true; g_swagger_rest := true; g_sw_param_schema := true; g_oa3_ret_split := true; g_db_path := true; g_db_writer_path := true; g_db_progress := true; g_mseq_err := true; g_mseq_disc := d_cut_unmarks; g_mint_app := true; g_mint_disc := d_persistent; g_render_recover := true; g_sd_target := true; g_sd_disc := d_in_progress; g_delta_relation := true; g_coldef_ref := true; g_coldef_auto := true; g_coldef_plain := true; g_delta_trim := false; g_db_short_done := true; g_coldef_fk_only := true; g_oa3_nested_rets := true; g_tmpl_app := true; g_rig_nilapp := true |}.
Definition mint_cut_unmarks : guards :=
  {| g_ints_target := true; g_ints_disc := d_in_progress; g_dm_path := true; g_swagger_rest := true; g_sw_param_schema := true; g_oa3_ret_split := true; g_db_path := true; g_db_writer_path := true; g_db_progress := true; g_mseq_err := true; g_mseq_disc := d_persistent; g_mint_app := true; g_mint_disc := d_cut_unmarks; g_render_recover := true; g_sd_target := true; g_sd_disc := d_in_progress; g_delta_relation := true; g_coldef_ref := true; g_coldef_auto := true; g_coldef_plain := true; g_delta_trim := false; g_db_short_done := true; g_coldef_fk_only := true; g_oa3_nested_rets := true; g_tmpl_app := true; g_rig_nilapp := true |}.
Definition no_dm_path : guards :=
  {| g_ints_target := true; g_ints_disc := d_in_progress; g_dm_path := false; g_swagger_rest := true; g_sw_param_schema := true; g_oa3_ret_split := true; g_db_path := true; g_db_writer_path := true; g_db_progress := true; g_mseq_err := true; g_mseq_disc := d_persistent; g_mint_app := true; g_mint_disc := d_persistent; g_render_recover := true; g_sd_target := true; g_sd_disc := d_in_progress; g_delta_relation := true; g_coldef_ref := true; g_coldef_auto := true; g_coldef_plain := true; g_delta_trim := false; g_db_short_done := true; g_coldef_fk_only := true; g_oa3_nested_rets := true; g_tmpl_app := true; g_rig_nilapp := true |}.
Definition no_swagger_rest : guards :=
  {| g_ints_target := true; g_ints_disc := d_in_progress; g_dm_path := true; g_swagger_rest := false; g_sw_param_schema := true; g_oa3_ret_split := true; g_db_path := true; g_db_writer_path := true; g_db_progress := true; g_mseq_err := true; g_mseq_disc := d_persistent; g_mint_app := true; g_mint_disc := d_persistent; g_render_recover := true; g_sd_target := true; g_sd_disc := d_in_progress; g_delta_relation := true; g_coldef_ref := true; g_coldef_auto := true; g_coldef_plain := true; g_delta_trim := false; g_db_short_done := true; g_coldef_fk_only := true; g_oa3_nested_rets := true; g_tmpl_app := true; g_rig_nilapp := true |}.
Definition no_sw_param_schema : guards :=
  {| g_ints_target := true; g_ints_disc := d_in_progress; g_dm_path := true; g_swagger_rest := true; g_sw_param_schema := false; g_oa3_ret_split := true; g_db_path := true; g_db_writer_path := true; g_db_progress := true; g_mseq_err := true; g_mseq_disc := d_persistent; g_mint_app := true; g_mint_disc := d_persistent; g_render_recover := true; g_sd_target := true; g_sd_disc := d_in_progress; g_delta_relation := true; g_coldef_ref := true; g_coldef_auto := true; g_coldef_plain := true; g_delta_trim := false; g_db_short_done := true; g_coldef_fk_only := true; g_oa3_nested_rets := true; g_tmpl_app := true; g_rig_nilapp := true |}.
Definition no_oa3_ret_split : guards :=
  {| g_ints_target := true; g_ints_disc := d_in_progress; g_dm_path := true; g_swagger_rest := true; g_sw_param_schema := true; g_oa3_ret_split := false; g_db_path := true; g_db_writer_path := true; g_db_progress := true; g_mseq_err := true; g_mseq_disc := d_persistent; g_mint_app := true; g_mint_disc := d_persistent; g_render_recover := true; g_sd_target := true; g_sd_disc := d_in_progress; g_delta_relation := true; g_coldef_ref := true; g_coldef_auto := true; g_coldef_plain := true; g_delta_trim := false; g_db_short_done := true; g_coldef_fk_only := true; g_oa3_nested_rets := true; g_tmpl_app := true; g_rig_nilapp := true |}.
Definition no_db_path : guards :=
  {| g_ints_target := true; g_ints_disc := d_in_progress; g_dm_path := true; g_swagger_rest := true; g_sw_param_schema := true; g_oa3_ret_split := true; g_db_path := false; g_db_writer_path := true; g_db_progress := true; g_mseq_err := true; g_mseq_disc := d_persistent; g_mint_app := true; g_mint_disc := d_persistent; g_render_recover := true; g_sd_target := true; g_sd_disc := d_in_progress; g_delta_relation := true; g_coldef_ref := true; g_coldef_auto := true; g_coldef_plain := true; g_delta_trim := false; g_db_short_done := true; g_coldef_fk_only := true; g_oa3_nested_rets := true; g_tmpl_app := true; g_rig_nilapp := true |}.
Definition no_db_writer_path : guards :=
  {| g_ints_target := true; g_ints_disc := d_in_progress; g_dm_path := true; g_swagger_rest := true; g_sw_param_schema := true; g_oa3_ret_split := true; g_db_path := true; g_db_writer_path := false; g_db_progress := true; g_mseq_err := true; g_mseq_disc := d_persistent; g_mint_app := true; g_mint_disc := d_persistent; g_render_recover := true; g_sd_target := true; g_sd_disc := d_in_progress; g_delta_relation := true; g_coldef_ref := true; g_coldef_auto := true; g_coldef_plain := true; g_delta_trim := false; g_db_short_done := true; g_coldef_fk_only := true; g_oa3_nested_rets := true; g_tmpl_app := true; g_rig_nilapp := true |}.
Definition no_db_progress : guards :=
  {| g_ints_target := true; g_ints_disc := d_in_progress; g_dm_path := true; g_swagger_rest := true; g_sw_param_schema := true; g_oa3_ret_split := true; g_db_path := true; g_db_writer_path := true; g_db_progress := false; g_mseq_err := true; g_mseq_disc := d_persistent; g_mint_app := true; g_mint_disc := d_persistent; g_render_recover := true; g_sd_target := true; g_sd_disc := d_in_progress; g_delta_relation := true; g_coldef_ref := true; g_coldef_auto := true; g_coldef_plain := true; g_delta_trim := false; g_db_short_done := true; g_coldef_fk_only := true; g_oa3_nested_rets := true; g_tmpl_app := true; g_rig_nilapp := true |}.
Definition no_mseq_err : guards :=
  {| g_ints_target := true; g_ints_disc := d_in_progress; g_dm_path := true; g_swagger_rest := true; g_sw_param_schema := true; g_oa3_ret_split := true; g_db_path := true; g_db_writer_path := true; g_db_progress := true; g_mseq_err := false; g_mseq_disc := d_persistent; g_mint_app := true; g_mint_disc := d_persistent; g_render_recover := true; g_sd_target := true; g_sd_disc := d_in_progress; g_delta_relation := true; g_coldef_ref := true; g_coldef_auto := true; g_coldef_plain := true; g_delta_trim := false; g_db_short_done := true; g_coldef_fk_only := true; g_oa3_nested_rets := true; g_tmpl_app := true; g_rig_nilapp := true |}.
Definition no_mint_app : guards :=
  {| g_ints_target := true; g_ints_disc := d_in_progress; g_dm_path := true; g_swagger_rest := true; g_sw_param_schema := true; g_oa3_ret_split := true; g_db_path := true; g_db_writer_path := true; g_db_progress := true; g_mseq_err := true; g_mseq_disc := d_persistent; g_mint_app := false; g_mint_disc := d_persistent; g_render_recover := true; g_sd_target := true; g_sd_disc := d_in_progress; g_delta_relation := true; g_coldef_ref := true; g_coldef_auto := true; g_coldef_plain := true; g_delta_trim := false; g_db_short_done := true; g_coldef_fk_only := true; g_oa3_nested_rets := true; g_tmpl_app := true; g_rig_nilapp := true |}.
Definition no_render_recover : guards :=
  {| g_ints_target := true; g_ints_disc := d_in_progress; g_dm_path := true; g_swagger_rest := true; g_sw_param_schema := true; g_oa3_ret_split := true; g_db_path := true; g_db_writer_path := true; g_db_progress := true; g_mseq_err := true; g_mseq_disc := d_persistent; g_mint_app := true; g_mint_disc := d_persistent; g_render_recover := false; g_sd_target := true; g_sd_disc := d_in_progress; g_delta_relation := true; g_coldef_ref := true; g_coldef_auto := true; g_coldef_plain := true; g_delta_trim := false; g_db_short_done := true; g_coldef_fk_only := true; g_oa3_nested_rets := true; g_tmpl_app := true; g_rig_nilapp := true |}.
Definition no_sd_target : guards :=
  {| g_ints_target := true; g_ints_disc := d_in_progress; g_dm_path := true; g_swagger_rest := true; g_sw_param_schema := true; g_oa3_ret_split := true; g_db_path := true; g_db_writer_path := true; g_db_progress := true; g_mseq_err := true; g_mseq_disc := d_persistent; g_mint_app := true; g_mint_disc := d_persistent; g_render_recover := true; g_sd_target := false; g_sd_disc := d_in_progress; g_delta_relation := true; g_coldef_ref := true; g_coldef_auto := true; g_coldef_plain := true; g_delta_trim := false; g_db_short_done := true; g_coldef_fk_only := true; g_oa3_nested_rets := true; g_tmpl_app := true; g_rig_nilapp := true |}.
Definition no_delta_relation : guards :=
  {| g_ints_target := true; g_ints_disc := d_in_progress; g_dm_path := true; g_swagger_rest := true; g_sw_param_schema := true; g_oa3_ret_split := true; g_db_path := true; g_db_writer_path := true; g_db_progress := true; g_mseq_err := true; g_mseq_disc := d_persistent; g_mint_app := true; g_mint_disc := d_persistent; g_render_recover := true; g_sd_target := true; g_sd_disc := d_in_progress; g_delta_relation := false; g_coldef_ref := true; g_coldef_auto := true; g_coldef_plain := true; g_delta_trim := false; g_db_short_done := true; g_coldef_fk_only := true; g_oa3_nested_rets := true; g_tmpl_app := true; g_rig_nilapp := true |}.
Definition no_coldef_plain : guards :=
  {| g_ints_target := true; g_ints_disc := d_in_progress; g_dm_path := true; g_swagger_rest := true; g_sw_param_schema := true; g_oa3_ret_split := true; g_db_path := true; g_db_writer_path := true; g_db_progress := true; g_mseq_err := true; g_mseq_disc := d_persistent; g_mint_app := true; g_mint_disc := d_persistent; g_render_recover := true; g_sd_target := true; g_sd_disc := d_in_progress; g_delta_relation := true; g_coldef_ref := true; g_coldef_auto := true; g_coldef_plain := false; g_delta_trim := false; g_db_short_done := true; g_coldef_fk_only := true; g_oa3_nested_rets := true; g_tmpl_app := true; g_rig_nilapp := true |}.
Definition no_tmpl_app : guards :=
  {| g_ints_target := true; g_ints_disc := d_in_progress; g_dm_path := true; g_swagger_rest := true; g_sw_param_schema := true; g_oa3_ret_split := true; g_db_path := true; g_db_writer_path := true; g_db_progress := true; g_mseq_err := true; g_mseq_disc := d_persistent; g_mint_app := true; g_mint_disc := d_persistent; g_render_recover := true; g_sd_target := true; g_sd_disc := d_in_progress; g_delta_relation := true; g_coldef_ref := true; g_coldef_auto := true; g_coldef_plain := true; g_delta_trim := false; g_db_short_done := true; g_coldef_fk_only := true; g_oa3_nested_rets := true; g_tmpl_app := false; g_rig_nilapp := true |}.
Definition no_rig_nilapp : guards :=
  {| g_ints_target := true; g_ints_disc := d_in_progress; g_dm_path := true; g_swagger_rest := true; g_sw_param_schema := true; g_oa3_ret_split := true; g_db_path := true; g_db_writer_path := true; g_db_progress := true; g_mseq_err := true; g_mseq_disc := d_persistent; g_mint_app := true; g_mint_disc := d_persistent; g_render_recover := true; g_sd_target := true; g_sd_disc := d_in_progress; g_delta_relation := true; g_coldef_ref := true; g_coldef_auto := true; g_coldef_plain := true; g_delta_trim := false; g_db_short_done := true; g_coldef_fk_only := true; g_oa3_nested_rets := true; g_tmpl_app := true; g_rig_nilapp := false |}.

Theorem ints_target_refuted : run no_ints_target m_dangling_app true (fuel_bound m_dangling_app) (CInts 9 []) = Panic SIntsTarget.
Proof. vm_compute. reflexivity. Qed.
Theorem dm_path_refuted : run no_dm_path m_short_ref true (fuel_bound m_short_ref) (CDmDirect true) = Panic SDmPath.
Proof. vm_compute. reflexivity. Qed.
Theorem swagger_rest_refuted : run no_swagger_rest m_rpc true (fuel_bound m_rpc) (CSwagger None) = Panic SSwaggerSplit.
Proof. vm_compute. reflexivity. Qed.
Theorem sw_param_schema_refuted : run no_sw_param_schema m_ref_param true (fuel_bound m_ref_param) (CSwagger None) = Panic SSwaggerParam.
Proof. vm_compute. reflexivity. Qed.
Theorem oa3_ret_split_refuted : run no_oa3_ret_split m_ret_nospace true (fuel_bound m_ret_nospace) (COpenapi3 (Some 1)) = Panic SOa3RetSplit.
Proof. vm_compute. reflexivity. Qed.
Theorem db_path_refuted : run no_db_path m_short_ref true (fuel_bound m_short_ref) (CDbCreate [1]) = Panic SDbPath.
Proof. vm_compute. reflexivity. Qed.
Theorem db_writer_path_refuted : run no_db_writer_path m_short_ref true (fuel_bound m_short_ref) (CDbCreate [1]) = Panic SDbWriterPath.
Proof. vm_compute. reflexivity. Qed.
Theorem mseq_err_refuted : run no_mseq_err m_dangling_app true (fuel_bound m_dangling_app) (CMSeq 1 1) = Panic SMSeqErr
                        /\ run no_mseq_err m_dangling_ep true (fuel_bound m_dangling_ep) (CMSeq 1 1) = Panic SMSeqErr.
Proof. split; vm_compute; reflexivity. Qed.
Theorem mint_app_refuted : run no_mint_app m_dangling_app true (fuel_bound m_dangling_app) (CMInt None) = Panic SMIntApp
                        /\ run no_mint_app m_dangling_app true (fuel_bound m_dangling_app) (CMInt (Some 1)) = Panic SMIntApp.
Proof. split; vm_compute; reflexivity. Qed.
(* no browser installed: every diagram whose generator succeeds dies in the renderer *)
Theorem render_recover_refuted : run no_render_recover m_rpc false (fuel_bound m_rpc) (CMInt None) = Panic SRender.
Proof. vm_compute. reflexivity. Qed.
(* with all guards the same inputs end in Ok or Err (instances of cmd_total, by computation) *)
Example guarded_on_witnesses :
  map (fun mc => fine (run guarded (fst mc) false (fuel_bound (fst mc)) (snd mc)))
      [(m_dangling_app, CInts 9 []); (m_short_ref, CDmDirect true); (m_rpc, CSwagger None); (m_short_ref, CDbCreate [1]);
       (m_dangling_app, CMSeq 1 1); (m_dangling_ep, CMSeq 1 1); (m_dangling_app, CMInt None); (m_rpc, CMInt None);
       (m_self_fk, CDbCreate [1]); (m_pass_cycle, CInts 9 []); (m_ref_param, CSwagger None); (m_ret_nospace, COpenapi3 (Some 1));
       (m_pass_loop2, CInts 9 []); (m_self_loop2, CSd 1 1); (m_self_loop2, CMSeq 1 1); (m_self_loop2, CMInt None); (m_dangling_app, CSd 1 1);
       (m_delta_new, CDbDelta m_delta_old [1]); (m_delta_new_type, CDbDelta m_delta_old [1]);
       (m_rpc, CTemplate [7] false); (m_rpc, CTemplate [] true); (m_rpc, CTestRig [1; 7])]
  = [true; true; true; true; true; true; true; true; true; true; true; true; true; true; true; true; true; true; true; true; true; true].
Proof. vm_compute. reflexivity. Qed.

(* a self-referential foreign key: without the progress test every pass leaves the table incomplete *)
Theorem db_progress_refuted : forall fuel rend, run no_db_progress m_self_fk rend fuel (CDbCreate [1]) = OutOfFuel.
Proof.
  intros fuel rend. cbn [run].
  set (T := tb 1 [col 1; fk 2 [1; 1]]).
  assert (Hp : db_pass no_db_progress [T] [] = (Ok, [], [T], false)) by reflexivity.
  assert (H : forall f, db_order no_db_progress f [T] [] = OutOfFuel).
  { induction f as [|f IH]; [reflexivity|]. cbn [db_order]. rewrite Hp. cbn [g_db_progress no_db_progress andb]. exact IH. }
  unfold db_create. cbn [map]. change (find_app m_self_fk 1) with (Some (ap 1 [] [T])).
  unfold db_app. change (a_types (ap 1 [] [T])) with [T]. rewrite H. reflexivity.
Qed.

(* a pass-through endpoint that calls itself: without the visited set WalkPassthrough never returns *)
Theorem ints_walk_refuted : forall fuel rend, run no_ints_walk m_pass_cycle rend fuel (CInts 9 []) = OutOfFuel.
Proof.
  intros fuel rend. cbn [run].
  set (v := view 5 [1] [2]).
  assert (Hi : ints no_ints_walk m_pass_cycle fuel 9 [] = ints_view no_ints_walk m_pass_cycle fuel [9] v).
  { unfold ints. change (find_app m_pass_cycle 9) with (Some (ap 9 [v] [])). cbn [a_eps ap map first_bad].
    destruct (ints_view no_ints_walk m_pass_cycle fuel [9] v); reflexivity. }
  rewrite Hi. unfold ints_view. cbn [g_ints_disc no_ints_walk].
  set (ex := ints_expand no_ints_walk m_pass_cycle ([9] ++ e_excl v) (e_pass v) v).
  assert (Hn : ex (Some (2, 2)) = (Ok, [(Ok, Some ((2, 2), Some (2, 2)))])) by reflexivity.
  assert (Hr : ex None = (Ok, [(Ok, Some ((2, 2), Some (2, 2)))])) by reflexivity.
  assert (L : forall f vis, fst (walk pair_eqb ex Err d_untested f (Some (2, 2)) vis) = OutOfFuel).
  { induction f as [|f IH]; intros vis; [reflexivity|]. cbn [walk]. rewrite Hn. cbn [go andb d_untested d_test d_mark d_unmark].
    specialize (IH ((2, 2) :: vis)). destruct (walk pair_eqb ex Err d_untested f (Some (2, 2)) ((2, 2) :: vis)) as [o v2].
    cbn [fst] in IH. subst o. reflexivity. }
  destruct fuel as [|f]; [reflexivity|]. cbn [walk]. rewrite Hr. cbn [go andb d_untested d_test d_mark d_unmark].
  specialize (L f [(2, 2)]). destruct (walk pair_eqb ex Err d_untested f (Some (2, 2)) [(2, 2)]) as [o v2]. cbn [fst] in L. subst o. reflexivity.
Qed.

(* ---- un-marking on a cut re-entry (Walk.d_cut_unmarks) loses termination in every generator that walks call edges:
        an endpoint that calls itself TWICE (`if`/`else`, a retry) is enough ---- *)

Theorem ints_cut_unmark_refuted : forall fuel rend, run ints_cut_unmarks m_pass_loop2 rend fuel (CInts 9 []) = OutOfFuel.
Proof.
  intros fuel rend. cbn [run].
  set (v := view 5 [1] [2]).
  assert (Hi : ints ints_cut_unmarks m_pass_loop2 fuel 9 [] = ints_view ints_cut_unmarks m_pass_loop2 fuel [9] v).
  { unfold ints. change (find_app m_pass_loop2 9) with (Some (ap 9 [v] [])). cbn [a_eps ap map first_bad].
    destruct (ints_view ints_cut_unmarks m_pass_loop2 fuel [9] v); reflexivity. }
  rewrite Hi. unfold ints_view. cbn [g_ints_disc ints_cut_unmarks].
  set (ex := ints_expand ints_cut_unmarks m_pass_loop2 ([9] ++ e_excl v) (e_pass v) v).
  assert (Hn : ex (Some (2, 2)) = (Ok, [(Ok, Some ((2, 2), Some (2, 2))); (Ok, Some ((2, 2), Some (2, 2)))])) by reflexivity.
  assert (Hr : ex None = (Ok, [(Ok, Some ((2, 2), Some (2, 2)))])) by reflexivity.
  assert (L : forall f, fst (walk pair_eqb ex Err d_cut_unmarks f (Some (2, 2)) [(2, 2)]) = OutOfFuel).
  { induction f as [|f IH]; [reflexivity|]. cbn [walk]. rewrite Hn. cbn [go d_cut_unmarks d_test d_mark d_unmark].
    change (memk pair_eqb (2, 2) [(2, 2)]) with true. cbn [andb].
    change (removek pair_eqb (2, 2) [(2, 2)]) with (@nil (N * N)).
    change (memk pair_eqb (2, 2) []) with false. cbn [andb].
    destruct (walk pair_eqb ex Err d_cut_unmarks f (Some (2, 2)) [(2, 2)]) as [o v2]. cbn [fst] in IH. subst o. reflexivity. }
  destruct fuel as [|f]; [reflexivity|]. cbn [walk]. rewrite Hr. cbn [go d_cut_unmarks d_test d_mark d_unmark].
  change (memk pair_eqb (2, 2) []) with false. cbn [andb].
  specialize (L f). destruct (walk pair_eqb ex Err d_cut_unmarks f (Some (2, 2)) [(2, 2)]) as [o v2]. cbn [fst] in L. subst o. reflexivity.
Qed.

Theorem sd_cut_unmark_refuted : forall fuel rend, run sd_cut_unmarks m_self_loop2 rend fuel (CSd 1 1) = OutOfFuel.
Proof.
  intros fuel rend. cbn [run]. unfold sd.
  change (find_app m_self_loop2 1) with (Some (ap 1 [ep 1 1 [cl 1 1; cl 1 1]] [])).
  change (find_ep (ap 1 [ep 1 1 [cl 1 1; cl 1 1]] []) 1) with (Some (ep 1 1 [cl 1 1; cl 1 1])).
  cbn [g_sd_disc sd_cut_unmarks].
  set (ex := sd_expand sd_cut_unmarks m_self_loop2 (1, 1)).
  assert (Hn : ex (Some (1, 1)) = (Ok, [(Ok, Some ((1, 1), Some (1, 1))); (Ok, Some ((1, 1), Some (1, 1)))])) by reflexivity.
  assert (Hr : ex None = (Ok, [(Ok, Some ((1, 1), Some (1, 1)))])) by reflexivity.
  assert (L : forall f, fst (walk pair_eqb ex Err d_cut_unmarks f (Some (1, 1)) [(1, 1)]) = OutOfFuel).
  { induction f as [|f IH]; [reflexivity|]. cbn [walk]. rewrite Hn. cbn [go d_cut_unmarks d_test d_mark d_unmark].
    change (memk pair_eqb (1, 1) [(1, 1)]) with true. cbn [andb].
    change (removek pair_eqb (1, 1) [(1, 1)]) with (@nil (N * N)).
    change (memk pair_eqb (1, 1) []) with false. cbn [andb].
    destruct (walk pair_eqb ex Err d_cut_unmarks f (Some (1, 1)) [(1, 1)]) as [o v2]. cbn [fst] in IH. subst o. reflexivity. }
  cbn [walk]. rewrite Hr. cbn [go d_cut_unmarks d_test d_mark d_unmark].
  change (memk pair_eqb (1, 1) []) with false. cbn [andb].
  specialize (L fuel). destruct (walk pair_eqb ex Err d_cut_unmarks fuel (Some (1, 1)) [(1, 1)]) as [o v2]. cbn [fst] in L. subst o. reflexivity.
Qed.

(* the mermaid sequence generator does not record the start endpoint: the first self call is entered, the rest is the same *)
Theorem mseq_cut_unmark_refuted : forall fuel rend, run mseq_cut_unmarks m_self_loop2 rend fuel (CMSeq 1 1) = OutOfFuel.
Proof.
  intros fuel rend. cbn [run]. unfold mseq. cbn [g_mseq_disc mseq_cut_unmarks].
  set (ex := mseq_expand m_self_loop2). set (oe := mseq_onerr mseq_cut_unmarks).
  assert (Hn : ex (1, 1) = (Ok, [(Ok, Some ((1, 1), (1, 1))); (Ok, Some ((1, 1), (1, 1)))])) by reflexivity.
  assert (L : forall f, fst (walk pair_eqb ex oe d_cut_unmarks f (1, 1) [(1, 1)]) = OutOfFuel).
  { induction f as [|f IH]; [reflexivity|]. cbn [walk]. rewrite Hn. cbn [go d_cut_unmarks d_test d_mark d_unmark].
    change (memk pair_eqb (1, 1) [(1, 1)]) with true. cbn [andb].
    change (removek pair_eqb (1, 1) [(1, 1)]) with (@nil (N * N)).
    change (memk pair_eqb (1, 1) []) with false. cbn [andb].
    destruct (walk pair_eqb ex oe d_cut_unmarks f (1, 1) [(1, 1)]) as [o v2]. cbn [fst] in IH. subst o. reflexivity. }
  assert (R : fst (walk pair_eqb ex oe d_cut_unmarks fuel (1, 1) []) = OutOfFuel).
  { destruct fuel as [|f]; [reflexivity|]. cbn [walk]. rewrite Hn. cbn [go d_cut_unmarks d_test d_mark d_unmark].
    change (memk pair_eqb (1, 1) []) with false. cbn [andb].
    specialize (L f). destruct (walk pair_eqb ex oe d_cut_unmarks f (1, 1) [(1, 1)]) as [o v2]. cbn [fst] in L. subst o. reflexivity. }
  rewrite R. reflexivity.
Qed.

Theorem sd_target_refuted : run no_sd_target m_dangling_app true (fuel_bound m_dangling_app) (CSd 1 1) = Panic SSdTarget.
Proof. vm_compute. reflexivity. Qed.
(* the new version holds a non-table type next to the retained table *)
Theorem delta_relation_refuted :
  run no_delta_relation m_delta_new_type true (fuel_bound m_delta_new_type + cmd_extra (CDbDelta m_delta_old [1])) (CDbDelta m_delta_old [1]) = Panic SDeltaRelation.
Proof. vm_compute. reflexivity. Qed.
(* a column writer that returns an empty definition for a set-typed column + the unguarded str[:len(str)-1] *)
Theorem delta_trim_refuted :
  run no_coldef_plain m_delta_new true (fuel_bound m_delta_new + cmd_extra (CDbDelta m_delta_old [1])) (CDbDelta m_delta_old [1]) = Panic SDeltaTrim.
Proof. vm_compute. reflexivity. Qed.

Theorem mint_cut_unmark_refuted : forall fuel rend, run mint_cut_unmarks m_self_loop2 rend fuel (CMInt (Some 1)) = OutOfFuel.
Proof.
  intros fuel rend. cbn [run]. unfold mint.
  change (find_app m_self_loop2 1) with (Some (ap 1 [ep 1 1 [cl 1 1; cl 1 1]] [])).
  cbn [g_mint_disc mint_cut_unmarks].
  set (ex := mint_expand mint_cut_unmarks m_self_loop2).
  assert (Hn : ex (Some 1) = (Ok, [(Ok, Some ((1, 1), Some 1)); (Ok, Some ((1, 1), Some 1))])) by reflexivity.
  assert (L : forall f, fst (walk pair_eqb ex Err d_cut_unmarks f (Some 1) [(1, 1)]) = OutOfFuel).
  { induction f as [|f IH]; [reflexivity|]. cbn [walk]. rewrite Hn. cbn [go d_cut_unmarks d_test d_mark d_unmark].
    change (memk pair_eqb (1, 1) [(1, 1)]) with true. cbn [andb].
    change (removek pair_eqb (1, 1) [(1, 1)]) with (@nil (N * N)).
    change (memk pair_eqb (1, 1) []) with false. cbn [andb].
    destruct (walk pair_eqb ex Err d_cut_unmarks f (Some 1) [(1, 1)]) as [o v2]. cbn [fst] in IH. subst o. reflexivity. }
  assert (R : fst (walk pair_eqb ex Err d_cut_unmarks fuel (Some 1) []) = OutOfFuel).
  { destruct fuel as [|f]; [reflexivity|]. cbn [walk]. rewrite Hn. cbn [go d_cut_unmarks d_test d_mark d_unmark].
    change (memk pair_eqb (1, 1) []) with false. cbn [andb].
    specialize (L f). destruct (walk pair_eqb ex Err d_cut_unmarks f (Some 1) [(1, 1)]) as [o v2]. cbn [fst] in L. subst o. reflexivity. }
  rewrite R. reflexivity.
Qed.

(* template with an --app-name the model does not define, and with no --app-name at all; test-rig with a service that
   names no application *)
Theorem template_app_refuted : run no_tmpl_app m_rpc true (fuel_bound m_rpc) (CTemplate [7] false) = Panic STemplateApp
                            /\ run no_tmpl_app m_rpc true (fuel_bound m_rpc) (CTemplate [] true) = Panic STemplateApp.
Proof. split; vm_compute; reflexivity. Qed.
Theorem rig_app_refuted : run no_rig_nilapp m_rpc true (fuel_bound m_rpc) (CTestRig [1; 7]) = Panic SRigApp.
Proof. vm_compute. reflexivity. Qed.
