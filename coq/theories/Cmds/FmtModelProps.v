(* C20: theorems about format strings taken from the model (Cmds/FmtModel.v).
   expansions_d_eager   : the eager discipline IS C13's Seq.Fmt.expansions, so its theorems apply
   fmt_cmd_total        : eager parser + Check + the command checks every parser first  ->  for EVERY format strings, pattern
                          table and value maps the command ends in Ok or Err (full)
   lazy_check_refuted   : with the lazy compilation a string passes Check and panics at the first non-empty value
   unchecked_refuted    : without the up-front check a malformed attribute panics in the middle of the generation
 *)
From Coq Require Import String Ascii List NArith Bool Arith.
Import ListNotations.
Require Import Verif.Seq.Fmt Verif.Seq.FmtProps Verif.Cmds.Walk Verif.Cmds.FmtModel.
Local Open Scope string_scope.
Local Open Scope list_scope.

Section Eager.
  Variable rx : string -> option (string -> bool).

  Lemma search_d_eager v x : search_stage_d false rx v x = search_stage rx v x.
  Proof. destruct x as [sa fl]. reflexivity. Qed.
  Lemma pre_d_eager v s : pre_stage_d false rx v s = pre_stage rx v s.
  Proof. unfold pre_stage_d, pre_stage. destruct (cond_stage v s) as [x|k|]; [apply search_d_eager|reflexivity|reflexivity]. Qed.

  Lemma expansions_d_eager : forall fuel r A res s, expansions_d false rx fuel r A res s = expansions rx fuel r A res s.
  Proof.
    (* the two fixpoints have convertible bodies: `false && _` reduces, the rest is the same text *)
    induction fuel as [|f IH]; intros r A res s; [reflexivity|].
    cbn [expansions_d expansions].
    destruct (head_stage r res s) as [|s2 res1|s5 var res1|]; reflexivity.
  Qed.

  Lemma parse_d_eager self A : parse_d false rx self A = parse rx self A.
  Proof. unfold parse_d, parse. rewrite expansions_d_eager. reflexivity. Qed.
  Lemma check_d_eager self : check_d false rx self = format_ok rx self.
  Proof. unfold check_d, format_ok. rewrite parse_d_eager. reflexivity. Qed.

  (* Check decides for all value maps (C13's fmt_checked_never_panics, for the parser this model is parameterised by) *)
  Lemma checked_use_ok self A : check_d false rx self = true -> out_of (parse_d false rx self A) = Ok.
  Proof.
    intros H. rewrite check_d_eager in H. rewrite parse_d_eager.
    destruct (fmt_checked_never_panics rx self H A) as [l ->]. reflexivity.
  Qed.
End Eager.

Lemma first_bad_o_all_ok os : Forall (fun o => o = Ok) os -> first_bad_o os = Ok.
Proof. induction 1 as [|o r -> _ IH]; [reflexivity|exact IH]. Qed.

(* FULL: a command that tries every format string with Check first, over an eager parser, ends in output or in an error
   whatever the format strings, the patterns' compilability and the values are *)
Theorem fmt_cmd_total g : fmt_guarded g = true ->
  forall u rx fmts uses, fine (fmt_cmd g u rx fmts uses) = true.
Proof.
  unfold fmt_guarded. intros G u rx fmts uses.
  apply andb_true_iff in G. destruct G as [G Gi]. apply andb_true_iff in G. destruct G as [G Gs].
  apply andb_true_iff in G. destruct G as [Ge Gc].
  unfold fmt_cmd, checked_by. rewrite Ge, Gc. cbn [negb andb].
  assert (Hc : (match u with FSd => g_sd_fmt_checked g | FInts => g_ints_fmt_checked g end) = true) by (destruct u; assumption).
  rewrite Hc. cbn [andb].
  destruct (forallb (check_d false rx) fmts) eqn:Hall; cbn [negb]; [|reflexivity].
  rewrite forallb_forall in Hall.
  rewrite first_bad_o_all_ok; [reflexivity|].
  apply Forall_forall. intros o Ho. apply in_map_iff in Ho. destruct Ho as (A & <- & _).
  apply first_bad_o_all_ok. apply Forall_forall. intros o Ho. apply in_map_iff in Ho. destruct Ho as (f & <- & Hf).
  apply checked_use_ok, Hall, Hf.
Qed.

(* the hypotheses are met by a non-trivial input: three formats with every expansion form, one pattern that compiles, a
   call that carries the searched attribute and one that does not *)
Definition rx_some (ok:list string) : string -> option (string -> bool) :=
  fun p => if existsb (String.eqb p) ok then Some (fun _ => true) else None.
Definition g_all : fguards := {| g_fmt_eager := true; g_fmt_check := true; g_sd_fmt_checked := true; g_ints_fmt_checked := true |}.
Example fmt_cmd_total_example :
  fmt_cmd g_all FSd (rx_some ["^w"]) ["%(epname)"; "%(@owner~/^w/?%(epname) by %(@owner)|%(epname))"; "%(@k=='v'?yes)"]
          [[("epname", "Fetch"); ("@owner", "warehouse")]; [("epname", "Fetch")]] = Ok
  /\ fmt_cmd g_all FSd (rx_some ["^w"]) ["%(@owner~/[a-z/?y|n)"] [[("@owner", "warehouse")]] = Err.
Proof. split; vm_compute; reflexivity. Qed.

(* REFUTED: the lazy compilation. The pattern `(` does not compile; Check (no values) passes; the first call that carries
   the searched attribute panics although the command checked its parsers *)
Definition g_lazy : fguards := {| g_fmt_eager := false; g_fmt_check := true; g_sd_fmt_checked := true; g_ints_fmt_checked := true |}.
Theorem lazy_check_refuted :
  check_d true rx_none "%(@owner~/(/?y|n)" = true
  /\ fmt_cmd g_lazy FSd rx_none ["%(@owner~/(/?y|n)"] [[("@owner", "w")]] = Panic SFmtParse
  /\ fmt_cmd g_lazy FInts rx_none ["%(@owner~/(/?y|n)"] [[("@owner", "w")]] = Panic SFmtParse
  /\ fmt_cmd g_lazy FSd rx_none ["%(@owner~/(/?y|n)"] [[("epname", "Fetch")]] = Ok.     (* ... and not when no call carries it *)
Proof. repeat split; vm_compute; reflexivity. Qed.

(* REFUTED: no up-front check (sd before f09641e, ints before fixes/C20-17) - each of the four panics of the parser *)
Definition g_sd_unchecked : fguards := {| g_fmt_eager := true; g_fmt_check := true; g_sd_fmt_checked := false; g_ints_fmt_checked := true |}.
Definition g_ints_unchecked : fguards := {| g_fmt_eager := true; g_fmt_check := true; g_sd_fmt_checked := true; g_ints_fmt_checked := false |}.
Definition g_no_check : fguards := {| g_fmt_eager := true; g_fmt_check := false; g_sd_fmt_checked := true; g_ints_fmt_checked := true |}.
Theorem unchecked_refuted :
  fmt_cmd g_sd_unchecked FSd rx_none ["%("] [[]] = Panic SFmtParse
  /\ fmt_cmd g_ints_unchecked FInts rx_none ["%(appname"] [[("appname", "A")]] = Panic SFmtParse
  /\ fmt_cmd g_ints_unchecked FInts rx_none ["%(a=='"] [[]] = Panic SFmtParse
  /\ fmt_cmd g_ints_unchecked FInts rx_none ["%(a~/(/)"] [[]] = Panic SFmtParse
  /\ fmt_cmd g_no_check FSd rx_none ["%("] [[]] = Panic SFmtParse
  /\ fmt_cmd g_ints_unchecked FSd rx_none ["%("] [[]] = Err.       (* the other command is unaffected *)
Proof. repeat split; vm_compute; reflexivity. Qed.

