(* C20: the shape shared by the recursive generators (mermaid sequence / integration diagrams, the
   pass-through walk of the integration builder): a depth-first expansion of call edges that carries a
   growing list of visited keys by reference (`*[]sequencePair`, `*[]integrationPair`, `b.walked`).
   Go recursion is modelled with explicit fuel; the termination theorem is in WalkProps.v.
   Definitions only. *)
From Coq Require Import List Bool Arith.
Import ListNotations.

Inductive site :=
| SIntsTarget      (* integrationdiagram.IntsBuilder handlers: Apps[target].Endpoints[...] on an undefined app *)
| SIntsWalk        (* IntsBuilder.WalkPassthrough: no visited set -> unbounded recursion *)
| SDmPath          (* datamodeldiagram.DrawRelation: Path[1] on a one-element reference *)
| SSwaggerSplit    (* exporter.populateEndpoint: strings.Split(name," ")[1] on an RPC endpoint *)
| SSwaggerParam    (* exporter.setCommonAttributes: param.Schema.ExtraProps on a path/query parameter (Schema is nil) *)
| SOa3RetSplit     (* syslwrapper.mapResponse: strings.Split(payload," <: ")[1] on `ok<:T` *)
| SDbPath          (* database.findTableDepth: Path[1] *)
| SDbWriterPath    (* database.writeCreateSQLForAColumn: Path[0]/Path[1] *)
| SDbOrder         (* database.processTableDepth: recursion without progress *)
| SMSeqErr         (* mermaid/sequencediagram: panic(...) on a callee error *)
| SMIntApp         (* mermaid/integrationdiagram: m.Apps[name].Endpoints on an undefined app *)
| SRender.         (* cmd/sysl diagramCmd.Execute: mermaid.Init()/Execute panic (no browser) *)

Inductive outcome := Ok | Err | Panic (s:site) | OutOfFuel.

Definition fine (o:outcome) : bool := match o with Ok | Err => true | _ => false end.

Section Walk.
  Context {node key : Type}.
  Variable keqb : key -> key -> bool.
  (* an edge: the outcome of the per-call work done before recursing, and (key to test/record, callee) *)
  Definition edge := (outcome * option (key * node))%type.
  Variable expand : node -> outcome * list edge.   (* the node's own lookups, then its call edges in order *)
  Variable onerr : outcome.                        (* what the caller makes of a callee that returned an error *)
  Variable check : bool.                           (* is the visited list consulted at all *)
  Variable persist : bool.                         (* true: a key stays recorded for the rest of the run (mermaid pairs);
                                                      false: it is recorded only while its callee is being expanded
                                                      (IntsBuilder.walking: `defer delete(b.walking, key)`) *)

  Definition memk (k:key) (l:list key) : bool := existsb (keqb k) l.

  Fixpoint go (rec : node -> list key -> outcome * list key) (es:list edge) (vis:list key) : outcome * list key :=
    match es with
    | [] => (Ok, vis)
    | (Ok, None) :: r => go rec r vis
    | (Ok, Some (k, n')) :: r =>
        if check && memk k vis then go rec r vis
        else match rec n' (k :: vis) with
             | (Ok, v2) => go rec r (if persist then v2 else vis)
             | (Err, v2) => (onerr, v2)
             | (o, v2) => (o, v2)
             end
    | (o, _) :: _ => (o, vis)
    end.

  Fixpoint walk (fuel:nat) (n:node) (vis:list key) : outcome * list key :=
    match fuel with
    | O => (OutOfFuel, vis)
    | S f => match expand n with
             | (Ok, es) => go (walk f) es vis
             | (o, _) => (o, vis)
             end
    end.
End Walk.
