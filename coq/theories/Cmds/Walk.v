(* C20: the shape shared by the recursive generators (mermaid sequence / integration diagrams, the
   pass-through walk of the integration builder, the PlantUML sequence-diagram visitor): a depth-first
   expansion of call edges that carries a set of visited / in-progress keys by reference
   (`*[]sequencePair`, `*[]integrationPair`, `IntsBuilder.walking`, `SequenceDiagramVisitor.visited`).
   WHEN a key is marked and un-marked relative to the re-entry test is a parameter (`discipline`); what the
   current source does is a Gen fact (Gen/CmdGuards.v). Go recursion is modelled with explicit fuel; the
   termination theorem is in WalkProps.v. Definitions only. *)
From Coq Require Import List Bool Arith.
Import ListNotations.

Inductive site :=
| SIntsTarget      (* integrationdiagram.IntsBuilder handlers: Apps[target].Endpoints[...] on an undefined app *)
| SIntsWalk        (* IntsBuilder.WalkPassthrough: no visited set -> unbounded recursion *)
| SDmPath          (* datamodeldiagram.DrawRelation: Path[1] on a one-element reference *)
| SSwaggerSplit    (* exporter.populateEndpoint: strings.Split(name," ")[1] on an RPC endpoint *)
| SSwaggerParam    (* exporter.setCommonAttributes: param.Schema.ExtraProps on a path/query parameter (Schema is nil) *)
| SOa3RetSplit     (* syslwrapper.mapResponse: strings.Split(payload," <: ")[1] on `ok<:T` *)
| SDbPath          (* database.findTableDepth: Path[1] *)
| SDbWriterPath    (* database.writeCreateSQLForAColumn: Path[0]/Path[1] *)
| SDbOrder         (* database.processTableDepth: recursion without progress *)
| SMSeqErr         (* mermaid/sequencediagram: panic(...) on a callee error *)
| SMIntApp         (* mermaid/integrationdiagram: m.Apps[name].Endpoints on an undefined app *)
| SRender          (* cmd/sysl diagramCmd.Execute: mermaid.Init()/Execute panic (no browser) *)
| SSdTarget        (* cmdutils.SequenceDiagramVisitor.visitEndpoint: panicking application()/endpoint() lookup of a call target *)
| SDeltaRelation   (* database.generateDatabaseScriptModify: GetRelation() of a non-table type handed to the table writers *)
| SDeltaTrim       (* database.writeModifySQLForATable: str[:len(str)-1] on an empty column definition *)
| STemplateApp     (* transforms templated.Apply and semantic.Apply: eval.addAppToValueMap(nil) for an --app-name the model does not define *)
| SRigApp          (* testrig.appNeedsDB: app.Attrs of a service that names no application *)
| SFmtParse        (* cmdutils.FormatParser.Expansions: panic on a format string (taken from the model's attributes) that was not tried first *)
| SNameStack       (* importer.OpenAPI3Importer.popName: o.nameStack[:len-1] on an empty stack (slice bounds out of range [:-1]) *)
| SImpRespField.   (* importer.OpenAPI3Importer.buildResponses: f.Type.Name() on the empty Field returned with an error *)

Inductive outcome := Ok | Err | Panic (s:site) | OutOfFuel.

Definition fine (o:outcome) : bool := match o with Ok | Err => true | _ => false end.

(* The marker discipline of a walk, as read from the source:
   d_test    is the set consulted before an edge's callee is expanded (`if _, active := b.walking[key]; active { return }`,
             `if !sequencePairsContain(..)`, `_, hitVisited := v.visited[visiting]`)
   d_mark    when the key is recorded: never / before the test (every entry then looks like a re-entry) / after the
             test, before the callee's expansion
   d_unmark  when it is removed: never (mermaid pair lists: a key stays for the rest of the run) / after the callee's
             expansion, on the entered path only (`defer delete(b.walking, key)` placed after the test;
             `v.visited[visiting]--` behind `p.Accept(v)`) / on every exit, i.e. also when the re-entry test cut the
             edge (a `defer delete` placed before the test, a delete in the cut branch) *)
Inductive marking := MNever | MBeforeTest | MAfterTest.
Inductive unmarking := UNever | UAfterExpansion | UEveryExit.
Record discipline := { d_test : bool; d_mark : marking; d_unmark : unmarking }.

(* the disciplines that terminate on every graph (WalkProps.walk_fine); un-marking on a cut re-entry does not
   (WalkProps.cut_unmark_refuted) *)
Definition terminating (d:discipline) : bool :=
  d_test d && match d_mark d, d_unmark d with
              | MBeforeTest, _ => true
              | MAfterTest, UNever | MAfterTest, UAfterExpansion => true
              | _, _ => false
              end.

Section Walk.
  Context {node key : Type}.
  Variable keqb : key -> key -> bool.
  (* an edge: the outcome of the per-call work done before recursing, and (key to test/record, callee) *)
  Definition edge := (outcome * option (key * node))%type.
  Variable expand : node -> outcome * list edge.   (* the node's own lookups, then its call edges in order *)
  Variable onerr : outcome.                        (* what the caller makes of a callee that returned an error *)
  Variable d : discipline.

  Definition memk (k:key) (l:list key) : bool := existsb (keqb k) l.
  Definition removek (k:key) (l:list key) : list key := filter (fun x => negb (keqb k x)) l.

  Fixpoint go (rec : node -> list key -> outcome * list key) (es:list edge) (vis:list key) : outcome * list key :=
    match es with
    | [] => (Ok, vis)
    | (Ok, None) :: r => go rec r vis
    | (Ok, Some (k, n')) :: r =>
        let vis0 := match d_mark d with MBeforeTest => k :: vis | _ => vis end in
        if d_test d && memk k vis0
        then go rec r (match d_unmark d with UEveryExit => removek k vis0 | _ => vis0 end)     (* the edge is cut *)
        else match rec n' (match d_mark d with MAfterTest => k :: vis0 | _ => vis0 end) with
             | (Ok, v2) => go rec r (match d_unmark d with UNever => v2 | _ => removek k v2 end)
             | (Err, v2) => (onerr, v2)
             | (o, v2) => (o, v2)
             end
    | (o, _) :: _ => (o, vis)
    end.

  Fixpoint walk (fuel:nat) (n:node) (vis:list key) : outcome * list key :=
    match fuel with
    | O => (OutOfFuel, vis)
    | S f => match expand n with
             | (Ok, es) => go (walk f) es vis
             | (o, _) => (o, vis)
             end
    end.
End Walk.

(* the two disciplines found in the repository *)
Definition d_persistent : discipline := {| d_test := true; d_mark := MAfterTest; d_unmark := UNever |}.
Definition d_in_progress : discipline := {| d_test := true; d_mark := MAfterTest; d_unmark := UAfterExpansion |}.
(* the slips: no test at all; the un-mark moved in front of the test / into the cut branch *)
Definition d_untested : discipline := {| d_test := false; d_mark := MAfterTest; d_unmark := UAfterExpansion |}.
Definition d_cut_unmarks : discipline := {| d_test := true; d_mark := MAfterTest; d_unmark := UEveryExit |}.
