(* C20, round 3 second pass: format strings that come from the MODEL (the attributes epfmt / appfmt / seqtitle / title of a
   project application) in `sysl sd` and `sysl ints`.
     pkg/cmdutils/fmtparser.go            FormatParser.Expansions / Parse / Check
     pkg/sequencediagram/sequencediagram.go   DoConstructSequenceDiagrams: ConstructFormatParser x3, checkFormats
     pkg/integrationdiagram               GenerateIntegrations / ints_view.go: MakeFormatParser on the project's attributes
   The byte-level parser is C13's Seq/Fmt.v (head_stage, cond_stage, eat_*, pop, ...: reused unchanged). What is new is the
   DISCIPLINE of the search expansion `%(var~/re/...)`: Seq.Fmt.expansions compiles the pattern whatever the value is
   (regexp.MustCompile(fp.Pop()) right behind Eat(ItemReSearch)); `expansions_d lazy` with lazy = true compiles it only
   for a non-empty value (`value != "" && regexp.MustCompile(p).MatchString(value)`). Which one the source has is the Gen
   fact g_fmt_eager (every parsing step of Expansions - Eat, Pop, the nested Expansions, the compilation, the panics - is
   outside every condition that mentions the values). FormatParser.Check is one trial Parse with NO values: it decides
   for all later uses exactly when the parser is eager (FmtModelProps.fmt_cmd_total / lazy_check_refuted).
   Definitions only. *)
From Coq Require Import String Ascii List NArith Bool Arith.
Import ListNotations.
Require Import Verif.Seq.Fmt Verif.Cmds.Walk.
Local Open Scope string_scope.
Local Open Scope list_scope.

Record fguards := {
  g_fmt_eager : bool;         (* FormatParser.Expansions: no parsing step depends on the values (the regexp is always compiled) *)
  g_fmt_check : bool;         (* FormatParser.Check exists: a trial Parse with an empty value map under a recover that becomes the error *)
  g_sd_fmt_checked : bool;    (* DoConstructSequenceDiagrams hands every parser it builds to Check and returns the error *)
  g_ints_fmt_checked : bool   (* GenerateIntegrations tries every format string the views take from the project application first *)
}.
Definition fmt_guarded (g:fguards) : bool := g_fmt_eager g && g_fmt_check g && g_sd_fmt_checked g && g_ints_fmt_checked g.

Section Lazy.
  Variable lazy : bool.
  Variable rx : string -> option (string -> bool).

  (* `if fp.Eat(ItemReSearch) { isSearched = true; isUseVal = false; <compile and match> }` *)
  Definition search_stage_d (value:string) (x:fp * flags) : pres (fp * flags) :=
    let (sa, fl) := x in
    match eat_word m_search sa with
    | None => POk (sa, fl)
    | Some sb =>
        let (pat, sc) := pop sb in
        if lazy && String.eqb value EmptyString
        then POk (sc, {| f_yes := f_yes fl; f_useval := false; f_iseq := f_iseq fl; f_searched := true |})
        else match rx pat with
             | None => PPanic BadRegexp
             | Some matches =>
                 POk (sc, {| f_yes := f_yes fl || matches value; f_useval := false; f_iseq := f_iseq fl; f_searched := true |})
             end
    end.
  Definition pre_stage_d (value:string) (s5:fp) : pres (fp * flags) :=
    match cond_stage value s5 with
    | POk x => search_stage_d value x
    | PPanic k => PPanic k
    | PFuel => PFuel
    end.

  (* Seq.Fmt.expansions with pre_stage_d in the place of pre_stage *)
  Fixpoint expansions_d (fuel:nat) (r:itemre) (A:attrs) (res:string) (s:fp) {struct fuel} : pres fp :=
    match fuel with
    | O => PFuel
    | S f =>
      match head_stage r res s with
      | HStop => POk s
      | HReturn s2 res1 => POk (with_result s2 res1)
      | HMissingVar => PPanic MissingVariable
      | HVar s5 var res1 =>
        let value := aget var A in
        match pre_stage_d value s5 with
        | PPanic k => PPanic k
        | PFuel => PFuel
        | POk (sd, fl) =>
          match (match eat_sym m_stmtoper sd with
                 | None => POk (sd, EmptyString, f_useval fl)
                 | Some se =>
                     match expansions_d f ReStatement A EmptyString se with
                     | POk sf => POk (sf, result sf, false)
                     | PPanic k => PPanic k
                     | PFuel => PFuel
                     end
                 end) with
          | PPanic k => PPanic k
          | PFuel => PFuel
          | POk (sg, yesstmt, useval) =>
            match (match eat_sym m_nostmtoper sg with
                   | None => POk (sg, EmptyString)
                   | Some sh =>
                       match expansions_d f ReEnd A EmptyString sh with
                       | POk si => POk (si, result si)
                       | PPanic k => PPanic k
                       | PFuel => PFuel
                       end
                   end) with
            | PPanic k => PPanic k
            | PFuel => PFuel
            | POk (sj, nostmt) =>
              match eat_sym m_stmtend sj with
              | None => PPanic UnclosedExpansion
              | Some sk =>
                  let res2 := (res1 ++ choose fl useval value yesstmt nostmt)%string in
                  expansions_d f r A res2 (with_result sk res2)
              end
            end
          end
        end
      end
    end.

  Definition parse_d (self:string) (A:attrs) : pres string :=
    match expansions_d (fuel_of self) ReDefault A EmptyString (fresh self) with
    | POk s => POk (escape_nl (result s))
    | PPanic k => PPanic k
    | PFuel => PFuel
    end.

  (* FormatParser.Check: Parse(map[string]string{}) under a recover *)
  Definition check_d (self:string) : bool := match parse_d self [] with POk _ => true | _ => false end.
End Lazy.

Definition out_of {A} (x:pres A) : outcome :=
  match x with POk _ => Ok | PPanic _ => Panic SFmtParse | PFuel => OutOfFuel end.
Fixpoint first_bad_o (os:list outcome) : outcome :=
  match os with [] => Ok | Ok :: r => first_bad_o r | o :: _ => o end.

(* which command reads the project application's formats *)
Inductive fmt_user := FSd | FInts.
Definition checked_by (g:fguards) (u:fmt_user) : bool :=
  g_fmt_check g && match u with FSd => g_sd_fmt_checked g | FInts => g_ints_fmt_checked g end.

(* The command as far as its format strings go: fmts = the format strings it takes from the model (attribute values; an
   empty attribute falls back to the well-formed default / option value), uses = the value maps of the labels it writes
   (one per labelled call, application, diagram title). With the up-front check a string that Check refuses is the
   command's error; without it the strings meet the values unchecked. *)
Definition fmt_cmd (g:fguards) (u:fmt_user) (rx:string -> option (string -> bool)) (fmts:list string) (uses:list attrs) : outcome :=
  let lazy := negb (g_fmt_eager g) in
  if checked_by g u && negb (forallb (check_d lazy rx) fmts) then Err
  else first_bad_o (map (fun A => first_bad_o (map (fun f => out_of (parse_d lazy rx f A)) fmts)) uses).
