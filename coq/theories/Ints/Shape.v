(* C14: the obligations against the CURRENT source.  Gen/IntsShape.v is regenerated from ints_builder.go on every
   run; the lemmas below say that the handlers of the model are what the extracted statement lists mean
   (interp), and that the remaining shape facts the model relies on are still the ones it was written from.
   They are closed by reflexivity (plus one eta step): an edit of a guard, of the order of statements, of the
   seed filter, of the pass-through guard, of a ProcessCalls arm or of the de-duplication key breaks them. *)
From Coq Require Import List NArith Bool String.
Import ListNotations.
Require Import Verif.Ints.IntsModel Verif.Ints.ShapeTypes Verif.Gen.IntsShape.
Local Open Scope N_scope.

Section Interp.
  Variable m : module.
  Variable seedset finalset excludes : list id.
  Variable walkp : st -> id -> id -> outcome st.     (* what b.WalkPassthrough(target, endpoint) does *)
  Definition pick (w:who) (src t:id) : id := match w with Src => src | Tgt => t end.
  Fixpoint interp (steps:list step) (src sep:id) (s:st) (t e:id) : outcome st :=
    match steps with
    | [] => Ok s
    | GExcluded w :: r => if mem (pick w src t) excludes then Ok s else interp r src sep s t e
    | GNotSeed w :: r => if negb (mem (pick w src t) seedset) then Ok s else interp r src sep s t e
    | GNotFinal w :: r => if negb (mem (pick w src t) finalset) then Ok s else interp r src sep s t e
    | GHuman w :: r => if target_human m (pick w src t) then Ok s else interp r src sep s t e
    | AddUnlessHidden :: r => match target_hidden m t e with
                              | Ok h => interp r src sep (if h then s else add_call s (src,sep,t,e)) t e
                              | Panic => Panic | OutOfFuel => OutOfFuel end
    | AddAlways :: r => interp r src sep (add_call s (src,sep,t,e)) t e
    | AppendFinal w :: r => interp r src sep (add_final s (pick w src t)) t e
    | WalkPass :: r => match walkp s t e with Ok s' => interp r src sep s' t e | err => err end
    | StepUnknown :: _ => Panic
    end.
End Interp.

Definition no_walk : st -> id -> id -> outcome st := fun s _ _ => Ok s.

(* MyCallers and IndirectCalls of the model are the extracted statement lists *)
Lemma shape_my_callers m listed ex x src sep s t e :
  my_callers m listed ex x src sep s t e = interp m (seeds m listed ex x) [] ex no_walk handler_my_callers src sep s t e.
Proof. reflexivity. Qed.

Lemma shape_indirect m fs src sep s t e :
  indirect m fs src sep s t e = interp m [] fs [] no_walk handler_indirect src sep s t e.
Proof. reflexivity. Qed.

(* ProcessExcludeAndPassthrough: the extracted list, with WalkPassthrough as in the model *)
Definition walk_passthrough_model (m:module) (ex pt:list id) (g:bool) (f:nat) (stk:list node) : st -> id -> id -> outcome st :=
  fun s t e =>
    if mem t pt then
      if g && nmem (t,e) stk then Ok s else
      match assoc t m with
      | Some a => match assoc e (eps a) with
                  | Some ep => walk (pep m ex pt g f ((t,e)::stk) t e) s (body ep)
                  | None => Ok s end
      | None => Ok s end
    else Ok s.

Lemma outcome_eta (o:outcome st) : o = match o with Ok s' => Ok s' | Panic => Panic | OutOfFuel => OutOfFuel end.
Proof. destruct o; reflexivity. Qed.

Lemma shape_pep m ex pt g f stk src sep s t e :
  pep m ex pt g (S f) stk src sep s t e =
  interp m [] [] ex (walk_passthrough_model m ex pt g f stk) handler_pep src sep s t e.
Proof.
  cbn [interp handler_pep pick]. change (pep m ex pt g (S f) stk src sep s t e) with
     (if mem t ex then Ok s else
      if target_human m t then Ok s else
      match target_hidden m t e with
      | Ok h =>
          let s1 := if h then s else add_call s (src, sep, t, e) in
          let s2 := add_final s1 t in
          if mem t pt then
            if g && nmem (t,e) stk then Ok s2 else
            match assoc t m with
            | Some a => match assoc e (eps a) with
                        | Some ep => walk (pep m ex pt g f ((t,e)::stk) t e) s2 (body ep)
                        | None => Ok s2 end
            | None => Ok s2 end
          else Ok s2
      | Panic => Panic | OutOfFuel => OutOfFuel
      end).
  destruct (mem t ex); [reflexivity|]. destruct (target_human m t); [reflexivity|].
  destruct (target_hidden m t e) as [h| |]; [|reflexivity|reflexivity].
  cbv zeta. unfold walk_passthrough_model.
  apply outcome_eta.
Qed.

(* the facts that are not statement lists *)
Lemma shape_walk_guarded :       (* g = true: an endpoint being expanded is not entered again *)
  walk_passthrough = [WIfPassthrough; WKeyAppEp; WSkipIfActive; WInitSet; WMarkActive; WDeferUnmark; WRecursePep].
Proof. reflexivity. Qed.

Lemma shape_seed_filter :        (* x = true: defined, not human, not excluded *)
  seed_filter = [SeedDefined; SeedNotHuman; SeedNotExcluded].
Proof. reflexivity. Qed.

Lemma shape_passes :             (* build: seeds / all apps in sorted order / final apps; sorted endpoints; collector skipped *)
  passes = [ {| p_apps := OverSeeds; p_eps_sorted := true; p_skip_collector := true; p_handler := "ProcessExcludeAndPassthrough" |};
             {| p_apps := OverAllSorted; p_eps_sorted := true; p_skip_collector := true; p_handler := "MyCallers" |};
             {| p_apps := OverFinal; p_eps_sorted := true; p_skip_collector := true; p_handler := "IndirectCalls" |} ].
Proof. reflexivity. Qed.

Lemma shape_process_calls :      (* stmt: Call / Other / Block (five kinds) / Alt; anything else panics *)
  process_calls = [("Call", ArmHandler); ("Action", ArmSkip); ("Ret", ArmSkip); ("Cond", ArmRecurse); ("Loop", ArmRecurse);
                   ("LoopN", ArmRecurse); ("Foreach", ArmRecurse); ("Group", ArmRecurse); ("Alt", ArmChoices);
                   ("default", ArmPanic)]%string.
Proof. reflexivity. Qed.

Lemma shape_add_call :           (* add_call: skip if the key is present, else append *)
  add_call_shape = [AKeyFromString; ASkipIfPresent; AInsertKey; AAppendDep] /\
  dep_key = [KSelfName; KSelfEp; KTargetName; KTargetEp].
Proof. split; reflexivity. Qed.

Lemma shape_views_loop :         (* Views.gen_loop false: own attributes, fresh union, fresh builder, shared set untouched *)
  views_loop = [VOwnExcludes; VOwnPassthrough; VBuildFreshUnion; VParamsFromThisBuilder; VRender].
Proof. reflexivity. Qed.

Theorem source_shape :
  (forall m listed ex x src sep s t e,
     my_callers m listed ex x src sep s t e = interp m (seeds m listed ex x) [] ex no_walk handler_my_callers src sep s t e) /\
  (forall m fs src sep s t e, indirect m fs src sep s t e = interp m [] fs [] no_walk handler_indirect src sep s t e) /\
  (forall m ex pt g f stk src sep s t e,
     pep m ex pt g (S f) stk src sep s t e = interp m [] [] ex (walk_passthrough_model m ex pt g f stk) handler_pep src sep s t e) /\
  walk_passthrough = [WIfPassthrough; WKeyAppEp; WSkipIfActive; WInitSet; WMarkActive; WDeferUnmark; WRecursePep] /\
  seed_filter = [SeedDefined; SeedNotHuman; SeedNotExcluded] /\
  List.length passes = 3%nat /\ List.length process_calls = 10%nat.
Proof.
  split; [exact shape_my_callers|]. split; [exact shape_indirect|]. split; [exact shape_pep|].
  split; [exact shape_walk_guarded|]. split; [exact shape_seed_filter|].
  rewrite shape_passes, shape_process_calls. split; reflexivity.
Qed.
