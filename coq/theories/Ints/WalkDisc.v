(* C14 MODEL, part 3 (definitions only, executable): the marker discipline of IntsBuilder.WalkPassthrough with
   b.walking as what it is in the Go code - ONE set, a field of the builder, shared by every invocation - instead
   of the stack parameter [stk] of IntsModel.pep.

     key := AppElement{appname, epname}
     if _, active := b.walking[key]; active { return }        -- the re-entrancy test
     if b.walking == nil { b.walking = map... }
     b.walking[key] = struct{}{}                               -- the marker is set AFTER the test ...
     defer delete(b.walking, key)                              -- ... and its removal is registered after that,
     ProcessCalls(appname, epname, endpt.GetStmt(), b.ProcessExcludeAndPassthrough)   so a cut re-entry removes nothing

   Switch [u] (unmark on cut): false = the source order above; true = the deferred delete registered BEFORE the
   re-entrancy test, so the early return of a cut re-entry also deletes the key - the marker of the expansion that
   is still in progress further up the call chain.
   WalkDiscProps.v: with u = false this is IntsModel.pep with the guard (the set is restored on every return);
   with u = true two pass-through endpoints with two calls to each other recurse for ever. *)
From Coq Require Import List NArith Bool.
Import ListNotations.
Require Import Verif.Ints.IntsModel.
Local Open Scope N_scope.

(* delete(b.walking, key) *)
Definition rm (k:node) (w:list node) : list node := filter (fun x => negb (node_eqb k x)) w.

Section Disc.
  Variable m : module.
  Variable excludes passthrough : list id.
  Variable u : bool.

  (* ProcessExcludeAndPassthrough + WalkPassthrough; state = (DepsOut / FinalApps, b.walking); ProcessCalls visits
     the call statements of the body in source order (IntsFold.walk_fold) *)
  Fixpoint pepw (fuel:nat) (src sep:id) (sw:st * list node) (t e:id) : outcome (st * list node) :=
    match fuel with O => OutOfFuel | S f =>
      if mem t excludes then Ok sw else
      if target_human m t then Ok sw else
      match target_hidden m t e with
      | Ok h =>
          let s1 := if h then fst sw else add_call (fst sw) (src, sep, t, e) in
          let s2 := add_final s1 t in
          let w := snd sw in
          if mem t passthrough then
            if nmem (t,e) w then Ok (s2, if u then rm (t,e) w else w) else
            let body_calls := match assoc t m with
                              | Some a => match assoc e (eps a) with Some ep => calls (body ep) | None => [] end
                              | None => [] end in
            match (fix go (sw:st * list node) (l:list node) : outcome (st * list node) :=
                     match l with
                     | [] => Ok sw
                     | c :: r => match pepw f t e sw (fst c) (snd c) with Ok sw' => go sw' r | err => err end
                     end) (s2, (t,e) :: w) body_calls with
            | Ok sw3 => Ok (fst sw3, rm (t,e) (snd sw3))
            | Panic => Panic | OutOfFuel => OutOfFuel
            end
          else Ok (s2, w)
      | Panic => Panic | OutOfFuel => OutOfFuel
      end
    end.
End Disc.
