(* C14 MODEL, part 3 (definitions only, executable): the command around the views, over STRINGS.

     cmd/sysl/cmd_ints.go            Execute = GenerateIntegrations ; Plantumlmixin.GenerateFromMap
     pkg/integrationdiagram/integrationdiagram.go
                                     GenerateIntegrations: the default exclude list ([project] when -e is absent and
                                     a project is named), the ONE FormatParser of --output used for every endpoint of
                                     the project in name order (cmdutils.FormatParser.FmtOutput = Seq/Fmt.v
                                     [fmt_output], the model of C13, byte for byte), --filter compiled with
                                     regexp.MustCompile INSIDE the loop and matched against the output name
     pkg/diagrams/plantuml.go        GenerateFromMap: `for k, v := range m` (Go map order = the parameter [order]),
                                     return at the first error
     pkg/diagrams/diagutil.go        OutputPlantuml: mode = path.Ext(output) without its dot; png / svg are fetched
                                     from the PlantUML server, html / link / puml / uml / plantuml are written as
                                     they are, anything else is an error; then afero.WriteFile

   What an endpoint of the project contributes as strings: its name, its long name and its attributes as
   MergeAttributesMap sees them (key, GetS()).  What it contributes as a view (listing, own excludes, own
   pass-through, view kind, restrict_by) stays in the id world of VModel; an output name becomes the N key of
   VModel.gen_map by its position in the list of all output names ([idx_of]: equal key <-> equal string).
   Regular expressions are the parameter [rx] (pattern -> does not compile | matcher), exactly as in Seq/Fmt.v:
   the same Go library compiles the --filter pattern and the patterns inside a format string.
   Every panic of the Go code is an explicit outcome.  Outside: the title line itself (its format string is inside:
   the check of 8952ebf), kingpin itself. *)
From Coq Require Import String Ascii List NArith Bool Arith.
Import ListNotations.
Require Import Verif.Seq.Fmt Verif.Ints.IntsModel Verif.Ints.VModel.
Local Open Scope string_scope.
Local Open Scope list_scope.

Fixpoint sassoc {A} (k:string) (l:list (string * A)) : option A :=
  match l with [] => None | (j,x) :: t => if String.eqb k j then Some x else sassoc k t end.
Fixpoint smem (k:string) (l:list string) : bool :=
  match l with [] => false | j :: t => String.eqb k j || smem k t end.

(* ---- path.Ext: the suffix that begins at the last dot of the last slash-separated element; "" without one ---- *)
Fixpoint path_ext_from (s cur:string) : string :=
  match s with
  | EmptyString => cur
  | String c t => if Ascii.eqb c "/" then path_ext_from t EmptyString
                  else if Ascii.eqb c "." then path_ext_from t s
                  else path_ext_from t cur
  end.
Definition path_ext (s:string) : string := path_ext_from s EmptyString.

(* OutputPlantuml: mode := strings.Replace(path.Ext(output), ".", "", 1) ; switch mode *)
Inductive omode := MServer        (* png, svg: the picture is fetched from the PlantUML server *)
                 | MHtml | MLink  (* an <img> element / the bare URL that carries the encoded diagram *)
                 | MText          (* puml, uml, plantuml: the diagram text itself *)
                 | MBad.          (* default: "extension must be ..." *)
Definition mode_table : list (string * omode) :=
  [("png", MServer); ("svg", MServer); ("html", MHtml); ("link", MLink); ("puml", MText); ("uml", MText); ("plantuml", MText)].
Definition mode_of (out:string) : omode :=
  match sassoc (drop 1 (path_ext out)) mode_table with Some m => m | None => MBad end.

(* the environment of one run: can the PlantUML server be reached, and which names cannot be created by
   afero.WriteFile (their directory does not exist) *)
Record env := { server_up : bool; unwritable : list string }.
Definition out_ok (e:env) (out:string) : bool :=
  match mode_of out with
  | MBad => false
  | MServer => server_up e && negb (smem out (unwritable e))
  | _ => negb (smem out (unwritable e))
  end.

(* GenerateFromMap over the keys in the order the Go runtime happens to give: the names written, and whether an
   error came back *)
Fixpoint write_all (ok:string -> bool) (order:list string) : list string * bool :=
  match order with
  | [] => ([], false)
  | k :: r => if ok k then (let (w, e) := write_all ok r in (k :: w, e)) else ([], true)
  end.

(* ---- one endpoint of the project application ---- *)
Record proj_ep := {
  pe_name : string; pe_long : string; pe_attrs : attrs;      (* what FmtOutput reads *)
  pe_listed : list id; pe_ex : list id; pe_pt : list id;     (* statements, `exclude`, `passthrough` *)
  pe_view : vkind; pe_di : bool; pe_rb : bool                (* `view`, indirect_arrow_color <> none, `restrict_by` <> "" *)
}.
(* the fields of CmdContextParamIntgen that cmd_ints.go binds to flags (Title: outside) *)
Record cli := {
  c_output : string;        (* -o / --output, default "%(epname).png" *)
  c_project : string;       (* -j / --project *)
  c_proj_id : id;           (* the id the harness's name table gives that name *)
  c_filter : string;        (* --filter *)
  c_exclude : list id;      (* -e / --exclude, repeated *)
  c_clustered : bool;       (* -c / --clustered *)
  c_epa : bool              (* --epa *)
}.

(* if len(intgenParams.Exclude) == 0 && intgenParams.Project != "" { intgenParams.Exclude = []string{intgenParams.Project} } *)
Definition eff_exclude (c:cli) : list id :=
  match c_exclude c with
  | [] => if String.eqb (c_project c) EmptyString then [] else [c_proj_id c]
  | l => l
  end.

Inductive cpanic := PFormat (k:fpanic)     (* FormatParser.Parse panicked on --output *)
                  | PFilter                (* regexp.MustCompile(--filter) panicked *)
                  | PNever.                (* the parser model out of fuel: never (Seq/FmtProps.fmt_total) *)
Inductive cres (A:Type) := COk (x:A) | CPanicked (k:cpanic).
Arguments COk {A}. Arguments CPanicked {A}.

(* GenerateIntegrations as a whole: an error return (the format check), or what the loop does *)
Inductive gres (A:Type) := GFormatError | GRan (r:cres A).
Arguments GFormatError {A}. Arguments GRan {A}.
(* the format strings of the project application and the -t flag *)
Record pformats := { pf_appfmt : string; pf_epfmt : string; pf_title_attr : string; pf_title_cli : string }.

Fixpoint idx_of (s:string) (l:list string) : N :=
  match l with [] => 0%N | x :: r => if String.eqb s x then 0%N else (1 + idx_of s r)%N end.

Section Cmd.
  Variable rx : string -> option (string -> bool).

  (* if Filter != "" { re := regexp.MustCompile(Filter); if !re.MatchString(outputDir) { continue } } *)
  Definition filter_pass (c:cli) (out:string) : option bool :=
    if String.eqb (c_filter c) EmptyString then Some true
    else match rx (c_filter c) with None => None | Some matches => Some (matches out) end.

  (* the head of the loop body, endpoint by endpoint in name order: output name, then the filter *)
  Fixpoint name_views (c:cli) (eps:list proj_ep) : cres (list (proj_ep * string * bool)) :=
    match eps with
    | [] => COk []
    | p :: r =>
        match fmt_output rx (c_output c) (c_project c) (pe_name p) (pe_long p) (pe_attrs p) with
        | PPanic k => CPanicked (PFormat k)
        | PFuel => CPanicked PNever
        | POk out =>
            match filter_pass c out with
            | None => CPanicked PFilter
            | Some b => match name_views c r with
                        | COk l => COk ((p, out, b) :: l)
                        | CPanicked k => CPanicked k
                        end
            end
        end
    end.

  Definition outs_of (l:list (proj_ep * string * bool)) : list string := map (fun x => snd (fst x)) l.
  (* args := &Args{Title, Project, Clustered, EPA}: the two flags reach every view *)
  Definition par_of (c:cli) (p:proj_ep) : vparams :=
    {| cli_clustered := c_clustered c; cli_epa := c_epa c; attr_view := pe_view p; p_di := pe_di p; p_rb := pe_rb p |}.
  Definition pview_of (c:cli) (outs:list string) (x:proj_ep * string * bool) : pview :=
    match x with (p, out, b) =>
      {| pv_out := idx_of out outs; pv_match := b; pv_listed := pe_listed p; pv_ex := pe_ex p; pv_pt := pe_pt p;
         pv_par := par_of c p |}
    end.
  Definition pviews_of (c:cli) (l:list (proj_ep * string * bool)) : list pview := map (pview_of c (outs_of l)) l.

  (* GenerateIntegrations from the endpoint loop on: the result map, output name -> diagram *)
  Definition cmd_views (m:module) (vi:vinfo) (k:bool) (fuel:nat) (c:cli) (eps:list proj_ep)
    : cres (list (string * option (list ev))) :=
    match name_views c eps with
    | CPanicked p => CPanicked p
    | COk l =>
        COk (map (fun kv => (nth (N.to_nat (fst kv)) (outs_of l) EmptyString, snd kv))
                 (generate_integrations m vi k (eff_exclude c) fuel (pviews_of c l)))
    end.

  (* since 8952ebf: right after the parser of --output is built, the three format strings that the views will read
     from the PROJECT APPLICATION are tried with FormatParser.Check (a Parse with no values under recover) and the
     first one the parser refuses is the command's error - before --output is expanded, before --filter is
     compiled, whether or not the project has an endpoint (or exists: nil-safe getters give the defaults).
       getAppfmtAttrOrDefault(app)            attribute appfmt, "%(appname)" when empty
       getEpfmtAttr(app)                      attribute epfmt
       getTitleFormat(app, intgenParams.Title) attribute title, the -t flag when empty *)
  Definition fmt_checks (self:string) : bool := match parse rx self [] with POk _ => true | _ => false end.
  Definition formats_of (pf:pformats) : list string :=
    [ (if String.eqb (pf_appfmt pf) EmptyString then "%(appname)" else pf_appfmt pf);
      pf_epfmt pf;
      (if String.eqb (pf_title_attr pf) EmptyString then pf_title_cli pf else pf_title_attr pf) ].
  Definition gen_integrations (m:module) (vi:vinfo) (k:bool) (fuel:nat) (c:cli) (pf:pformats) (eps:list proj_ep)
    : gres (list (string * option (list ev))) :=
    if forallb fmt_checks (formats_of pf) then GRan (cmd_views m vi k fuel c eps) else GFormatError.

  (* Execute: the files written (name, diagram) and whether the command reports an error *)
  Inductive xres := XPanic (k:cpanic) | XFormatError | XDone (files:list (string * option (list ev))) (err:bool).
  Definition execute (m:module) (vi:vinfo) (k:bool) (fuel:nat) (e:env) (c:cli) (pf:pformats) (eps:list proj_ep) (order:list string) : xres :=
    match gen_integrations m vi k fuel c pf eps with
    | GFormatError => XFormatError
    | GRan (CPanicked p) => XPanic p
    | GRan (COk r) =>
        let (w, err) := write_all (out_ok e) order in
        XDone (map (fun o => (o, match sassoc o r with Some x => x | None => None end)) w) err
    end.
End Cmd.
