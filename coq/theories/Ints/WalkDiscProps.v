(* C14 proofs, part 6: the marker discipline of WalkPassthrough (WalkDisc.v).  With the source order (u = false)
   the shared set b.walking behaves exactly like the stack of IntsModel.pep with the guard on, so the walk
   terminates; if a cut re-entry also deleted the marker (u = true) two pass-through endpoints with two calls to
   each other would recurse for ever. *)
From Coq Require Import List NArith Bool Lia.
Import ListNotations.
Require Import Verif.Ints.IntsModel Verif.Ints.IntsFold Verif.Ints.IntsProps Verif.Ints.IntsTerm Verif.Ints.WalkDisc.
Local Open Scope N_scope.

(* ---------- W1 ---------- *)
Lemma rm_notin k w : nmem k w = false -> rm k w = w.
Proof.
  induction w as [|x r IH]; intros H; [reflexivity|].
  cbn [nmem existsb] in H. apply orb_false_iff in H. destruct H as [Hx Hr].
  unfold rm. cbn [filter]. rewrite Hx. cbn [negb]. f_equal. apply IH, Hr.
Qed.
Lemma rm_head k w : nmem k w = false -> rm k (k :: w) = w.
Proof.
  intros H. unfold rm. cbn [filter].
  assert (E : node_eqb k k = true) by (apply node_eqb_eq; reflexivity).
  rewrite E. cbn [negb]. apply rm_notin, H.
Qed.

(* ---------- the loop of ProcessCalls over the call statements, with the pair (state, b.walking) ---------- *)
Section Gow.
  Variable h : st * list node -> node -> outcome (st * list node).
  Fixpoint gow (sw:st * list node) (l:list node) : outcome (st * list node) :=
    match l with
    | [] => Ok sw
    | c :: r => match h sw c with Ok sw' => gow sw' r | err => err end
    end.
End Gow.
Lemma gow_cons h sw c r : gow h sw (c :: r) = match h sw c with Ok sw' => gow h sw' r | err => err end.
Proof. reflexivity. Qed.

Lemma pepw_S m ex pt u f src sep sw t e : pepw m ex pt u (S f) src sep sw t e =
  if mem t ex then Ok sw else
  if target_human m t then Ok sw else
  match target_hidden m t e with
  | Ok h =>
      let s1 := if h then fst sw else add_call (fst sw) (src, sep, t, e) in
      let s2 := add_final s1 t in
      let w := snd sw in
      if mem t pt then
        if nmem (t,e) w then Ok (s2, if u then rm (t,e) w else w) else
        let body_calls := match assoc t m with
                          | Some a => match assoc e (eps a) with Some ep => calls (body ep) | None => [] end
                          | None => [] end in
        match gow (fun sw c => pepw m ex pt u f t e sw (fst c) (snd c)) (s2, (t,e) :: w) body_calls with
        | Ok sw3 => Ok (fst sw3, rm (t,e) (snd sw3))
        | Panic => Panic | OutOfFuel => OutOfFuel
        end
      else Ok (s2, w)
  | Panic => Panic | OutOfFuel => OutOfFuel
  end.
Proof. reflexivity. Qed.

Definition lift (w:list node) (o:outcome st) : outcome (st * list node) :=
  match o with Ok s' => Ok (s', w) | Panic => Panic | OutOfFuel => OutOfFuel end.

(* ---------- W2: the source discipline is the stack discipline of IntsModel.pep with the guard on ---------- *)
Theorem pepw_source_eq m ex pt : forall fuel src sep s w t e,
  pepw m ex pt false fuel src sep (s, w) t e =
  match pep m ex pt true fuel w src sep s t e with Ok s' => Ok (s', w) | Panic => Panic | OutOfFuel => OutOfFuel end.
Proof.
  induction fuel as [|f IH]; intros src sep s w t e; [reflexivity|].
  rewrite pepw_S, pep_S. cbn [fst snd].
  destruct (mem t ex); [reflexivity|].
  destruct (target_human m t); [reflexivity|].
  destruct (target_hidden m t e) as [h| |]; [|reflexivity|reflexivity].
  cbv zeta. set (s2 := add_final (if h then s else add_call s (src, sep, t, e)) t).
  destruct (mem t pt); [|reflexivity].
  cbn [andb]. destruct (nmem (t,e) w) eqn:Hm; [reflexivity|].
  assert (Hloop : forall l s0,
    gow (fun sw c => pepw m ex pt false f t e sw (fst c) (snd c)) (s0, (t,e) :: w) l =
    lift ((t,e) :: w) (foldM (uncur (pep m ex pt true f ((t,e) :: w) t e)) s0 l)).
  { induction l as [|c r IHl]; intros s0; [reflexivity|].
    rewrite gow_cons. cbn [foldM]. rewrite IH. unfold uncur at 1.
    destruct (pep m ex pt true f ((t,e) :: w) t e s0 (fst c) (snd c)) as [s'| |]; [apply IHl|reflexivity|reflexivity]. }
  destruct (assoc t m) as [a|].
  - destruct (assoc e (eps a)) as [ep|].
    + rewrite Hloop, walk_fold.
      destruct (foldM (uncur (pep m ex pt true f ((t,e) :: w) t e)) s2 (calls (body ep))) as [s'| |];
        cbn [lift fst snd]; [|reflexivity|reflexivity]. repeat f_equal. apply rm_head, Hm.
    + cbn [gow fst snd]. repeat f_equal. apply rm_head, Hm.
  - cbn [gow fst snd]. repeat f_equal. apply rm_head, Hm.
Qed.

(* ---------- W3 ---------- *)
Theorem pepw_source_terminates m ex pt f src sep s w t e :
  NoDup w -> incl w (all_targets m) -> In (t,e) (all_targets m) ->
  (length (all_targets m) < length w + f)%nat ->
  pepw m ex pt false f src sep (s, w) t e <> OutOfFuel.
Proof.
  intros Hnd Hincl Hin Hlen. rewrite pepw_source_eq.
  pose proof (pep_guarded_fuel m ex pt f w src sep s t e Hnd Hincl Hin Hlen) as Hn.
  destruct (pep m ex pt true f w src sep s t e) as [s'| |]; [discriminate|discriminate|exfalso; apply Hn; reflexivity].
Qed.

(* ---------- W4: unmarking on a cut re-entry would bring the endless recursion back ---------- *)
(* A lists; B and C are pass-through; B.e1 calls C.e1 twice (a retry), C.e1 calls B.e1 twice (if / else) *)
Definition dm : module :=
  [(0, {| human := false; eps := [(1, {| hidden := false; coll := false; body := [Call 1 1] |})] |});
   (1, {| human := false; eps := [(1, {| hidden := false; coll := false; body := [Call 2 1; Block [Call 2 1]] |})] |});
   (2, {| human := false; eps := [(1, {| hidden := false; coll := false; body := [Alt [[Call 1 1]; [Call 1 1]]] |})] |})].

(* a cut re-entry takes the marker of the expansion in progress with it *)
Lemma cut_21 f src sep s : pepw dm [] [1;2] true (S f) src sep (s, [(1,1);(2,1)]) 2 1 =
  Ok (add_final (add_call s (src, sep, 2, 1)) 2, [(1,1)]).
Proof. reflexivity. Qed.
Lemma cut_11 f src sep s : pepw dm [] [1;2] true (S f) src sep (s, [(2,1);(1,1)]) 1 1 =
  Ok (add_final (add_call s (src, sep, 1, 1)) 1, [(2,1)]).
Proof. reflexivity. Qed.

Lemma unmark_loop : forall f src sep s,
  pepw dm [] [1;2] true f src sep (s, [(2,1)]) 1 1 = OutOfFuel /\
  pepw dm [] [1;2] true f src sep (s, [(1,1)]) 2 1 = OutOfFuel.
Proof.
  pose proof cut_21 as C21. pose proof cut_11 as C11. unfold dm in *.
  induction f as [|f IH]; intros src sep s; [split; reflexivity|].
  split; rewrite pepw_S; cbv -[pepw gow add_call add_final rm]; (destruct f as [|f]; [reflexivity|]);
    rewrite gow_cons; cbv beta; cbn [fst snd].
  - rewrite C21, gow_cons. cbv beta. cbn [fst snd]. rewrite (proj2 (IH _ _ _)). reflexivity.
  - rewrite C11, gow_cons. cbv beta. cbn [fst snd]. rewrite (proj1 (IH _ _ _)). reflexivity.
Qed.

Theorem unmark_on_cut_diverges : forall fuel src sep s, pepw dm [] [1;2] true fuel src sep (s, []) 1 1 = OutOfFuel.
Proof.
  pose proof unmark_loop as L. unfold dm in *.
  intros [|f] src sep s; [reflexivity|].
  rewrite pepw_S. cbv -[pepw gow add_call add_final rm]. rewrite gow_cons. cbv beta. cbn [fst snd].
  rewrite (proj2 (L _ _ _ _)). reflexivity.
Qed.

(* ---------- W5 ---------- *)
Definition dm1 : module :=
  [(0, {| human := false; eps := [(1, {| hidden := false; coll := false; body := [Call 1 1] |})] |});
   (1, {| human := false; eps := [(1, {| hidden := false; coll := false; body := [Call 2 1] |})] |});
   (2, {| human := false; eps := [(1, {| hidden := false; coll := false; body := [Call 1 1] |})] |})].
(* (a) the source order terminates on the witness, with the set restored *)
Example source_order_terminates_on_witness :
  pepw dm [] [1;2] false 10 0 1 ({| deps := []; final := [] |}, []) 1 1 =
  Ok ({| deps := [(0,1,1,1); (1,1,2,1); (2,1,1,1)]; final := [1;2;1;1;2;1;1] |}, []).
Proof. vm_compute. reflexivity. Qed.
(* (b) one call in each direction is not enough for the divergence: the second back-call is what finds the marker gone *)
Example unmark_needs_two_back_calls :
  pepw dm1 [] [1;2] true 10 0 1 ({| deps := []; final := [] |}, []) 1 1 =
  Ok ({| deps := [(0,1,1,1); (1,1,2,1); (2,1,1,1)]; final := [1;2;1] |}, []).
Proof. vm_compute. reflexivity. Qed.
(* the hypotheses of pepw_source_terminates hold for the witness at the top level with the builder's fuel *)
Example pepw_source_terminates_nonvacuous :
  NoDup (@nil node) /\ incl [] (all_targets dm) /\ In (1,1) (all_targets dm) /\
  (length (all_targets dm) < length (@nil node) + fuel_bound dm)%nat /\
  pepw dm [] [1;2] false (fuel_bound dm) 0 1 ({| deps := []; final := [] |}, []) 1 1 =
  Ok ({| deps := [(0,1,1,1); (1,1,2,1); (2,1,1,1)]; final := [1;2;1;1;2;1;1] |}, []).
Proof.
  split; [constructor|]. split; [intros x []|]. split; [left; reflexivity|]. split; [vm_compute; lia|].
  vm_compute. reflexivity.
Qed.
