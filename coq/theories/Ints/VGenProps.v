(* C14 proofs: GenerateIntegrations as a map from output names to diagrams (VModel.gen_map).  The diagram kept
   under a name is the one of the LAST endpoint (in endpoint-name order) that passes the filter and has that
   output name; with pairwise different output names (the default template %(epname).png) every endpoint that
   passes the filter has its own diagram, the one it would get alone; an endpoint that the filter rejects leaves
   no trace. *)
From Coq Require Import List NArith Bool Lia.
Import ListNotations.
Require Import Verif.Ints.IntsModel Verif.Ints.VModel.
Local Open Scope N_scope.

Section GenMap.
  Context {V:Type}.
  Variable render : pview -> V.

  Lemma assoc_upd_same o (x:V) l : assoc o (upd o x l) = Some x.
  Proof.
    induction l as [|[o' y] r IH]; cbn [upd assoc]; [rewrite N.eqb_refl; reflexivity|].
    destruct (N.eqb_spec o o') as [->|Hne]; cbn [assoc]; [rewrite N.eqb_refl; reflexivity|].
    destruct (N.eqb_spec o o'); [contradiction|exact IH].
  Qed.
  Lemma assoc_upd_other o o' (x:V) l : o <> o' -> assoc o (upd o' x l) = assoc o l.
  Proof.
    intros Hne. induction l as [|[o2 y] r IH]; cbn [upd assoc].
    - destruct (N.eqb_spec o o'); [contradiction|reflexivity].
    - destruct (N.eqb_spec o' o2) as [->|H2]; cbn [assoc].
      + destruct (N.eqb_spec o o2); [contradiction|reflexivity].
      + destruct (N.eqb_spec o o2); [reflexivity|exact IH].
  Qed.

  Definition hit (o:N) (v:pview) : bool := pv_match v && N.eqb (pv_out v) o.
  (* the last endpoint that passes the filter and is named o, [cur] if there is none *)
  Fixpoint last_named (o:N) (vs:list pview) (cur:option pview) : option pview :=
    match vs with
    | [] => cur
    | v :: r => last_named o r (if hit o v then Some v else cur)
    end.

  Lemma gen_map_last_gen o : forall vs acc cur,
    assoc o acc = option_map render cur ->
    assoc o (gen_map render vs acc) = option_map render (last_named o vs cur).
  Proof.
    induction vs as [|v r IH]; intros acc cur Hc; cbn [gen_map last_named]; [exact Hc|].
    unfold hit. destruct (pv_match v) eqn:Hm; cbn [andb]; [|apply IH; exact Hc].
    destruct (N.eqb_spec (pv_out v) o) as [E|Hne]; apply IH.
    - rewrite E. cbn [option_map]. apply assoc_upd_same.
    - rewrite assoc_upd_other by (intros E; apply Hne; symmetry; exact E). exact Hc.
  Qed.

  (* an entry is there iff some endpoint passes the filter with that name, and it is the last such endpoint's *)
  Theorem gen_map_last o vs :
    assoc o (gen_map render vs []) = option_map render (last_named o vs None).
  Proof. apply gen_map_last_gen. reflexivity. Qed.

  Lemma last_named_spec o : forall vs cur w, last_named o vs cur = Some w ->
    (In w vs /\ hit o w = true) \/ cur = Some w.
  Proof.
    induction vs as [|v r IH]; intros cur w H; cbn [last_named] in H; [right; exact H|].
    destruct (IH _ _ H) as [[Hin Hh]|E]; [left; split; [right; exact Hin|exact Hh]|].
    destruct (hit o v) eqn:Hv; [|right; exact E]. injection E as <-. left. split; [left; reflexivity|exact Hv].
  Qed.
  Lemma last_named_none o : forall vs cur, last_named o vs cur = None -> cur = None /\ forall v, In v vs -> hit o v = false.
  Proof.
    induction vs as [|v r IH]; intros cur H; cbn [last_named] in H; [split; [exact H|intros v []]|].
    destruct (IH _ H) as [Hc Hr]. destruct (hit o v) eqn:Hv; [discriminate|].
    split; [exact Hc|]. intros w [<-|Hw]; [exact Hv|apply Hr, Hw].
  Qed.

  (* soundness of the map: every diagram in it is the rendering of an endpoint that passes the filter and has
     that output name *)
  Theorem gen_map_sound o x vs : assoc o (gen_map render vs []) = Some x ->
    exists v, In v vs /\ pv_match v = true /\ pv_out v = o /\ x = render v.
  Proof.
    rewrite gen_map_last. destruct (last_named o vs None) as [w|] eqn:E; [|discriminate]. cbn [option_map]. intros [= <-].
    destruct (last_named_spec _ _ _ _ E) as [[Hin Hh]|]; [|discriminate].
    unfold hit in Hh. apply andb_true_iff in Hh. destruct Hh as [Hm Ho]. apply N.eqb_eq in Ho. exists w. auto.
  Qed.

  (* completeness: every endpoint that passes the filter has a diagram under its output name *)
  Theorem gen_map_complete v vs : In v vs -> pv_match v = true -> exists x, assoc (pv_out v) (gen_map render vs []) = Some x.
  Proof.
    intros Hin Hm. rewrite gen_map_last. destruct (last_named (pv_out v) vs None) as [w|] eqn:E; [eexists; reflexivity|].
    destruct (last_named_none _ _ _ E) as [_ Hn]. specialize (Hn v Hin). unfold hit in Hn. rewrite Hm, N.eqb_refl in Hn. discriminate.
  Qed.

  (* with output names that differ between the endpoints that pass the filter, each has its OWN diagram *)
  Theorem gen_map_own v vs :
    (forall w, In w vs -> pv_match w = true -> pv_out w = pv_out v -> w = v) ->
    In v vs -> pv_match v = true -> assoc (pv_out v) (gen_map render vs []) = Some (render v).
  Proof.
    intros Hd Hin Hm. destruct (gen_map_complete v vs Hin Hm) as [x Hx]. rewrite Hx.
    destruct (gen_map_sound _ _ _ Hx) as (w & Hw & Hwm & Hwo & ->). rewrite (Hd w Hw Hwm Hwo). reflexivity.
  Qed.

  (* an endpoint that the filter rejects leaves no trace *)
  Theorem gen_map_filtered_out vs1 v vs2 acc : pv_match v = false ->
    gen_map render (vs1 ++ v :: vs2) acc = gen_map render (vs1 ++ vs2) acc.
  Proof.
    intros Hm. revert acc. induction vs1 as [|w r IH]; intros acc; cbn [List.app gen_map]; [rewrite Hm; reflexivity|apply IH].
  Qed.
End GenMap.

(* ---- instantiated: each diagram of a project is the single-view diagram of its endpoint ---- *)
Theorem generate_integrations_own m vi k cli fuel vs v :
  (forall w, In w vs -> pv_match w = true -> pv_out w = pv_out v -> w = v) ->
  In v vs -> pv_match v = true ->
  assoc (pv_out v) (generate_integrations m vi k cli fuel vs) = Some (render1 m vi k cli fuel v).
Proof. apply gen_map_own. Qed.

Theorem generate_integrations_sound m vi k cli fuel vs o x :
  assoc o (generate_integrations m vi k cli fuel vs) = Some x ->
  exists v, In v vs /\ pv_match v = true /\ pv_out v = o /\ x = render1 m vi k cli fuel v.
Proof. apply gen_map_sound. Qed.

(* non-vacuity: two endpoints named 7 and 8 pass, one named 7 is filtered out, and a second one named 8 comes later *)
Example generate_integrations_example :
  let p := {| cli_clustered := false; cli_epa := false; attr_view := VPlain; p_di := true; p_rb := false |} in
  let mk o f l := {| pv_out := o; pv_match := f; pv_listed := l; pv_ex := []; pv_pt := []; pv_par := p |} in
  let vs := [mk 7 true [0]; mk 8 true [0]; mk 7 false [1]; mk 8 true [1]] in
  map fst (gen_map (fun v => pv_listed v) vs []) = [7; 8] /\
  assoc 8 (gen_map (fun v => pv_listed v) vs []) = Some [1] /\
  assoc 7 (gen_map (fun v => pv_listed v) vs []) = Some [0].
Proof. vm_compute. repeat split. Qed.
