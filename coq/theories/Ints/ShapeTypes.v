(* C14: vocabulary of the table Gen/IntsShape.v that the translator (translate/intsshape.go) regenerates from
   pkg/integrationdiagram/ints_builder.go on every run.  Definitions only. *)
From Coq Require Import List String.
Import ListNotations.

Inductive who := Src | Tgt.                       (* sourceApp / targetApp of the call in hand *)

(* one statement of a call handler, in source order *)
Inductive step :=
| GExcluded (w:who)        (* if b.Excludes.Contains(w) { return } *)
| GNotSeed (w:who)         (* if !b.SeedAppsMap.Contains(w) { return } *)
| GNotFinal (w:who)        (* if !b.FinalAppsMap.Contains(w) { return } *)
| GHuman (w:who)           (* if HasPattern(apps[w].GetAttrs(), "human") { return } *)
| AddUnlessHidden          (* if !HasPattern(apps[target].GetEndpoints()[call.Endpoint].GetAttrs(), "hidden") { b.AddCall(...) }
                              (nil-safe getters: an undefined app or endpoint is "not hidden") *)
| AddAlways                (* b.AddCall(...) *)
| AppendFinal (w:who)      (* b.FinalApps = append(b.FinalApps, w) *)
| WalkPass                 (* b.WalkPassthrough(targetApp, call.Endpoint) *)
| StepUnknown.

Inductive seedcond := SeedDefined | SeedNotHuman | SeedNotExcluded | SeedUnknown.

Inductive appsrc := OverSeeds | OverAllSorted | OverFinal | OverUnknown.
Record pass := { p_apps : appsrc; p_eps_sorted : bool; p_skip_collector : bool; p_handler : string }.

Inductive wstep :=
| WIfPassthrough           (* if b.Passthroughs.Contains(appname) { ... } *)
| WKeyAppEp                (* key := AppElement{appname, epname} *)
| WSkipIfActive            (* if _, active := b.<set>[key]; active { return } *)
| WInitSet                 (* if b.<set> == nil { b.<set> = map... } *)
| WMarkActive              (* b.<set>[key] = struct{}{} *)
| WDeferUnmark             (* defer delete(b.<set>, key) *)
| WRecursePep              (* ProcessCalls(appname, epname, endpt.GetStmt(), b.ProcessExcludeAndPassthrough) *)
| WUnknown.

Inductive arm := ArmHandler | ArmSkip | ArmRecurse | ArmChoices | ArmPanic | ArmUnknown.
Inductive astep := AKeyFromString | ASkipIfPresent | AInsertKey | AAppendDep | AUnknown.
Inductive keyfield := KSelfName | KSelfEp | KTargetName | KTargetEp | KUnknown.

(* one statement of the per-view loop of GenerateIntegrations *)
Inductive vstep :=
| VOwnExcludes             (* excludes := MakeStrSetFromAttr("exclude", endpt.GetAttrs()) *)
| VOwnPassthrough          (* passthroughs := MakeStrSetFromAttr("passthrough", endpt.GetAttrs()) *)
| VBuildFreshUnion         (* b := MakeBuilderfromStmt(model, endpt.GetStmt(), shared.Union(excludes), passthroughs) *)
| VParamsFromThisBuilder   (* &IntsParam{b.FinalApps, b.SeedAppsMap, b.DepsOut, app, endpt} *)
| VRender                  (* r[outputDir] = GenerateView(args, intsParam, model) *)
| VSharedTouched           (* any other statement of the loop that mentions the shared exclude set *)
| VUnknown.
