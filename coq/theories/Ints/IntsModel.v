(* C14 MODEL (definitions only, executable): pkg/integrationdiagram/ints_builder.go MakeBuilderfromStmt and
   the arrow loop of ints_view.go DrawIntsView, as Gallina functions that follow the Go control flow.

   Names are identifiers (N); ascending id = sorted name (the Go code iterates sorted names), the harness
   owns the id <-> string table.  The endpoint named ".. * <- *" (the collector) is an ordinary endpoint
   with [coll = true]: the three passes skip it, WalkPassthrough does not.

   Two switches select the code before / after the two repairs delivered with this property
   (fixes/C14-1.diff, fixes/C14-2.diff); the CURRENT code is [build ... true true]:
     g  = WalkPassthrough does not re-enter a pass-through endpoint that it is already expanding further up
          the call chain (b.walking; the entry is removed when the expansion returns).  g = false is the
          walk as it was written: nothing stops the recursion, so the fuel (= the Go stack) can run out
     x  = a listed app that is on the exclude list is not a seed
   No Panic outcome remains in the builder (IntsTerm.build_never_panics).
   Outside the model: statements with no kind set (ProcessCalls panics on them; the parser never builds
   one), the de-duplication key being the ':'-joined string rather than the 4-tuple, labels / colours.
   The rest of ints_view.go (package boxes, symbol table, the "system" view, mixin arrows, the EPA view) and the
   per-endpoint loop of GenerateIntegrations are in VModel.v; b.walking as shared state is in WalkDisc.v. *)
From Coq Require Import List NArith Bool.
Import ListNotations.
Local Open Scope N_scope.

Definition id := N.
Inductive stmt :=
| Call (app ep:id)                      (* Statement_Call *)
| Other                                 (* Statement_Action, Statement_Ret *)
| Block (body:list stmt)                (* Cond, Loop, LoopN, Foreach, Group *)
| Alt (choices:list (list stmt)).       (* Alt: every choice in order *)
Record endpoint := { hidden : bool; coll : bool; body : list stmt }.
Record app := { human : bool; eps : list (id * endpoint) }.
Definition module := list (id * app).

Inductive outcome (A:Type) := Ok (a:A) | Panic | OutOfFuel.
Arguments Ok {A}. Arguments Panic {A}. Arguments OutOfFuel {A}.

Fixpoint assoc {A} (k:id) (l:list (id*A)) : option A :=
  match l with [] => None | (j,x)::t => if N.eqb k j then Some x else assoc k t end.
Definition mem (k:id) (l:list id) := existsb (N.eqb k) l.

Definition node := (id * id)%type.              (* app, endpoint *)
Definition node_eqb (a b:node) : bool := N.eqb (fst a) (fst b) && N.eqb (snd a) (snd b).
Definition nmem (k:node) (l:list node) := existsb (node_eqb k) l.

Definition dep := (id * id * id * id)%type.     (* source app, source ep, target app, target ep *)
Definition dep_eqb (a b:dep) : bool :=
  match a, b with (a1,a2,a3,a4), (b1,b2,b3,b4) => N.eqb a1 b1 && N.eqb a2 b2 && N.eqb a3 b3 && N.eqb a4 b4 end.

(* IntsBuilder: DepsOut, FinalApps *)
Record st := { deps : list dep; final : list id }.

(* AddCall *)
Definition add_call (s:st) (d:dep) : st :=
  if existsb (dep_eqb d) (deps s) then s
  else {| deps := deps s ++ [d]; final := final s |}.
Definition add_final (s:st) (a:id) : st := {| deps := deps s; final := final s ++ [a] |}.

(* HasPattern(apps[target].GetAttrs(), "human") and
   HasPattern(apps[target].GetEndpoints()[ep].GetAttrs(), "hidden") go through the nil-safe getters: an
   undefined app is not human and none of its endpoints is hidden, a missing endpoint is not hidden; a call to
   such a target is recorded like any other.  (Before commit a405748 the second test read
   apps[target].Endpoints[ep] and panicked on an undefined app.)  The result type keeps the outcome shape of
   the handlers; target_hidden itself never returns Panic or OutOfFuel. *)
Definition target_human (m:module) (t:id) : bool := match assoc t m with Some a => human a | None => false end.
Definition target_hidden (m:module) (t e:id) : outcome bool :=
  match assoc t m with
  | None => Ok false
  | Some a => Ok (match assoc e (eps a) with Some x => hidden x | None => false end)
  end.

(* ProcessCalls: the handler on every call statement, in source order, at any depth *)
Section Walk.
  Variable handler : st -> id -> id -> outcome st.   (* state, target app, target ep *)
  Fixpoint walk_stmt (s:st) (x:stmt) {struct x} : outcome st :=
    match x with
    | Call t e => handler s t e
    | Other => Ok s
    | Block b => (fix go (s:st) (l:list stmt) : outcome st :=
                    match l with [] => Ok s | y::r => match walk_stmt s y with Ok s' => go s' r | e => e end end) s b
    | Alt cs => (fix goc (s:st) (l:list (list stmt)) : outcome st :=
                    match l with [] => Ok s
                    | c::r => match (fix go (s:st) (l:list stmt) : outcome st :=
                                 match l with [] => Ok s | y::r => match walk_stmt s y with Ok s' => go s' r | e => e end end) s c
                              with Ok s' => goc s' r | e => e end end) s cs
    end.
  Definition walk (s:st) (l:list stmt) : outcome st := walk_stmt s (Block l).
End Walk.

(* ---------- the call statements of a body, in source order, at any nesting depth ---------- *)
Fixpoint calls_stmt (x:stmt) : list node :=
  match x with
  | Call t e => [(t,e)]
  | Other => []
  | Block b => flat_map calls_stmt b
  | Alt cs => flat_map (flat_map calls_stmt) cs
  end.
Definition calls (l:list stmt) : list node := flat_map calls_stmt l.

(* every call target written anywhere in the module (collector endpoints included): the pass-through
   endpoints WalkPassthrough can ever expand are among these, so this bounds the recursion depth *)
Definition all_targets (m:module) : list node :=
  flat_map (fun ap => flat_map (fun ee => calls (body (snd ee))) (eps (snd ap))) m.
Definition fuel_bound (m:module) : nat := S (length (all_targets m)).

Section Builder.
  Variable m : module.
  Variable listed : list id.                    (* the Action statements of the project endpoint, in order *)
  Variable excludes passthrough : list id.
  Variable g x : bool.

  (* ProcessExcludeAndPassthrough + WalkPassthrough; one unit of fuel per invocation;
     stk = b.walking: the pass-through endpoints being expanded by the enclosing invocations *)
  Fixpoint pep (fuel:nat) (stk:list node) (src sep:id) (s:st) (t e:id) : outcome st :=
    match fuel with O => OutOfFuel | S f =>
      if mem t excludes then Ok s else
      if target_human m t then Ok s else
      match target_hidden m t e with
      | Ok h =>
          let s1 := if h then s else add_call s (src, sep, t, e) in
          let s2 := add_final s1 t in
          if mem t passthrough then
            if g && nmem (t,e) stk then Ok s2 else
            match assoc t m with
            | Some a => match assoc e (eps a) with
                        | Some ep => walk (pep f ((t,e)::stk) t e) s2 (body ep)
                        | None => Ok s2 end
            | None => Ok s2 end
          else Ok s2
      | Panic => Panic | OutOfFuel => OutOfFuel
      end
    end.

  Definition seed_ok (a:id) : bool :=
    match assoc a m with
    | Some ap => negb (human ap) && negb (x && mem a excludes)
    | None => false end.
  Definition seeds : list id := filter seed_ok listed.

  (* MyCallers *)
  Definition my_callers (src sep:id) (s:st) (t e:id) : outcome st :=
    if mem src excludes then Ok s else
    if negb (mem t seeds) then Ok s else
    if target_human m t then Ok s else
    match target_hidden m t e with
    | Ok h => Ok (add_final (if h then s else add_call s (src, sep, t, e)) src)
    | Panic => Panic | OutOfFuel => OutOfFuel end.

  (* IndirectCalls *)
  Definition indirect (finalset:list id) (src sep:id) (s:st) (t e:id) : outcome st :=
    if negb (mem t finalset) then Ok s else
    if target_human m t then Ok s else
    match target_hidden m t e with
    | Ok h => Ok (if h then s else add_call s (src, sep, t, e))
    | Panic => Panic | OutOfFuel => OutOfFuel end.

  (* for _, epname := range sortedSlice(endpoints) { if epname != collector { ProcessCalls(...) } } *)
  Fixpoint over_eps (h : id -> st -> id -> id -> outcome st) (l:list (id*endpoint)) (s:st) : outcome st :=
    match l with
    | [] => Ok s
    | (sep, ep) :: r =>
        if coll ep then over_eps h r s else
        match walk (h sep) s (body ep) with Ok s' => over_eps h r s' | err => err end
    end.
  (* for _, appname := range <apps> { app := apps[appname]; ... }  (nil app: GetEndpoints() is empty) *)
  Fixpoint over_apps (h : id -> id -> st -> id -> id -> outcome st) (apps:list id) (s:st) : outcome st :=
    match apps with
    | [] => Ok s
    | a :: r =>
        match assoc a m with
        | Some ap => match over_eps (h a) (eps ap) s with Ok s' => over_apps h r s' | err => err end
        | None => over_apps h r s
        end
    end.

  Definition build (fuel:nat) : outcome st :=
    let s0 := {| deps := []; final := seeds |} in
    match over_apps (pep fuel []) seeds s0 with
    | Ok s1 => match over_apps my_callers (map fst m) s1 with
               | Ok s2 => over_apps (indirect (final s2)) (final s2) s2
               | e => e end
    | e => e end.
End Builder.

(* ---------- DrawIntsView: one arrow per ordered pair of different apps, in dependency order ----------
   draw_indirect = (indirect_arrow_color <> "none"); an arrow is marked indirect when neither end is a seed *)
Definition arrow := (id * id * bool)%type.
Definition pair_eqb (a b:id*id) : bool := N.eqb (fst a) (fst b) && N.eqb (snd a) (snd b).
Fixpoint arrows_from (seedset:list id) (draw_indirect:bool) (drawn:list (id*id)) (ds:list dep) : list arrow :=
  match ds with
  | [] => []
  | (a,_,b,_) :: r =>
      if N.eqb a b then arrows_from seedset draw_indirect drawn r else
      let direct := mem a seedset || mem b seedset in
      if existsb (pair_eqb (a,b)) drawn then arrows_from seedset draw_indirect drawn r else
      if direct || draw_indirect
      then (a, b, negb direct) :: arrows_from seedset draw_indirect ((a,b)::drawn) r
      else arrows_from seedset draw_indirect drawn r
  end.
Definition plain_arrows (seedset:list id) (draw_indirect:bool) (ds:list dep) : list arrow :=
  arrows_from seedset draw_indirect [] ds.
