(* C14 proofs, part 1: ProcessCalls and the three passes are one monadic fold of the handler over the call
   statements (at any nesting depth, every block kind, in source order); generic invariant / progress /
   "every element is reached" lemmas for that fold. *)
From Coq Require Import List NArith Bool Lia.
Import ListNotations.
Require Import Verif.Ints.IntsModel.
Local Open Scope N_scope.

(* ---------- nested induction principle for statements ---------- *)
Section StmtInd.
  Variable P : stmt -> Prop.
  Hypothesis HC : forall a e, P (Call a e).
  Hypothesis HO : P Other.
  Hypothesis HB : forall b, Forall P b -> P (Block b).
  Hypothesis HA : forall cs, Forall (Forall P) cs -> P (Alt cs).
  Fixpoint stmt_ind' (x:stmt) : P x :=
    match x with
    | Call a e => HC a e
    | Other => HO
    | Block b => HB b ((fix go (l:list stmt) : Forall P l :=
                         match l with [] => Forall_nil _ | y::r => Forall_cons _ (stmt_ind' y) (go r) end) b)
    | Alt cs => HA cs ((fix goc (l:list (list stmt)) : Forall (Forall P) l :=
                         match l with [] => Forall_nil _
                         | c::r => Forall_cons _ ((fix go (l:list stmt) : Forall P l :=
                                     match l with [] => Forall_nil _ | y::r => Forall_cons _ (stmt_ind' y) (go r) end) c) (goc r)
                         end) cs)
    end.
End StmtInd.

(* ---------- the fold ---------- *)
Fixpoint foldM {X:Type} (h : st -> X -> outcome st) (s:st) (l:list X) : outcome st :=
  match l with
  | [] => Ok s
  | y::r => match h s y with Ok s' => foldM h s' r | err => err end
  end.

Lemma foldM_app {X} (h : st -> X -> outcome st) l1 : forall s l2,
  foldM h s (l1 ++ l2) = match foldM h s l1 with Ok s' => foldM h s' l2 | err => err end.
Proof.
  induction l1 as [|y r IH]; intros s l2; cbn [List.app foldM]; [reflexivity|].
  destruct (h s y); [apply IH|reflexivity|reflexivity].
Qed.

Lemma foldM_flat_map {X Y} (h : st -> X -> outcome st) (f : Y -> list X) l : forall s,
  foldM h s (flat_map f l) = foldM (fun s y => foldM h s (f y)) s l.
Proof.
  induction l as [|y r IH]; intros s; cbn [flat_map foldM]; [reflexivity|].
  rewrite foldM_app. destruct (foldM h s (f y)); [apply IH|reflexivity|reflexivity].
Qed.

Lemma foldM_ext {X} (h h' : st -> X -> outcome st) l :
  (forall s y, In y l -> h s y = h' s y) -> forall s, foldM h s l = foldM h' s l.
Proof.
  induction l as [|y r IH]; intros He s; cbn [foldM]; [reflexivity|].
  rewrite (He s y (or_introl eq_refl)). destruct (h' s y); try reflexivity.
  apply IH. intros s0 y0 Hy. apply He. right. exact Hy.
Qed.

Definition uncur (h : st -> id -> id -> outcome st) : st -> node -> outcome st := fun s c => h s (fst c) (snd c).

(* ProcessCalls is a fold of the handler over the call statements *)
Section WalkFold.
  Variable h : st -> id -> id -> outcome st.
  Let go := fix go (s:st) (l:list stmt) : outcome st :=
      match l with [] => Ok s | y::r => match walk_stmt h s y with Ok s' => go s' r | e => e end end.
  Lemma go_fold l : Forall (fun x => forall s, walk_stmt h s x = foldM (uncur h) s (calls_stmt x)) l ->
    forall s, go s l = foldM (uncur h) s (flat_map calls_stmt l).
  Proof.
    induction 1 as [|y r Hy _ IH]; intros s; cbn [flat_map]; [reflexivity|].
    rewrite foldM_app. cbn [go]. rewrite Hy. destruct (foldM (uncur h) s (calls_stmt y)); [apply IH|reflexivity|reflexivity].
  Qed.
  Lemma walk_stmt_fold x : forall s, walk_stmt h s x = foldM (uncur h) s (calls_stmt x).
  Proof.
    induction x as [a e| |b Hb|cs Hcs] using stmt_ind'; intros s.
    - cbn. unfold uncur. cbn [fst snd]. destruct (h s a e); reflexivity.
    - reflexivity.
    - cbn [walk_stmt calls_stmt]. apply (go_fold b Hb).
    - cbn [walk_stmt calls_stmt]. revert s. induction Hcs as [|c r Hc _ IH]; intros s; cbn [flat_map]; [reflexivity|].
      rewrite foldM_app. rewrite <- (go_fold c Hc s). fold go.
      destruct (go s c); [apply IH|reflexivity|reflexivity].
  Qed.
  Lemma walk_fold l s : walk h s l = foldM (uncur h) s (calls l).
  Proof. unfold walk. apply walk_stmt_fold. Qed.
End WalkFold.

(* ---------- the three passes as one fold over "sourced calls" ---------- *)
Definition scall := (id * id * id * id)%type.   (* source app, source endpoint, target app, target endpoint *)
Definition ep_scalls (a:id) (ee:id*endpoint) : list scall :=
  if coll (snd ee) then [] else map (fun c => (a, fst ee, fst c, snd c)) (calls (body (snd ee))).
Definition app_scalls (m:module) (a:id) : list scall :=
  match assoc a m with Some ap => flat_map (ep_scalls a) (eps ap) | None => [] end.
Definition scalls (m:module) (apps:list id) : list scall := flat_map (app_scalls m) apps.
Definition uncur4 (h : id -> id -> st -> id -> id -> outcome st) : st -> scall -> outcome st :=
  fun s c => match c with (a,sep,t,e) => h a sep s t e end.

Lemma foldM_map {X Y} (h : st -> X -> outcome st) (f : Y -> X) l : forall s,
  foldM h s (map f l) = foldM (fun s y => h s (f y)) s l.
Proof. induction l as [|y r IH]; intros s; cbn [map foldM]; [reflexivity|]. destruct (h s (f y)); [apply IH|reflexivity|reflexivity]. Qed.

Lemma over_eps_fold h a l : forall s,
  over_eps (h a) l s = foldM (uncur4 h) s (flat_map (ep_scalls a) l).
Proof.
  induction l as [|[sep ep] r IH]; intros s; cbn [over_eps flat_map]; [reflexivity|].
  rewrite foldM_app. unfold ep_scalls at 1. cbn [fst snd]. destruct (coll ep); cbn [foldM]; [apply IH|].
  rewrite walk_fold, foldM_map. cbn [uncur4].
  replace (foldM (fun s0 y => h a sep s0 (fst y) (snd y)) s (calls (body ep))) with (foldM (uncur (h a sep)) s (calls (body ep))) by reflexivity.
  destruct (foldM (uncur (h a sep)) s (calls (body ep))); [apply IH|reflexivity|reflexivity].
Qed.

Lemma over_apps_fold m h apps : forall s,
  over_apps m h apps s = foldM (uncur4 h) s (scalls m apps).
Proof.
  induction apps as [|a r IH]; intros s; cbn [over_apps]; [reflexivity|].
  unfold scalls. cbn [flat_map]. rewrite foldM_app. unfold app_scalls at 1.
  destruct (assoc a m) as [ap|]; cbn [foldM]; [|apply IH].
  rewrite over_eps_fold. destruct (foldM (uncur4 h) s (flat_map (ep_scalls a) (eps ap))); [apply IH|reflexivity|reflexivity].
Qed.

Lemma assoc_In {A} k (l:list (id*A)) v : assoc k l = Some v -> In (k,v) l.
Proof.
  induction l as [|[j y] r IH]; cbn [assoc]; [discriminate|].
  destruct (N.eqb_spec k j) as [->|_]; [intros [= ->]; left; reflexivity|intros H; right; apply IH, H].
Qed.

(* membership in the sourced calls *)
Lemma in_scalls m apps a sep t e :
  In (a,sep,t,e) (scalls m apps) <->
  In a apps /\ exists ap ep, assoc a m = Some ap /\ In (sep,ep) (eps ap) /\ coll ep = false /\ In (t,e) (calls (body ep)).
Proof.
  unfold scalls. rewrite in_flat_map. split.
  - intros (a' & Ha' & Hin). unfold app_scalls in Hin. destruct (assoc a' m) as [ap|] eqn:E; [|destruct Hin].
    apply in_flat_map in Hin. destruct Hin as ([sep' ep] & Hep & Hin). unfold ep_scalls in Hin. cbn [fst snd] in Hin.
    destruct (coll ep) eqn:Hc; [destruct Hin|]. apply in_map_iff in Hin. destruct Hin as ([t' e'] & [= <- <- <- <-] & Hc').
    split; [exact Ha'|]. exists ap, ep. auto.
  - intros (Ha & ap & ep & E & Hep & Hc & Hin). exists a. split; [exact Ha|]. unfold app_scalls. rewrite E.
    apply in_flat_map. exists (sep,ep). split; [exact Hep|]. unfold ep_scalls. cbn [fst snd]. rewrite Hc.
    apply in_map_iff. exists (t,e). split; [reflexivity|exact Hin].
Qed.

(* ---------- generic lemmas about the fold ---------- *)
Lemma foldM_inv {X} (I:st->Prop) (h : st -> X -> outcome st) l :
  (forall s y s', In y l -> I s -> h s y = Ok s' -> I s') ->
  forall s s', I s -> foldM h s l = Ok s' -> I s'.
Proof.
  induction l as [|y r IH]; intros Hh s s' Hs Hf; cbn [foldM] in Hf.
  - injection Hf as <-. exact Hs.
  - destruct (h s y) as [s1| |] eqn:E; try discriminate.
    apply (IH (fun s y0 s' Hin => Hh s y0 s' (or_intror Hin)) s1 s'); [|exact Hf].
    apply (Hh s y s1); [left; reflexivity|exact Hs|exact E].
Qed.

(* progress: an invariant under which no step runs out of fuel *)
Lemma foldM_prog {X} (I:st->Prop) (h : st -> X -> outcome st) l :
  (forall s y, In y l -> I s -> h s y <> OutOfFuel /\ forall s', h s y = Ok s' -> I s') ->
  forall s, I s -> foldM h s l <> OutOfFuel /\ forall s', foldM h s l = Ok s' -> I s'.
Proof.
  induction l as [|y r IH]; intros Hh s Hs; cbn [foldM].
  - split; [discriminate|intros s' [= <-]; exact Hs].
  - destruct (Hh s y (or_introl eq_refl) Hs) as [Hn Hi].
    destruct (h s y) as [s1| |] eqn:E; [|split; [discriminate|discriminate]|contradiction].
    apply IH; [intros s0 y0 Hy; apply Hh; right; exact Hy|apply Hi; reflexivity].
Qed.

(* every element is reached, in a state from which the final one is R-reachable *)
Lemma foldM_hit {X} (R:st->st->Prop) (h : st -> X -> outcome st) l :
  (forall s, R s s) -> (forall a b c, R a b -> R b c -> R a c) ->
  (forall s y s', In y l -> h s y = Ok s' -> R s s') ->
  forall s s', foldM h s l = Ok s' ->
    R s s' /\ forall y, In y l -> exists s1 s2, h s1 y = Ok s2 /\ R s2 s'.
Proof.
  intros Rr Rt. induction l as [|y r IH]; intros Hh s s' Hf; cbn [foldM] in Hf.
  - injection Hf as <-. split; [apply Rr|intros y []].
  - destruct (h s y) as [s1| |] eqn:E; try discriminate.
    destruct (IH (fun s y0 s' Hin => Hh s y0 s' (or_intror Hin)) s1 s' Hf) as [H1 H2].
    pose proof (Hh s y s1 (or_introl eq_refl) E) as H0.
    split; [eapply Rt; eassumption|].
    intros y0 [<-|Hy]; [exists s, s1; split; assumption|apply H2, Hy].
Qed.

Lemma mem_In k l : mem k l = true <-> In k l.
Proof.
  unfold mem. rewrite existsb_exists. split.
  - intros (y & Hy & E). apply N.eqb_eq in E. subst. exact Hy.
  - intros H. exists k. split; [exact H|apply N.eqb_refl].
Qed.
Lemma mem_false k l : mem k l = false <-> ~ In k l.
Proof. rewrite <- mem_In. destruct (mem k l); split; congruence. Qed.

Lemma node_eqb_eq a b : node_eqb a b = true <-> a = b.
Proof.
  destruct a as [a1 a2], b as [b1 b2]. unfold node_eqb. cbn [fst snd]. rewrite andb_true_iff, !N.eqb_eq.
  split; [intros [-> ->]; reflexivity|intros [= -> ->]; split; reflexivity].
Qed.
Lemma nmem_In k l : nmem k l = true <-> In k l.
Proof.
  unfold nmem. rewrite existsb_exists. split.
  - intros (y & Hy & E). apply node_eqb_eq in E. subst. exact Hy.
  - intros H. exists k. split; [exact H|apply node_eqb_eq; reflexivity].
Qed.

Lemma dep_eqb_eq a b : dep_eqb a b = true <-> a = b.
Proof.
  destruct a as [[[a1 a2] a3] a4], b as [[[b1 b2] b3] b4]. cbn [dep_eqb]. rewrite !andb_true_iff, !N.eqb_eq.
  split; [intros [[[-> ->] ->] ->]; reflexivity|intros [= -> -> -> ->]; auto].
Qed.
Lemma dep_mem_In d l : existsb (dep_eqb d) l = true <-> In d l.
Proof.
  rewrite existsb_exists. split.
  - intros (y & Hy & E). apply dep_eqb_eq in E. subst. exact Hy.
  - intros H. exists d. split; [exact H|apply dep_eqb_eq; reflexivity].
Qed.
