(* C14 MODEL, part 2 (definitions only, executable): the rest of pkg/integrationdiagram/ints_view.go.

     GenerateIntsView   = BuildClusterForIntsView (package boxes; only when clustered) ; DrawIntsView
     DrawIntsView       = the arrow loop + the mixin loop, or DrawSystemView when the endpoint says view=system
     GenerateEPAView    = BuildClusterForEPAView (one state box per app, one state per endpoint / "client") ; arrow loop
     VarManagerForComponent / VarManagerForTopState / VarManagerForEPA = the symbol tables (first mention declares)

   A diagram is a list of events [ev], one per line of PlantUML after the skinparam block.  Strings are label
   ids (N) from ONE table owned by the harness (equal id <-> equal string, ascending id = sort.Strings order):
   full app names, names without their last part (package names), last parts, first parts.  What the views
   read beyond the builder's module is the side table [vinfo]: the split of every app name
   (syslutil.SplitAppNameParts), Mixin2, the is_pubsub flag of endpoints, and who carries the attribute that
   `restrict_by` names.

   Switch [k] selects the code before / after repair C14-3; the CURRENT code is k = true:
     k = true   v.Symbols is keyed by the app's own (full) name; the short name is only what the box shows
     k = false  v.Symbols is keyed by the name AFTER the nameMap renaming, so in a clustered view two apps
                with the same last part ("B" and "G :: B") are one component

   Outside the model: the skinparam header and title, label formats other than the defaults (appfmt, epfmt:
   the text after " : " on an EPA arrow, pattern lists), the colour names. *)
From Coq Require Import List NArith Bool.
Import ListNotations.
Require Import Verif.Ints.IntsModel.
Local Open Scope N_scope.

Record nm := { n_full : N; n_pre : option N; n_short : N; n_first : N }.
Record vinfo := {
  names  : list (id * nm);          (* every app id that can occur (defined or not) *)
  mixins : list (id * list id);     (* defined app -> its Mixin2 names, in order *)
  app_r  : list id;                 (* defined apps that carry the attribute named by restrict_by *)
  ep_r   : list node;               (* endpoints that carry it *)
  pubsub : list node                (* endpoints with is_pubsub *)
}.

Inductive ev :=
| EvPkg (c:N)                                   (* package "c" {                         *)
| EvEnd                                         (* }                                     *)
| EvComp (key label:N) (hl:bool)                (* [label] as _i [<<highlight>>]   (i = number of components so far) *)
| EvArrow (ka kb:N) (indirect:bool)             (* _i --> _j [<<indirect>>]        (by symbol-table key) *)
| EvMixin (kmx ka:N)                            (* _i <|.. _j                            *)
| EvTop (a:id) (hl:bool)                        (* state "app" as X_i [<<highlight>>] {  *)
| EvState (a:id) (mb:N) (hl:bool)               (*   state "member" as _j [<<highlight>>] ; member = 2*ep (+1: "ep client") *)
| EvEArrow (a:id) (ma:N) (b:id) (mb:N) (col:N). (* _i -[#colour]> _j ; col 0 = -[#c]-> (silver / indirect colour), 1 = [#blue], 2 = [#black] *)

Definition nm_of (vi:vinfo) (a:id) : nm :=
  match assoc a (names vi) with Some n => n | None => {| n_full := a; n_pre := None; n_short := a; n_first := a |} end.

(* sort.Strings + de-duplication (StrSet.ToSortedSlice, sorted map keys) *)
Fixpoint insert_sorted (x:N) (l:list N) : list N :=
  match l with
  | [] => [x]
  | y :: r => if x <? y then x :: l else if x =? y then l else y :: insert_sorted x r
  end.
Definition sort_dedup (l:list N) : list N := fold_right insert_sorted [] l.

Definition triple_eqb (a b:id*id*id) : bool :=
  match a, b with (a1,a2,a3), (b1,b2,b3) => N.eqb a1 b1 && N.eqb a2 b2 && N.eqb a3 b3 end.

(* ================= component diagrams: plain, clustered, system ================= *)
Section Comp.
  Variable vi : vinfo.
  Variable k : bool.
  Variable seedset : list id.        (* params.DrawableApps = b.SeedAppsMap *)
  Variable di : bool.                (* indirect_arrow_color <> "none" *)

  Definition full (a:id) : N := n_full (nm_of vi a).
  (* _, ok := v.DrawableApps[appName]  (a lookup by string) *)
  Definition hl_lbl (l:N) : bool := existsb (fun s => N.eqb (full s) l) seedset.
  Definition resolve (nmap:list (N*N)) (l:N) : N := match assoc l nmap with Some s => s | None => l end.

  (* VarManagerForComponent: events written, new symbol table, key of the component *)
  Definition vm_comp (nmap:list (N*N)) (sym:list N) (l:N) : list ev * list N * N :=
    let l' := resolve nmap l in
    let key := if k then l else l' in
    if mem key sym then ([], sym, key) else ([EvComp key l' (hl_lbl l')], sym ++ [key], key).

  (* the arrow loop of DrawIntsView (sys = false) and of DrawSystemView (sys = true: the ends are replaced by
     their first name part AFTER the pair and the direct test have been taken from the full names) *)
  Fixpoint draw_deps (sys:bool) (nmap:list (N*N)) (drawn:list (id*id)) (sym:list N) (ds:list dep) : list ev * list N :=
    match ds with
    | [] => ([], sym)
    | (a,_,b,_) :: r =>
        if N.eqb a b then draw_deps sys nmap drawn sym r else
        let direct := mem a seedset || mem b seedset in
        if existsb (pair_eqb (a,b)) drawn then draw_deps sys nmap drawn sym r else
        if direct || di then
          let la := if sys then n_first (nm_of vi a) else full a in
          let lb := if sys then n_first (nm_of vi b) else full b in
          match vm_comp nmap sym la with (e1, s1, ka) =>
          match vm_comp nmap s1 lb with (e2, s2, kb) =>
          match draw_deps sys nmap ((a,b)::drawn) s2 r with (er, sr) =>
            (e1 ++ e2 ++ EvArrow ka kb (negb direct) :: er, sr)
          end end end
        else draw_deps sys nmap drawn sym r
    end.

  (* for _, app := range params.Apps { for _, mixin := range v.Mod.Apps[app].GetMixin2() { ... } } *)
  Fixpoint draw_mixins_of (nmap:list (N*N)) (sym:list N) (a:id) (mxs:list id) : list ev * list N :=
    match mxs with
    | [] => ([], sym)
    | mx :: r =>
        match vm_comp nmap sym (full mx) with (e1, s1, k1) =>
        match vm_comp nmap s1 (full a) with (e2, s2, k2) =>
        match draw_mixins_of nmap s2 a r with (er, sr) => (e1 ++ e2 ++ EvMixin k1 k2 :: er, sr) end end end
    end.
  Definition mixins_of (a:id) : list id := match assoc a (mixins vi) with Some l => l | None => [] end.
  Fixpoint draw_mixins (nmap:list (N*N)) (sym:list N) (apps:list id) : list ev :=
    match apps with
    | [] => []
    | a :: r => match draw_mixins_of nmap sym a (mixins_of a) with (e, s) => e ++ draw_mixins nmap s r end
    end.

  (* BuildClusterForIntsView(apps): apps = FinalApps, repeats included *)
  Definition pre_of (a:id) : option N := n_pre (nm_of vi a).
  Definition members (c:N) (apps:list id) : list id :=
    filter (fun a => match pre_of a with Some c' => N.eqb c c' | None => false end) apps.
  Definition cluster_names (apps:list id) : list N :=
    sort_dedup (flat_map (fun a => match pre_of a with Some c => [c] | None => [] end) apps).
  (* if len(v) <= 1 { delete(clusters, k) } *)
  Definition kept_clusters (apps:list id) : list N :=
    filter (fun c => Nat.ltb 1 (List.length (members c apps))) (cluster_names apps).
  (* nameMap[s] = last part, for every app with more than one part, kept cluster or not *)
  Definition name_map (apps:list id) : list (N*N) :=
    flat_map (fun a => match pre_of a with Some _ => [(full a, n_short (nm_of vi a))] | None => [] end) apps.
  Fixpoint draw_members (nmap:list (N*N)) (sym:list N) (l:list id) : list ev * list N :=
    match l with
    | [] => ([], sym)
    | a :: r => match vm_comp nmap sym (full a) with (e1, s1, _) =>
                match draw_members nmap s1 r with (er, sr) => (e1 ++ er, sr) end end
    end.
  Fixpoint draw_packages (nmap:list (N*N)) (apps:list id) (sym:list N) (cs:list N) : list ev * list N :=
    match cs with
    | [] => ([], sym)
    | c :: r => match draw_members nmap sym (members c apps) with (e, s) =>
                match draw_packages nmap apps s r with (er, sr) => (EvPkg c :: e ++ EvEnd :: er, sr) end end
    end.

  (* GenerateIntsView after the header *)
  Definition ints_view (clustered sys:bool) (apps:list id) (ds:list dep) : list ev :=
    let nmap := if clustered then name_map apps else [] in
    match (if clustered then draw_packages nmap apps [] (kept_clusters apps) else ([], [])) with (e0, s0) =>
    match draw_deps sys nmap [] s0 ds with (e1, s1) =>
      e0 ++ e1 ++ (if sys then [] else draw_mixins nmap s1 apps)
    end end.
End Comp.

(* ================= the endpoint-analysis (EPA) view ================= *)
Section Epa.
  Variable vi : vinfo.
  Variable seedset : list id.
  Variable rb : bool.                (* restrict_by <> "" *)

  (* the two `continue` tests, the same in BuildClusterForEPAView and in the arrow loop of GenerateEPAView *)
  Definition passes (d:dep) : bool :=
    match d with (a,sa,b,sb) =>
      negb (rb && negb (mem a (app_r vi)) && negb (mem b (app_r vi))) &&
      negb (rb && negb (nmem (a,sa) (ep_r vi)) && negb (nmem (b,sb) (ep_r vi)))
    end.
  Definition is_ps (a sa:id) : bool := nmem (a,sa) (pubsub vi).
  Definition m_ep (e:id) : N := 2 * e.
  Definition m_client (e:id) : N := 2 * e + 1.

  (* clusters[k], in append order *)
  Definition epa_members (ds:list dep) (k:id) : list N :=
    flat_map (fun d => match d with (a,sa,b,sb) =>
      if passes d then
        (if N.eqb a k then m_ep sa :: (if negb (N.eqb a b) && negb (is_ps a sa) then [m_client sb] else []) else [])
        ++ (if N.eqb b k then [m_ep sb] else [])
      else [] end) ds.
  Definition epa_keys (ds:list dep) : list id :=
    sort_dedup (flat_map (fun d => match d with (a,_,b,_) => if passes d then [a; b] else [] end) ds).

  (* VarManagerForEPA(app + " : " + member) *)
  Definition vm_epa (sym:list node) (a:id) (mb:N) : list ev * list node :=
    if nmem (a,mb) sym then ([], sym) else ([EvState a mb (mem a seedset)], sym ++ [(a,mb)]).
  Fixpoint epa_states (sym:list node) (a:id) (ms:list N) : list ev * list node :=
    match ms with
    | [] => ([], sym)
    | mb :: r => match vm_epa sym a mb with (e1, s1) =>
                 match epa_states s1 a r with (er, sr) => (e1 ++ er, sr) end end
    end.
  (* VarManagerForTopState(k): the keys are distinct, so its "already declared" branch is never taken *)
  Fixpoint epa_clusters (sym:list node) (ds:list dep) (ks:list id) : list ev * list node :=
    match ks with
    | [] => ([], sym)
    | a :: r => match epa_states sym a (sort_dedup (epa_members ds a)) with (e, s) =>
                match epa_clusters s ds r with (er, sr) => (EvTop a (mem a seedset) :: e ++ EvEnd :: er, sr) end end
    end.

  Fixpoint epa_arrows (processed:list (id*id*id)) (sym:list node) (ds:list dep) : list ev :=
    match ds with
    | [] => []
    | (a,sa,b,sb) :: r =>
        if negb (passes (a,sa,b,sb)) then epa_arrows processed sym r else
        if negb (N.eqb a b) then
          if is_ps a sa then
            match vm_epa sym a (m_ep sa) with (e1, s1) =>
            match vm_epa s1 b (m_ep sb) with (e2, s2) =>
              e1 ++ e2 ++ EvEArrow a (m_ep sa) b (m_ep sb) 1 :: epa_arrows processed s2 r end end
          else
            match vm_epa sym a (m_ep sa) with (e1, s1) =>
            match vm_epa s1 a (m_client sb) with (e2, s2) =>
              if existsb (triple_eqb (a,sb,b)) processed
              then e1 ++ e2 ++ EvEArrow a (m_ep sa) a (m_client sb) 0 :: epa_arrows processed s2 r
              else
                match vm_epa s2 a (m_client sb) with (e3, s3) =>
                match vm_epa s3 b (m_ep sb) with (e4, s4) =>
                  e1 ++ e2 ++ EvEArrow a (m_ep sa) a (m_client sb) 0 ::
                  e3 ++ e4 ++ EvEArrow a (m_client sb) b (m_ep sb) 2 :: epa_arrows ((a,sb,b)::processed) s4 r
                end end
            end end
        else
          match vm_epa sym a (m_ep sa) with (e1, s1) =>
          match vm_epa s1 b (m_ep sb) with (e2, s2) =>
            e1 ++ e2 ++ EvEArrow a (m_ep sa) b (m_ep sb) 0 :: epa_arrows processed s2 r end end
    end.

  Definition epa_view (ds:list dep) : list ev :=
    match epa_clusters [] ds (epa_keys ds) with (e0, s0) => e0 ++ epa_arrows [] s0 ds end.
End Epa.

(* ================= GenerateView: which diagram an endpoint of the project gets ================= *)
(* args.Epa || view = "epa" -> EPA; otherwise the component diagram, clustered when args.Clustered || view =
   "clustered", the system arrows when view = "system" *)
Inductive vkind := VPlain | VClustered | VEpa | VSystem.
Record vparams := { cli_clustered : bool; cli_epa : bool; attr_view : vkind; p_di : bool; p_rb : bool }.
Definition generate_view (vi:vinfo) (k:bool) (p:vparams) (seedset:list id) (apps:list id) (ds:list dep) : list ev :=
  if cli_epa p || match attr_view p with VEpa => true | _ => false end
  then epa_view vi seedset (p_rb p) ds
  else ints_view vi k seedset (p_di p)
         (cli_clustered p || match attr_view p with VClustered => true | _ => false end)
         (match attr_view p with VSystem => true | _ => false end) apps ds.

(* ================= GenerateIntegrations: one diagram per endpoint of the project, keyed by output name ========
   for _, epname := range sortedSlice(app.GetEndpoints()) {
       outputDir := of.FmtOutput(project, epname, longname, attrs)        -- [pv_out], a label id
       if Filter != "" && !regexp.MustCompile(Filter).MatchString(outputDir) { continue }   -- [pv_match]
       ... b := MakeBuilderfromStmt(model, stmts, cli.Union(own excludes), own passthrough)
       r[outputDir] = GenerateView(args, params-of-b, model)              -- a later endpoint with the same name overwrites
   }
   The expansion of the output template and the regular expression are outside the model: the harness supplies
   both per endpoint from its own reading of the template (and the real result must have exactly those keys). *)
Record pview := { pv_out : N; pv_match : bool; pv_listed : list id; pv_ex : list id; pv_pt : list id; pv_par : vparams }.

Definition render1 (m:module) (vi:vinfo) (k:bool) (cli:list id) (fuel:nat) (v:pview) : option (list ev) :=
  let ex := cli ++ pv_ex v in
  match build m (pv_listed v) ex (pv_pt v) true true fuel with
  | Ok s => Some (generate_view vi k (pv_par v) (seeds m (pv_listed v) ex true) (final s) (deps s))
  | _ => None
  end.

Fixpoint upd {V:Type} (o:N) (x:V) (l:list (N*V)) : list (N*V) :=
  match l with
  | [] => [(o,x)]
  | (o',y) :: r => if N.eqb o o' then (o,x) :: r else (o',y) :: upd o x r
  end.

Fixpoint gen_map {V:Type} (render:pview -> V) (vs:list pview) (acc:list (N*V)) : list (N*V) :=
  match vs with
  | [] => acc
  | v :: r => gen_map render r (if pv_match v then upd (pv_out v) (render v) acc else acc)
  end.

Definition generate_integrations (m:module) (vi:vinfo) (k:bool) (cli:list id) (fuel:nat) (vs:list pview)
  : list (N * option (list ev)) := gen_map (render1 m vi k cli fuel) vs [].
