(* C14 proofs, part 2: soundness, no duplicates, completeness of the dependency list, for both settings of
   the pass-through guard; soundness needs "no seed is excluded", which the current seed filter (x = true)
   guarantees and the code before the repair did not (refutation at the end). *)
From Coq Require Import List NArith Bool Lia.
Import ListNotations.
Require Import Verif.Ints.IntsModel Verif.Ints.IntsFold.
Local Open Scope N_scope.

Lemma add_call_final s d : final (add_call s d) = final s.
Proof. unfold add_call. destruct (existsb _ _); reflexivity. Qed.
Lemma add_call_In s d : In d (deps (add_call s d)).
Proof.
  unfold add_call. destruct (existsb (dep_eqb d) (deps s)) eqn:E; [apply dep_mem_In, E|].
  cbn [deps]. apply in_app_iff. right. left. reflexivity.
Qed.
Lemma add_call_incl s d : incl (deps s) (deps (add_call s d)).
Proof. unfold add_call. destruct (existsb _ _); [apply incl_refl|]. cbn [deps]. apply incl_appl, incl_refl. Qed.
Lemma add_call_deps s d : deps (add_call s d) = deps s \/ (~ In d (deps s) /\ deps (add_call s d) = deps s ++ [d]).
Proof.
  unfold add_call. destruct (existsb (dep_eqb d) (deps s)) eqn:E; [left; reflexivity|right].
  split; [|reflexivity]. intros H. apply dep_mem_In in H. congruence.
Qed.

Section Props.
  Variable m : module.
  Variable listed excludes passthrough : list id.
  Variable g x : bool.

  Notation pep := (pep m excludes passthrough g).
  Notation seeds := (seeds m listed excludes x).
  Notation my_callers := (my_callers m listed excludes x).
  Notation build := (build m listed excludes passthrough g x).

  (* a call statement of endpoint sep of app src, to endpoint e of app t, at any nesting depth *)
  Definition has_call (src sep t e:id) : Prop :=
    exists a ep, assoc src m = Some a /\ In (sep, ep) (eps a) /\ In (t,e) (calls (body ep)).

  (* ---------- one induction over the pass-through recursion, for every invariant we need ---------- *)
  Section PepInv.
    Variable J : st -> Prop.
    Variable Q : id -> id -> id -> id -> Prop.
    Hypothesis J_call : forall s src sep t e, J s -> Q src sep t e -> mem t excludes = false -> J (add_call s (src,sep,t,e)).
    Hypothesis J_final : forall s t, J s -> mem t excludes = false -> J (add_final s t).
    Hypothesis Q_step : forall t e a ep t' e', mem t excludes = false -> assoc t m = Some a -> assoc e (eps a) = Some ep ->
      In (t',e') (calls (body ep)) -> Q t e t' e'.

    Lemma pep_inv : forall fuel stk src sep s t e s', Q src sep t e -> J s -> pep fuel stk src sep s t e = Ok s' -> J s'.
    Proof.
      induction fuel as [|f IH]; intros stk src sep s t e s' Hq Hs Hp; cbn [IntsModel.pep] in Hp; [discriminate|].
      destruct (mem t excludes) eqn:Hex; [injection Hp as <-; exact Hs|].
      destruct (target_human m t); [injection Hp as <-; exact Hs|].
      destruct (target_hidden m t e) as [h| |]; try discriminate.
      set (s1 := if h then s else add_call s (src, sep, t, e)) in Hp.
      assert (Hs1 : J s1) by (unfold s1; destruct h; [exact Hs|apply J_call; assumption]).
      pose proof (J_final s1 t Hs1 Hex) as Hs2.
      destruct (mem t passthrough); [|injection Hp as <-; exact Hs2].
      destruct (g && nmem (t, e) stk); [injection Hp as <-; exact Hs2|].
      destruct (assoc t m) as [a|] eqn:Ha; [|injection Hp as <-; exact Hs2].
      destruct (assoc e (eps a)) as [ep|] eqn:Hep; [|injection Hp as <-; exact Hs2].
      rewrite walk_fold in Hp.
      eapply (foldM_inv J (uncur (pep f ((t,e)::stk) t e)) (calls (body ep))); [|exact Hs2|exact Hp].
      intros s0 [t0 e0] s0' Hin Hs0 Hstep. unfold uncur in Hstep. cbn [fst snd] in Hstep.
      eapply IH; [|exact Hs0|exact Hstep]. eapply Q_step; eassumption.
    Qed.
  End PepInv.

  (* ---------- soundness ---------- *)
  Definition good (d:dep) : Prop :=
    match d with (src,sep,t,e) => has_call src sep t e /\ mem src excludes = false /\ mem t excludes = false end.
  Definition I (s:st) : Prop := forall d, In d (deps s) -> good d.
  Definition FE (s:st) : Prop := forall a, In a (final s) -> mem a excludes = false.
  Definition IF (s:st) : Prop := I s /\ FE s.

  Lemma I_add_call s d : I s -> good d -> I (add_call s d).
  Proof.
    intros Hs Hd d' Hin. destruct (add_call_deps s d) as [E|[_ E]]; rewrite E in Hin; [apply Hs, Hin|].
    apply in_app_iff in Hin. destruct Hin as [Hin|[<-|[]]]; [apply Hs, Hin|exact Hd].
  Qed.
  Lemma FE_add_final s a : FE s -> mem a excludes = false -> FE (add_final s a).
  Proof. intros Hs Ha b Hb. cbn [add_final final] in Hb. apply in_app_iff in Hb. destruct Hb as [Hb|[<-|[]]]; [apply Hs, Hb|exact Ha]. Qed.
  Lemma FE_add_call s d : FE s -> FE (add_call s d).
  Proof. intros Hs b Hb. rewrite add_call_final in Hb. apply Hs, Hb. Qed.

  Lemma pep_sound fuel stk src sep s t e s' :
    has_call src sep t e -> mem src excludes = false -> IF s -> pep fuel stk src sep s t e = Ok s' -> IF s'.
  Proof.
    intros Hc Hsrc. apply (pep_inv IF (fun src sep t e => has_call src sep t e /\ mem src excludes = false)).
    - intros s0 src0 sep0 t0 e0 [Hi Hf] [Hc0 Hs0] Ht0. split; [|apply FE_add_call, Hf].
      apply I_add_call; [exact Hi|]. split; [exact Hc0|split; assumption].
    - intros s0 t0 [Hi Hf] Ht0. split; [exact Hi|apply FE_add_final; assumption].
    - intros t0 e0 a ep t' e' Hex Ha Hep Hin. split; [|exact Hex]. exists a, ep. split; [exact Ha|split; [apply assoc_In, Hep|exact Hin]].
    - split; assumption.
  Qed.

  Lemma my_callers_sound src sep s t e s' :
    (forall a, In a seeds -> mem a excludes = false) ->
    has_call src sep t e -> IF s -> my_callers src sep s t e = Ok s' -> IF s'.
  Proof.
    intros Hse Hc [Hi Hf] Hp. unfold IntsModel.my_callers in Hp.
    destruct (mem src excludes) eqn:Hsrc; [injection Hp as <-; split; assumption|].
    destruct (mem t seeds) eqn:Hseed; cbn [negb] in Hp; [|injection Hp as <-; split; assumption].
    destruct (target_human m t); [injection Hp as <-; split; assumption|].
    destruct (target_hidden m t e) as [h| |]; try discriminate. injection Hp as <-.
    assert (Ht : mem t excludes = false) by (apply Hse, mem_In, Hseed).
    destruct h.
    - split; [exact Hi|apply FE_add_final; assumption].
    - split; [|apply FE_add_final; [apply FE_add_call, Hf|exact Hsrc]].
      intros d Hd. cbn [add_final deps] in Hd. revert d Hd. apply I_add_call; [exact Hi|]. split; [exact Hc|split; assumption].
  Qed.

  Lemma indirect_sound fs src sep s t e s' :
    (forall a, mem a fs = true -> mem a excludes = false) ->
    has_call src sep t e -> mem src excludes = false -> I s -> indirect m fs src sep s t e = Ok s' -> I s'.
  Proof.
    intros Hfe Hc Hsrc Hs Hp. unfold indirect in Hp.
    destruct (mem t fs) eqn:Hf; cbn [negb] in Hp; [|injection Hp as <-; exact Hs].
    destruct (target_human m t); [injection Hp as <-; exact Hs|].
    destruct (target_hidden m t e) as [h| |]; try discriminate. injection Hp as <-.
    destruct h; [exact Hs|]. apply I_add_call; [exact Hs|]. split; [exact Hc|split; [exact Hsrc|apply Hfe, Hf]].
  Qed.

  Lemma scall_has_call apps a sep t e : In (a,sep,t,e) (scalls m apps) -> In a apps /\ has_call a sep t e.
  Proof. intros H. apply in_scalls in H. destruct H as (Ha & ap & ep & E & Hep & _ & Hin). split; [exact Ha|]. exists ap, ep. auto. Qed.

  Theorem build_sound_gen fuel s :
    (forall a, In a seeds -> mem a excludes = false) ->
    build fuel = Ok s ->
    forall src sep t e, In (src,sep,t,e) (deps s) ->
      has_call src sep t e /\ mem src excludes = false /\ mem t excludes = false.
  Proof.
    intros Hse Hb. unfold IntsModel.build in Hb.
    set (s0 := {| deps := []; final := seeds |}) in Hb.
    assert (J0 : IF s0) by (split; [intros d []|intros a Ha; apply Hse, Ha]).
    destruct (over_apps m (pep fuel []) seeds s0) as [s1| |] eqn:E1; try discriminate.
    rewrite over_apps_fold in E1.
    assert (J1 : IF s1).
    { eapply (foldM_inv IF); [|exact J0|exact E1].
      intros s2 [[[a sep] t] e] s2' Hin Hs2 Hstep. cbn [uncur4] in Hstep. apply scall_has_call in Hin. destruct Hin as [Ha Hc].
      eapply pep_sound; [exact Hc|apply Hse, Ha|exact Hs2|exact Hstep]. }
    destruct (over_apps m my_callers (map fst m) s1) as [s2| |] eqn:E2; try discriminate.
    rewrite over_apps_fold in E2.
    assert (J2 : IF s2).
    { eapply (foldM_inv IF); [|exact J1|exact E2].
      intros s3 [[[a sep] t] e] s3' Hin Hs3 Hstep. cbn [uncur4] in Hstep. apply scall_has_call in Hin. destruct Hin as [_ Hc].
      eapply my_callers_sound; [exact Hse|exact Hc|exact Hs3|exact Hstep]. }
    rewrite over_apps_fold in Hb.
    assert (J3 : I s).
    { eapply (foldM_inv I); [|exact (proj1 J2)|exact Hb].
      intros s3 [[[a sep] t] e] s3' Hin Hs3 Hstep. cbn [uncur4] in Hstep. apply scall_has_call in Hin. destruct Hin as [Ha Hc].
      eapply indirect_sound; [|exact Hc|apply (proj2 J2), Ha|exact Hs3|exact Hstep].
      intros b Hb'. apply (proj2 J2), mem_In, Hb'. }
    intros src sep t e Hin. apply (J3 _ Hin).
  Qed.

  (* ---------- no duplicates ---------- *)
  Definition ND (s:st) : Prop := NoDup (deps s).
  Lemma NoDup_snoc {A} (l:list A) d : NoDup l -> ~ In d l -> NoDup (l ++ [d]).
  Proof.
    induction 1 as [|a l Ha Hl IH]; intros Hd; cbn [List.app].
    - constructor; [intros []|constructor].
    - constructor.
      + rewrite in_app_iff. intros [H1|[H1|[]]]; [contradiction|]. subst. apply Hd. left. reflexivity.
      + apply IH. intros H3. apply Hd. right. exact H3.
  Qed.
  Lemma ND_add_call s d : ND s -> ND (add_call s d).
  Proof.
    unfold ND. intros H. destruct (add_call_deps s d) as [E|[Hn E]]; rewrite E; [exact H|].
    apply NoDup_snoc; assumption.
  Qed.

  Theorem build_nodup fuel s : build fuel = Ok s -> NoDup (deps s).
  Proof.
    intros Hb. unfold IntsModel.build in Hb.
    set (s0 := {| deps := []; final := seeds |}) in Hb.
    assert (J0 : ND s0) by constructor.
    destruct (over_apps m (pep fuel []) seeds s0) as [s1| |] eqn:E1; try discriminate.
    rewrite over_apps_fold in E1.
    assert (J1 : ND s1).
    { eapply (foldM_inv ND); [|exact J0|exact E1].
      intros s2 [[[a sep] t] e] s2' _ Hs2 Hstep. cbn [uncur4] in Hstep.
      eapply (pep_inv ND (fun _ _ _ _ => True)); [| | |exact Logic.I|exact Hs2|exact Hstep]; auto using ND_add_call. }
    destruct (over_apps m my_callers (map fst m) s1) as [s2| |] eqn:E2; try discriminate.
    rewrite over_apps_fold in E2.
    assert (J2 : ND s2).
    { eapply (foldM_inv ND); [|exact J1|exact E2].
      intros s3 [[[a sep] t] e] s3' _ Hs3 Hstep. cbn [uncur4] in Hstep. unfold IntsModel.my_callers in Hstep.
      destruct (mem a excludes); [injection Hstep as <-; exact Hs3|].
      destruct (negb (mem t seeds)); [injection Hstep as <-; exact Hs3|].
      destruct (target_human m t); [injection Hstep as <-; exact Hs3|].
      destruct (target_hidden m t e) as [h| |]; try discriminate. injection Hstep as <-.
      destruct h; [exact Hs3|]. unfold ND. cbn [add_final deps]. apply ND_add_call, Hs3. }
    rewrite over_apps_fold in Hb.
    eapply (foldM_inv ND); [|exact J2|exact Hb].
    intros s3 [[[a sep] t] e] s3' _ Hs3 Hstep. cbn [uncur4] in Hstep. unfold indirect in Hstep.
    destruct (negb (mem t (final s2))); [injection Hstep as <-; exact Hs3|].
    destruct (target_human m t); [injection Hstep as <-; exact Hs3|].
    destruct (target_hidden m t e) as [h| |]; try discriminate. injection Hstep as <-.
    destruct h; [exact Hs3|]. apply ND_add_call, Hs3.
  Qed.

  (* ---------- completeness ---------- *)
  Definition R (s s':st) : Prop := incl (deps s) (deps s').
  Lemma R_refl s : R s s. Proof. apply incl_refl. Qed.
  Lemma R_trans a b c : R a b -> R b c -> R a c. Proof. apply incl_tran. Qed.

  Lemma pep_mono fuel stk src sep s t e s' : pep fuel stk src sep s t e = Ok s' -> R s s'.
  Proof.
    intros Hp. eapply (pep_inv (R s) (fun _ _ _ _ => True)); [| | |exact Logic.I|apply R_refl|exact Hp]; auto.
    - intros s0 src0 sep0 t0 e0 H _ _. eapply R_trans; [exact H|apply add_call_incl].
  Qed.
  Lemma my_callers_mono src sep s t e s' : my_callers src sep s t e = Ok s' -> R s s'.
  Proof.
    unfold IntsModel.my_callers. intros Hstep.
    destruct (mem src excludes); [injection Hstep as <-; apply R_refl|].
    destruct (negb (mem t seeds)); [injection Hstep as <-; apply R_refl|].
    destruct (target_human m t); [injection Hstep as <-; apply R_refl|].
    destruct (target_hidden m t e) as [h| |]; try discriminate. injection Hstep as <-.
    destruct h; unfold R; cbn [add_final deps]; [apply incl_refl|apply add_call_incl].
  Qed.
  Lemma indirect_mono fs src sep s t e s' : indirect m fs src sep s t e = Ok s' -> R s s'.
  Proof.
    unfold indirect. intros Hstep.
    destruct (negb (mem t fs)); [injection Hstep as <-; apply R_refl|].
    destruct (target_human m t); [injection Hstep as <-; apply R_refl|].
    destruct (target_hidden m t e) as [h| |]; try discriminate. injection Hstep as <-.
    destruct h; [apply R_refl|apply add_call_incl].
  Qed.

  (* the seed pass records a call that passes the three tests at once *)
  Lemma pep_adds fuel stk src sep s t e s' :
    pep fuel stk src sep s t e = Ok s' -> mem t excludes = false -> target_human m t = false ->
    target_hidden m t e = Ok false -> In (src,sep,t,e) (deps s').
  Proof.
    intros Hp Hex Hhu Hhi. destruct fuel as [|f]; cbn [IntsModel.pep] in Hp; [discriminate|].
    rewrite Hex, Hhu, Hhi in Hp.
    set (s2 := add_final (add_call s (src, sep, t, e)) t) in Hp.
    assert (H2 : In (src,sep,t,e) (deps s2)) by (unfold s2; cbn [add_final deps]; apply add_call_In).
    destruct (mem t passthrough); [|injection Hp as <-; exact H2].
    destruct (g && nmem (t, e) stk); [injection Hp as <-; exact H2|].
    destruct (assoc t m) as [a|]; [|injection Hp as <-; exact H2].
    destruct (assoc e (eps a)) as [ep|]; [|injection Hp as <-; exact H2].
    rewrite walk_fold in Hp.
    assert (Hm : R s2 s').
    { eapply (foldM_inv (R s2)); [|apply R_refl|exact Hp].
      intros s0 [t0 e0] s0' _ Hs0 Hstep. unfold uncur in Hstep. eapply R_trans; [exact Hs0|eapply pep_mono, Hstep]. }
    apply Hm, H2.
  Qed.

  Theorem build_complete_gen fuel s S ap sep ep t e :
    build fuel = Ok s ->
    In S seeds -> assoc S m = Some ap -> In (sep, ep) (eps ap) -> coll ep = false -> In (t,e) (calls (body ep)) ->
    mem t excludes = false -> target_human m t = false -> target_hidden m t e = Ok false ->
    In (S,sep,t,e) (deps s).
  Proof.
    intros Hb HS Hap Hep Hcoll Hin Hex Hhu Hhi. unfold IntsModel.build in Hb.
    set (s0 := {| deps := []; final := seeds |}) in Hb.
    destruct (over_apps m (pep fuel []) seeds s0) as [s1| |] eqn:E1; try discriminate.
    rewrite over_apps_fold in E1.
    destruct (foldM_hit R (uncur4 (pep fuel [])) (scalls m seeds) R_refl R_trans) with (s:=s0) (s':=s1) as [_ Hhit]; [|exact E1|].
    { intros s2 [[[a0 sep0] t0] e0] s2' _ Hstep. eapply pep_mono, Hstep. }
    destruct (Hhit (S,sep,t,e)) as (sa & sb & Hstep & Hsb).
    { apply in_scalls. split; [exact HS|]. exists ap, ep. auto. }
    cbn [uncur4] in Hstep. pose proof (pep_adds _ _ _ _ _ _ _ _ Hstep Hex Hhu Hhi) as H1. apply Hsb in H1.
    destruct (over_apps m my_callers (map fst m) s1) as [s2| |] eqn:E2; try discriminate.
    rewrite over_apps_fold in E2.
    assert (R12 : R s1 s2).
    { eapply (foldM_inv (R s1)); [|apply R_refl|exact E2].
      intros s3 [[[a0 sep0] t0] e0] s3' _ Hs3 Hstep3. eapply R_trans; [exact Hs3|eapply my_callers_mono, Hstep3]. }
    rewrite over_apps_fold in Hb.
    assert (R23 : R s2 s).
    { eapply (foldM_inv (R s2)); [|apply R_refl|exact Hb].
      intros s3 [[[a0 sep0] t0] e0] s3' _ Hs3 Hstep3. eapply R_trans; [exact Hs3|eapply indirect_mono, Hstep3]. }
    apply R23, R12, H1.
  Qed.

  Lemma seeds_spec a : In a seeds <-> In a listed /\ seed_ok m excludes x a = true.
  Proof. unfold IntsModel.seeds. apply filter_In. Qed.
End Props.

(* ---------- the current code (x = true): no hypothesis on the seeds is needed ---------- *)
Lemma seeds_not_excluded m listed excludes a : In a (seeds m listed excludes true) -> mem a excludes = false.
Proof.
  intros H. apply seeds_spec in H. destruct H as [_ H]. unfold seed_ok in H.
  destruct (assoc a m); [|discriminate]. apply andb_true_iff in H. destruct H as [_ H].
  cbn [andb] in H. destruct (mem a excludes); [discriminate|reflexivity].
Qed.

Theorem build_sound m listed excludes passthrough g fuel s :
  build m listed excludes passthrough g true fuel = Ok s ->
  forall src sep t e, In (src,sep,t,e) (deps s) ->
    has_call m src sep t e /\ mem src excludes = false /\ mem t excludes = false.
Proof. intros Hb. eapply build_sound_gen; [|exact Hb]. apply seeds_not_excluded. Qed.

Theorem build_complete m listed excludes passthrough g fuel s S ap sep ep t e :
  build m listed excludes passthrough g true fuel = Ok s ->
  In S listed -> assoc S m = Some ap -> human ap = false -> mem S excludes = false ->
  In (sep, ep) (eps ap) -> coll ep = false -> In (t,e) (calls (body ep)) ->
  mem t excludes = false -> target_human m t = false -> target_hidden m t e = Ok false ->
  In (S,sep,t,e) (deps s).
Proof.
  intros Hb HS Hap Hhu Hex. eapply build_complete_gen; [exact Hb| |exact Hap].
  apply seeds_spec. split; [exact HS|]. unfold seed_ok. rewrite Hap, Hhu, Hex. reflexivity.
Qed.

(* before repair 2 (x = false) soundness fails: a listed app that is also excluded still gets its arrows *)
Example build_sound_before_fix_refuted :
  exists m listed ex s, build m listed ex [] true false 5 = Ok s /\
    exists d, In d (deps s) /\ mem (fst (fst (fst d))) ex = true.
Proof.
  exists [(0, {| human := false; eps := [(0, {| hidden := false; coll := false; body := [Call 1 0] |})] |});
          (1, {| human := false; eps := [(0, {| hidden := false; coll := false; body := [] |})] |})], [0], [0].
  eexists. split; [vm_compute; reflexivity|]. exists (0,0,1,0). split; [left; reflexivity|reflexivity].
Qed.

(* non-vacuity: a module on which the hypotheses of build_complete hold and the dependency is found *)
Example build_complete_nonvacuous :
  let m := [(0, {| human := false; eps := [(1, {| hidden := false; coll := false; body := [Block [Alt [[Other]; [Call 1 1]]]] |})] |});
            (1, {| human := false; eps := [(1, {| hidden := false; coll := false; body := [Call 0 1] |})] |})] in
  exists s, build m [0] [] [1] true true 3 = Ok s /\ deps s = [(0,1,1,1); (1,1,0,1)] /\
    In (1,1) (calls (body {| hidden := false; coll := false; body := [Block [Alt [[Other]; [Call 1 1]]]] |})).
Proof. eexists. split; [vm_compute; reflexivity|split; [reflexivity|left; reflexivity]]. Qed.
