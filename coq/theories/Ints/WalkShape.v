(* C14: the statement order of IntsBuilder.WalkPassthrough (Gen/IntsShape.v walk_passthrough, re-read from the source
   on every run) decides the switch [u] of WalkDisc.pepw: the marker is set after the re-entrancy test, and its
   removal (defer delete) is registered AFTER the test (u = false: a cut re-entry removes nothing) or BEFORE it
   (u = true: the early return of a cut re-entry deletes the marker of the expansion in progress).  Any other
   order is not classified, and the lemma fails. *)
From Coq Require Import List.
Import ListNotations.
Require Import Verif.Ints.ShapeTypes Verif.Gen.IntsShape.

Definition unmark_on_cut_of (ws:list wstep) : option bool :=
  match ws with
  | [WIfPassthrough; WKeyAppEp; WSkipIfActive; WInitSet; WMarkActive; WDeferUnmark; WRecursePep] => Some false
  | [WIfPassthrough; WKeyAppEp; WSkipIfActive; WInitSet; WDeferUnmark; WMarkActive; WRecursePep] => Some false
  | [WIfPassthrough; WKeyAppEp; WDeferUnmark; WSkipIfActive; WInitSet; WMarkActive; WRecursePep] => Some true
  | _ => None
  end.

Lemma shape_walk_discipline : unmark_on_cut_of walk_passthrough = Some false.
Proof. reflexivity. Qed.
