(* C14 proofs, part 5: the remaining views of pkg/integrationdiagram/ints_view.go (VModel.v). *)
From Coq Require Import List NArith Bool Lia.
Import ListNotations.
Require Import Verif.Ints.IntsModel Verif.Ints.IntsFold Verif.Ints.IntsProps Verif.Ints.IntsView Verif.Ints.VModel.
Local Open Scope N_scope.

Definition arrows_of (evs:list ev) : list (N*N*bool) :=
  flat_map (fun e => match e with EvArrow a b i => [(a,b,i)] | _ => [] end) evs.
(* the symbol-table key under which the view draws app a *)
Definition keyf (vi:vinfo) (k cl sys:bool) (apps:list id) (a:id) : N :=
  let l := if sys then n_first (nm_of vi a) else full vi a in
  if k then l else resolve (if cl then name_map vi apps else []) l.


(* ================= A. component diagrams ================= *)
Lemma arrows_of_app e1 e2 : arrows_of (e1 ++ e2) = arrows_of e1 ++ arrows_of e2.
Proof. apply flat_map_app. Qed.

(* A2 *)
Lemma in_arrows_of evs a b i : In (a,b,i) (arrows_of evs) <-> In (EvArrow a b i) evs.
Proof.
  unfold arrows_of. rewrite in_flat_map. split.
  - intros (e & He & Hx). destruct e; cbn [In] in Hx; try contradiction.
    destruct Hx as [[= -> -> ->]|[]]. exact He.
  - intros H. exists (EvArrow a b i). split; [exact H|left; reflexivity].
Qed.

Lemma arrows_of_nil evs : (forall a b i, ~ In (EvArrow a b i) evs) -> arrows_of evs = [].
Proof.
  intros H. destruct (arrows_of evs) as [|[[a b] i] r] eqn:E; [reflexivity|].
  exfalso. apply (H a b i), in_arrows_of. rewrite E. left. reflexivity.
Qed.

(* the lines that join two components: arrows and mixin arrows *)
Definition is_link (e:ev) : bool := match e with EvArrow _ _ _ | EvMixin _ _ => true | _ => false end.
Definition links (evs:list ev) : list ev := filter is_link evs.
Lemma links_app e1 e2 : links (e1 ++ e2) = links e1 ++ links e2.
Proof. apply filter_app. Qed.
Lemma arrows_of_links evs : arrows_of evs = arrows_of (links evs).
Proof.
  induction evs as [|e r IH]; [reflexivity|].
  unfold arrows_of, links in *.
  destruct e; cbn [filter is_link flat_map List.app]; rewrite IH; reflexivity.
Qed.
Lemma links_cons e r : links (e :: r) = (if is_link e then [e] else []) ++ links r.
Proof. unfold links. cbn [filter]. destruct (is_link e); reflexivity. Qed.
Lemma arrows_of_cons e r :
  arrows_of (e :: r) = match e with EvArrow a b i => [(a,b,i)] | _ => [] end ++ arrows_of r.
Proof. reflexivity. Qed.
Lemma in_links e evs : In e (links evs) <-> In e evs /\ is_link e = true.
Proof. apply filter_In. Qed.

Section CompP.
  Variable vi : vinfo.
  Variable k : bool.
  Variable seedset : list id.
  Variable di : bool.
  Variable nmap : list (N*N).

  Definition keyn (sys:bool) (a:id) : N :=
    let l := if sys then n_first (nm_of vi a) else full vi a in
    if k then l else resolve nmap l.

  Lemma vm_comp_inv sym l e s' key : vm_comp vi k seedset nmap sym l = (e, s', key) ->
    key = (if k then l else resolve nmap l) /\
    ((e = [] /\ s' = sym /\ In key sym) \/
     ((exists lb h, e = [EvComp key lb h]) /\ s' = sym ++ [key] /\ ~ In key sym)).
  Proof.
    unfold vm_comp. cbv zeta. destruct (mem _ sym) eqn:Hm;
      intros [= <- <- <-]; (split; [reflexivity|]).
    - left. split; [reflexivity|]. split; [reflexivity|]. apply mem_In, Hm.
    - right. split; [eexists; eexists; reflexivity|]. split; [reflexivity|]. apply mem_false, Hm.
  Qed.
  Lemma vm_comp_links sym l e s' key : vm_comp vi k seedset nmap sym l = (e, s', key) -> links e = [].
  Proof.
    intros H. apply vm_comp_inv in H. destruct H as (_ & [(-> & _)|((lb & h & ->) & _)]); reflexivity.
  Qed.
  Lemma vm_comp_key sym l e s' key : vm_comp vi k seedset nmap sym l = (e, s', key) ->
    key = (if k then l else resolve nmap l).
  Proof. intros H. apply vm_comp_inv in H. apply H. Qed.

  Definition arrow_ev (sys:bool) (ar:arrow) : ev :=
    match ar with (a,b,i) => EvArrow (keyn sys a) (keyn sys b) i end.
  Definition mixin_ev (a mx:id) : ev := EvMixin (keyn false mx) (keyn false a).

  Lemma draw_deps_links sys : forall ds drawn sym,
    links (fst (draw_deps vi k seedset di sys nmap drawn sym ds)) = map (arrow_ev sys) (arrows_from seedset di drawn ds).
  Proof.
    induction ds as [|[[[a sa] b] sb] r IH]; intros drawn sym; cbn [draw_deps arrows_from]; [reflexivity|].
    cbv zeta.
    destruct (N.eqb a b); [apply IH|].
    destruct (existsb (pair_eqb (a,b)) drawn); [apply IH|].
    destruct (mem a seedset || mem b seedset || di); [|apply IH].
    destruct (vm_comp vi k seedset nmap sym _) as [[e1 s1] ka] eqn:E1.
    destruct (vm_comp vi k seedset nmap s1 _) as [[e2 s2] kb] eqn:E2.
    specialize (IH ((a,b)::drawn) s2).
    destruct (draw_deps vi k seedset di sys nmap ((a,b)::drawn) s2 r) as [er sr].
    cbn [fst] in *. rewrite !links_app, (vm_comp_links _ _ _ _ _ E1), (vm_comp_links _ _ _ _ _ E2).
    rewrite links_cons. cbn [List.app is_link map]. rewrite IH.
    rewrite (vm_comp_key _ _ _ _ _ E1), (vm_comp_key _ _ _ _ _ E2). reflexivity.
  Qed.

  Lemma draw_mixins_of_links a : forall mxs sym,
    links (fst (draw_mixins_of vi k seedset nmap sym a mxs)) = map (mixin_ev a) mxs.
  Proof.
    induction mxs as [|mx r IH]; intros sym; cbn [draw_mixins_of]; [reflexivity|].
    destruct (vm_comp vi k seedset nmap sym _) as [[e1 s1] k1] eqn:E1.
    destruct (vm_comp vi k seedset nmap s1 _) as [[e2 s2] k2] eqn:E2.
    specialize (IH s2). destruct (draw_mixins_of vi k seedset nmap s2 a r) as [er sr].
    cbn [fst] in *. rewrite !links_app, (vm_comp_links _ _ _ _ _ E1), (vm_comp_links _ _ _ _ _ E2).
    rewrite links_cons. cbn [List.app is_link map]. rewrite IH.
    rewrite (vm_comp_key _ _ _ _ _ E1), (vm_comp_key _ _ _ _ _ E2). reflexivity.
  Qed.
  Lemma draw_mixins_links : forall apps sym,
    links (draw_mixins vi k seedset nmap sym apps) = flat_map (fun a => map (mixin_ev a) (mixins_of vi a)) apps.
  Proof.
    induction apps as [|a r IH]; intros sym; cbn [draw_mixins flat_map]; [reflexivity|].
    pose proof (draw_mixins_of_links a (mixins_of vi a) sym) as H.
    destruct (draw_mixins_of vi k seedset nmap sym a (mixins_of vi a)) as [e s]. cbn [fst] in H.
    rewrite links_app, H, IH. reflexivity.
  Qed.
  Lemma draw_members_links : forall l sym, links (fst (draw_members vi k seedset nmap sym l)) = [].
  Proof.
    induction l as [|a r IH]; intros sym; cbn [draw_members]; [reflexivity|].
    destruct (vm_comp vi k seedset nmap sym _) as [[e1 s1] k1] eqn:E1.
    specialize (IH s1). destruct (draw_members vi k seedset nmap s1 r) as [er sr].
    cbn [fst] in *. rewrite links_app, (vm_comp_links _ _ _ _ _ E1), IH. reflexivity.
  Qed.
  Lemma draw_packages_links apps : forall cs sym, links (fst (draw_packages vi k seedset nmap apps sym cs)) = [].
  Proof.
    induction cs as [|c r IH]; intros sym; cbn [draw_packages]; [reflexivity|].
    pose proof (draw_members_links (members vi c apps) sym) as H.
    destruct (draw_members vi k seedset nmap sym (members vi c apps)) as [e s].
    specialize (IH s). destruct (draw_packages vi k seedset nmap apps s r) as [er sr].
    cbn [fst] in *. rewrite links_cons, links_app, links_cons, H. cbn [List.app is_link]. exact IH.
  Qed.
End CompP.

Lemma keyf_keyn vi k cl sys apps a : keyf vi k cl sys apps a = keyn vi k (if cl then name_map vi apps else []) sys a.
Proof. reflexivity. Qed.

(* the joining lines of a component diagram, in order: one per drawn pair, then (not in the system view) one per
   mixin of every final app *)
Theorem ints_view_links vi k seedset di cl sys apps ds :
  links (ints_view vi k seedset di cl sys apps ds) =
  map (fun ar => match ar with (a,b,i) => EvArrow (keyf vi k cl sys apps a) (keyf vi k cl sys apps b) i end)
      (plain_arrows seedset di ds)
  ++ (if sys then [] else
      flat_map (fun a => map (fun mx => EvMixin (keyf vi k cl false apps mx) (keyf vi k cl false apps a)) (mixins_of vi a)) apps).
Proof.
  unfold ints_view. cbv zeta.
  set (nmap := if cl then name_map vi apps else []).
  assert (H0 : links (fst (if cl then draw_packages vi k seedset nmap apps [] (kept_clusters vi apps) else ([], []))) = []).
  { destruct cl; [apply draw_packages_links|reflexivity]. }
  destruct (if cl then draw_packages vi k seedset nmap apps [] (kept_clusters vi apps) else ([], [])) as [e0 s0].
  pose proof (draw_deps_links vi k seedset di nmap sys ds [] s0) as H1.
  destruct (draw_deps vi k seedset di sys nmap [] s0 ds) as [e1 s1]. cbn [fst] in *.
  rewrite !links_app, H0, H1. cbn [List.app]. f_equal.
  destruct sys; [reflexivity|]. apply draw_mixins_links.
Qed.

(* A1 *)
Theorem ints_view_arrows vi k seedset di cl sys apps ds :
  arrows_of (ints_view vi k seedset di cl sys apps ds)
  = map (fun ar => match ar with (a,b,i) => (keyf vi k cl sys apps a, keyf vi k cl sys apps b, i) end)
        (plain_arrows seedset di ds).
Proof.
  rewrite arrows_of_links, ints_view_links, arrows_of_app.
  assert (H2 : arrows_of (if sys then [] else
      flat_map (fun a => map (fun mx => EvMixin (keyf vi k cl false apps mx) (keyf vi k cl false apps a)) (mixins_of vi a)) apps) = []).
  { apply arrows_of_nil. intros a b i Hin. destruct sys; [destruct Hin|].
    apply in_flat_map in Hin. destruct Hin as (x & _ & Hin).
    apply in_map_iff in Hin. destruct Hin as (mx & E & _). discriminate E. }
  rewrite H2, app_nil_r.
  induction (plain_arrows seedset di ds) as [|[[a b] i] r IH]; [reflexivity|].
  cbn [map]. rewrite arrows_of_cons, IH. reflexivity.
Qed.

(* ---------- the witness used by the examples: apps 0 = "A", 1 = "B", 2 = "G :: B"; labels 0 = "A", 1 = "B",
   2 = "G", 3 = "G :: B"; A calls G :: B and nothing else ---------- *)
Definition wvi : vinfo :=
  {| names := [(0, {| n_full := 0; n_pre := None; n_short := 0; n_first := 0 |});
               (1, {| n_full := 1; n_pre := None; n_short := 1; n_first := 1 |});
               (2, {| n_full := 3; n_pre := Some 2; n_short := 1; n_first := 2 |})];
     mixins := []; app_r := []; ep_r := []; pubsub := [] |}.
Definition wep (b:list stmt) : endpoint := {| hidden := false; coll := false; body := b |}.
Definition wm : module :=
  [(0, {| human := false; eps := [(1, wep [Call 2 1])] |});
   (1, {| human := false; eps := [(1, wep [])] |});
   (2, {| human := false; eps := [(1, wep [])] |})].
Definition ws : st := {| deps := [(0,1,2,1)]; final := [0;1;2] |}.
Lemma wbuild : build wm [0;1] [] [] true true (fuel_bound wm) = Ok ws.
Proof. vm_compute. reflexivity. Qed.

(* A3 *)
Theorem view_arrows_sound m listed ex pt g fuel s vi k di cl sys ka kb i :
  build m listed ex pt g true fuel = Ok s ->
  In (EvArrow ka kb i) (ints_view vi k (seeds m listed ex true) di cl sys (final s) (deps s)) ->
  exists a b, ka = keyf vi k cl sys (final s) a /\ kb = keyf vi k cl sys (final s) b /\ a <> b /\
              (exists sep e, has_call m a sep b e) /\ mem a ex = false /\ mem b ex = false.
Proof.
  intros Hb Hin. apply in_arrows_of in Hin. rewrite ints_view_arrows in Hin. apply in_map_iff in Hin.
  destruct Hin as ([[a b] i'] & [= <- <- <-] & Hin). exists a, b.
  split; [reflexivity|]. split; [reflexivity|]. eapply arrows_sound; eassumption.
Qed.
Example view_arrows_sound_nonvacuous :
  build wm [0;1] [] [] true true (fuel_bound wm) = Ok ws /\
  In (EvArrow 0 3 false) (ints_view wvi true (seeds wm [0;1] [] true) true true false (final ws) (deps ws)) /\
  keyf wvi true true false (final ws) 0 = 0 /\ keyf wvi true true false (final ws) 2 = 3 /\
  has_call wm 0 1 2 1.
Proof.
  split; [exact wbuild|]. split; [vm_compute; repeat (first [left; reflexivity|right])|].
  split; [reflexivity|]. split; [reflexivity|].
  eexists. eexists. split; [reflexivity|]. split; [left; reflexivity|left; reflexivity].
Qed.

(* A4 *)
Theorem view_arrows_complete m listed ex pt g fuel s vi k di cl sys S ap sep ep t e :
  build m listed ex pt g true fuel = Ok s ->
  In S listed -> assoc S m = Some ap -> human ap = false -> mem S ex = false ->
  In (sep, ep) (eps ap) -> coll ep = false -> In (t,e) (calls (body ep)) -> t <> S ->
  mem t ex = false -> target_human m t = false -> target_hidden m t e = Ok false ->
  In (EvArrow (keyf vi k cl sys (final s) S) (keyf vi k cl sys (final s) t) false)
     (ints_view vi k (seeds m listed ex true) di cl sys (final s) (deps s)).
Proof.
  intros Hb HS Hap Hhu Hex Hep Hcoll Hin Hne Htex Hth Hthi.
  apply in_arrows_of. rewrite ints_view_arrows. apply in_map_iff. exists (S, t, false).
  split; [reflexivity|]. eapply arrows_complete; eassumption.
Qed.
Example view_arrows_complete_nonvacuous :
  let ap := {| human := false; eps := [(1, wep [Call 2 1])] |} in
  build wm [0;1] [] [] true true (fuel_bound wm) = Ok ws /\
  In 0 [0;1] /\ assoc 0 wm = Some ap /\ human ap = false /\ mem 0 [] = false /\
  In (1, wep [Call 2 1]) (eps ap) /\ coll (wep [Call 2 1]) = false /\ In (2,1) (calls (body (wep [Call 2 1]))) /\ 2 <> 0 /\
  mem 2 [] = false /\ target_human wm 2 = false /\ target_hidden wm 2 1 = Ok false /\
  EvArrow (keyf wvi true true false (final ws) 0) (keyf wvi true true false (final ws) 2) false = EvArrow 0 3 false.
Proof.
  cbv zeta. split; [exact wbuild|]. split; [left; reflexivity|]. split; [reflexivity|]. split; [reflexivity|].
  split; [reflexivity|]. split; [left; reflexivity|]. split; [reflexivity|]. split; [left; reflexivity|].
  split; [discriminate|]. split; [reflexivity|]. split; [reflexivity|]. split; reflexivity.
Qed.

(* A5 *)
Theorem view_arrows_sound_strong m listed ex pt g fuel s vi k di cl sys a b i :
  (forall a b, keyf vi k cl sys (final s) a = keyf vi k cl sys (final s) b -> a = b) ->
  build m listed ex pt g true fuel = Ok s ->
  In (EvArrow (keyf vi k cl sys (final s) a) (keyf vi k cl sys (final s) b) i)
     (ints_view vi k (seeds m listed ex true) di cl sys (final s) (deps s)) ->
  a <> b /\ (exists sep e, has_call m a sep b e) /\ mem a ex = false /\ mem b ex = false.
Proof.
  intros Hinj Hb Hin. destruct (view_arrows_sound _ _ _ _ _ _ _ _ _ _ _ _ _ _ _ Hb Hin) as (a' & b' & Ea & Eb & H).
  apply Hinj in Ea. apply Hinj in Eb. subst a' b'. exact H.
Qed.
(* the current code (k = true), plain or clustered, not the system view: the key is the full name *)
Theorem component_arrows_sound m listed ex pt g fuel s vi di cl a b i :
  (forall a b, full vi a = full vi b -> a = b) ->
  build m listed ex pt g true fuel = Ok s ->
  In (EvArrow (full vi a) (full vi b) i) (ints_view vi true (seeds m listed ex true) di cl false (final s) (deps s)) ->
  a <> b /\ (exists sep e, has_call m a sep b e) /\ mem a ex = false /\ mem b ex = false.
Proof.
  intros Hinj Hb Hin. eapply (view_arrows_sound_strong m listed ex pt g fuel s vi true di cl false a b i); [|exact Hb|exact Hin].
  exact Hinj.
Qed.
Lemma wvi_full_inj : forall x y, In x [0;1;2] -> In y [0;1;2] -> full wvi x = full wvi y -> x = y.
Proof.
  intros x y Hx Hy. cbn [In] in Hx, Hy.
  destruct Hx as [<-|[<-|[<-|[]]]]; destruct Hy as [<-|[<-|[<-|[]]]]; vm_compute; intros E;
    try reflexivity; discriminate E.
Qed.

(* A6: with the symbols keyed by the short name (k = false, before repair C14-3) a clustered diagram shows an
   arrow between two apps of which the first never calls the second *)
Theorem clustered_merge_refuted :
  exists vi m listed s a b i,
    (forall x y, In x [0;1;2] -> In y [0;1;2] -> full vi x = full vi y -> x = y) /\
    build m listed [] [] true true (fuel_bound m) = Ok s /\
    In (EvArrow (keyf vi false true false (final s) a) (keyf vi false true false (final s) b) i)
       (ints_view vi false (seeds m listed [] true) true true false (final s) (deps s)) /\
    a <> b /\ ~ (exists sep e, has_call m a sep b e).
Proof.
  exists wvi, wm, [0;1], ws, 0, 1, false.
  split; [exact wvi_full_inj|]. split; [exact wbuild|].
  split; [vm_compute; repeat (first [left; reflexivity|right])|]. split; [discriminate|].
  intros (sep & e & ap & ep & Ha & Hep & Hc). vm_compute in Ha. injection Ha as <-.
  cbn [eps In] in Hep. destruct Hep as [[= <- <-]|[]].
  cbn [wep body calls calls_stmt flat_map List.app In] in Hc. destruct Hc as [[=]|[]].
Qed.
Example clustered_merge_fixed_example :
  arrows_of (ints_view wvi true (seeds wm [0;1] [] true) true true false (final ws) (deps ws)) = [(0,3,false)].
Proof. vm_compute. reflexivity. Qed.
Example component_arrows_sound_nonvacuous :
  In (EvArrow (full wvi 0) (full wvi 2) false)
     (ints_view wvi true (seeds wm [0;1] [] true) true true false (final ws) (deps ws)).
Proof. vm_compute. repeat (first [left; reflexivity|right]). Qed.

(* ================= B. the EPA view ================= *)
Definition is_earrow (e:ev) : bool := match e with EvEArrow _ _ _ _ _ => true | _ => false end.
Definition earrows (evs:list ev) : list ev := filter is_earrow evs.
Lemma earrows_app e1 e2 : earrows (e1 ++ e2) = earrows e1 ++ earrows e2.
Proof. apply filter_app. Qed.
Lemma earrows_cons e r : earrows (e :: r) = (if is_earrow e then [e] else []) ++ earrows r.
Proof. unfold earrows. cbn [filter]. destruct (is_earrow e); reflexivity. Qed.
Lemma in_earrows a ma b mb c evs : In (EvEArrow a ma b mb c) (earrows evs) <-> In (EvEArrow a ma b mb c) evs.
Proof. unfold earrows. rewrite filter_In. cbn [is_earrow]. split; [intros [H _]; exact H|intros H; split; [exact H|reflexivity]]. Qed.

Lemma triple_eqb_eq x y : triple_eqb x y = true <-> x = y.
Proof.
  destruct x as [[x1 x2] x3], y as [[y1 y2] y3]. unfold triple_eqb. rewrite !andb_true_iff, !N.eqb_eq.
  split; [intros [[-> ->] ->]; reflexivity|intros [= -> -> ->]; repeat split].
Qed.
Lemma triple_mem_In x l : existsb (triple_eqb x) l = true <-> In x l.
Proof.
  rewrite existsb_exists. split.
  - intros (y & Hy & E). apply triple_eqb_eq in E. subst. exact Hy.
  - intros H. exists x. split; [exact H|apply triple_eqb_eq; reflexivity].
Qed.

Lemma passes_no_restrict vi d : passes vi false d = true.
Proof. destruct d as [[[a sa] b] sb]. reflexivity. Qed.

Section EpaP.
  Variable vi : vinfo.
  Variable seedset : list id.
  Variable rb : bool.

  Lemma vm_epa_inv sym a mb e s' : vm_epa seedset sym a mb = (e, s') ->
    (e = [] /\ s' = sym /\ In (a,mb) sym) \/
    (e = [EvState a mb (mem a seedset)] /\ s' = sym ++ [(a,mb)] /\ ~ In (a,mb) sym).
  Proof.
    unfold vm_epa. destruct (nmem (a,mb) sym) eqn:Hm; intros [= <- <-].
    - left. split; [reflexivity|]. split; [reflexivity|]. apply nmem_In, Hm.
    - right. split; [reflexivity|]. split; [reflexivity|]. intros Hx. apply nmem_In in Hx. congruence.
  Qed.
  Lemma vm_epa_earrows sym a mb e s' : vm_epa seedset sym a mb = (e, s') -> earrows e = [].
  Proof. intros H. apply vm_epa_inv in H. destruct H as [(-> & _)|(-> & _)]; reflexivity. Qed.
  Lemma vm_epa_hit sym a mb : In (a,mb) sym -> vm_epa seedset sym a mb = ([], sym).
  Proof.
    intros H. unfold vm_epa. destruct (nmem _ sym) eqn:Hm; [reflexivity|]. exfalso.
    apply nmem_In in H. unfold id in *. congruence.
  Qed.
  Lemma vm_epa_grows sym a mb e s' : vm_epa seedset sym a mb = (e, s') -> incl sym s' /\ In (a,mb) s'.
  Proof.
    intros H. apply vm_epa_inv in H. destruct H as [(_ & -> & H)|(_ & -> & _)].
    - split; [apply incl_refl|exact H].
    - split; [apply incl_appl, incl_refl|apply in_or_app; right; left; reflexivity].
  Qed.

  (* the arrow lines of the EPA view, without the symbol table *)
  Fixpoint ea (processed:list (id*id*id)) (ds:list dep) : list ev :=
    match ds with
    | [] => []
    | (a,sa,b,sb) :: r =>
        if negb (passes vi rb (a,sa,b,sb)) then ea processed r else
        if negb (N.eqb a b) then
          if is_ps vi a sa then EvEArrow a (m_ep sa) b (m_ep sb) 1 :: ea processed r
          else if existsb (triple_eqb (a,sb,b)) processed
               then EvEArrow a (m_ep sa) a (m_client sb) 0 :: ea processed r
               else EvEArrow a (m_ep sa) a (m_client sb) 0 :: EvEArrow a (m_client sb) b (m_ep sb) 2
                    :: ea ((a,sb,b)::processed) r
        else EvEArrow a (m_ep sa) b (m_ep sb) 0 :: ea processed r
    end.

  Lemma epa_arrows_ea : forall ds processed sym, earrows (epa_arrows vi seedset rb processed sym ds) = ea processed ds.
  Proof.
    induction ds as [|[[[a sa] b] sb] r IH]; intros processed sym; cbn [epa_arrows ea]; [reflexivity|].
    destruct (negb (passes vi rb (a,sa,b,sb))); [apply IH|].
    destruct (negb (N.eqb a b)).
    - destruct (is_ps vi a sa).
      + destruct (vm_epa seedset sym a (m_ep sa)) as [e1 s1] eqn:E1.
        destruct (vm_epa seedset s1 b (m_ep sb)) as [e2 s2] eqn:E2.
        rewrite !earrows_app, (vm_epa_earrows _ _ _ _ _ E1), (vm_epa_earrows _ _ _ _ _ E2), earrows_cons, IH. reflexivity.
      + destruct (vm_epa seedset sym a (m_ep sa)) as [e1 s1] eqn:E1.
        destruct (vm_epa seedset s1 a (m_client sb)) as [e2 s2] eqn:E2.
        destruct (existsb (triple_eqb (a,sb,b)) processed).
        * rewrite !earrows_app, (vm_epa_earrows _ _ _ _ _ E1), (vm_epa_earrows _ _ _ _ _ E2), earrows_cons, IH. reflexivity.
        * destruct (vm_epa seedset s2 a (m_client sb)) as [e3 s3] eqn:E3.
          destruct (vm_epa seedset s3 b (m_ep sb)) as [e4 s4] eqn:E4.
          rewrite !earrows_app, (vm_epa_earrows _ _ _ _ _ E1), (vm_epa_earrows _ _ _ _ _ E2), earrows_cons.
          rewrite !earrows_app, (vm_epa_earrows _ _ _ _ _ E3), (vm_epa_earrows _ _ _ _ _ E4), earrows_cons, IH. reflexivity.
    - destruct (vm_epa seedset sym a (m_ep sa)) as [e1 s1] eqn:E1.
      destruct (vm_epa seedset s1 b (m_ep sb)) as [e2 s2] eqn:E2.
      rewrite !earrows_app, (vm_epa_earrows _ _ _ _ _ E1), (vm_epa_earrows _ _ _ _ _ E2), earrows_cons, IH. reflexivity.
  Qed.

  Lemma epa_states_earrows a : forall ms sym, earrows (fst (epa_states seedset sym a ms)) = [].
  Proof.
    induction ms as [|mb r IH]; intros sym; cbn [epa_states]; [reflexivity|].
    destruct (vm_epa seedset sym a mb) as [e1 s1] eqn:E1. specialize (IH s1).
    destruct (epa_states seedset s1 a r) as [er sr]. cbn [fst] in *.
    rewrite earrows_app, (vm_epa_earrows _ _ _ _ _ E1), IH. reflexivity.
  Qed.
  Lemma epa_clusters_earrows ds : forall ks sym, earrows (fst (epa_clusters vi seedset rb sym ds ks)) = [].
  Proof.
    induction ks as [|a r IH]; intros sym; cbn [epa_clusters]; [reflexivity|].
    pose proof (epa_states_earrows a (sort_dedup (epa_members vi rb ds a)) sym) as H.
    destruct (epa_states seedset sym a (sort_dedup (epa_members vi rb ds a))) as [e s]. specialize (IH s).
    destruct (epa_clusters vi seedset rb s ds r) as [er sr]. cbn [fst] in *.
    rewrite earrows_cons, earrows_app, earrows_cons, H, IH. reflexivity.
  Qed.
  Theorem epa_view_earrows ds : earrows (epa_view vi seedset rb ds) = ea [] ds.
  Proof.
    unfold epa_view. pose proof (epa_clusters_earrows ds (epa_keys vi rb ds) []) as H.
    destruct (epa_clusters vi seedset rb [] ds (epa_keys vi rb ds)) as [e0 s0]. cbn [fst] in H.
    rewrite earrows_app, H, epa_arrows_ea. reflexivity.
  Qed.

  Definition earrow_of (a sa t sb:id) (x:ev) : Prop :=
    match x with
    | EvEArrow a' ma b mb c =>
        a' = a /\
        ( (a <> t /\ is_ps vi a sa = true  /\ b = t /\ ma = m_ep sa /\ mb = m_ep sb /\ c = 1)
       \/ (a <> t /\ is_ps vi a sa = false /\ b = a /\ ma = m_ep sa /\ mb = m_client sb /\ c = 0)
       \/ (a <> t /\ is_ps vi a sa = false /\ b = t /\ ma = m_client sb /\ mb = m_ep sb /\ c = 2)
       \/ (a = t /\ b = t /\ ma = m_ep sa /\ mb = m_ep sb /\ c = 0))
    | _ => False
    end.

  Lemma ea_sound : forall ds processed x, In x (ea processed ds) ->
    exists a sa t sb, In (a,sa,t,sb) ds /\ passes vi rb (a,sa,t,sb) = true /\ earrow_of a sa t sb x.
  Proof.
    induction ds as [|[[[a sa] b] sb] r IH]; intros processed x Hin; cbn [ea] in Hin; [destruct Hin|].
    assert (Hskip : forall p, In x (ea p r) ->
      exists a0 sa0 t sb0, In (a0,sa0,t,sb0) ((a,sa,b,sb)::r) /\ passes vi rb (a0,sa0,t,sb0) = true /\ earrow_of a0 sa0 t sb0 x).
    { intros p H. destruct (IH _ _ H) as (a0 & sa0 & t & sb0 & H1 & H2). exists a0, sa0, t, sb0. split; [right; exact H1|exact H2]. }
    destruct (passes vi rb (a,sa,b,sb)) eqn:Hp; cbn [negb] in Hin; [|eapply Hskip, Hin].
    assert (Hhere : earrow_of a sa b sb x ->
      exists a0 sa0 t sb0, In (a0,sa0,t,sb0) ((a,sa,b,sb)::r) /\ passes vi rb (a0,sa0,t,sb0) = true /\ earrow_of a0 sa0 t sb0 x).
    { intros H. exists a, sa, b, sb. split; [left; reflexivity|]. split; [exact Hp|exact H]. }
    destruct (N.eqb_spec a b) as [Eab|Hne]; cbn [negb] in Hin.
    - destruct Hin as [<-|Hin]; [|eapply Hskip, Hin]. apply Hhere. cbn [earrow_of]. split; [reflexivity|].
      right. right. right. repeat split; congruence.
    - destruct (is_ps vi a sa) eqn:Hps.
      + destruct Hin as [<-|Hin]; [|eapply Hskip, Hin]. apply Hhere. cbn [earrow_of]. split; [reflexivity|].
        left. repeat split; assumption.
      + destruct (existsb (triple_eqb (a,sb,b)) processed).
        * destruct Hin as [<-|Hin]; [|eapply Hskip, Hin]. apply Hhere. cbn [earrow_of]. split; [reflexivity|].
          right. left. repeat split; assumption.
        * destruct Hin as [<-|[<-|Hin]]; [| |eapply Hskip, Hin]; apply Hhere; cbn [earrow_of]; (split; [reflexivity|]).
          -- right. left. repeat split; assumption.
          -- right. right. left. repeat split; assumption.
  Qed.

  (* B1 *)
  Theorem epa_sound ds a ma b mb c : In (EvEArrow a ma b mb c) (epa_view vi seedset rb ds) ->
    exists sa t sb, In (a,sa,t,sb) ds /\ passes vi rb (a,sa,t,sb) = true /\
      ( (a <> t /\ is_ps vi a sa = true  /\ b = t /\ ma = m_ep sa /\ mb = m_ep sb /\ c = 1)
     \/ (a <> t /\ is_ps vi a sa = false /\ b = a /\ ma = m_ep sa /\ mb = m_client sb /\ c = 0)
     \/ (a <> t /\ is_ps vi a sa = false /\ b = t /\ ma = m_client sb /\ mb = m_ep sb /\ c = 2)
     \/ (a = t /\ b = t /\ ma = m_ep sa /\ mb = m_ep sb /\ c = 0)).
  Proof.
    intros Hin. apply in_earrows in Hin. rewrite epa_view_earrows in Hin. apply ea_sound in Hin.
    destruct Hin as (a0 & sa & t & sb & Hd & Hp & Hx). cbn [earrow_of] in Hx. destruct Hx as [-> Hx].
    exists sa, t, sb. split; [exact Hd|]. split; [exact Hp|exact Hx].
  Qed.
End EpaP.

(* B2 *)
Section EpaC.
  Variable vi : vinfo.
  Variable seedset : list id.
  Variable rb : bool.
  Notation EA := (ea vi rb).

  Lemma ea_complete_ps : forall ds processed a sa t sb, In (a,sa,t,sb) ds -> passes vi rb (a,sa,t,sb) = true ->
    a <> t -> is_ps vi a sa = true -> In (EvEArrow a (m_ep sa) t (m_ep sb) 1) (EA processed ds).
  Proof.
    induction ds as [|[[[a0 sa0] b0] sb0] r IH]; intros processed a sa t sb Hin Hp Hne Hps; [destruct Hin|].
    cbn [ea]. destruct Hin as [[= -> -> -> ->]|Hin].
    - rewrite Hp. cbn [negb]. destruct (N.eqb_spec a t) as [E|_]; [congruence|]. cbn [negb]. rewrite Hps. left. reflexivity.
    - specialize (fun p => IH p _ _ _ _ Hin Hp Hne Hps).
      destruct (negb (passes vi rb (a0,sa0,b0,sb0))); [apply IH|].
      destruct (negb (N.eqb a0 b0)); [|right; apply IH].
      destruct (is_ps vi a0 sa0); [right; apply IH|].
      destruct (existsb (triple_eqb (a0,sb0,b0)) processed); [right; apply IH|right; right; apply IH].
  Qed.
  Lemma ea_complete_self : forall ds processed a sa sb, In (a,sa,a,sb) ds -> passes vi rb (a,sa,a,sb) = true ->
    In (EvEArrow a (m_ep sa) a (m_ep sb) 0) (EA processed ds).
  Proof.
    induction ds as [|[[[a0 sa0] b0] sb0] r IH]; intros processed a sa sb Hin Hp; [destruct Hin|].
    cbn [ea]. destruct Hin as [[= -> -> -> ->]|Hin].
    - rewrite Hp. cbn [negb]. rewrite N.eqb_refl. cbn [negb]. left. reflexivity.
    - specialize (fun p => IH p _ _ _ Hin Hp).
      destruct (negb (passes vi rb (a0,sa0,b0,sb0))); [apply IH|].
      destruct (negb (N.eqb a0 b0)); [|right; apply IH].
      destruct (is_ps vi a0 sa0); [right; apply IH|].
      destruct (existsb (triple_eqb (a0,sb0,b0)) processed); [right; apply IH|right; right; apply IH].
  Qed.
  Lemma ea_complete_client : forall ds processed a sa t sb, In (a,sa,t,sb) ds -> passes vi rb (a,sa,t,sb) = true ->
    a <> t -> is_ps vi a sa = false -> In (EvEArrow a (m_ep sa) a (m_client sb) 0) (EA processed ds).
  Proof.
    induction ds as [|[[[a0 sa0] b0] sb0] r IH]; intros processed a sa t sb Hin Hp Hne Hps; [destruct Hin|].
    cbn [ea]. destruct Hin as [[= -> -> -> ->]|Hin].
    - rewrite Hp. cbn [negb]. destruct (N.eqb_spec a t) as [E|_]; [congruence|]. cbn [negb]. rewrite Hps.
      destruct (existsb (triple_eqb (a,sb,t)) processed); left; reflexivity.
    - specialize (fun p => IH p _ _ _ _ Hin Hp Hne Hps).
      destruct (negb (passes vi rb (a0,sa0,b0,sb0))); [apply IH|].
      destruct (negb (N.eqb a0 b0)); [|right; apply IH].
      destruct (is_ps vi a0 sa0); [right; apply IH|].
      destruct (existsb (triple_eqb (a0,sb0,b0)) processed); [right; apply IH|right; right; apply IH].
  Qed.
  (* the black arrow client -> target is drawn once per (app, target endpoint, target app): either it was drawn
     before (the triple is in processed) or it is drawn now *)
  Lemma ea_complete_black : forall ds processed a sa t sb, In (a,sa,t,sb) ds -> passes vi rb (a,sa,t,sb) = true ->
    a <> t -> is_ps vi a sa = false ->
    In (a,sb,t) processed \/ In (EvEArrow a (m_client sb) t (m_ep sb) 2) (EA processed ds).
  Proof.
    induction ds as [|[[[a0 sa0] b0] sb0] r IH]; intros processed a sa t sb Hin Hp Hne Hps; [destruct Hin|].
    cbn [ea]. destruct Hin as [[= -> -> -> ->]|Hin].
    - rewrite Hp. cbn [negb]. destruct (N.eqb_spec a t) as [E|_]; [congruence|]. cbn [negb]. rewrite Hps.
      destruct (existsb (triple_eqb (a,sb,t)) processed) eqn:Hx; [left; apply triple_mem_In, Hx|].
      right. right. left. reflexivity.
    - specialize (fun p => IH p _ _ _ _ Hin Hp Hne Hps).
      assert (Hk : In (a,sb,t) processed \/ In (EvEArrow a (m_client sb) t (m_ep sb) 2) (EA processed r)) by apply IH.
      destruct (negb (passes vi rb (a0,sa0,b0,sb0))); [exact Hk|].
      destruct (negb (N.eqb a0 b0)); [|destruct Hk as [Hk|Hk]; [left; exact Hk|right; right; exact Hk]].
      destruct (is_ps vi a0 sa0); [destruct Hk as [Hk|Hk]; [left; exact Hk|right; right; exact Hk]|].
      destruct (existsb (triple_eqb (a0,sb0,b0)) processed); [destruct Hk as [Hk|Hk]; [left; exact Hk|right; right; exact Hk]|].
      destruct (IH ((a0,sb0,b0)::processed)) as [[[= -> -> ->]|Hx]|Hx].
      + right. right. left. reflexivity.
      + left. exact Hx.
      + right. right. right. exact Hx.
  Qed.

  Theorem epa_complete ds a sa t sb : In (a,sa,t,sb) ds -> passes vi rb (a,sa,t,sb) = true ->
    let evs := epa_view vi seedset rb ds in
    (a <> t -> is_ps vi a sa = true -> In (EvEArrow a (m_ep sa) t (m_ep sb) 1) evs) /\
    (a <> t -> is_ps vi a sa = false ->
       In (EvEArrow a (m_ep sa) a (m_client sb) 0) evs /\ In (EvEArrow a (m_client sb) t (m_ep sb) 2) evs) /\
    (a = t -> In (EvEArrow a (m_ep sa) a (m_ep sb) 0) evs).
  Proof.
    intros Hin Hp. cbv zeta. split; [|split].
    - intros Hne Hps. apply in_earrows. rewrite epa_view_earrows. eapply ea_complete_ps; eassumption.
    - intros Hne Hps. split; apply in_earrows; rewrite epa_view_earrows.
      + eapply ea_complete_client; eassumption.
      + destruct (ea_complete_black ds [] a sa t sb Hin Hp Hne Hps) as [[]|H]. exact H.
    - intros E. subst t. apply in_earrows. rewrite epa_view_earrows. eapply ea_complete_self; eassumption.
  Qed.
End EpaC.

(* B3: with the builder *)
Theorem epa_view_sound m listed ex pt g fuel s vi rb a ma b mb c :
  build m listed ex pt g true fuel = Ok s ->
  In (EvEArrow a ma b mb c) (epa_view vi (seeds m listed ex true) rb (deps s)) ->
  mem a ex = false /\ mem b ex = false /\ (a = b \/ exists sep e, has_call m a sep b e).
Proof.
  intros Hb Hin. apply epa_sound in Hin. destruct Hin as (sa & t & sb & Hd & _ & Hc).
  destruct (build_sound _ _ _ _ _ _ _ Hb _ _ _ _ Hd) as (Hcall & Ha & Ht).
  destruct Hc as [(_ & _ & -> & _)|[(_ & _ & -> & _)|[(_ & _ & -> & _)|(_ & -> & _)]]].
  - split; [exact Ha|]. split; [exact Ht|]. right. exists sa, sb. exact Hcall.
  - split; [exact Ha|]. split; [exact Ha|]. left. reflexivity.
  - split; [exact Ha|]. split; [exact Ht|]. right. exists sa, sb. exact Hcall.
  - split; [exact Ha|]. split; [exact Ht|]. right. exists sa, sb. exact Hcall.
Qed.

Theorem epa_view_complete_restricted m listed ex pt g fuel s vi rb S ap sep ep t e :
  build m listed ex pt g true fuel = Ok s ->
  In S listed -> assoc S m = Some ap -> human ap = false -> mem S ex = false ->
  In (sep, ep) (eps ap) -> coll ep = false -> In (t,e) (calls (body ep)) ->
  mem t ex = false -> target_human m t = false -> target_hidden m t e = Ok false ->
  passes vi rb (S,sep,t,e) = true ->
  let evs := epa_view vi (seeds m listed ex true) rb (deps s) in
  (S <> t -> is_ps vi S sep = true -> In (EvEArrow S (m_ep sep) t (m_ep e) 1) evs) /\
  (S <> t -> is_ps vi S sep = false ->
     In (EvEArrow S (m_ep sep) S (m_client e) 0) evs /\ In (EvEArrow S (m_client e) t (m_ep e) 2) evs) /\
  (S = t -> In (EvEArrow S (m_ep sep) S (m_ep e) 0) evs).
Proof.
  intros Hb HS Hap Hhu Hex Hep Hcoll Hin Htex Hth Hthi Hp.
  apply epa_complete; [|exact Hp]. eapply build_complete; eassumption.
Qed.
Theorem epa_view_complete m listed ex pt g fuel s vi S ap sep ep t e :
  build m listed ex pt g true fuel = Ok s ->
  In S listed -> assoc S m = Some ap -> human ap = false -> mem S ex = false ->
  In (sep, ep) (eps ap) -> coll ep = false -> In (t,e) (calls (body ep)) ->
  mem t ex = false -> target_human m t = false -> target_hidden m t e = Ok false ->
  let evs := epa_view vi (seeds m listed ex true) false (deps s) in
  (S <> t -> is_ps vi S sep = true -> In (EvEArrow S (m_ep sep) t (m_ep e) 1) evs) /\
  (S <> t -> is_ps vi S sep = false ->
     In (EvEArrow S (m_ep sep) S (m_client e) 0) evs /\ In (EvEArrow S (m_client e) t (m_ep e) 2) evs) /\
  (S = t -> In (EvEArrow S (m_ep sep) S (m_ep e) 0) evs).
Proof.
  intros Hb HS Hap Hhu Hex Hep Hcoll Hin Htex Hth Hthi.
  eapply epa_view_complete_restricted; try eassumption. apply passes_no_restrict.
Qed.

(* the witness of the EPA examples: app 0 endpoint 1 calls app 1 endpoint 1 and its own endpoint 2; endpoint 2
   (pubsub) calls app 1 endpoint 1; app 1 and its endpoint carry the restrict_by attribute *)
Definition evi : vinfo :=
  {| names := []; mixins := []; app_r := [1]; ep_r := [(1,1)]; pubsub := [(0,2)] |}.
Definition em : module :=
  [(0, {| human := false; eps := [(1, wep [Call 1 1; Call 0 2]); (2, wep [Call 1 1])] |});
   (1, {| human := false; eps := [(1, wep [])] |})].
Definition es : st := {| deps := [(0,1,1,1); (0,1,0,2); (0,2,1,1)]; final := [0;1;0;1;0] |}.
Lemma ebuild : build em [0] [] [] true true (fuel_bound em) = Ok es.
Proof. vm_compute. reflexivity. Qed.
(* silver 0.ep1 -> 0.client1, black 0.client1 -> 1.ep1, silver 0.ep1 -> 0.ep2, blue 0.ep2 -> 1.ep1; with the
   restriction the call that stays inside app 0 is left out *)
Example epa_view_example :
  earrows (epa_view evi (seeds em [0] [] true) false (deps es))
    = [EvEArrow 0 2 0 3 0; EvEArrow 0 3 1 2 2; EvEArrow 0 2 0 4 0; EvEArrow 0 4 1 2 1] /\
  earrows (epa_view evi (seeds em [0] [] true) true (deps es))
    = [EvEArrow 0 2 0 3 0; EvEArrow 0 3 1 2 2; EvEArrow 0 4 1 2 1].
Proof. split; vm_compute; reflexivity. Qed.
Example epa_sound_nonvacuous :
  In (EvEArrow 0 3 1 2 2) (epa_view evi (seeds em [0] [] true) true (deps es)) /\
  In (0,1,1,1) (deps es) /\ passes evi true (0,1,1,1) = true /\ is_ps evi 0 1 = false /\
  has_call em 0 1 1 1 /\ passes evi true (0,1,0,2) = false.
Proof.
  split; [vm_compute; repeat (first [left; reflexivity|right])|]. split; [left; reflexivity|].
  split; [reflexivity|]. split; [reflexivity|]. split; [|reflexivity].
  eexists. eexists. split; [reflexivity|]. split; [left; reflexivity|left; reflexivity].
Qed.
(* the hypotheses of epa_view_complete(_restricted) for the three calls of app 0 *)
Example epa_view_complete_nonvacuous :
  let ap := {| human := false; eps := [(1, wep [Call 1 1; Call 0 2]); (2, wep [Call 1 1])] |} in
  build em [0] [] [] true true (fuel_bound em) = Ok es /\
  In 0 [0] /\ assoc 0 em = Some ap /\ human ap = false /\ mem 0 [] = false /\
  In (1, wep [Call 1 1; Call 0 2]) (eps ap) /\ In (2, wep [Call 1 1]) (eps ap) /\
  coll (wep [Call 1 1; Call 0 2]) = false /\ coll (wep [Call 1 1]) = false /\
  In (1,1) (calls (body (wep [Call 1 1; Call 0 2]))) /\ In (0,2) (calls (body (wep [Call 1 1; Call 0 2]))) /\
  In (1,1) (calls (body (wep [Call 1 1]))) /\
  mem 1 [] = false /\ target_human em 1 = false /\ target_hidden em 1 1 = Ok false /\
  target_human em 0 = false /\ target_hidden em 0 2 = Ok false /\
  passes evi true (0,1,1,1) = true /\ passes evi true (0,2,1,1) = true /\
  is_ps evi 0 1 = false /\ is_ps evi 0 2 = true.
Proof.
  cbv zeta. split; [exact ebuild|]. split; [left; reflexivity|]. split; [reflexivity|]. split; [reflexivity|].
  split; [reflexivity|]. split; [left; reflexivity|]. split; [right; left; reflexivity|].
  split; [reflexivity|]. split; [reflexivity|]. split; [left; reflexivity|]. split; [right; left; reflexivity|].
  split; [left; reflexivity|]. repeat (split; [reflexivity|]). reflexivity.
Qed.

(* ---------- B4: every state an EPA arrow needs was declared inside the box of its app ---------- *)
Lemma in_insert_sorted x y l : In x (insert_sorted y l) <-> x = y \/ In x l.
Proof.
  induction l as [|z r IH]; cbn [insert_sorted].
  - cbn [In]. split; [intros [H|[]]; left; symmetry; exact H|intros [H|[]]; left; symmetry; exact H].
  - destruct (y <? z).
    + cbn [In]. split; [intros [H|H]; [left; symmetry; exact H|right; exact H]|intros [H|H]; [left; symmetry; exact H|right; exact H]].
    + destruct (N.eqb_spec y z) as [E|_].
      * subst z. cbn [In]. split; [intros H; right; exact H|intros [H|H]; [left; symmetry; exact H|exact H]].
      * cbn [In]. rewrite IH. split.
        -- intros [H|[H|H]]; [right; left; exact H|left; exact H|right; right; exact H].
        -- intros [H|[H|H]]; [right; left; exact H|left; exact H|right; right; exact H].
Qed.
Lemma in_sort_dedup x l : In x (sort_dedup l) <-> In x l.
Proof.
  unfold sort_dedup. induction l as [|y r IH]; cbn [fold_right]; [reflexivity|].
  rewrite in_insert_sorted, IH. cbn [In]. split; (intros [H|H]; [left; symmetry; exact H|right; exact H]).
Qed.

Section EpaD.
  Variable vi : vinfo.
  Variable seedset : list id.
  Variable rb : bool.

  Lemma epa_states_grows a : forall ms sym,
    incl sym (snd (epa_states seedset sym a ms)) /\
    forall mb, In mb ms -> In (a,mb) (snd (epa_states seedset sym a ms)).
  Proof.
    induction ms as [|mb r IH]; intros sym; cbn [epa_states].
    - split; [apply incl_refl|intros mb []].
    - destruct (vm_epa seedset sym a mb) as [e1 s1] eqn:E1. apply vm_epa_grows in E1. destruct E1 as [Hi Hm].
      destruct (IH s1) as [IHi IHm]. destruct (epa_states seedset s1 a r) as [er sr]. cbn [snd] in *.
      split; [eapply incl_tran; eassumption|]. intros mb' [<-|H]; [apply IHi, Hm|apply IHm, H].
  Qed.
  Lemma epa_clusters_grows ds : forall ks sym,
    incl sym (snd (epa_clusters vi seedset rb sym ds ks)) /\
    forall a mb, In a ks -> In mb (epa_members vi rb ds a) -> In (a,mb) (snd (epa_clusters vi seedset rb sym ds ks)).
  Proof.
    induction ks as [|a r IH]; intros sym; cbn [epa_clusters].
    - split; [apply incl_refl|intros a mb []].
    - destruct (epa_states_grows a (sort_dedup (epa_members vi rb ds a)) sym) as [Hi Hm].
      destruct (epa_states seedset sym a (sort_dedup (epa_members vi rb ds a))) as [e s].
      destruct (IH s) as [IHi IHm]. destruct (epa_clusters vi seedset rb s ds r) as [er sr]. cbn [snd] in *.
      split; [eapply incl_tran; eassumption|].
      intros a' mb [<-|Hin] Hmb; [apply IHi, Hm, in_sort_dedup, Hmb|apply IHm; assumption].
  Qed.

  Lemma dep_keys ds a sa b sb : In (a,sa,b,sb) ds -> passes vi rb (a,sa,b,sb) = true ->
    In a (epa_keys vi rb ds) /\ In b (epa_keys vi rb ds).
  Proof.
    intros Hin Hp. unfold epa_keys. rewrite !in_sort_dedup, !in_flat_map.
    split; exists (a,sa,b,sb); (split; [exact Hin|]); cbv beta iota; rewrite Hp; [left|right; left]; reflexivity.
  Qed.
  Lemma dep_members ds a sa b sb : In (a,sa,b,sb) ds -> passes vi rb (a,sa,b,sb) = true ->
    In (m_ep sa) (epa_members vi rb ds a) /\ In (m_ep sb) (epa_members vi rb ds b) /\
    (a <> b -> is_ps vi a sa = false -> In (m_client sb) (epa_members vi rb ds a)).
  Proof.
    intros Hin Hp. unfold epa_members. rewrite !in_flat_map. split; [|split].
    - exists (a,sa,b,sb). split; [exact Hin|]. cbv beta iota. rewrite Hp, N.eqb_refl.
      apply in_or_app. left. left. reflexivity.
    - exists (a,sa,b,sb). split; [exact Hin|]. cbv beta iota. rewrite Hp, N.eqb_refl.
      apply in_or_app. right. left. reflexivity.
    - intros Hne Hps. exists (a,sa,b,sb). split; [exact Hin|]. cbv beta iota. rewrite Hp, N.eqb_refl, Hps.
      destruct (N.eqb_spec a b) as [E|_]; [congruence|]. cbn [negb andb].
      apply in_or_app. left. right. left. reflexivity.
  Qed.

  (* when the table already holds what the arrows mention, the arrow loop writes the arrows and nothing else *)
  Lemma epa_arrows_declared : forall ds processed sym,
    (forall a sa b sb, In (a,sa,b,sb) ds -> passes vi rb (a,sa,b,sb) = true ->
       In (a, m_ep sa) sym /\ In (b, m_ep sb) sym /\ (a <> b -> is_ps vi a sa = false -> In (a, m_client sb) sym)) ->
    epa_arrows vi seedset rb processed sym ds = ea vi rb processed ds.
  Proof.
    induction ds as [|[[[a sa] b] sb] r IH]; intros processed sym H; cbn [epa_arrows ea]; [reflexivity|].
    assert (Hr : forall p, epa_arrows vi seedset rb p sym r = ea vi rb p r).
    { intros p. apply IH. intros a0 sa0 b0 sb0 Hin. apply H. right. exact Hin. }
    destruct (passes vi rb (a,sa,b,sb)) eqn:Hp; cbn [negb]; [|apply Hr].
    destruct (H a sa b sb (or_introl eq_refl) Hp) as (H1 & H2 & H3).
    destruct (N.eqb_spec a b) as [E|Hne]; cbn [negb].
    - rewrite (vm_epa_hit seedset sym a (m_ep sa) H1), (vm_epa_hit seedset sym b (m_ep sb) H2). cbn [List.app].
      rewrite Hr. reflexivity.
    - destruct (is_ps vi a sa) eqn:Hps.
      + rewrite (vm_epa_hit seedset sym a (m_ep sa) H1), (vm_epa_hit seedset sym b (m_ep sb) H2). cbn [List.app].
        rewrite Hr. reflexivity.
      + specialize (H3 Hne eq_refl).
        rewrite (vm_epa_hit seedset sym a (m_ep sa) H1), (vm_epa_hit seedset sym a (m_client sb) H3).
        destruct (existsb (triple_eqb (a,sb,b)) processed).
        * cbn [List.app]. rewrite Hr. reflexivity.
        * rewrite (vm_epa_hit seedset sym a (m_client sb) H3), (vm_epa_hit seedset sym b (m_ep sb) H2).
          cbn [List.app]. rewrite Hr. reflexivity.
  Qed.

  Theorem epa_arrows_declare_nothing ds e0 s0 :
    epa_clusters vi seedset rb [] ds (epa_keys vi rb ds) = (e0, s0) ->
    epa_view vi seedset rb ds = e0 ++ epa_arrows vi seedset rb [] s0 ds /\
    epa_arrows vi seedset rb [] s0 ds = ea vi rb [] ds /\
    forall a mb hl, ~ In (EvState a mb hl) (epa_arrows vi seedset rb [] s0 ds).
  Proof.
    intros E. split; [unfold epa_view; rewrite E; reflexivity|].
    assert (Heq : epa_arrows vi seedset rb [] s0 ds = ea vi rb [] ds).
    { apply epa_arrows_declared. intros a sa b sb Hin Hp.
      destruct (epa_clusters_grows ds (epa_keys vi rb ds) []) as [_ Hm]. rewrite E in Hm. cbn [snd] in Hm.
      destruct (dep_keys _ _ _ _ _ Hin Hp) as [Ka Kb]. destruct (dep_members _ _ _ _ _ Hin Hp) as (M1 & M2 & M3).
      split; [apply Hm; assumption|]. split; [apply Hm; assumption|].
      intros Hne Hps. apply Hm; [exact Ka|apply M3; assumption]. }
    split; [exact Heq|]. intros a mb hl Hin. rewrite Heq in Hin. apply ea_sound in Hin.
    destruct Hin as (a0 & sa & t & sb & _ & _ & Hx). exact Hx.
  Qed.
End EpaD.
Example epa_arrows_declare_nothing_example :
  epa_view evi (seeds em [0] [] true) false (deps es) =
  [EvTop 0 true; EvState 0 2 true; EvState 0 3 true; EvState 0 4 true; EvEnd; EvTop 1 false; EvState 1 2 false; EvEnd;
   EvEArrow 0 2 0 3 0; EvEArrow 0 3 1 2 2; EvEArrow 0 2 0 4 0; EvEArrow 0 4 1 2 1].
Proof. vm_compute. reflexivity. Qed.

(* ================= A7: the mixin arrows ================= *)
Lemma in_mixin_links k1 k2 evs : In (EvMixin k1 k2) evs <-> In (EvMixin k1 k2) (links evs).
Proof. rewrite in_links. cbn [is_link]. split; [intros H; split; [exact H|reflexivity]|intros [H _]; exact H]. Qed.

Theorem in_mixins vi k seedset di cl apps ds k1 k2 :
  In (EvMixin k1 k2) (ints_view vi k seedset di cl false apps ds) <->
  exists a mx, In a apps /\ In mx (mixins_of vi a) /\
               k1 = keyf vi k cl false apps mx /\ k2 = keyf vi k cl false apps a.
Proof.
  rewrite in_mixin_links, ints_view_links, in_app_iff, in_flat_map. split.
  - intros [H|(a & Ha & H)].
    + apply in_map_iff in H. destruct H as ([[a b] i] & E & _). discriminate E.
    + apply in_map_iff in H. destruct H as (mx & [= <- <-] & Hmx). exists a, mx.
      split; [exact Ha|]. split; [exact Hmx|]. split; reflexivity.
  - intros (a & mx & Ha & Hmx & -> & ->). right. exists a. split; [exact Ha|].
    apply in_map_iff. exists mx. split; [reflexivity|exact Hmx].
Qed.
Theorem system_view_no_mixins vi k seedset di cl apps ds k1 k2 :
  ~ In (EvMixin k1 k2) (ints_view vi k seedset di cl true apps ds).
Proof.
  rewrite in_mixin_links, ints_view_links, app_nil_r. intros H.
  apply in_map_iff in H. destruct H as ([[a b] i] & E & _). discriminate E.
Qed.
(* app 0 ("A") mixes in app 2 ("G :: B") *)
Definition mvi : vinfo :=
  {| names := names wvi; mixins := [(0, [2])]; app_r := []; ep_r := []; pubsub := [] |}.
Example in_mixins_example :
  links (ints_view mvi true (seeds wm [0;1] [] true) true true false (final ws) (deps ws))
    = [EvArrow 0 3 false; EvMixin 3 0] /\
  links (ints_view mvi true (seeds wm [0;1] [] true) true true true (final ws) (deps ws))
    = [EvArrow 0 2 false] /\
  mixins_of mvi 0 = [2] /\ keyf mvi true true false (final ws) 2 = 3 /\ keyf mvi true true false (final ws) 0 = 0.
Proof. split; [vm_compute; reflexivity|]. split; [vm_compute; reflexivity|]. split; [reflexivity|split; reflexivity]. Qed.

(* ================= A8: a component is declared before a line mentions it ================= *)
Definition ends (e:ev) : list N := match e with EvArrow ka kb _ | EvMixin ka kb => [ka; kb] | _ => [] end.
Definition comps1 (e:ev) : list N := match e with EvComp key _ _ => [key] | _ => [] end.
Definition comps (evs:list ev) : list N := flat_map comps1 evs.
(* reading the events in order with the keys declared so far *)
Fixpoint ok (d:list N) (evs:list ev) : Prop :=
  match evs with
  | [] => True
  | e :: r => (forall x, In x (ends e) -> In x d) /\ ok (d ++ comps1 e) r
  end.
Lemma comps_app e1 e2 : comps (e1 ++ e2) = comps e1 ++ comps e2.
Proof. apply flat_map_app. Qed.
Lemma in_comps key evs : In key (comps evs) <-> exists lb h, In (EvComp key lb h) evs.
Proof.
  unfold comps. rewrite in_flat_map. split.
  - intros (e & He & Hx). destruct e; cbn [comps1 In] in Hx; try contradiction.
    destruct Hx as [<-|[]]. eexists. eexists. exact He.
  - intros (lb & h & H). eexists. split; [exact H|left; reflexivity].
Qed.
Lemma ok_app : forall e1 d e2, ok d e1 -> ok (d ++ comps e1) e2 -> ok d (e1 ++ e2).
Proof.
  induction e1 as [|e r IH]; intros d e2 H1 H2.
  - cbn [comps flat_map] in H2. rewrite app_nil_r in H2. exact H2.
  - cbn [ok List.app] in *. destruct H1 as [Hx H1]. split; [exact Hx|]. apply IH; [exact H1|].
    rewrite <- app_assoc. exact H2.
Qed.
Lemma ok_split : forall pre d e post, ok d (pre ++ e :: post) -> forall x, In x (ends e) -> In x (d ++ comps pre).
Proof.
  induction pre as [|h r IH]; intros d e post H x Hx.
  - cbn [List.app ok] in H. cbn [comps flat_map]. rewrite app_nil_r. apply H, Hx.
  - cbn [List.app ok] in H. destruct H as [_ H]. pose proof (IH _ _ _ H x Hx) as Hin.
    rewrite <- app_assoc in Hin. exact Hin.
Qed.

Section CompOk.
  Variable vi : vinfo.
  Variable k : bool.
  Variable seedset : list id.
  Variable di : bool.
  Variable nmap : list (N*N).

  Lemma vm_comp_ok sym l d e s' key : incl sym d -> vm_comp vi k seedset nmap sym l = (e, s', key) ->
    ok d e /\ incl s' (d ++ comps e) /\ In key s'.
  Proof.
    intros Hs H. apply vm_comp_inv in H. destruct H as (_ & [(-> & -> & Hk)|((lb & h & ->) & -> & _)]).
    - split; [exact Logic.I|]. split; [|exact Hk]. cbn [comps flat_map]. rewrite app_nil_r. exact Hs.
    - split; [split; [intros x []|exact Logic.I]|]. split; [|apply in_or_app; right; left; reflexivity].
      cbn [comps flat_map comps1 List.app]. apply incl_app; [apply incl_appl, Hs|apply incl_appr, incl_refl].
  Qed.

  Lemma draw_deps_ok sys : forall ds drawn sym d, incl sym d ->
    ok d (fst (draw_deps vi k seedset di sys nmap drawn sym ds)) /\
    incl (snd (draw_deps vi k seedset di sys nmap drawn sym ds))
         (d ++ comps (fst (draw_deps vi k seedset di sys nmap drawn sym ds))).
  Proof.
    induction ds as [|[[[a sa] b] sb] r IH]; intros drawn sym d Hs; cbn [draw_deps].
    - cbn [fst snd comps flat_map]. rewrite app_nil_r. split; [exact Logic.I|exact Hs].
    - cbv zeta.
      destruct (N.eqb a b); [apply IH, Hs|].
      destruct (existsb (pair_eqb (a,b)) drawn); [apply IH, Hs|].
      destruct (mem a seedset || mem b seedset || di); [|apply IH, Hs].
      destruct (vm_comp vi k seedset nmap sym _) as [[e1 s1] ka] eqn:E1.
      destruct (vm_comp vi k seedset nmap s1 _) as [[e2 s2] kb] eqn:E2.
      destruct (vm_comp_ok _ _ d _ _ _ Hs E1) as (O1 & I1 & K1).
      destruct (vm_comp_ok _ _ _ _ _ _ I1 E2) as (O2 & I2 & K2).
      destruct (IH ((a,b)::drawn) s2 _ I2) as [O3 I3].
      destruct (draw_deps vi k seedset di sys nmap ((a,b)::drawn) s2 r) as [er sr]. cbn [fst snd] in *.
      split.
      + apply ok_app; [exact O1|]. apply ok_app; [exact O2|]. cbn [ok comps1]. rewrite app_nil_r.
        split; [|exact O3]. intros x [<-|[<-|[]]]; [apply in_or_app; left; apply I1, K1|apply I2, K2].
      + rewrite !comps_app. cbn [comps flat_map comps1 List.app]. fold (comps er). rewrite !app_assoc. exact I3.
  Qed.

  Lemma draw_mixins_of_ok a : forall mxs sym d, incl sym d ->
    ok d (fst (draw_mixins_of vi k seedset nmap sym a mxs)) /\
    incl (snd (draw_mixins_of vi k seedset nmap sym a mxs))
         (d ++ comps (fst (draw_mixins_of vi k seedset nmap sym a mxs))).
  Proof.
    induction mxs as [|mx r IH]; intros sym d Hs; cbn [draw_mixins_of].
    - cbn [fst snd comps flat_map]. rewrite app_nil_r. split; [exact Logic.I|exact Hs].
    - destruct (vm_comp vi k seedset nmap sym _) as [[e1 s1] k1] eqn:E1.
      destruct (vm_comp vi k seedset nmap s1 _) as [[e2 s2] k2] eqn:E2.
      destruct (vm_comp_ok _ _ d _ _ _ Hs E1) as (O1 & I1 & K1).
      destruct (vm_comp_ok _ _ _ _ _ _ I1 E2) as (O2 & I2 & K2).
      destruct (IH s2 _ I2) as [O3 I3].
      destruct (draw_mixins_of vi k seedset nmap s2 a r) as [er sr]. cbn [fst snd] in *.
      split.
      + apply ok_app; [exact O1|]. apply ok_app; [exact O2|]. cbn [ok comps1]. rewrite app_nil_r.
        split; [|exact O3]. intros x [<-|[<-|[]]]; [apply in_or_app; left; apply I1, K1|apply I2, K2].
      + rewrite !comps_app. cbn [comps flat_map comps1 List.app]. fold (comps er). rewrite !app_assoc. exact I3.
  Qed.
  Lemma draw_mixins_ok : forall apps sym d, incl sym d -> ok d (draw_mixins vi k seedset nmap sym apps).
  Proof.
    induction apps as [|a r IH]; intros sym d Hs; cbn [draw_mixins]; [exact Logic.I|].
    destruct (draw_mixins_of_ok a (mixins_of vi a) sym d Hs) as [O1 I1].
    destruct (draw_mixins_of vi k seedset nmap sym a (mixins_of vi a)) as [e s]. cbn [fst snd] in *.
    apply ok_app; [exact O1|]. apply IH, I1.
  Qed.
  Lemma draw_members_ok : forall l sym d, incl sym d ->
    ok d (fst (draw_members vi k seedset nmap sym l)) /\
    incl (snd (draw_members vi k seedset nmap sym l)) (d ++ comps (fst (draw_members vi k seedset nmap sym l))).
  Proof.
    induction l as [|a r IH]; intros sym d Hs; cbn [draw_members].
    - cbn [fst snd comps flat_map]. rewrite app_nil_r. split; [exact Logic.I|exact Hs].
    - destruct (vm_comp vi k seedset nmap sym _) as [[e1 s1] k1] eqn:E1.
      destruct (vm_comp_ok _ _ d _ _ _ Hs E1) as (O1 & I1 & _).
      destruct (IH s1 _ I1) as [O2 I2].
      destruct (draw_members vi k seedset nmap s1 r) as [er sr]. cbn [fst snd] in *.
      split; [apply ok_app; assumption|]. rewrite comps_app, app_assoc. exact I2.
  Qed.
  Lemma draw_packages_ok apps : forall cs sym d, incl sym d ->
    ok d (fst (draw_packages vi k seedset nmap apps sym cs)) /\
    incl (snd (draw_packages vi k seedset nmap apps sym cs))
         (d ++ comps (fst (draw_packages vi k seedset nmap apps sym cs))).
  Proof.
    induction cs as [|c r IH]; intros sym d Hs; cbn [draw_packages].
    - cbn [fst snd comps flat_map]. rewrite app_nil_r. split; [exact Logic.I|exact Hs].
    - destruct (draw_members_ok (members vi c apps) sym d Hs) as [O1 I1].
      destruct (draw_members vi k seedset nmap sym (members vi c apps)) as [e s].
      cbn [fst snd] in O1, I1. destruct (IH s _ I1) as [O2 I2].
      destruct (draw_packages vi k seedset nmap apps s r) as [er sr]. cbn [fst snd] in *.
      split.
      + cbn [ok comps1 ends]. rewrite app_nil_r. split; [intros x []|].
        apply ok_app; [exact O1|]. cbn [ok comps1 ends]. rewrite app_nil_r. split; [intros x []|exact O2].
      + cbn [comps flat_map comps1 List.app]. fold (comps (e ++ EvEnd :: er)). rewrite comps_app.
        cbn [comps flat_map comps1 List.app]. fold (comps er). rewrite app_assoc. exact I2.
  Qed.
End CompOk.

Theorem ints_view_ok vi k seedset di cl sys apps ds : ok [] (ints_view vi k seedset di cl sys apps ds).
Proof.
  unfold ints_view. cbv zeta. set (nmap := if cl then name_map vi apps else []).
  assert (H0 : ok [] (fst (if cl then draw_packages vi k seedset nmap apps [] (kept_clusters vi apps) else ([], []))) /\
               incl (snd (if cl then draw_packages vi k seedset nmap apps [] (kept_clusters vi apps) else ([], [])))
                    ([] ++ comps (fst (if cl then draw_packages vi k seedset nmap apps [] (kept_clusters vi apps) else ([], []))))).
  { destruct cl; [apply draw_packages_ok, incl_refl|]. split; [exact Logic.I|apply incl_refl]. }
  destruct (if cl then draw_packages vi k seedset nmap apps [] (kept_clusters vi apps) else ([], [])) as [e0 s0].
  cbn [fst snd] in H0. destruct H0 as [O0 I0].
  destruct (draw_deps_ok vi k seedset di nmap sys ds [] s0 _ I0) as [O1 I1].
  destruct (draw_deps vi k seedset di sys nmap [] s0 ds) as [e1 s1]. cbn [fst snd] in *.
  apply ok_app; [exact O0|]. apply ok_app; [exact O1|].
  destruct sys; [exact Logic.I|]. apply draw_mixins_ok, I1.
Qed.

(* A8 *)
Definition declared (key:N) (evs:list ev) : Prop := exists lb h, In (EvComp key lb h) evs.
Theorem comps_declared_before_use vi k seedset di cl sys apps ds pre post ka kb :
  (forall i, ints_view vi k seedset di cl sys apps ds = pre ++ EvArrow ka kb i :: post ->
     declared ka pre /\ declared kb pre) /\
  (ints_view vi k seedset di cl sys apps ds = pre ++ EvMixin ka kb :: post ->
     declared ka pre /\ declared kb pre).
Proof.
  pose proof (ints_view_ok vi k seedset di cl sys apps ds) as Hok.
  split; [intros i E|intros E]; rewrite E in Hok;
    (split; apply in_comps; apply (ok_split _ [] _ _ Hok); [left; reflexivity|right; left; reflexivity]).
Qed.
(* note the model's highlight of [EvComp 3 1 _]: "G :: B" is shown as "B", and hl_lbl looks the SHOWN label up
   among the seeds, so it is highlighted because the other app "B" is a seed, although "G :: B" is not *)
Example comps_declared_before_use_example :
  ints_view mvi true (seeds wm [0;1] [] true) true true false (final ws) (deps ws)
  = [EvComp 0 0 true; EvComp 3 1 true; EvArrow 0 3 false; EvMixin 3 0].
Proof. vm_compute. reflexivity. Qed.
