(* C14: the current pkg/integrationdiagram/ints_view.go still has the shape VModel.v was written from.  Every
   lemma is a comparison (reflexivity) of the regenerated table Gen/IntsViewShape.v with the reading the model
   gives it; a source the translator cannot classify yields ...Unknown and the lemma fails. *)
From Coq Require Import List String Bool NArith.
Import ListNotations.
Require Import Verif.Ints.IntsModel Verif.Ints.VModel Verif.Ints.VShapeTypes Verif.Gen.IntsViewShape.
Local Open Scope string_scope.

(* the switch k of VModel.vm_comp that a statement list of VarManagerForComponent stands for *)
Definition sym_k (steps:list symstep) : option bool :=
  match steps with
  | [SKeepOwnName; SRename; SLookup KOwn; SStore KOwn; SHighlightBy KRenamed] => Some true
  | [SRename; SLookup KRenamed; SStore KRenamed; SHighlightBy KRenamed] => Some false   (* before repair C14-3 *)
  | _ => None
  end.
Lemma shape_comp_symbols : sym_k comp_symbols = Some true.
Proof. reflexivity. Qed.

(* generate_view: EPA <- --epa or view=epa; package boxes <- --clustered or view=clustered; system arrows <- view=system *)
Lemma shape_view_dispatch :
  view_dispatch = [("GenerateView", [DCli "Epa"; DAttr "epa"]);
                   ("GenerateIntsView", [DCli "Clustered"; DAttr "clustered"]);
                   ("DrawIntsView", [DAttr "system"])].
Proof. reflexivity. Qed.

(* draw_deps: pair and direct test from the full names; the system view renames the ends afterwards *)
Lemma shape_arrow_loops :
  arrows_ints = [LSrc; LTgt; LSkipSelf; LPair; LDirectDecl; LDirect Src; LDirect Tgt; LOncePerPair] /\
  arrows_system = [LSrc; LTgt; LSkipSelf; LPair; LDirectDecl; LDirect Src; LDirect Tgt; LFirstPart Src; LFirstPart Tgt; LOncePerPair].
Proof. split; reflexivity. Qed.

(* passes: the meaning of the two restrict_by tests, as a function of "who carries the attribute" *)
Definition rop_holds (vi:vinfo) (d:dep) (o:rop) : bool :=
  match d, o with
  | (a,_,_,_), RApp Src => mem a (app_r vi)
  | (_,_,b,_), RApp Tgt => mem b (app_r vi)
  | (a,sa,_,_), REp Src => nmem (a,sa) (ep_r vi)
  | (_,_,b,sb), REp Tgt => nmem (b,sb) (ep_r vi)
  | _, ROpUnknown => false
  end.
Definition rstep_passes (vi:vinfo) (rb:bool) (d:dep) (s:rstep) : bool :=
  match s with RSkipUnlessAny ops => negb (rb && negb (existsb (rop_holds vi d) ops)) | RUnknown => false end.
Lemma shape_epa_restrict : forall vi rb d, passes vi rb d = forallb (rstep_passes vi rb d) epa_restrict.
Proof.
  intros vi rb [[[a sa] b] sb]. cbn [epa_restrict forallb rstep_passes existsb rop_holds passes].
  destruct rb, (mem a (app_r vi)), (mem b (app_r vi)), (nmem (a,sa) (ep_r vi)), (nmem (b,sb) (ep_r vi)); reflexivity.
Qed.

Theorem view_source_shape :
  sym_k comp_symbols = Some true /\
  view_dispatch = [("GenerateView", [DCli "Epa"; DAttr "epa"]);
                   ("GenerateIntsView", [DCli "Clustered"; DAttr "clustered"]);
                   ("DrawIntsView", [DAttr "system"])] /\
  arrows_ints = [LSrc; LTgt; LSkipSelf; LPair; LDirectDecl; LDirect Src; LDirect Tgt; LOncePerPair] /\
  arrows_system = [LSrc; LTgt; LSkipSelf; LPair; LDirectDecl; LDirect Src; LDirect Tgt; LFirstPart Src; LFirstPart Tgt; LOncePerPair] /\
  (forall vi rb d, passes vi rb d = forallb (rstep_passes vi rb d) epa_restrict).
Proof.
  split; [exact shape_comp_symbols|]. split; [exact shape_view_dispatch|].
  split; [exact (proj1 shape_arrow_loops)|]. split; [exact (proj2 shape_arrow_loops)|exact shape_epa_restrict].
Qed.
