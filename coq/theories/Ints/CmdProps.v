(* C14 proofs about the command layer (Ints/CmdModel.v): the files `sysl ints` writes are exactly the views of the
   result map unless a view cannot be written, in which case the command reports an error whatever the map order is
   (but which of the other views were written first does depend on it); the default exclude list; output names:
   every diagram of the result belongs to an endpoint with that output name that passes the filter, an endpoint
   alone under its name has its own diagram, the default template %(epname).png gives every endpoint its own;
   panics: none when the project has no endpoint or when the format checks and the filter compiles, refuted in
   general. *)
From Coq Require Import String Ascii List NArith Bool Arith Lia Permutation.
Import ListNotations.
Require Import Verif.Seq.Fmt Verif.Seq.FmtProps Verif.Ints.IntsModel Verif.Ints.IntsProps Verif.Ints.VModel Verif.Ints.VProps Verif.Ints.VGenProps Verif.Ints.CmdModel.
Local Open Scope string_scope.
Local Open Scope list_scope.

(* ===================== GenerateFromMap ===================== *)
Lemma write_all_prefix ok order :
  exists rest, order = fst (write_all ok order) ++ rest /\
               forallb ok (fst (write_all ok order)) = true /\
               (snd (write_all ok order) = false -> rest = []) /\
               (snd (write_all ok order) = true -> exists k r, rest = k :: r /\ ok k = false).
Proof.
  induction order as [|k r IH]; cbn [write_all].
  - exists []. cbn. repeat split; try reflexivity; intros; discriminate.
  - destruct (ok k) eqn:Ek.
    + destruct IH as (rest & Ho & Hf & H0 & H1). destruct (write_all ok r) as [w e] eqn:Ew. cbn [fst snd] in *.
      exists rest. repeat split.
      * cbn [List.app]. f_equal. exact Ho.
      * cbn [forallb]. rewrite Ek. exact Hf.
      * exact H0.
      * exact H1.
    + exists (k :: r). cbn [fst snd List.app forallb]. repeat split; try reflexivity; [intros; discriminate|].
      intros _. exists k, r. split; [reflexivity|exact Ek].
Qed.

(* no view fails: every view is written, whatever the order *)
Theorem files_exactly_views ok keys order :
  Permutation order keys -> (forall k, In k keys -> ok k = true) ->
  write_all ok order = (order, false) /\ Permutation (fst (write_all ok order)) keys.
Proof.
  intros Hp Hok.
  assert (H : forall l, (forall k, In k l -> ok k = true) -> write_all ok l = (l, false)).
  { induction l as [|k r IH]; intros Hl; cbn [write_all]; [reflexivity|].
    rewrite (Hl k (or_introl eq_refl)). rewrite IH; [reflexivity|]. intros k' Hk'. apply Hl. right. exact Hk'. }
  rewrite H; [split; [reflexivity|exact Hp]|]. intros k Hk. apply Hok. eapply Permutation_in; eauto.
Qed.

(* some view fails: the command reports an error, whatever the order - a failing view is never silent *)
Theorem failure_not_silent ok keys order :
  Permutation order keys -> (exists k, In k keys /\ ok k = false) -> snd (write_all ok order) = true.
Proof.
  intros Hp (k & Hk & Hbad).
  destruct (write_all_prefix ok order) as (rest & Ho & Hf & H0 & _).
  destruct (snd (write_all ok order)) eqn:E; [reflexivity|exfalso].
  rewrite (H0 eq_refl), app_nil_r in Ho.
  assert (Hin : In k (fst (write_all ok order))) by (rewrite <- Ho; eapply Permutation_in; [apply Permutation_sym; exact Hp|exact Hk]).
  rewrite forallb_forall in Hf. rewrite (Hf k Hin) in Hbad. discriminate.
Qed.

(* whatever was written before the error is a view of the map that can be written: no other file appears *)
Theorem written_are_views ok keys order k :
  Permutation order keys -> In k (fst (write_all ok order)) -> In k keys /\ ok k = true.
Proof.
  intros Hp Hin. destruct (write_all_prefix ok order) as (rest & Ho & Hf & _).
  split.
  - eapply Permutation_in; [exact Hp|]. rewrite Ho. apply in_or_app. left. exact Hin.
  - rewrite forallb_forall in Hf. apply Hf. exact Hin.
Qed.

(* ... but WHICH of the good views are written before the error depends on the order of the Go map: with one
   failing name, the good view is written in one order and dropped in the other *)
Theorem good_views_after_error_refuted :
  exists ok o1 o2 k, Permutation o1 o2 /\ ok k = true /\ In k o1 /\
                     In k (fst (write_all ok o1)) /\ ~ In k (fst (write_all ok o2)) /\
                     snd (write_all ok o1) = true /\ snd (write_all ok o2) = true.
Proof.
  exists (out_ok {| server_up := false; unwritable := [] |}), ["V1.puml"; "V2.txt"], ["V2.txt"; "V1.puml"], "V1.puml".
  split; [apply perm_swap|]. vm_compute. repeat split; auto.
Qed.

(* ===================== path.Ext and the modes ===================== *)
Example mode_examples :
  map mode_of ["V1.png"; "a.b/V1"; "x.tar.puml"; "V1.PNG"; "dir.d/v.link"; "noext"; "x."; ".uml"; "a/b.c/d.html"; "p.svg"; "q.plantuml"; "q.uml"]
  = [MServer; MBad; MText; MBad; MLink; MBad; MBad; MText; MHtml; MServer; MText; MText].
Proof. vm_compute. reflexivity. Qed.

Lemma out_ok_mode e out : out_ok e out = true -> mode_of out <> MBad.
Proof. unfold out_ok. destruct (mode_of out); intros H; try discriminate; intros X; discriminate. Qed.

(* ===================== the default exclude list ===================== *)
Theorem default_exclude_is_project c :
  c_exclude c = [] -> c_project c <> EmptyString -> eff_exclude c = [c_proj_id c].
Proof.
  intros He Hp. unfold eff_exclude. rewrite He. destruct (String.eqb_spec (c_project c) EmptyString); [contradiction|reflexivity].
Qed.
Theorem given_exclude_is_kept c : c_exclude c <> [] -> eff_exclude c = c_exclude c.
Proof. unfold eff_exclude. destruct (c_exclude c); [intros H; contradiction H; reflexivity|reflexivity]. Qed.
Theorem no_project_no_default c : c_exclude c = [] -> c_project c = EmptyString -> eff_exclude c = [].
Proof. intros He Hp. unfold eff_exclude. rewrite He, Hp. reflexivity. Qed.

(* ===================== output names and the filter ===================== *)
Section WithRx.
  Variable rx : string -> option (string -> bool).

  Definition named (c:cli) (p:proj_ep) (out:string) : Prop :=
    fmt_output rx (c_output c) (c_project c) (pe_name p) (pe_long p) (pe_attrs p) = POk out.

  Lemma name_views_inv c : forall eps l, name_views rx c eps = COk l ->
    map (fun x => fst (fst x)) l = eps /\
    forall p out b, In (p, out, b) l -> named c p out /\ filter_pass rx c out = Some b.
  Proof.
    induction eps as [|p r IH]; intros l H; cbn [name_views] in H.
    - injection H as <-. split; [reflexivity|intros ? ? ? []].
    - destruct (fmt_output rx (c_output c) (c_project c) (pe_name p) (pe_long p) (pe_attrs p)) as [out| |] eqn:Ef; try discriminate.
      destruct (filter_pass rx c out) as [b|] eqn:Efp; try discriminate.
      destruct (name_views rx c r) as [l'|] eqn:En; try discriminate. injection H as <-.
      destruct (IH l' eq_refl) as [Hm Hall]. split; [cbn [map fst]; f_equal; exact Hm|].
      intros p0 out0 b0 [Heq|Hin]; [injection Heq as <- <- <-; split; assumption|apply Hall; exact Hin].
  Qed.

  (* the parser model never runs out of fuel *)
  Theorem name_views_never_out_of_fuel c eps : name_views rx c eps <> CPanicked PNever.
  Proof.
    induction eps as [|p r IH]; cbn [name_views]; [discriminate|].
    destruct (fmt_output rx (c_output c) (c_project c) (pe_name p) (pe_long p) (pe_attrs p)) eqn:Ef; try discriminate.
    - destruct (filter_pass rx c x); try discriminate. destruct (name_views rx c r) as [l|k] eqn:En; try discriminate.
      intros H. injection H as ->. apply IH. reflexivity.
    - exfalso. unfold fmt_output in Ef. eapply fmt_total; eauto.
  Qed.

  (* a project without endpoints (or a project name that names no application): nothing is compiled, nothing panics *)
  Theorem empty_project_loop_is_empty m vi k fuel c : cmd_views rx m vi k fuel c [] = COk [].
  Proof. reflexivity. Qed.

  (* a format that passes FormatParser.Check and a filter that compiles: no panic, for every project *)
  Theorem checked_options_never_panic c eps :
    format_ok rx (c_output c) = true ->
    (c_filter c = EmptyString \/ rx (c_filter c) <> None) ->
    exists l, name_views rx c eps = COk l.
  Proof.
    intros Hf Hre. induction eps as [|p r [l IH]]; cbn [name_views]; [eexists; reflexivity|].
    unfold fmt_output.
    destruct (fmt_checked_never_panics rx _ Hf
                (merge_attrs_map [("appname", c_project c); ("epname", pe_name p); ("eplongname", pe_long p)] (pe_attrs p))) as [out ->].
    assert (Hp : exists b, filter_pass rx c out = Some b).
    { unfold filter_pass. destruct (String.eqb_spec (c_filter c) EmptyString); [eexists; reflexivity|].
      destruct Hre as [Hre|Hre]; [contradiction|]. destruct (rx (c_filter c)); [eexists; reflexivity|contradiction Hre; reflexivity]. }
    destruct Hp as [b ->]. rewrite IH. eexists; reflexivity.
  Qed.

  (* ---- keys: position in the list of output names ---- *)
  Lemma idx_of_nth s l : smem s l = true -> nth (N.to_nat (idx_of s l)) l EmptyString = s.
  Proof.
    induction l as [|x r IH]; cbn [smem idx_of]; [discriminate|].
    destruct (String.eqb_spec s x) as [->|Hne]; [reflexivity|]. cbn [orb]. intros H.
    replace (N.to_nat (1 + idx_of s r)) with (S (N.to_nat (idx_of s r))) by lia. cbn [nth]. apply IH. exact H.
  Qed.
  Lemma idx_of_inj s t l : smem s l = true -> idx_of s l = idx_of t l -> s = t.
  Proof.
    induction l as [|x r IH]; cbn [smem idx_of]; [discriminate|].
    destruct (String.eqb_spec s x) as [->|Hs]; destruct (String.eqb_spec t x) as [->|Ht]; cbn [orb]; intros H E;
      [reflexivity|lia|lia|]. apply IH; [exact H|lia].
  Qed.
  Lemma smem_in s l : smem s l = true <-> In s l.
  Proof.
    induction l as [|x r IH]; cbn [smem In]; [split; [discriminate|intros []]|].
    destruct (String.eqb_spec s x) as [->|Hne]; cbn [orb]; [split; auto|].
    rewrite IH. split; [auto|intros [H|H]; [congruence|exact H]].
  Qed.

  (* the keys of gen_map are output-name keys of its views *)
  Lemma gen_map_keys {V:Type} (render:pview -> V) (P:N -> Prop) : forall vs acc,
    (forall kv, In kv acc -> P (fst kv)) -> (forall v, In v vs -> P (pv_out v)) ->
    forall kv, In kv (gen_map render vs acc) -> P (fst kv).
  Proof.
    assert (Hupd : forall o (x:V) l, P o -> (forall kv, In kv l -> P (fst kv)) -> forall kv, In kv (upd o x l) -> P (fst kv)).
    { intros o x l Ho. induction l as [|[o' y] r IH]; cbn [upd]; intros Hl kv.
      - intros [<-|[]]. exact Ho.
      - destruct (N.eqb o o').
        + intros [<-|Hin]; [exact Ho|apply Hl; right; exact Hin].
        + intros [<-|Hin]; [apply (Hl (o',y)); left; reflexivity|apply IH; [intros kv' H'; apply Hl; right; exact H'|exact Hin]]. }
    induction vs as [|v r IH]; intros acc Hacc Hvs kv; cbn [gen_map]; [apply Hacc|].
    apply IH; [|intros w Hw; apply Hvs; right; exact Hw].
    destruct (pv_match v); [|exact Hacc]. apply Hupd; [apply Hvs; left; reflexivity|exact Hacc].
  Qed.

  (* the string-keyed result read through the N-keyed one *)
  Lemma sassoc_named {V:Type} (outs:list string) (G:list (N * V)) (out:string) :
    (forall kv, In kv G -> exists o, In o outs /\ fst kv = idx_of o outs) ->
    In out outs ->
    sassoc out (map (fun kv => (nth (N.to_nat (fst kv)) outs EmptyString, snd kv)) G) = assoc (idx_of out outs) G.
  Proof.
    intros HG Hout. induction G as [|[k x] r IH]; cbn [map sassoc assoc fst snd]; [reflexivity|].
    destruct (HG (k,x) (or_introl eq_refl)) as (o & Ho & Hk). cbn [fst] in Hk. subst k.
    rewrite idx_of_nth by (apply smem_in; exact Ho).
    destruct (String.eqb_spec out o) as [->|Hne].
    - rewrite N.eqb_refl. reflexivity.
    - destruct (N.eqb_spec (idx_of out outs) (idx_of o outs)) as [E|_].
      + exfalso. apply Hne. eapply idx_of_inj; [apply smem_in; exact Hout|exact E].
      + apply IH. intros kv Hkv. apply HG. right. exact Hkv.
  Qed.

  (* the diagram an endpoint gets alone: render1 reads neither the output name nor the filter flag *)
  Definition render_ep (m:module) (vi:vinfo) (k:bool) (fuel:nat) (c:cli) (p:proj_ep) : option (list ev) :=
    render1 m vi k (eff_exclude c) fuel (pview_of c [] (p, EmptyString, true)).
  Lemma render1_pview_of m vi k fuel c outs p out b :
    render1 m vi k (eff_exclude c) fuel (pview_of c outs (p, out, b)) = render_ep m vi k fuel c p.
  Proof. reflexivity. Qed.

  Lemma pviews_keys c l : forall v, In v (pviews_of c l) -> exists o, In o (outs_of l) /\ pv_out v = idx_of o (outs_of l).
  Proof.
    unfold pviews_of. intros v Hv. apply in_map_iff in Hv. destruct Hv as ([[p out] b] & <- & Hin).
    exists out. split; [|reflexivity]. unfold outs_of. apply in_map_iff. exists (p, out, b). split; [reflexivity|exact Hin].
  Qed.

  (* SOUNDNESS of the result map: every diagram is the diagram of an endpoint of the project whose output name is
     the key and which passes the filter *)
  Theorem cmd_views_sound m vi k fuel c eps r out x :
    cmd_views rx m vi k fuel c eps = COk r -> sassoc out r = Some x ->
    exists p, In p eps /\ named c p out /\ filter_pass rx c out = Some true /\ x = render_ep m vi k fuel c p.
  Proof.
    unfold cmd_views. destruct (name_views rx c eps) as [l|] eqn:En; [|discriminate]. intros H; injection H as <-.
    destruct (name_views_inv c eps l En) as [Hm Hall].
    set (G := generate_integrations m vi k (eff_exclude c) fuel (pviews_of c l)).
    assert (HG : forall kv, In kv G -> exists o, In o (outs_of l) /\ fst kv = idx_of o (outs_of l)).
    { apply (gen_map_keys _ (fun n => exists o, In o (outs_of l) /\ n = idx_of o (outs_of l))); [intros ? []|apply pviews_keys]. }
    destruct (in_dec string_dec out (outs_of l)) as [Hin|Hnin].
    - rewrite (sassoc_named _ G out HG Hin). intros Ha.
      destruct (generate_integrations_sound _ _ _ _ _ _ _ _ Ha) as (v & Hv & Hvm & Hvo & ->).
      unfold pviews_of in Hv. apply in_map_iff in Hv. destruct Hv as ([[p o'] b] & <- & Hpin).
      cbn [pview_of pv_match pv_out] in Hvm, Hvo. subst b.
      assert (o' = out).
      { symmetry. eapply idx_of_inj; [apply smem_in; exact Hin|symmetry; exact Hvo]. }
      subst o'. destruct (Hall _ _ _ Hpin) as [Hn Hf].
      exists p. repeat split; try assumption.
      rewrite <- Hm. apply in_map_iff. exists (p, out, true). split; [reflexivity|exact Hpin].
    - intros Ha. exfalso.
      assert (Hk : forall (G':list (N * option (list ev))), (forall kv, In kv G' -> exists o, In o (outs_of l) /\ fst kv = idx_of o (outs_of l)) ->
                   sassoc out (map (fun kv => (nth (N.to_nat (fst kv)) (outs_of l) EmptyString, snd kv)) G') = None).
      { induction G' as [|[n y] G' IH]; intros HG'; cbn [map sassoc fst snd]; [reflexivity|].
        destruct (HG' (n,y) (or_introl eq_refl)) as (o & Ho & Hn). cbn [fst] in Hn. subst n.
        rewrite idx_of_nth by (apply smem_in; exact Ho).
        destruct (String.eqb_spec out o) as [->|_]; [contradiction|]. apply IH. intros kv Hkv. apply HG'. right. exact Hkv. }
      rewrite (Hk G HG) in Ha. discriminate.
  Qed.

  (* COMPLETENESS of the result map: an endpoint that passes the filter and shares its output name with no other
     endpoint that passes has its own diagram under that name - no view is dropped because of another *)
  Theorem cmd_views_own m vi k fuel c eps l r p out :
    name_views rx c eps = COk l -> cmd_views rx m vi k fuel c eps = COk r ->
    In (p, out, true) l ->
    (forall p', In (p', out, true) l -> render_ep m vi k fuel c p' = render_ep m vi k fuel c p) ->
    sassoc out r = Some (render_ep m vi k fuel c p).
  Proof.
    intros En. unfold cmd_views. rewrite En. intros H; injection H as <-. intros Hin Huniq.
    set (G := generate_integrations m vi k (eff_exclude c) fuel (pviews_of c l)).
    assert (HG : forall kv, In kv G -> exists o, In o (outs_of l) /\ fst kv = idx_of o (outs_of l)).
    { apply (gen_map_keys _ (fun n => exists o, In o (outs_of l) /\ n = idx_of o (outs_of l))); [intros ? []|apply pviews_keys]. }
    assert (Hout : In out (outs_of l)).
    { unfold outs_of. apply in_map_iff. exists (p, out, true). split; [reflexivity|exact Hin]. }
    rewrite (sassoc_named _ G out HG Hout). unfold G, generate_integrations. rewrite gen_map_last.
    assert (Hex : exists v, In v (pviews_of c l) /\ hit (idx_of out (outs_of l)) v = true).
    { exists (pview_of c (outs_of l) (p, out, true)). split; [unfold pviews_of; apply in_map; exact Hin|].
      unfold hit. cbn [pview_of pv_match pv_out]. rewrite N.eqb_refl. reflexivity. }
    assert (Hlast : forall vs cur, (forall v, cur = Some v -> In v (pviews_of c l) /\ hit (idx_of out (outs_of l)) v = true) ->
                                   (forall v, In v vs -> In v (pviews_of c l)) ->
                                   (cur <> None \/ exists v, In v vs /\ hit (idx_of out (outs_of l)) v = true) ->
                                   exists w, last_named (idx_of out (outs_of l)) vs cur = Some w /\ In w (pviews_of c l) /\ hit (idx_of out (outs_of l)) w = true).
    { induction vs as [|v vs IH]; intros cur Hc Hvs Hor; cbn [last_named].
      - destruct cur as [w|]; [exists w; split; [reflexivity|apply Hc; reflexivity]|].
        destruct Hor as [Hn|(v & [] & _)]. contradiction Hn; reflexivity.
      - apply IH.
        + intros w. destruct (hit (idx_of out (outs_of l)) v) eqn:Eh; [intros [= <-]; split; [apply Hvs; left; reflexivity|exact Eh]|apply Hc].
        + intros w Hw. apply Hvs. right. exact Hw.
        + destruct (hit (idx_of out (outs_of l)) v) eqn:Eh; [left; discriminate|].
          destruct Hor as [Hn|(w & [<-|Hw] & Hh)]; [left; exact Hn|rewrite Hh in Eh; discriminate|right; exists w; split; assumption]. }
    destruct (Hlast (pviews_of c l) None) as (w & -> & Hw & Hh); [intros ? [=]|auto|right; exact Hex|].
    cbn [option_map]. f_equal.
    unfold pviews_of in Hw. apply in_map_iff in Hw. destruct Hw as ([[p' o'] b'] & <- & Hin').
    unfold hit in Hh. cbn [pview_of pv_match pv_out] in Hh. apply andb_prop in Hh. destruct Hh as [-> Hk].
    apply N.eqb_eq in Hk.
    assert (o' = out).
    { eapply idx_of_inj; [|exact Hk]. apply smem_in. unfold outs_of. apply in_map_iff. exists (p', o', true). split; [reflexivity|exact Hin']. }
    subst o'. rewrite render1_pview_of. apply Huniq. exact Hin'.
  Qed.
End WithRx.

(* ===================== the default template %(epname).png ===================== *)
Fixpoint no_newline (s:string) : bool :=
  match s with EmptyString => true | String c t => negb (Ascii.eqb c nl) && no_newline t end.
Lemma escape_nl_id s : no_newline s = true -> escape_nl s = s.
Proof.
  induction s as [|c t IH]; cbn [no_newline escape_nl]; [reflexivity|].
  destruct (Ascii.eqb c nl); cbn [negb andb]; [discriminate|]. intros H. rewrite IH; [reflexivity|exact H].
Qed.
Lemma no_newline_app s t : no_newline (s ++ t) = no_newline s && no_newline t.
Proof. induction s as [|c r IH]; cbn [String.append no_newline]; [reflexivity|]. rewrite IH. apply andb_assoc. Qed.
Lemma length_app s t : String.length (s ++ t) = String.length s + String.length t.
Proof. induction s as [|c r IH]; cbn [String.append String.length]; [reflexivity|]. rewrite IH. reflexivity. Qed.
Lemma app_inj_r s s' t : (s ++ t = s' ++ t)%string -> s = s'.
Proof.
  revert s'. induction s as [|c r IH]; intros [|c' r'] H; cbn [String.append] in H.
  - reflexivity.
  - exfalso. apply (f_equal String.length) in H. cbn [String.length] in H. rewrite length_app in H. lia.
  - exfalso. apply (f_equal String.length) in H. cbn [String.length] in H. rewrite length_app in H. lia.
  - injection H as -> H. f_equal. apply IH. exact H.
Qed.

Definition default_output : string := "%(epname).png".

Lemma parse_default rx A : parse rx default_output A = POk (escape_nl (aget "epname" A ++ ".png")).
Proof. vm_compute. reflexivity. Qed.

Theorem default_output_name rx proj ep long a :
  no_newline ep = true -> fmt_output rx default_output proj ep long a = POk (ep ++ ".png")%string.
Proof.
  intros Hn. unfold fmt_output. rewrite parse_default.
  rewrite aget_merge_plain by (intros r H; discriminate). cbn [aget]. cbn.
  rewrite escape_nl_id; [reflexivity|]. rewrite no_newline_app, Hn. reflexivity.
Qed.

(* with the default --output and no --filter every endpoint of the project has its own diagram under
   <endpoint name>.png: the diagram it gets alone *)
Theorem default_output_own_diagram_views rx m vi k fuel c eps :
  c_output c = default_output -> c_filter c = EmptyString ->
  NoDup (map pe_name eps) -> (forall p, In p eps -> no_newline (pe_name p) = true) ->
  exists r, cmd_views rx m vi k fuel c eps = COk r /\
            forall p, In p eps -> sassoc (pe_name p ++ ".png")%string r = Some (render_ep m vi k fuel c p).
Proof.
  intros Ho Hf Hnd Hnl.
  assert (Hl : forall eps', (forall p, In p eps' -> no_newline (pe_name p) = true) ->
                            name_views rx c eps' = COk (map (fun p => (p, (pe_name p ++ ".png")%string, true)) eps')).
  { induction eps' as [|p r IH]; intros Hn; cbn [name_views map]; [reflexivity|].
    rewrite Ho, default_output_name by (apply Hn; left; reflexivity).
    unfold filter_pass. rewrite Hf. cbn [String.eqb]. rewrite IH; [reflexivity|]. intros q Hq. apply Hn. right. exact Hq. }
  specialize (Hl eps Hnl).
  destruct (cmd_views rx m vi k fuel c eps) as [r|] eqn:Eg; [|unfold cmd_views in Eg; rewrite Hl in Eg; discriminate].
  exists r. split; [reflexivity|]. intros p Hp.
  eapply cmd_views_own; [exact Hl|exact Eg| |].
  - apply in_map_iff. exists p. split; [reflexivity|exact Hp].
  - intros p' Hp'. apply in_map_iff in Hp'. destruct Hp' as (q & Hq & Hqin). injection Hq as -> Hname.
    apply app_inj_r in Hname.
    assert (Huniq : forall l, NoDup (map pe_name l) -> In p' l -> In p l -> pe_name p' = pe_name p -> p' = p).
    { induction l as [|x l IH]; intros Hd H1 H2 He; [destruct H1|]. cbn [map] in Hd. inversion Hd as [|? ? Hx Hd']; subst.
      destruct H1 as [->|H1]; destruct H2 as [->|H2]; [reflexivity| | |apply IH; assumption].
      - exfalso. apply Hx. rewrite He. apply in_map. exact H2.
      - exfalso. apply Hx. rewrite <- He. apply in_map. exact H1. }
    rewrite (Huniq eps Hnd Hqin Hp Hname). reflexivity.
Qed.

(* ===================== panics: refuted in general ===================== *)
Definition one_ep : proj_ep :=
  {| pe_name := "V1"; pe_long := ""; pe_attrs := []; pe_listed := [0%N]; pe_ex := []; pe_pt := [];
     pe_view := VPlain; pe_di := true; pe_rb := false |}.
Definition cli0 (o f:string) : cli :=
  {| c_output := o; c_project := "Project"; c_proj_id := 9%N; c_filter := f; c_exclude := []; c_clustered := false; c_epa := false |}.
Theorem views_no_panic_refuted :
  cmd_views rx_none [] {| names := []; mixins := []; app_r := []; ep_r := []; pubsub := [] |} true 1 (cli0 "%(epname" "") [one_ep]
    = CPanicked (PFormat UnclosedExpansion) /\
  cmd_views rx_none [] {| names := []; mixins := []; app_r := []; ep_r := []; pubsub := [] |} true 1 (cli0 "%(epname).png" "(") [one_ep]
    = CPanicked PFilter.
Proof. split; vm_compute; reflexivity. Qed.

(* the hypotheses of default_output_own_diagram and of checked_options_never_panic are met by a project with two
   endpoints *)
Example default_output_nonvacuous :
  let eps := [one_ep; {| pe_name := "V2"; pe_long := "long"; pe_attrs := [("view","epa")]; pe_listed := [1%N]; pe_ex := []; pe_pt := [];
                         pe_view := VEpa; pe_di := true; pe_rb := false |}] in
  NoDup (map pe_name eps) /\ (forall p, In p eps -> no_newline (pe_name p) = true) /\
  format_ok rx_none default_output = true /\
  match cmd_views rx_none [] {| names := []; mixins := []; app_r := []; ep_r := []; pubsub := [] |} true 1 (cli0 default_output "") eps with
  | COk r => map fst r = ["V1.png"; "V2.png"]
  | _ => False
  end.
Proof.
  cbn zeta. repeat split.
  - repeat constructor; cbn; intuition discriminate.
  - intros p [<-|[<-|[]]]; reflexivity.
Qed.

(* ===================== the whole of GenerateIntegrations: the format check of 8952ebf, then the loop ============ *)
Definition wf_formats (rx:string -> option (string -> bool)) (pf:pformats) : bool := forallb (fmt_checks rx) (formats_of pf).
Lemma fmt_checks_is_check rx self : fmt_checks rx self = format_ok rx self.
Proof. reflexivity. Qed.

Lemma gen_integrations_ran rx m vi k fuel c pf eps x :
  gen_integrations rx m vi k fuel c pf eps = GRan x -> wf_formats rx pf = true /\ x = cmd_views rx m vi k fuel c eps.
Proof. unfold gen_integrations, wf_formats. destruct (forallb (fmt_checks rx) (formats_of pf)); [intros [= <-]; auto|discriminate]. Qed.

(* a malformed appfmt / epfmt / title of the project application (or -t): an error, for every command line and every
   project - never a panic, and nothing is generated *)
Theorem malformed_project_format_is_error rx m vi k fuel c pf eps :
  wf_formats rx pf = false -> gen_integrations rx m vi k fuel c pf eps = GFormatError.
Proof. unfold gen_integrations, wf_formats. intros ->. reflexivity. Qed.
(* well-formed ones change nothing *)
Theorem wellformed_project_formats rx m vi k fuel c pf eps :
  wf_formats rx pf = true -> gen_integrations rx m vi k fuel c pf eps = GRan (cmd_views rx m vi k fuel c eps).
Proof. unfold gen_integrations, wf_formats. intros ->. reflexivity. Qed.
(* what is tried is what the views use: every format the views read passes Check, hence (Seq/FmtProps) never panics *)
Theorem checked_formats_never_panic rx m vi k fuel c pf eps x f A :
  gen_integrations rx m vi k fuel c pf eps = GRan x -> In f (formats_of pf) -> exists l, parse rx f A = POk l.
Proof.
  intros H Hin. destruct (gen_integrations_ran _ _ _ _ _ _ _ _ _ H) as [Hw _]. unfold wf_formats in Hw.
  rewrite forallb_forall in Hw. apply fmt_checked_never_panics. rewrite <- fmt_checks_is_check. apply Hw. exact Hin.
Qed.

Theorem gen_integrations_sound rx m vi k fuel c pf eps r out x :
  gen_integrations rx m vi k fuel c pf eps = GRan (COk r) -> sassoc out r = Some x ->
  exists p, In p eps /\ named rx c p out /\ filter_pass rx c out = Some true /\ x = render_ep m vi k fuel c p.
Proof. intros H. destruct (gen_integrations_ran _ _ _ _ _ _ _ _ _ H) as [_ E]. apply cmd_views_sound. symmetry. exact E. Qed.
Theorem gen_integrations_own rx m vi k fuel c pf eps l r p out :
  name_views rx c eps = COk l -> gen_integrations rx m vi k fuel c pf eps = GRan (COk r) ->
  In (p, out, true) l ->
  (forall p', In (p', out, true) l -> render_ep m vi k fuel c p' = render_ep m vi k fuel c p) ->
  sassoc out r = Some (render_ep m vi k fuel c p).
Proof. intros En H. destruct (gen_integrations_ran _ _ _ _ _ _ _ _ _ H) as [_ E]. eapply cmd_views_own; [exact En|symmetry; exact E]. Qed.
Theorem default_output_own_diagram rx m vi k fuel c pf eps :
  wf_formats rx pf = true ->
  c_output c = default_output -> c_filter c = EmptyString ->
  NoDup (map pe_name eps) -> (forall p, In p eps -> no_newline (pe_name p) = true) ->
  exists r, gen_integrations rx m vi k fuel c pf eps = GRan (COk r) /\
            forall p, In p eps -> sassoc (pe_name p ++ ".png")%string r = Some (render_ep m vi k fuel c p).
Proof.
  intros Hw Ho Hf Hnd Hnl. destruct (default_output_own_diagram_views rx m vi k fuel c eps Ho Hf Hnd Hnl) as (r & Hr & Hall).
  exists r. split; [rewrite wellformed_project_formats by exact Hw; rewrite Hr; reflexivity|exact Hall].
Qed.
(* a project without endpoints (or a project name that names no application): nothing is expanded or compiled - an
   error if a format is malformed, the empty result otherwise, never a panic *)
Theorem empty_project_never_panics rx m vi k fuel c pf :
  gen_integrations rx m vi k fuel c pf [] = (if wf_formats rx pf then GRan (COk []) else GFormatError).
Proof. unfold gen_integrations, wf_formats. destruct (forallb (fmt_checks rx) (formats_of pf)); reflexivity. Qed.

Definition pf0 : pformats := {| pf_appfmt := ""; pf_epfmt := ""; pf_title_attr := ""; pf_title_cli := "" |}.
(* REFUTED in general: well-formed project formats do not save a malformed --output / --filter *)
Theorem cmd_no_panic_refuted :
  gen_integrations rx_none [] {| names := []; mixins := []; app_r := []; ep_r := []; pubsub := [] |} true 1 (cli0 "%(epname" "") pf0 [one_ep]
    = GRan (CPanicked (PFormat UnclosedExpansion)) /\
  gen_integrations rx_none [] {| names := []; mixins := []; app_r := []; ep_r := []; pubsub := [] |} true 1 (cli0 "%(epname).png" "(") pf0 [one_ep]
    = GRan (CPanicked PFilter).
Proof. split; vm_compute; reflexivity. Qed.
(* ... whereas a malformed format of the project application comes first and is an error, even with both malformed *)
Example format_error_comes_first :
  wf_formats rx_none pf0 = true /\
  gen_integrations rx_none [] {| names := []; mixins := []; app_r := []; ep_r := []; pubsub := [] |} true 1 (cli0 "%(epname" "(")
    {| pf_appfmt := "%("; pf_epfmt := ""; pf_title_attr := ""; pf_title_cli := "" |} [one_ep] = GFormatError /\
  gen_integrations rx_none [] {| names := []; mixins := []; app_r := []; ep_r := []; pubsub := [] |} true 1 (cli0 "%(epname).png" "")
    {| pf_appfmt := ""; pf_epfmt := ""; pf_title_attr := ""; pf_title_cli := "%(epname" |} [] = GFormatError.
Proof. repeat split; vm_compute; reflexivity. Qed.

(* ===================== the flags reach every view ===================== *)
Local Open Scope N_scope.

(* what MakeBuilderfromStmt gets for an endpoint: excludeStrSet.Union(excludes) *)
Definition ex_of (c:cli) (p:proj_ep) : list id := eff_exclude c ++ pe_ex p.
Definition is_epa (c:cli) (p:proj_ep) : bool := c_epa c || match pe_view p with VEpa => true | _ => false end.

(* component diagrams (plain, clustered, system) written by the command: every arrow is backed by a call and touches
   no app excluded on the command line (-e, or the project by default) or by the endpoint *)
Theorem cmd_component_arrows_sound m vi k fuel c p evs ka kb i :
  render_ep m vi k fuel c p = Some evs -> is_epa c p = false -> In (EvArrow ka kb i) evs ->
  exists s a b, build m (pe_listed p) (ex_of c p) (pe_pt p) true true fuel = Ok s /\
    a <> b /\ (exists sep e, has_call m a sep b e) /\ mem a (ex_of c p) = false /\ mem b (ex_of c p) = false.
Proof.
  unfold render_ep, render1, is_epa. cbn [pview_of pv_listed pv_ex pv_pt pv_par par_of].
  fold (ex_of c p). destruct (build m (pe_listed p) (ex_of c p) (pe_pt p) true true fuel) as [s| |] eqn:Eb; try discriminate.
  intros H; injection H as <-. unfold generate_view. cbn [par_of cli_epa attr_view cli_clustered p_di p_rb].
  intros ->. intros Hin.
  destruct (view_arrows_sound _ _ _ _ _ _ _ _ _ _ _ _ _ _ _ Eb Hin) as (a & b & _ & _ & Hne & Hc & Ha & Hb).
  exists s, a, b. repeat split; assumption.
Qed.

(* the EPA diagram written by the command *)
Theorem cmd_epa_arrows_sound m vi k fuel c p evs a ma b mb col :
  render_ep m vi k fuel c p = Some evs -> is_epa c p = true -> In (EvEArrow a ma b mb col) evs ->
  mem a (ex_of c p) = false /\ mem b (ex_of c p) = false /\ (a = b \/ exists sep e, has_call m a sep b e).
Proof.
  unfold render_ep, render1, is_epa. cbn [pview_of pv_listed pv_ex pv_pt pv_par par_of].
  fold (ex_of c p). destruct (build m (pe_listed p) (ex_of c p) (pe_pt p) true true fuel) as [s| |] eqn:Eb; try discriminate.
  intros H; injection H as <-. unfold generate_view. cbn [par_of cli_epa attr_view cli_clustered p_di p_rb].
  intros ->. intros Hin. eapply epa_view_sound; eauto.
Qed.

(* without -e the project application is excluded from every view *)
Theorem project_excluded_by_default c p :
  c_exclude c = [] -> c_project c <> EmptyString -> mem (c_proj_id c) (ex_of c p) = true.
Proof.
  intros He Hp. unfold ex_of. rewrite (default_exclude_is_project c He Hp). cbn [List.app mem existsb]. rewrite N.eqb_refl. reflexivity.
Qed.
(* and an app named with -e is excluded from every view *)
Theorem cli_exclude_reaches_every_view c p x : In x (c_exclude c) -> mem x (ex_of c p) = true.
Proof.
  intros Hin. unfold ex_of. rewrite given_exclude_is_kept by (intros E; rewrite E in Hin; destruct Hin).
  unfold mem. rewrite existsb_app. apply orb_true_iff. left. apply existsb_exists. exists x. split; [exact Hin|apply N.eqb_refl].
Qed.
