(* C14, several views of one project: pkg/integrationdiagram/integrationdiagram.go GenerateIntegrations runs the
   builder once per endpoint of the project app, in endpoint-name order.  [shared] is excludeStrSet, built once
   from the command line (--exclude, or the project itself); every view's builder gets shared U the view's own
   `exclude` attribute (StrSet.Union returns a fresh set) and the view's own `passthrough` attribute; the builder
   is a fresh IntsBuilder, so FinalApps / Deps / walking start empty for every view.
   [leak = true] is the regression this file guards against: the view's excludes are inserted INTO the shared
   set, so they are still there for the later views. *)
From Coq Require Import List NArith Bool.
Import ListNotations.
Require Import Verif.Ints.IntsModel.
Local Open Scope N_scope.

Definition view := (list id * list id * list id)%type.     (* listed, own excludes, own pass-through *)

(* the single-view result with that view's own parameters *)
Definition view_alone (m:module) (cli:list id) (v:view) (fuel:nat) : list id * outcome st :=
  match v with (l, ex, pt) => (cli ++ ex, build m l (cli ++ ex) pt true true fuel) end.

Fixpoint gen_loop (leak:bool) (m:module) (shared:list id) (vs:list (id * view)) (fuel:nat)
  : list (id * (list id * outcome st)) :=
  match vs with
  | [] => []
  | (n, (l, ex, pt)) :: r =>
      let eff := shared ++ ex in
      (n, (eff, build m l eff pt true true fuel)) :: gen_loop leak m (if leak then eff else shared) r fuel
  end.

Definition gen_views (m:module) (cli:list id) (vs:list (id * view)) (fuel:nat) := gen_loop false m cli vs fuel.

(* views are independent: each one is the single-view result with its own parameters *)
Theorem gen_views_independent m cli vs fuel :
  gen_views m cli vs fuel = map (fun nv => (fst nv, view_alone m cli (snd nv) fuel)) vs.
Proof.
  unfold gen_views. induction vs as [|[n [[l ex] pt]] r IH]; cbn [gen_loop map fst snd view_alone]; [reflexivity|].
  rewrite IH. reflexivity.
Qed.

Corollary gen_views_each m cli vs fuel n r :
  In (n, r) (gen_views m cli vs fuel) -> exists v, In (n, v) vs /\ r = view_alone m cli v fuel.
Proof.
  rewrite gen_views_independent. intros H. apply in_map_iff in H. destruct H as ([n' v] & [= <- <-] & Hin).
  exists v. split; [exact Hin|reflexivity].
Qed.

(* the regression is visible: view 2 lists A (0), which calls B (1); view 1 excludes B *)
Example leak_changes_a_view :
  let m := [(0, {| human := false; eps := [(1, {| hidden := false; coll := false; body := [Call 1 1] |})] |});
            (1, {| human := false; eps := [(1, {| hidden := false; coll := false; body := [] |})] |})] in
  let vs := [(1, ([1], [1], [])); (2, ([0], [], []))] in
  map (fun r => match snd (snd r) with Ok s => deps s | _ => [] end) (gen_loop false m [] vs 3) = [[]; [(0,1,1,1)]] /\
  map (fun r => match snd (snd r) with Ok s => deps s | _ => [] end) (gen_loop true m [] vs 3) = [[]; []].
Proof. split; vm_compute; reflexivity. Qed.
