(* C14 proofs, part 3: termination.
     - the pass-through walk as it was written (g = false) runs out of any fuel on a 2-cycle of pass-through
       apps (refutation, for every fuel);
     - the guarded walk (g = true, the current code) never runs out of fuel once fuel >= fuel_bound m;
     - wherever the unguarded walk terminates (returns a list or panics), the guarded walk returns exactly the
       same outcome: same dependency list, same FinalApps (order and multiplicity), same panic. *)
From Coq Require Import List NArith Bool Lia.
Import ListNotations.
Require Import Verif.Ints.IntsModel Verif.Ints.IntsFold.
Local Open Scope N_scope.

Definition kind {A} (o:outcome A) : nat := match o with Ok _ => 0%nat | Panic => 1%nat | OutOfFuel => 2%nat end.
Lemma kind_oof {A} (o:outcome A) : kind o = 2%nat <-> o = OutOfFuel.
Proof. destruct o; cbn; split; congruence. Qed.

(* replacing the handler by one that agrees with it wherever it does not run out of fuel *)
Lemma foldM_sim {X} (h h' : st -> X -> outcome st) l :
  (forall s y, In y l -> h s y <> OutOfFuel -> h' s y = h s y) ->
  forall s, foldM h s l <> OutOfFuel -> foldM h' s l = foldM h s l.
Proof.
  induction l as [|y r IH]; intros Hh s Hn; cbn [foldM] in *; [reflexivity|].
  assert (Hy : h s y <> OutOfFuel). { intros E. rewrite E in Hn. apply Hn. reflexivity. }
  rewrite (Hh s y (or_introl eq_refl) Hy).
  destruct (h s y) as [s1| |]; try reflexivity.
  apply IH; [intros s0 y0 Hin; apply Hh; right; exact Hin|exact Hn].
Qed.

(* whether a fold ends normally, panics or runs out of fuel does not depend on the state if no step's does *)
Lemma foldM_kind {X} (h h' : st -> X -> outcome st) l :
  (forall y, In y l -> forall s s', kind (h s y) = kind (h' s' y)) ->
  forall s s', kind (foldM h s l) = kind (foldM h' s' l).
Proof.
  induction l as [|y r IH]; intros Hh s s'; cbn [foldM]; [reflexivity|].
  pose proof (Hh y (or_introl eq_refl) s s') as E.
  destruct (h s y), (h' s' y); cbn [kind] in E; try discriminate; try reflexivity.
  apply IH. intros y0 Hy0. apply Hh. right. exact Hy0.
Qed.

Lemma In_all_targets m t a e ep t' e' :
  In (t,a) m -> In (e,ep) (eps a) -> In (t',e') (calls (body ep)) -> In (t',e') (all_targets m).
Proof.
  intros Ha He Hin. unfold all_targets. apply in_flat_map. exists (t,a). split; [exact Ha|].
  apply in_flat_map. exists (e,ep). split; [exact He|exact Hin].
Qed.

Lemma target_hidden_not_oof m t e : target_hidden m t e <> OutOfFuel.
Proof. unfold target_hidden. destruct (assoc t m); discriminate. Qed.

Lemma target_hidden_not_panic m t e : target_hidden m t e <> Panic.
Proof. unfold target_hidden. destruct (assoc t m); discriminate. Qed.

Lemma foldM_no_panic {X} (h : st -> X -> outcome st) l :
  (forall s y, In y l -> h s y <> Panic) -> forall s, foldM h s l <> Panic.
Proof.
  induction l as [|y r IH]; intros Hh s; cbn [foldM]; [discriminate|].
  pose proof (Hh s y (or_introl eq_refl)) as Hy.
  destruct (h s y) as [s1| |]; [|contradiction|discriminate].
  apply IH. intros s0 y0 Hin. apply Hh. right. exact Hin.
Qed.

Section Term.
  Variable m : module.
  Variable listed excludes passthrough : list id.

  Notation pep := (pep m excludes passthrough).

  Lemma pep_S g f stk src sep s t e : pep g (S f) stk src sep s t e =
      if mem t excludes then Ok s else
      if target_human m t then Ok s else
      match target_hidden m t e with
      | Ok h =>
          let s1 := if h then s else add_call s (src, sep, t, e) in
          let s2 := add_final s1 t in
          if mem t passthrough then
            if g && nmem (t,e) stk then Ok s2 else
            match assoc t m with
            | Some a => match assoc e (eps a) with
                        | Some ep => walk (pep g f ((t,e)::stk) t e) s2 (body ep)
                        | None => Ok s2 end
            | None => Ok s2 end
          else Ok s2
      | Panic => Panic | OutOfFuel => OutOfFuel
      end.
  Proof. reflexivity. Qed.

  (* ---------- more fuel does not change an outcome other than OutOfFuel ---------- *)
  Lemma pep_fuel_S g : forall f stk src sep s t e,
    pep g f stk src sep s t e <> OutOfFuel -> pep g (S f) stk src sep s t e = pep g f stk src sep s t e.
  Proof.
    induction f as [|f IH]; intros stk src sep s t e Hn; [exfalso; apply Hn; reflexivity|].
    rewrite (pep_S g (S f)). rewrite (pep_S g f) in Hn |- *.
    destruct (mem t excludes); [reflexivity|].
    destruct (target_human m t); [reflexivity|].
    destruct (target_hidden m t e) as [h| |]; try reflexivity.
    cbv zeta in Hn |- *.
    destruct (mem t passthrough); [|reflexivity].
    destruct (g && nmem (t, e) stk); [reflexivity|].
    destruct (assoc t m) as [a|]; [|reflexivity].
    destruct (assoc e (eps a)) as [ep|]; [|reflexivity].
    rewrite walk_fold in Hn. rewrite !walk_fold. apply foldM_sim; [|exact Hn].
    intros s0 [t0 e0] _ Hy. unfold uncur in Hy |- *. cbn [fst snd] in Hy |- *. apply IH. exact Hy.
  Qed.

  Lemma pep_fuel_le g f f' stk src sep s t e :
    (f <= f')%nat -> pep g f stk src sep s t e <> OutOfFuel -> pep g f' stk src sep s t e = pep g f stk src sep s t e.
  Proof.
    induction 1 as [|f' Hle IH]; intros Hn; [reflexivity|].
    rewrite <- (IH Hn). apply pep_fuel_S. rewrite (IH Hn). exact Hn.
  Qed.

  (* ---------- the guarded walk terminates ---------- *)
  Lemma pep_guarded_fuel : forall f stk src sep s t e,
    NoDup stk -> incl stk (all_targets m) -> In (t,e) (all_targets m) ->
    (length (all_targets m) < length stk + f)%nat ->
    pep true f stk src sep s t e <> OutOfFuel.
  Proof.
    induction f as [|f IH]; intros stk src sep s t e Hnd Hincl Hin Hlen.
    - exfalso. pose proof (NoDup_incl_length Hnd Hincl). lia.
    - rewrite pep_S.
      destruct (mem t excludes); [discriminate|].
      destruct (target_human m t); [discriminate|].
      destruct (target_hidden m t e) as [h| |] eqn:Eh; [|discriminate|exfalso; revert Eh; apply target_hidden_not_oof].
      cbv zeta.
      destruct (mem t passthrough); [|discriminate].
      destruct (nmem (t, e) stk) eqn:Hm; cbn [andb]; [discriminate|].
      destruct (assoc t m) as [a|] eqn:Ha; [|discriminate].
      destruct (assoc e (eps a)) as [ep|] eqn:Hep; [|discriminate].
      rewrite walk_fold.
      apply (foldM_prog (fun _ => True)); [|exact Logic.I].
      intros s0 [t0 e0] Hy _. split; [|intros; exact Logic.I].
      unfold uncur. cbn [fst snd]. apply IH.
      + constructor; [|exact Hnd]. intros Hc. apply nmem_In in Hc. congruence.
      + intros n [<-|Hn]; [exact Hin|apply Hincl, Hn].
      + eapply In_all_targets; [apply assoc_In, Ha|apply assoc_In, Hep|exact Hy].
      + cbn [length]. lia.
  Qed.

  Lemma my_callers_not_oof x src sep s t e : my_callers m listed excludes x src sep s t e <> OutOfFuel.
  Proof.
    unfold my_callers. destruct (mem src excludes); [discriminate|].
    destruct (negb _); [discriminate|]. destruct (target_human m t); [discriminate|].
    unfold target_hidden. destruct (assoc t m); discriminate.
  Qed.
  Lemma indirect_not_oof fs src sep s t e : indirect m fs src sep s t e <> OutOfFuel.
  Proof.
    unfold indirect. destruct (negb _); [discriminate|]. destruct (target_human m t); [discriminate|].
    unfold target_hidden. destruct (assoc t m) as [a|]; [destruct (match assoc e (eps a) with Some x0 => hidden x0 | None => false end)|]; discriminate.
  Qed.
  Lemma over_apps_not_oof h apps s :
    (forall a sep s t e, h a sep s t e <> OutOfFuel) -> over_apps m h apps s <> OutOfFuel.
  Proof.
    intros Hh. rewrite over_apps_fold. apply (foldM_prog (fun _ => True)); [|exact Logic.I].
    intros s0 [[[a sep] t] e] _ _. split; [apply Hh|intros; exact Logic.I].
  Qed.

  Theorem build_guarded_terminates x fuel :
    (fuel_bound m <= fuel)%nat -> build m listed excludes passthrough true x fuel <> OutOfFuel.
  Proof.
    intros Hf. unfold build.
    set (s0 := {| deps := []; final := seeds m listed excludes x |}).
    destruct (over_apps m (pep true fuel []) (seeds m listed excludes x) s0) as [s1| |] eqn:E1; [|discriminate|].
    - destruct (over_apps m (my_callers m listed excludes x) (map fst m) s1) as [s2| |] eqn:E2; [|discriminate|].
      + apply over_apps_not_oof. intros. apply indirect_not_oof.
      + exfalso. revert E2. apply over_apps_not_oof. intros. apply my_callers_not_oof.
    - exfalso. revert E1. rewrite over_apps_fold. apply (foldM_prog (fun _ => True)); [|exact Logic.I].
      intros s1 [[[a sep] t] e] Hin _. split; [|intros; exact Logic.I]. cbn [uncur4].
      apply in_scalls in Hin. destruct Hin as (_ & ap & ep & Ha & Hep & _ & Hc).
      apply pep_guarded_fuel.
      + constructor.
      + intros n [].
      + eapply In_all_targets; [apply assoc_In, Ha|exact Hep|exact Hc].
      + unfold fuel_bound in Hf. cbn [length]. lia.
  Qed.

  (* ---------- no panic is left in the builder (undefined call targets go through nil-safe getters) ---------- *)
  Lemma pep_no_panic g : forall f stk src sep s t e, pep g f stk src sep s t e <> Panic.
  Proof.
    induction f as [|f IH]; intros stk src sep s t e; [discriminate|].
    rewrite pep_S.
    destruct (mem t excludes); [discriminate|].
    destruct (target_human m t); [discriminate|].
    destruct (target_hidden m t e) as [h| |] eqn:Eh; [|exfalso; revert Eh; apply target_hidden_not_panic|discriminate].
    cbv zeta.
    destruct (mem t passthrough); [|discriminate].
    destruct (g && nmem (t, e) stk); [discriminate|].
    destruct (assoc t m) as [a|]; [|discriminate].
    destruct (assoc e (eps a)) as [ep|]; [|discriminate].
    rewrite walk_fold. apply foldM_no_panic. intros s0 [t0 e0] _. unfold uncur. cbn [fst snd]. apply IH.
  Qed.
  Lemma my_callers_no_panic x src sep s t e : my_callers m listed excludes x src sep s t e <> Panic.
  Proof.
    unfold my_callers. destruct (mem src excludes); [discriminate|].
    destruct (negb _); [discriminate|]. destruct (target_human m t); [discriminate|].
    unfold target_hidden. destruct (assoc t m); discriminate.
  Qed.
  Lemma indirect_no_panic fs src sep s t e : indirect m fs src sep s t e <> Panic.
  Proof.
    unfold indirect. destruct (negb _); [discriminate|]. destruct (target_human m t); [discriminate|].
    unfold target_hidden. destruct (assoc t m) as [a|]; [destruct (match assoc e (eps a) with Some x0 => hidden x0 | None => false end)|]; discriminate.
  Qed.
  Lemma over_apps_no_panic h apps s :
    (forall a sep s t e, h a sep s t e <> Panic) -> over_apps m h apps s <> Panic.
  Proof.
    intros Hh. rewrite over_apps_fold. apply foldM_no_panic. intros s0 [[[a sep] t] e] _. apply Hh.
  Qed.

  Theorem build_never_panics g x fuel : build m listed excludes passthrough g x fuel <> Panic.
  Proof.
    unfold build.
    set (s0 := {| deps := []; final := seeds m listed excludes x |}).
    destruct (over_apps m (pep g fuel []) (seeds m listed excludes x) s0) as [s1| |] eqn:E1; [| |discriminate].
    - destruct (over_apps m (my_callers m listed excludes x) (map fst m) s1) as [s2| |] eqn:E2; [| |discriminate].
      + apply over_apps_no_panic. intros. apply indirect_no_panic.
      + exfalso. revert E2. apply over_apps_no_panic. intros. apply my_callers_no_panic.
    - exfalso. revert E1. apply over_apps_no_panic. intros. apply pep_no_panic.
  Qed.

  (* ---------- where the unguarded walk terminates, the guard changes nothing ---------- *)
  (* the control flow of the unguarded walk does not look at the state *)
  Lemma pep_kind : forall f stk stk' src sep s src' sep' s' t e,
    kind (pep false f stk src sep s t e) = kind (pep false f stk' src' sep' s' t e).
  Proof.
    induction f as [|f IH]; intros stk stk' src sep s src' sep' s' t e; [reflexivity|].
    rewrite !pep_S.
    destruct (mem t excludes); [reflexivity|].
    destruct (target_human m t); [reflexivity|].
    destruct (target_hidden m t e) as [h| |]; [|reflexivity|reflexivity].
    cbv zeta. destruct (mem t passthrough); [|reflexivity].
    cbn [andb].
    destruct (assoc t m) as [a|]; [|reflexivity].
    destruct (assoc e (eps a)) as [ep|]; [|reflexivity].
    rewrite !walk_fold. apply foldM_kind. intros [t0 e0] _ s0 s0'. unfold uncur. cbn [fst snd]. apply IH.
  Qed.

  (* every endpoint on the stack needs more than f units of fuel *)
  Definition Inv (f:nat) (stk:list node) : Prop :=
    forall n, In n stk -> forall stk0 src sep s, pep false f stk0 src sep s (fst n) (snd n) = OutOfFuel.

  Lemma Inv_down f stk : Inv (S f) stk -> Inv f stk.
  Proof.
    intros H n Hn stk0 src sep s.
    destruct (pep false f stk0 src sep s (fst n) (snd n)) eqn:E; [| |reflexivity]; exfalso.
    - assert (Hne : pep false f stk0 src sep s (fst n) (snd n) <> OutOfFuel) by (rewrite E; discriminate).
      pose proof (pep_fuel_S false f _ _ _ _ _ _ Hne) as E2. rewrite (H n Hn), E in E2. discriminate.
    - assert (Hne : pep false f stk0 src sep s (fst n) (snd n) <> OutOfFuel) by (rewrite E; discriminate).
      pose proof (pep_fuel_S false f _ _ _ _ _ _ Hne) as E2. rewrite (H n Hn), E in E2. discriminate.
  Qed.

  Lemma pep_sim : forall f stk src sep s t e, Inv f stk ->
    pep false f stk src sep s t e <> OutOfFuel ->
    pep true f stk src sep s t e = pep false f stk src sep s t e.
  Proof.
    induction f as [|f IH]; intros stk src sep s t e HI Hn; [exfalso; apply Hn; reflexivity|].
    destruct (pep false f stk src sep s t e) as [sf| |] eqn:Ef.
    - (* already terminates with f: both sides are what they are with f *)
      assert (Hnf : pep false f stk src sep s t e <> OutOfFuel) by (rewrite Ef; discriminate).
      pose proof (IH stk src sep s t e (Inv_down _ _ HI) Hnf) as Eg.
      assert (Hng : pep true f stk src sep s t e <> OutOfFuel) by (rewrite Eg; exact Hnf).
      rewrite (pep_fuel_S false f _ _ _ _ _ _ Hnf), (pep_fuel_S true f _ _ _ _ _ _ Hng). exact Eg.
    - assert (Hnf : pep false f stk src sep s t e <> OutOfFuel) by (rewrite Ef; discriminate).
      pose proof (IH stk src sep s t e (Inv_down _ _ HI) Hnf) as Eg.
      assert (Hng : pep true f stk src sep s t e <> OutOfFuel) by (rewrite Eg; exact Hnf).
      rewrite (pep_fuel_S false f _ _ _ _ _ _ Hnf), (pep_fuel_S true f _ _ _ _ _ _ Hng). exact Eg.
    - (* (t,e) itself needs more than f: it may be pushed *)
      assert (HI' : Inv f ((t,e)::stk)).
      { intros n [<-|Hin] stk0 src0 sep0 s0; cbn [fst snd].
        - apply kind_oof. rewrite (pep_kind f stk0 stk src0 sep0 s0 src sep s t e), Ef. reflexivity.
        - apply (Inv_down _ _ HI n Hin). }
      assert (Hnot : nmem (t,e) stk = false).
      { destruct (nmem (t,e) stk) eqn:Hm; [|reflexivity]. exfalso. apply Hn. apply nmem_In in Hm.
        apply (HI (t,e) Hm stk src sep s). }
      rewrite (pep_S true f). rewrite (pep_S false f) in Hn |- *.
      destruct (mem t excludes); [reflexivity|].
      destruct (target_human m t); [reflexivity|].
      destruct (target_hidden m t e) as [h| |]; try reflexivity.
      cbv zeta in Hn |- *.
      destruct (mem t passthrough); [|reflexivity].
      rewrite Hnot. cbn [andb] in Hn |- *.
      destruct (assoc t m) as [a|]; [|reflexivity].
      destruct (assoc e (eps a)) as [ep|]; [|reflexivity].
      rewrite walk_fold in Hn. rewrite !walk_fold. apply foldM_sim; [|exact Hn].
      intros s0 [t0 e0] _ Hy. unfold uncur in Hy |- *. cbn [fst snd] in Hy |- *. apply IH; [exact HI'|exact Hy].
  Qed.

  Theorem build_guarded_same_fuel x fuel r :
    build m listed excludes passthrough false x fuel = r -> r <> OutOfFuel ->
    build m listed excludes passthrough true x fuel = r.
  Proof.
    intros <- Hn. unfold build in Hn |- *.
    set (s0 := {| deps := []; final := seeds m listed excludes x |}) in Hn |- *.
    assert (E : over_apps m (pep true fuel []) (seeds m listed excludes x) s0
              = over_apps m (pep false fuel []) (seeds m listed excludes x) s0).
    { rewrite !over_apps_fold. apply foldM_sim.
      - intros s [[[a sep] t] e] _ Hy. cbn [uncur4] in Hy |- *. apply pep_sim; [intros n []|exact Hy].
      - intros E0. apply Hn. rewrite over_apps_fold, E0. reflexivity. }
    rewrite E. reflexivity.
  Qed.

  Theorem build_fuel_le g x f f' r :
    (f <= f')%nat -> build m listed excludes passthrough g x f = r -> r <> OutOfFuel ->
    build m listed excludes passthrough g x f' = r.
  Proof.
    intros Hle <- Hn. unfold build in Hn |- *.
    set (s0 := {| deps := []; final := seeds m listed excludes x |}) in Hn |- *.
    assert (E : over_apps m (pep g f' []) (seeds m listed excludes x) s0
              = over_apps m (pep g f []) (seeds m listed excludes x) s0).
    { rewrite !over_apps_fold. apply foldM_sim.
      - intros s [[[a sep] t] e] _ Hy. cbn [uncur4] in Hy |- *. apply pep_fuel_le; assumption.
      - intros E0. apply Hn. rewrite over_apps_fold, E0. reflexivity. }
    rewrite E. reflexivity.
  Qed.

  Theorem build_guarded_same x fuel fuel' r :
    build m listed excludes passthrough false x fuel = r -> r <> OutOfFuel -> (fuel <= fuel')%nat ->
    build m listed excludes passthrough true x fuel' = r.
  Proof.
    intros Hb Hn Hle. eapply build_fuel_le; [exact Hle| |exact Hn]. apply build_guarded_same_fuel; assumption.
  Qed.
End Term.

(* ---------- refutation: the walk as written never terminates on a pass-through 2-cycle ---------- *)
(* A lists; B and C are pass-through and call each other: A.e1 -> B.e1 -> C.e1 -> B.e1 *)
Definition cyc_m : module :=
  [(0, {| human := false; eps := [(1, {| hidden := false; coll := false; body := [Call 1 1] |})] |});
   (1, {| human := false; eps := [(1, {| hidden := false; coll := false; body := [Block [Call 2 1]] |})] |});
   (2, {| human := false; eps := [(1, {| hidden := false; coll := false; body := [Call 1 1] |})] |})].

Lemma cyc_diverges : forall f stk src sep s,
  pep cyc_m [] [1;2] false f stk src sep s 1 1 = OutOfFuel /\
  pep cyc_m [] [1;2] false f stk src sep s 2 1 = OutOfFuel.
Proof.
  unfold cyc_m. induction f as [|f IH]; intros stk src sep s; [split; reflexivity|].
  split; rewrite pep_S; cbv -[pep].
  - rewrite (proj2 (IH _ _ _ _)). reflexivity.
  - rewrite (proj1 (IH _ _ _ _)). reflexivity.
Qed.

Theorem unguarded_diverges : forall x fuel, build cyc_m [0] [] [1;2] false x fuel = OutOfFuel.
Proof.
  intros x fuel. pose proof cyc_diverges as H. unfold cyc_m in *. unfold build.
  destruct x; cbv -[pep]; rewrite (proj1 (H _ _ _ _ _)); reflexivity.
Qed.

Example guarded_on_cycle : forall x,
  build cyc_m [0] [] [1;2] true x (fuel_bound cyc_m) =
  Ok {| deps := [(0,1,1,1); (1,1,2,1); (2,1,1,1)]; final := [0;1;2;1] |}.
Proof. intros []; vm_compute; reflexivity. Qed.
