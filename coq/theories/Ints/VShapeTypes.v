(* C14: vocabulary of the table Gen/IntsViewShape.v that the translator (translate/intsviewshape.go) regenerates
   from pkg/integrationdiagram/ints_view.go on every run.  Definitions only. *)
From Coq Require Import List String.
Import ListNotations.
Require Export Verif.Ints.ShapeTypes.

(* VarManagerForComponent: which spelling of the app name a statement uses *)
Inductive symkey := KOwn          (* the app's own name, as passed in *)
                  | KRenamed      (* the name after `if key, ok := nameMap[appName]; ok { appName = key }` *)
                  | KUnknown.
Inductive symstep :=
| SKeepOwnName             (* symKey := appName, before the renaming *)
| SRename                  (* if key, ok := nameMap[appName]; ok { appName = key } *)
| SLookup (k:symkey)       (* if s, ok := v.Symbols[k]; ok { return s.Alias } *)
| SStore (k:symkey)        (* v.Symbols[k] = s *)
| SHighlightBy (k:symkey)  (* if _, ok := v.DrawableApps[k]; ok { ... <<highlight>> } *)
| SUnknown.

(* one disjunct of the condition that selects a kind of diagram *)
Inductive dcond := DCli (flag:string)        (* args.<flag> *)
                 | DAttr (value:string)      (* endpoint attribute view == value *)
                 | DUnknown.

(* one statement of the loop over params.Integrations in DrawIntsView / DrawSystemView *)
Inductive lstep :=
| LSrc | LTgt              (* appA := dep.Self.Name ; appB := dep.Target.Name *)
| LSkipSelf                (* if appA == appB { continue } *)
| LPair                    (* appPair := AppPair{Self: appA, Target: appB} *)
| LDirectDecl              (* var direct []string *)
| LDirect (w:who)          (* if _, ok := params.DrawableApps[w]; ok { direct = append(direct, w) } *)
| LFirstPart (w:who)       (* w = syslutil.SplitAppNameParts(w)[0] *)
| LOncePerPair             (* if _, ok := callsDrawn[appPair]; !ok { ... callsDrawn[appPair] = struct{}{} } *)
| LUnknown.

(* GenerateEPAView: if viewParams.RestrictBy != "" && !(x || y) { continue } *)
Inductive rop := RApp (w:who)     (* _, x := v.Mod.Apps[w].GetAttrs()[viewParams.RestrictBy] *)
               | REp (w:who)      (* _, x := v.Mod.Apps[w].GetEndpoints()[ep of w].GetAttrs()[viewParams.RestrictBy] *)
               | ROpUnknown.
Inductive rstep := RSkipUnlessAny (ops:list rop) | RUnknown.
