(* Correspondence glue for the command stream (C14X): one case = module, the side table of the views, the flags as
   strings, the endpoints of the project as strings + views, what Go's regexp answered about the patterns in play,
   the environment (PlantUML server reachable, names whose directory does not exist) and what one run of the real
   `sysl ints` binary did: a Go panic (which), or exit status + every file it wrote (name, diagram read line by line
   from whatever form the extension asked for), in name order.

   The order in which GenerateFromMap visits the result is not observable.  [x_consistent] accepts exactly what SOME
   order can produce: status 0 iff every name of the result can be written, then every entry is a file; otherwise
   the files are entries that can be written.  [execute_consistent] proves that every order of CmdModel.execute passes. *)
From Coq Require Import String List NArith Bool Permutation.
Import ListNotations.
Require Import Verif.Seq.Fmt Verif.Seq.RunFmt Verif.Ints.IntsModel Verif.Ints.VModel Verif.Ints.VRun Verif.Ints.CmdModel Verif.Ints.CmdProps Verif.Base.Harness.
Local Open Scope string_scope.
Local Open Scope list_scope.

Inductive xobs :=
| XP (kind:N)                                             (* 0-3 = the four panics of FormatParser, 4 = regexp.MustCompile(--filter) *)
| XR (status0:bool) (files:list (string * option (list oev))).

Definition cpanic_code (k:cpanic) : N :=
  match k with
  | PFormat MissingVariable => 0 | PFormat MissingCondValue => 1 | PFormat UnclosedExpansion => 2 | PFormat BadRegexp => 3
  | PFilter => 4 | PNever => 99
  end%N.

(* a diagram of the model against a diagram as read; None on the right = a file the harness could not read
   (reported by the Go oracle) *)
Definition content_eqb (x:option (list ev)) (y:option (list oev)) : bool :=
  match x, y with
  | Some evs, Some l => list_eqb oev_eqb (to_obs [] [] evs) l
  | Some _, None => true
  | None, _ => false
  end.

Definition x_consistent {V W:Type} (eqb:V -> W -> bool) (ok:string -> bool) (r:list (string * V)) (status0:bool) (files:list (string * W)) : bool :=
  let allgood := forallb (fun kv => ok (fst kv)) r in
  Bool.eqb status0 allgood &&
  forallb (fun f => match sassoc (fst f) r with Some x => ok (fst f) && eqb x (snd f) | None => false end) files &&
  (negb allgood || forallb (fun kv => smem (fst kv) (map fst files)) r).

Definition c14x_case := (module * vinfo * cli * pformats * list proj_ep * rxtab * env * xobs)%type.

Definition c14x_ok_k (k:bool) (c:c14x_case) : bool :=
  match c with (m, vi, cl, pf, eps, t, e, obs) =>
    match gen_integrations (rx_of t) m vi k (fuel_bound m) cl pf eps, obs with
    | GFormatError, XR st files => negb st && match files with [] => true | _ => false end   (* an error, nothing written *)
    | GRan (CPanicked p), XP n => N.eqb (cpanic_code p) n
    | GRan (COk r), XR st files => x_consistent content_eqb (out_ok e) r st files
    | _, _ => false
    end
  end.
Definition c14x_ok := c14x_ok_k true.

(* every order of the model's Execute is accepted by the comparison (files compared with themselves) *)
Lemma sassoc_in {V:Type} k (r:list (string * V)) : In k (map fst r) -> exists x, sassoc k r = Some x.
Proof.
  induction r as [|[j y] r IH]; cbn [map fst In sassoc]; [intros []|].
  destruct (String.eqb_spec k j) as [->|Hne]; [eexists; reflexivity|]. intros [H|H]; [congruence|apply IH; exact H].
Qed.

Theorem execute_consistent {V:Type} (eqb:V -> V -> bool) (ok:string -> bool) (r:list (string * V)) (d:V) (order:list string) :
  (forall x, eqb x x = true) -> Permutation order (map fst r) ->
  let (w, err) := write_all ok order in
  x_consistent eqb ok r (negb err) (map (fun o => (o, match sassoc o r with Some x => x | None => d end)) w) = true.
Proof.
  intros Hrefl Hp.
  destruct (write_all_prefix ok order) as (rest & Ho & Hf & H0 & H1).
  destruct (write_all ok order) as [w err] eqn:Ew. cbn [fst snd] in *.
  unfold x_consistent.
  assert (Hall : forallb (fun kv => ok (fst kv)) r = negb err).
  { destruct err; cbn [negb].
    - destruct (H1 eq_refl) as (k & r' & -> & Hbad).
      destruct (forallb (fun kv => ok (fst kv)) r) eqn:E; [|reflexivity]. exfalso.
      rewrite forallb_forall in E.
      assert (Hin : In k (map fst r)). { eapply Permutation_in; [exact Hp|]. rewrite Ho. apply in_or_app. right. left. reflexivity. }
      apply in_map_iff in Hin. destruct Hin as (kv & <- & Hkv). rewrite (E kv Hkv) in Hbad. discriminate.
    - rewrite (H0 eq_refl), app_nil_r in Ho. subst w. apply forallb_forall. intros kv Hkv.
      rewrite forallb_forall in Hf. apply Hf. eapply Permutation_in; [apply Permutation_sym; exact Hp|]. apply in_map. exact Hkv. }
  rewrite Hall, eqb_reflx. cbn [andb].
  apply andb_true_iff. split.
  - apply forallb_forall. intros f Hfin. apply in_map_iff in Hfin. destruct Hfin as (o & <- & Hoin). cbn [fst snd].
    assert (Hin : In o (map fst r)). { eapply Permutation_in; [exact Hp|]. rewrite Ho. apply in_or_app. left. exact Hoin. }
    destruct (sassoc_in o r Hin) as [x ->]. rewrite forallb_forall in Hf. rewrite (Hf o Hoin), Hrefl. reflexivity.
  - destruct err; cbn [negb orb]; [reflexivity|].
    rewrite (H0 eq_refl), app_nil_r in Ho. subst w.
    apply forallb_forall. intros kv Hkv. rewrite map_map. cbn [fst]. rewrite map_id.
    apply smem_in. eapply Permutation_in; [apply Permutation_sym; exact Hp|]. apply in_map. exact Hkv.
Qed.
