(* Correspondence glue for C14: one case = module, (listed, excludes, passthrough), what the real
   MakeBuilderfromStmt returned (None = it panicked), and for each plain / clustered diagram the arrows parsed
   from the PlantUML, with the flag "indirect arrows are drawn" of that run. *)
From Coq Require Import List NArith Bool.
Import ListNotations.
Require Import Verif.Ints.IntsModel Verif.Ints.Views Verif.Base.Harness.
Local Open Scope N_scope.

Definition arrow_eqb (a b:arrow) : bool :=
  match a, b with (a1,a2,a3), (b1,b2,b3) => N.eqb a1 b1 && N.eqb a2 b2 && Bool.eqb a3 b3 end.

Definition c14_case :=
  (module * (list id * list id * list id) * option (list dep * list id) * list (bool * list arrow))%type.

Definition c14_ok (c:c14_case) : bool :=
  match c with (m, (listed, ex, pt), obs, views) =>
    let r := build m listed ex pt true true (fuel_bound m) in
    (* 1. the builder: DepsOut and FinalApps as lists (order and multiplicity) *)
    match r, obs with
    | Ok s, Some (d, f) => list_eqb dep_eqb (deps s) d && list_eqb N.eqb (final s) f
    | Panic, None => true
    | _, _ => false
    end
    (* 2. the arrows of the plain and clustered diagrams, in order *)
    && forallb (fun v => match r with
                         | Ok s => list_eqb arrow_eqb (plain_arrows (seeds m listed ex true) (fst v) (deps s)) (snd v)
                         | _ => false end) views
  end.

(* Several views of one project through the real GenerateIntegrations: module, command-level excludes, and per
   view (in endpoint-name order) its own (listed, excludes, pass-through) with the arrows parsed from ITS diagram
   (None = an EPA view or a view the harness could not use: judged by the Go oracle only). *)
Definition c14m_case := (module * list id * list (view * option (bool * list arrow)))%type.

Fixpoint number {A} (k:N) (l:list A) : list (N * A) :=
  match l with [] => [] | a :: r => (k, a) :: number (k+1) r end.

Definition c14m_ok (c:c14m_case) : bool :=
  match c with (m, cli, vs) =>
    let rs := gen_views m cli (number 0 (map fst vs)) (fuel_bound m) in
    Nat.eqb (List.length rs) (List.length vs) &&
    forallb (fun p =>
      match p with
      | ((_, (eff, r)), ((listed, _, _), Some (di, ar))) =>
          match r with
          | Ok s => list_eqb arrow_eqb (plain_arrows (seeds m listed eff true) di (deps s)) ar
          | _ => false end
      | (_, (_, None)) => true
      end) (combine rs vs)
  end.
