(* C14: obligations of the command model (Ints/CmdModel.v) against the source, through the table Gen/IntsCmdShape.v
   that translate/intscmdshape.go regenerates on every run.  Statement texts are compared as texts: any edit of
   these few functions breaks the lemma and has to be re-read against the model. *)
From Coq Require Import List String Bool.
Import ListNotations.
Require Import Verif.Ints.CmdModel Verif.Ints.CmdProps Verif.Gen.IntsCmdShape.
Local Open Scope string_scope.

(* the switch of OutputPlantuml as the model's table: the default clause must be the error *)
Definition class_mode (c:string) : option omode :=
  if String.eqb c "server" then Some MServer else if String.eqb c "html" then Some MHtml
  else if String.eqb c "link" then Some MLink else if String.eqb c "text" then Some MText else None.
Fixpoint modes_of_src (l:list (string * string)) : option (list (string * omode)) :=
  match l with
  | [] => None                                            (* no default clause *)
  | [(lbl, c)] => if String.eqb lbl "default" && String.eqb c "error" then Some [] else None
  | (lbl, c) :: r =>
      match class_mode c, modes_of_src r with
      | Some m, Some t => if String.eqb lbl "default" then None else Some ((lbl, m) :: t)
      | _, _ => None
      end
  end.

Lemma shape_output_modes : modes_of_src output_modes = Some mode_table.
Proof. reflexivity. Qed.
Lemma shape_output_mode_src :
  output_mode_src = ["mode := path.Ext(output)"; "mode = strings.Replace(mode, ""."", """", 1)"] /\
  output_write = "return errors.Wrapf(afero.WriteFile(fs, output, append(out, byte('\n')), os.ModePerm), ""writing %q"", output)".
Proof. split; reflexivity. Qed.

(* GenerateFromMap: ranges over the map, returns at the first error *)
Lemma shape_from_map :
  from_map = ["for k, v := range m { if err := OutputPlantuml(k, p.Value(), v, fs); err != nil { return err } }"; "return nil"].
Proof. reflexivity. Qed.

(* Execute: the result of GenerateIntegrations goes to GenerateFromMap unless there is an error *)
Lemma shape_execute :
  cmd_execute = ["result, err := integrationdiagram.GenerateIntegrations(&p.CmdContextParamIntgen, args.Modules[0], args.Logger)";
                 "if err != nil { return err }";
                 "return p.GenerateFromMap(result, args.Filesystem)"].
Proof. reflexivity. Qed.

(* the flags and the fields they set; the default of --output is the template of default_output_own_diagram *)
Lemma shape_flags :
  cmd_flags = [("title", "t", "", "StringVar &p.Title");
               ("output", "o", default_output, "StringVar &p.Output");
               ("project", "j", "", "StringVar &p.Project");
               ("filter", "", "", "StringVar &p.Filter");
               ("exclude", "e", "", "StringsVar &p.Exclude");
               ("clustered", "c", "false", "BoolVar &p.Clustered");
               ("epa", "", "false", "BoolVar &p.EPA")] /\
  cmd_adds_plantuml_flag = true.
Proof. split; reflexivity. Qed.

(* GenerateIntegrations: default exclude list; ONE format parser; endpoints in name order; output name, then the
   filter compiled inside the loop and matched against the output name; the union of command-level and own
   excludes, the own pass-through list, the two flags in Args; the result keyed by the output name *)
Lemma shape_gen_steps :
  gen_steps = ["r := make(map[string]string)";
    "if len(intgenParams.Exclude) == 0 && intgenParams.Project != """" { intgenParams.Exclude = []string{intgenParams.Project} }";
    "excludeStrSet := syslutil.MakeStrSet(intgenParams.Exclude...)";
    "app := model.GetApps()[intgenParams.Project]";
    "of := cmdutils.MakeFormatParser(intgenParams.Output)";
    "for _, format := range []string{ getAppfmtAttrOrDefault(app), getEpfmtAttr(app), getTitleFormat(app, intgenParams.Title), }";
    "loop: if err := cmdutils.MakeFormatParser(format).Check(); err != nil { return nil, err }";
    "for _, epname := range sortedSlice(app.GetEndpoints())";
    "loop: endpt := app.GetEndpoints()[epname]";
    "loop: outputDir := of.FmtOutput(intgenParams.Project, epname, endpt.GetLongName(), endpt.GetAttrs())";
    "loop: if intgenParams.Filter != """" { re := regexp.MustCompile(intgenParams.Filter) if !re.MatchString(outputDir) { continue } }";
    "loop: excludes := syslutil.MakeStrSetFromAttr(""exclude"", endpt.GetAttrs())";
    "loop: passthroughs := syslutil.MakeStrSetFromAttr(""passthrough"", endpt.GetAttrs())";
    "loop: b := MakeBuilderfromStmt(model, endpt.GetStmt(), excludeStrSet.Union(excludes), passthroughs)";
    "loop: intsParam := &IntsParam{b.FinalApps, b.SeedAppsMap, b.DepsOut, app, endpt}";
    "loop: args := &Args{intgenParams.Title, intgenParams.Project, intgenParams.Clustered, intgenParams.EPA}";
    "loop: r[outputDir] = GenerateView(args, intsParam, model)";
    "return r, nil"].
Proof. reflexivity. Qed.

(* FmtOutput: the three variables, then the attributes under "@"+key, then Parse *)
Lemma shape_fmt_output :
  fmt_output_src = ["valMap := map[string]string{ ""appname"": appname, ""epname"": epname, ""eplongname"": eplongname, }";
                    "MergeAttributesMap(valMap, attrs)";
                    "return fp.Parse(valMap)"].
Proof. reflexivity. Qed.

(* since 8952ebf: the three format strings of the project application are tried before the endpoint loop, an error
   return for the first that FormatParser.Check refuses; the getters are the ones the views use; Check is a Parse
   without values under recover *)
Lemma shape_format_check :
  nth 5 gen_steps "" = "for _, format := range []string{ getAppfmtAttrOrDefault(app), getEpfmtAttr(app), getTitleFormat(app, intgenParams.Title), }" /\
  nth 6 gen_steps "" = "loop: if err := cmdutils.MakeFormatParser(format).Check(); err != nil { return nil, err }" /\
  format_getters = [("getAppfmtAttrOrDefault", ["a := project.GetAttrs()[""appfmt""].GetS()"; "if a != """" { return a }"; "return AppfmtDefault"]);
                    ("getEpfmtAttr", ["return project.GetAttrs()[""epfmt""].GetS()"]);
                    ("getTitleFormat", ["if t := project.GetAttrs()[""title""].GetS(); t != """" { return t }"; "return title"])] /\
  fmt_check_src = ["defer func() { if r := recover(); r != nil { fp.Clear() err = fmt.Errorf(""invalid format string %q: %v"", fp.Self, r) } }()";
                   "fp.Parse(map[string]string{})"; "return nil"].
Proof. repeat split; reflexivity. Qed.

Theorem cmd_source_shape :
  modes_of_src output_modes = Some mode_table /\
  output_mode_src = ["mode := path.Ext(output)"; "mode = strings.Replace(mode, ""."", """", 1)"] /\
  from_map = ["for k, v := range m { if err := OutputPlantuml(k, p.Value(), v, fs); err != nil { return err } }"; "return nil"] /\
  nth 2 cmd_execute "" = "return p.GenerateFromMap(result, args.Filesystem)" /\
  nth 1 gen_steps "" = "if len(intgenParams.Exclude) == 0 && intgenParams.Project != """" { intgenParams.Exclude = []string{intgenParams.Project} }" /\
  nth 7 gen_steps "" = "for _, epname := range sortedSlice(app.GetEndpoints())" /\
  nth 9 gen_steps "" = "loop: outputDir := of.FmtOutput(intgenParams.Project, epname, endpt.GetLongName(), endpt.GetAttrs())" /\
  nth 10 gen_steps "" = "loop: if intgenParams.Filter != """" { re := regexp.MustCompile(intgenParams.Filter) if !re.MatchString(outputDir) { continue } }" /\
  nth 13 gen_steps "" = "loop: b := MakeBuilderfromStmt(model, endpt.GetStmt(), excludeStrSet.Union(excludes), passthroughs)" /\
  nth 15 gen_steps "" = "loop: args := &Args{intgenParams.Title, intgenParams.Project, intgenParams.Clustered, intgenParams.EPA}" /\
  nth 16 gen_steps "" = "loop: r[outputDir] = GenerateView(args, intsParam, model)" /\
  List.length gen_steps = 18%nat /\ List.length cmd_execute = 3%nat /\ List.length fmt_output_src = 3%nat /\
  map (fun f => (fst (fst (fst f)), snd f)) cmd_flags =
    [("title", "StringVar &p.Title"); ("output", "StringVar &p.Output"); ("project", "StringVar &p.Project"); ("filter", "StringVar &p.Filter");
     ("exclude", "StringsVar &p.Exclude"); ("clustered", "BoolVar &p.Clustered"); ("epa", "BoolVar &p.EPA")] /\
  In ("output", "o", default_output, "StringVar &p.Output") cmd_flags.
Proof.
  pose proof shape_gen_steps as Hg. pose proof shape_execute as He. pose proof shape_fmt_output as Hf. pose proof shape_flags as [Hfl _].
  rewrite Hg, He, Hf, Hfl. repeat split; try reflexivity. right. left. reflexivity.
Qed.
