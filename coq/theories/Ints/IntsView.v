(* C14 proofs, part 4: the arrow loop of DrawIntsView (plain and clustered component diagrams) draws an arrow
   only for a dependency between two different apps, draws every such dependency that has a seed at one end
   (or any, unless indirect arrows are switched off) and draws no ordered pair twice; composed with the
   builder theorems this gives soundness and completeness of the drawn arrows. *)
From Coq Require Import List NArith Bool Lia.
Import ListNotations.
Require Import Verif.Ints.IntsModel Verif.Ints.IntsFold Verif.Ints.IntsProps.
Local Open Scope N_scope.

Lemma pair_eqb_eq a b : pair_eqb a b = true <-> a = b.
Proof.
  destruct a as [a1 a2], b as [b1 b2]. unfold pair_eqb. cbn [fst snd]. rewrite andb_true_iff, !N.eqb_eq.
  split; [intros [-> ->]; reflexivity|intros [= -> ->]; split; reflexivity].
Qed.
Lemma pair_mem_In p l : existsb (pair_eqb p) l = true <-> In p l.
Proof.
  rewrite existsb_exists. split.
  - intros (y & Hy & E). apply pair_eqb_eq in E. subst. exact Hy.
  - intros H. exists p. split; [exact H|apply pair_eqb_eq; reflexivity].
Qed.

Section Arrows.
  Variable seedset : list id.
  Variable di : bool.
  Notation AF := (arrows_from seedset di).
  Definition drawable (a b:id) : bool := mem a seedset || mem b seedset || di.

  Lemma arrows_from_sound : forall ds drawn a b i, In (a,b,i) (AF drawn ds) ->
    a <> b /\ ~ In (a,b) drawn /\ (exists sep e, In (a,sep,b,e) ds) /\
    i = negb (mem a seedset || mem b seedset) /\ drawable a b = true.
  Proof.
    induction ds as [|[[[a0 sep0] b0] e0] r IH]; intros drawn a b i Hin; cbn [arrows_from] in Hin; [destruct Hin|].
    cbv zeta in Hin.
    assert (Hskip : In (a,b,i) (AF drawn r) ->
      a <> b /\ ~ In (a,b) drawn /\ (exists sep e, In (a,sep,b,e) ((a0,sep0,b0,e0)::r)) /\
      i = negb (mem a seedset || mem b seedset) /\ drawable a b = true).
    { intros H. destruct (IH _ _ _ _ H) as (H1 & H2 & (sep & e & H3) & H4).
      split; [exact H1|]. split; [exact H2|]. split; [exists sep, e; right; exact H3|exact H4]. }
    destruct (N.eqb_spec a0 b0) as [_|Hne]; [apply Hskip, Hin|].
    destruct (existsb (pair_eqb (a0,b0)) drawn) eqn:Hd; [apply Hskip, Hin|].
    destruct (mem a0 seedset || mem b0 seedset || di) eqn:Hc; [|apply Hskip, Hin].
    destruct Hin as [[= <- <- <-]|Hin].
    - split; [exact Hne|]. split; [intros Hx; apply pair_mem_In in Hx; congruence|].
      split; [exists sep0, e0; left; reflexivity|]. split; [reflexivity|exact Hc].
    - destruct (IH _ _ _ _ Hin) as (H1 & H2 & (sep & e & H3) & H4).
      split; [exact H1|]. split; [intros Hx; apply H2; right; exact Hx|].
      split; [exists sep, e; right; exact H3|exact H4].
  Qed.

  Lemma arrows_from_complete : forall ds drawn a sep b e, In (a,sep,b,e) ds -> a <> b -> drawable a b = true ->
    In (a,b) drawn \/ exists i, In (a,b,i) (AF drawn ds).
  Proof.
    induction ds as [|[[[a0 sep0] b0] e0] r IH]; intros drawn a sep b e Hin Hab Hdr; [destruct Hin|].
    cbn [arrows_from]. cbv zeta.
    destruct (N.eqb_spec a0 b0) as [E0|Hne].
    { destruct Hin as [[= -> _ -> _]|Hin]; [congruence|]. eapply IH; eassumption. }
    destruct (existsb (pair_eqb (a0,b0)) drawn) eqn:Hd.
    { destruct Hin as [[= -> _ -> _]|Hin]; [left; apply pair_mem_In, Hd|]. eapply IH; eassumption. }
    destruct (mem a0 seedset || mem b0 seedset || di) eqn:Hc.
    - destruct Hin as [[= -> _ -> _]|Hin]; [right; eexists; left; reflexivity|].
      destruct (IH ((a0,b0)::drawn) a sep b e Hin Hab Hdr) as [[[= -> ->]|Hx]|[i Hi]].
      + right. eexists. left. reflexivity.
      + left. exact Hx.
      + right. exists i. right. exact Hi.
    - destruct Hin as [[= -> _ -> _]|Hin]; [unfold drawable in Hdr; congruence|]. eapply IH; eassumption.
  Qed.

  Lemma arrows_from_nodup : forall ds drawn,
    NoDup (map (fun ar : arrow => (fst (fst ar), snd (fst ar))) (AF drawn ds)).
  Proof.
    induction ds as [|[[[a0 sep0] b0] e0] r IH]; intros drawn; cbn [arrows_from map]; [constructor|].
    cbv zeta.
    destruct (N.eqb a0 b0); [apply IH|].
    destruct (existsb (pair_eqb (a0,b0)) drawn); [apply IH|].
    destruct (mem a0 seedset || mem b0 seedset || di); [|apply IH].
    cbn [map fst snd]. constructor; [|apply IH].
    intros Hx. apply in_map_iff in Hx. destruct Hx as ([[a b] i] & [= -> ->] & Hin).
    apply arrows_from_sound in Hin. destruct Hin as (_ & Hn & _). apply Hn. left. reflexivity.
  Qed.
End Arrows.

(* ---------- builder + renderer, the current code (g arbitrary, x = true) ---------- *)
Theorem arrows_sound m listed excludes passthrough g fuel s di a b i :
  build m listed excludes passthrough g true fuel = Ok s ->
  In (a,b,i) (plain_arrows (seeds m listed excludes true) di (deps s)) ->
  a <> b /\ (exists sep e, has_call m a sep b e) /\ mem a excludes = false /\ mem b excludes = false.
Proof.
  intros Hb Hin. apply arrows_from_sound in Hin. destruct Hin as (Hab & _ & (sep & e & Hd) & _).
  destruct (build_sound _ _ _ _ _ _ _ Hb _ _ _ _ Hd) as (Hc & Ha & Hbx).
  split; [exact Hab|]. split; [exists sep, e; exact Hc|]. split; assumption.
Qed.

Theorem arrows_complete m listed excludes passthrough g fuel s di S ap sep ep t e :
  build m listed excludes passthrough g true fuel = Ok s ->
  In S listed -> assoc S m = Some ap -> human ap = false -> mem S excludes = false ->
  In (sep, ep) (eps ap) -> coll ep = false -> In (t,e) (calls (body ep)) -> t <> S ->
  mem t excludes = false -> target_human m t = false -> target_hidden m t e = Ok false ->
  In (S,t,false) (plain_arrows (seeds m listed excludes true) di (deps s)).
Proof.
  intros Hb HS Hap Hhu Hex Hep Hcoll Hin Hne Htex Hth Hthi.
  pose proof (build_complete _ _ _ _ _ _ _ _ _ _ _ _ _ Hb HS Hap Hhu Hex Hep Hcoll Hin Htex Hth Hthi) as Hd.
  assert (Hseed : mem S (seeds m listed excludes true) = true).
  { apply mem_In, seeds_spec. split; [exact HS|]. unfold seed_ok. rewrite Hap, Hhu, Hex. reflexivity. }
  assert (Hdr : drawable (seeds m listed excludes true) di S t = true) by (unfold drawable; rewrite Hseed; reflexivity).
  destruct (arrows_from_complete _ di _ [] _ _ _ _ Hd (not_eq_sym Hne) Hdr) as [[]|[i Hi]].
  pose proof (arrows_from_sound _ _ _ _ _ _ _ Hi) as (_ & _ & _ & Ei & _).
  rewrite Hseed in Ei. cbn [orb negb] in Ei. subst i. exact Hi.
Qed.

Theorem arrows_nodup seedset di ds :
  NoDup (map (fun ar : arrow => (fst (fst ar), snd (fst ar))) (plain_arrows seedset di ds)).
Proof. apply arrows_from_nodup. Qed.

(* every cross-app dependency is drawn, unless it is indirect and indirect arrows are switched off *)
Theorem arrows_from_deps seedset di ds :
  (forall a b i, In (a,b,i) (plain_arrows seedset di ds) -> a <> b /\ exists sep e, In (a,sep,b,e) ds) /\
  (forall a sep b e, In (a,sep,b,e) ds -> a <> b -> drawable seedset di a b = true ->
     exists i, In (a,b,i) (plain_arrows seedset di ds)).
Proof.
  split.
  - intros a b i Hin. apply arrows_from_sound in Hin. destruct Hin as (H1 & _ & H3 & _). split; assumption.
  - intros a sep b e Hin Hab Hdr. destruct (arrows_from_complete _ _ _ [] _ _ _ _ Hin Hab Hdr) as [[]|H]. exact H.
Qed.

(* non-vacuity of arrows_complete's hypotheses: a listed app calling a pass-through app from inside an alternative *)
Example arrows_complete_nonvacuous :
  let m := [(0, {| human := false; eps := [(1, {| hidden := false; coll := false; body := [Block [Alt [[Other]; [Call 1 1]]]] |})] |});
            (1, {| human := false; eps := [(1, {| hidden := false; coll := false; body := [Call 0 1] |})] |})] in
  exists s, build m [0] [] [1] true true (fuel_bound m) = Ok s /\
    plain_arrows (seeds m [0] [] true) true (deps s) = [(0,1,false); (1,0,false)].
Proof. eexists. split; vm_compute; reflexivity. Qed.
