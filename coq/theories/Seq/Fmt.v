(* C13 - model of the label pipeline of the sequence-diagram generator, over strings (= byte sequences):
     pkg/cmdutils/fmtparser.go   FormatParser: Eat (the eleven ItemRe* regular expressions as hand-written scanners),
                                 Pop, Expansions, Parse, Clear, RemovePercentSymbol, LabelEndpoint, LabelApp, FmtSeq,
                                 FmtOutput, MergeAttributesMap
     pkg/cmdutils/utils.go       MergeAttributes, GetSortedISOCtrlStr, NormalizeEndpointName
     pkg/sequencediagram         ConstructFormatParser, EscapeWordBoundary
   The parser is a state machine over (rest of Self after CurPos, Stk, Result, Oper); every panic of the Go code is an
   explicit outcome. The one thing that is not transliterated is the regular expression a format string may contain
   (`%(var~/re/...)`): compiling and matching it is the parameter `rx` (pattern -> compile error | matcher); by its
   type, whether a pattern compiles cannot depend on the value it is matched with - exactly regexp.MustCompile /
   MatchString. Bytes, not runes: every character the scanners look for is ASCII, and a multi-byte rune never contains
   an ASCII byte, so the byte-wise scan consumes what the rune-wise one does (for valid UTF-8).
   Definitions only; proofs are in FmtProps.v. *)
From Coq Require Import String Ascii List NArith Bool Arith.
Import ListNotations.
Local Open Scope string_scope.
Local Open Scope char_scope.

Definition attrs := list (string * string).

(* Go map read: a missing key reads as "" *)
Fixpoint aget (k:string) (m:attrs) : string :=
  match m with [] => EmptyString | (j,v) :: t => if String.eqb k j then v else aget k t end.
Fixpoint ahas (k:string) (m:attrs) : bool :=
  match m with [] => false | (j,_) :: t => String.eqb k j || ahas k t end.
(* Go map write *)
Fixpoint aset (k v:string) (m:attrs) : attrs :=
  match m with [] => [(k,v)] | (j,x) :: t => if String.eqb k j then (k,v) :: t else (j,x) :: aset k v t end.

(* ---- characters ---- *)
Definition nl : ascii := "010".
Definition c_pct : ascii := "%".
Definition c_lpar : ascii := "(".
Definition c_rpar : ascii := ")".
Definition c_bar : ascii := "|".
Definition c_x01 : ascii := "001".
Definition c_bs : ascii := "008".          (* what "\b" is inside a Go / JSON string literal *)
Definition is_word (c:ascii) : bool :=
  let n := N_of_ascii c in
  ((48 <=? n) && (n <=? 57) || (65 <=? n) && (n <=? 90) || (97 <=? n) && (n <=? 122) || (n =? 95))%N.
Definition is_space_re (c:ascii) : bool :=          (* \s of RE2: [\t\n\f\r ] *)
  let n := N_of_ascii c in ((n =? 9) || (n =? 10) || (n =? 12) || (n =? 13) || (n =? 32))%N.

Fixpoint drop (n:nat) (s:string) : string :=
  match n, s with O, _ => s | S k, String _ r => drop k r | S _, EmptyString => EmptyString end.
Fixpoint str_prefix (p s:string) : option string :=      (* s = p ++ r  ->  Some r *)
  match p, s with
  | EmptyString, _ => Some s
  | String a p', String b s' => if Ascii.eqb a b then str_prefix p' s' else None
  | String _ _, EmptyString => None
  end.
(* greedy run of characters satisfying f: (the run, the rest) *)
Fixpoint span (f:ascii -> bool) (s:string) : string * string :=
  match s with
  | EmptyString => (EmptyString, EmptyString)
  | String c r => if f c then let (a, b) := span f r in (String c a, b) else (EmptyString, s)
  end.

(* ---- the three "item" expressions
        ItemReDefault    ((?:[^%]|%[^(\n]|\n)*?)($|%\()
        ItemReStatement  ((?:[^%]|%[^(\n]|\n)*?)($|[|)]|%\()
        ItemReEnd        ((?:[^%]|%[^(\n]|\n)*?)($|\)|%\()
   they differ in the single characters that end an item (`term`). item_at = group 1 of a match that starts at the
   first byte, None when there is none: the lazy star tries the terminator first, a `%` can only be consumed together
   with the next byte, which must be neither `(` nor a newline. ---- *)
Inductive itemre := ReDefault | ReStatement | ReEnd.
Definition term_of (r:itemre) (c:ascii) : bool :=
  match r with
  | ReDefault => false
  | ReStatement => Ascii.eqb c c_bar || Ascii.eqb c c_rpar
  | ReEnd => Ascii.eqb c c_rpar
  end.

Fixpoint item_at (r:itemre) (s:string) : option string :=
  match s with
  | EmptyString => Some EmptyString
  | String c t =>
      if term_of r c then Some EmptyString
      else if Ascii.eqb c c_pct then
        match t with
        | EmptyString => None
        | String d t' =>
            if Ascii.eqb d c_lpar then Some EmptyString
            else if Ascii.eqb d nl then None
            else match item_at r t' with Some g => Some (String c (String d g)) | None => None end
        end
      else match item_at r t with Some g => Some (String c g) | None => None end
  end.
(* FindAllStringSubmatch(s, 1): the leftmost match - the expressions are not anchored *)
Fixpoint find_item (r:itemre) (s:string) : string :=
  match item_at r s with
  | Some g => g
  | None => match s with EmptyString => EmptyString | String _ t => find_item r t end
  end.

(* ---- the anchored expressions: Some (what is pushed, what is consumed, the rest) ---- *)
(* ItemReVar  ^(@?\w+) *)
Definition m_var (s:string) : option (string * string) :=
  match s with
  | String c t =>
      if Ascii.eqb c "@" then
        match span is_word t with (EmptyString, _) => None | (w, rest) => Some (String c w, rest) end
      else match span is_word s with (EmptyString, _) => None | (w, rest) => Some (w, rest) end
  | EmptyString => None
  end.
(* ItemReCondOper  ^[!=]= *)
Definition m_condoper (s:string) : option (string * string) :=
  match s with
  | String c (String d t) =>
      if (Ascii.eqb c "!" || Ascii.eqb c "=") && Ascii.eqb d "=" then Some (String c (String d EmptyString), t) else None
  | _ => None
  end.
(* ItemReSearch  ^~/([^/]+)/ *)
Definition not_slash (c:ascii) : bool := negb (Ascii.eqb c "/").
Definition m_search (s:string) : option (string * string) :=
  match s with
  | String c (String d t) =>
      if Ascii.eqb c "~" && Ascii.eqb d "/" then
        match span not_slash t with
        | (EmptyString, _) => None
        | (p, String _ rest) => Some (p, rest)          (* the byte after the run is the closing slash *)
        | (_, EmptyString) => None
        end
      else None
  | _ => None
  end.
(* ItemReCondVal  ^\'([\w ]+)\' *)
Definition word_or_blank (c:ascii) : bool := is_word c || Ascii.eqb c " ".
Definition m_condval (s:string) : option (string * string) :=
  match s with
  | String c t =>
      if Ascii.eqb c "'" then
        match span word_or_blank t with
        | (EmptyString, _) => None
        | (v, String q rest) => if Ascii.eqb q "'" then Some (v, rest) else None
        | (_, EmptyString) => None
        end
      else None
  | EmptyString => None
  end.
(* ItemReVarStart ^%\(   ItemReStmtOper ^[=?]   ItemReNoStmtOper ^\|   ItemReStmtEnd ^\) : symbols *)
Definition m_varstart (s:string) : option (string * string) :=
  match s with
  | String c (String d t) => if Ascii.eqb c c_pct && Ascii.eqb d c_lpar then Some (String c (String d EmptyString), t) else None
  | _ => None
  end.
Definition m_char (f:ascii -> bool) (s:string) : option (string * string) :=
  match s with String c t => if f c then Some (String c EmptyString, t) else None | EmptyString => None end.
Definition m_stmtoper := m_char (fun c => Ascii.eqb c "=" || Ascii.eqb c "?").
Definition m_nostmtoper := m_char (fun c => Ascii.eqb c c_bar).
Definition m_stmtend := m_char (fun c => Ascii.eqb c c_rpar).

(* ---- the parser state: rest = Self[CurPos:] ---- *)
Record fp := { rest : string; stk : list string; result : string; oper : string }.
Definition with_result (s:fp) (r:string) : fp := {| rest := rest s; stk := stk s; result := r; oper := oper s |}.
Definition with_oper (s:fp) (o:string) : fp := {| rest := rest s; stk := stk s; result := result s; oper := o |}.

(* Eat with one of the item expressions (two groups, `MatchLookahead`): false on an empty rest; otherwise group 1 of
   the leftmost match is pushed and CurPos advances by ITS length - wherever the match started *)
Definition eat_item (r:itemre) (s:fp) : option fp :=
  match rest s with
  | EmptyString => None
  | _ => let g := find_item r (rest s) in
         Some {| rest := drop (String.length g) (rest s); stk := stk s ++ [g]; result := result s; oper := oper s |}
  end.
(* Eat with a one-group expression (`MatchWord`): group 1 is pushed, the whole match consumed *)
Definition eat_word (mt:string -> option (string * string)) (s:fp) : option fp :=
  match mt (rest s) with
  | Some (g, r) => Some {| rest := r; stk := stk s ++ [g]; result := result s; oper := oper s |}
  | None => None
  end.
(* Eat with an expression without groups (`MatchSymbol`): the match becomes Oper *)
Definition eat_sym (mt:string -> option (string * string)) (s:fp) : option fp :=
  match mt (rest s) with
  | Some (g, r) => Some {| rest := r; stk := stk s; result := result s; oper := g |}
  | None => None
  end.
Definition pop (s:fp) : string * fp :=
  match rev (stk s) with
  | [] => (EmptyString, s)
  | x :: r => (x, {| rest := rest s; stk := rev r; result := result s; oper := oper s |})
  end.

(* strings.ReplaceAll for the patterns used *)
Fixpoint repl_pctpct (s:string) : string :=            (* "%%" -> \x01 *)
  match s with
  | String c (String d t as t0) =>
      if Ascii.eqb c c_pct && Ascii.eqb d c_pct then String c_x01 (repl_pctpct t) else String c (repl_pctpct t0)
  | _ => s
  end.
Fixpoint del_pct (s:string) : string :=
  match s with EmptyString => EmptyString | String c t => if Ascii.eqb c c_pct then del_pct t else String c (del_pct t) end.
Fixpoint x01_pct (s:string) : string :=
  match s with EmptyString => EmptyString | String c t => String (if Ascii.eqb c c_x01 then c_pct else c) (x01_pct t) end.
Definition remove_percent (s:string) : string := x01_pct (del_pct (repl_pctpct s)).
Fixpoint escape_nl (s:string) : string :=              (* "\n" -> `\n` *)
  match s with
  | EmptyString => EmptyString
  | String c t => if Ascii.eqb c nl then String "\" (String "n" (escape_nl t)) else String c (escape_nl t)
  end.

Inductive fpanic := MissingVariable | MissingCondValue | UnclosedExpansion | BadRegexp.
Inductive pres (A:Type) := POk (x:A) | PPanic (k:fpanic) | PFuel.
Arguments POk {A}. Arguments PPanic {A}. Arguments PFuel {A}.

(* ---- one iteration of the loop of Expansions, up to the variable name:
     the loop condition fp.Eat(re), prefix := Pop(), result += RemovePercentSymbol(prefix), Eat(ItemReVarStart),
     Eat(ItemReVar) or panic, varName := Pop() ---- *)
Inductive head :=
| HStop                                   (* fp.Eat(re) is false: the loop ends, fp.Result stays as it is *)
| HReturn (s:fp) (res:string)             (* no "%(" follows: fp.Result = result; return *)
| HVar (s:fp) (var:string) (res:string)   (* inside "%(var": the state after the name, the name, `result` so far *)
| HMissingVar.
Definition head_stage (r:itemre) (res:string) (s:fp) : head :=
  match eat_item r s with
  | None => HStop
  | Some s1 =>
      let (prefix, s2) := pop s1 in
      let res1 := (res ++ remove_percent prefix)%string in
      match eat_sym m_varstart s2 with
      | None => HReturn s2 res1
      | Some s3 =>
          match eat_word m_var s3 with
          | None => HMissingVar
          | Some s4 => let (var, s5) := pop s4 in HVar s5 var res1
          end
      end
  end.

(* what the conditional operators decide: isYesStmt, isUseVal, isEqualOper, isSearched *)
Record flags := { f_yes : bool; f_useval : bool; f_iseq : bool; f_searched : bool }.

Section Parser.
  (* regexp.MustCompile(p) / Regexp.MatchString(value) *)
  Variable rx : string -> option (string -> bool).

  (* `if fp.Eat(ItemReCondOper) {...}` then `if fp.Eat(ItemReSearch) {...}` *)
  Definition cond_stage (value:string) (s5:fp) : pres (fp * flags) :=
    match eat_sym m_condoper s5 with
    | None => POk (s5, {| f_yes := false; f_useval := true; f_iseq := false; f_searched := false |})
    | Some s6 =>
        let conoper := oper s6 in
        let s7 := with_oper s6 EmptyString in
        match eat_word m_condval s7 with
        | None => PPanic MissingCondValue
        | Some s8 =>
            let (conval, s9) := pop s8 in
            let yes := (String.eqb conoper "==" && String.eqb value conval)
                       || (String.eqb conoper "!=" && negb (String.eqb value conval)) in
            POk (s9, {| f_yes := yes; f_useval := false; f_iseq := true; f_searched := false |})
        end
    end.
  Definition search_stage (value:string) (x:fp * flags) : pres (fp * flags) :=
    let (sa, fl) := x in
    match eat_word m_search sa with
    | None => POk (sa, fl)
    | Some sb =>
        let (pat, sc) := pop sb in
        match rx pat with
        | None => PPanic BadRegexp
        | Some matches =>
            POk (sc, {| f_yes := f_yes fl || matches value; f_useval := false; f_iseq := f_iseq fl; f_searched := true |})
        end
    end.
  Definition pre_stage (value:string) (s5:fp) : pres (fp * flags) :=
    match cond_stage value s5 with
    | POk x => search_stage value x
    | PPanic k => PPanic k
    | PFuel => PFuel
    end.

  (* the text an expansion contributes *)
  Definition choose (fl:flags) (useval:bool) (value yesstmt nostmt:string) : string :=
    if useval then value
    else if f_yes fl || (negb (f_searched fl) && negb (f_iseq fl) && negb (String.eqb value EmptyString)) then yesstmt
    else nostmt.

  (* Expansions(re, attrs): `res` is the local variable `result`. One unit of fuel per loop iteration and per nested
     call; each of them is preceded by at least the two bytes of "%(" being consumed *)
  Fixpoint expansions (fuel:nat) (r:itemre) (A:attrs) (res:string) (s:fp) {struct fuel} : pres fp :=
    match fuel with
    | O => PFuel
    | S f =>
      match head_stage r res s with
      | HStop => POk s
      | HReturn s2 res1 => POk (with_result s2 res1)
      | HMissingVar => PPanic MissingVariable
      | HVar s5 var res1 =>
        let value := aget var A in
        match pre_stage value s5 with
        | PPanic k => PPanic k
        | PFuel => PFuel
        | POk (sd, fl) =>
          (* have := fp.Eat(ItemReStmtOper); if have { isUseVal = false; fp.Expansions(ItemReStatement, attrs); yesStmt = fp.Result } *)
          match (match eat_sym m_stmtoper sd with
                 | None => POk (sd, EmptyString, f_useval fl)
                 | Some se =>
                     match expansions f ReStatement A EmptyString se with
                     | POk sf => POk (sf, result sf, false)
                     | PPanic k => PPanic k
                     | PFuel => PFuel
                     end
                 end) with
          | PPanic k => PPanic k
          | PFuel => PFuel
          | POk (sg, yesstmt, useval) =>
            (* haveNot := fp.Eat(ItemReNoStmtOper); if haveNot { fp.Expansions(ItemReEnd, attrs); noStmt = fp.Result } *)
            match (match eat_sym m_nostmtoper sg with
                   | None => POk (sg, EmptyString)
                   | Some sh =>
                       match expansions f ReEnd A EmptyString sh with
                       | POk si => POk (si, result si)
                       | PPanic k => PPanic k
                       | PFuel => PFuel
                       end
                   end) with
            | PPanic k => PPanic k
            | PFuel => PFuel
            | POk (sj, nostmt) =>
              match eat_sym m_stmtend sj with
              | None => PPanic UnclosedExpansion
              | Some sk =>
                  let res2 := (res1 ++ choose fl useval value yesstmt nostmt)%string in
                  expansions f r A res2 (with_result sk res2)         (* fp.Result = result; next iteration *)
              end
            end
          end
        end
      end
    end.

  (* MakeFormatParser(self) and the state after Clear() *)
  Definition fresh (self:string) : fp := {| rest := self; stk := []; result := EmptyString; oper := EmptyString |}.
  Definition fuel_of (self:string) : nat := S (String.length self).

  (* Parse(attrs) on a parser whose state is fresh / cleared: the formatted string and the state it leaves (Clear) *)
  Definition parse (self:string) (A:attrs) : pres string :=
    match expansions (fuel_of self) ReDefault A EmptyString (fresh self) with
    | POk s => POk (escape_nl (result s))
    | PPanic k => PPanic k
    | PFuel => PFuel
    end.

  (* MergeAttributesMap(val, attrs): val["@"+k] = v.GetS() *)
  Definition merge_attrs_map (val:attrs) (a:attrs) : attrs :=
    fold_left (fun m kv => aset (String "@" (fst kv)) (snd kv) m) a val.

  Record ep_param := { p_epname : string; p_human : string; p_human_sender : string; p_needs_int : string;
                       p_args : string; p_patterns : string; p_controls : string; p_attrs : attrs }.
  Definition label_endpoint (self:string) (p:ep_param) : pres string :=
    parse self (merge_attrs_map
                  [("epname"%string, p_epname p); ("human"%string, p_human p); ("human_sender"%string, p_human_sender p);
                   ("args"%string, p_args p); ("patterns"%string, p_patterns p); ("needs_int"%string, p_needs_int p);
                   ("controls"%string, p_controls p)] (p_attrs p)).
  Definition label_app (self appname controls:string) (a:attrs) : pres string :=
    parse self (merge_attrs_map [("appname"%string, appname); ("controls"%string, controls)] a).
  Definition fmt_seq (self epname eplongname:string) (a:attrs) : pres string :=
    parse self (merge_attrs_map [("epname"%string, epname); ("eplongname"%string, eplongname)] a).
  Definition fmt_output (self appname epname eplongname:string) (a:attrs) : pres string :=
    parse self (merge_attrs_map [("appname"%string, appname); ("epname"%string, epname); ("eplongname"%string, eplongname)] a).
End Parser.

(* MergeAttributes(app, edpnt): a fresh map, the endpoint's attributes over the application's *)
Definition merge_attributes (app ep:attrs) : attrs :=
  fold_left (fun m kv => aset (fst kv) (snd kv) m) ep (fold_left (fun m kv => aset (fst kv) (snd kv) m) app []).

(* EscapeWordBoundary: json.Marshal, `\u0008` -> `\\b`, json.Unmarshal. For valid UTF-8 the round trip is the identity
   except that the backspace byte (what "\b" is in a string literal) comes back as the two bytes `\b` - PROVIDED
   encoding/json writes that byte as \u0008. The library of newer toolchains writes the short form \b instead, the
   replacement finds nothing and the function is the identity: `short_b` is that fact about the library the code is
   built with (probed by the harness on every run, never assumed). *)
Fixpoint replace_bs (s:string) : string :=
  match s with
  | EmptyString => EmptyString
  | String c t => if Ascii.eqb c c_bs then String "\" (String "b" (replace_bs t)) else String c (replace_bs t)
  end.
Definition escape_word_boundary (short_b:bool) (s:string) : string := if short_b then s else replace_bs s.
(* ConstructFormatParser(former, latter) *)
Definition construct_format (short_b:bool) (former latter:string) : string :=
  escape_word_boundary short_b (if String.eqb former EmptyString then latter else former).

(* ---- GetSortedISOCtrlStr: keys iso_ctrl_<x>_txt (x without newline), the x, sorted, joined by ", " ---- *)
Fixpoint str_rev_acc (s acc:string) : string := match s with EmptyString => acc | String c t => str_rev_acc t (String c acc) end.
Definition str_rev (s:string) : string := str_rev_acc s EmptyString.
Definition str_suffix (suf s:string) : option string :=
  match str_prefix (str_rev suf) (str_rev s) with Some r => Some (str_rev r) | None => None end.
Definition no_nl (s:string) : bool := (fix go (s:string) := match s with EmptyString => true | String c t => negb (Ascii.eqb c nl) && go t end) s.
(* `.` does not match a newline, `$` is the end of the text *)
Definition iso_ctrl_of (k:string) : option string :=
  match str_prefix "iso_ctrl_" k with
  | Some r => match str_suffix "_txt" r with Some mid => if no_nl mid then Some mid else None | None => None end
  | None => None
  end.
Fixpoint str_leb (a b:string) : bool :=
  match a, b with
  | EmptyString, _ => true
  | String _ _, EmptyString => false
  | String x a', String y b' =>
      if (N_of_ascii x <? N_of_ascii y)%N then true else if (N_of_ascii y <? N_of_ascii x)%N then false else str_leb a' b'
  end.
Fixpoint ins_str (x:string) (l:list string) : list string :=
  match l with [] => [x] | y :: t => if str_leb x y then x :: y :: t else y :: ins_str x t end.
Definition sort_strs (l:list string) : list string := fold_right ins_str [] l.
Fixpoint join (sep:string) (l:list string) : string :=
  match l with [] => EmptyString | [x] => x | x :: t => (x ++ sep ++ join sep t)%string end.
Definition iso_ctrl_str (a:attrs) : string :=
  join ", " (sort_strs (flat_map (fun kv => match iso_ctrl_of (fst kv) with Some x => [x] | None => [] end) a)).

(* a StrSet written with ToSortedSlice: sorted, without repetitions *)
Fixpoint dedup_sorted (l:list string) : list string :=
  match l with
  | x :: ((y :: _) as t) => if String.eqb x y then dedup_sorted t else x :: dedup_sorted t
  | _ => l
  end.
Definition sorted_set (l:list string) : list string := dedup_sorted (sort_strs l).

(* ---- NormalizeEndpointName: ^.*? ->  replaced by " <=> " (U+2B04): the text up to and including the first " -> ",
   provided no newline comes before it ---- *)
Definition arrow_lr : string := String "226" (String "172" (String "132" EmptyString)).    (* U+2B04 *)
Definition arrow_r : string := String "226" (String "134" (String "146" EmptyString)).      (* U+2192 *)
Fixpoint after_first_arrow (s:string) : option string :=
  match str_prefix " -> " s with
  | Some r => Some r
  | None => match s with
            | EmptyString => None
            | String c t => if Ascii.eqb c nl then None else after_first_arrow t
            end
  end.
Definition normalize_epname (s:string) : string :=
  match after_first_arrow s with Some r => (" " ++ arrow_lr ++ " " ++ r)%string | None => s end.
