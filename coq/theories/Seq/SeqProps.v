(* C13 - theorems about the model of the sequence-diagram generator (Seq/SeqModel.v), for every module, every start
   list, every blackbox map and (unless stated) both settings of the two source facts in `variant`. *)
From Coq Require Import List NArith Bool Lia Arith Permutation.
Import ListNotations.
Require Import Verif.Seq.SeqModel Verif.Seq.SeqFlat.

(* ================================================================ visitEndpoint in named pieces *)
Definition suppr (ap:app) : bool := has_pat PHuman (app_pats ap) || has_pat PCron (app_pats ap).
Definition arrow_drawn (from:option id) (ap:app) (ep:endpoint) : bool :=
  negb ((has_pat PHuman (app_pats ap) && negb (is_some from)) || has_pat PCron (app_pats ap)) && negb (ep_hidden ep).
Definition ve_reg (s:st) (from:option id) (a:id) : st := uniq_var (match from with Some x => uniq_var s x | None => s end) a.
Definition ve_arrow (s:st) (from:option id) (a e:id) (ap:app) (ep:endpoint) : st :=
  if arrow_drawn from ap ep then emit s (Arrow (sender_of from) a e) else s.
Definition ve_early (s:st) (from:option id) (a:id) (shown:bool) (caller:option (nat*bool)) : st :=
  match caller with
  | Some (c, true) => if negb (match from with Some x => N.eqb x a | None => false end) && negb shown then fire s c else s
  | _ => s
  end.
Definition is_cut (up:option upto) : bool := match up with Some u => u_cut u | None => false end.
Definition ve_cut (V:variant) (s2:st) (from:option id) (a:id) (ep:endpoint) (up:option upto) : st :=
  let shown := is_shown (ret_payload (ep_body ep)) in
  let s3 := match up with
            | Some u => if shown then (let s' := activate s2 a in if u_comment u then emit s' (NoteOver a) else s')
                        else emit s2 NoteSide
            | None => s2
            end in
  if shown then
    let s4 := if ep_hidden ep then s3 else emit s3 (Return (sender_of from) a) in
    if v_inprog_unguarded V || is_some up then deactivate s4 a else s4
  else s3.

Lemma visit_endpoint_eq V m f bbs s from a e caller :
  visit_endpoint V m (S f) bbs s from a e caller =
  match lookup m a e with
  | None => lookup_fail V
  | Some (ap, ep) =>
      let s2 := ve_early (ve_arrow (ve_reg s from a) from a e ap ep) from a (is_shown (ret_payload (ep_body ep))) caller in
      match ep_body ep with
      | [] => Ok s2
      | _ :: _ =>
          if is_cut (assoc2 (a,e) bbs) || is_visited s2 a e then Ok (ve_cut V s2 from a ep (assoc2 (a,e) bbs))
          else
            bind (walk_list (fun s t te last => visit_endpoint V m f bbs s (Some a) t te (Some (snd (activated s2 a (suppr ap)), last)))
                            (v_nil_panics V) a (sender_of from) (push_visited (fst (activated s2 a (suppr ap))) a e) (ep_body ep) true)
                 (fun s5 => Ok (pop_visited (fire s5 (snd (activated s2 a (suppr ap)))) a e))
      end
  end.
Proof.
  cbn [visit_endpoint]. destruct (lookup m a e) as [[ap ep]|]; [|reflexivity].
  destruct ep as [hid body]. destruct body as [|x b]; [reflexivity|].
  unfold ve_cut. cbn [ep_body ep_hidden]. destruct (is_shown (ret_payload (x :: b))); reflexivity.
Qed.

Ltac unf_prims :=
  unfold ve_cut, ve_early, ve_arrow, ve_reg, activated, fire, deactivate, activate, uniq_var, emit, push_visited, pop_visited,
         with_active, with_cells, with_visited, with_syms in *.
Ltac brk_goal := repeat match goal with |- context [match ?x with _ => _ end] => destruct x end.

(* ================================================================ 1. no panic once the lookups return errors *)
Section NoPanic.
  Variable V : variant.
  Variable m : module.
  Hypothesis HV : v_lookup_panics V = false.
  Hypothesis HN : v_nil_panics V = false.

  Lemma run_no_panic call il : (forall s t te last, call s t te last <> Panic) -> forall s, run call (v_nil_panics V) il s <> Panic.
  Proof.
    intros Hc. induction il as [|i r IH]; intros s; cbn [run]; [discriminate|].
    destruct i as [e|t te last|]; [apply IH| |rewrite HN; discriminate].
    specialize (Hc s t te last). destruct (call s t te last); cbn [bind]; auto; discriminate.
  Qed.

  Lemma visit_endpoint_no_panic fuel : forall bbs s from a e caller, visit_endpoint V m fuel bbs s from a e caller <> Panic.
  Proof.
    induction fuel as [|f IH]; intros bbs s from a e caller; [discriminate|].
    rewrite visit_endpoint_eq. destruct (lookup m a e) as [[ap ep]|]; [|unfold lookup_fail; rewrite HV; discriminate].
    cbv zeta. destruct (ep_body ep) as [|x b] eqn:Eb; [discriminate|].
    destruct (_ || _); [discriminate|].
    rewrite walk_flat.
    match goal with |- bind ?r _ <> _ => assert (Hr : r <> Panic) by (apply run_no_panic; intros; apply IH); destruct r; cbn [bind]; auto; discriminate end.
  Qed.

  Lemma run_entries_no_panic fuel all : forall es bbs s, run_entries V m fuel all bbs s es <> Panic.
  Proof.
    induction es as [|[a e] r IH]; intros bbs s; cbn [run_entries]; [discriminate|].
    destruct (lookup m a e); [|discriminate].
    match goal with |- bind ?r _ <> _ => assert (Hr : r <> Panic) by apply visit_endpoint_no_panic; destruct r; cbn [bind]; auto; discriminate end.
  Qed.

  Theorem seq_no_panic fuel bbs starts : gen V m fuel bbs starts <> Panic.
  Proof.
    unfold gen, gen_st. pose proof (run_entries_no_panic fuel starts starts (make_bbs bbs) init) as H.
    destruct (run_entries _ _ _ _ _ _ _); cbn [bind]; auto; discriminate.
  Qed.
End NoPanic.

(* today's source (before the repair) does panic: a call to an application that does not exist *)
Definition dangling_module : module := [(0%N, {| app_pats := []; app_eps := [(0%N, {| ep_hidden := false; ep_body := [Call 1%N 0%N] |})] |})].
Theorem seq_no_panic_refuted_when_lookups_panic :
  gen {| v_lookup_panics := true; v_inprog_unguarded := false; v_nil_panics := false |} dangling_module (fuel_for dangling_module) [] [(0%N,0%N)] = Panic.
Proof. vm_compute. reflexivity. Qed.
Example seq_dangling_is_error_after_repair :
  gen {| v_lookup_panics := false; v_inprog_unguarded := false; v_nil_panics := false |} dangling_module (fuel_for dangling_module) [] [(0%N,0%N)] = Err.
Proof. vm_compute. reflexivity. Qed.

(* ... and so did a statement whose `Stmt` is not set (a module read from .pb / .textpb / JSON can hold one): the
   default arm of visitStatment's type switch was `panic("Unrecognised statement type")` *)
Definition nil_module : module :=
  [(0%N, {| app_pats := []; app_eps := [(0%N, {| ep_hidden := false; ep_body := [Call 1%N 0%N; Ret RetShown] |})] |});
   (1%N, {| app_pats := []; app_eps := [(0%N, {| ep_hidden := false; ep_body := [Action; Block BCond [Nil]] |})] |})].
Theorem seq_no_panic_refuted_when_nil_panics :
  gen {| v_lookup_panics := false; v_inprog_unguarded := false; v_nil_panics := true |} nil_module (fuel_for nil_module) [] [(0%N,0%N)] = Panic.
Proof. vm_compute. reflexivity. Qed.
Example seq_nil_is_error_after_repair :
  gen {| v_lookup_panics := false; v_inprog_unguarded := false; v_nil_panics := false |} nil_module (fuel_for nil_module) [] [(0%N,0%N)] = Err.
Proof. vm_compute. reflexivity. Qed.
(* a statement without `Stmt` that the walk does not reach (here: below a blackbox) does no harm *)
Example seq_nil_unreached_is_harmless :
  exists d ev, gen {| v_lookup_panics := false; v_inprog_unguarded := false; v_nil_panics := true |} nil_module (fuel_for nil_module)
                   [{| bb_key := (1%N,0%N); bb_cut := true; bb_clen := CN |}] [(0%N,0%N)] = Ok (d, ev) /\ length (arrows ev) = 2.
Proof. eexists. eexists. vm_compute. split; reflexivity. Qed.

(* ================================================================ small facts about the primitives *)
Lemma key_eqb_eq x y : key_eqb x y = true <-> x = y.
Proof.
  destruct x as [a e], y as [a' e']. unfold key_eqb. cbn [fst snd]. rewrite andb_true_iff, !N.eqb_eq.
  split; [intros [-> ->]; reflexivity|intros [= -> ->]; auto].
Qed.
Lemma key_eqb_refl x : key_eqb x x = true.
Proof. apply key_eqb_eq. reflexivity. Qed.
Lemma assoc_in {A} k (l:list (id*A)) x : assoc k l = Some x -> In (k, x) l.
Proof.
  induction l as [|[j y] t IH]; cbn [assoc]; [discriminate|].
  destruct (N.eqb_spec k j) as [->|]; [intros [= ->]; left; reflexivity|intros H; right; auto].
Qed.
Lemma is_visited_false s a e : is_visited s a e = false -> ~ In (a,e) (visited s).
Proof.
  unfold is_visited. intros H Hin. assert (existsb (key_eqb (a,e)) (visited s) = true); [|congruence].
  apply existsb_exists. exists (a,e). split; [exact Hin|apply key_eqb_refl].
Qed.

Ltac prim_field := intros; unf_prims; brk_goal; reflexivity.
Lemma visited_emit s e : visited (emit s e) = visited s. Proof. reflexivity. Qed.
Lemma visited_fire s c : visited (fire s c) = visited s. Proof. prim_field. Qed.
Lemma visited_activated s a b : visited (fst (activated s a b)) = visited s. Proof. prim_field. Qed.
Lemma visited_pre s from a e ap ep sh caller :
  visited (ve_early (ve_arrow (ve_reg s from a) from a e ap ep) from a sh caller) = visited s.
Proof. prim_field. Qed.
Lemma visited_cut V s from a ep up : visited (ve_cut V s from a ep up) = visited s.
Proof. prim_field. Qed.

(* ================================================================ 2. the in-progress set is restored; termination *)
Section Terminates.
  Variable V : variant.
  Variable m : module.

  Lemma lookup_fail_not_ok s : lookup_fail V <> Ok s.
  Proof. unfold lookup_fail. destruct (v_lookup_panics V); discriminate. Qed.
  Lemma lookup_fail_not_oof : lookup_fail V <> OutOfFuel.
  Proof. unfold lookup_fail. destruct (v_lookup_panics V); discriminate. Qed.

  Lemma visit_endpoint_visited fuel : forall bbs s from a e caller s',
    visit_endpoint V m fuel bbs s from a e caller = Ok s' -> visited s' = visited s.
  Proof.
    induction fuel as [|f IH]; intros bbs s from a e caller s' H; [discriminate|].
    rewrite visit_endpoint_eq in H. destruct (lookup m a e) as [[ap ep]|]; [|exfalso; eapply lookup_fail_not_ok, H].
    cbv zeta in H. destruct (ep_body ep) as [|x b] eqn:Eb.
    - injection H as <-. apply visited_pre.
    - destruct (_ || _) in H.
      + injection H as <-. rewrite visited_cut. apply visited_pre.
      + match type of H with bind ?r _ = _ => destruct r as [s5| | |] eqn:W; try discriminate end.
        cbn [bind] in H. injection H as <-.
        apply (walk_pres _ _ a (sender_of from) (fun s s' => visited s' = visited s)) in W.
        * unfold pop_visited, with_visited. cbn [visited]. rewrite visited_fire, W. unfold push_visited, with_visited. cbn [visited remove1].
          rewrite key_eqb_refl, visited_activated. apply visited_pre.
        * reflexivity.
        * intros s1 s2 s3 H1 H2. congruence.
        * reflexivity.
        * intros s1 t te last s2 Hc. eapply IH, Hc.
  Qed.

  Definition keys : list (id*id) := flat_map (fun p => map (fun q => (fst p, fst q)) (app_eps (snd p))) m.
  Lemma keys_length : length keys = n_endpoints m.
  Proof.
    unfold keys, n_endpoints. induction m as [|[a ap] r IH]; [reflexivity|].
    cbn [flat_map fold_right fst snd]. rewrite app_length, map_length, IH. reflexivity.
  Qed.
  Lemma lookup_in_keys a e x : lookup m a e = Some x -> In (a,e) keys.
  Proof.
    unfold lookup, keys. destruct (assoc a m) as [ap|] eqn:Ea; [|discriminate].
    destruct (assoc e (app_eps ap)) as [ep|] eqn:Ee; [|discriminate]. intros _.
    apply in_flat_map. exists (a, ap). split; [apply assoc_in, Ea|].
    cbn [fst snd]. apply in_map_iff. exists (e, ep). split; [reflexivity|apply assoc_in, Ee].
  Qed.

  (* a generic "this failure never comes out of the walk" *)
  Lemma run_neq call np (X:outcome st) (Inv:st -> Prop) (Q:id*id -> Prop) :
    nil_fail np <> X ->
    (forall s, X <> Ok s) ->
    (forall s e, Inv s -> Inv (emit s e)) ->
    (forall s t te last, Inv s -> Q (t,te) -> call s t te last <> X /\ forall s', call s t te last = Ok s' -> Inv s') ->
    forall il, Forall Q (calls_of il) -> forall s, Inv s -> run call np il s <> X.
  Proof.
    intros HN HX He Hc. induction il as [|i r IH]; intros HQ s Hs; cbn [run]; [intros E; symmetry in E; eapply HX, E| ].
    destruct i as [e|t te last|]; [| |exact HN].
    - apply IH; [exact HQ|apply He, Hs].
    - cbn [calls_of flat_map Datatypes.app] in HQ. inversion HQ as [|? ? Hq HQ']; subst.
      destruct (Hc s t te last Hs Hq) as [Hn Hi].
      destruct (call s t te last) as [s1| | |]; cbn [bind]; try exact Hn. apply IH; [exact HQ'|apply Hi; reflexivity].
  Qed.

  Lemma visit_endpoint_terminates fuel : forall bbs s from a e caller,
    NoDup (visited s) -> incl (visited s) keys -> length keys < fuel + length (visited s) ->
    visit_endpoint V m fuel bbs s from a e caller <> OutOfFuel.
  Proof.
    induction fuel as [|f IH]; intros bbs s from a e caller Hnd Hincl Hlen.
    - exfalso. pose proof (NoDup_incl_length Hnd Hincl). lia.
    - rewrite visit_endpoint_eq. destruct (lookup m a e) as [[ap ep]|] eqn:L; [|apply lookup_fail_not_oof].
      cbv zeta. destruct (ep_body ep) as [|x b] eqn:Eb; [discriminate|].
      destruct (is_cut _ || is_visited _ a e) eqn:C; [discriminate|].
      apply orb_false_iff in C as [_ C]. apply is_visited_false in C. rewrite visited_pre in C.
      rewrite walk_flat.
      match goal with |- bind ?r _ <> _ => assert (Hr : r <> OutOfFuel); [|destruct r; cbn [bind]; auto; discriminate] end.
      apply (run_neq _ (v_nil_panics V) OutOfFuel (fun s1 => visited s1 = (a,e) :: visited s) (fun _ => True)).
      + unfold nil_fail. destruct (v_nil_panics V); discriminate.
      + discriminate.
      + intros s1 ev H1. exact H1.
      + intros s1 t te last H1 _. split.
        * apply IH; rewrite H1.
          -- constructor; assumption.
          -- intros k [<-|Hk]; [eapply lookup_in_keys, L|apply Hincl, Hk].
          -- cbn [length]. lia.
        * intros s2 H2. rewrite (visit_endpoint_visited _ _ _ _ _ _ _ _ H2). exact H1.
      + apply Forall_forall. intros; exact I.
      + unfold push_visited, with_visited. cbn [visited]. rewrite visited_activated, visited_pre. reflexivity.
  Qed.

  Lemma run_entries_terminates fuel all : n_endpoints m < fuel ->
    forall es bbs s, run_entries V m fuel all bbs s es <> OutOfFuel.
  Proof.
    intros Hf. induction es as [|[a e] r IH]; intros bbs s; cbn [run_entries]; [discriminate|].
    destruct (lookup m a e); [|discriminate].
    match goal with |- bind ?r _ <> _ => assert (Hr : r <> OutOfFuel); [|destruct r; cbn [bind]; auto; discriminate] end.
    apply visit_endpoint_terminates; cbn [visited with_visited length].
    - constructor.
    - intros k [].
    - rewrite keys_length. lia.
  Qed.

  (* generation terminates on every call graph - recursion, mutual recursion, self calls: one level of fuel per
     endpoint of the module is enough *)
  Theorem seq_terminates fuel bbs starts : n_endpoints m < fuel -> gen V m fuel bbs starts <> OutOfFuel.
  Proof.
    intros Hf. unfold gen, gen_st. pose proof (run_entries_terminates fuel starts Hf starts (make_bbs bbs) init) as H.
    destruct (run_entries _ _ _ _ _ _ _); cbn [bind]; auto; discriminate.
  Qed.
  Corollary seq_terminates_fuel_for bbs starts : gen V m (fuel_for m) bbs starts <> OutOfFuel.
  Proof. apply seq_terminates. unfold fuel_for. lia. Qed.
End Terminates.

(* mutual recursion A.E0 -> B.E0 -> A.E0 and a self call: the model neither runs out of fuel nor fails *)
Definition cyclic_module : module :=
  [(0%N, {| app_pats := []; app_eps := [(0%N, {| ep_hidden := false; ep_body := [Call 1%N 0%N; Call 0%N 0%N; Ret RetShown] |})] |});
   (1%N, {| app_pats := []; app_eps := [(0%N, {| ep_hidden := false; ep_body := [Block BLoop [Call 0%N 0%N]; Ret RetPrim] |})] |})].
Example seq_terminates_nonvacuous :
  exists d ev, gen {| v_lookup_panics := false; v_inprog_unguarded := false; v_nil_panics := false |} cyclic_module (fuel_for cyclic_module) [] [(0%N,0%N)] = Ok (d, ev)
               /\ length (arrows ev) = 4.
Proof. eexists. eexists. vm_compute. split; reflexivity. Qed.

(* ================================================================ 3. what a visit appends to the body *)
Definition ext (s s':st) (evs:list event) : Prop := out s' = out s ++ evs.
Lemma ext_refl s : ext s s []. Proof. unfold ext. symmetry. apply app_nil_r. Qed.
Lemma ext_trans s s1 s2 e1 e2 : ext s s1 e1 -> ext s1 s2 e2 -> ext s s2 (e1 ++ e2).
Proof. unfold ext. intros H1 H2. rewrite H2, H1, app_assoc. reflexivity. Qed.
Lemma ext_emit s e : ext s (emit s e) [e]. Proof. reflexivity. Qed.

(* events that are neither call arrows nor block brackets nor section headers *)
Definition quiet (e:event) : bool :=
  match e with Return _ _ | Self _ | Activate _ | Deactivate _ | NoteOver _ | NoteSide => true | _ => false end.

Ltac ext_solve :=
  intros; unfold ext; unf_prims; brk_goal; cbn [out active cells visited syms fst snd];
  first [ exists []; split; [cbn [Datatypes.app]; rewrite ?app_nil_r; reflexivity|reflexivity]
        | eexists; split; [rewrite <- ?app_assoc; reflexivity|reflexivity] ].
Lemma pre_ext s from a e ap ep sh caller :
  exists q, ext s (ve_early (ve_arrow (ve_reg s from a) from a e ap ep) from a sh caller)
                ((if arrow_drawn from ap ep then [Arrow (sender_of from) a e] else []) ++ q) /\ forallb quiet q = true.
Proof. ext_solve. Qed.
Lemma cut_ext V s from a ep up : exists q, ext s (ve_cut V s from a ep up) q /\ forallb quiet q = true.
Proof. ext_solve. Qed.
Lemma activated_ext s a b : exists q, ext s (fst (activated s a b)) q /\ forallb quiet q = true.
Proof. ext_solve. Qed.
Lemma fire_ext s c : exists q, ext s (fire s c) q /\ forallb quiet q = true.
Proof. ext_solve. Qed.

(* the walk's output: its own events, with one chunk per call *)
Inductive Trace (Q:id -> id -> bool -> list event -> Prop) : list instr -> list event -> Prop :=
| T_nil : Trace Q [] []
| T_emit e il evs : Trace Q il evs -> Trace Q (IEmit e :: il) (e :: evs)
| T_call t te last il c evs : Q t te last c -> Trace Q il evs -> Trace Q (ICall t te last :: il) (c ++ evs).

Lemma run_trace call np (Inv:st -> Prop) (Q:id -> id -> bool -> list event -> Prop) :
  (forall s e, Inv s -> Inv (emit s e)) ->
  (forall s t te last s', Inv s -> call s t te last = Ok s' -> Inv s' /\ exists evs, ext s s' evs /\ Q t te last evs) ->
  forall il s s', Inv s -> run call np il s = Ok s' -> exists evs, ext s s' evs /\ Trace Q il evs.
Proof.
  intros He Hc. induction il as [|i r IH]; intros s s' Hs H; cbn [run] in H.
  - injection H as <-. exists []. split; [apply ext_refl|constructor].
  - destruct i as [e|t te last|]; [| |destruct np; discriminate].
    + destruct (IH _ _ (He _ e Hs) H) as (evs & Hx & Ht). exists ([e] ++ evs). split; [eapply ext_trans; [apply ext_emit|exact Hx]|constructor; exact Ht].
    + destruct (call s t te last) as [s1| | |] eqn:E; try discriminate. cbn [bind] in H.
      destruct (Hc _ _ _ _ _ Hs E) as (Hs1 & c & Hx1 & Hq). destruct (IH _ _ Hs1 H) as (evs & Hx & Ht).
      exists (c ++ evs). split; [eapply ext_trans; eassumption|constructor; assumption].
Qed.

(* ---- blocks ---- *)
(* the stack holds one entry per open block: true for alt (the only kind in which else may occur) *)
Fixpoint blk (stk:list bool) (evs:list event) : option (list bool) :=
  match evs with
  | [] => Some stk
  | Open _ :: r => blk (false :: stk) r
  | OpenAlt :: r => blk (true :: stk) r
  | Else :: r => match stk with true :: _ => blk stk r | _ => None end
  | Close :: r => match stk with _ :: stk' => blk stk' r | [] => None end
  | Section _ _ :: r => match stk with [] => blk [] r | _ => None end
  | _ :: r => blk stk r
  end.
Definition blocks_closed (evs:list event) : Prop := blk [] evs = Some [].
Definition balanced (evs:list event) : Prop := forall stk, blk stk evs = Some stk.

Lemma blk_app x y stk : blk stk (x ++ y) = match blk stk x with Some stk' => blk stk' y | None => None end.
Proof.
  revert stk. induction x as [|e x IH]; intros stk; [reflexivity|].
  destruct e; cbn [blk Datatypes.app]; try apply IH.
  - destruct stk; [apply IH|reflexivity].
  - destruct stk as [|[|] ?]; try reflexivity. apply IH.
  - destruct stk; [reflexivity|apply IH].
Qed.
Lemma balanced_nil : balanced []. Proof. intros stk. reflexivity. Qed.
Lemma balanced_app x y : balanced x -> balanced y -> balanced (x ++ y).
Proof. intros Hx Hy stk. rewrite blk_app, Hx. apply Hy. Qed.
Lemma balanced_quiet q : forallb quiet q = true -> balanced q.
Proof.
  induction q as [|e q IH]; [intros; apply balanced_nil|]. cbn [forallb]. intros H. apply andb_prop in H as [He Hq].
  intros stk. destruct e; try discriminate; cbn [blk]; apply IH, Hq.
Qed.
Lemma balanced_arrow_opt (b:bool) e : balanced (if b then [e] else []) -> True. Proof. trivial. Qed.

Fixpoint wf_stmt (x:stmt) : bool :=
  match x with
  | Block _ b => forallb wf_stmt b
  | Alt cs => negb (is_nil cs) && forallb (forallb wf_stmt) cs
  | _ => true
  end.

Section Blocks.
  Variable a : id.
  Variable sndr : part.
  Notation fstmt := (flat_stmt a sndr).
  Notation flist := (flat_list a sndr).
  Notation falts := (flat_alts a sndr).

  Lemma balanced_list_of l : Forall (fun x => wf_stmt x = true -> forall last, balanced (skel (fstmt x last))) l ->
    forallb wf_stmt l = true -> forall lastp, balanced (skel (flist l lastp)).
  Proof.
    induction 1 as [|y r Hy _ IH]; intros Hw lastp; [apply balanced_nil|].
    cbn [forallb] in Hw. apply andb_prop in Hw as [Hw1 Hw2].
    rewrite flat_list_cons, skel_app. apply balanced_app; [apply Hy, Hw1|apply IH, Hw2].
  Qed.
  Lemma balanced_stmt x : wf_stmt x = true -> forall last, balanced (skel (fstmt x last)).
  Proof.
    induction x as [t te| | |k|k b IH|cs IH|] using stmt_ind'; intros Hw last; try (intros stk; reflexivity).
    - rewrite flat_block. intros stk.
      change (skel (IEmit (Open (kw_of k)) :: flist b last ++ [IEmit Close])) with (Open (kw_of k) :: skel (flist b last ++ [IEmit Close])).
      rewrite skel_app. cbn [blk]. rewrite blk_app, (balanced_list_of b IH Hw). reflexivity.
    - cbn [wf_stmt] in Hw. apply andb_prop in Hw as [Hne Hw]. rewrite flat_alt, skel_app. intros stk. rewrite blk_app.
      assert (Hrest : forall r, Forall (Forall (fun x => wf_stmt x = true -> forall last, balanced (skel (fstmt x last)))) r ->
                                forallb (forallb wf_stmt) r = true -> blk (true :: stk) (skel (falts last r false)) = Some (true :: stk)).
      { induction 1 as [|c r Hc _ IHr]; intros Hwr; [reflexivity|].
        cbn [forallb] in Hwr. apply andb_prop in Hwr as [Hwc Hwr].
        rewrite flat_alts_cons.
        change (skel (IEmit Else :: flist c (last && is_nil r) ++ falts last r false)) with (Else :: skel (flist c (last && is_nil r) ++ falts last r false)).
        cbn [blk]. rewrite skel_app, blk_app, (balanced_list_of c Hc Hwc). apply IHr, Hwr. }
      destruct IH as [|c r Hc Hr]; [discriminate|].
      cbn [forallb] in Hw. apply andb_prop in Hw as [Hwc Hwr].
      rewrite flat_alts_cons.
      change (skel (IEmit OpenAlt :: flist c (last && is_nil r) ++ falts last r false)) with (OpenAlt :: skel (flist c (last && is_nil r) ++ falts last r false)).
      cbn [blk]. rewrite skel_app, blk_app, (balanced_list_of c Hc Hwc), (Hrest r Hr Hwr). reflexivity.
  Qed.
  Theorem balanced_flat_list l lastp : forallb wf_stmt l = true -> balanced (skel (flist l lastp)).
  Proof. intros Hw. apply balanced_list_of; [|exact Hw]. apply Forall_forall. intros x _. apply balanced_stmt. Qed.
End Blocks.

Lemma trace_blk (Q:id -> id -> bool -> list event -> Prop) il evs : (forall t te last c, Q t te last c -> balanced c) -> Trace Q il evs ->
  forall stk, blk stk evs = blk stk (skel il).
Proof.
  intros HQ. induction 1 as [|e il evs _ IH|t te last il c evs Hq _ IH]; intros stk; [reflexivity| |].
  - change (skel (IEmit e :: il)) with (e :: skel il). destruct e; cbn [blk]; try apply IH.
    + destruct stk; [apply IH|reflexivity].
    + destruct stk as [|[|] ?]; try reflexivity. apply IH.
    + destruct stk; [reflexivity|apply IH].
  - change (skel (ICall t te last :: il)) with (skel il). rewrite blk_app, (HQ _ _ _ _ Hq). apply IH.
Qed.

(* ---- arrows ---- *)
Lemma arrows_app x y : arrows (x ++ y) = arrows x ++ arrows y.
Proof. apply filter_app. Qed.
Lemma arrows_quiet q : forallb quiet q = true -> arrows q = [].
Proof.
  induction q as [|e q IH]; [reflexivity|]. cbn [forallb]. intros H. apply andb_prop in H as [He Hq].
  destruct e; try discriminate; cbn [arrows filter is_arrow]; apply IH, Hq.
Qed.
Lemma trace_arrows a sndr (Q:id -> id -> bool -> list event -> Prop) (G:id*id -> list event) il evs :
  (forall t te last c, Q t te last c -> arrows c = G (t,te)) -> Forall (instr_ok a sndr) il -> Trace Q il evs ->
  arrows evs = flat_map G (calls_of il).
Proof.
  intros HQ Hok. induction 1 as [|e il evs _ IH|t te last il c evs Hq _ IH]; [reflexivity| |].
  - inversion Hok as [|? ? He Hok']; subst. change (calls_of (IEmit e :: il)) with (calls_of il).
    rewrite <- (IH Hok'). destruct e; cbn in He; try contradiction; reflexivity.
  - inversion Hok as [|? ? _ Hok']; subst. change (calls_of (ICall t te last :: il)) with ((t,te) :: calls_of il).
    cbn [flat_map]. rewrite arrows_app, (HQ _ _ _ _ Hq), (IH Hok'). reflexivity.
Qed.

(* ================================================================ 4. blocks are closed; the call arrows are the reference walk *)
Definition wf_module (m:module) : Prop :=
  forall a e ap ep, lookup m a e = Some (ap, ep) -> forallb wf_stmt (ep_body ep) = true.
Definition wf_module_b (m:module) : bool :=
  forallb (fun p => forallb (fun q => forallb wf_stmt (ep_body (snd q))) (app_eps (snd p))) m.
Lemma wf_module_b_ok m : wf_module_b m = true -> wf_module m.
Proof.
  intros H a e ap ep L. unfold lookup in L. destruct (assoc a m) as [ap'|] eqn:Ea; [|discriminate].
  destruct (assoc e (app_eps ap')) as [ep'|] eqn:Ee; [|discriminate]. injection L as -> ->.
  unfold wf_module_b in H. rewrite forallb_forall in H. specialize (H _ (assoc_in _ _ _ Ea)). cbn [snd] in H.
  rewrite forallb_forall in H. apply (H _ (assoc_in _ _ _ Ee)).
Qed.

Lemma ref_calls_eq m bbs f inprog from a e :
  ref_calls m bbs (S f) inprog from a e =
  match lookup m a e with
  | None => []
  | Some (ap, ep) =>
      (if arrow_drawn from ap ep then [Arrow (sender_of from) a e] else [])
      ++ (if is_nil (ep_body ep) || is_cut (assoc2 (a,e) bbs) || existsb (key_eqb (a,e)) inprog then []
          else flat_map (fun c => ref_calls m bbs f ((a,e) :: inprog) (Some a) (fst c) (snd c)) (calls_list (ep_body ep)))
  end.
Proof. reflexivity. Qed.

Section Output.
  Variable V : variant.
  Variable m : module.

  Lemma visit_endpoint_out fuel : forall bbs s from a e caller s',
    visit_endpoint V m fuel bbs s from a e caller = Ok s' ->
    exists evs, ext s s' evs /\ (wf_module m -> balanced evs) /\ arrows evs = ref_calls m bbs fuel (visited s) from a e.
  Proof.
    induction fuel as [|f IH]; intros bbs s from a e caller s' H; [discriminate|].
    rewrite visit_endpoint_eq in H. rewrite ref_calls_eq.
    destruct (lookup m a e) as [[ap ep]|] eqn:L; [|exfalso; eapply lookup_fail_not_ok, H].
    cbv zeta in H.
    destruct (pre_ext s from a e ap ep (is_shown (ret_payload (ep_body ep))) caller) as (q1 & X1 & Q1).
    set (s2 := ve_early _ _ _ _ _) in *.
    set (A := if arrow_drawn from ap ep then [Arrow (sender_of from) a e] else []) in *.
    assert (HA : balanced A) by (subst A; destruct (arrow_drawn from ap ep); intros stk; reflexivity).
    assert (HAa : arrows A = A) by (subst A; destruct (arrow_drawn from ap ep); reflexivity).
    destruct (ep_body ep) as [|x b] eqn:Eb.
    - injection H as <-. exists (A ++ q1). split; [exact X1|]. split.
      + intros _. apply balanced_app; [exact HA|apply balanced_quiet, Q1].
      + rewrite arrows_app, HAa, (arrows_quiet _ Q1). reflexivity.
    - cbn [is_nil orb]. assert (Ev : is_visited s2 a e = existsb (key_eqb (a, e)) (visited s)).
      { unfold is_visited. subst s2. rewrite visited_pre. reflexivity. }
      rewrite <- Ev. destruct (is_cut _ || is_visited s2 a e) eqn:C.
      + injection H as <-. destruct (cut_ext V s2 from a ep (assoc2 (a,e) bbs)) as (q2 & X2 & Q2).
        exists ((A ++ q1) ++ q2). split; [eapply ext_trans; eassumption|]. split.
        * intros _. repeat apply balanced_app; auto using balanced_quiet.
        * rewrite !arrows_app, HAa, (arrows_quiet _ Q1), (arrows_quiet _ Q2), !app_nil_r. reflexivity.
      + match type of H with bind ?r _ = _ => destruct r as [s5| | |] eqn:W; try discriminate end.
        cbn [bind] in H. injection H as <-.
        destruct (activated_ext s2 a (suppr ap)) as (q2 & X2 & Q2).
        destruct (fire_ext s5 (snd (activated s2 a (suppr ap)))) as (q3 & X3 & Q3).
        rewrite walk_flat in W.
        apply (run_trace _ _ (fun s1 => visited s1 = (a,e) :: visited s)
                 (fun t te last c => (wf_module m -> balanced c) /\ arrows c = ref_calls m bbs f ((a,e) :: visited s) (Some a) t te)) in W.
        * destruct W as (ew & Xw & Tw).
          exists ((((A ++ q1) ++ q2) ++ ew) ++ q3). split.
          { eapply ext_trans; [|exact X3]. eapply ext_trans; [|exact Xw]. eapply ext_trans; eassumption. }
          split.
          { intros Hw. repeat apply balanced_app; auto using balanced_quiet.
            intros stk. rewrite (trace_blk _ _ _ (fun t te last c Hq => proj1 Hq Hw) Tw).
            apply balanced_flat_list. rewrite <- Eb. eapply Hw, L. }
          { rewrite !arrows_app, HAa, (arrows_quiet _ Q1), (arrows_quiet _ Q2), (arrows_quiet _ Q3), !app_nil_r.
            f_equal. rewrite <- (calls_flat_list a (sender_of from) (x :: b) true).
            apply (trace_arrows a (sender_of from) _ (fun c => ref_calls m bbs f ((a,e) :: visited s) (Some a) (fst c) (snd c)) _ _
                     (fun t te last c Hq => proj2 Hq) (instrs_ok_list _ _ _ _) Tw). }
        * intros s1 ev H1. exact H1.
        * intros s1 t te last s1' H1 Hc. split; [rewrite (visit_endpoint_visited _ _ _ _ _ _ _ _ _ _ Hc); exact H1|].
          destruct (IH _ _ _ _ _ _ _ Hc) as (c & Xc & Bc & Ac). exists c. rewrite H1 in Ac. auto.
        * unfold push_visited, with_visited. cbn [visited]. rewrite visited_activated. subst s2. rewrite visited_pre. reflexivity.
  Qed.

  (* the reference for a whole run: one reference walk per start entry, under the blackbox map of that entry *)
  Fixpoint ref_entries (fuel:nat) (all:list (id*id)) (bbs:bbmap) (es:list (id*id)) : list event :=
    match es with
    | [] => []
    | (a,e) :: r => let bbs' := mark_others all (a,e) bbs in ref_calls m bbs' fuel [] None a e ++ ref_entries fuel all bbs' r
    end.

  Lemma run_entries_out fuel all : forall es bbs s s',
    run_entries V m fuel all bbs s es = Ok s' ->
    exists evs, ext s s' evs /\ (wf_module m -> forall stk, blk [] evs = Some stk -> stk = []) /\ (wf_module m -> blk [] evs <> None)
                /\ arrows evs = ref_entries fuel all bbs es.
  Proof.
    induction es as [|[a e] r IH]; intros bbs s s' H; cbn [run_entries] in H.
    - injection H as <-. exists []. split; [apply ext_refl|]. repeat split; try discriminate. intros _ stk [= <-]. reflexivity.
    - destruct (lookup m a e); [|discriminate].
      match type of H with bind ?r _ = _ => destruct r as [s1| | |] eqn:W; try discriminate end. cbn [bind] in H.
      apply visit_endpoint_out in W as (c & Xc & Bc & Ac). apply IH in H as (evs & Xe & B1 & B2 & Ae).
      exists (([Section a e] ++ c) ++ evs). split.
      { eapply ext_trans; [|exact Xe]. eapply ext_trans; [apply ext_emit|]. exact Xc. }
      assert (Hb : wf_module m -> blk [] (([Section a e] ++ c) ++ evs) = blk [] evs).
      { intros Hw. rewrite blk_app. cbn [Datatypes.app blk]. rewrite (Bc Hw). reflexivity. }
      repeat split.
      + intros Hw stk. rewrite (Hb Hw). apply B1, Hw.
      + intros Hw. rewrite (Hb Hw). apply B2, Hw.
      + cbn [ref_entries]. rewrite !arrows_app, Ac, Ae. reflexivity.
  Qed.

  (* every opened block is closed (and else only inside alt, section headers only outside any block) *)
  Theorem seq_blocks_closed fuel bbs starts d ev :
    wf_module m -> gen V m fuel bbs starts = Ok (d, ev) -> blocks_closed ev.
  Proof.
    intros Hw H. unfold gen, gen_st in H. destruct (run_entries _ _ _ _ _ _ _) as [s| | |] eqn:R; try discriminate.
    cbn [bind] in H. injection H as _ <-. apply run_entries_out in R as (evs & X & B1 & B2 & _).
    unfold ext in X. cbn [out init Datatypes.app] in X. rewrite X. unfold blocks_closed.
    specialize (B1 Hw). specialize (B2 Hw).
    destruct (blk [] evs) as [stk|]; [rewrite (B1 _ eq_refl); reflexivity|exfalso; apply B2; reflexivity].
  Qed.

  (* the call arrows are exactly the calls reachable from the start(s) in source order, a call in progress (or
     black-boxed) shown but not expanded *)
  Theorem seq_follows_calls fuel bbs starts d ev :
    gen V m fuel bbs starts = Ok (d, ev) -> arrows ev = ref_entries fuel starts (make_bbs bbs) starts.
  Proof.
    intros H. unfold gen, gen_st in H. destruct (run_entries _ _ _ _ _ _ _) as [s| | |] eqn:R; try discriminate.
    cbn [bind] in H. injection H as _ <-. apply run_entries_out in R as (evs & X & _ & _ & A).
    unfold ext in X. cbn [out init Datatypes.app] in X. rewrite X. exact A.
  Qed.
End Output.

(* an alternative without any choice (the parser never produces one; a hand-made protobuf can) writes "end" without
   "alt": the hypothesis wf_module of seq_blocks_closed is needed *)
Definition empty_alt_module : module := [(0%N, {| app_pats := []; app_eps := [(0%N, {| ep_hidden := false; ep_body := [Alt []] |})] |})].
Theorem seq_blocks_closed_refuted_for_empty_alt :
  exists d ev, gen {| v_lookup_panics := false; v_inprog_unguarded := false; v_nil_panics := false |} empty_alt_module (fuel_for empty_alt_module) [] [(0%N,0%N)] = Ok (d, ev)
               /\ blk [] ev = None.
Proof. eexists. eexists. vm_compute. split; reflexivity. Qed.
Example seq_blocks_closed_nonvacuous : wf_module cyclic_module.
Proof. apply wf_module_b_ok. reflexivity. Qed.

(* ================================================================ 5. activations: balanced, never negative; senders active *)
Definition suppressed (m:module) (x:id) : bool := match assoc x m with Some ap => suppr ap | None => false end.

(* the judge: replays activate / deactivate on a counter per participant; a deactivate at zero is an error; with
   strict=true a call arrow whose sender is neither active nor a suppressed (human / cron) participant is an error *)
Fixpoint track (strict:bool) (m:module) (l:list (id*nat)) (evs:list event) : option (list (id*nat)) :=
  match evs with
  | [] => Some l
  | Activate a :: r => track strict m (set a (S (get a l)) l) r
  | Deactivate a :: r => match get a l with O => None | S n => track strict m (set a n l) r end
  | Arrow (P x) _ _ :: r => if strict && negb (suppressed m x || (0 <? get x l)) then None else track strict m l r
  | _ :: r => track strict m l r
  end.

Lemma track_app strict m l x y :
  track strict m l (x ++ y) = match track strict m l x with Some l' => track strict m l' y | None => None end.
Proof.
  revert l. induction x as [|e x IH]; intros l; [reflexivity|].
  destruct e as [| [|p] ? ? | | | | | | | | | |]; cbn [track Datatypes.app]; try apply IH.
  - destruct (strict && _); [reflexivity|apply IH].
  - destruct (get a l); [reflexivity|apply IH].
Qed.

Lemma get_set_same a n l : get a (set a n l) = n.
Proof. induction l as [|[j x] t IH]; cbn [set get]; [rewrite N.eqb_refl; reflexivity|].
  destruct (N.eqb_spec a j) as [->|Hn]; cbn [get]; [rewrite N.eqb_refl; reflexivity|]. destruct (N.eqb_spec a j); [contradiction|exact IH]. Qed.
Lemma get_set_other x a n l : x <> a -> get x (set a n l) = get x l.
Proof. intros Hx. induction l as [|[j y] t IH]; cbn [set get].
  - destruct (N.eqb_spec x a); [contradiction|reflexivity].
  - destruct (N.eqb_spec a j) as [->|Hn]; cbn [get].
    + destruct (N.eqb_spec x j); [contradiction|reflexivity].
    + destruct (N.eqb_spec x j); [reflexivity|exact IH]. Qed.
Lemma get_set x a n l : get x (set a n l) = if N.eqb x a then n else get x l.
Proof. destruct (N.eqb_spec x a) as [->|H]; [apply get_set_same|apply get_set_other, H]. Qed.

(* armed cells per participant *)
Definition armed (x:id) (cs:list (id*bool)) : nat := length (filter (fun c => N.eqb (fst c) x && snd c) cs).
Definition arm (cs:list (id*bool)) (i:nat) (x:id) : Prop := nth_error cs i = Some (x, true).
Lemma armed_app x l1 l2 : armed x (l1 ++ l2) = armed x l1 + armed x l2.
Proof. unfold armed. rewrite filter_app, app_length. reflexivity. Qed.
Lemma disarm_length c l : length (disarm c l) = length l.
Proof. revert c. induction l as [|[y b] t IH]; intros [|c]; cbn [disarm length]; auto. Qed.
Lemma arm_disarm l c i x : arm (disarm c l) i x -> arm l i x /\ i <> c.
Proof.
  unfold arm. revert c i. induction l as [|[y b] t IH]; intros c i; [destruct c; cbn [disarm]; destruct i; discriminate|].
  destruct c as [|c], i as [|i]; cbn [disarm nth_error]; try discriminate; auto.
  intros H. apply IH in H as [H1 H2]. split; [exact H1|congruence].
Qed.
Lemma arm_disarm_other l c i x : arm l i x -> i <> c -> arm (disarm c l) i x.
Proof.
  unfold arm. revert c i. induction l as [|[y b] t IH]; intros c i; [destruct i; discriminate|].
  destruct c as [|c], i as [|i]; cbn [disarm nth_error]; auto; try congruence.
Qed.
Lemma armed_disarm l c y x : arm l c y -> armed x (disarm c l) + (if N.eqb y x then 1 else 0) = armed x l.
Proof.
  unfold arm, armed. revert c. induction l as [|[z b] t IH]; intros c; [destruct c; discriminate|].
  destruct c as [|c]; cbn [disarm nth_error].
  - intros [= -> ->]. cbn [filter fst snd]. rewrite andb_false_r, andb_true_r. destruct (N.eqb y x); cbn [length]; lia.
  - intros H. specialize (IH c H). cbn [filter]. destruct (N.eqb y x); match goal with |- context [if ?c then _ :: _ else _] => destruct c end; cbn [length]; lia.
Qed.
Lemma arm_armed l i x : arm l i x -> 1 <= armed x l.
Proof.
  unfold arm, armed. revert i. induction l as [|[z b] t IH]; intros [|i]; cbn [nth_error]; try discriminate.
  - intros [= -> ->]. cbn [filter fst snd]. rewrite N.eqb_refl. cbn [andb length]. lia.
  - intros H. specialize (IH i H). cbn [filter]. match goal with |- context [if ?c then _ :: _ else _] => destruct c end; cbn [length]; lia.
Qed.
Lemma arm_app_l l1 l2 i x : arm l1 i x -> arm (l1 ++ l2) i x.
Proof. unfold arm. intros H. rewrite nth_error_app1; [exact H|]. apply nth_error_Some. congruence. Qed.
Lemma arm_app_inv l1 y b i x : arm (l1 ++ [(y,b)]) i x -> arm l1 i x \/ (i = length l1 /\ y = x /\ b = true).
Proof.
  unfold arm. intros H. destruct (Nat.lt_ge_cases i (length l1)) as [Hl|Hl].
  - rewrite nth_error_app1 in H by exact Hl. left. exact H.
  - rewrite nth_error_app2 in H by exact Hl. destruct (i - length l1) as [|k] eqn:E; cbn [nth_error] in H.
    + injection H as -> ->. right. repeat split. lia.
    + destruct k; discriminate.
Qed.
Lemma arm_lt l i x : arm l i x -> i < length l.
Proof. unfold arm. intros H. apply nth_error_Some. congruence. Qed.

(* field access through the primitives *)
Lemma active_emit s e : active (emit s e) = active s. Proof. reflexivity. Qed.
Lemma cells_emit s e : cells (emit s e) = cells s. Proof. reflexivity. Qed.
Lemma out_emit s e : out (emit s e) = out s ++ [e]. Proof. reflexivity. Qed.
Lemma cells_activate s a : cells (activate s a) = cells s. Proof. reflexivity. Qed.
Lemma cells_deactivate s a : cells (deactivate s a) = cells s. Proof. unfold deactivate. destruct (get a (active s)); reflexivity. Qed.
Lemma get_activate x s a : get x (active (activate s a)) = if N.eqb x a then S (get a (active s)) else get x (active s).
Proof. unfold activate. cbn [active emit with_active]. apply get_set. Qed.
Lemma get_deactivate x s a : get x (active (deactivate s a)) = if N.eqb x a then pred (get a (active s)) else get x (active s).
Proof.
  unfold deactivate. destruct (get a (active s)) as [|n] eqn:E.
  - destruct (N.eqb_spec x a) as [->|]; [rewrite E; reflexivity|reflexivity].
  - cbn [active emit with_active]. rewrite get_set. reflexivity.
Qed.

Definition strict_of (V:variant) : bool := negb (v_inprog_unguarded V).
Section Activations.
  Variable V : variant.
  Variable m : module.
  Notation strict := (strict_of V).

  Definition Tr (s:st) : Prop := track strict m [] (out s) = Some (active s).
  Definition cmp (n k:nat) : Prop := if strict then n = k else n <= k.
  Definition Cn (s:st) : Prop := forall x, cmp (get x (active s)) (armed x (cells s)).
  Definition sender_ok (s:st) (from:option id) : Prop :=
    strict = true -> match from with Some x => suppressed m x = true \/ 0 < get x (active s) | None => True end.

  Definition neutral (e:event) : bool :=
    match e with Activate _ | Deactivate _ | Arrow (P _) _ _ => false | _ => true end.

  Lemma Tr_emit s e : neutral e = true -> Tr s -> Tr (emit s e).
  Proof.
    unfold Tr. intros He H. rewrite out_emit, track_app, H, active_emit.
    destruct e as [| [|p] ? ? | | | | | | | | | |]; try discriminate; reflexivity.
  Qed.
  Lemma Tr_arrow s from a e : sender_ok s from -> Tr s -> Tr (emit s (Arrow (sender_of from) a e)).
  Proof.
    unfold Tr, sender_ok. intros Hs H. rewrite out_emit, track_app, H, active_emit.
    destruct from as [x|]; cbn [sender_of track]; [|reflexivity].
    destruct strict; cbn [andb]; [|reflexivity]. destruct (Hs eq_refl) as [-> | Hp]; [reflexivity|].
    apply Nat.ltb_lt in Hp. rewrite Hp, orb_true_r. reflexivity.
  Qed.
  Lemma Tr_activate s a : Tr s -> Tr (activate s a).
  Proof. unfold Tr, activate. intros H. rewrite out_emit. cbn [out with_active active emit]. rewrite track_app, H. reflexivity. Qed.
  Lemma Tr_deactivate s a : Tr s -> Tr (deactivate s a).
  Proof.
    unfold Tr, deactivate. intros H. destruct (get a (active s)) as [|n] eqn:E; [exact H|].
    rewrite out_emit. cbn [out with_active active emit]. rewrite track_app, H. cbn [track]. rewrite E. reflexivity.
  Qed.
  Lemma Tr_same s s' : out s' = out s -> active s' = active s -> Tr s -> Tr s'.
  Proof. unfold Tr. intros -> ->. auto. Qed.

  Lemma Tr_fire s c : Tr s -> Tr (fire s c).
  Proof.
    intros H. unfold fire. destruct (nth_error (cells s) c) as [[y [|]]|]; try exact H.
    apply Tr_deactivate. eapply Tr_same; [| |exact H]; reflexivity.
  Qed.
  Lemma Tr_activated s a b : Tr s -> Tr (fst (activated s a b)).
  Proof.
    intros H. unfold activated. cbn [fst]. destruct b.
    - eapply Tr_same; [| |exact H]; reflexivity.
    - eapply Tr_same; [| |apply (Tr_activate s a H)]; reflexivity.
  Qed.
  Lemma Tr_reg s from a : Tr s -> Tr (ve_reg s from a).
  Proof. intros H. eapply Tr_same; [| |exact H]; unfold ve_reg, uniq_var; brk_goal; reflexivity. Qed.
  Lemma Tr_cut s from a ep up : Tr s -> Tr (ve_cut V s from a ep up).
  Proof.
    intros H. unfold ve_cut. cbv zeta.
    destruct up as [u|]; destruct (is_shown _); destruct (ep_hidden ep); try destruct (u_comment u); destruct (v_inprog_unguarded V);
      cbn [is_some orb]; repeat first [exact H | apply Tr_deactivate | apply Tr_activate | apply Tr_emit; [reflexivity|]].
  Qed.
  (* counters against armed cells *)
  Lemma armed_single x a b : armed x [(a,b)] = if N.eqb a x && b then 1 else 0.
  Proof. unfold armed. cbn [filter fst snd]. destruct (N.eqb a x && b); reflexivity. Qed.
  Lemma Cn_fire s c : Cn s -> Cn (fire s c).
  Proof.
    intros H. unfold fire. destruct (nth_error (cells s) c) as [[y [|]]|] eqn:E; try exact H.
    intros x. rewrite get_deactivate, cells_deactivate. cbn [cells with_cells active].
    pose proof (armed_disarm (cells s) c y x E) as Hd. pose proof (arm_armed _ _ _ E) as H1.
    destruct (N.eqb_spec x y) as [->|Hn].
    - rewrite N.eqb_refl in Hd. specialize (H y). unfold cmp in *. destruct strict; lia.
    - destruct (N.eqb_spec y x) as [->|_]; [contradiction|]. specialize (H x). unfold cmp in *. destruct strict; lia.
  Qed.
  Lemma cells_activated s a b : cells (fst (activated s a b)) = cells s ++ [(a, negb b)].
  Proof. unfold activated. destruct b; reflexivity. Qed.
  Lemma snd_activated s a b : snd (activated s a b) = length (cells s).
  Proof. unfold activated. destruct b; reflexivity. Qed.
  Lemma Cn_activated s a b : Cn s -> Cn (fst (activated s a b)).
  Proof.
    intros H x. rewrite cells_activated, armed_app, armed_single. specialize (H x). unfold activated. cbn [fst]. destruct b; cbn [negb].
    - rewrite andb_false_r. cbn [active with_cells]. unfold cmp in *. destruct strict; lia.
    - rewrite andb_true_r. change (active (with_cells (activate s a) (cells (activate s a) ++ [(a, true)]))) with (active (activate s a)).
      rewrite get_activate. rewrite (N.eqb_sym a x). destruct (N.eqb_spec x a) as [->|_]; unfold cmp in *; destruct strict; lia.
  Qed.
  Lemma cells_cut s from a ep up : cells (ve_cut V s from a ep up) = cells s.
  Proof.
    unfold ve_cut. cbv zeta. destruct up as [u|]; destruct (is_shown _); destruct (ep_hidden ep); try destruct (u_comment u); destruct (v_inprog_unguarded V);
      cbn [is_some orb]; rewrite ?cells_deactivate, ?cells_emit, ?cells_activate; reflexivity.
  Qed.
  Lemma get_cut s from a ep up x :
    get x (active (ve_cut V s from a ep up)) <= get x (active s)
    /\ (v_inprog_unguarded V = false -> get x (active (ve_cut V s from a ep up)) = get x (active s)).
  Proof.
    unfold ve_cut. cbv zeta. destruct up as [u|]; destruct (is_shown _); destruct (ep_hidden ep); try destruct (u_comment u); destruct (v_inprog_unguarded V);
      cbn [is_some orb]; rewrite ?get_deactivate, ?active_emit, ?get_activate, ?N.eqb_refl;
      destruct (N.eqb_spec x a) as [->|?]; cbn [pred]; split; try (intros; discriminate); try (intros; reflexivity); try lia.
  Qed.
  Lemma Cn_cut s from a ep up : Cn s -> Cn (ve_cut V s from a ep up).
  Proof.
    intros H x. rewrite cells_cut. specialize (H x). destruct (get_cut s from a ep up x) as [H1 H2].
    unfold cmp, strict_of in *. destruct (v_inprog_unguarded V); cbn [negb] in *; [lia|rewrite H2; auto].
  Qed.
  Lemma Cn_same s s' : active s' = active s -> cells s' = cells s -> Cn s -> Cn s'.
  Proof. unfold Cn. intros -> ->. auto. Qed.

  (* which cells are armed *)
  Definition R1 (s s':st) : Prop := forall i x, arm (cells s') i x -> arm (cells s) i x.
  Definition R2 (caller:option (nat*bool)) (s s':st) : Prop := forall i x, arm (cells s) i x -> caller = Some (i, true) \/ arm (cells s') i x.
  Lemma cells_fire_cases s c : cells (fire s c) = cells s \/ cells (fire s c) = disarm c (cells s).
  Proof. unfold fire. destruct (nth_error (cells s) c) as [[y [|]]|]; auto. right. rewrite cells_deactivate. reflexivity. Qed.
  Lemma R1_fire s c : R1 s (fire s c).
  Proof. intros i x H. destruct (cells_fire_cases s c) as [E|E]; rewrite E in H; [exact H|apply arm_disarm in H as [H _]; exact H]. Qed.
  Lemma keep_fire s c i x : arm (cells s) i x -> i = c \/ arm (cells (fire s c)) i x.
  Proof.
    intros H. destruct (Nat.eq_dec i c) as [->|Hn]; [left; reflexivity|right].
    destruct (cells_fire_cases s c) as [E|E]; rewrite E; [exact H|apply arm_disarm_other; assumption].
  Qed.
  Lemma fire_disarms s c x : ~ arm (cells (fire s c)) c x.
  Proof.
    unfold fire. destruct (nth_error (cells s) c) as [[y [|]]|] eqn:E.
    - rewrite cells_deactivate. cbn [cells with_cells]. intros H. apply arm_disarm in H as [_ H]. congruence.
    - unfold arm. rewrite E. congruence.
    - unfold arm. rewrite E. congruence.
  Qed.

  Notation pre s from a e ap ep caller :=
    (ve_early (ve_arrow (ve_reg s from a) from a e ap ep) from a (is_shown (ret_payload (ep_body ep))) caller).
  Lemma cells_arrow s from a e ap ep : cells (ve_arrow (ve_reg s from a) from a e ap ep) = cells s.
  Proof. prim_field. Qed.
  Lemma active_arrow s from a e ap ep : active (ve_arrow (ve_reg s from a) from a e ap ep) = active s.
  Proof. prim_field. Qed.
  Lemma early_cases s from a sh caller :
    ve_early s from a sh caller = s \/ exists c, caller = Some (c, true) /\ ve_early s from a sh caller = fire s c.
  Proof. unfold ve_early. destruct caller as [[c [|]]|]; auto. destruct (_ && _); eauto. Qed.
  Lemma pre_Tr s from a e ap ep caller : Tr s -> sender_ok s from -> Tr (pre s from a e ap ep caller).
  Proof.
    intros H Hs.
    assert (H1 : Tr (ve_arrow (ve_reg s from a) from a e ap ep)).
    { unfold ve_arrow. destruct (arrow_drawn from ap ep); [|apply Tr_reg, H]. apply Tr_arrow; [|apply Tr_reg, H].
      unfold sender_ok in *. replace (active (ve_reg s from a)) with (active s); [exact Hs|]. unfold ve_reg, uniq_var. brk_goal; reflexivity. }
    destruct (early_cases (ve_arrow (ve_reg s from a) from a e ap ep) from a (is_shown (ret_payload (ep_body ep))) caller) as [->|(c & _ & ->)];
      [exact H1|apply Tr_fire, H1].
  Qed.
  Lemma pre_Cn s from a e ap ep caller : Cn s -> Cn (pre s from a e ap ep caller).
  Proof.
    intros H.
    assert (H1 : Cn (ve_arrow (ve_reg s from a) from a e ap ep)) by (eapply Cn_same; [apply active_arrow|apply cells_arrow|exact H]).
    destruct (early_cases (ve_arrow (ve_reg s from a) from a e ap ep) from a (is_shown (ret_payload (ep_body ep))) caller) as [->|(c & _ & ->)];
      [exact H1|apply Cn_fire, H1].
  Qed.
  Lemma pre_R1 s from a e ap ep caller : R1 s (pre s from a e ap ep caller).
  Proof.
    intros i x H. rewrite <- (cells_arrow s from a e ap ep).
    destruct (early_cases (ve_arrow (ve_reg s from a) from a e ap ep) from a (is_shown (ret_payload (ep_body ep))) caller) as [E|(c & _ & E)];
      rewrite E in H; [exact H|eapply R1_fire, H].
  Qed.
  Lemma pre_R2 s from a e ap ep caller : R2 caller s (pre s from a e ap ep caller).
  Proof.
    intros i x H. rewrite <- (cells_arrow s from a e ap ep) in H.
    destruct (early_cases (ve_arrow (ve_reg s from a) from a e ap ep) from a (is_shown (ret_payload (ep_body ep))) caller) as [E|(c & Ec & E)];
      rewrite E; [right; exact H|]. destruct (keep_fire _ c _ _ H) as [->|H']; [left; exact Ec|right; exact H'].
  Qed.

  Lemma walk_ev_neutral a sndr e : walk_ev a sndr e -> neutral e = true.
  Proof. destruct e; cbn; try contradiction; reflexivity. Qed.

  (* the body of one expansion: own cell n (agent a, armed unless a is suppressed) *)
  Lemma run_act call np a sndr n b :
    (forall s t te last s', call s t te last = Ok s' -> Tr s -> Cn s -> sender_ok s (Some a) ->
                            Tr s' /\ Cn s' /\ R1 s s' /\ R2 (Some (n, last)) s s') ->
    (b = true -> suppressed m a = true) ->
    forall il, flag_ok il = true -> Forall (instr_ok a sndr) il ->
    forall s1 s1', Tr s1 -> Cn s1 -> (forallb is_emit il = false -> b = false -> arm (cells s1) n a) ->
      run call np il s1 = Ok s1' ->
      Tr s1' /\ Cn s1' /\ R1 s1 s1' /\ (forall i x, i <> n -> arm (cells s1) i x -> arm (cells s1') i x).
  Proof.
    intros IHc Hsup. induction il as [|ins r IH]; intros Hf Hok s1 s1' HT HC Harm H; cbn [run] in H.
    - injection H as <-. repeat split; auto. intros i x Hx; exact Hx.
    - inversion Hok as [|? ? Hi Hok']; subst. destruct ins as [ev|t te last|]; [| |destruct np; discriminate].
      + cbn [flag_ok] in Hf.
        destruct (IH Hf Hok' (emit s1 ev) s1' (Tr_emit _ _ (walk_ev_neutral _ _ _ Hi) HT) (Cn_same _ _ eq_refl eq_refl HC) Harm H) as (T' & C' & R' & K').
        repeat split; auto.
      + destruct (call s1 t te last) as [s2| | |] eqn:E; try discriminate. cbn [bind] in H.
        assert (Hs : sender_ok s1 (Some a)).
        { intros Hst. destruct b eqn:Eb; [left; apply Hsup; reflexivity|right].
          specialize (Harm eq_refl eq_refl). apply arm_armed in Harm. specialize (HC a). unfold cmp in HC. rewrite Hst in HC. lia. }
        destruct (IHc _ _ _ _ _ E HT HC Hs) as (T2 & C2 & R12 & R22).
        assert (Hr : flag_ok r = true) by (destruct last; [apply unflagged_flag_ok; cbn [flag_ok] in Hf; unfold unflagged; rewrite forallb_forall in *; intros i0 Hi0; specialize (Hf i0 Hi0); destruct i0; [reflexivity|discriminate|reflexivity]|exact Hf]).
        assert (Harm2 : forallb is_emit r = false -> b = false -> arm (cells s2) n a).
        { intros Hne Hb. destruct last; [cbn [flag_ok] in Hf; congruence|].
          destruct (R22 _ _ (Harm eq_refl Hb)) as [Hc|Hc]; [discriminate|exact Hc]. }
        destruct (IH Hr Hok' s2 s1' T2 C2 Harm2 H) as (T' & C' & R' & K').
        repeat split; auto.
        * intros i x Hx. apply R12, R', Hx.
        * intros i x Hn Hx. apply K'; [exact Hn|]. destruct (R22 _ _ Hx) as [Hc|Hc]; [congruence|exact Hc].
  Qed.

  Lemma lookup_suppressed a e ap ep : lookup m a e = Some (ap, ep) -> suppressed m a = suppr ap.
  Proof.
    unfold lookup, suppressed. destruct (assoc a m) as [ap'|]; [|discriminate].
    destruct (assoc e (app_eps ap')); [|discriminate]. intros [= -> _]. reflexivity.
  Qed.

  Lemma visit_endpoint_act fuel : forall bbs s from a e caller s',
    visit_endpoint V m fuel bbs s from a e caller = Ok s' -> Tr s -> Cn s -> sender_ok s from ->
    Tr s' /\ Cn s' /\ R1 s s' /\ R2 caller s s'.
  Proof.
    induction fuel as [|f IH]; intros bbs s from a e caller s' H HT HC HS; [discriminate|].
    rewrite visit_endpoint_eq in H. destruct (lookup m a e) as [[ap ep]|] eqn:L; [|exfalso; eapply lookup_fail_not_ok, H].
    cbv zeta in H.
    pose proof (pre_Tr s from a e ap ep caller HT HS) as T2. pose proof (pre_Cn s from a e ap ep caller HC) as C2.
    pose proof (pre_R1 s from a e ap ep caller) as R12. pose proof (pre_R2 s from a e ap ep caller) as R22.
    set (s2 := ve_early _ _ _ _ _) in *.
    destruct (ep_body ep) as [|x0 b0] eqn:Eb.
    - injection H as <-. auto.
    - destruct (_ || _) in H.
      + injection H as <-. repeat split.
        * apply Tr_cut, T2.
        * apply Cn_cut, C2.
        * intros i x Hx. rewrite cells_cut in Hx. apply R12, Hx.
        * intros i x Hx. rewrite cells_cut. apply R22, Hx.
      + rewrite !snd_activated in H. set (n := length (cells s2)) in *.
        match type of H with bind ?r _ = _ => destruct r as [s5| | |] eqn:W; try discriminate end.
        cbn [bind] in H. injection H as <-.
        rewrite walk_flat in W. set (bsup := suppr ap) in *. set (s3 := fst (activated s2 a bsup)) in *.
        assert (E3 : cells s3 = cells s2 ++ [(a, negb bsup)]) by apply cells_activated.
        apply (run_act _ _ a (sender_of from) n bsup) in W.
        * destruct W as (T5 & C5 & R45 & K45). change (cells (push_visited s3 a e)) with (cells s3) in *.
          repeat split.
          -- eapply Tr_same; [| |apply (Tr_fire s5 n T5)]; reflexivity.
          -- eapply Cn_same; [| |apply (Cn_fire s5 n C5)]; reflexivity.
          -- intros i x Hx. change (cells (pop_visited (fire s5 n) a e)) with (cells (fire s5 n)) in Hx.
             assert (Hn : i <> n) by (intros ->; eapply fire_disarms, Hx).
             apply R1_fire, R45 in Hx. change (cells (push_visited s3 a e)) with (cells s3) in Hx. rewrite E3 in Hx. apply arm_app_inv in Hx as [Hx|(Hi & _)]; [apply R12, Hx|contradiction].
          -- intros i x Hx. destruct (R22 _ _ Hx) as [Hc|Hx2]; [left; exact Hc|right].
             change (cells (pop_visited (fire s5 n) a e)) with (cells (fire s5 n)).
             assert (Hn : i <> n) by (apply arm_lt in Hx2; unfold n; lia).
             destruct (keep_fire s5 n i x) as [Hc|Hc]; [|contradiction|exact Hc].
             apply K45; [exact Hn|]. rewrite E3. apply arm_app_l, Hx2.
        * intros s1 t te last s1' Hc. eapply IH, Hc.
        * intros Hb. rewrite (lookup_suppressed _ _ _ _ L). exact Hb.
        * apply flag_ok_list.
        * apply instrs_ok_list.
        * eapply Tr_same; [| |apply (Tr_activated s2 a bsup T2)]; reflexivity.
        * eapply Cn_same; [| |apply (Cn_activated s2 a bsup C2)]; reflexivity.
        * intros _ Hb. change (cells (push_visited s3 a e)) with (cells s3). rewrite E3, Hb. unfold arm, n.
          rewrite nth_error_app2, Nat.sub_diag by lia. reflexivity.
  Qed.

  Lemma run_entries_act fuel all : forall es bbs s s',
    run_entries V m fuel all bbs s es = Ok s' -> Tr s -> Cn s -> Tr s' /\ Cn s' /\ R1 s s'.
  Proof.
    induction es as [|[a e] r IH]; intros bbs s s' H HT HC; cbn [run_entries] in H.
    - injection H as <-. repeat split; auto. intros i x Hx; exact Hx.
    - destruct (lookup m a e); [|discriminate].
      match type of H with bind ?r _ = _ => destruct r as [s1| | |] eqn:W; try discriminate end. cbn [bind] in H.
      apply visit_endpoint_act in W as (T1 & C1 & R1' & _).
      + destruct (IH _ _ _ H T1 C1) as (T' & C' & R'). repeat split; auto. intros i x Hx. apply R1', R', Hx.
      + eapply Tr_same; [| |apply (Tr_emit s (Section a e) eq_refl HT)]; reflexivity.
      + eapply Cn_same; [| |exact HC]; reflexivity.
      + intros _. exact I.
  Qed.

  Lemma no_arm_armed l x : (forall i y, ~ arm l i y) -> armed x l = 0.
  Proof.
    unfold arm, armed. induction l as [|[z b] t IH]; intros H; [reflexivity|]. cbn [filter fst snd].
    destruct b.
    - exfalso. apply (H 0 z). reflexivity.
    - rewrite andb_false_r. apply IH. intros i y Hy. apply (H (S i) y). exact Hy.
  Qed.

  (* the judge accepts the whole body, and every counter is back at zero *)
  Theorem seq_activations fuel bbs starts d ev :
    gen V m fuel bbs starts = Ok (d, ev) -> exists l, track strict m [] ev = Some l /\ forall x, get x l = 0.
  Proof.
    intros H. unfold gen, gen_st in H. destruct (run_entries _ _ _ _ _ _ _) as [s| | |] eqn:R; try discriminate.
    cbn [bind] in H. injection H as _ <-.
    apply run_entries_act in R as (T & C & R1').
    - exists (active s). split; [exact T|]. intros x. specialize (C x).
      rewrite (no_arm_armed (cells s) x) in C.
      + unfold cmp in C. destruct strict; lia.
      + intros i y Hy. apply R1' in Hy. unfold arm in Hy. cbn [cells init] in Hy. destruct i; discriminate.
    - reflexivity.
    - intros x. unfold cmp. cbn. destruct strict; reflexivity.
  Qed.
End Activations.

(* ---- the same, said with counts ---- *)
Definition n_act (x:id) (evs:list event) : nat := length (filter (fun e => match e with Activate a => N.eqb a x | _ => false end) evs).
Definition n_deact (x:id) (evs:list event) : nat := length (filter (fun e => match e with Deactivate a => N.eqb a x | _ => false end) evs).

Lemma track_counts strict m evs : forall l0 l, track strict m l0 evs = Some l -> forall x, get x l + n_deact x evs = get x l0 + n_act x evs.
Proof.
  unfold n_act, n_deact. induction evs as [|e r IH]; intros l0 l H x; cbn [track] in H; [injection H as <-; cbn; lia|].
  destruct e as [| [|p] ? ? | | | | | | | | | |]; cbn [filter]; try (apply IH, H).
  - destruct (strict && _); [discriminate|apply IH, H].
  - specialize (IH _ _ H x). rewrite get_set in IH. rewrite (N.eqb_sym a x). destruct (N.eqb_spec x a) as [Hxa|Hxa]; [subst a|]; cbn [length]; lia.
  - destruct (get a l0) as [|n] eqn:E; [discriminate|]. specialize (IH _ _ H x). rewrite get_set in IH. rewrite (N.eqb_sym a x).
    destruct (N.eqb_spec x a) as [Hxa|Hxa]; [subst a|]; cbn [length]; lia.
Qed.

(* per participant: as many deactivations as activations, and never more deactivations than activations so far *)
Theorem seq_balanced V m fuel bbs starts d ev :
  gen V m fuel bbs starts = Ok (d, ev) ->
  forall x, n_act x ev = n_deact x ev /\ forall pre post, ev = pre ++ post -> n_deact x pre <= n_act x pre.
Proof.
  intros H x. destruct (seq_activations V m _ _ _ _ _ H) as (l & T & Z). split.
  - pose proof (track_counts _ _ _ _ _ T x) as Hc. rewrite Z in Hc. cbn [get] in Hc. lia.
  - intros pre post ->. rewrite track_app in T. destruct (track _ m [] pre) as [l1|] eqn:T1; [|discriminate].
    pose proof (track_counts _ _ _ _ _ T1 x) as Hc. cbn [get] in Hc. lia.
Qed.

(* once the in-progress branch deactivates only what it activated: a participant draws a call arrow only while it
   is active (or is a human / cron participant, which the generator never activates) *)
Theorem seq_sender_active V m fuel bbs starts d ev :
  v_inprog_unguarded V = false -> gen V m fuel bbs starts = Ok (d, ev) ->
  forall pre x t e post, ev = pre ++ Arrow (P x) t e :: post -> suppressed m x = true \/ n_deact x pre < n_act x pre.
Proof.
  intros HV H pre x t e post ->. destruct (seq_activations V m _ _ _ _ _ H) as (l & T & _).
  unfold strict_of in T. rewrite HV in T. cbn [negb] in T.
  rewrite track_app in T. destruct (track true m [] pre) as [l1|] eqn:T1; [|discriminate].
  cbn [track andb] in T. destruct (suppressed m x) eqn:S; [left; reflexivity|right].
  cbn [orb] in T. destruct (0 <? get x l1) eqn:G; [|discriminate]. apply Nat.ltb_lt in G.
  pose proof (track_counts _ _ _ _ _ T1 x) as Hc. cbn [get] in Hc. lia.
Qed.

(* today's source: the in-progress branch deactivates a participant it never activated, and that participant then
   sends a call while inactive (DESIGN 5 C13: A.E0 = {B<-E0; C<-E0; return shown}, B.E0 = {A<-E0}) *)
Definition inprog_module : module :=
  [(0%N, {| app_pats := []; app_eps := [(0%N, {| ep_hidden := false; ep_body := [Call 1%N 0%N; Call 2%N 0%N; Ret RetShown] |})] |});
   (1%N, {| app_pats := []; app_eps := [(0%N, {| ep_hidden := false; ep_body := [Call 0%N 0%N; Action] |})] |});
   (2%N, {| app_pats := []; app_eps := [(0%N, {| ep_hidden := false; ep_body := [Action] |})] |})].
Theorem seq_sender_active_refuted_when_unguarded :
  exists d ev pre t e post,
    gen {| v_lookup_panics := false; v_inprog_unguarded := true; v_nil_panics := false |} inprog_module (fuel_for inprog_module) [] [(0%N,0%N)] = Ok (d, ev)
    /\ ev = pre ++ Arrow (P 0%N) t e :: post /\ suppressed inprog_module 0%N = false /\ n_act 0%N pre = n_deact 0%N pre.
Proof.
  eexists. eexists.
  exists [Section 0%N 0%N; Arrow World 0%N 0%N; Activate 0%N; Arrow (P 0%N) 1%N 0%N; Activate 1%N; Arrow (P 1%N) 0%N 0%N;
          Return (P 1%N) 0%N; Deactivate 0%N; Self 1%N; Deactivate 1%N].
  eexists. eexists. eexists. vm_compute. repeat split; reflexivity.
Qed.
Example seq_sender_active_nonvacuous :
  exists d ev, gen {| v_lookup_panics := false; v_inprog_unguarded := false; v_nil_panics := false |} inprog_module (fuel_for inprog_module) [] [(0%N,0%N)] = Ok (d, ev)
               /\ n_act 0%N ev = 1 /\ length (arrows ev) = 4.
Proof. eexists. eexists. vm_compute. repeat split; reflexivity. Qed.

(* ================================================================ 6. every participant used is declared exactly once *)
Definition part_ids (p:part) : list id := match p with World => [] | P a => [a] end.
Definition ev_parts (e:event) : list id :=
  match e with
  | Arrow s t _ | Return s t => part_ids s ++ [t]
  | Self a | Activate a | Deactivate a | NoteOver a => [a]
  | _ => []
  end.
Definition parts (evs:list event) : list id := flat_map ev_parts evs.

Definition Dc (s:st) : Prop :=
  NoDup (syms s) /\ (forall x, In x (parts (out s)) -> In x (syms s)) /\ (forall y b, In (y,b) (cells s) -> In y (syms s)).

Lemma NoDup_snoc {A} (l:list A) x : NoDup l -> ~ In x l -> NoDup (l ++ [x]).
Proof.
  induction 1 as [|y l Hy Hl IH]; intros Hx; cbn [Datatypes.app]; [constructor; [intros []|constructor]|].
  constructor.
  - intros Hin. apply in_app_or in Hin as [Hin|[->|[]]]; [contradiction|apply Hx; left; reflexivity].
  - apply IH. intros Hin. apply Hx. right. exact Hin.
Qed.

Lemma syms_fire s c : syms (fire s c) = syms s. Proof. prim_field. Qed.
Lemma syms_cut V s from a ep up : syms (ve_cut V s from a ep up) = syms s. Proof. prim_field. Qed.
Lemma syms_activated s a b : syms (fst (activated s a b)) = syms s. Proof. prim_field. Qed.
Lemma syms_deactivate s a : syms (deactivate s a) = syms s. Proof. prim_field. Qed.

Lemma Dc_emit s e : (forall x, In x (ev_parts e) -> In x (syms s)) -> Dc s -> Dc (emit s e).
Proof.
  intros He (H1 & H2 & H3). repeat split; [exact H1| |exact H3].
  intros x Hx. cbn [out emit syms] in *. unfold parts in Hx. rewrite flat_map_app in Hx. apply in_app_or in Hx as [Hx|Hx]; [apply H2, Hx|].
  cbn [flat_map] in Hx. rewrite app_nil_r in Hx. apply He, Hx.
Qed.
Lemma Dc_same s s' : syms s' = syms s -> out s' = out s -> cells s' = cells s -> Dc s -> Dc s'.
Proof. unfold Dc. intros -> -> ->. auto. Qed.
Lemma Dc_uniq s x : Dc s -> Dc (uniq_var s x) /\ In x (syms (uniq_var s x)) /\ incl (syms s) (syms (uniq_var s x)).
Proof.
  intros (H1 & H2 & H3). unfold uniq_var. destruct (existsb (N.eqb x) (syms s)) eqn:E.
  - repeat split; auto; [|intros y Hy; exact Hy]. apply existsb_exists in E as (y & Hy & Ey). apply N.eqb_eq in Ey. subst y. exact Hy.
  - cbn [syms with_syms out cells]. repeat split.
    + apply NoDup_snoc; [exact H1|]. intros Hin. assert (existsb (N.eqb x) (syms s) = true); [|congruence].
      apply existsb_exists. exists x. split; [exact Hin|apply N.eqb_refl].
    + intros y Hy. apply in_or_app. left. apply H2, Hy.
    + intros y b Hy. apply in_or_app. left. eapply H3, Hy.
    + apply in_or_app. right. left. reflexivity.
    + intros y Hy. apply in_or_app. left. exact Hy.
Qed.
Lemma Dc_activate s a : In a (syms s) -> Dc s -> Dc (activate s a).
Proof.
  intros Ha H. unfold activate. apply Dc_emit; [intros x [<-|[]]; exact Ha|]. eapply Dc_same; [| | |exact H]; reflexivity.
Qed.
Lemma Dc_deactivate s a : In a (syms s) -> Dc s -> Dc (deactivate s a).
Proof.
  intros Ha H. unfold deactivate. destruct (get a (active s)); [exact H|].
  apply Dc_emit; [intros x [<-|[]]; exact Ha|]. eapply Dc_same; [| | |exact H]; reflexivity.
Qed.
Lemma in_disarm c l y b : In (y,b) (disarm c l) -> exists b', In (y,b') l.
Proof.
  revert c. induction l as [|[z b0] t IH]; intros c; [destruct c; intros []|].
  destruct c as [|c]; cbn [disarm].
  - intros [E|H]; [injection E as E1 E2; subst; exists b0; left; reflexivity|exists b; right; exact H].
  - intros [E|H]; [injection E as E1 E2; subst; exists b; left; reflexivity|]. destruct (IH _ H) as (b' & Hb). exists b'. right. exact Hb.
Qed.
Lemma Dc_fire s c : Dc s -> Dc (fire s c).
Proof.
  intros H. unfold fire. destruct (nth_error (cells s) c) as [[y [|]]|] eqn:E; try exact H.
  assert (Hy : In y (syms s)) by (destruct H as (_ & _ & H3); eapply H3, nth_error_In, E).
  apply Dc_deactivate; [exact Hy|]. destruct H as (H1 & H2 & H3). repeat split; auto.
  intros z b Hz. cbn [cells with_cells] in Hz. apply in_disarm in Hz as (b' & Hz). eapply H3, Hz.
Qed.
Lemma Dc_activated s a b : In a (syms s) -> Dc s -> Dc (fst (activated s a b)).
Proof.
  intros Ha H. unfold activated. cbn [fst].
  assert (H' : Dc (if b then s else activate s a)) by (destruct b; [exact H|apply Dc_activate; assumption]).
  assert (Hs : syms (if b then s else activate s a) = syms s) by (destruct b; reflexivity).
  destruct H' as (H1 & H2 & H3). repeat split; auto. intros y b' Hy. cbn [cells with_cells] in Hy.
  apply in_app_or in Hy as [Hy|[[= <- _]|[]]]; [eapply H3, Hy|]. cbn [syms with_cells]. rewrite Hs. exact Ha.
Qed.
Definition sender_in (s:st) (from:option id) : Prop := match from with Some x => In x (syms s) | None => True end.
Lemma part_sender_in s from x : sender_in s from -> In x (part_ids (sender_of from)) -> In x (syms s).
Proof. destruct from as [y|]; cbn; [intros H [<-|[]]; exact H|intros _ []]. Qed.
Lemma Dc_cut V s from a ep up : In a (syms s) -> sender_in s from -> Dc s -> Dc (ve_cut V s from a ep up).
Proof.
  intros Ha Hf H. unfold ve_cut. cbv zeta.
  assert (Hr : forall s1, syms s1 = syms s -> Dc s1 -> Dc (emit s1 (Return (sender_of from) a))).
  { intros s1 E1 D1. apply Dc_emit; [|exact D1]. intros x Hx. rewrite E1. cbn [ev_parts] in Hx.
    apply in_app_or in Hx as [Hx|[<-|[]]]; [eapply part_sender_in; eassumption|exact Ha]. }
  assert (Hn : forall s1, syms s1 = syms s -> Dc s1 -> Dc (emit s1 (NoteOver a))).
  { intros s1 E1 D1. apply Dc_emit; [|exact D1]. intros x [<-|[]]. rewrite E1. exact Ha. }
  destruct up as [u|]; destruct (is_shown _); destruct (ep_hidden ep); try destruct (u_comment u); destruct (v_inprog_unguarded V);
    cbn [is_some orb];
    repeat first [exact H | apply Dc_deactivate; [exact Ha|] | apply Hr; [reflexivity|] | apply Hn; [reflexivity|]
                 | apply Dc_activate; [exact Ha|] | apply Dc_emit; [intros ? []|] ].
Qed.

Section Declared.
  Variable V : variant.
  Variable m : module.

  Lemma pre_Dc s from a e ap ep sh caller : Dc s ->
    let s2 := ve_early (ve_arrow (ve_reg s from a) from a e ap ep) from a sh caller in
    Dc s2 /\ In a (syms s2) /\ sender_in s2 from /\ incl (syms s) (syms s2).
  Proof.
    intros H. cbv zeta.
    assert (H0 : Dc (ve_reg s from a) /\ In a (syms (ve_reg s from a)) /\ sender_in (ve_reg s from a) from /\ incl (syms s) (syms (ve_reg s from a))).
    { unfold ve_reg. destruct from as [x|]; cbn [sender_in].
      - destruct (Dc_uniq s x H) as (D1 & I1 & M1). destruct (Dc_uniq _ a D1) as (D2 & I2 & M2).
        split; [exact D2|]. split; [exact I2|]. split; [apply M2, I1|intros y Hy; apply M2, M1, Hy].
      - destruct (Dc_uniq s a H) as (D2 & I2 & M2). auto. }
    destruct H0 as (D0 & I0 & S0 & M0).
    assert (H1 : Dc (ve_arrow (ve_reg s from a) from a e ap ep) /\ syms (ve_arrow (ve_reg s from a) from a e ap ep) = syms (ve_reg s from a)).
    { unfold ve_arrow. destruct (arrow_drawn from ap ep); [|auto]. split; [|reflexivity]. apply Dc_emit; [|exact D0].
      intros x Hx. cbn [ev_parts] in Hx. apply in_app_or in Hx as [Hx|[<-|[]]]; [eapply part_sender_in; eassumption|exact I0]. }
    destruct H1 as (D1 & E1).
    destruct (early_cases (ve_arrow (ve_reg s from a) from a e ap ep) from a sh caller) as [->|(c & _ & ->)].
    - unfold sender_in in *. rewrite E1. destruct from; auto.
    - unfold sender_in in *. rewrite syms_fire, E1. split; [apply Dc_fire, D1|destruct from; auto].
  Qed.

  Lemma visit_endpoint_decl fuel : forall bbs s from a e caller s',
    visit_endpoint V m fuel bbs s from a e caller = Ok s' -> Dc s -> Dc s' /\ incl (syms s) (syms s').
  Proof.
    induction fuel as [|f IH]; intros bbs s from a e caller s' H HD; [discriminate|].
    rewrite visit_endpoint_eq in H. destruct (lookup m a e) as [[ap ep]|] eqn:L; [|exfalso; eapply lookup_fail_not_ok, H].
    cbv zeta in H.
    destruct (pre_Dc s from a e ap ep (is_shown (ret_payload (ep_body ep))) caller HD) as (D2 & A2 & S2 & M2).
    set (s2 := ve_early _ _ _ _ _) in *.
    destruct (ep_body ep) as [|x0 b0] eqn:Eb.
    - injection H as <-. auto.
    - destruct (_ || _) in H.
      + injection H as <-. split; [apply Dc_cut; assumption|rewrite syms_cut; exact M2].
      + match type of H with bind ?r _ = _ => destruct r as [s5| | |] eqn:W; try discriminate end.
        cbn [bind] in H. injection H as <-.
        set (R := fun s1 s1' => Dc s1 -> In a (syms s1) -> sender_in s1 from -> Dc s1' /\ incl (syms s1) (syms s1')).
        assert (HR1 : forall s1, R s1 s1) by (intros s1 D1 _ _; split; [exact D1|intros y Hy; exact Hy]).
        assert (HR2 : forall s1 s1' s1'', R s1 s1' -> R s1' s1'' -> R s1 s1'').
        { intros s1 s1' s1'' H1 H2 D1 A1 S1. destruct (H1 D1 A1 S1) as (D' & M').
          assert (A' : In a (syms s1')) by (apply M', A1).
          assert (S' : sender_in s1' from) by (unfold sender_in in *; destruct from; [apply M', S1|exact I]).
          destruct (H2 D' A' S') as (D'' & M''). split; [exact D''|intros y Hy; apply M'', M', Hy]. }
        assert (HR3 : forall s1 ev, walk_ev a (sender_of from) ev -> R s1 (emit s1 ev)).
        { intros s1 ev Hev D1 A1 S1. split; [|intros y Hy; exact Hy]. apply Dc_emit; [|exact D1].
          intros x Hx. destruct ev; cbn in Hev; try contradiction; cbn [ev_parts] in Hx; try (destruct Hx; fail).
          - destruct Hev as [-> ->]. apply in_app_or in Hx as [Hx|[<-|[]]]; [eapply part_sender_in; eassumption|exact A1].
          - subst. destruct Hx as [<-|[]]. exact A1. }
        assert (HR4 : forall s1 t te last s1',
                   visit_endpoint V m f bbs s1 (Some a) t te (Some (snd (activated s2 a (suppr ap)), last)) = Ok s1' -> R s1 s1')
          by (intros s1 t te last s1' Hc D1 _ _; eapply IH; eassumption).
        pose proof (walk_pres _ _ a (sender_of from) R HR1 HR2 HR3 HR4 _ _ _ _ W) as W'.
        assert (D4 : Dc (push_visited (fst (activated s2 a (suppr ap))) a e))
          by (eapply Dc_same; [| | |apply (Dc_activated s2 a (suppr ap) A2 D2)]; reflexivity).
        assert (E4 : syms (push_visited (fst (activated s2 a (suppr ap))) a e) = syms s2)
          by (change (syms (push_visited (fst (activated s2 a (suppr ap))) a e)) with (syms (fst (activated s2 a (suppr ap)))); apply syms_activated).
        assert (A4 : In a (syms (push_visited (fst (activated s2 a (suppr ap))) a e))) by (rewrite E4; exact A2).
        assert (S4 : sender_in (push_visited (fst (activated s2 a (suppr ap))) a e) from)
          by (unfold sender_in in *; destruct from; [rewrite E4; exact S2|exact I]).
        destruct (W' D4 A4 S4) as (D5 & M5). split.
        * match goal with |- Dc (pop_visited (fire ?s ?c) _ _) => eapply Dc_same; [| | |apply (Dc_fire s c D5)]; reflexivity end.
        * match goal with |- incl _ (syms (pop_visited (fire ?s ?c) ?a ?e)) => change (syms (pop_visited (fire s c) a e)) with (syms (fire s c)) end.
          rewrite syms_fire. intros y Hy. apply M5. rewrite E4. apply M2, Hy.
  Qed.

  Lemma run_entries_decl fuel all : forall es bbs s s', run_entries V m fuel all bbs s es = Ok s' -> Dc s -> Dc s'.
  Proof.
    induction es as [|[a e] r IH]; intros bbs s s' H HD; cbn [run_entries] in H; [injection H as <-; exact HD|].
    destruct (lookup m a e); [|discriminate].
    match type of H with bind ?r _ = _ => destruct r as [s1| | |] eqn:W; try discriminate end. cbn [bind] in H.
    apply visit_endpoint_decl in W as (D1 & _); [eapply IH; eassumption|].
    eapply Dc_same; [| | |apply (Dc_emit s (Section a e) (fun x (Hx:In x []) => match Hx with end) HD)]; reflexivity.
  Qed.

  (* the head: the symbol table sorted by (category, first use) - a permutation of it *)
  Lemma insert_cat_perm x l : Permutation (insert_cat x l) (x :: l).
  Proof.
    induction l as [|y t IH]; cbn [insert_cat]; [reflexivity|]. destruct (N.ltb (fst x) (fst y)); [reflexivity|].
    rewrite IH. apply perm_swap.
  Qed.
  Lemma declare_perm ys : Permutation (map fst (declare m ys)) ys.
  Proof.
    unfold declare. rewrite map_map.
    assert (H : forall acc, Permutation (map (fun z => fst (snd z)) (fold_left (fun acc a => insert_cat (fst (cat_of m a), (a, snd (cat_of m a))) acc) ys acc))
                                        (ys ++ map (fun z => fst (snd z)) acc)).
    { induction ys as [|y r IH]; intros acc; cbn [fold_left Datatypes.app]; [reflexivity|].
      rewrite IH. rewrite (Permutation_map _ (insert_cat_perm _ acc)). cbn [map fst snd]. symmetry. apply Permutation_middle. }
    rewrite (H []). cbn [map]. rewrite app_nil_r. reflexivity.
  Qed.

  Theorem seq_declared_once fuel bbs starts d ev :
    gen V m fuel bbs starts = Ok (d, ev) -> NoDup (map fst d) /\ forall x, In x (parts ev) -> In x (map fst d).
  Proof.
    intros H. unfold gen, gen_st in H. destruct (run_entries _ _ _ _ _ _ _) as [s| | |] eqn:R; try discriminate.
    cbn [bind] in H. injection H as <- <-.
    apply run_entries_decl in R as (H1 & H2 & _).
    - split.
      + eapply Permutation_NoDup; [symmetry; apply declare_perm|exact H1].
      + intros x Hx. eapply Permutation_in; [symmetry; apply declare_perm|apply H2, Hx].
    - repeat split; [constructor|intros x []|intros y b []].
  Qed.
End Declared.

(* ================================================================ 7. several start entries: every section starts idle and is balanced *)
Definition is_section (e:event) : bool := match e with Section _ _ => true | _ => false end.
Definition nosec (evs:list event) : Prop := forallb (fun e => negb (is_section e)) evs = true.
Lemma nosec_app x y : nosec x -> nosec y -> nosec (x ++ y).
Proof. unfold nosec. intros Hx Hy. rewrite forallb_app, Hx, Hy. reflexivity. Qed.
Lemma nosec_quiet q : forallb quiet q = true -> nosec q.
Proof.
  unfold nosec. induction q as [|e q IH]; [reflexivity|]. cbn [forallb]. intros H. apply andb_prop in H as [He Hq].
  rewrite (IH Hq). destruct e; try discriminate; reflexivity.
Qed.
Lemma rev_case {A} (l:list A) : l = [] \/ exists l' x, l = l' ++ [x].
Proof. induction l as [|x l' _] using rev_ind; [left; reflexivity|right; eauto]. Qed.
(* a section header that stands in l1 ++ evs, where evs has none, stands in l1 *)
Lemma split_nosec l1 pre a e : forall evs post,
  l1 ++ evs = pre ++ Section a e :: post -> nosec evs -> exists post', l1 = pre ++ Section a e :: post'.
Proof.
  induction evs as [|x evs IH] using rev_ind; intros post H N.
  - rewrite app_nil_r in H. eauto.
  - unfold nosec in N. rewrite forallb_app in N. apply andb_prop in N as [N1 N2]. cbn [forallb] in N2. rewrite andb_true_r in N2.
    rewrite app_assoc in H. destruct (rev_case post) as [->|(post' & y & ->)].
    + change (pre ++ [Section a e]) with (pre ++ [Section a e]) in H. apply app_inj_tail in H as [_ ->]. discriminate.
    + change (pre ++ Section a e :: post' ++ [y]) with (pre ++ (Section a e :: post') ++ [y]) in H. rewrite app_assoc in H.
      apply app_inj_tail in H as [H _]. eapply IH; eassumption.
Qed.

Section Sections.
  Variable V : variant.
  Variable m : module.
  Notation strict := (strict_of V).

  Lemma visit_endpoint_nosec fuel : forall bbs s from a e caller s',
    visit_endpoint V m fuel bbs s from a e caller = Ok s' -> exists evs, ext s s' evs /\ nosec evs.
  Proof.
    induction fuel as [|f IH]; intros bbs s from a e caller s' H; [discriminate|].
    rewrite visit_endpoint_eq in H. destruct (lookup m a e) as [[ap ep]|] eqn:L; [|exfalso; eapply lookup_fail_not_ok, H].
    cbv zeta in H.
    destruct (pre_ext s from a e ap ep (is_shown (ret_payload (ep_body ep))) caller) as (q1 & X1 & Q1).
    set (s2 := ve_early _ _ _ _ _) in *.
    assert (N1 : nosec ((if arrow_drawn from ap ep then [Arrow (sender_of from) a e] else []) ++ q1)).
    { apply nosec_app; [destruct (arrow_drawn from ap ep); reflexivity|apply nosec_quiet, Q1]. }
    destruct (ep_body ep) as [|x b] eqn:Eb.
    - injection H as <-. eauto.
    - destruct (_ || _) in H.
      + injection H as <-. destruct (cut_ext V s2 from a ep (assoc2 (a,e) bbs)) as (q2 & X2 & Q2).
        eexists. split; [eapply ext_trans; eassumption|apply nosec_app; [exact N1|apply nosec_quiet, Q2]].
      + match type of H with bind ?r _ = _ => destruct r as [s5| | |] eqn:W; try discriminate end.
        cbn [bind] in H. injection H as <-.
        destruct (activated_ext s2 a (suppr ap)) as (q2 & X2 & Q2).
        destruct (fire_ext s5 (snd (activated s2 a (suppr ap)))) as (q3 & X3 & Q3).
        apply (walk_pres _ _ a (sender_of from) (fun s s' => exists evs, ext s s' evs /\ nosec evs)) in W.
        * destruct W as (ew & Xw & Nw). eexists. split.
          { eapply ext_trans; [|exact X3]. eapply ext_trans; [|exact Xw]. eapply ext_trans; eassumption. }
          apply nosec_app; [apply nosec_app; [apply nosec_app; [exact N1|apply nosec_quiet, Q2]|exact Nw]|apply nosec_quiet, Q3].
        * intros s1. exists []. split; [apply ext_refl|reflexivity].
        * intros s1 s1' s1'' (e1 & Y1 & M1) (e2 & Y2 & M2). exists (e1 ++ e2). split; [eapply ext_trans; eassumption|apply nosec_app; assumption].
        * intros s1 ev Hev. exists [ev]. split; [apply ext_emit|]. destruct ev; cbn in Hev; try contradiction; reflexivity.
        * intros s1 t te last s1' Hc. eapply IH, Hc.
  Qed.

  (* the judge accepts the body up to every section header, and all counters are zero there *)
  Definition idle_at_sections (evs:list event) : Prop :=
    forall pre a e post, evs = pre ++ Section a e :: post -> exists l, track strict m [] pre = Some l /\ forall x, get x l = 0.
  Definition NoArm (s:st) : Prop := forall i y, ~ arm (cells s) i y.

  Lemma idle_of s : Cn V s -> NoArm s -> forall x, get x (active s) = 0.
  Proof.
    intros C Z x. specialize (C x). rewrite (no_arm_armed (cells s) x Z) in C. unfold cmp in C. destruct strict; lia.
  Qed.

  Lemma run_entries_sec fuel all : forall es bbs s s',
    run_entries V m fuel all bbs s es = Ok s' -> Tr V m s -> Cn V s -> NoArm s -> idle_at_sections (out s) -> idle_at_sections (out s').
  Proof.
    induction es as [|[a e] r IH]; intros bbs s s' H HT HC HZ HS; cbn [run_entries] in H; [injection H as <-; exact HS|].
    destruct (lookup m a e); [|discriminate].
    match type of H with bind ?r _ = _ => destruct r as [s1| | |] eqn:W; try discriminate end. cbn [bind] in H.
    set (s0 := with_visited (emit s (Section a e)) []) in *.
    assert (T0 : Tr V m s0) by (eapply Tr_same; [| |apply (Tr_emit V m s (Section a e) eq_refl HT)]; reflexivity).
    assert (C0 : Cn V s0) by (eapply Cn_same; [| |exact HC]; reflexivity).
    assert (S0 : idle_at_sections (out s0)).
    { intros pre a' e' post E. change (out s0) with (out s ++ [Section a e]) in E.
      destruct (rev_case post) as [->|(post' & y & ->)].
      - apply app_inj_tail in E as [<- _]. exists (active s). split; [exact HT|apply idle_of; assumption].
      - change (pre ++ Section a' e' :: post' ++ [y]) with (pre ++ (Section a' e' :: post') ++ [y]) in E. rewrite app_assoc in E.
        apply app_inj_tail in E as [E _]. eapply HS, E. }
    pose proof W as W2. apply visit_endpoint_nosec in W2 as (evs & X & N).
    apply visit_endpoint_act in W as (T1 & C1 & R1' & _); [|exact T0|exact C0|intros _; exact I].
    eapply IH; [exact H|exact T1|exact C1| |].
    - intros i y Hy. apply R1' in Hy. eapply HZ, Hy.
    - intros pre a' e' post E. unfold ext in X. rewrite X in E. apply split_nosec in E as (post' & E); [|exact N]. eapply S0, E.
  Qed.

  Theorem seq_sections_idle fuel bbs starts d ev :
    gen V m fuel bbs starts = Ok (d, ev) -> idle_at_sections ev.
  Proof.
    intros H. unfold gen, gen_st in H. destruct (run_entries _ _ _ _ _ _ _) as [s| | |] eqn:R; try discriminate.
    cbn [bind] in H. injection H as _ <-.
    eapply run_entries_sec; [exact R| | | |].
    - reflexivity.
    - intros x. unfold cmp. cbn. destruct strict; reflexivity.
    - intros i y Hy. unfold arm in Hy. cbn [cells init] in Hy. destruct i; discriminate.
    - intros pre a e post E. cbn [out init] in E. destruct pre; discriminate.
  Qed.
End Sections.

Lemma n_act_app x l1 l2 : n_act x (l1 ++ l2) = n_act x l1 + n_act x l2.
Proof. unfold n_act. rewrite filter_app, app_length. reflexivity. Qed.
Lemma n_deact_app x l1 l2 : n_deact x (l1 ++ l2) = n_deact x l1 + n_deact x l2.
Proof. unfold n_deact. rewrite filter_app, app_length. reflexivity. Qed.

(* with several start entries (-s repeated, a project endpoint with several calls): when a section header is written
   every participant has been deactivated as often as it was activated *)
Theorem seq_sections_start_idle V m fuel bbs starts d ev :
  gen V m fuel bbs starts = Ok (d, ev) ->
  forall pre a e post, ev = pre ++ Section a e :: post -> forall x, n_act x pre = n_deact x pre.
Proof.
  intros H pre a e post E x. destruct (seq_sections_idle V m _ _ _ _ _ H _ _ _ _ E) as (l & T & Z).
  pose proof (track_counts _ _ _ _ _ T x) as Hc. rewrite Z in Hc. cbn [get] in Hc. lia.
Qed.

(* ... so every section - the events between its header and the next header or the end of the body - is balanced by
   itself: per participant as many deactivations as activations, and no prefix of the section goes negative *)
Theorem seq_section_balanced V m fuel bbs starts d ev :
  gen V m fuel bbs starts = Ok (d, ev) ->
  forall pre a e seg rest, ev = pre ++ Section a e :: seg ++ rest -> (rest = [] \/ exists a' e' r, rest = Section a' e' :: r) ->
  forall x, n_act x seg = n_deact x seg /\ forall p q, seg = p ++ q -> n_deact x p <= n_act x p.
Proof.
  intros H pre a e seg rest E Hrest x.
  pose proof (seq_sections_start_idle _ _ _ _ _ _ _ H pre a e (seg ++ rest) E x) as H0.
  destruct (seq_balanced _ _ _ _ _ _ _ H x) as [Hall Hpre]. split.
  - assert (H1 : n_act x (pre ++ Section a e :: seg) = n_deact x (pre ++ Section a e :: seg)).
    { destruct Hrest as [->|(a' & e' & r & ->)].
      - rewrite app_nil_r in E. rewrite <- E. exact Hall.
      - apply (seq_sections_start_idle _ _ _ _ _ _ _ H (pre ++ Section a e :: seg) a' e' r).
        rewrite E, <- app_assoc. reflexivity. }
    change (pre ++ Section a e :: seg) with (pre ++ [Section a e] ++ seg) in H1.
    rewrite !n_act_app, !n_deact_app in H1. cbn in H1. lia.
  - intros p q ->. specialize (Hpre (pre ++ [Section a e] ++ p) (q ++ rest)).
    rewrite !n_act_app, !n_deact_app in Hpre. cbn in Hpre.
    assert (Hx : n_deact x pre + n_deact x p <= n_act x pre + n_act x p); [|lia].
    apply Hpre. rewrite E, <- !app_assoc. reflexivity.
Qed.

(* three start entries; the second is called by the first (so it is a "see below" upto there) *)
Example seq_sections_nonvacuous :
  exists d ev, gen {| v_lookup_panics := false; v_inprog_unguarded := false; v_nil_panics := false |} inprog_module (fuel_for inprog_module) []
                   [(0%N,0%N); (1%N,0%N); (2%N,0%N)] = Ok (d, ev)
               /\ length (filter is_section ev) = 3 /\ n_act 0%N ev = 2.
Proof. eexists. eexists. vm_compute. repeat split; reflexivity. Qed.
